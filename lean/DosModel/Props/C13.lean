/-
C13 — signature shares reach their request whatever the arrival / registration order.

Theorems about `Dos.Collector` (the body of `queryLoop`), for EVERY event list.
Instances (`Nat`) are pipeline runs (one context + one reply channel each);
request ids (`Rid`) are arbitrary byte strings, the empty one included (since
the repair of F17, /repo 1c42e72, there is no exceptional id).
Helper lemmas: `Proofs/Collector.lean`.
-/
import DosModel.Proofs.Collector
import DosModel.Gen.QueryLoopFacts
import DosModel.Gen.ChainHandlerFacts

namespace Dos.Props.C13
open Dos Dos.Collector

/-- **0. regenerated shape of `queryLoop`** (go/extract/queryloop, from the current source on every
run) = what `Model/Collector.lean` transcribes:
* the four select arms in this order: node context, watchdog, peer message, registration;
* watchdog (`Ev.watchdog`): for every entry of `reqSign` whose OWN context is done – close the
  reply channel, delete the buffer, delete the registration (`gone`);
* peer message (`Ev.arrive` / `Ev.other`): only a `*vss.Signature` counts; key
  `string(content.RequestId)`; membership by the `ok` idiom; registered ⇒ a select over exactly
  `req.ctx.Done()` (drop) and `req.reply <- content` (deliver), NO default arm; not registered ⇒
  append to `bufSign[requestID]`;
* registration (`Ev.register`): unconditional map write `reqSign[req.requestID] = req` (a later
  registration replaces an earlier one), flush of the WHOLE buffer (`len(signs) >= 0`), each share
  through a select over exactly `req.ctx.Done()` and `req.reply <- sign`, then
  `bufSign[req.requestID] = nil`.
A change to any of these lines (another context in a select, a default arm, a guard on the
registration or on the flush, another key) must be re-modelled: it breaks this obligation. -/
theorem c13_code_shape :
    Gen.QueryLoopFacts.queryLoop = [
      "bufSign := make(map[string][]*vss.Signature)",
      "reqSign := make(map[string]request)",
      "peerMsg, _ := d.p.SubscribeMsg(50, vss.Signature{})",
      "watchdog := time.NewTicker(30 * time.Minute)",
      "for",
      "  select",
      "    case <-d.ctx.Done()",
      "      return",
      "    case <-watchdog.C",
      "      for _, req := range reqSign",
      "        select",
      "          case <-req.ctx.Done()",
      "            close(req.reply)",
      "            delete(bufSign, req.requestID)",
      "            delete(reqSign, req.requestID)",
      "          default",
      "    case msg, ok := <-peerMsg",
      "      if ok",
      "        if content, ok := msg.Msg.Message.(*vss.Signature); ok",
      "          requestID := string(content.RequestId)",
      "          if req, ok := reqSign[requestID]; ok",
      "            select",
      "              case <-req.ctx.Done()",
      "              case req.reply <- content",
      "          else",
      "            bufSign[requestID] = append(bufSign[requestID], content)",
      "    case req, ok := <-d.reqSignc",
      "      if ok",
      "        reqSign[req.requestID] = req",
      "        if signs := bufSign[req.requestID]; len(signs) >= 0",
      "          for _, sign := range signs",
      "            select",
      "              case <-req.ctx.Done()",
      "              case req.reply <- sign",
      "          bufSign[req.requestID] = nil"] :=
  rfl

/-- **0b. regenerated: the receiver of a registered reply channel keeps receiving until the request's
context ends** (what `drain = true` in `Collector.stepB` stands for; finding F20, /repo 3a1c0bc).
`handleQuery` hands `dispatchSign`'s output channel – the `reply` of the registration
(`Props.C01.c01_request_id_shape`: `registeredReply = "out"`, `registeredCtx = "ctx"`) – to `recoverSign`
as its `signc`, with the SAME context; the goroutine of `recoverSign` defers `drainSigns(ctx, signc)`
FIRST, so it runs last, after `out` and `errc` are closed; and `drainSigns` is a loop over a select with
exactly two arms: receive from `signc` (return only when it is CLOSED) and `ctx.Done()` (return). -/
theorem c13_stage_drains :
    Gen.QueryLoopFacts.recoverSignParams = ["ctx", "signc", "suite", "pubPoly", "nbThreshold", "nbParticipants", "logger"]
    ∧ Gen.QueryLoopFacts.recoverSignDefers = ["drainSigns(ctx, signc)", "close(out)", "close(errc)"]
    ∧ Gen.QueryLoopFacts.drainSignsParams = ["ctx", "signc"]
    ∧ Gen.QueryLoopFacts.drainSigns = [
      "for",
      "  select",
      "    case _, ok := <-signc",
      "      if !ok",
      "        return",
      "    case <-ctx.Done()",
      "      return"]
    ∧ (Gen.ChainHandlerFacts.handleQueryStages.drop 6).take 2 = [
      "signAllc := dispatchSign(queryCtxWithValue, submitterc[1], signc, d.reqSignc, d.p, requestID.Bytes(), (len(ids)/2 + 1), d.logger)",
      "recoveredSignc, errc := recoverSign(queryCtxWithValue, signAllc, d.suite, pubPoly, (len(ids)/2 + 1), len(ids), d.logger)"] :=
  ⟨rfl, rfl, rfl, rfl, rfl⟩

/-- **0c. the watchdog arm is run on the real statements** (Review A #7).  `queryLoop` creates its
30-minute ticker itself; the hook `VerifQueryLoopTick(tick)` (dosnode/zz_verif_c13.go, build tag verif)
is a copy with that ticker replaced by an injected channel.  Regenerated with the same walker: the
copy's statement skeleton IS `queryLoop`'s, up to exactly the ticker's creation (left out) and
`watchdog.C` reading `tick` – so the `w` events of the correspondence run execute the statements
`c13_code_shape` pins.  An edit of `queryLoop` that is not mirrored in the hook breaks this. -/
theorem c13_tick_hook_is_queryLoop :
    Gen.QueryLoopFacts.queryLoopTickParams = ["tick <-chan time.Time"]
    ∧ Gen.QueryLoopFacts.queryLoopTick.map (fun l => if l = "    case <-tick" then "    case <-watchdog.C" else l)
      = Gen.QueryLoopFacts.queryLoop.filter (fun l => l != "watchdog := time.NewTicker(30 * time.Minute)") := by
  decide

/-- **1. exactly once per delivery, before or after registration.**  If instance `h` registers
for request id `r` at any position of the schedule, nobody else registers for `r`, `h` registers
nowhere else and is not cancelled, then what `h` receives is exactly the list of shares that
arrived for `r` – same order, same multiplicity (a share delivered twice by a peer is handed
over twice) – whatever else happens (other requests, their registrations, re-registrations,
cancellations, watchdog ticks, foreign messages) and wherever the registration falls. -/
theorem delivered_eq_arrivals (es₁ es₂ : List Ev) (h : Nat) (r : Rid)
    (hreg : ∀ h' r', Ev.register h' r' ∈ es₁ ++ es₂ → r' ≠ r ∧ h' ≠ h)
    (hcan : Ev.cancel h ∉ es₁ ++ es₂) :
    deliveries (es₁ ++ Ev.register h r :: es₂) h = arrivalsFor r (es₁ ++ Ev.register h r :: es₂) := by
  have q1 : Quiet h r es₁ :=
    ⟨fun h' r' hm => hreg h' r' (List.mem_append_left _ hm), fun hm => hcan (List.mem_append_left _ hm)⟩
  have q2 : Quiet h r es₂ :=
    ⟨fun h' r' hm => hreg h' r' (List.mem_append_right _ hm), fun hm => hcan (List.mem_append_right _ hm)⟩
  obtain ⟨a1, a2, a3, a4, a5⟩ := phase_before h r es₁ init good_init rfl (fun _ => by simp [init]) rfl q1
  have g1 : Good (run init es₁).1 := good_run es₁ init good_init
  rw [deliveries_eq, run_append, run_cons]
  simp only [deliv_append, arrivalsFor_append, arrivalsFor, a5, List.nil_append]
  have a4' : (run init es₁).1.buf r = arrivalsFor r es₁ := by rw [a4]; rfl
  have hB : deliv (step (run init es₁).1 (.register h r)).2 h = arrivalsFor r es₁ := by
    simp [step, a3, a4', deliv_map_self]
  have hC := phase_after h r es₂ (step (run init es₁).1 (.register h r)).1
    (by simp [step, upd])
    (by intro r' hr'
        by_cases hrr : r' = r
        · exact hrr
        · simp [step, upd, hrr] at hr'; exact absurd hr' (a2 r'))
    (by simp [step, a3]) q2
  rw [hB, hC]

/-- **1b. never duplicated, never reordered, never invented – for EVERY schedule.**  The shares
with request id `r` that the collector hands out (to whichever instance) form a sublist of the
shares that arrived for `r`: each delivery of a peer is handed over at most once and in order,
even with re-registrations, cancellations and watchdog ticks. -/
theorem delivered_sublist (es : List Ev) (r : Rid) :
    (((outputs es).map (·.2)).filter (fun s => s.rid = r)).Sublist (arrivalsFor r es) := by
  have := run_sublist r es init good_init
  simpa [init, outputs] using this

/-- **2. no crossover.**  Every share handed to instance `h` carries a request id under which `h`
registered (so with one registration per pipeline: exactly its own request id). -/
theorem no_crossover (es : List Ev) (h : Nat) (s : Share) (hm : (h, s) ∈ outputs es) :
    Ev.register h s.rid ∈ es := by
  have := run_out_mem es init [] (by simp [init]) (by simp [init]) (h, s) hm
  simpa using this

theorem no_crossover_own_id (es : List Ev) (h : Nat) (r : Rid)
    (honly : ∀ r', Ev.register h r' ∈ es → r' = r) : ∀ s ∈ deliveries es h, s.rid = r := by
  intro s hs
  simp only [deliveries, List.mem_map, List.mem_filter] at hs
  obtain ⟨p, ⟨hp, hph⟩, rfl⟩ := hs
  have : p = (h, p.2) := by
    have : p.1 = h := by simpa using hph
    rw [← this]
  rw [this] at hp
  exact honly _ (no_crossover es h p.2 hp)

/-- **3a. a cancelled (or completed) request receives nothing more.** -/
theorem cancel_stops (es₁ es₂ : List Ev) (h : Nat) :
    deliveries (es₁ ++ Ev.cancel h :: es₂) h = deliveries es₁ h := by
  rw [deliveries_eq, run_append, run_cons, deliveries_eq]
  simp only [deliv_append]
  have := done_mono h es₂ (step (run init es₁).1 (.cancel h)).1 (by simp [step])
  rw [this.2]; simp [step]

/-- **3b. … and leaves the collector able to serve every other request.**  For an instance `h'`
that never uses a request id used by `h`, the cancellation of `h` – at any point – changes nothing:
it receives exactly what it would have received without it. -/
theorem cancel_isolated (es₁ es₂ : List Ev) (h h' : Nat)
    (hdisj : ∀ r, Ev.register h r ∈ es₁ ++ es₂ → Ev.register h' r ∉ es₁ ++ es₂) :
    deliveries (es₁ ++ Ev.cancel h :: es₂) h' = deliveries (es₁ ++ es₂) h' := by
  let R : Rid → Prop := fun r => Ev.register h r ∈ es₁ ++ es₂
  have hR1 : ∀ r, Ev.register h r ∈ es₁ → R r := fun r hm => List.mem_append_left _ hm
  have hR2 : ∀ r, Ev.register h r ∈ es₂ → R r := fun r hm => List.mem_append_right _ hm
  have hR1' : ∀ r, Ev.register h' r ∈ es₁ → ¬ R r := fun r hm hr => hdisj r hr (List.mem_append_left _ hm)
  have hR2' : ∀ r, Ev.register h' r ∈ es₂ → ¬ R r := fun r hm hr => hdisj r hr (List.mem_append_right _ hm)
  have r0 : Rel R h h' init init := rel_refl_of R h h' init (by simp [init]) (by simp [init])
  obtain ⟨rel1, _⟩ := rel_run R h h' es₁ hR1 hR1' init init r0
  have rel1' : Rel R h h' (step (run init es₁).1 (.cancel h)).1 (run init es₁).1 := by
    constructor
    · intro x hx; simp [step, hx]
    · intro r hr; exact ⟨rfl, rfl⟩
    · exact rel1.notH
    · intro r hr; exact ⟨(rel1.notH' r hr).1, (rel1.notH' r hr).1⟩
  obtain ⟨_, e2⟩ := rel_run R h h' es₂ hR2 hR2' _ _ rel1'
  rw [deliveries_eq, run_append, run_cons, deliveries_eq, run_append]
  simp only [deliv_append]
  rw [e2]; simp [step]

/-- **3c. a request that COMPLETES leaves the collector able to serve every other request**
(Review A #3, finding F20).  `finish h` marks the moment the recovery stage of `h` returns after its
single report; its query context stays live until `handleQuery` returns (after the chain call).
The statement: the loop goroutine never waits for ever in a send, for every schedule of loop events
and completions. -/
def C13_never_blocks (drain : Bool) : Prop :=
  ∀ es : List EvB, (runB drain initB es).blockedAt = none

/-- … true for the code as it is since /repo 3a1c0bc (`defer drainSigns(ctx, signc)` in `recoverSign`,
pinned by `c13_stage_drains`): every schedule runs through, and the sends are exactly those of the
delivery model `run` on the loop's own events – so theorems 1–5 and 3a/3b above hold verbatim for
schedules with completions (`toEvs` drops the marks). -/
theorem repaired_never_blocks : C13_never_blocks true := by
  intro es
  obtain ⟨sb', h1, _⟩ := runB_drain es initB
  rw [h1]; rfl

theorem repaired_sends (es : List EvB) : (runB true initB es).sends = outputs (toEvs es) := by
  obtain ⟨sb', h1, _⟩ := runB_drain es initB
  rw [h1]; rfl

/-- a completion changes nothing for anybody: what the repaired loop hands to any instance `h'` in a
schedule with the completion of `h` is what it hands over without it -/
theorem completion_invisible (es₁ es₂ : List EvB) (h h' : Nat) :
    deliv (runB true initB (es₁ ++ EvB.finish h :: es₂)).sends h' = deliv (runB true initB (es₁ ++ es₂)).sends h' := by
  rw [repaired_sends, repaired_sends]
  have : ∀ a b : List EvB, toEvs (a ++ b) = toEvs a ++ toEvs b := by
    intro a b
    induction a with
    | nil => rfl
    | cons e a ih => cases e <;> simp [toEvs, ih]
  rw [this, this]; rfl

/-- whichever variant: a run that gets through performed exactly the sends of the delivery model -/
theorem unblocked_sends (drain : Bool) (es : List EvB) (h : (runB drain initB es).blockedAt = none) :
    (runB drain initB es).sends = outputs (toEvs es) := by
  cases hr : runB drain initB es with
  | blocked h0 s0 => rw [hr] at h; cases h
  | ok sb' o => exact (runB_ok_sends drain es initB sb' o hr).1

/-- **negation witness for the code BEFORE 3a1c0bc** (`drain = false`): instance 0 registers for request
`[1]`, its stage reports and returns, the next share for `[1]` arrives (with n > t members there is
always one): the loop waits in that send – the share for request `[2]` behind it is never taken.
Replayed on the real loop with the real `recoverSign` as receiver: corpus/C13/f20_completion_window.txt. -/
theorem old_blocks_witness :
    (runB false initB [.ev (.register 0 [1]), .finish 0, .ev (.arrive ⟨[1], 2⟩), .ev (.arrive ⟨[2], 3⟩)]).blockedAt
      = some (0, ⟨[1], 2⟩) := by decide

theorem old_blocks : ¬ C13_never_blocks false := by
  intro h
  have := h [.ev (.register 0 [1]), .finish 0, .ev (.arrive ⟨[1], 2⟩), .ev (.arrive ⟨[2], 3⟩)]
  rw [old_blocks_witness] at this
  cases this

/-- **3d. a request id that is registered AGAIN** (a later incarnation `h` of id `r`: duplicate chain event,
or an id re-used after the first pipeline completed / was cancelled / is still running).  `h` is new
before its registration (`es₁`: any history, earlier incarnations of `r` included) and afterwards
undisturbed (`es₂`).  Then `h` receives exactly: what the buffer of `r` holds at that moment – a sublist
of the shares that arrived for `r` so far, EMPTY whenever an earlier incarnation is still registered
(swept or not, live or done) – followed by every share arriving for `r` after its registration, in
order.  So no share is handed over twice across incarnations, none that did not arrive for the id `r`;
the collector routes BY ID ONLY: a share of the earlier incarnation that arrives late does reach the
later one, and it is the stage that counts it only if its content and type are the pipeline's own
(`Query.accepts`, `Props.C01.report_valid`: the F18 guard) – checked on the real loop with the real
`recoverSign` by the `inc` cases (oracle `foreign-content-counted`).  What the property cannot promise
for a re-used id, and the code does not do: shares arriving while the EARLIER incarnation holds the
registration go to it (or are dropped when its context is done, until the watchdog sweeps it). -/
theorem later_incarnation_served (es₁ es₂ : List Ev) (h : Nat) (r : Rid)
    (hfresh : ∀ r', Ev.register h r' ∉ es₁) (hcan : Ev.cancel h ∉ es₁) (hq : Quiet h r es₂) :
    deliveries (es₁ ++ Ev.register h r :: es₂) h = (run init es₁).1.buf r ++ arrivalsFor r es₂
    ∧ ((run init es₁).1.buf r).Sublist (arrivalsFor r es₁)
    ∧ ((run init es₁).1.reg r ≠ none → (run init es₁).1.buf r = []) := by
  obtain ⟨f1, f2, f3⟩ := fresh_phase h es₁ init (by simp [init]) rfl hfresh hcan
  have g1 : Good (run init es₁).1 := good_run es₁ init good_init
  refine ⟨?_, by simpa [init] using buf_sublist r es₁ init, g1.regEmpty r⟩
  rw [deliveries_eq, run_append, run_cons]
  simp only [deliv_append, f3, List.nil_append]
  have hB : deliv (step (run init es₁).1 (.register h r)).2 h = (run init es₁).1.buf r := by
    simp [step, f2, deliv_map_self]
  have hC := phase_after h r es₂ (step (run init es₁).1 (.register h r)).1
    (by simp [step, upd])
    (by intro r' hr'
        by_cases hrr : r' = r
        · exact hrr
        · simp [step, upd, hrr] at hr'; exact absurd hr' (f1 r'))
    (by simp [step, f2]) hq
  rw [hB, hC]

/-- **4. the buffer is cleared by the registration** (no double delivery by a later flush) … -/
theorem buffer_cleared (es : List Ev) (h : Nat) (r : Rid) :
    (run init (es ++ [Ev.register h r])).1.buf r = [] := by
  rw [run_append]; simp [run, step, upd]

/-- … and stays empty as long as the request is registered, in every reachable state. -/
theorem registered_buffer_empty (es : List Ev) (r : Rid)
    (hr : (run init es).1.reg r ≠ none) : (run init es).1.buf r = [] :=
  (good_run es init good_init).regEmpty r hr

/-- **5. shares that arrive before anybody registers are kept** (none lost while waiting). -/
theorem buffered_until_registered (es : List Ev) (r : Rid)
    (hno : ∀ h' r', Ev.register h' r' ∈ es → r' ≠ r) :
    (run init es).1.buf r = arrivalsFor r es := by
  -- instance number: any `h` that does not occur; the statement about `h` is not used
  have key : ∀ (es : List Ev) (st : St), st.reg r = none →
      (∀ h' r', Ev.register h' r' ∈ es → r' ≠ r) →
      (run st es).1.reg r = none ∧ (run st es).1.buf r = st.buf r ++ arrivalsFor r es := by
    intro es
    induction es with
    | nil => intro st h1 _; simp [run, arrivalsFor, h1]
    | cons e es ih =>
      intro st h1 hno
      have hno' : ∀ h' r', Ev.register h' r' ∈ es → r' ≠ r := fun h' r' hm => hno h' r' (List.mem_cons_of_mem _ hm)
      rw [run_cons]
      cases e with
      | arrive s =>
        cases hr : st.reg s.rid with
        | some h0 =>
          have hsr : s.rid ≠ r := fun hh => by rw [hh, h1] at hr; cases hr
          have hst : (step st (.arrive s)).1 = st := by by_cases hd : st.done h0 <;> simp [step, hr, hd]
          rw [hst]; simpa [arrivalsFor, hsr] using ih st h1 hno'
        | none =>
          rw [step_arrive_none hr]
          have := ih { st with buf := upd st.buf s.rid (st.buf s.rid ++ [s]) } h1 hno'
          refine ⟨this.1, ?_⟩
          rw [this.2]
          by_cases hs : s.rid = r
          · subst hs; simp [arrivalsFor, upd]
          · have : r ≠ s.rid := fun h => hs h.symm
            simp [arrivalsFor, hs, upd, this]
      | register h0 r0 =>
        have hrr : r ≠ r0 := fun hh => hno h0 r0 (by simp) hh.symm
        have := ih (step st (.register h0 r0)).1 (by simp [step, upd, hrr, h1]) hno'
        refine ⟨this.1, ?_⟩
        rw [this.2]; simp [step, upd, hrr, arrivalsFor]
      | cancel h0 =>
        have := ih (step st (.cancel h0)).1 (by simp [step, h1]) hno'
        simpa [step, arrivalsFor] using this
      | watchdog =>
        have := ih (step st .watchdog).1 (by simp [step, gone, h1]) hno'
        refine ⟨this.1, ?_⟩
        rw [this.2]; simp [step, gone, h1, arrivalsFor]
      | other =>
        have := ih st h1 hno'
        simpa [step, arrivalsFor] using this
  simpa [init] using (key es init rfl hno).2

/-! ### non-vacuity: concrete schedules -/

private def sh (r : Nat) (t : Nat) : Share := { rid := [UInt8.ofNat r], tag := t }

/-- two requests interleaved, one registered late, one early; a foreign message and a watchdog tick -/
private def demo : List Ev :=
  [.arrive (sh 1 0), .arrive (sh 2 1), .other, .register 7 [1], .arrive (sh 1 4), .watchdog,
   .register 8 [2], .arrive (sh 2 7), .arrive (sh 1 8)]

example : deliveries demo 7 = [sh 1 0, sh 1 4, sh 1 8] ∧ deliveries demo 8 = [sh 2 1, sh 2 7] := by decide
example : arrivalsFor [1] demo = [sh 1 0, sh 1 4, sh 1 8] := by decide
/-- theorem 1 instantiated on `demo` split at the registration of instance 7: both hypotheses hold
(the only other registration is instance 8 for request id `[2]`; instance 7 is never cancelled) -/
example : deliveries demo 7 = arrivalsFor [1] demo :=
  delivered_eq_arrivals [.arrive (sh 1 0), .arrive (sh 2 1), .other]
    [.arrive (sh 1 4), .watchdog, .register 8 [2], .arrive (sh 2 7), .arrive (sh 1 8)] 7 [1]
    (by intro h' r' hm
        simp at hm
        obtain ⟨rfl, rfl⟩ := hm
        decide)
    (by decide)
/-- cancellation: instance 7 stops receiving, instance 8 is unaffected; the empty request id works -/
example : deliveries [.register 7 [], .arrive ⟨[], 1⟩, .cancel 7, .arrive ⟨[], 3⟩, .register 8 [2], .arrive (sh 2 5)] 7
    = [⟨[], 1⟩] := by decide
example : deliveries [.register 7 [], .arrive ⟨[], 1⟩, .cancel 7, .arrive ⟨[], 3⟩, .register 8 [2], .arrive (sh 2 5)] 8
    = [sh 2 5] := by decide

/-- completions: the same schedule on the repaired loop – request `[2]` is served, the late share of
`[1]` goes to the drain of instance 0 -/
example : (runB true initB [.ev (.register 0 [1]), .finish 0, .ev (.arrive ⟨[1], 2⟩), .ev (.register 1 [2]),
    .ev (.arrive ⟨[2], 4⟩)]).sends = [(0, ⟨[1], 2⟩), (1, ⟨[2], 4⟩)] := by decide
example : (runB true initB [.ev (.register 0 [1]), .finish 0, .ev (.arrive ⟨[1], 2⟩)]).blockedAt = none :=
  repaired_never_blocks _
/-- the old loop is fine as long as the context ends before the next share (`cancel` after `finish`) -/
example : (runB false initB [.ev (.register 0 [1]), .finish 0, .ev (.cancel 0), .ev (.arrive ⟨[1], 3⟩)]).blockedAt = none := by
  decide
/-- `cancel_isolated` instantiated: instance 7 (request `[1]`) cancelled, instance 8 (request `[2]`) -/
example : deliveries ([.register 7 [1], .register 8 [2], .arrive (sh 2 2)] ++ Ev.cancel 7 :: [.arrive (sh 1 4), .arrive (sh 2 5)]) 8
    = deliveries ([.register 7 [1], .register 8 [2], .arrive (sh 2 2)] ++ [.arrive (sh 1 4), .arrive (sh 2 5)]) 8 :=
  cancel_isolated _ _ 7 8 (by
    intro r hr
    simp at hr
    intro h8
    simp at h8
    obtain ⟨_, rfl⟩ := hr
    simp at h8)
/-- `delivered_sublist` instantiated on a schedule with a re-registration and a cancellation -/
example : (((outputs [.arrive (sh 1 0), .register 7 [1], .arrive (sh 1 2), .cancel 7, .arrive (sh 1 4), .register 9 [1],
      .arrive (sh 1 6)]).map (·.2)).filter (fun s => s.rid = [1])).Sublist
    (arrivalsFor [1] [.arrive (sh 1 0), .register 7 [1], .arrive (sh 1 2), .cancel 7, .arrive (sh 1 4), .register 9 [1],
      .arrive (sh 1 6)]) := delivered_sublist _ _
example : ((outputs [.arrive (sh 1 0), .register 7 [1], .arrive (sh 1 2), .cancel 7, .arrive (sh 1 4), .register 9 [1],
      .arrive (sh 1 6)]).map (·.2)) = [sh 1 0, sh 1 2, sh 1 6] := by decide

/-- `later_incarnation_served`: instance 7 completes (cancel), a share arrives late and is dropped, instance 9
registers the same id and gets exactly what arrives afterwards; with the earlier incarnation swept by the
watchdog first, the late share is buffered and handed to instance 9 -/
example : deliveries ([.register 7 [1], .arrive (sh 1 1), .cancel 7, .arrive (sh 1 3)] ++ Ev.register 9 [1] :: [.arrive (sh 1 5)]) 9
    = (run init [.register 7 [1], .arrive (sh 1 1), .cancel 7, .arrive (sh 1 3)]).1.buf [1] ++ arrivalsFor [1] [.arrive (sh 1 5)] :=
  (later_incarnation_served _ _ 9 [1] (by intro r' hm; simp at hm) (by decide)
    ⟨by intro h' r' hm; simp at hm, by decide⟩).1
example : deliveries [.register 7 [1], .arrive (sh 1 1), .cancel 7, .arrive (sh 1 3), .register 9 [1], .arrive (sh 1 5)] 9 = [sh 1 5]
    ∧ deliveries [.register 7 [1], .arrive (sh 1 1), .cancel 7, .watchdog, .arrive (sh 1 4), .register 9 [1], .arrive (sh 1 6)] 9
      = [sh 1 4, sh 1 6] := by decide

/-- request ids are EXACT byte strings (`string(content.RequestId)`, `c13_code_shape`): `07` and `0007` – the
same number under any fixed-width re-encoding – are two requests with two slots; `no_crossover` is about the
exact id.  (Seed C13g-1 keyed the maps by the id padded to 32 bytes: shares of one crossed over to the other.) -/
example : deliveries [.register 1 [7], .arrive ⟨[0, 7], 1⟩, .arrive ⟨[7], 2⟩, .register 2 [0, 7], .arrive ⟨[7], 4⟩, .arrive ⟨[], 5⟩] 1
      = [⟨[7], 2⟩, ⟨[7], 4⟩]
    ∧ deliveries [.register 1 [7], .arrive ⟨[0, 7], 1⟩, .arrive ⟨[7], 2⟩, .register 2 [0, 7], .arrive ⟨[7], 4⟩, .arrive ⟨[], 5⟩] 2
      = [⟨[0, 7], 1⟩] := by decide

end Dos.Props.C13

/-
C12 — no peer message, event field or fetched document can crash the node.

Panic-freedom = totality of the handler models (`Model/Handlers*.lean`): every place where the Go
code could panic is a `panic site` branch of the model, protected by the guard the code has; the
theorems say that, for EVERY message, field combination, state and history, no handler takes
such a branch, and the serving loops stay alive and still serve a following valid message.

Tie to the code (re-established on every run):
* `inventory_matches`, `reach_closed` — the panic-site inventory regenerated from /repo (extractor E5)
  agrees, key by key and guard by guard, with the hand-maintained map site → model clause;
  a new, vanished or re-guarded site breaks these;
* `guards_present` — every guard the models rely on is found in the regenerated inventory,
  i.e. the configuration of the code as it is (`Cfg.current`) is the all-guards one;
  all totality theorems are stated for `Cfg.current`.
Third-party decoders (protobuf, dedis/protobuf, ajson, xmlquery, serf) are not modelled: their
inputs are fuzzed by the harness (see meta/C12.json "partial").
-/
import DosModel.Proofs.Handlers
import DosModel.Proofs.HandlersDkg
import DosModel.Proofs.HandlersNode
import DosModel.Proofs.HandlersIso
import DosModel.Proofs.HandlersChain
import DosModel.Proofs.HandlersDoc
import DosModel.Proofs.HandlersLive

namespace Dos.Props.C12
open Dos Dos.Handlers

/-! ### the inventory -/

set_option maxRecDepth 16384 in
/-- every extracted site has exactly one table entry with exactly the extracted guard, and vice versa -/
theorem inventory_matches : pairsGen = pairsTable := by rfl

/-- no function of the anchored files is called from the reach set without being classified -/
theorem reach_closed : Gen.PanicSites.unlisted = [] := by rfl

/-- every entry classified `.guarded` (safe because of the guard / structural fact the extractor found,
not modelled) has, in the regenerated inventory, a guard of a class that suffices for its kind: nil
comparison of the dereferenced operand, `len`/`range` bound of the indexed value, comma-ok form, plain
map read, deferred close of a channel made by the same function, write to a map made by the same function -/
theorem guarded_sites_checked : guardedOK = true := by decide +kernel

/-- how the sites are accounted for: (modelled — flag / cross-function flag / model branch —,
safe by extracted guard (checked above), safe by prose argument: the trusted classifications) -/
theorem classification_counts : classCounts = (101, 142, 119) := by decide +kernel

/-- the session layer has exactly three statement lists that close a reply channel — completion in
`handlePeerMsg`, completion in `handleRequest`, the expiry sweep in `Loop` —; their clean-up operations
(regenerated: which map each `delete` clears, how many `close`s, no send after the close) are what
`Cfg.current.peerClean / reqClean / expClean` feed into the model, and `guards_present` below pins all
three to the complete clean-up (buffer AND registration deleted, channel closed once) on which the
invariant of `session_layer_total` rests. A `delete` of the wrong map or a dropped one turns the flag
off: the model then keeps the registration with its closed channel and predicts the later panic. -/
theorem cleanup_paths : cleanupPaths = ["dkg.handlePeerMsg", "dkg.handleRequest", "dkg.Loop"] := by decide

/-- every guard the models rely on is present in the current source -/
theorem guards_present : Cfg.current = Cfg.all := by decide +kernel

/-! ### key generation -/

/-- **pdkg.Loop session layer**: for every sequence of peer messages (public keys, deals, responses
with or without sub-message, any indices, any session ids), registrations (any expected count,
also 0 and negative) and expiry sweeps (8d5de85: any set of session contexts done, at any point),
`handlePeerMsg` / `handleRequest` / the sweep never use the zero-value request (nil context), never
close a reply channel twice — a registration in the map always has an open reply channel, distinct
from every other one (`SessInv`) — and the loop stays alive. -/
theorem session_layer_total (evs : List SessEv) :
    (sessRun Cfg.current {} evs).1.alive = true ∧ ∀ o ∈ (sessRun Cfg.current {} evs).2, o.isPanic = false := by
  rw [guards_present]
  have := sessRun_inv evs {} sessInit_inv
  exact ⟨this.1.alive, this.2⟩

/-- **sessions do not interfere** (the maps of the loop are keyed by session id): in ANY event list —
junk, duplicates and registrations of other sessions, expiry sweeps that do not report `s'` done —
the events of session `s'` are answered exactly as if they were alone (`vrun` sees only `s'`'s
buffer and expected count). -/
theorem sessions_independent (s' : String) (evs : List SessEv)
    (hx : ∀ e ∈ evs, ∀ d, e = .expire d → d.contains s' = false) :
    outsFor s' evs (sessRun Cfg.current {} evs).2 = vrun ⟨[], none⟩ (evs.filter (touches s')) := by
  rw [guards_present]
  have := outsFor_eq_vrun s' evs hx {} sessInit_inv
  simpa [view, alookup] using this

/-- **the node keeps serving OTHER sessions**: whatever is sent about any other session S (junk
included, before, during and after), a complete honest exchange of a different session `s'` among
`n + 1` members ends with all `n` peer messages handed to its stage. -/
theorem other_session_still_served (s' : String) (n : Nat) (hn : 0 < n) (evs : List SessEv)
    (hx : ∀ e ∈ evs, ∀ d, e = .expire d → d.contains s' = false)
    (hrun : evs.filter (touches s') = honestRun s' n) :
    (outsFor s' evs (sessRun Cfg.current {} evs).2).getLast? = some (.ok s!"fire {n}") := by
  rw [sessions_independent s' evs hx, hrun]
  exact vrun_honest s' n hn

/-- **exchangePub**: any mix of element types in any batching is an error or a wait, never a failed assertion -/
theorem exchangePub_total (n : Nat) (self : Elem) (bs : List (List Elem)) :
    (exchangePub Cfg.current n self bs).isPanic = false := by
  rw [guards_present]; exact Handlers.exchangePub_total n self bs

/-- what exchangePub hands to the next stage has exactly `n` keys (the hypothesis of the next theorem) -/
theorem exchangePub_hands_over_n (n : Nat) (self : Elem) (bs : List (List Elem)) (i : String)
    (h : exchangePub Cfg.current n self bs = .ok i) : i = toString n := by
  rw [guards_present] at h
  cases self with
  | other => simp [exchangePub] at h
  | good j sd hk => exact xpubLoop_count n bs 1 i h

/-- **genDistKeyGenerator → NewDistKeyGenerator → NewDealer** on the `n` public-key messages
`exchangePub` hands over: any index (also ≥ n), missing / identity / undecodable key, duplicates. -/
theorem genDistKeyGenerator_total (n : Nat) (pubs : List PubMsg) (hlen : pubs.length = n) :
    (genDkg Cfg.current n pubs).isPanic = false := by
  rw [guards_present]; exact genDkg_total n pubs hlen

/-- **ProcessDeal / ProcessResponse** in any order, any number of times, on any generator state:
missing sub-messages, out-of-range indices, bad signatures, undecodable keys, any nonce length,
boxes that do not open or do not decode, deals without share / share value, any threshold,
responses about unknown or failed deals, duplicates, responses about the own deal. -/
theorem deal_response_total (st : DkgSt) (ops : List DkgOp) :
    ∀ o ∈ (dkgRun Cfg.current st ops).2, o.isPanic = false := by
  rw [guards_present]; exact dkgRun_total ops st

/-- … and the generator keeps serving WITHIN the same session: after ANY such history an honest deal
from a member that has not dealt yet is approved. The hypothesis `hnew` (no verifier stored under that
dealer index yet) is essential and is exactly the code's behaviour: `ProcessDeal` stores the verifier
before it looks at the deal, so ONE junk deal under index j makes the genuine deal of j "already
received" and the stage of THIS session gives up (a peer can abort the session it takes part in: C05).
What the property asks for — other sessions and requests keep being served — is
`other_session_still_served`, `other_session_deals_served` and `queryLoop_still_serves`. -/
theorem honest_deal_still_served (st : DkgSt) (ops : List DkgOp) (idx t : Nat)
    (hidx : idx < st.n) (hme : st.me < st.n) (ht : validT t st.n = true)
    (hnew : vlookup idx (dkgRun Cfg.current st ops).1.vers = none)
    (hn : (dkgRun Cfg.current st ops).1.n = st.n) (hm : (dkgRun Cfg.current st ops).1.me = st.me) :
    (processDeal Cfg.current (dkgRun Cfg.current st ops).1 (honestDeal idx st.me t)).2 = .ok "approval" := by
  rw [guards_present] at *
  have := honest_deal_served (dkgRun Cfg.all st ops).1 idx t (by rw [hn]; exact hidx) hnew (by rw [hn]; exact ht) (by rw [hn, hm]; exact hme)
  rw [hm] at this; exact this

/-- **another session has its own generator**: whatever happened in other sessions (their
`DistKeyGenerator`s are different objects: `DkgSt` is per session), in a new session the honest deals
of all other members are approved one after the other. -/
theorem other_session_deals_served (n me t : Nat) (hme : me < n) (ht : validT t n = true) (dealers : List Nat)
    (hnd : dealers.Nodup) (hd : ∀ i ∈ dealers, i < n ∧ i ≠ me) :
    ∀ o ∈ (dkgRun Cfg.current (DkgSt.init n me) (dealers.map (fun i => .deal (honestDeal i me t)))).2, o = .ok "approval" := by
  rw [guards_present]
  apply honest_deals_run t dealers (DkgSt.init n me) hme ht hnd
  intro i hi
  have := hd i hi
  refine ⟨this.1, ?_⟩
  simp [DkgSt.init, vlookup, Ne.symm this.2]

/-- **genGroup → DistKeyShare**: after ANY history of deals and responses every aggregator the
generator holds stores a deal whose share has a value, so `DistKeyShare` never dereferences a missing
deal or a nil scalar (this is what rejecting a value-less share before the aggregator exists buys). -/
theorem distKeyShare_total (n me : Nat) (ops : List DkgOp) :
    (distKeyShare (dkgRun Cfg.current (DkgSt.init n me) ops).1).isPanic = false := by
  rw [guards_present]
  exact distKeyShare_good _ (dkgRun_good ops _ (goodVers_init n me))

/-- the two stages entered after the context ended (no generator) or with an element of another type -/
theorem stage_entry_total (haveDkg : Bool) (e : Elem) :
    (stageEntry Cfg.current.dealsDkgNil haveDkg "s").isPanic = false ∧ (stageCast Cfg.current.dealsCast e "s").isPanic = false ∧
    (stageEntry Cfg.current.respsDkgNil haveDkg "s").isPanic = false ∧ (stageCast Cfg.current.respsCast e "s").isPanic = false := by
  rw [guards_present]
  cases haveDkg <;> cases e <;> simp [stageEntry, stageCast]

theorem decodePubKey_total (len : Nat) : (decodePubKey Cfg.current len).isPanic = false := by
  rw [guards_present]; exact Handlers.decodePubKey_total len

theorem toBigInt_total (len : Nat) : (toBigInt Cfg.current len).isPanic = false := by
  rw [guards_present]; exact Handlers.toBigInt_total len

/-! ### collector, recovery, event handlers -/

/-- **queryLoop**: any sequence of shares (any request id, also empty), other messages and registrations -/
theorem queryLoop_total (evs : List QEv) :
    (qRun Cfg.current {} evs).1.alive = true ∧ ∀ o ∈ (qRun Cfg.current {} evs).2, o.isPanic = false := by
  rw [guards_present]; exact qRun_total evs {} rfl

/-- … and it keeps serving: after any history a registration followed by a share for that id delivers it -/
theorem queryLoop_still_serves (evs : List QEv) (rid : Bytes) :
    (qRun Cfg.current {} (evs ++ [.reg rid, .sig rid])).2.getLast? = some (.ok "deliver") := by
  rw [guards_present]; exact qloop_serves evs rid

/-- **recoverSign → tbls.Recover → RecoverCommit → ToBigInt**: for every verification oracle
(`valid content share`), threshold, group size and stream of shares — nil, empty, 1-byte, truncated,
extended, duplicated, wrong index, index ≥ n, other content, content shorter than the address suffix —
no Lagrange denominator is zero, no slice or make is out of range, and the stage stays alive. -/
theorem recoverSign_total (valid : Bytes → Bytes → Bool) (t n : Nat) (ms : List (Option Sign)) :
    (rsRun Cfg.current valid t n {} ms).1.alive = true ∧ ∀ o ∈ (rsRun Cfg.current valid t n {} ms).2, o.isPanic = false := by
  rw [guards_present]; exact rsRun_total valid t n ms {} rfl

/-- tbls.Recover on its own (exported API), any share set -/
theorem tblsRecover_total (valid : Bytes → Bool) (t n : Nat) (sigs : List Bytes) :
    (tblsRecover Cfg.current valid t n sigs).isPanic = false := by
  rw [guards_present]; exact Handlers.tblsRecover_total valid t n sigs

theorem choseSubmitter_total (rand nids : Nat) : (choseSubmitter Cfg.current rand nids).isPanic = false := by
  rw [guards_present]; exact Handlers.choseSubmitter_total rand nids

theorem byte32_total (len : Nat) : (byte32 Cfg.current len).isPanic = false := by
  rw [guards_present]; exact Handlers.byte32_total len

theorem handleCR_seed_total (seed : Int) : (handleCRSeed Cfg.current seed).isPanic = false := by
  rw [guards_present]; exact Handlers.handleCR_total seed

/-! ### transport and gossip -/

theorem decodeBytes_total (verify : Bool) (f : Frame) : (decodeOut Cfg.current verify f).isPanic = false := by
  rw [guards_present]; exact decodeOut_total verify f

theorem decodePipe_total (f : Frame) : (decodePipe Cfg.current f).isPanic = false := by
  rw [guards_present]; exact Handlers.decodePipe_total f

/-- **receiveID**: truncated / oversize frame, undecodable package, package without message, any
message type, identity or undecodable public key, own id -/
theorem receiveID_total (w : Wire) : (receiveID Cfg.current w).isPanic = false := by
  rw [guards_present]; exact Handlers.receiveID_total w

/-- **client.dispatch**: any sequence of own requests, cancellations and reply packets with ANY
RequestNonce (duplicate reply, nonce never issued, reply before any request, reply after the
requester gave up): a reply without pending request is dropped, the link stays alive -/
theorem dispatch_total (evs : List DispEv) :
    (dispRun Cfg.current {} evs).1.alive = true ∧ ∀ o ∈ (dispRun Cfg.current {} evs).2, o.isPanic = false := by
  rw [guards_present]; exact dispRun_total evs {} rfl

/-- … and a following honest round trip still succeeds: the next request is matched by the reply with its nonce -/
theorem dispatch_still_serves (evs : List DispEv) :
    ∃ k, (dispRun Cfg.current {} (evs ++ [.send, .reply k])).2.getLast? = some (.ok "matched") := by
  rw [guards_present]; exact disp_serves evs

/-- **callHandler, the table of outbound connections**: any sequence of dials (handshake completing or
not, the peer announcing the dialled id, another id, none), hang-ups of connections that hold an entry
and of connections `DisConnectTo` removed from the table without closing them (the peer hangs up
afterwards: the id is reported a second time), `DisConnectTo` of ANY id (connected, never connected,
disconnected already — double removal), requests and `Leave`: the removal branch never dereferences a
missing entry, the handler stays alive -/
theorem connection_table_total (evs : List ConnEv) :
    (connRun Cfg.current {} evs).1.alive = true ∧ ∀ o ∈ (connRun Cfg.current {} evs).2, o.isPanic = false := by
  rw [guards_present]
  have := connRun_inv evs {} ⟨rfl, by simp⟩
  exact ⟨this.1.1, this.2.1⟩
-- DisConnectTo, then the peer hangs up (second removal of the same id), DisConnectTo of an id never dialled, twice
example : (connRun Cfg.all {} [.dial 2 2 true, .disc 2, .hangup 2, .disc 7, .disc 7, .req 2]).2
    = [.ok "dialled", .ok "removed", .ok "kept", .ok "kept", .ok "kept", .ok "dialled"] := by decide
-- the same history on a tree without the `c != nil` test around the removal (the seeded change): the node dies
example : (connRun { Cfg.all with callRemoveNil := false } {} [.req 2, .disc 2, .hangup 2]).2
    = [.ok "dialled", .ok "removed", .panic "p2p.server.callHandler|deref|c.conn"] := by decide
example : (connRun { Cfg.all with callRemoveNil := false } {} [.disc 7]).2.any Out.isPanic = true := by decide
-- the end of the connection DisConnectTo left open takes the entry of the NEWER connection to that member with it
example : ((connRun Cfg.all {} [.dial 2 2 true, .disc 2, .dial 2 2 true, .hangupOld 2]).1.tab, (connRun Cfg.all {} [.dial 2 2 true, .disc 2, .dial 2 2 true, .hangupOld 2]).2)
    = ([], [.ok "dialled", .ok "removed", .ok "dialled", .ok "removed"]) := by decide

/-- … and after any history a PEER can produce (dials answered with any id or none, handshakes that
fail, hang-ups at any point, interleaved with requests) a request to ANY member is served over a live
connection: no dead entry is ever left behind (what f4bcda2 repaired: see the witness below with
`callIdMatch` off) -/
theorem connection_table_still_serves (evs : List ConnEv) (x : Nat) (hp : ∀ e ∈ evs, e.peerOnly = true) :
    ∃ i, (connStep Cfg.current (connRun Cfg.current {} evs).1 (.req x)).2 = .ok i := by
  rw [guards_present]; exact conn_serves_peer evs x hp
example : ∃ i, (connStep Cfg.current (connRun Cfg.current {} [.dial 2 3 true, .hangup 2, .req 2, .hangup 2, .dial 3 0 true, .dial 5 5 false]).1 (.req 2)).2 = .ok i :=
  connection_table_still_serves _ 2 (by decide)

/-- … and with the node's own `DisConnectTo` calls in the history too (any id, any number of times; the
entry is deleted, the connection stays open and reports its end later): every member is still served,
except — while that connection lives — a member the node itself cut loose: the member keeps one
inbound connection per peer and closes the second one (`err dup`; ends with the 60 s idle timer).
That exception is the doing of a local call nothing in the node makes, not of a peer. -/
theorem connection_table_serves_after_disconnect (evs : List ConnEv) (x : Nat) (hl : ConnEv.leave ∉ evs)
    (hcut : connCutLoose (connRun Cfg.current {} evs).1 x = false) :
    ∃ i, (connStep Cfg.current (connRun Cfg.current {} evs).1 (.req x)).2 = .ok i := by
  rw [guards_present] at hcut ⊢; exact conn_serves evs x hl hcut
example : ∃ i, (connStep Cfg.current (connRun Cfg.current {} [.dial 2 2 true, .disc 2, .dial 2 2 true, .hangupOld 2, .disc 2, .disc 9, .hangup 2, .req 3, .disc 3]).1 (.req 2)).2 = .ok i :=
  connection_table_serves_after_disconnect _ 2 (by decide) (by rw [guards_present]; decide)
-- the exception: the honest member refuses a second connection while the one cut loose is open
example : (connRun Cfg.all {} [.req 2, .disc 2, .req 2, .req 3]).2 = [.ok "dialled", .ok "removed", .err "dup", .ok "dialled"] := by decide
-- after Leave nothing is handled (and nothing crashes)
example : (connRun Cfg.all {} [.req 2, .leave, .disc 2, .hangup 2, .req 3]).2 = [.ok "dialled", .ok "left", .dropped, .dropped, .dropped] := by decide

/-! ### the chain-event half: no field of an on-chain event makes the node panic -/

/-- the tie of the event path (regenerated facts `eventFlow`, `loopSubs`, `loopCases`): onchainLoop subscribes
to exactly the seven expected event kinds, each has its table entry in eth_subscribe.go, the payload that
entry builds copies every field of the contract binding verbatim (so the non-nil integers of the ABI
decoder stay non-nil), the `LogCommon` wrapper carries the payload under `log` and the binding's Removed
flag, only `&OnchainError` values are sent as errors, and the loop's type switch has a case for each of
the seven payload types and for nothing else. A dropped field, a new subscription without entry, an
unchecked assertion instead of the switch breaks this (and turns `Cfg.current.evFlow` off: the model then
predicts the nil dereference). -/
theorem event_flow_matches : flowOK = true := by decide +kernel

/-- what the translation delivers has no nil field, whatever the values (any magnitude, any id list) -/
theorem translated_events_wellformed (ev : RawEv) (p : Payload) (h : translate Cfg.current ev = some p) : p.wf = true := by
  rw [guards_present] at h; exact translate_wf ev p h
example : translate Cfg.current (.userRandom 0 (2 ^ 256 - 1) 7 5) = some (.userRandom (some 0) (some (2 ^ 256 - 1)) (some 7) (some 5)) := by
  rw [guards_present]; decide

/-- **the chain side is total**: for this node's id, any group table, any number of endpoints and EVERY
sequence of inputs the chain side can produce — contract logs with fields of any magnitude (request ids,
seeds, block numbers 0 … 2²⁵⁶−1), NodeId lists of any length (empty, one, duplicates, with or without this
node), group ids known / unknown / in formation, Removed logs, re-deliveries, events nobody subscribed to,
values that are not logs, plain and `OnchainError` error values, completions of key generations, and
(doubles) directly injected payloads without nil fields —: `firstEvent`, onchainLoop's dispatch,
`handleGrouping` → `pdkg.Grouping`, `isMember` → `GetShareSecurity`, `groupInfo`, `handleQuery` →
`choseSubmitter`, `handleCR`, `DisconnectWs` reach no panic site and the loop stays alive. -/
theorem chain_events_total (me nWs : Nat) (groups : List GroupRec) (visited : List Nat) (ins : List ChainIn)
    (h : ∀ i ∈ ins, i.fromChain nWs = true) :
    (chainRun Cfg.current me { groups := groups, nWs := nWs, visited := visited } ins).1.alive = true ∧
    ∀ o ∈ (chainRun Cfg.current me { groups := groups, nWs := nWs, visited := visited } ins).2, o.isPanic = false := by
  rw [guards_present]
  have := chainRun_total me ins { groups := groups, nWs := nWs, visited := visited } ⟨rfl, rfl⟩ h
  exact ⟨this.1.1, this.2⟩
example : (chainRun Cfg.all 1 { groups := [⟨some 5, 3, true⟩, ⟨some 6, 0, true⟩] }
    [.log (.url 9 (2 ^ 256 - 1) 5) false 0, .log (.url 9 (2 ^ 256 - 1) 5) false 0, .log (.updateRandom 0 6) false 1, .log (.grouping 7 []) false 2,
     .log (.grouping 7 [1]) false 3, .log (.grouping 7 [1, 1, 2]) false 4, .log (.keyAccepted 7) false 5, .log (.startCR 1 0 0 (2 ^ 64)) true 6,
     .log (.startCR 1 0 0 (2 ^ 64)) false 7, .junk, .log .unsubscribed false 8, .errv (.onchain 0), .errv .plain, .keygenDone (some 7), .log (.dissolve 7) false 9]).2
    = [.ok "query url", .dropped, .err "nogroup", .dropped, .ok "grouping 1", .err "dupgroup", .dropped, .dropped, .ok "cr", .dropped, .dropped,
       .ok "disconnect", .ok "logged", .ok "", .ok "dissolved"] := by decide
-- negation witnesses (the code has no nil checks on event fields; confirmed on the real handlers by the nil-field `chain` cases):
example : (chainRun Cfg.all 1 { groups := [⟨some 5, 3, true⟩] } [.direct (.url none (some 1) (some 5))]).2 = [.panic "dosnode.DosNode.handleQuery|deref|requestID.Bytes"] := by decide
example : (chainRun Cfg.all 1 {} [.direct (.updateRandom none (some 9)), .direct (.startCR (some 1) (some 1) (some 1) (some 1))]).2
    = [.dropped, .panic "dosnode.DosNode.handleCR|deref|randSeed.Cmp(big.NewInt(1))"] := by decide
-- … which is what a translation that loses a field would deliver (flag `evFlow` off)
example : ((chainRun { Cfg.all with evFlow := false } 1 { groups := [⟨none, 3, true⟩] } [.log (.url 9 8 5) false 0]).2.any Out.isPanic) = true := by decide
-- a group whose key generation is still running, without the `dks != nil` test of GetShareSecurity
example : (chainRun { Cfg.all with secNil := false } 1 {} [.log (.grouping 7 [1, 2]) false 0, .log (.updateRandom 3 7) false 1]).2
    = [.ok "grouping 2", .panic "dkg.pdkg.GetShareSecurity|deref|dks.Share"] := by decide
example : (chainRun { Cfg.all with feCast := false } 1 {} [.junk]).2 = [.panic "onchain.firstEvent|typeassert|event.(*LogCommon)"] := by decide

/-- **the loop keeps serving the next event**: after any such history, a request event for a group whose
key the node holds (with at least one member id) still gets its submitter and its pipeline … -/
theorem chain_events_still_serve_query (me nWs : Nat) (groups : List GroupRec) (ins : List ChainIn)
    (h : ∀ i ∈ ins, i.fromChain nWs = true) (g q r ident : Nat) (rec : GroupRec)
    (hg : findGroup (some g) (chainRun Cfg.current me { groups := groups, nWs := nWs } ins).1.groups = some rec)
    (hsec : rec.hasSec = true) (hn : rec.nids ≠ 0)
    (hfresh : (chainRun Cfg.current me { groups := groups, nWs := nWs } ins).1.visited.contains ident = false) :
    (chainStep Cfg.current me (chainRun Cfg.current me { groups := groups, nWs := nWs } ins).1 (.log (.url q r g) false ident)).2 = .ok "query url" := by
  rw [guards_present] at hg hfresh ⊢
  exact serves_query me _ (chainRun_total me ins { groups := groups, nWs := nWs } ⟨rfl, rfl⟩ h).1 g q r ident rec hg hsec hn hfresh
example : (chainStep Cfg.current 1 (chainRun Cfg.current 1 { groups := [⟨some 5, 3, true⟩] } [.direct (.url (some 1) (some 2) (some 9)), .junk, .errv .plain]).1 (.log (.url 4 0 5) false 77)).2 = .ok "query url" :=
  chain_events_still_serve_query 1 1 _ _ (by decide) 5 4 0 77 ⟨some 5, 3, true⟩ (by rw [guards_present]; decide) rfl (by decide) (by rw [guards_present]; decide)

/-- … and a grouping event that names this node and a group id the node does not know yet still starts a key generation -/
theorem chain_events_still_serve_grouping (me nWs : Nat) (groups : List GroupRec) (ins : List ChainIn)
    (h : ∀ i ∈ ins, i.fromChain nWs = true) (g ident : Nat) (ids : List Nat) (hme : ids.contains me = true)
    (hnew : findGroup (some g) (chainRun Cfg.current me { groups := groups, nWs := nWs } ins).1.groups = none)
    (hfresh : (chainRun Cfg.current me { groups := groups, nWs := nWs } ins).1.visited.contains ident = false) :
    (chainStep Cfg.current me (chainRun Cfg.current me { groups := groups, nWs := nWs } ins).1 (.log (.grouping g ids) false ident)).2
      = .ok s!"grouping {ids.length}" := by
  rw [guards_present] at hnew hfresh ⊢
  exact serves_grouping me _ (chainRun_total me ins { groups := groups, nWs := nWs } ⟨rfl, rfl⟩ h).1 g ident ids hme hnew hfresh
example : (chainStep Cfg.current 1 (chainRun Cfg.current 1 {} [.log (.grouping 3 [1, 2]) false 0, .log (.dissolve 3) false 1]).1 (.log (.grouping 4 [2, 1, 2]) false 5)).2 = .ok "grouping 3" :=
  chain_events_still_serve_grouping 1 1 _ _ (by decide) 4 5 [2, 1, 2] (by decide) (by rw [guards_present]; decide) (by rw [guards_present]; decide)

/-- **getBootIps**: the bootstrap URL of the bridge contract (parsable or not), the fetch (failing or not), a document with any number of separators -/
theorem getBootIps_total (urlOK fetched : Bool) (commas : Nat) : (getBootIps Cfg.current urlOK fetched commas).isPanic = false := by
  rw [guards_present]; exact Handlers.getBootIps_total urlOK fetched commas
example : getBootIps Cfg.all false false 0 = .ok "0" := by decide
-- before d508404: a URL that does not parse
example : (getBootIps { Cfg.all with bootReq := false } false false 0).isPanic = true := by decide

/-- **dataParse, nesting depth** (/repo 14409e8): whatever the fetched document — any bytes on the JSON side, any
tree on the XML side — the recursive evaluators are reached only with a document nested at most
`maxDocumentDepth` levels (as the scanner / the tree height see it); a deeper one is answered with an error.
The evaluators themselves are third party (fuzzed, not modelled). -/
theorem dataParse_depth_total (doc : Bytes) (t : XTree) :
    (dataParseJson Cfg.current doc).isPanic = false ∧ (dataParseXml Cfg.current t).isPanic = false
    ∧ (dataParseJson Cfg.current doc = .ok "eval" → jsonDepthExceeds maxDocumentDepth doc = false)
    ∧ (dataParseXml Cfg.current t = .ok "eval" → t.height ≤ maxDocumentDepth) := by
  rw [guards_present]
  refine ⟨docGuard_total _, docGuard_total _, docGuard_eval _, fun h => ?_⟩
  have := docGuard_eval _ h
  simpa [xmlDepthExceeds] using this
-- `["]]",[{}]]` (closing brackets inside a string do not count) and, with bound 1, the same document refused
example : dataParseJson Cfg.all [0x5b, 0x22, 0x5d, 0x5d, 0x22, 0x2c, 0x5b, 0x7b, 0x7d, 0x5d, 0x5d] = .ok "eval" := by decide
example : jsonDepthExceeds 2 [0x5b, 0x22, 0x5d, 0x5d, 0x22, 0x2c, 0x5b, 0x7b, 0x7d, 0x5d, 0x5d] = true := by decide
example : jsonDepthExceeds 3 [0x5b, 0x22, 0x5d, 0x5d, 0x22, 0x2c, 0x5b, 0x7b, 0x7d, 0x5d, 0x5d] = false := by decide
example : dataParseXml Cfg.all (XTree.chain 3) = .ok "eval" := by decide
-- before 14409e8: no bound, the evaluators recurse once per level (fatal stack overflow from 8·10⁵ levels on)
example : (docGuard { Cfg.all with parseDepth := false } true).isPanic = true := by decide

/-- nesting cannot be hidden from the scanner by what follows it: more than `max` opening brackets at the start
of a document are refused whatever the rest of the document is (closing brackets inside strings included) -/
theorem dataParse_refuses_nested (k : Nat) (rest : Bytes) (h : k > maxDocumentDepth) :
    dataParseJson Cfg.current (List.replicate k 0x5b ++ rest) = .err "deep"
    ∧ dataParseXml Cfg.current (XTree.chain k) = .err "deep" := by
  rw [guards_present]
  constructor
  · simp [dataParseJson, jsonDepthExceeds_nested _ _ _ h, docGuard, Cfg.all]
  · simp [dataParseXml, xmlDepthExceeds, chain_height, h, docGuard, Cfg.all]
example : 1001 > maxDocumentDepth := by decide

/-- **the serving loops are input-driven** (model level): whatever the history, every loop model produces exactly
one outcome per event taken — there is no iteration that takes no event, so junk cannot make a MODEL loop spin.
That the Go loops have this shape is a fact about the code, not proved here (meta "partial"): the spin of
decryptPipe on a closed channel (/repo 6be4efc) was outside it and is watched by the CPU probe `fzspin`. -/
theorem handlers_consume_input (sv : List SessEv) (dv : List DkgOp) (n me : Nat) (qv : List QEv)
    (valid : Bytes → Bytes → Bool) (t : Nat) (rv : List (Option Sign)) (pv : List DispEv) (cv : List ConnEv)
    (st : EvSt) (hv : List ChainIn) :
    (sessRun Cfg.current {} sv).2.length = sv.length ∧ (dkgRun Cfg.current (DkgSt.init n me) dv).2.length = dv.length
    ∧ (qRun Cfg.current {} qv).2.length = qv.length ∧ (rsRun Cfg.current valid t n {} rv).2.length = rv.length
    ∧ (dispRun Cfg.current {} pv).2.length = pv.length ∧ (connRun Cfg.current {} cv).2.length = cv.length
    ∧ (chainRun Cfg.current me st hv).2.length = hv.length :=
  ⟨sessRun_len _ _ _, dkgRun_len _ _ _, qRun_len _ _ _, rsRun_len _ _ _ _ _ _, dispRun_len _ _ _, connRun_len _ _ _,
   chainRun_len _ _ _ _⟩
example : (qRun Cfg.all {} [.other, .sig [1], .reg [1], .sig [1]]).2.length = 4 := by decide

theorem messageDispatch_total (f : Feed) : (messageDispatch Cfg.current f).isPanic = false := by
  rw [guards_present]; exact Handlers.messageDispatch_total f

/-- **serfNet.Listen / Lookup / MembersID**: member names of any length -/
theorem gossip_total (evs : List SerfEv) (names : List Nat) :
    (∀ e ∈ evs, (listenStep Cfg.current e).isPanic = false) ∧ (lookupOut Cfg.current names).isPanic = false := by
  rw [guards_present]
  exact ⟨fun e _ => listenStep_total e, lookupOut_total names⟩

/-! ### non-vacuity, and what each guard is for: with the guard off the model reproduces the crash
of the unrepaired code on a concrete message (these are the inputs of corpus/C12) -/

example : (sessRun Cfg.all {} [.req "a" 2, .msg "a" (.pk 1), .msg "a" (.pk 1), .msg "a" (.pk 2)]).2
    = [.ok "reg 0", .ok "buf 1", .ok "dup", .ok "fire 2"] := by decide
example : (sessRun Cfg.all {} [.req "a" 2, .msg "a" (.pk 1), .expire ["a", "b", "a"], .expire ["a"], .msg "a" (.pk 2), .req "a" 1, .msg "a" (.pk 3), .expire ["a"]]).2
    = [.ok "reg 0", .ok "buf 1", .ok "expired 1", .ok "expired 0", .ok "buf 1", .ok "fire 1", .ok "buf 1", .ok "expired 0"] := by decide
example : outsFor "b" [.req "b" 2, .msg "a" (.deal 7), .msg "b" (.pk 0), .req "a" 1, .expire ["a"], .msg "a" (.pk 0), .msg "b" (.pk 1)]
    (sessRun Cfg.all {} [.req "b" 2, .msg "a" (.deal 7), .msg "b" (.pk 0), .req "a" 1, .expire ["a"], .msg "a" (.pk 0), .msg "b" (.pk 1)]).2
    = [.ok "reg 0", .ok "buf 1", .ok "fire 2"] := by decide
example : (exchangePub Cfg.all 3 (.good 0) [[.good 1, .good 2 false]]) = .err "foreign" := by decide
example : (exchangePub { Cfg.all with xpubIdx := false } 3 (.good 0) [[.good 7]]).isPanic = true := by decide
-- the expiry sweep deleting the buffer twice instead of the registration (seeded change): the late message / next sweep panics
example : (sessRun { Cfg.all with expClean := ⟨true, false, true⟩ } {} [.req "a" 1, .expire ["a"], .msg "a" (.pk 1)]).2.any Out.isPanic = true := by decide
example : (sessRun { Cfg.all with expClean := ⟨true, false, true⟩ } {} [.req "a" 2, .expire ["a"], .expire ["a"]]).2.any Out.isPanic = true := by decide
example : (sessRun { Cfg.all with peerClean := ⟨true, false, true⟩ } {} [.req "a" 1, .msg "a" (.pk 1), .msg "a" (.pk 2)]).2.any Out.isPanic = true := by decide
example : (sessRun { Cfg.all with reqClean := ⟨true, false, true⟩ } {} [.msg "a" (.pk 1), .req "a" 1, .msg "a" (.pk 2)]).2.any Out.isPanic = true := by decide
example : genDkg Cfg.all 3 [⟨0, some .own⟩, ⟨1, some (.peer 1)⟩, ⟨2, some .identity⟩] = .ok "" := by decide
example : genDkg Cfg.all 3 [⟨0, some .own⟩, ⟨7, some (.peer 1)⟩, ⟨2, none⟩] = .err "badpk" := by decide
example : (genDkg { Cfg.all with gdkgGuard := false } 3 [⟨0, some .own⟩, ⟨7, some (.peer 1)⟩, ⟨2, some (.peer 2)⟩]).isPanic = true := by decide
example : (genDkg { Cfg.all with gdkgGuard := false } 3 [⟨0, some .own⟩, ⟨1, none⟩, ⟨2, some (.peer 2)⟩]).isPanic = true := by decide
example : (processDeal { Cfg.all with encNil := false } (DkgSt.init 3 0) ⟨1, none⟩).2.isPanic = true := by decide
example : (processDeal { Cfg.all with nonceLen := false } (DkgSt.init 3 0) ⟨1, some ⟨true, true, 11, .fail⟩⟩).2.isPanic = true := by decide
example : (processDeal { Cfg.all with secShareNil := false } (DkgSt.init 3 0) ⟨1, some ⟨true, true, 12, .plain ⟨none, 2, true, true⟩⟩⟩).2.isPanic = true := by decide
example : (processDeal { Cfg.all with shareVNil := false, secShareNil := false } (DkgSt.init 3 0) ⟨1, some ⟨true, true, 12, .plain ⟨some (0, false), 2, true, true⟩⟩⟩).2.isPanic = true := by decide
example : (distKeyShare (dkgRun { Cfg.all with secShareNil := false } (DkgSt.init 3 0)
    [.deal ⟨1, some ⟨true, true, 12, .plain ⟨some (0, false), 2, true, true⟩⟩⟩]).1).isPanic = true := by decide
example : (processDeal Cfg.all (DkgSt.init 3 0) ⟨1, some ⟨true, true, 12, .plain ⟨some (0, false), 2, true, true⟩⟩⟩).2 = .err "noshare" := by decide
example : (processDeal { Cfg.all with findPubDkg := false } (DkgSt.init 3 0) ⟨3, none⟩).2.isPanic = true := by decide
example : (dkgRun { Cfg.all with respNil := false } (DkgSt.init 3 0) [.deal (honestDeal 1 0 2), .resp ⟨1, none⟩]).2.any Out.isPanic = true := by decide
example : (dkgRun Cfg.all (DkgSt.init 3 0) [.deal (honestDeal 1 0 2), .resp ⟨1, none⟩, .resp ⟨1, some ⟨true, 2, true, true⟩⟩]).2
    = [.ok "approval", .err "noresp", .ok ""] := by decide
example : (decodePubKey { Cfg.all with pubKeyLen := false } 1).isPanic = true := by decide
example : (toBigInt { Cfg.all with toBigLen := false } 2).isPanic = true := by decide
example : (qRun { Cfg.all with qloopOk := false } {} [.sig []]).2.any Out.isPanic = true := by decide
example : (rsRun { Cfg.all with rsMake := false } (fun _ _ => true) 1 3 {} [some ⟨some [0, 0, 1], some [1, 2]⟩]).2.any Out.isPanic = true := by decide
-- the same share with a trailing byte: since 2d8b40a tbls.Recover AND share.RecoverCommit keep one share per index; either guard alone suffices
example : (rsRun { Cfg.all with recoverDedup := false, rcDedup := false } (fun _ _ => true) 2 3 {} [some ⟨some [0, 1, 5], some [7]⟩, some ⟨some [0, 1, 5, 0], some [7]⟩]).2.any Out.isPanic = true := by decide
example : (rsRun { Cfg.all with recoverDedup := false } (fun _ _ => true) 2 3 {} [some ⟨some [0, 1, 5], some [7]⟩, some ⟨some [0, 1, 5, 0], some [7]⟩]).2.any Out.isPanic = false := by decide
example : (rsRun Cfg.all (fun _ _ => true) 2 3 {} [none, some ⟨some [0, 1, 5], some [7]⟩, some ⟨some [0, 1, 5, 0], some [7]⟩]).2
    = [.err "nil", .ok "wait", .err "few"] := by decide
example : (receiveID { Cfg.all with ridLen := false } (.frame (.pkg (some (.id .infinity .other)) false false))).isPanic = true := by decide
example : (receiveID { Cfg.all with ridCast := false } (.frame (.pkg (some .known) false false))).isPanic = true := by decide
example : receiveID Cfg.all (.frame (.pkg (some (.id .valid .other)) false false)) = .ok "keyed" := by decide
example : (decodeOut { Cfg.all with anyNil := false } true (.pkg none true false)).isPanic = true := by decide
example : (listenStep { Cfg.all with listenName := false } (.members [25, 3])).isPanic = true := by decide
example : listenStep Cfg.all (.members [25, 3, 20]) = .ok "2" := by decide
example : (choseSubmitter { Cfg.all with groupInfoIds := false } 5 0).isPanic = true := by decide
example : (messageDispatch { Cfg.all with mdNil := false } .nilMsg).isPanic = true := by decide
-- the unrepaired table: one connection that announced another id leaves a dead entry: the member is never served again
example : (connRun { Cfg.all with callIdMatch := false } {} [.dial 2 3 true, .hangup 2, .req 2]).2 = [.ok "dialled", .ok "kept", .err "stale"] := by decide
example : (connRun Cfg.all {} [.dial 2 3 true, .hangup 2, .req 2, .hangup 2, .req 2]).2 = [.err "mismatch", .dropped, .ok "dialled", .ok "removed", .ok "dialled"] := by decide
-- the seeded change (removal without the nil check) on the unrepaired table
example : (connRun { Cfg.all with callIdMatch := false, callRemoveNil := false } {} [.dial 2 3 true, .hangup 2]).2.any Out.isPanic = true := by decide
example : (dispRun Cfg.all {} [.send, .reply 0, .reply 0, .reply 3735928559, .send, .cancel 1, .reply 1]).2
    = [.ok "sent 0", .ok "matched", .dropped, .dropped, .ok "sent 1", .ok "", .ok "late"] := by decide
example : (dispRun { Cfg.all with dispReplyNil := false } {} [.send, .reply 0, .reply 0]).2.any Out.isPanic = true := by decide
example : (dispRun { Cfg.all with dispReplyNil := false } {} [.reply 3735928559]).2.any Out.isPanic = true := by decide

end Dos.Props.C12

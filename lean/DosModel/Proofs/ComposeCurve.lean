/-
Composition helper: the AFFINE chord-and-tangent formulas that the executable models
`Model/TblsG1.lean` (C02/C03 driver, G1) and `Model/Bn256.lean` (C11/C06, G1 and G2) use, stated once
over an arbitrary field `K` for the curve `y² = x³ + b`, and proved to BE the addition of Mathlib's
group `WeierstrassCurve.Affine.Point` (which is an `AddCommGroup`): `toPoint (aadd P Q) = toPoint P +
toPoint Q`, `toPoint (aneg P) = −toPoint P`, `toPoint (adbl P) = 2 • toPoint P`, and the MSB-first
double-and-add loop computes `k • toPoint P`.  Hypotheses on the curve: `2 ≠ 0`, `3 ≠ 0`, `b ≠ 0` in `K`
(then every point of the curve is nonsingular).

(C10's `Proofs/Bn256CurveGroup.lean` does the same for the JACOBIAN formulas of curve.go/twist.go; it
lives in the namespace/module family that clashes with `Model/Bn256.lean`, see design/Compose.md, and
the models composed here are affine.)
-/
import Mathlib.AlgebraicGeometry.EllipticCurve.Affine.Point
import Mathlib.Tactic.LinearCombination
import Mathlib.Tactic.FieldSimp

namespace Dos.Compose.Curve
open WeierstrassCurve WeierstrassCurve.Affine

set_option linter.unusedSectionVars false

variable {K : Type} [Field K] [DecidableEq K]

/-- the curve `y² = x³ + b` -/
def sw (b : K) : WeierstrassCurve.Affine K := ⟨0, 0, 0, 0, b⟩

/-- an affine point or the point at infinity, coordinates in `K` -/
inductive APt (K : Type) where
  | inf
  | aff (x y : K)

/-- curve parameters for which every point of the curve is nonsingular -/
structure Good (b : K) : Prop where
  two : (2 : K) ≠ 0
  three : (3 : K) ≠ 0
  b0 : b ≠ 0

def APt.OnCurve (b : K) : APt K → Prop
  | .inf => True
  | .aff x y => y ^ 2 = x ^ 3 + b

def aneg : APt K → APt K
  | .inf => .inf
  | .aff x y => .aff x (-y)

/-- tangent formula; `y = 0` (a point of order two) gives infinity -/
def adbl : APt K → APt K
  | .inf => .inf
  | .aff x y =>
    if y = 0 then .inf
    else
      let l := 3 * x ^ 2 / (2 * y)
      let x3 := l ^ 2 - 2 * x
      .aff x3 (l * (x - x3) - y)

/-- chord formula, with the two special cases of equal abscissae -/
def aadd : APt K → APt K → APt K
  | .inf, q => q
  | p, .inf => p
  | .aff x1 y1, .aff x2 y2 =>
    if x1 = x2 then
      if y1 = y2 then adbl (.aff x1 y1) else .inf
    else
      let l := (y2 - y1) / (x2 - x1)
      let x3 := l ^ 2 - x1 - x2
      .aff x3 (l * (x1 - x3) - y1)

/-- MSB-first double-and-add (the loop of `curvePoint.Mul`), `fuel ≥` number of bits of `k` -/
def asmulAux (P : APt K) : Nat → Nat → APt K
  | 0, _ => .inf
  | fuel + 1, k =>
    if k = 0 then .inf
    else
      let d := adbl (asmulAux P fuel (k / 2))
      if k % 2 = 1 then aadd d P else d

theorem equation_sw (b x y : K) : (sw b).Equation x y ↔ y ^ 2 = x ^ 3 + b := by
  rw [equation_iff]; simp [sw]

theorem nonsingular_sw {b : K} (g : Good b) (x y : K) : (sw b).Nonsingular x y ↔ y ^ 2 = x ^ 3 + b := by
  rw [nonsingular_iff, equation_sw]
  constructor
  · exact fun h => h.1
  · intro h
    refine ⟨h, ?_⟩
    simp only [sw, zero_mul, mul_zero, add_zero, sub_zero]
    by_cases hy : y = 0
    · left
      intro h0
      have hx2 : x ^ 2 = 0 := by
        have : (3 : K) * x ^ 2 = 0 := by linear_combination -h0
        exact (mul_eq_zero.1 this).resolve_left g.three
      have hx : x = 0 := by simpa using hx2
      rw [hy, hx] at h
      exact g.b0 (by simpa using h.symm)
    · right
      intro h0
      have : (2 : K) * y = 0 := by linear_combination h0
      exact hy ((mul_eq_zero.1 this).resolve_left g.two)

theorem negY_sw (b x y : K) : (sw b).negY x y = -y := by simp [negY, sw]

open Classical in
/-- the point of Mathlib's group denoted by an affine pair (junk off the curve: 0) -/
noncomputable def toPoint (b : K) : APt K → (sw b).Point
  | .inf => 0
  | .aff x y => if h : (sw b).Nonsingular x y then Point.some x y h else 0

theorem toPoint_aff {b : K} (x y : K) (h : (sw b).Nonsingular x y) :
    toPoint b (.aff x y) = Point.some x y h := by simp [toPoint, h]

theorem some_congr {b : K} {x y x' y' : K} (h : (sw b).Nonsingular x y) (hx : x = x') (hy : y = y') :
    ∃ h' : (sw b).Nonsingular x' y', Point.some x y h = Point.some x' y' h' := by
  subst hx; subst hy; exact ⟨h, rfl⟩

/-- `toPoint` is injective on the curve -/
theorem toPoint_injOn {b : K} (g : Good b) {P Q : APt K} (hP : P.OnCurve b) (hQ : Q.OnCurve b)
    (h : toPoint b P = toPoint b Q) : P = Q := by
  cases P with
  | inf =>
    cases Q with
    | inf => rfl
    | aff x y =>
      rw [toPoint_aff x y ((nonsingular_sw g x y).2 hQ)] at h
      exact absurd h.symm (Point.some_ne_zero _)
  | aff x y =>
    cases Q with
    | inf =>
      rw [toPoint_aff x y ((nonsingular_sw g x y).2 hP)] at h
      exact absurd h (Point.some_ne_zero _)
    | aff x' y' =>
      rw [toPoint_aff x y ((nonsingular_sw g x y).2 hP),
        toPoint_aff x' y' ((nonsingular_sw g x' y').2 hQ)] at h
      simp only [Point.some.injEq] at h
      rw [h.1, h.2]

theorem toPoint_eq_zero_iff {b : K} (g : Good b) {P : APt K} (hP : P.OnCurve b) :
    toPoint b P = 0 ↔ P = .inf := by
  constructor
  · intro h; exact toPoint_injOn g hP trivial (by rw [h]; rfl)
  · rintro rfl; rfl

/-- **negation** -/
theorem aneg_spec {b : K} (g : Good b) (P : APt K) (hP : P.OnCurve b) :
    (aneg P).OnCurve b ∧ toPoint b (aneg P) = -toPoint b P := by
  cases P with
  | inf => exact ⟨trivial, by simp [aneg, toPoint]⟩
  | aff x y =>
    have hn := (nonsingular_sw g x y).2 hP
    have hc : (-y) ^ 2 = x ^ 3 + b := by rw [neg_sq]; exact hP
    refine ⟨hc, ?_⟩
    rw [toPoint_aff x y hn, Point.neg_some]
    show toPoint b (.aff x (-y)) = _
    obtain ⟨h', e⟩ := some_congr ((nonsingular_neg x y).mpr hn) rfl (negY_sw b x y)
    rw [e, toPoint_aff x (-y) h']

/-- **doubling** -/
theorem adbl_spec {b : K} (g : Good b) (P : APt K) (hP : P.OnCurve b) :
    (adbl P).OnCurve b ∧ toPoint b (adbl P) = toPoint b P + toPoint b P := by
  cases P with
  | inf => exact ⟨trivial, by simp [adbl, toPoint]⟩
  | aff x y =>
    have hn := (nonsingular_sw g x y).2 hP
    rw [toPoint_aff x y hn]
    by_cases hy : y = 0
    · subst hy
      simp only [adbl, if_true]
      refine ⟨trivial, ?_⟩
      have : (0 : K) = (sw b).negY x 0 := by rw [negY_sw, neg_zero]
      rw [Point.add_self_of_Y_eq this]; rfl
    · simp only [adbl, hy, if_false]
      have hne : y ≠ (sw b).negY x y := by
        rw [negY_sw]; intro h
        have : (2 : K) * y = 0 := by linear_combination h
        exact hy ((mul_eq_zero.1 this).resolve_left g.two)
      have h2y : (2 : K) * y ≠ 0 := mul_ne_zero g.two hy
      rw [Point.add_self_of_Y_ne hne]
      have hsl : (sw b).slope x x y y = 3 * x ^ 2 / (2 * y) := by
        rw [slope_of_Y_ne rfl hne, negY_sw]
        simp only [sw]
        congr 1 <;> ring
      have hX : (sw b).addX x x ((sw b).slope x x y y) = (3 * x ^ 2 / (2 * y)) ^ 2 - 2 * x := by
        rw [hsl]; simp only [addX, sw]; ring
      have hY : (sw b).addY x x y ((sw b).slope x x y y)
          = 3 * x ^ 2 / (2 * y) * (x - ((3 * x ^ 2 / (2 * y)) ^ 2 - 2 * x)) - y := by
        rw [addY, negY_sw, negAddY, hX, hsl]; ring
      obtain ⟨h', e⟩ := some_congr (nonsingular_add hn hn fun hxy => hne hxy.right) hX hY
      rw [e]
      exact ⟨(nonsingular_sw g _ _).1 h', toPoint_aff _ _ h'⟩

/-- **addition**, every branch -/
theorem aadd_spec {b : K} (g : Good b) (P Q : APt K) (hP : P.OnCurve b) (hQ : Q.OnCurve b) :
    (aadd P Q).OnCurve b ∧ toPoint b (aadd P Q) = toPoint b P + toPoint b Q := by
  cases P with
  | inf =>
    cases Q with
    | inf => exact ⟨trivial, by simp [aadd, toPoint]⟩
    | aff x y => exact ⟨hQ, by simp [aadd, toPoint]⟩
  | aff x1 y1 =>
    cases Q with
    | inf => exact ⟨hP, by simp [aadd, toPoint]⟩
    | aff x2 y2 =>
      have hn1 := (nonsingular_sw g x1 y1).2 hP
      have hn2 := (nonsingular_sw g x2 y2).2 hQ
      by_cases hx : x1 = x2
      · subst hx
        by_cases hy : y1 = y2
        · subst hy
          simp only [aadd, if_true]
          exact adbl_spec g (.aff x1 y1) hP
        · simp only [aadd, hy, if_true, if_false]
          refine ⟨trivial, ?_⟩
          rw [toPoint_aff x1 y1 hn1, toPoint_aff x1 y2 hn2]
          have hyy : y1 = (sw b).negY x1 y2 := by
            rw [negY_sw]
            have h1 : y1 ^ 2 = x1 ^ 3 + b := hP
            have h2 : y2 ^ 2 = x1 ^ 3 + b := hQ
            have : (y1 - y2) * (y1 + y2) = 0 := by linear_combination h1 - h2
            rcases mul_eq_zero.1 this with h | h
            · exact absurd (sub_eq_zero.1 h) hy
            · linear_combination h
          rw [Point.add_of_Y_eq rfl hyy]; rfl
      · simp only [aadd, hx, if_false]
        rw [toPoint_aff x1 y1 hn1, toPoint_aff x2 y2 hn2, Point.add_of_X_ne hx]
        have hsl : (sw b).slope x1 x2 y1 y2 = (y2 - y1) / (x2 - x1) := by
          rw [slope_of_X_ne hx, ← neg_sub y2 y1, ← neg_sub x2 x1, neg_div_neg_eq]
        have hX : (sw b).addX x1 x2 ((sw b).slope x1 x2 y1 y2) = ((y2 - y1) / (x2 - x1)) ^ 2 - x1 - x2 := by
          rw [hsl]; simp only [addX, sw]; ring
        have hY : (sw b).addY x1 x2 y1 ((sw b).slope x1 x2 y1 y2)
            = (y2 - y1) / (x2 - x1) * (x1 - (((y2 - y1) / (x2 - x1)) ^ 2 - x1 - x2)) - y1 := by
          rw [addY, negY_sw, negAddY, hX, hsl]; ring
        obtain ⟨h', e⟩ := some_congr (nonsingular_add hn1 hn2 fun hxy => hx hxy.left) hX hY
        rw [e]
        exact ⟨(nonsingular_sw g _ _).1 h', toPoint_aff _ _ h'⟩

/-- **the double-and-add loop is scalar multiplication in the group** -/
theorem asmulAux_spec {b : K} (g : Good b) (P : APt K) (hP : P.OnCurve b) :
    ∀ fuel k, k < 2 ^ fuel →
      (asmulAux P fuel k).OnCurve b ∧ toPoint b (asmulAux P fuel k) = k • toPoint b P := by
  intro fuel
  induction fuel with
  | zero =>
    intro k hk
    have : k = 0 := by simpa using hk
    subst this
    exact ⟨trivial, by simp [asmulAux, toPoint]⟩
  | succ fuel ih =>
    intro k hk
    unfold asmulAux
    by_cases h0 : k = 0
    · subst h0; exact ⟨trivial, by simp [toPoint]⟩
    · simp only [h0, if_false]
      have hlt : k / 2 < 2 ^ fuel := by
        rw [Nat.div_lt_iff_lt_mul (by decide)]; rw [pow_succ] at hk; exact hk
      obtain ⟨hc, hp⟩ := ih (k / 2) hlt
      obtain ⟨hdc, hdp⟩ := adbl_spec g _ hc
      by_cases hodd : k % 2 = 1
      · simp only [hodd, if_true]
        obtain ⟨hac, hap⟩ := aadd_spec g _ P hdc hP
        refine ⟨hac, ?_⟩
        rw [hap, hdp, hp, ← add_nsmul, ← succ_nsmul]
        congr 1
        omega
      · simp only [hodd, if_false]
        refine ⟨hdc, ?_⟩
        rw [hdp, hp, ← add_nsmul]
        congr 1
        omega

end Dos.Compose.Curve

/-
C10 — the final exponentiation and the multi-pairing check (layer 6, algebraic part).
`finalExponentiationG` is optate.go's finalExponentiation transcribed over any base type with the seven
Frobenius constants as a parameter; the driver runs it at the Montgomery gfP with the regenerated constants
(`Bn256.finalExponentiation`, compared with the real code and with a^((p¹²−1)/r) of the big-integer
reference on every run). Here: over EVERY field, if the constants satisfy their six defining relations
(`FrobConsts.Good`), it is multiplicative, so PairingCheck decides "product of the pairings = 1".
Bilinearity of the pairing itself is NOT proved (see meta "partial").
-/
import DosModel.Proofs.Bn256FinalExp
import DosModel.Proofs.Bn256Consts
import DosModel.Proofs.Bn256FinalExpConcrete

namespace Dos.Props.C10FinalExp
open Dos Dos.Bn256

/-- **finalExponentiation is a monoid homomorphism of gfP12** over every field, for every `u`:
f(x·y) = f(x)·f(y) and f(1) = 1 — through Conjugate, Invert (norms and adjugates of the tower), the p- and
p²-Frobenius maps with their constant twists, Exp and the addition chain of the hard part -/
theorem finalExponentiation_multiplicative {K : Type} [Field K] (cs : FrobConsts K) (hg : cs.Good) (u : Nat)
    (x y : Fp12 K) :
    finalExponentiationG cs u (Fp12.mul x y) = Fp12.mul (finalExponentiationG cs u x) (finalExponentiationG cs u y) ∧
    finalExponentiationG cs u Fp12.one = Fp12.one :=
  ⟨finalExp_mul cs hg u x y, finalExp_one cs u⟩

/-- **the multi-pairing check decides the product**: with the IMPLEMENTED final exponentiation and ANY Miller
function, `PairingCheck` (skip a pair if either point is the identity; multiply the Miller values; one final
exponentiation; IsOne) is true exactly when the product of the pairings e(pᵢ,qᵢ) is one, where — as in
`optimalAte` — e = 1 on an identity and e = finalExponentiation(miller) otherwise; for every list of pairs -/
theorem pairingCheck_decides_product {K P Q : Type} [Field K] [DecidableEq K] (cs : FrobConsts K) (hg : cs.Good)
    (u : Nat) (infP : P → Bool) (infQ : Q → Bool) (mil : Q → P → Fp12 K) (ps : List (P × Q)) :
    pairingCheckAbs infP infQ mil Fp12.mul Fp12.one (finalExponentiationG cs u)
        (fun t => decide (t = Fp12.one)) ps = true ↔
      (ps.map fun pq => if infP pq.1 || infQ pq.2 then (Fp12.one : Fp12 K)
        else finalExponentiationG cs u (mil pq.2 pq.1)).prod = Fp12.one :=
  Dos.Bn256.pairingCheck_logic infP infQ mil (finalExpHom cs hg u) ps

set_option maxRecDepth 1000000 in
/-- the regenerated constants satisfy the six relations, in the arithmetic the code uses (Montgomery gfP2 / gfP,
which is F_p² / F_p by `gfP_is_prime_field`): c₁² = c₂, ξ·c₁·c₂ = ξ̄, c₆² = c₁, d₁² = d₂, d₁·d₂ = 1, e₆² = d₁ -/
theorem consts_frobenius_relations :
    Fp2.mul xiToPMinus1Over3 xiToPMinus1Over3 = xiTo2PMinus2Over3 ∧
    Fp2.mul xiM (Fp2.mul xiToPMinus1Over3 xiTo2PMinus2Over3) = Fp2.conjugate xiM ∧
    Fp2.mul xiToPMinus1Over6 xiToPMinus1Over6 = xiToPMinus1Over3 ∧
    xiToPSquaredMinus1Over3 * xiToPSquaredMinus1Over3 = xiTo2PSquaredMinus2Over3 ∧
    xiToPSquaredMinus1Over3 * xiTo2PSquaredMinus2Over3 = GFp.newGFp 1 ∧
    xiToPSquaredMinus1Over6 * xiToPSquaredMinus1Over6 = xiToPSquaredMinus1Over3 := by decide +kernel

/-- the code's concrete functions ARE the generic ones at the regenerated constants (definitional) -/
theorem concrete_is_generic (x : F12) :
    Bn256.finalExponentiation x = finalExponentiationG frobConsts uParam x ∧
    Bn256.Fp12.frobenius x = Fp12.frobeniusG frobConsts x ∧
    Bn256.Fp12.frobeniusP2 x = Fp12.frobeniusP2G frobConsts x := ⟨rfl, rfl, rfl⟩


/-! ### the IMPLEMENTED final exponentiation and check (Montgomery gfP, regenerated constants) -/

/-- **the hypothesis `FrobConsts.Good` holds for the code's constants**: the seven regenerated constants, decoded
from Montgomery form into the field ZMod p, satisfy the six relations (kernel evaluation in Montgomery arithmetic
on reduced values, carried along the decoding homomorphism of `gfP_is_prime_field` lifted to gfP2) -/
theorem frobConsts_of_the_code_are_good : frobConstsFp.Good ∧ frobConstsFp = frobConstsR.map decR ∧
    frobConstsR.map valF = frobConsts := ⟨frobConstsFp_good, rfl, rfl⟩

/-- **the implemented final exponentiation** (the function the driver runs, `Bn256.finalExponentiation`) keeps
reduced gfP12 values reduced, decodes to the generic final exponentiation over ZMod p at the decoded constants
(naturality of the transcribed code along "forget reducedness" and "decode"), and is multiplicative -/
theorem finalExponentiation_implemented (x y : F12) (hx : Red12 x) (hy : Red12 y) :
    Red12 (Bn256.finalExponentiation x) ∧
    dec12 (Bn256.finalExponentiation x) = finalExponentiationG frobConstsFp uParam (dec12 x) ∧
    Bn256.finalExponentiation (Fp12.mul x y) =
      Fp12.mul (Bn256.finalExponentiation x) (Bn256.finalExponentiation y) :=
  ⟨(finalExp_dec x hx).1, (finalExp_dec x hx).2, finalExp_concrete_mul x y hx hy⟩

/-- **the implemented PairingCheck, given reduced Miller values**: whenever the Miller values are reduced gfP12
values (hypothesis `hm` HERE; it is discharged for all reduced input points in Props/C10Miller.lean, where the
unconditional statement is `C10Miller.pairingCheck_implemented` — reducedness carried through the 265-step
translated Miller loop by naturality), `pairingCheck` is true exactly when the product in F_p¹² of the decoded
pairing values `optimalAte(qᵢ, pᵢ)` is one; pairs with an identity contribute one wherever they stand in the list -/
theorem pairingCheck_given_reduced_miller (ps : List (G1J × G2J)) (hm : ∀ pq ∈ ps, Red12 (miller pq.2 pq.1)) :
    pairingCheck ps = true ↔ (ps.map fun pq => dec12 (optimalAte pq.2 pq.1)).prod = 1 :=
  pairingCheck_concrete ps hm

set_option maxRecDepth 1000000 in
/-- the hypothesis is satisfiable: the Miller value of the generators is reduced -/
theorem miller_generators_reduced : Red12 (miller twistGen curveGen) := by
  unfold Red12 Red6 Red2; decide +kernel

end Dos.Props.C10FinalExp

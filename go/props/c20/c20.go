// Package c20: the bundled Ed25519 suite (group/edwards25519) and sign/schnorr against
// crypto/ed25519 and math/big.
//
// Case lines (hex for bytes, "-" = empty):
//
//	sc muladd A B C | sc add A C | sc sub A C | sc mul A B | sc reduce S64
//	        the unexported ref10 routines through the verif hooks, raw 32-byte result
//	api add|sub|mul A B | api neg|inv A | api setbytes X | api unmarshal X
//	        the public kyber.Scalar API of the suite, MarshalBinary of the result
//	pt X    point.UnmarshalBinary / MarshalBinary
//	sv SEED K MSG      RFC 8032 key from SEED; bundled Sign (nonce K) and std Sign, all four verifications
//	svx X K MSG        arbitrary private scalar bytes X (as UnmarshalBinary stores them)
//	mut SEED K MSG BASE WHAT   BASE = b (bundled signature) | s (std signature); WHAT =
//	        sig:<bit> | msg:<bit> | app:<byte> | key:<bit> | splus | sneg (S -> l-S) | rneg (R -> -R) | rsneg | trunc:<n> | ext:<hex> | none
//
// MSG is x<hex> (literal) or s<n>,<a>,<b> (byte i = a*i+b).
package c20

import (
	"bytes"
	"crypto/ed25519"
	"crypto/sha512"
	"fmt"
	"math/big"
	"strings"

	"github.com/DOSNetwork/core/group/edwards25519"
	"github.com/DOSNetwork/core/sign/schnorr"
	"github.com/dedis/kyber"

	"verifharness/internal/h"
)

var ell, _ = new(big.Int).SetString("7237005577332262213973186563042994240857116359379907606001950938285454250989", 10)
var prime = new(big.Int).Sub(new(big.Int).Lsh(big.NewInt(1), 255), big.NewInt(19))

func init() {
	h.Register(&h.Prop{
		ID: "C20",
		Rule: "sc/api: ref10 scalar routines and the public Scalar API on {0,1,l-1,l,l+1,2^252,2^253-1,2^255-1,2^256-1, single limb / limb-boundary patterns, random reduced and unreduced} vs math/big; " +
			"pt: encodings of honest points, random strings, small-order and non-canonical encodings vs a math/big decoder; " +
			"sv/svx: every generated key (RFC 8032 seed keys and raw scalars) x messages {empty, short, long}: bundled Sign -> std Verify, std Sign -> bundled Verify; " +
			"ali/sca/pta/apx: every public Scalar and Point operation and the raw routines with the receiver/output fresh, = first operand, = second operand, both operands one object, all one object, on {0,1,2,l-1,l-2,l+1,2^256-1,random reduced/unreduced} resp. identity, base, small-order and honest points, vs math/big (affine Edwards arithmetic for points); " +
			"fe/ge/pt2 (fege.go): every routine of fe.go and method of ge.go on raw limb vectors through the hooks, compared limb for limb with the regenerated Lean translation: field operands at 1x/2x/3x the ref10 limb bounds (all +, all -, alternating, single extreme limb, random), alias patterns fresh / h=f / h=g / f=g / all, residues 0, +-1, p-1, p, p+k, -p in tight and loose shapes, byte strings at every limb boundary; group operands identity, base, all small-order points, honest multiples of B and mixed-order points in the shapes Z=1 / random Z / sign-flipped X, chains through the real routines, table selection, non-canonical and non-square encodings, scalars {0,1,8,l-1,l,l+1,2^252,2^253-1,2^255-1,random}; oracle math/big (value, limb bound, affine Edwards law, X*Y=Z*T, canonical bytes); classes *-wild / *-a31>127 = operands outside the ref10 contracts, model = implementation only; " +
			"hist (hist.go): call histories on shared mutable objects - one private scalar object changed in place between Sign calls (Add one, Pick, SetBytes, UnmarshalBinary, Set, Mul, Neg, Sub, One) from raw values {random, 0, 1, l-1, l, 2^253-1, 2^255-1, top byte 0x88, 2^256-1}, the public point object recomputed in place, message and signature buffers refilled and poked in place, two keys alternating, clones, standard signatures in a re-used buffer, random histories; every emitted signature must verify under crypto/ed25519 for (value at call time)*B, every Verify verdict must equal crypto/ed25519's on the values at call time, no call may change a caller's object; " +
			"vfy (torsion.go): key-holder signatures with each of the 8 torsion points added to the commitment, to the key, to both, torsion points as keys: the two verifiers must agree; drt/drp: every Scalar and Point operation on a receiver that already holds a large value (SetBytes for every input length 0..66, 100, 129) vs math/big; " +
			"mut: every (thorough) / a sample (quick) of the single-bit mutations of signature, message, key, plus S+l, truncation, extension: both verifiers must reject; " +
			"non-trivial = every case whose operands are not all zero; distinct = distinct case line",
		Gen:  gen,
		Exec: exec,
	})
}

// ---------- helpers ----------

func le(b []byte) *big.Int {
	r := make([]byte, len(b))
	for i := range b {
		r[len(b)-1-i] = b[i]
	}
	return new(big.Int).SetBytes(r)
}

func le32(v *big.Int) []byte {
	b := v.Bytes()
	out := make([]byte, 32)
	for i := range b {
		if i < 32 {
			out[i] = b[len(b)-1-i]
		}
	}
	return out
}

func arr32(b []byte) *[32]byte {
	var a [32]byte
	if len(b) != 32 {
		panic("case line: operand is not 32 bytes")
	}
	copy(a[:], b)
	return &a
}

func msgOf(tok string) []byte {
	switch {
	case strings.HasPrefix(tok, "x"):
		return h.UnHex(tok[1:])
	case strings.HasPrefix(tok, "s"):
		var n, a, b int
		if _, err := fmt.Sscanf(tok[1:], "%d,%d,%d", &n, &a, &b); err != nil {
			panic("bad message token " + tok)
		}
		m := make([]byte, n)
		for i := range m {
			m[i] = byte((a*i + b) % 256)
		}
		return m
	}
	panic("bad message token " + tok)
}

// fixed "random" stream: yields the given bytes, then 00…01 blocks (so random.Int terminates)
type fixedStream struct {
	buf []byte
	n   int
}

func (f *fixedStream) XORKeyStream(dst, src []byte) {
	for i := range dst {
		var k byte
		if len(f.buf) > 0 {
			k = f.buf[0]
			f.buf = f.buf[1:]
		} else if f.n%32 == 31 {
			k = 1
		}
		f.n++
		dst[i] = src[i] ^ k
	}
}

func suiteWithNonce(k []byte) *edwards25519.SuiteEd25519 {
	if len(k) != 32 {
		panic("nonce must be 32 bytes (big-endian)")
	}
	return edwards25519.NewBlakeSHA256Ed25519WithRand(&fixedStream{buf: append([]byte{}, k...)})
}

var suite = edwards25519.NewBlakeSHA256Ed25519()

func verdict(err error) string {
	if err == nil {
		return "ok"
	}
	s := err.Error()
	switch {
	case strings.Contains(s, "invalid length"):
		return "rej:length"
	case strings.Contains(s, "invalid Ed25519 curve point"):
		return "rej:point"
	case strings.Contains(s, "canonical"):
		return "rej:noncanonical"
	case strings.Contains(s, "invalid signature"):
		return "rej:invalid"
	}
	return "rej:other:" + h.OneLine(s)
}

func stdVerdict(pub, msg, sig []byte) string {
	if len(pub) != ed25519.PublicKeySize {
		return "rej"
	}
	if ed25519.Verify(ed25519.PublicKey(pub), msg, sig) {
		return "ok"
	}
	return "rej"
}

// RFC 8032 §5.1.5: the secret scalar of a seed (clamped low half of SHA-512(seed))
func seedScalar(seed []byte) []byte {
	d := sha512.Sum512(seed)
	d[0] &= 248
	d[31] &= 127
	d[31] |= 64
	return d[:32]
}

// ---------- independent point decoder (math/big), RFC 8032 §5.1.3 with ref10's leniencies noted ----------

var curveD = func() *big.Int {
	d := new(big.Int).ModInverse(big.NewInt(121666), prime)
	d.Mul(d, big.NewInt(-121665))
	return d.Mod(d, prime)
}()

// decodes b (32 bytes) → (x, y, canonical, ok)
func bigDecode(b []byte) (x, y *big.Int, canonical, ok bool) {
	if len(b) != 32 {
		return nil, nil, false, false
	}
	n := le(b)
	sign := n.Bit(255)
	yraw := new(big.Int).SetBit(new(big.Int).Set(n), 255, 0)
	canonical = yraw.Cmp(prime) < 0
	y = new(big.Int).Mod(yraw, prime)
	yy := new(big.Int).Mul(y, y)
	u := new(big.Int).Sub(yy, big.NewInt(1))
	u.Mod(u, prime)
	v := new(big.Int).Mul(yy, curveD)
	v.Add(v, big.NewInt(1))
	v.Mod(v, prime)
	vi := new(big.Int).ModInverse(v, prime)
	if vi == nil {
		return nil, nil, false, false
	}
	xx := new(big.Int).Mul(u, vi)
	xx.Mod(xx, prime)
	x = new(big.Int).ModSqrt(xx, prime)
	if x == nil {
		return nil, nil, false, false
	}
	if x.Bit(0) != sign {
		x.Sub(prime, x)
		x.Mod(x, prime)
	}
	if x.Sign() == 0 && sign == 1 {
		canonical = false // RFC 8032 rejects this; ref10 accepts it
	}
	return x, y, canonical, true
}

func bigEncode(x, y *big.Int) []byte {
	v := new(big.Int).Set(y)
	if x.Bit(0) == 1 {
		v.SetBit(v, 255, 1)
	}
	return le32(v)
}

// ---------- exec ----------

func scalarOf(b []byte) (kyber.Scalar, error) {
	s := suite.Scalar()
	err := s.UnmarshalBinary(b)
	return s, err
}

func allZero(bs ...[]byte) bool {
	for _, b := range bs {
		for _, x := range b {
			if x != 0 {
				return false
			}
		}
	}
	return true
}

func exec(line string) (res h.Result) {
	w := strings.Fields(line)
	switch w[0] {
	case "sc":
		var out [32]byte
		var want *big.Int
		var ops [][]byte
		for _, t := range w[2:] {
			ops = append(ops, h.UnHex(t))
		}
		switch w[1] {
		case "muladd":
			edwards25519.VerifScMulAdd(&out, arr32(ops[0]), arr32(ops[1]), arr32(ops[2]))
			want = new(big.Int).Mul(le(ops[0]), le(ops[1]))
			want.Add(want, le(ops[2]))
		case "add":
			edwards25519.VerifScAdd(&out, arr32(ops[0]), arr32(ops[1]))
			want = new(big.Int).Add(le(ops[0]), le(ops[1]))
		case "sub":
			edwards25519.VerifScSub(&out, arr32(ops[0]), arr32(ops[1]))
			want = new(big.Int).Sub(le(ops[0]), le(ops[1]))
		case "mul":
			edwards25519.VerifScMul(&out, arr32(ops[0]), arr32(ops[1]))
			want = new(big.Int).Mul(le(ops[0]), le(ops[1]))
		case "reduce":
			var in [64]byte
			if len(ops[0]) != 64 {
				panic("reduce wants 64 bytes")
			}
			copy(in[:], ops[0])
			edwards25519.VerifScReduce(&out, &in)
			want = le(ops[0])
		default:
			panic("bad sc op")
		}
		want.Mod(want, ell)
		res.Impl = h.Hex(out[:])
		res.Class = "sc-" + w[1]
		res.Nontrivial = !allZero(ops...)
		if !bytes.Equal(out[:], le32(want)) {
			got := le(out[:])
			if new(big.Int).Mod(got, ell).Cmp(want) == 0 {
				res.Oracle = fmt.Sprintf("sc-%s-not-reduced: result %s is congruent to the expected value but not below l", w[1], h.Hex(out[:]))
			} else {
				res.Oracle = fmt.Sprintf("sc-%s-differs: got %s want %s", w[1], h.Hex(out[:]), h.Hex(le32(want)))
			}
		}
	case "api":
		res.Class = "api-" + w[1]
		res.Nontrivial = true
		switch w[1] {
		case "add", "sub", "mul":
			a, ea := scalarOf(h.UnHex(w[2]))
			b, eb := scalarOf(h.UnHex(w[3]))
			if ea != nil || eb != nil {
				panic("api operands must be 32 bytes")
			}
			r := suite.Scalar()
			var want *big.Int
			A, B := le(h.UnHex(w[2])), le(h.UnHex(w[3]))
			switch w[1] {
			case "add":
				r.Add(a, b)
				want = new(big.Int).Add(A, B)
			case "sub":
				r.Sub(a, b)
				want = new(big.Int).Sub(A, B)
			case "mul":
				r.Mul(a, b)
				want = new(big.Int).Mul(A, B)
			}
			out, _ := r.MarshalBinary()
			res.Impl = h.Hex(out)
			if !bytes.Equal(out, le32(want.Mod(want, ell))) {
				res.Oracle = fmt.Sprintf("api-%s-differs: got %s want %s", w[1], h.Hex(out), h.Hex(le32(want)))
			}
		case "neg", "inv":
			a, ea := scalarOf(h.UnHex(w[2]))
			if ea != nil {
				panic("api operand must be 32 bytes")
			}
			A := new(big.Int).Mod(le(h.UnHex(w[2])), ell)
			r := suite.Scalar()
			var want *big.Int
			if w[1] == "neg" {
				r.Neg(a)
				want = new(big.Int).Neg(A)
				want.Mod(want, ell)
			} else {
				r.Inv(a)
				want = new(big.Int).ModInverse(A, ell)
				if want == nil {
					want = big.NewInt(0) // 0^(l-2) = 0
				}
			}
			out, _ := r.MarshalBinary()
			res.Impl = h.Hex(out)
			if !bytes.Equal(out, le32(want)) {
				res.Oracle = fmt.Sprintf("api-%s-differs: got %s want %s", w[1], h.Hex(out), h.Hex(le32(want)))
			}
		case "setbytes":
			x := h.UnHex(w[2])
			out, _ := suite.Scalar().SetBytes(x).MarshalBinary()
			res.Impl = h.Hex(out)
			if !bytes.Equal(out, le32(new(big.Int).Mod(le(x), ell))) {
				res.Oracle = "api-setbytes-differs: got " + h.Hex(out)
			}
		case "unmarshal":
			x := h.UnHex(w[2])
			s, err := scalarOf(x)
			if err != nil {
				res.Impl = "err size"
				if len(x) == 32 {
					res.Oracle = "scalar-roundtrip: a 32-byte encoding was refused"
				}
				break
			}
			out, _ := s.MarshalBinary()
			res.Impl = "ok " + h.Hex(out)
			if len(x) != 32 {
				res.Oracle = fmt.Sprintf("scalar-size: %d bytes accepted", len(x))
			} else if le(x).Cmp(ell) < 0 && !bytes.Equal(out, x) {
				res.Oracle = "scalar-roundtrip: canonical encoding " + h.Hex(x) + " came back as " + h.Hex(out)
			} else if !bytes.Equal(out, le32(new(big.Int).Mod(le(x), ell))) {
				res.Oracle = "scalar-marshal-differs: " + h.Hex(out)
			}
		default:
			panic("bad api op")
		}
	case "pt":
		x := h.UnHex(w[1])
		P := suite.Point()
		err := P.UnmarshalBinary(x)
		bx, by, canon, ok := bigDecode(x)
		res.Nontrivial = true
		if err != nil {
			res.Impl = "err"
			res.Class = "pt-err"
			if ok {
				res.Oracle = "point-roundtrip: valid encoding refused: " + h.Hex(x)
			}
			break
		}
		out, _ := P.MarshalBinary()
		res.Impl = "ok " + h.Hex(out)
		res.Class = "pt-ok"
		if !canon {
			res.Class = "pt-ok-noncanonical"
		}
		switch {
		case !ok:
			res.Oracle = "point-decode: not a curve point but accepted: " + h.Hex(x)
		case !bytes.Equal(out, bigEncode(bx, by)):
			res.Oracle = "point-decode: decoded to " + h.Hex(out) + " expected " + h.Hex(bigEncode(bx, by))
		case canon && !bytes.Equal(out, x):
			res.Oracle = "point-roundtrip: canonical encoding " + h.Hex(x) + " came back as " + h.Hex(out)
		}
	case "sv", "svx":
		k, msg := h.UnHex(w[2]), msgOf(w[3])
		var priv kyber.Scalar
		var pub []byte
		var stdPriv ed25519.PrivateKey
		if w[0] == "sv" {
			seed := h.UnHex(w[1])
			stdPriv = ed25519.NewKeyFromSeed(seed)
			pub = []byte(stdPriv[32:])
			priv = suite.Scalar().SetBytes(seedScalar(seed))
		} else {
			var err error
			if priv, err = scalarOf(h.UnHex(w[1])); err != nil {
				panic("svx wants a 32-byte scalar")
			}
			pub, _ = suite.Point().Mul(priv, nil).MarshalBinary()
		}
		res.Nontrivial = true
		res.Class = fmt.Sprintf("%s-msg%s", w[0], lenClass(len(msg)))
		// the bundled suite derives the same public key
		mypub, _ := suite.Point().Mul(priv, nil).MarshalBinary()
		A := suite.Point()
		if err := A.UnmarshalBinary(pub); err != nil {
			res.Impl = "pubkey does not decode"
			res.Oracle = "key-decode: the standard public key is refused by the bundled suite: " + h.Hex(pub)
			return
		}
		sig, err := schnorr.Sign(suiteWithNonce(k), priv, msg)
		if err != nil {
			res.Impl = "sign error"
			res.Oracle = "sign-error: " + h.OneLine(err.Error())
			return
		}
		bv := verdict(schnorr.Verify(suite, A, msg, sig))
		sv := stdVerdict(pub, msg, sig)
		out := fmt.Sprintf("pub=%s sig=%s bv=%s sv=%s", h.Hex(mypub), h.Hex(sig), bv, sv)
		switch {
		case !bytes.Equal(mypub, pub):
			res.Oracle = "pubkey-differs: bundled " + h.Hex(mypub) + " standard " + h.Hex(pub)
		case sv != "ok":
			res.Oracle = "bundled-sig-rejected-by-std: " + h.Hex(sig)
		case bv != "ok":
			res.Oracle = "bundled-sig-rejected-by-bundled: " + bv
		}
		if stdPriv != nil {
			sig2 := ed25519.Sign(stdPriv, msg)
			bv2 := verdict(schnorr.Verify(suite, A, msg, sig2))
			out += fmt.Sprintf(" sig2=%s bv2=%s", h.Hex(sig2), bv2)
			if bv2 != "ok" && res.Oracle == "" {
				res.Oracle = "std-sig-rejected-by-bundled: " + bv2 + " " + h.Hex(sig2)
			}
		}
		res.Impl = out
	case "mut":
		seed, k, msg, base, what := h.UnHex(w[1]), h.UnHex(w[2]), msgOf(w[3]), w[4], w[5]
		stdPriv := ed25519.NewKeyFromSeed(seed)
		pub := append([]byte{}, stdPriv[32:]...)
		priv := suite.Scalar().SetBytes(seedScalar(seed))
		var sig []byte
		if base == "b" {
			var err error
			if sig, err = schnorr.Sign(suiteWithNonce(k), priv, msg); err != nil {
				panic(err)
			}
		} else {
			sig = ed25519.Sign(stdPriv, msg)
		}
		kind, arg := what, ""
		if i := strings.Index(what, ":"); i >= 0 {
			kind, arg = what[:i], what[i+1:]
		}
		altered := true
		switch kind {
		case "none":
			altered = false
		case "sig":
			b := h.Atoi(arg)
			sig[b/8] ^= 1 << uint(b%8)
		case "msg":
			b := h.Atoi(arg)
			msg = append([]byte{}, msg...)
			msg[b/8] ^= 1 << uint(b%8)
		case "app":
			msg = append(append([]byte{}, msg...), byte(h.Atoi(arg)))
		case "key":
			b := h.Atoi(arg)
			pub[b/8] ^= 1 << uint(b%8)
		case "splus":
			s := new(big.Int).Add(le(sig[32:]), ell)
			if s.BitLen() > 256 {
				panic("S + l does not fit")
			}
			copy(sig[32:], le32(s))
		case "sneg":
			// S -> l - S: S'*B = -(R + h*A), whose encoding differs from that of R + h*A in bit 255 alone
			s := new(big.Int).Sub(ell, new(big.Int).Mod(le(sig[32:]), ell))
			copy(sig[32:], le32(s.Mod(s, ell)))
		case "rneg":
			sig[31] ^= 0x80 // R -> -R
		case "rsneg":
			sig[31] ^= 0x80
			s := new(big.Int).Sub(ell, new(big.Int).Mod(le(sig[32:]), ell))
			copy(sig[32:], le32(s.Mod(s, ell)))
		case "trunc":
			sig = sig[:h.Atoi(arg)]
		case "ext":
			sig = append(sig, h.UnHex(arg)...)
		default:
			panic("bad mutation")
		}
		res.Nontrivial = true
		res.Class = "mut-" + base + "-" + kind
		var bv string
		A := suite.Point()
		if err := A.UnmarshalBinary(pub); err != nil {
			bv = "rej:key"
		} else {
			bv = verdict(schnorr.Verify(suite, A, msg, sig))
		}
		sv := stdVerdict(pub, msg, sig)
		res.Impl = fmt.Sprintf("bv=%s sv=%s", bv, sv)
		if altered {
			if bv == "ok" {
				if kind == "splus" {
					res.Oracle = "noncanonical-S-accepted: R||S+l accepted by the bundled Verify (std: " + sv + ")"
				} else {
					res.Oracle = "altered-accepted-" + kind + ": bundled Verify accepted (std: " + sv + ")"
				}
			} else if sv == "ok" {
				res.Oracle = "oracle-accepts-altered-" + kind + ": crypto/ed25519 accepted an altered input"
			}
		} else if bv != "ok" || sv != "ok" {
			res.Oracle = "unaltered-rejected: bv=" + bv + " sv=" + sv
		}
	default:
		if w[0] == "hist" {
			execHist(w, &res)
			return
		}
		if !execAlias(w, &res) && !execTorsion(w, &res) && !execFeGe(w, &res) {
			panic("bad case line")
		}
	}
	return
}

func lenClass(n int) string {
	switch {
	case n == 0:
		return "0"
	case n < 128:
		return "short"
	case n < 1024:
		return "mid"
	}
	return "long"
}

// ---------- generation ----------

func pow2(k uint) *big.Int { return new(big.Int).Lsh(big.NewInt(1), k) }

func hx32(v *big.Int) string { return h.Hex(le32(v)) }

func operands(rng *h.Rng, thorough bool) []*big.Int {
	one := big.NewInt(1)
	max := new(big.Int).Sub(pow2(256), one)
	vs := []*big.Int{big.NewInt(0), one, big.NewInt(2), new(big.Int).Sub(ell, one), new(big.Int).Set(ell), new(big.Int).Add(ell, one),
		new(big.Int).Sub(ell, big.NewInt(2)), pow2(252), new(big.Int).Sub(pow2(252), one), new(big.Int).Sub(pow2(253), one),
		new(big.Int).Sub(pow2(255), one), pow2(255), max, new(big.Int).Mul(ell, big.NewInt(15)), new(big.Int).Sub(new(big.Int).Mul(ell, big.NewInt(16)), one)}
	// single limbs at their extremes, limb boundaries
	for i := uint(0); i < 12; i++ {
		lo := pow2(21 * i)
		vs = append(vs, new(big.Int).Mul(lo, big.NewInt(2097151)).And(new(big.Int).Mul(lo, big.NewInt(2097151)), max))
		if thorough || i%3 == 0 {
			vs = append(vs, new(big.Int).And(lo, max), new(big.Int).And(new(big.Int).Sub(lo, one), max), new(big.Int).And(new(big.Int).Mul(lo, big.NewInt(1048576)), max))
		}
	}
	// all limbs 2^20 / 2^20-1 (carry rounding boundary), alternating limbs
	a, b, c := new(big.Int), new(big.Int), new(big.Int)
	for i := uint(0); i < 12; i++ {
		a.Add(a, new(big.Int).Lsh(big.NewInt(1048576), 21*i))
		b.Add(b, new(big.Int).Lsh(big.NewInt(1048575), 21*i))
		if i%2 == 0 {
			c.Add(c, new(big.Int).Lsh(big.NewInt(2097151), 21*i))
		}
	}
	vs = append(vs, a.And(a, max), b, c)
	n := 12
	if thorough {
		n = 60
	}
	for i := 0; i < n; i++ {
		vs = append(vs, rng.Big(ell), rng.Big(pow2(256)))
	}
	return vs
}

func genScalar(rng *h.Rng, thorough bool, emit func(string)) {
	vs := operands(rng, thorough)
	pick := func() *big.Int { return vs[rng.Intn(len(vs))] }
	// every operand in every position against fixed companions, then random triples
	fixed := []*big.Int{big.NewInt(0), big.NewInt(1), new(big.Int).Sub(ell, big.NewInt(1)), new(big.Int).Sub(pow2(256), big.NewInt(1))}
	for _, v := range vs {
		for _, f := range fixed {
			emit(fmt.Sprintf("sc muladd %s %s %s", hx32(v), hx32(f), hx32(pick())))
			emit(fmt.Sprintf("sc muladd %s %s %s", hx32(f), hx32(v), hx32(pick())))
			emit(fmt.Sprintf("sc muladd %s %s %s", hx32(pick()), hx32(f), hx32(v)))
			emit(fmt.Sprintf("sc add %s %s", hx32(v), hx32(f)))
			emit(fmt.Sprintf("sc sub %s %s", hx32(v), hx32(f)))
			emit(fmt.Sprintf("sc sub %s %s", hx32(f), hx32(v)))
			emit(fmt.Sprintf("sc mul %s %s", hx32(v), hx32(f)))
		}
		emit(fmt.Sprintf("sc muladd %s %s %s", hx32(v), hx32(v), hx32(v)))
		emit(fmt.Sprintf("api add %s %s", hx32(v), hx32(pick())))
		emit(fmt.Sprintf("api sub %s %s", hx32(pick()), hx32(v)))
		emit(fmt.Sprintf("api mul %s %s", hx32(v), hx32(pick())))
		emit(fmt.Sprintf("api neg %s", hx32(v)))
		emit(fmt.Sprintf("api unmarshal %s", hx32(v)))
		emit(fmt.Sprintf("api setbytes %s", hx32(v)))
	}
	n := 3000
	if thorough {
		n = 30000
	}
	for i := 0; i < n; i++ {
		emit(fmt.Sprintf("sc muladd %s %s %s", hx32(pick()), hx32(pick()), hx32(pick())))
		emit(fmt.Sprintf("sc muladd %s %s %s", h.Hex(rng.Bytes(32)), h.Hex(rng.Bytes(32)), h.Hex(rng.Bytes(32))))
		emit(fmt.Sprintf("sc add %s %s", hx32(pick()), hx32(pick())))
		emit(fmt.Sprintf("sc sub %s %s", hx32(pick()), hx32(pick())))
		emit(fmt.Sprintf("sc mul %s %s", hx32(pick()), hx32(pick())))
	}
	// unreduced 64-byte inputs
	for _, v := range vs {
		for _, u := range []*big.Int{big.NewInt(0), pick(), new(big.Int).Sub(pow2(256), big.NewInt(1))} {
			x := new(big.Int).Add(new(big.Int).Lsh(u, 256), v)
			b := append(le32(v), le32(u)...)
			_ = x
			emit("sc reduce " + h.Hex(b))
			emit("api setbytes " + h.Hex(b))
		}
	}
	for i := 0; i < n/3; i++ {
		emit("sc reduce " + h.Hex(rng.Bytes(64)))
	}
	ff := bytes.Repeat([]byte{0xff}, 64)
	emit("sc reduce " + h.Hex(ff))
	// 21-bit limb patterns in 64 bytes
	for i := uint(0); i < 24; i++ {
		v := new(big.Int).Lsh(big.NewInt(2097151), 21*i)
		v.And(v, new(big.Int).Sub(pow2(512), big.NewInt(1)))
		bb := v.Bytes()
		b := make([]byte, 64)
		for j := range bb {
			b[j] = bb[len(bb)-1-j]
		}
		emit("sc reduce " + h.Hex(b))
	}
	ninv := 6
	if thorough {
		ninv = 60
	}
	emit("api inv " + hx32(big.NewInt(0)))
	emit("api inv " + hx32(big.NewInt(1)))
	emit("api inv " + hx32(new(big.Int).Sub(ell, big.NewInt(1))))
	emit("api inv " + hx32(new(big.Int).Add(ell, big.NewInt(2))))
	for i := 0; i < ninv; i++ {
		emit("api inv " + hx32(rng.Big(ell)))
	}
	for _, l := range []int{0, 1, 31, 33, 64} {
		emit("api unmarshal " + h.Hex(rng.Bytes(l)))
		emit("api setbytes " + h.Hex(rng.Bytes(l)))
	}
}

func genPoints(rng *h.Rng, thorough bool, emit func(string)) {
	n := 60
	if thorough {
		n = 1500
	}
	for i := 0; i < n; i++ {
		// honest points: standard public keys
		pk := ed25519.NewKeyFromSeed(rng.Bytes(32))[32:]
		emit("pt " + h.Hex(pk))
		emit("pt " + h.Hex(rng.Bytes(32))) // about half are on the curve
	}
	p := prime
	special := []*big.Int{big.NewInt(0), big.NewInt(1), big.NewInt(2), new(big.Int).Sub(p, big.NewInt(1)), new(big.Int).Set(p), new(big.Int).Add(p, big.NewInt(1)),
		new(big.Int).Add(p, big.NewInt(3)), new(big.Int).Add(p, big.NewInt(18)), new(big.Int).Sub(pow2(255), big.NewInt(1))}
	for _, y := range special {
		emit("pt " + hx32(y))
		emit("pt " + hx32(new(big.Int).SetBit(new(big.Int).Set(y), 255, 1)))
	}
	// the other small-order points (order 8) and the base point
	for _, s := range []string{"26e8958fc2b227b045c3f489f2ef98f0d5dfac05d3c63339b13802886d53fc05", "c7176a703d4dd84fba3c0b760d10670f2a2053fa2c39ccc64ec7fd7792ac037a",
		"5866666666666666666666666666666666666666666666666666666666666666"} {
		emit("pt " + s)
	}
	for _, l := range []int{0, 31, 33, 64} {
		emit("pt " + h.Hex(rng.Bytes(l)))
	}
}

func nonce(rng *h.Rng) string {
	k := rng.Big(new(big.Int).Sub(ell, big.NewInt(1)))
	k.Add(k, big.NewInt(1)) // 1 ≤ k < l
	b := k.Bytes()
	out := make([]byte, 32)
	copy(out[32-len(b):], b)
	return h.Hex(out)
}

func messages(rng *h.Rng, thorough bool) []string {
	ms := []string{"x-", "x" + h.Hex(rng.Bytes(1+rng.Intn(40))), fmt.Sprintf("s%d,%d,%d", 1000+rng.Intn(3000), 1+rng.Intn(250), rng.Intn(256))}
	if thorough {
		ms = append(ms, fmt.Sprintf("s%d,%d,%d", 111, 7, 3), fmt.Sprintf("s%d,%d,%d", 128-17, 1, 0), fmt.Sprintf("s%d,%d,%d", 128-16, 1, 0), fmt.Sprintf("s%d,%d,%d", 60000+rng.Intn(9000), 13, 5))
	}
	return ms
}

func genSign(rng *h.Rng, thorough bool, emit func(string)) {
	nkeys := 40
	if thorough {
		nkeys = 300
	}
	for i := 0; i < nkeys; i++ {
		seed := h.Hex(rng.Bytes(32))
		for _, m := range messages(rng, thorough) {
			emit(fmt.Sprintf("sv %s %s %s", seed, nonce(rng), m))
		}
	}
	// directed seeds
	for _, s := range [][]byte{make([]byte, 32), bytes.Repeat([]byte{0xff}, 32)} {
		emit(fmt.Sprintf("sv %s %s x-", h.Hex(s), nonce(rng)))
	}
	// raw private scalars
	one := big.NewInt(1)
	xs := []*big.Int{big.NewInt(0), one, big.NewInt(2), new(big.Int).Sub(ell, one), new(big.Int).Set(ell), new(big.Int).Add(ell, one), new(big.Int).Sub(pow2(253), one), new(big.Int).Sub(pow2(255), one)}
	for i := 0; i < nkeys/2; i++ {
		xs = append(xs, rng.Big(ell))
	}
	// unreduced private scalars as scalar.UnmarshalBinary stores them, top byte on both sides of the contract
	// a[31] <= 127 of the window recoding and of the first value (0x88) whose top digit leaves the table (F21)
	for _, top := range []int64{0x7f, 0x80, 0x87, 0x88, 0xc0, 0xff} {
		x := rng.Big(pow2(248))
		xs = append(xs, x.Add(x, new(big.Int).Lsh(big.NewInt(top), 248)))
	}
	xs = append(xs, new(big.Int).Sub(pow2(256), one), pow2(255))
	for _, x := range xs {
		for _, m := range messages(rng, false) {
			emit(fmt.Sprintf("svx %s %s %s", hx32(x), nonce(rng), m))
		}
	}
	// extreme nonces
	km1 := new(big.Int).Sub(ell, one).Bytes()
	emit(fmt.Sprintf("sv %s %s x616263", h.Hex(rng.Bytes(32)), h.Hex(append(make([]byte, 31), 1))))
	emit(fmt.Sprintf("sv %s %s x616263", h.Hex(rng.Bytes(32)), h.Hex(km1)))
}

func genMut(rng *h.Rng, thorough bool, emit func(string)) {
	nbase := 10
	if thorough {
		nbase = 12
	}
	for i := 0; i < nbase; i++ {
		seed, k := h.Hex(rng.Bytes(32)), nonce(rng)
		mlen := 1 + rng.Intn(12)
		msg := "x" + h.Hex(rng.Bytes(mlen))
		if i == 1 {
			msg, mlen = "x-", 0
		}
		if i == 2 {
			mlen = 300
			msg = fmt.Sprintf("s%d,%d,%d", mlen, 1+rng.Intn(250), rng.Intn(256))
		}
		for _, base := range []string{"b", "s"} {
			p := fmt.Sprintf("mut %s %s %s %s ", seed, k, msg, base)
			emit(p + "none")
			emit(p + "splus")
			emit(p + "sneg")
			emit(p + "rneg")
			emit(p + "rsneg")
			for _, n := range []int{0, 1, 32, 63} {
				emit(p + fmt.Sprintf("trunc:%d", n))
			}
			emit(p + "ext:00")
			emit(p + "ext:" + h.Hex(rng.Bytes(1+rng.Intn(64))))
			emit(p + "app:0")
			emit(p + fmt.Sprintf("app:%d", rng.Intn(256)))
			all := thorough && (i < 4)
			for b := 0; b < 512; b++ {
				if all || rng.Intn(512) < 28 || b == 0 || b == 255 || b == 256 || b == 511 || b == 508 || b == 252+256 {
					emit(p + fmt.Sprintf("sig:%d", b))
				}
			}
			for b := 0; b < 256; b++ {
				if all || rng.Intn(256) < 16 || b == 0 || b == 255 || b == 254 {
					emit(p + fmt.Sprintf("key:%d", b))
				}
			}
			for b := 0; b < 8*mlen; b++ {
				if all || rng.Intn(8*mlen) < 12 || b == 0 || b == 8*mlen-1 {
					emit(p + fmt.Sprintf("msg:%d", b))
				}
			}
		}
	}
}

// signatures whose S has a zero top byte (found with crypto/ed25519 alone): dropping the last byte
// loses no information, so a verifier that tolerates 63 bytes would accept them
func genShortS(rng *h.Rng, thorough bool, emit func(string)) {
	n := 2
	if thorough {
		n = 10
	}
	for i := 0; i < n; i++ {
		seed := rng.Bytes(32)
		priv := ed25519.NewKeyFromSeed(seed)
		for c := 0; c < 4000; c++ {
			msg := append(rng.Bytes(6), byte(c), byte(c>>8))
			if sig := ed25519.Sign(priv, msg); sig[63] == 0 {
				p := fmt.Sprintf("mut %s %s x%s s ", h.Hex(seed), nonce(rng), h.Hex(msg))
				emit(p + "none")
				emit(p + "trunc:63")
				emit(p + "trunc:62")
				emit(p + "ext:00")
				emit(p + "splus")
				break
			}
		}
	}
}

func gen(tier string, rng *h.Rng, emit func(string)) {
	thorough := tier == "thorough"
	// h.NewRng(seed) and h.NewRng(seed+1) are the same SplitMix64 stream shifted by one draw;
	// re-seed from the first output so that different VERIF_SEEDs give unrelated case sets
	rng = h.NewRng(rng.U64())
	genScalar(rng, thorough, emit)
	genPoints(rng, thorough, emit)
	genSign(rng, thorough, emit)
	genMut(rng, thorough, emit)
	genShortS(rng, thorough, emit)
	genAlias(rng, thorough, emit)
	genFeGe(rng, thorough, emit)
	genHist(h.NewRng(rng.U64()), thorough, emit) // own stream: the cases above stay what they were
	genTorsion(h.NewRng(rng.U64()), thorough, emit)
}

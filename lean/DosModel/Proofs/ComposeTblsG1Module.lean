/-
Composition helper: the driver's concrete threshold-BLS instance (scalars `Zq r`, points `G1.Pt`,
codec `g1Codec` of `Model/TblsDrv.lean`) related to an abstract module so that the C02/C03 theorems apply
to the functions the driver RUNS.

* `E = E(F_p)` (Mathlib's `WeierstrassCurve.Affine.Point` for `y² = x³ + 3`) is an `AddCommGroup` by
  Mathlib; under the hypothesis `hr : ∀ P : E, r • P = 0` (the curve group has exponent `r`, i.e.
  `#E(F_p) = r` — NOT proved, explicit) it is a module over the field `Zq r` (`moduleE`).
* `φ = toPoint ∘ cT : G1.Pt → E` is a homomorphism on valid points for `0`, `+`
  (`Proofs/ComposeTblsG1.lean`) and for the driver's scalar multiplication `G1.mul` (`MulBridge`, proved
  as `mulBridge` from `Proofs/ComposeTblsG1Mul.lean`: the Jacobian double-and-add with mixed addition of
  `Model/TblsG1.lean` computes `k • P`).
* `recover_nat` (`Proofs/ComposeNatural.lean`) then identifies the driver's run with the abstract one.
-/
import DosModel.Model.TblsDrv
import DosModel.Proofs.ComposeTblsG1
import DosModel.Proofs.ComposeTblsG1Mul
import DosModel.Proofs.ComposeNatural
import DosModel.Props.C02
import DosModel.Props.C03
import DosModel.Props.C09

set_option linter.unusedSectionVars false
set_option linter.style.haveILetI false

namespace Dos.Compose.TG1
open Dos Dos.G1 Dos.Share Dos.Tbls Dos.Compose.Curve Dos.Compose.Natural

/-- the elliptic-curve group `E(F_p)`, `y² = x³ + 3` -/
abbrev E := (sw (3 : Fp)).Point

/-- the point of `E(F_p)` a driver value denotes -/
noncomputable def φ (P : Pt) : E := toPoint 3 (cT P)

/-- representative of a group element (coordinates `< p`) -/
def ψ : E → Pt
  | .zero => .inf
  | .some x y _ => .aff x.val y.val

theorem ψ_φ (P : Pt) (hP : Valid P) : ψ (φ P) = P := by
  cases P with
  | inf => rfl
  | aff x y =>
    have hn := (nonsingular_sw good3 (x : Fp) (y : Fp)).2 (cT_onCurve hP)
    unfold φ
    rw [show cT (.aff x y) = .aff (x : Fp) (y : Fp) from rfl, toPoint_aff _ _ hn]
    simp only [ψ, ZMod.val_natCast, Nat.mod_eq_of_lt hP.1, Nat.mod_eq_of_lt hP.2.1]

theorem valid_ψ (X : E) : Valid (ψ X) := by
  cases X with
  | zero => trivial
  | some x y h =>
    refine ⟨ZMod.val_lt x, ZMod.val_lt y, (onCurve_iff _ _).2 ?_⟩
    rw [ZMod.natCast_zmod_val, ZMod.natCast_zmod_val]
    exact (nonsingular_sw good3 x y).1 h

theorem φ_ψ (X : E) : φ (ψ X) = X := by
  cases X with
  | zero => rfl
  | some x y h =>
    unfold φ
    have e : cT (ψ (.some x y h)) = .aff x y := by
      simp only [ψ, cT, ZMod.natCast_zmod_val]
    rw [e, toPoint_aff x y h]

theorem φ_inj {P Q : Pt} (hP : Valid P) (hQ : Valid Q) (h : φ P = φ Q) : P = Q :=
  cT_inj hP hQ (toPoint_injOn good3 (cT_onCurve hP) (cT_onCurve hQ) h)

theorem mod_nsmul (hr : ∀ P : E, G1.r • P = 0) (c : Nat) (X : E) : (c % G1.r) • X = c • X := by
  conv_rhs => rw [← Nat.mod_add_div c G1.r]
  rw [add_nsmul, mul_nsmul, hr, nsmul_zero, add_zero]

/-- **`E(F_p)` as a module over the scalars `Zq r`**, given that `r` kills every point;
`k • X` is `k.val • X` -/
@[reducible] noncomputable def moduleE (hr : ∀ P : E, G1.r • P = 0) : Module (Zq G1.r) E where
  smul k X := k.val • X
  one_smul X := by
    show (1 % G1.r) • X = X
    rw [mod_nsmul hr, one_nsmul]
  mul_smul a b X := by
    show ((a.val * b.val) % G1.r) • X = a.val • (b.val • X)
    rw [mod_nsmul hr, mul_nsmul']
  smul_zero k := nsmul_zero _
  smul_add k X Y := nsmul_add _ _ _
  add_smul a b X := by
    show ((a.val + b.val) % G1.r) • X = a.val • X + b.val • X
    rw [mod_nsmul hr, add_nsmul]
  zero_smul X := by
    show (0 % G1.r) • X = 0
    rw [mod_nsmul hr, zero_nsmul]

/-- the bridge for scalar multiplication: the driver's `G1.mul` (Jacobian double-and-add with mixed
addition, `Model/TblsG1.lean`) stays on the curve and computes `k • P` in `E(F_p)` -/
def MulBridge : Prop :=
  ∀ (k : Nat) (P : Pt), Valid P → Valid (G1.mul k P) ∧ φ (G1.mul k P) = k • φ P

/-- … proved (`Proofs/ComposeTblsG1Mul.lean`) -/
theorem mulBridge : MulBridge := fun k P hP => mul_spec k P hP

/-- the abstract codec corresponding to `g1Codec` -/
noncomputable def codecE : Codec E := ⟨fun b => (G1.decode b).map φ, fun X => G1.encode (ψ X)⟩

theorem codecHom : CodecHom φ Valid g1Codec codecE where
  dec _ := rfl
  decV b s h := decode_valid b s h
  enc a ha := by show G1.encode (ψ (φ a)) = G1.encode a; rw [ψ_φ a ha]

theorem codecE_roundtrip (X : E) : codecE.decode (codecE.encode X) = some X := by
  show (G1.decode (G1.encode (ψ X))).map φ = some X
  rw [decode_encode _ (valid_ψ X), Option.map_some, φ_ψ]

theorem hom (hr : ∀ P : E, G1.r • P = 0) (hmul : MulBridge) :
    letI := moduleE hr
    Hom (Zq G1.r) φ Valid := by
  letI := moduleE hr
  exact {
    v0 := trivial
    vadd := fun a b ha hb => (valid_add a b ha hb).1
    vsmul := fun k a ha => (hmul k.val a ha).1
    f0 := rfl
    fadd := fun a b ha hb => (valid_add a b ha hb).2
    fsmul := fun k a ha => (hmul k.val a ha).2
    inj := fun a b ha hb h => φ_inj ha hb h }

/-- **the driver's `Recover` is the abstract `Recover`** over `E(F_p)` -/
theorem recover_eq_abstract (hr : ∀ P : E, G1.r • P = 0) (hmul : MulBridge) (f : List (Zq G1.r))
    (hm : Pt) (hv : Valid hm) (sigs : List Bytes) (t n : Nat) :
    letI := moduleE hr
    recover codecE f (φ hm) sigs t n = recover g1Codec f hm sigs t n := by
  letI := moduleE hr
  exact recover_nat (hom hr hmul) codecHom f hm hv sigs t n

end Dos.Compose.TG1

/-
C20 (round 4) — ranges and overflow freedom of the translated field routines, by the verified interval
interpreter evaluated by the kernel on the regenerated program data (`decide +kernel`):

  feMul, feSquare, feSquare2 : inputs within 3 × (1.1·2^25, 1.1·2^24, …)  ⇒  no int32/int64 overflow in any
      (sub)expression, result within 1 × the bound (in fact even limbs ∈ [-2^25, 2^25), odd limbs |·| ≤ 2^24 + 1035)
      — at 4 × the analysis fails (19·g2 leaves int32): 3 is the exact multiplier ref10 relies on (1.65·2^26);
  feFromBytes : any 32 bytes ⇒ no overflow, result within 1 ×;
  feToBytes   : input within 3 × ⇒ no overflow in the q chain and the carry chain, final limbs are digits
      h_even ∈ [0, 2^26), h_odd ∈ [0, 2^25); 31 of the 32 byte expressions cannot overflow; the 13th,
      `(h[3] >> 19) | (h[4] << 6)`, CAN leave int32 (h[4] < 2^26) — see Proofs/Ed25519FeBytes.lean.
-/
import DosModel.Proofs.Ed25519Ranges
import DosModel.Proofs.Ed25519FeTie

namespace Dos.FeProg
open Dos Dos.Ed25519 Dos.IntervalProg Dos.Gen.Ed25519Fe List

theorem bounded_iff (k : Int) (s : L10) : Bounded k s ↔ In s.toList (boundItv k) := by
  unfold Bounded L10.toList boundItv
  simp only [List.forall₂_cons, Itv.mem]
  constructor
  · intro h; simpa [and_assoc] using h
  · intro h; simpa [and_assoc] using h

theorem In.append {a b : Env} {A B : List Itv} (h1 : In a A) (h2 : In b B) : In (a ++ b) (A ++ B) :=
  forall₂_append' h1 h2

theorem in_of_pointwise : ∀ (l : List Int) (A : List Itv), l.length = A.length →
    (∀ i, i < A.length → Itv.mem (l.getD i 0) (A.getD i (0, 0))) → In l A := by
  intro l
  induction l with
  | nil => intro A hl _; cases A with | nil => exact Forall₂.nil | cons _ _ => simp at hl
  | cons x l ih =>
    intro A hl h
    cases A with
    | nil => simp at hl
    | cons a A =>
      refine Forall₂.cons (by simpa using h 0 (by simp)) (ih A (by simpa using hl) ?_)
      intro i hi
      simpa using h (i + 1) (by simpa using hi)

set_option linter.dupNamespace false

namespace FeProg

/-- what a successful `check` establishes -/
theorem check_sound {p : FeProg} {I L O : List Itv} {inp : Env} (hc : p.check I L O = true) (hin : In inp I) :
    p.SafeFrom inp ∧ In (p.limbsW id inp) L ∧ In (p.runW id inp) O := by
  unfold check at hc
  split at hc
  · cases hc
  · rename_i r hr
    obtain ⟨r1, r2⟩ := r
    simp only [Bool.and_eq_true, decide_eq_true_eq] at hc
    obtain ⟨⟨⟨w1, w2⟩, l1⟩, l2⟩ := hc
    obtain ⟨hs, i1, i2⟩ := absRun_sound hin hr
    refine ⟨hs, ?_, ?_⟩
    · exact in_of_pointwise _ _ (by rw [forall₂_length i1]; exact l1) (within_sound i1 w1)
    · exact in_of_pointwise _ _ (by rw [forall₂_length i2]; exact l2) (within_sound i2 w2)

end FeProg

/-! ### the five routines -/

theorem feMul_check : feMul_prog.check (boundItv 3 ++ boundItv 3) (boundItv 1) (boundItv 1) = true := by decide +kernel
theorem feSquare_check : feSquare_prog.check (boundItv 3) (boundItv 1) (boundItv 1) = true := by decide +kernel
theorem feSquare2_check : feSquare2_prog.check (boundItv 3) (boundItv 1) (boundItv 1) = true := by decide +kernel

/-- 3 is the largest multiplier: at 4 × the interval analysis of feMul fails -/
theorem feMul_check_4_fails : (feMul_prog.absRun (boundItv 4 ++ boundItv 4)).isSome = false := by decide +kernel

/-- intervals of the raw loads of feFromBytes from a 32-byte array -/
def feFromBytes_rawItv : List Itv := (rawItvs [32] feFromBytes_prog.raw).getD []

theorem feFromBytes_check : feFromBytes_prog.check feFromBytes_rawItv (boundItv 1) (boundItv 1) = true := by
  decide +kernel

theorem feFromBytes_raw_in (s : Bytes) (hs : s.length = 32) :
    In (feFromBytes_prog.raw.map (rawVal [s])) feFromBytes_rawItv := by
  have h : rawItvs ([s].map List.length) feFromBytes_prog.raw = some feFromBytes_rawItv := by
    simp only [List.map_cons, List.map_nil, hs]
    decide +kernel
  exact rawItvs_sound [s] _ _ h

/-- the digits feToBytes ends with -/
def digitItv : List Itv :=
  [(0, 67108863), (0, 33554431), (0, 67108863), (0, 33554431), (0, 67108863),
   (0, 33554431), (0, 67108863), (0, 33554431), (0, 67108863), (0, 33554431)]

/-- feToBytes without its 13th byte expression (the one whose `<<` can leave int32) -/
def feToBytes_prog' : FeProg := { feToBytes_prog with out := feToBytes_prog.out.eraseIdx 12 }

theorem feToBytes_check :
    feToBytes_prog'.check (boundItv 3) digitItv (List.replicate 31 (0, 2147483647)) = true := by decide +kernel

/-- the 13th byte expression does not pass the analysis on digits: `h[4] << 6` with h[4] < 2^26 can be ≥ 2^31 -/
theorem feToBytes_byte12_flagged : (absExpr digitItv (feToBytes_prog.out.getD 12 (.c 0))).isSome = false := by
  decide +kernel

end Dos.FeProg

/-
C10 layer 6 — the optimal-ate pairing of group/bn256 as the code computes it (optate.go,
the Frobenius maps of gfp6.go / gfp12.go, PairingCheck of point.go), over the Montgomery
`GFp`, with every constant taken from the regenerated `Gen/Bn256Consts.lean`.
No theorem about bilinearity is proved from this file (no pairing theory in Mathlib); it is
executed by the driver and compared with the real code and with two independent references.
The *logic* of PairingCheck (skip identities, one final exponentiation) is stated over an
abstract pairing in `pairingCheckAbs` and proved in Props.
-/
import DosModel.Model.Bn256Curve
import DosModel.Model.Bn256TFrob

namespace Dos.Bn256
open Gen.Bn256 (Leaf)

abbrev F := GFp
abbrev F2 := Fp2 GFp
abbrev F6 := Fp6 GFp
abbrev F12 := Fp12 GFp
abbrev G1J := Jac GFp
abbrev G2J := Jac (Fp2 GFp)

def leaf (l : List Leaf) (i : Nat) : GFp := match l[i]? with
  | some v => GFp.ofLeaf v
  | none => ⟨0⟩
def fp2OfLeaves (l : List Leaf) (i : Nat) : F2 := ⟨leaf l i, leaf l (i + 1)⟩
def fp6OfLeaves (l : List Leaf) (i : Nat) : F6 := ⟨fp2OfLeaves l i, fp2OfLeaves l (i + 2), fp2OfLeaves l (i + 4)⟩
def fp12OfLeaves (l : List Leaf) : F12 := ⟨fp6OfLeaves l 0, fp6OfLeaves l 6⟩

def xiToPMinus1Over6 : F2 := fp2OfLeaves Gen.Bn256.xiToPMinus1Over6 0
def xiToPMinus1Over3 : F2 := fp2OfLeaves Gen.Bn256.xiToPMinus1Over3 0
def xiToPMinus1Over2 : F2 := fp2OfLeaves Gen.Bn256.xiToPMinus1Over2 0
def xiTo2PMinus2Over3 : F2 := fp2OfLeaves Gen.Bn256.xiTo2PMinus2Over3 0
def xiToPSquaredMinus1Over3 : F := leaf Gen.Bn256.xiToPSquaredMinus1Over3 0
def xiTo2PSquaredMinus2Over3 : F := leaf Gen.Bn256.xiTo2PSquaredMinus2Over3 0
def xiToPSquaredMinus1Over6 : F := leaf Gen.Bn256.xiToPSquaredMinus1Over6 0

def curveB : F := leaf Gen.Bn256.curveB 0
def twistB : F2 := fp2OfLeaves Gen.Bn256.twistB 0
def curveGen : G1J := ⟨leaf Gen.Bn256.curveGen 0, leaf Gen.Bn256.curveGen 1, leaf Gen.Bn256.curveGen 2, leaf Gen.Bn256.curveGen 3⟩
def twistGen : G2J := ⟨fp2OfLeaves Gen.Bn256.twistGen 0, fp2OfLeaves Gen.Bn256.twistGen 2,
  fp2OfLeaves Gen.Bn256.twistGen 4, fp2OfLeaves Gen.Bn256.twistGen 6⟩
def gfP12Gen : F12 := fp12OfLeaves Gen.Bn256.gfP12Gen
def gfP12Inf : F12 := fp12OfLeaves Gen.Bn256.gfP12Inf

/-! ### Frobenius maps (gfp6.go, gfp12.go): the generic transcriptions of Model/Bn256TFrob.lean at the
regenerated constants -/

/-- the seven constants of constants.go -/
def frobConsts : FrobConsts GFp :=
  { xiToPMinus1Over6 := xiToPMinus1Over6, xiToPMinus1Over3 := xiToPMinus1Over3,
    xiToPMinus1Over2 := xiToPMinus1Over2, xiTo2PMinus2Over3 := xiTo2PMinus2Over3,
    xiToPSquaredMinus1Over3 := xiToPSquaredMinus1Over3,
    xiTo2PSquaredMinus2Over3 := xiTo2PSquaredMinus2Over3,
    xiToPSquaredMinus1Over6 := xiToPSquaredMinus1Over6 }

def Fp6.frobenius (a : F6) : F6 := Fp6.frobeniusG frobConsts a
def Fp6.frobeniusP2 (a : F6) : F6 := Fp6.frobeniusP2G frobConsts a
def Fp6.frobeniusP4 (a : F6) : F6 := Fp6.frobeniusP4G frobConsts a
def Fp12.frobenius (a : F12) : F12 := Fp12.frobeniusG frobConsts a
def Fp12.frobeniusP2 (a : F12) : F12 := Fp12.frobeniusP2G frobConsts a
def Fp12.frobeniusP4 (a : F12) : F12 := Fp12.frobeniusP4G frobConsts a

/-! ### line functions and Miller loop (optate.go) -/

structure Line where
  a : F2
  b : F2
  c : F2
  rOut : G2J

def lineFunctionAdd (r p : G2J) (q : G1J) (r2 : F2) : Line :=
  let B := p.x.mul r.t
  let D := p.y.add r.z
  let D := (((D.square).sub r2).sub r.t).mul r.t
  let H := B.sub r.x
  let I := H.square
  let E := I.add I
  let E := E.add E
  let J := H.mul E
  let L1 := D.sub r.y
  let L1 := L1.sub r.y
  let V := r.x.mul E
  let rx := (((L1.square).sub J).sub V).sub V
  let rz := (((r.z.add H).square).sub r.t).sub I
  let t := V.sub rx
  let t := t.mul L1
  let t2 := r.y.mul J
  let t2 := t2.add t2
  let ry := t.sub t2
  let rt := rz.square
  let t := (((p.y.add rz).square).sub r2).sub rt
  let t2 := L1.mul p.x
  let t2 := t2.add t2
  let a := t2.sub t
  let c := rz.mulScalar q.y
  let c := c.add c
  let b := L1.neg
  let b := (b.mulScalar q.x)
  let b := b.add b
  ⟨a, b, c, ⟨rx, ry, rz, rt⟩⟩

def lineFunctionDouble (r : G2J) (q : G1J) : Line :=
  let A := r.x.square
  let B := r.y.square
  let C := B.square
  let D := r.x.add B
  let D := ((D.square).sub A).sub C
  let D := D.add D
  let E := A.add A
  let E := E.add A
  let G := E.square
  let rx := (G.sub D).sub D
  let rz := (((r.y.add r.z).square).sub B).sub r.t
  let ry := (D.sub rx).mul E
  let t := C.add C
  let t := (t.add t)
  let t := t.add t
  let ry := ry.sub t
  let rt := rz.square
  let t := (E.mul r.t)
  let t := t.add t
  let b := t.neg
  let b := b.mulScalar q.x
  let a := r.x.add E
  let a := ((a.square).sub A).sub G
  let t := B.add B
  let t := t.add t
  let a := a.sub t
  let c := rz.mul r.t
  let c := (c.add c).mulScalar q.y
  ⟨a, b, c, ⟨rx, ry, rz, rt⟩⟩

def mulLine (ret : F12) (a b c : F2) : F12 :=
  let a2 : F6 := ⟨Fp2.zero, a, b⟩
  let a2 := a2.mul ret.x
  let t3 := ret.y.mulScalar c
  let t := b.add c
  let t2 : F6 := ⟨Fp2.zero, a, t⟩
  let rx := ret.x.add ret.y
  let ry := t3
  let rx := ((rx.mul t2).sub a2).sub ry
  let a2 := a2.mulTau
  let ry := ry.add a2
  ⟨rx, ry⟩

def sixuPlus2NAF : List Int := Gen.Bn256.sixuPlus2NAF

def miller (q : G2J) (p : G1J) : F12 :=
  let ret : F12 := Fp12.one
  let aAffine := q.makeAffine
  let bAffine := p.makeAffine
  let minusA := twistNeg aAffine
  let r := aAffine
  let r2 := aAffine.y.square
  let n := sixuPlus2NAF.length
  -- for i := n-1; i > 0; i--
  let st := (List.range (n - 1)).reverse.foldl
    (fun (st : F12 × G2J) k =>
      let i := k + 1
      let (ret, r) := st
      let l := lineFunctionDouble r bAffine
      let ret := if i != n - 1 then ret.square else ret
      let ret := mulLine ret l.a l.b l.c
      let r := l.rOut
      match sixuPlus2NAF[i - 1]? with
      | some 1 =>
          let l := lineFunctionAdd r aAffine bAffine r2
          (mulLine ret l.a l.b l.c, l.rOut)
      | some (-1) =>
          let l := lineFunctionAdd r minusA bAffine r2
          (mulLine ret l.a l.b l.c, l.rOut)
      | _ => (ret, r)) (ret, r)
  let (ret, r) := st
  let q1 : G2J := ⟨(aAffine.x.conjugate).mul xiToPMinus1Over3, (aAffine.y.conjugate).mul xiToPMinus1Over2,
    Fp2.one, Fp2.one⟩
  let minusQ2 : G2J := ⟨aAffine.x.mulScalar xiToPSquaredMinus1Over3, aAffine.y, Fp2.one, Fp2.one⟩
  let r2 := q1.y.square
  let l := lineFunctionAdd r q1 bAffine r2
  let ret := mulLine ret l.a l.b l.c
  let r := l.rOut
  let r2 := minusQ2.y.square
  let l := lineFunctionAdd r minusQ2 bAffine r2
  let ret := mulLine ret l.a l.b l.c
  ret

def uParam : Nat := Gen.Bn256.u

/-- finalExponentiation (optate.go): the generic transcription at the regenerated constants and `u` -/
def finalExponentiation (inp : F12) : F12 := finalExponentiationG frobConsts uParam inp

def optimalAte (a : G2J) (b : G1J) : F12 :=
  let e := miller a b
  let ret := finalExponentiation e
  if a.isInfinity || b.isInfinity then Fp12.one else ret

/-- PairingCheck over abstract components: skip a pair if either point is the identity,
multiply the Miller values, one final exponentiation, compare with one -/
def pairingCheckAbs {P Q T : Type} (infP : P → Bool) (infQ : Q → Bool) (mil : Q → P → T)
    (mul : T → T → T) (one : T) (fin : T → T) (isOne : T → Bool) (ps : List (P × Q)) : Bool :=
  isOne (fin (ps.foldl (fun acc pq => if infP pq.1 || infQ pq.2 then acc else mul acc (mil pq.2 pq.1)) one))

def Fp12.isOne (a : F12) : Bool := a = Fp12.one

def pairingCheck (ps : List (G1J × G2J)) : Bool :=
  pairingCheckAbs (fun (a : G1J) => a.isInfinity) (fun (b : G2J) => b.isInfinity) miller Fp12.mul Fp12.one
    finalExponentiation Fp12.isOne ps

/-- twistPoint.IsOnCurve -/
def twistIsOnCurve (c : G2J) : Bool :=
  let c := c.makeAffine
  if c.isInfinity then true
  else
    let y2 := c.y.square
    let x3 := (((c.x.square).mul c.x)).add twistB
    if y2 != x3 then false
    else (Jac.twistMul c Gen.Bn256.Order).z = Fp2.zero

end Dos.Bn256

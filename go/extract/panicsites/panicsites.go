// Package panicsites (E5): go/ast inventory of every potential panic site in the
// functions reachable from the peer / chain-event / fetched-document entry points,
// with position-independent keys (function | kind | expression text) and the
// textual dominating guards found for each site.  → DosModel/Gen/PanicSites.lean
//
// Site kinds
//
//	index       a[i]            (a not resolvable to a map)
//	slice       a[l:h]
//	deref       p.F / p.M() / *p  where p is a pointer field of a decoded message,
//	            the result of a Get<PtrField>() getter, a pointer-to-message parameter,
//	            a local read by value from a map with pointer values (nil when the key is absent),
//	            or any identifier the function itself compares with nil (so un-nesting or deleting
//	            that comparison makes the sites vanish or lose their guard)
//	ifacenil    use of an interface-typed message field (PriShare.V, PubShare.V)
//	typeassert  x.(T)           guard "ok" for the comma-ok form
//	div         a / b, a % b    (b not a literal)
//	make        make(T, n)      (n neither a literal nor len(...))
//	mapwrite    m[k] = v
//	mapzero     v := m[k] / m[k].f  (zero value when the key is absent; guard "ok" for the comma-ok form)
//	close       close(ch)
//	callpanics  calls of library functions that panic on bad arguments:
//	            AEAD Open/Seal (nonce length), Scalar Div/Inv (zero), rand.Int (max <= 0)
//	panic       an explicit panic(...) statement; guard = every governing condition
//	exit        os.Exit / log.Fatal* / <logger>.Fatal / log.Panic* / runtime.Goexit calls; guard = every governing condition
//
// close and mapwrite sites carry structural facts instead of conditions: "defer" (the close is a
// deferred call), "made:x" (the channel / map x is created by make or a literal in the same function).
//
// Guards: conditions that textually govern the site and mention its operand
// (len(a), the index text, "p == nil" / "p != nil", the divisor, the make length):
//
//	after:<cond>   an earlier `if cond { … return/continue/break/panic }` in an enclosing block
//	fix:<cond>     an earlier `if cond { operand = … }`
//	in:<cond>      the site is inside `if cond { … }`     else:<cond>  inside its else branch
//	range:<x>      the site indexes x with the key of `for k := range x`
//	for:<cond>     loop condition
//	and:<cond>     left operand of && / right-hand side evaluated only if it holds (or:<cond> for ||)
//
// What this does NOT see (trusted-base note): re-assignment between guard and
// use, aliasing, nil-ness of locals that do not come from a message field, method
// calls through nil interfaces stored in slices.
package panicsites

import (
	"bytes"
	"fmt"
	"go/ast"
	"go/printer"
	"go/token"
	"path/filepath"
	"regexp"
	"sort"
	"strings"

	"verifharness/extract/ex"
)

func init() { ex.Register(&ex.Extractor{Name: "PanicSites", Run: run}) }

// The anchored files (property C12) and, per file, the functions that are reachable
// from a peer message, a chain event field or a fetched document.
// "T.m" = method m of type T (pointer or value receiver).
var reach = []struct {
	file  string
	funcs []string
}{
	{"p2p/client.go", []string{"client.receiveID", "client.decryptPipe", "client.decodePipe", "client.readPipe", "client.dispatch", "decodeBytes", "readFrom", "client.reportMsg", "client.reportError", "client.verifyFn"}},
	{"p2p/server.go", []string{"server.messageDispatch", "server.receiveHandler", "server.callHandler", "server.handleCallReq", "server.runClient", "server.eventDispatch"}},
	{"p2p/discover/membership.go", []string{"serfNet.Listen", "serfNet.Lookup", "serfNet.MembersID", "serfNet.NumOfPeers", "serfNet.MembersIP"}},
	{"share/dkg/pedersen/pdkg.go", []string{"handlePeerMsg", "handleRequest", "pdkg.Loop", "decodePubKey", "reportErr"}},
	{"share/dkg/pedersen/pdkg_pipes.go", []string{"exchangePub", "genDistKeyGenerator", "getAndProcessDeals", "getAndProcessResponses", "genGroup"}},
	{"share/dkg/pedersen/dkg.go", []string{"initDistKeyGenerator", "NewDistKeyGenerator", "DistKeyGenerator.Deals", "DistKeyGenerator.ProcessDeal", "DistKeyGenerator.ProcessResponse", "DistKeyGenerator.Certified", "DistKeyGenerator.QUAL", "DistKeyGenerator.qualIter", "DistKeyGenerator.DistKeyShare", "DistKeyShare.Commitments", "findPub"}},
	{"share/vss/pedersen/vss.go", []string{"NewDealer", "Dealer.EncryptedDeal", "Dealer.EncryptedDeals", "NewVerifier", "Verifier.ProcessEncryptedDeal", "Verifier.decryptDeal", "Verifier.ProcessResponse", "Verifier.DealCertified", "Verifier.Deal", "Verifier.ProcessJustification", "Verifier.UnsafeSetResponseDKG", "Dealer.ProcessResponse", "Dealer.PrivatePoly", "newAggregator", "aggregator.VerifyDeal", "aggregator.verifyResponse", "aggregator.verifyJustification", "aggregator.addResponse", "aggregator.EnoughApprovals", "aggregator.DealCertified", "validT", "findPub", "sessionID", "Response.Hash", "Justification.Hash", "Deal.MarshalBinary", "Deal.UnmarshalBinary", "Signature.ToBigInt"}},
	{"share/vss/pedersen/dh.go", []string{"dhExchange", "newAEAD", "context"}},
	{"sign/tbls/tbls.go", []string{"SigShare.Index", "SigShare.Value", "sliceUniqMap", "Recover"}},
	{"share/poly.go", []string{"NewPriPoly", "PriPoly.Threshold", "PriPoly.Eval", "PriPoly.Commit", "PriPoly.Coefficients", "NewPubPoly", "PubPoly.Info", "PubPoly.Threshold", "PubPoly.Commit", "PubPoly.Eval", "PubPoly.Add", "RecoverCommit"}},
	{"share/dkg/pedersen/pdkg.go", []string{"pdkg.Grouping", "pdkg.GetGroupPublicPoly", "pdkg.GetShareSecurity", "pdkg.GetGroupIDs", "pdkg.GetGroupNumber", "pdkg.GroupDissolve"}},
	{"share/dkg/pedersen/pdkg_pipes.go", []string{"genPub", "sendToMembers", "askMembers", "genDealsAndSend"}},
	{"dosnode/dos_stages.go", []string{"choseSubmitter", "genUserRandom", "genSysRandom", "dataParse", "jsonDepthExceeds", "xmlDepthExceeds", "genQueryResult", "dispatchSign", "recoverSign", "drainSigns", "reportQueryResult", "padOrTrim"}},
	{"dosnode/dos_query_handler.go", []string{"DosNode.queryLoop", "DosNode.handleQuery"}},
	{"dosnode/dos_chain_handler.go", []string{"DosNode.onchainLoop", "DosNode.handleGrouping", "DosNode.groupInfo", "DosNode.handleCR", "byte32", "DosNode.isMember",
		"DosNode.handleGroupFormation", "DosNode.handleRandom", "DosNode.handleBootstrap", "DosNode.handleGroupDissolve"}},
	{"dosnode/dosnode.go", []string{"getBootIps", "unique"}},
	// the chain-event half: translation of the contract bindings' events, the first-occurrence filter, the
	// subscription fan-in; table entries are named <table>[<key>] (function literals of a package-level slice)
	{"onchain/eth_subscribe.go", []string{"firstEvent", "ethAdaptor.SubscribeEvent", "getIndex", "getWsIndex", "replyError",
		"proxyTable[SubscribeLogUpdateRandom]", "proxyTable[SubscribeLogUrl]", "proxyTable[SubscribeLogRequestUserRandom]", "proxyTable[SubscribeLogGrouping]",
		"proxyTable[SubscribeLogPublicKeyAccepted]", "proxyTable[SubscribeLogGroupDissolve]", "crTable[SubscribeCommitrevealLogStartCommitreveal]"}},
	{"onchain/eth_proxy.go", []string{"ethAdaptor.DisconnectWs"}},
	{"onchain/eth_helpers.go", []string{"merge", "mergeError"}},
}

// Functions declared in the anchored files whose NAME is called from the reach set
// but which are not reachable from peer input (name collision with a method of another
// type, or reached only with locally produced arguments).
var notReach = map[string]string{
	"p2p.client.close":                                 "local shutdown path",
	"p2p.client.send":                                  "outgoing requests only",
	"p2p.server.Leave":                                 "local shutdown",
	"p2p.server.Request":                               "outgoing request API (arguments are local)",
	"p2p.server.Reply":                                 "outgoing reply API (arguments are local)",
	"p2p.server.Listen":                                "accept loop; the peer-controlled part is receiveID",
	"p2p.server.Join":                                  "local API",
	"p2p.server.GetID":                                 "local accessor",
	"p2p.server.MembersID":                             "delegates to serfNet.MembersID",
	"p2p.server.NumOfMembers":                          "delegates to serfNet.NumOfPeers",
	"p2p.server.SubscribeMsg":                          "local API",
	"p2p.server.UnSubscribeMsg":                        "local API",
	"p2p.server.SubscribeEvent":                        "local API",
	"p2p.newClient":                                    "builds the client around the *net.TCPConn the node's own Dial / Accept returned; no peer data",
	"p2p.client.handShake":                             "wrapper of sendID/receiveID",
	"p2p.client.run":                                   "pipeline assembly",
	"p2p.merge":                                        "channel plumbing (C14)",
	"p2p.encodeProto":                                  "outgoing messages only",
	"p2p.writeTo":                                      "outgoing frames (C15)",
	"discover.serfNet.Leave":                           "local shutdown",
	"discover.serfNet.Join":                            "local API",
	"discover.serfNet.IsAlive":                         "local API",
	"dkg.stampSender":                                  "writes a field of the message Loop just received (non-nil by the type switch); no peer-indexed access",
	"dkg.fanOut":                                       "channel plumbing (C14)",
	"dkg.mergeErrors":                                  "channel plumbing (C14)",
	"dkg.DistKeyGenerator.SetTimeout":                  "not called by the pipeline",
	"dkg.DistKeyGenerator.isInQUAL":                    "not called by the pipeline",
	"dkg.DistKeyGenerator.ProcessJustification":        "not called by the pipeline (name collision with Verifier.ProcessJustification)",
	"dkg.DistKeyShare.Public":                          "only used by Renew (not in the pipeline)",
	"dkg.DistKeyShare.PriShare":                        "accessor, not in the pipeline",
	"dkg.DistKeyShare.Renew":                           "not called by the pipeline",
	"dkg.NewDistKeyGeneratorWithoutSecret":             "not called by the pipeline",
	"vss.Dealer.PlaintextDeal":                         "testing helper",
	"vss.Dealer.SecretCommit":                          "not called by the pipeline",
	"vss.Dealer.Commits":                               "not called by the pipeline",
	"vss.Dealer.Key":                                   "accessor",
	"vss.Dealer.SessionID":                             "accessor",
	"vss.Dealer.SetTimeout":                            "not called by the pipeline",
	"vss.Verifier.Key":                                 "accessor",
	"vss.Verifier.Index":                               "accessor",
	"vss.Verifier.SessionID":                           "accessor",
	"vss.Verifier.SetTimeout":                          "not called by the pipeline",
	"vss.aggregator.cleanVerifiers":                    "only from SetTimeout",
	"vss.RecoverSecret":                                "not called by the node",
	"vss.MinimumT":                                     "not called by the node",
	"vss.deriveH":                                      "not called by the node",
	"tbls.Sign":                                        "own share (local)",
	"tbls.Verify":                                      "not called by the node (Recover verifies inline)",
	"share.PriShare.Hash":                              "name collision with Response.Hash",
	"share.PubShare.Hash":                              "name collision with Response.Hash",
	"share.CoefficientsToPriPoly":                      "not called by the node",
	"share.PriPoly.Secret":                             "not called by the node",
	"share.PriPoly.Shares":                             "not called by the node",
	"share.PriPoly.Add":                                "name collision with PubPoly.Add / Scalar.Add",
	"share.PriPoly.Equal":                              "name collision with Point.Equal",
	"share.PriPoly.Mul":                                "name collision with Point.Mul / Scalar.Mul",
	"share.PriPoly.String":                             "name collision with fmt String",
	"share.RecoverSecret":                              "not called by the node",
	"share.xScalar":                                    "only from RecoverSecret/RecoverPriPoly",
	"share.xMinusConst":                                "only from RecoverPriPoly",
	"share.RecoverPriPoly":                             "not called by the node",
	"share.PubPoly.Shares":                             "not called by the node",
	"share.PubPoly.Equal":                              "name collision with Point.Equal; PubPoly.Equal is not called by the node (F3, owned by C09)",
	"share.PubPoly.Check":                              "not called by the node",
	"dosnode.reportErr":                                "guarded error send helper (C14)",
	"dosnode.mergeErrors":                              "channel plumbing (C14)",
	"dosnode.fanIn":                                    "channel plumbing (C14)",
	"dosnode.dataFetch":                                "HTTP client (third party)",
	"dosnode.genSign":                                  "own share (local)",
	"dosnode.registerGroup":                            "local result",
	"dosnode.DosNode.End":                              "local shutdown",
	"onchain.ethAdaptor.Connect":                       "local reconnect path (configured URLs); no event data",
	"onchain.ethAdaptor.DisconnectAll":                 "local reconnect / shutdown path; no event data",
	"onchain.proxyTable[SubscribeLogValidationResult]": "not subscribed by onchainLoop (theorem event_flow_matches: loopSubs)",
	"onchain.proxyTable[SubscribeLogInsufficientPendingNode]":  "not subscribed by onchainLoop (theorem event_flow_matches: loopSubs)",
	"onchain.proxyTable[SubscribeLogInsufficientWorkingGroup]": "not subscribed by onchainLoop (theorem event_flow_matches: loopSubs)",
	"onchain.proxyTable[SubscribeLogGroupingInitiated]":        "not subscribed by onchainLoop (theorem event_flow_matches: loopSubs)",
	"onchain.proxyTable[SubscribeLogPublicKeySuggested]":       "not subscribed by onchainLoop (theorem event_flow_matches: loopSubs)",
	"onchain.crTable[SubscribeCommitrevealLogCommit]":          "not subscribed by onchainLoop (theorem event_flow_matches: loopSubs)",
	"onchain.crTable[SubscribeCommitrevealLogReveal]":          "not subscribed by onchainLoop (theorem event_flow_matches: loopSubs)",
	"onchain.crTable[SubscribeCommitrevealLogRandom]":          "not subscribed by onchainLoop (theorem event_flow_matches: loopSubs)",
}

// Semantic sites the syntactic rules cannot see (method call through a possibly nil
// interface / pointer held in a local): anchored by function + exact call text; the
// extractor fails if the text no longer occurs. operand = what a nil guard must mention.
type anchor struct {
	fn, call, kind, operand string
	cond                    string // when set: the site is guarded by an earlier terminating `if <cond>` (text), not by a nil comparison of the operand
}

var anchors = []anchor{
	{fn: "dkg.initDistKeyGenerator", call: "p.Equal(pub)", kind: "ifaceslot", operand: "p"},
	{fn: "vss.sessionID", call: "v.MarshalTo(h)", kind: "ifaceslot", operand: "v"},
	{fn: "dkg.getAndProcessDeals", call: "dkg.ProcessDeal(deal)", kind: "deref", operand: "dkg"},
	{fn: "dkg.getAndProcessResponses", call: "dkg.ProcessResponse(resp)", kind: "deref", operand: "dkg"},
	{fn: "p2p.server.messageDispatch", call: "reflect.TypeOf(msg.Msg.Message).String()", kind: "ifacenil", operand: "msg.Msg.Message"},
	{fn: "dosnode.recoverSign", call: "sign.ToBigInt()", kind: "deref", operand: "sign"},
	{fn: "dosnode.choseSubmitter", call: "lastSysRand.Uint64()", kind: "deref", operand: "lastSysRand"},
	{fn: "dosnode.DosNode.handleQuery", call: "useSeed.Bytes()", kind: "deref", operand: "useSeed"},
	{fn: "dosnode.DosNode.handleCR", call: "randSeed.Cmp(big.NewInt(1))", kind: "deref", operand: "randSeed"},
	{fn: "dosnode.DosNode.queryLoop", call: "req.ctx.Done()", kind: "ifacenil", operand: "req.ctx"},
	// the chain-event half: method calls through *big.Int / *big.Float / *http.Request locals
	// (LogGrouping's NodeId is []common.Address: p.Bytes() has a value receiver)
	{fn: "dosnode.DosNode.onchainLoop", call: "balance.Cmp(big.NewFloat(0.1))", kind: "deref", operand: "balance"},
	{fn: "dosnode.DosNode.handleGroupDissolve", call: "gid.Cmp(big.NewInt(1))", kind: "deref", operand: "gid"},
	{fn: "dosnode.getBootIps", call: "client.Do(req)", kind: "deref", operand: "req", cond: "err != nil"},
}

// message struct declarations: pointer / interface typed fields are the optional parts
var messageFiles = []string{
	"p2p/package.pb.go", "share/dkg/pedersen/dkg.pb.go", "share/vss/pedersen/vss.pb.go",
	"share/vss/pedersen/vss.go", "share/poly.go", "onchain/eventMsg.go",
}
var messageTypes = map[string]bool{
	"Package": true, "ID": true, "PublicKey": true, "Deal": true, "Response": true, "Responses": true,
	"EncryptedDeal": true, "Signature": true, "Justification": true, "PriShare": true, "PubShare": true,
	"LogStartCommitReveal": true, "Any": true,
	// payloads of the chain events onchainLoop handles: their *big.Int fields are the optional parts
	"LogGrouping": true, "LogGroupDissolve": true, "LogPublicKeyAccepted": true, "LogUpdateRandom": true,
	"LogRequestUserRandom": true, "LogUrl": true,
}

type site struct{ fn, kind, expr, guard string }

type guard struct {
	mode string // after, fix, in, else, range, for, and, or
	cond string
	key  string // range key var
}

type walker struct {
	fset      *token.FileSet
	pkg       string
	fn        string
	ptrField  map[string]bool
	ifcField  map[string]bool
	mapField  map[string]bool
	mapLocal  map[string]bool
	ptrParam  map[string]bool
	seenParam map[string]bool
	alias     map[string]string // local := selector expression
	ptrMap    map[string]bool   // locals that are maps with pointer values
	nilLocal  map[string]string // local := m[k] of such a map (nil when the key is absent) → text of m[k]
	nilCmp    map[string]bool   // identifiers the function compares with nil: the code itself treats them as nil-able
	madeHere  map[string]bool   // identifiers assigned from make(chan …) / make(map …) / a map literal in this function
	inDefer   bool
	anchored  map[int]bool
	conds     *[][2]string
	sites     *[]site
	calls     map[string]bool
}

func txt(fset *token.FileSet, n ast.Node) string {
	var b bytes.Buffer
	printer.Fprint(&b, fset, n)
	s := b.String()
	s = strings.Join(strings.Fields(s), " ")
	return s
}

func (w *walker) t(n ast.Node) string { return txt(w.fset, n) }

func isLit(e ast.Expr) bool {
	switch x := e.(type) {
	case *ast.BasicLit:
		return true
	case *ast.ParenExpr:
		return isLit(x.X)
	case *ast.BinaryExpr:
		return isLit(x.X) && isLit(x.Y)
	}
	return false
}

func wordIn(s, w string) bool {
	if w == "" {
		return false
	}
	re := regexp.MustCompile(`(^|[^A-Za-z0-9_.])` + regexp.QuoteMeta(w) + `($|[^A-Za-z0-9_(])`)
	return re.MatchString(s)
}

var cmpRe = regexp.MustCompile(`[<>]=?|[!=]=`)

func (w *walker) add(kind string, n ast.Node, gs []guard, match func(g guard) bool) {
	var hit []string
	for _, g := range gs {
		if match != nil && match(g) {
			hit = append(hit, g.mode+":"+g.cond)
		}
	}
	*w.sites = append(*w.sites, site{fn: w.fn, kind: kind, expr: w.t(n), guard: strings.Join(hit, "; ")})
}

func lenOf(x string) string { return "len(" + x + ")" }

func (w *walker) guardIndex(xs string, idx ast.Expr) func(g guard) bool {
	is := ""
	if idx != nil && !isLit(idx) {
		is = w.t(idx)
	}
	return func(g guard) bool {
		if g.mode == "range" {
			return g.cond == xs && is != "" && g.key == is
		}
		if strings.Contains(g.cond, lenOf(xs)) {
			return true
		}
		return is != "" && cmpRe.MatchString(g.cond) && wordIn(g.cond, is)
	}
}

func (w *walker) guardNil(ps string) func(g guard) bool {
	cands := []string{ps}
	// fi := d.SecShare … fi.V : a guard on d.SecShare.V governs fi.V
	head, rest := ps, ""
	if i := strings.IndexAny(ps, ".("); i > 0 {
		head, rest = ps[:i], ps[i:]
	}
	if a, ok := w.alias[head]; ok {
		cands = append(cands, a+rest)
	}
	has := func(cond, e string) bool { // e occurs in cond, not as the tail of a longer selector
		for i := strings.Index(cond, e); i >= 0; {
			if i == 0 || !strings.ContainsRune("abcdefghijklmnopqrstuvwxyzABCDEFGHIJKLMNOPQRSTUVWXYZ0123456789_.)]", rune(cond[i-1])) {
				return true
			}
			j := strings.Index(cond[i+1:], e)
			if j < 0 {
				break
			}
			i += 1 + j
		}
		return false
	}
	return func(g guard) bool {
		for _, c := range cands {
			switch g.mode {
			case "after", "else", "or":
				if has(g.cond, c+" == nil") {
					return true
				}
			case "in", "and":
				if has(g.cond, c+" != nil") {
					return true
				}
			}
		}
		return false
	}
}

func terminates(b *ast.BlockStmt) bool {
	if b == nil || len(b.List) == 0 {
		return false
	}
	switch s := b.List[len(b.List)-1].(type) {
	case *ast.ReturnStmt:
		return true
	case *ast.BranchStmt:
		return s.Tok == token.CONTINUE || s.Tok == token.BREAK || s.Tok == token.GOTO
	case *ast.ExprStmt:
		if c, ok := s.X.(*ast.CallExpr); ok {
			if id, ok := c.Fun.(*ast.Ident); ok && id.Name == "panic" {
				return true
			}
		}
	}
	return false
}

// assignsTo reports whether the block assigns to an identifier mentioned in cond
func (w *walker) assignsTo(b *ast.BlockStmt, cond string) bool {
	found := false
	ast.Inspect(b, func(n ast.Node) bool {
		if a, ok := n.(*ast.AssignStmt); ok {
			for _, l := range a.Lhs {
				if id, ok := l.(*ast.Ident); ok && id.Name != "_" && wordIn(cond, id.Name) {
					found = true
				}
			}
		}
		return true
	})
	return found
}

func (w *walker) block(stmts []ast.Stmt, gs []guard) {
	gs = append([]guard(nil), gs...)
	for _, s := range stmts {
		gs = w.stmt(s, gs)
	}
}

// stmt visits one statement and returns the guards in force for the following statements of the block
func (w *walker) stmt(s ast.Stmt, gs []guard) []guard {
	switch x := s.(type) {
	case nil:
	case *ast.BlockStmt:
		w.block(x.List, gs)
	case *ast.IfStmt:
		if x.Init != nil {
			gs = w.stmt(x.Init, gs)
		}
		w.expr(x.Cond, gs)
		c := w.t(x.Cond)
		*w.conds = append(*w.conds, [2]string{w.fn, c})
		w.block(x.Body.List, append(append([]guard(nil), gs...), guard{mode: "in", cond: c}))
		if x.Else != nil {
			w.stmt(x.Else, append(append([]guard(nil), gs...), guard{mode: "else", cond: c}))
		}
		if x.Else == nil && terminates(x.Body) {
			gs = append(gs, guard{mode: "after", cond: c})
		} else if x.Else == nil && w.assignsTo(x.Body, c) {
			gs = append(gs, guard{mode: "fix", cond: c})
		}
	case *ast.ForStmt:
		if x.Init != nil {
			gs = w.stmt(x.Init, gs)
		}
		in := append([]guard(nil), gs...)
		if x.Cond != nil {
			w.expr(x.Cond, gs)
			in = append(in, guard{mode: "for", cond: w.t(x.Cond)})
		}
		if x.Post != nil {
			w.stmt(x.Post, in)
		}
		w.block(x.Body.List, in)
	case *ast.RangeStmt:
		w.expr(x.X, gs)
		in := append([]guard(nil), gs...)
		if x.Key != nil {
			in = append(in, guard{mode: "range", cond: w.t(x.X), key: w.t(x.Key)})
		}
		w.block(x.Body.List, in)
	case *ast.SwitchStmt:
		if x.Init != nil {
			gs = w.stmt(x.Init, gs)
		}
		if x.Tag != nil {
			w.expr(x.Tag, gs)
		}
		for _, c := range x.Body.List {
			cc := c.(*ast.CaseClause)
			for _, e := range cc.List {
				w.expr(e, gs)
			}
			w.block(cc.Body, gs)
		}
	case *ast.TypeSwitchStmt:
		if x.Init != nil {
			gs = w.stmt(x.Init, gs)
		}
		// x.Assign is `v := e.(type)` or `e.(type)`: not a panic site; visit e
		ast.Inspect(x.Assign, func(n ast.Node) bool {
			if ta, ok := n.(*ast.TypeAssertExpr); ok && ta.Type == nil {
				w.expr(ta.X, gs)
				return false
			}
			return true
		})
		for _, c := range x.Body.List {
			w.block(c.(*ast.CaseClause).Body, gs)
		}
	case *ast.SelectStmt:
		for _, c := range x.Body.List {
			cc := c.(*ast.CommClause)
			in := gs
			if cc.Comm != nil {
				in = w.stmt(cc.Comm, append([]guard(nil), gs...))
			}
			w.block(cc.Body, in)
		}
	case *ast.AssignStmt:
		commaOK := len(x.Lhs) == 2 && len(x.Rhs) == 1
		for _, r := range x.Rhs {
			if ta, ok := r.(*ast.TypeAssertExpr); ok && commaOK && ta.Type != nil {
				w.expr(ta.X, gs)
				*w.sites = append(*w.sites, site{fn: w.fn, kind: "typeassert", expr: w.t(ta), guard: "ok"})
				continue
			}
			if ie, ok := r.(*ast.IndexExpr); ok && commaOK { // v, ok := m[k]
				w.expr(ie.X, gs)
				w.expr(ie.Index, gs)
				if w.isMap(ie.X) && w.t(x.Lhs[0]) != "_" {
					*w.sites = append(*w.sites, site{fn: w.fn, kind: "mapzero", expr: w.t(ie), guard: "ok"})
				}
				continue
			}
			if ie, ok := r.(*ast.IndexExpr); ok && len(x.Lhs) == 1 && w.isMap(ie.X) && x.Tok == token.DEFINE { // v := m[k]: zero value when absent
				w.expr(ie.X, gs)
				w.expr(ie.Index, gs)
				// the read itself cannot fail; what is done with a zero value is listed at its uses
				*w.sites = append(*w.sites, site{fn: w.fn, kind: "mapzero", expr: w.t(ie), guard: "read"})
				if mid, ok := ie.X.(*ast.Ident); ok && w.ptrMap[mid.Name] {
					if lid, ok := x.Lhs[0].(*ast.Ident); ok {
						w.nilLocal[lid.Name] = w.t(ie) // a nil pointer when the key is absent
					}
				}
				continue
			}
			w.expr(r, gs)
			w.noteLocal(x, r)
		}
		for _, l := range x.Lhs {
			if ie, ok := l.(*ast.IndexExpr); ok && w.isMap(ie.X) {
				w.expr(ie.X, gs)
				w.expr(ie.Index, gs)
				g := ""
				if id, ok := ie.X.(*ast.Ident); ok && w.madeHere[id.Name] {
					g = "made:" + id.Name // the map is created by make / a literal in this function
				}
				*w.sites = append(*w.sites, site{fn: w.fn, kind: "mapwrite", expr: w.t(ie), guard: g})
				continue
			}
			w.expr(l, gs)
		}
	case *ast.ExprStmt:
		w.expr(x.X, gs)
	case *ast.SendStmt:
		w.expr(x.Chan, gs)
		w.expr(x.Value, gs)
	case *ast.IncDecStmt:
		w.expr(x.X, gs)
	case *ast.ReturnStmt:
		for _, r := range x.Results {
			w.expr(r, gs)
		}
	case *ast.DeferStmt:
		w.inDefer = true
		w.expr(x.Call, gs)
		w.inDefer = false
	case *ast.GoStmt:
		w.expr(x.Call, gs)
	case *ast.LabeledStmt:
		return w.stmt(x.Stmt, gs)
	case *ast.DeclStmt:
		if gd, ok := x.Decl.(*ast.GenDecl); ok {
			for _, sp := range gd.Specs {
				if vs, ok := sp.(*ast.ValueSpec); ok {
					if _, ok := vs.Type.(*ast.MapType); ok {
						for _, n := range vs.Names {
							w.mapLocal[n.Name] = true
						}
					}
					commaOK := len(vs.Names) == 2 && len(vs.Values) == 1
					for _, v := range vs.Values {
						if ta, ok := v.(*ast.TypeAssertExpr); ok && commaOK && ta.Type != nil {
							w.expr(ta.X, gs)
							*w.sites = append(*w.sites, site{fn: w.fn, kind: "typeassert", expr: w.t(ta), guard: "ok"})
							continue
						}
						w.expr(v, gs)
					}
				}
			}
		}
	case *ast.BranchStmt, *ast.EmptyStmt:
	default:
		panic(fmt.Sprintf("panicsites: unhandled statement %T in %s", s, w.fn))
	}
	return gs
}

func (w *walker) noteLocal(a *ast.AssignStmt, r ast.Expr) {
	if len(a.Lhs) != 1 {
		return
	}
	id, ok := a.Lhs[0].(*ast.Ident)
	if !ok {
		return
	}
	switch v := r.(type) {
	case *ast.SelectorExpr:
		w.alias[id.Name] = w.t(v)
	case *ast.CallExpr:
		if f, ok := v.Fun.(*ast.Ident); ok && f.Name == "make" && len(v.Args) > 0 {
			if mt, ok := v.Args[0].(*ast.MapType); ok {
				w.mapLocal[id.Name] = true
				if _, ok := mt.Value.(*ast.StarExpr); ok {
					w.ptrMap[id.Name] = true
				}
			}
		}
	case *ast.CompositeLit:
		if mt, ok := v.Type.(*ast.MapType); ok {
			w.mapLocal[id.Name] = true
			if _, ok := mt.Value.(*ast.StarExpr); ok {
				w.ptrMap[id.Name] = true
			}
		}
	}
}

func (w *walker) isMap(e ast.Expr) bool {
	switch x := e.(type) {
	case *ast.Ident:
		return w.mapLocal[x.Name]
	case *ast.SelectorExpr:
		return w.mapField[x.Sel.Name]
	}
	return false
}

// optional pointer operand? returns its text
func (w *walker) optPtr(e ast.Expr) (string, bool) {
	switch x := e.(type) {
	case *ast.SelectorExpr:
		if w.ptrField[x.Sel.Name] {
			if id, ok := x.X.(*ast.Ident); ok && id.Obj == nil {
				// package-qualified name (e.g. vss.Deal): not a field
				return "", false
			}
			return w.t(x), true
		}
	case *ast.CallExpr:
		if s, ok := x.Fun.(*ast.SelectorExpr); ok && strings.HasPrefix(s.Sel.Name, "Get") && w.ptrField[strings.TrimPrefix(s.Sel.Name, "Get")] {
			return w.t(x), true
		}
	case *ast.Ident:
		if w.ptrParam[x.Name] {
			return x.Name, true
		}
	case *ast.ParenExpr:
		return w.optPtr(x.X)
	}
	return "", false
}

func (w *walker) expr(e ast.Expr, gs []guard) {
	switch x := e.(type) {
	case nil:
	case *ast.Ident, *ast.BasicLit:
	case *ast.ParenExpr:
		w.expr(x.X, gs)
	case *ast.SelectorExpr:
		if id, ok := x.X.(*ast.Ident); ok && (w.nilLocal[id.Name] != "" || (w.nilCmp[id.Name] && !w.ptrParam[id.Name])) {
			w.add("deref", x, gs, w.guardNil(id.Name))
		}
		if ps, ok := w.optPtr(x.X); ok {
			if id, isParam := x.X.(*ast.Ident); !isParam || !w.seenParam[id.Name] {
				if isParam {
					w.seenParam[id.Name] = true
				}
				w.add("deref", x, gs, w.guardNil(ps))
			}
		}
		if ie, ok := x.X.(*ast.IndexExpr); ok && w.isMap(ie.X) { // m[k].f : field of the zero value when absent
			ms := w.t(ie)
			w.add("mapzero", x, gs, func(g guard) bool { return strings.Contains(g.cond, ms) })
		}
		if w.ifcField[x.Sel.Name] {
			if _, isPkg := x.X.(*ast.Ident); !isPkg || x.X.(*ast.Ident).Obj != nil {
				ps := w.t(x)
				w.add("ifacenil", x, gs, w.guardNil(ps))
			}
		}
		w.expr(x.X, gs)
	case *ast.StarExpr:
		ps := w.t(x.X)
		w.add("deref", x, gs, w.guardNil(ps))
		w.expr(x.X, gs)
	case *ast.IndexExpr:
		w.expr(x.X, gs)
		w.expr(x.Index, gs)
		if !w.isMap(x.X) {
			w.add("index", x, gs, w.guardIndex(w.t(x.X), x.Index))
		}
	case *ast.SliceExpr:
		w.expr(x.X, gs)
		w.expr(x.Low, gs)
		w.expr(x.High, gs)
		w.expr(x.Max, gs)
		xs := w.t(x.X)
		m := w.guardIndex(xs, nil)
		w.add("slice", x, gs, func(g guard) bool {
			if m(g) {
				return true
			}
			for _, b := range []ast.Expr{x.Low, x.High} {
				if b != nil && !isLit(b) {
					for _, id := range idents(b) {
						if cmpRe.MatchString(g.cond) && wordIn(g.cond, id) && g.mode != "range" {
							return true
						}
					}
				}
			}
			return false
		})
	case *ast.TypeAssertExpr:
		w.expr(x.X, gs)
		if x.Type != nil {
			w.add("typeassert", x, gs, nil)
		}
	case *ast.BinaryExpr:
		if x.Op == token.EQL || x.Op == token.NEQ {
			if id, ok := x.Y.(*ast.Ident); ok && id.Name == "nil" {
				if se, ok := x.X.(*ast.SelectorExpr); ok && w.ifcField[se.Sel.Name] {
					// `p.V == nil` is a test, not a use of p.V (p itself is still dereferenced)
					if ps, ok := w.optPtr(se.X); ok {
						w.add("deref", se, gs, w.guardNil(ps))
					}
					w.expr(se.X, gs)
					return
				}
			}
		}
		w.expr(x.X, gs)
		switch x.Op {
		case token.LAND:
			w.expr(x.Y, append(append([]guard(nil), gs...), guard{mode: "and", cond: w.t(x.X)}))
			return
		case token.LOR:
			w.expr(x.Y, append(append([]guard(nil), gs...), guard{mode: "or", cond: w.t(x.X)}))
			return
		}
		w.expr(x.Y, gs)
		if (x.Op == token.QUO || x.Op == token.REM) && !isLit(x.Y) {
			ys := w.t(x.Y)
			inner := regexp.MustCompile(`len\([^()]*\)`).FindString(ys)
			w.add("div", x, gs, func(g guard) bool {
				return g.mode != "range" && (strings.Contains(g.cond, ys) || (inner != "" && strings.Contains(g.cond, inner)))
			})
		}
	case *ast.UnaryExpr:
		w.expr(x.X, gs)
	case *ast.KeyValueExpr:
		w.expr(x.Key, gs)
		w.expr(x.Value, gs)
	case *ast.CompositeLit:
		for _, el := range x.Elts {
			w.expr(el, gs)
		}
	case *ast.FuncLit:
		w.block(x.Body.List, gs)
	case *ast.CallExpr:
		w.call(x, gs)
	case *ast.ArrayType, *ast.MapType, *ast.ChanType, *ast.FuncType, *ast.InterfaceType, *ast.StructType, *ast.Ellipsis:
	default:
		panic(fmt.Sprintf("panicsites: unhandled expression %T in %s", e, w.fn))
	}
}

func idents(e ast.Expr) []string {
	var out []string
	ast.Inspect(e, func(n ast.Node) bool {
		if id, ok := n.(*ast.Ident); ok {
			out = append(out, id.Name)
		}
		return true
	})
	return out
}

func (w *walker) call(c *ast.CallExpr, gs []guard) {
	// conversion to a pointer type: (*T)(x)
	if p, ok := c.Fun.(*ast.ParenExpr); ok {
		if _, ok := p.X.(*ast.StarExpr); ok {
			for _, a := range c.Args {
				w.expr(a, gs)
			}
			return
		}
	}
	name := ""
	switch f := c.Fun.(type) {
	case *ast.Ident:
		name = f.Name
		w.calls[name] = true
	case *ast.SelectorExpr:
		name = f.Sel.Name
		w.calls[name] = true
	}
	if id, ok := c.Fun.(*ast.Ident); ok {
		switch id.Name {
		case "make":
			if len(c.Args) >= 2 {
				n := c.Args[1]
				isLen := false
				if cc, ok := n.(*ast.CallExpr); ok {
					if f, ok := cc.Fun.(*ast.Ident); ok && f.Name == "len" {
						isLen = true
					}
				}
				w.expr(n, gs)
				if !isLit(n) && !isLen {
					ns := w.t(n)
					w.add("make", c, gs, func(g guard) bool {
						if g.mode == "range" || !cmpRe.MatchString(g.cond) {
							return false
						}
						for _, id := range idents(n) {
							if wordIn(g.cond, id) {
								return true
							}
						}
						return strings.Contains(g.cond, ns)
					})
				}
			}
			return
		case "close":
			// structural facts: closed in a defer (runs once when the goroutine returns) / the channel is created by this function
			var facts []string
			if w.inDefer {
				facts = append(facts, "defer")
			}
			if len(c.Args) == 1 {
				if id, ok := c.Args[0].(*ast.Ident); ok && w.madeHere[id.Name] {
					facts = append(facts, "made:"+id.Name)
				}
			}
			*w.sites = append(*w.sites, site{fn: w.fn, kind: "close", expr: w.t(c), guard: strings.Join(facts, "; ")})
			for _, a := range c.Args {
				w.expr(a, gs)
			}
			return
		case "panic":
			// an explicit panic statement is a site like any other (review G, D1): its guard is every
			// condition that governs it — the model clause has to say why that conjunction never holds
			w.add("panic", c, gs, func(g guard) bool { return true })
			for _, a := range c.Args {
				w.expr(a, gs)
			}
			return
		case "len", "cap", "append", "copy", "new", "delete", "string", "int", "uint32", "uint64", "byte", "uint16", "int64":
			for _, a := range c.Args {
				w.expr(a, gs)
			}
			return
		}
	}
	w.expr(c.Fun, gs)
	for _, a := range c.Args {
		w.expr(a, gs)
	}
	ct := w.t(c)
	for i, an := range anchors {
		if an.fn == w.fn && an.call == ct {
			w.anchored[i] = true
			if an.cond != "" {
				cond := an.cond
				w.add(an.kind, c, gs, func(g guard) bool { return g.mode == "after" && g.cond == cond })
			} else {
				w.add(an.kind, c, gs, w.guardNil(an.operand))
			}
		}
	}
	if s, ok := c.Fun.(*ast.SelectorExpr); ok {
		switch s.Sel.Name {
		case "Exit", "Fatal", "Fatalf", "Fatalln", "Panic", "Panicf", "Panicln", "Goexit":
			// os.Exit / log.Fatal* / logger.Fatal / log.Panic*: the process (or goroutine) ends
			w.add("exit", c, gs, func(g guard) bool { return true })
		case "Open", "Seal":
			if len(c.Args) == 4 {
				ns := w.t(c.Args[1])
				w.add("callpanics", c, gs, func(g guard) bool { return strings.Contains(g.cond, lenOf(ns)) })
			}
		case "Div", "Inv":
			w.add("callpanics", c, gs, nil)
		case "Int":
			if id, ok := s.X.(*ast.Ident); ok && id.Name == "rand" && len(c.Args) == 2 {
				ms := w.t(c.Args[1])
				w.add("callpanics", c, gs, func(g guard) bool { return wordIn(g.cond, ms) })
			}
		}
	}
}

// madeIn: identifiers that fd assigns from make(chan …), make(map …) or a map literal
func madeIn(body *ast.BlockStmt) map[string]bool {
	m := map[string]bool{}
	isMake := func(e ast.Expr) bool {
		switch v := e.(type) {
		case *ast.CallExpr:
			if f, ok := v.Fun.(*ast.Ident); ok && f.Name == "make" && len(v.Args) > 0 {
				switch v.Args[0].(type) {
				case *ast.ChanType, *ast.MapType:
					return true
				}
			}
		case *ast.CompositeLit:
			_, ok := v.Type.(*ast.MapType)
			return ok
		}
		return false
	}
	ast.Inspect(body, func(n ast.Node) bool {
		if a, ok := n.(*ast.AssignStmt); ok && len(a.Lhs) == len(a.Rhs) {
			for i, l := range a.Lhs {
				if id, ok := l.(*ast.Ident); ok && isMake(a.Rhs[i]) {
					m[id.Name] = true
				}
			}
		}
		return true
	})
	return m
}

// nilCompared: the identifiers (other than err) that fd compares with nil
func nilCompared(body *ast.BlockStmt) map[string]bool {
	m := map[string]bool{}
	ast.Inspect(body, func(n ast.Node) bool {
		if b, ok := n.(*ast.BinaryExpr); ok && (b.Op == token.EQL || b.Op == token.NEQ) {
			x, y := b.X, b.Y
			if id, ok := x.(*ast.Ident); ok && id.Name == "nil" {
				x, y = y, x
			}
			if id, ok := y.(*ast.Ident); ok && id.Name == "nil" {
				if v, ok := x.(*ast.Ident); ok && v.Name != "err" {
					m[v.Name] = true
				}
			}
		}
		return true
	})
	return m
}

// guardClass: what the recorded guard text amounts to for a site of this kind
func guardClass(kind, guard string) string {
	switch {
	case guard == "":
		return "none"
	case (kind == "typeassert" || kind == "mapzero") && guard == "ok":
		return "ok"
	case kind == "mapzero" && guard == "read":
		return "read" // `v := m[k]`: a map read never panics; uses of v are sites of their own
	case kind == "mapzero":
		return "cmp"
	case kind == "close" && strings.HasPrefix(guard, "defer; made:"):
		return "defer-made"
	case kind == "close":
		return "cmp"
	case kind == "mapwrite" && strings.HasPrefix(guard, "made:"):
		return "made"
	case kind == "deref" || kind == "ifacenil" || kind == "ifaceslot":
		return "nil" // guardNil only accepts `operand == nil` / `operand != nil`
	case (kind == "index" || kind == "slice") && (strings.Contains(guard, "len(") || strings.Contains(guard, "range:")):
		return "len"
	}
	return "cmp"
}

// cleanupFacts: for the session layer of pdkg.Loop (handlePeerMsg, handleRequest and the expiry sweep
// inside Loop) the ordered clean-up operations of every statement list that closes a channel:
// ("send", channel) for a send (plain or as a select case), ("close", channel), ("delete", map).
// The session-layer model reads them: which of the two maps each path clears and that the reply
// channel is closed exactly once, after the send.
func cleanupFacts(repo string) (string, error) {
	fset, f, err := ex.Parse(filepath.Join(repo, "share/dkg/pedersen/pdkg.go"))
	if err != nil {
		return "", err
	}
	type path struct {
		name string
		ops  [][2]string
	}
	var paths []path
	opsOf := func(stmts []ast.Stmt) (ops [][2]string, closes bool) {
		callOp := func(e ast.Expr) {
			c, ok := e.(*ast.CallExpr)
			if !ok {
				return
			}
			id, ok := c.Fun.(*ast.Ident)
			if !ok {
				return
			}
			switch {
			case id.Name == "close" && len(c.Args) == 1:
				ops = append(ops, [2]string{"close", txt(fset, c.Args[0])})
				closes = true
			case id.Name == "delete" && len(c.Args) == 2:
				ops = append(ops, [2]string{"delete", txt(fset, c.Args[0])})
			}
		}
		for _, st := range stmts {
			switch x := st.(type) {
			case *ast.ExprStmt:
				callOp(x.X)
			case *ast.SendStmt:
				ops = append(ops, [2]string{"send", txt(fset, x.Chan)})
			case *ast.SelectStmt:
				for _, cc := range x.Body.List {
					if snd, ok := cc.(*ast.CommClause).Comm.(*ast.SendStmt); ok {
						ops = append(ops, [2]string{"send", txt(fset, snd.Chan)})
					}
				}
			}
		}
		return
	}
	for _, want := range []string{"handlePeerMsg", "handleRequest", "Loop"} {
		var fd *ast.FuncDecl
		for _, d := range f.Decls {
			if x, ok := d.(*ast.FuncDecl); ok && x.Name.Name == want && x.Body != nil {
				fd = x
			}
		}
		if fd == nil {
			return "", fmt.Errorf("cleanup facts: function %s not found in pdkg.go", want)
		}
		n := 0
		ast.Inspect(fd.Body, func(nd ast.Node) bool {
			var list []ast.Stmt
			switch x := nd.(type) {
			case *ast.BlockStmt:
				list = x.List
			case *ast.CommClause:
				list = x.Body
			case *ast.CaseClause:
				list = x.Body
			}
			if list != nil {
				if ops, closes := opsOf(list); closes {
					n++
					name := "dkg." + want
					if n > 1 {
						name = fmt.Sprintf("%s#%d", name, n)
					}
					paths = append(paths, path{name, ops})
				}
			}
			return true
		})
		if n == 0 {
			return "", fmt.Errorf("cleanup facts: no closing path found in %s", want)
		}
	}
	var b strings.Builder
	b.WriteString("/-- session layer of pdkg.Loop: the ordered clean-up operations (kind, operand) of every statement list that closes a channel -/\n")
	b.WriteString("def cleanup : List (String × List (String × String)) := [\n")
	for i, p := range paths {
		var ops []string
		for _, o := range p.ops {
			ops = append(ops, fmt.Sprintf("(%s, %s)", ex.LeanStr(o[0]), ex.LeanStr(o[1])))
		}
		sep := ","
		if i == len(paths)-1 {
			sep = ""
		}
		fmt.Fprintf(&b, "  (%s, [%s])%s\n", ex.LeanStr(p.name), strings.Join(ops, ", "), sep)
	}
	b.WriteString("]\n")
	return b.String(), nil
}

// flowFacts: how a chain event travels from the contract binding to the handlers.
//
//	eventFlow  per entry of proxyTable / crTable: the payload literal `&Log…{Field: source, …}` and the
//	           `&LogCommon{…}` wrapper it is put in (fields in source order)
//	loopSubs   the subscription list onchainLoop passes to SubscribeEvent
//	loopCases  the case types of onchainLoop's switch on the delivered event
//	errValues  the error values the table entries send (first argument text of every replyError call's value)
func flowFacts(repo string) (string, error) {
	fset, f, err := ex.Parse(filepath.Join(repo, "onchain/eth_subscribe.go"))
	if err != nil {
		return "", err
	}
	type entry struct {
		name, payload  string
		fields, common [][2]string
		errs           []string
	}
	var entries []entry
	litFields := func(cl *ast.CompositeLit) (fs [][2]string) {
		for _, el := range cl.Elts {
			if kv, ok := el.(*ast.KeyValueExpr); ok {
				fs = append(fs, [2]string{txt(fset, kv.Key), txt(fset, kv.Value)})
			}
		}
		return
	}
	for _, d := range f.Decls {
		gd, ok := d.(*ast.GenDecl)
		if !ok || gd.Tok != token.VAR {
			continue
		}
		for _, sp := range gd.Specs {
			vs := sp.(*ast.ValueSpec)
			for vi, val := range vs.Values {
				cl, ok := val.(*ast.CompositeLit)
				if !ok || vi >= len(vs.Names) {
					continue
				}
				for _, el := range cl.Elts {
					kv, ok := el.(*ast.KeyValueExpr)
					if !ok {
						continue
					}
					fl, ok := kv.Value.(*ast.FuncLit)
					if !ok {
						continue
					}
					e := entry{name: vs.Names[vi].Name + "[" + txt(fset, kv.Key) + "]"}
					ast.Inspect(fl.Body, func(n ast.Node) bool {
						switch x := n.(type) {
						case *ast.UnaryExpr:
							if c, ok := x.X.(*ast.CompositeLit); ok && x.Op == token.AND {
								switch tn := typeName(c.Type); {
								case tn == "LogCommon":
									e.common = append(e.common, litFields(c)...)
								case strings.HasPrefix(tn, "Log"):
									e.payload = tn
									e.fields = append(e.fields, litFields(c)...)
								}
							}
						case *ast.CallExpr:
							if id, ok := x.Fun.(*ast.Ident); ok && id.Name == "replyError" && len(x.Args) == 3 {
								t := txt(fset, x.Args[2])
								if i := strings.Index(t, "{"); i > 0 {
									t = t[:i]
								}
								e.errs = append(e.errs, t)
							}
						}
						return true
					})
					entries = append(entries, e)
				}
			}
		}
	}
	sort.Slice(entries, func(i, j int) bool { return entries[i].name < entries[j].name })
	pairs := func(ps [][2]string) string {
		var xs []string
		for _, p := range ps {
			xs = append(xs, fmt.Sprintf("(%s, %s)", ex.LeanStr(p[0]), ex.LeanStr(p[1])))
		}
		return "[" + strings.Join(xs, ", ") + "]"
	}
	strs := func(ss []string) string {
		var xs []string
		for _, x := range ss {
			xs = append(xs, ex.LeanStr(x))
		}
		return "[" + strings.Join(xs, ", ") + "]"
	}
	var b strings.Builder
	b.WriteString("/-- onchain/eth_subscribe.go: per table entry (name, payload type, payload literal fields, LogCommon literal fields, error values sent) -/\n")
	b.WriteString("def eventFlow : List (String × String × List (String × String) × List (String × String) × List String) := [\n")
	for i, e := range entries {
		sep := ","
		if i == len(entries)-1 {
			sep = ""
		}
		fmt.Fprintf(&b, "  (%s, %s, %s, %s, %s)%s\n", ex.LeanStr(e.name), ex.LeanStr(e.payload), pairs(e.fields), pairs(e.common), strs(e.errs), sep)
	}
	b.WriteString("]\n\n")
	// onchainLoop: subscription list and case types
	fset2, f2, err := ex.Parse(filepath.Join(repo, "dosnode/dos_chain_handler.go"))
	if err != nil {
		return "", err
	}
	var subs, cases []string
	for _, d := range f2.Decls {
		fd, ok := d.(*ast.FuncDecl)
		if !ok || fd.Name.Name != "onchainLoop" || fd.Body == nil {
			continue
		}
		ast.Inspect(fd.Body, func(n ast.Node) bool {
			switch x := n.(type) {
			case *ast.CompositeLit:
				if at, ok := x.Type.(*ast.ArrayType); ok && at.Len == nil && typeName(at.Elt) == "int" && subs == nil {
					for _, el := range x.Elts {
						subs = append(subs, typeName(el))
					}
				}
			case *ast.TypeSwitchStmt:
				if strings.Contains(txt(fset2, x.Assign), "event.(type)") {
					for _, c := range x.Body.List {
						cc := c.(*ast.CaseClause)
						if cc.List == nil {
							cases = append(cases, "default")
						}
						for _, t := range cc.List {
							cases = append(cases, txt(fset2, t))
						}
					}
				}
			}
			return true
		})
	}
	if len(subs) == 0 || len(cases) == 0 {
		return "", fmt.Errorf("flow facts: subscription list / event switch of onchainLoop not found")
	}
	fmt.Fprintf(&b, "/-- dosnode.onchainLoop: the subscription list handed to SubscribeEvent -/\ndef loopSubs : List String := %s\n\n", strs(subs))
	fmt.Fprintf(&b, "/-- dosnode.onchainLoop: case types of the switch on the delivered event -/\ndef loopCases : List String := %s\n", strs(cases))
	return b.String(), nil
}

func recvName(fd *ast.FuncDecl) string {
	if fd.Recv == nil || len(fd.Recv.List) == 0 {
		return ""
	}
	t := fd.Recv.List[0].Type
	if s, ok := t.(*ast.StarExpr); ok {
		t = s.X
	}
	if id, ok := t.(*ast.Ident); ok {
		return id.Name
	}
	return ""
}

func qual(fd *ast.FuncDecl) string {
	if r := recvName(fd); r != "" {
		return r + "." + fd.Name.Name
	}
	return fd.Name.Name
}

func isBigInt(t ast.Expr) bool {
	if se, ok := t.(*ast.SelectorExpr); ok {
		if id, ok := se.X.(*ast.Ident); ok {
			return id.Name == "big" && se.Sel.Name == "Int"
		}
	}
	return false
}

func typeName(t ast.Expr) string {
	switch x := t.(type) {
	case *ast.Ident:
		return x.Name
	case *ast.SelectorExpr:
		return x.Sel.Name
	}
	return ""
}

func run(repo string) (string, error) {
	ptrField, ifcField, mapField := map[string]bool{}, map[string]bool{}, map[string]bool{}
	// optional (pointer / interface) fields of message types
	for _, mf := range messageFiles {
		_, f, err := ex.Parse(filepath.Join(repo, mf))
		if err != nil {
			return "", err
		}
		for _, d := range f.Decls {
			gd, ok := d.(*ast.GenDecl)
			if !ok || gd.Tok != token.TYPE {
				continue
			}
			for _, sp := range gd.Specs {
				ts := sp.(*ast.TypeSpec)
				st, ok := ts.Type.(*ast.StructType)
				if !ok || !messageTypes[ts.Name.Name] {
					continue
				}
				for _, fl := range st.Fields.List {
					for _, n := range fl.Names {
						if strings.HasPrefix(n.Name, "XXX_") {
							continue
						}
						switch ft := fl.Type.(type) {
						case *ast.StarExpr:
							ptrField[n.Name] = true
						case *ast.SelectorExpr:
							if id, ok := ft.X.(*ast.Ident); ok && id.Name == "kyber" {
								ifcField[n.Name] = true
							}
						}
					}
				}
			}
		}
	}
	var sites []site
	var unlisted []string
	var conds [][2]string
	anchored := map[int]bool{}
	declared := map[string][]string{} // bare name → qualified names declared in the anchored files
	seenFile := map[string]bool{}
	tableEntries := map[string]bool{} // function literals of package-level tables in the anchored files
	listed := map[string]bool{}
	calls := map[string]bool{}
	for _, r := range reach {
		fset, f, err := ex.Parse(filepath.Join(repo, r.file))
		if err != nil {
			return "", err
		}
		pkg := f.Name.Name
		// struct fields of map type declared in this file
		for _, d := range f.Decls {
			if gd, ok := d.(*ast.GenDecl); ok && gd.Tok == token.TYPE {
				for _, sp := range gd.Specs {
					if st, ok := sp.(*ast.TypeSpec).Type.(*ast.StructType); ok {
						for _, fl := range st.Fields.List {
							if _, ok := fl.Type.(*ast.MapType); ok {
								for _, n := range fl.Names {
									mapField[n.Name] = true
								}
							}
						}
					}
				}
			}
		}
		want := map[string]bool{}
		for _, fn := range r.funcs {
			want[fn] = true
		}
		for _, d := range f.Decls {
			fd, ok := d.(*ast.FuncDecl)
			if !ok || fd.Body == nil {
				continue
			}
			q := qual(fd)
			if !seenFile[r.file] {
				declared[fd.Name.Name] = append(declared[fd.Name.Name], pkg+"."+q)
			}
			if !want[q] {
				continue
			}
			delete(want, q)
			listed[pkg+"."+q] = true
			w := &walker{fset: fset, pkg: pkg, fn: pkg + "." + q, ptrField: ptrField, ifcField: ifcField, mapField: mapField,
				mapLocal: map[string]bool{}, ptrParam: map[string]bool{}, seenParam: map[string]bool{}, alias: map[string]string{}, ptrMap: map[string]bool{}, nilLocal: map[string]string{}, nilCmp: nilCompared(fd.Body), madeHere: madeIn(fd.Body), sites: &sites, calls: calls, anchored: anchored, conds: &conds}
			for _, p := range fd.Type.Params.List {
				switch pt := p.Type.(type) {
				case *ast.MapType:
					for _, n := range p.Names {
						w.mapLocal[n.Name] = true
					}
				case *ast.StarExpr:
					if messageTypes[typeName(pt.X)] || isBigInt(pt.X) {
						for _, n := range p.Names {
							w.ptrParam[n.Name] = true
						}
					}
				}
			}
			w.block(fd.Body.List, nil)
		}
		// function literals of a package-level table: `var t = []func(..){ Key: func(..) {..} }` → "t[Key]"
		for _, d := range f.Decls {
			gd, ok := d.(*ast.GenDecl)
			if !ok || gd.Tok != token.VAR {
				continue
			}
			for _, sp := range gd.Specs {
				vs := sp.(*ast.ValueSpec)
				for vi, val := range vs.Values {
					cl, ok := val.(*ast.CompositeLit)
					if !ok || vi >= len(vs.Names) {
						continue
					}
					for _, el := range cl.Elts {
						kv, ok := el.(*ast.KeyValueExpr)
						if !ok {
							continue
						}
						fl, ok := kv.Value.(*ast.FuncLit)
						if !ok {
							continue
						}
						q := vs.Names[vi].Name + "[" + txt(fset, kv.Key) + "]"
						tableEntries[pkg+"."+q] = true
						if !want[q] {
							continue
						}
						delete(want, q)
						listed[pkg+"."+q] = true
						w := &walker{fset: fset, pkg: pkg, fn: pkg + "." + q, ptrField: ptrField, ifcField: ifcField, mapField: mapField,
							mapLocal: map[string]bool{}, ptrParam: map[string]bool{}, seenParam: map[string]bool{}, alias: map[string]string{}, ptrMap: map[string]bool{}, nilLocal: map[string]string{}, nilCmp: nilCompared(fl.Body), madeHere: madeIn(fl.Body), sites: &sites, calls: calls, anchored: anchored, conds: &conds}
						w.block(fl.Body.List, nil)
					}
				}
			}
		}
		for fn := range want {
			return "", fmt.Errorf("function %s not found in %s", fn, r.file)
		}
		seenFile[r.file] = true
	}
	// table entries that are neither listed nor classified
	for q := range tableEntries {
		if !listed[q] {
			if _, ok := notReach[q]; !ok {
				unlisted = append(unlisted, q)
			}
		}
	}
	for i, an := range anchors {
		if !anchored[i] {
			return "", fmt.Errorf("anchored call %s not found in %s", an.call, an.fn)
		}
	}
	// reach-set closure by callee name over the functions declared in the anchored files
	for name := range calls {
		for _, q := range declared[name] {
			if !listed[q] {
				if _, ok := notReach[q]; !ok {
					unlisted = append(unlisted, q)
				}
			}
		}
	}
	sort.Strings(unlisted)
	// stable, position-independent keys: duplicates get #2, #3 … in source order
	cnt := map[string]int{}
	type row struct{ key, kind, guard, cls string }
	var rows []row
	for _, s := range sites {
		k := s.fn + "|" + s.kind + "|" + s.expr
		cnt[k]++
		if cnt[k] > 1 {
			k = fmt.Sprintf("%s#%d", k, cnt[k])
		}
		rows = append(rows, row{k, s.kind, s.guard, guardClass(s.kind, s.guard)})
	}
	sort.Slice(rows, func(i, j int) bool { return rows[i].key < rows[j].key })
	var b strings.Builder
	b.WriteString(ex.Header("PanicSites", "the C12 anchored files (see go/extract/panicsites)"))
	b.WriteString("namespace Dos.Gen.PanicSites\n\nstructure Site where\n  key : String\n  kind : String\n  guard : String\n  /-- what the guard text amounts to: nil (nil comparison of the operand), len (length / range bound of the indexed value),\n  ok (comma-ok form), defer-made (deferred close of a channel made here), made (map made here), cmp (another comparison), none -/\n  cls : String\n  deriving Repr, DecidableEq\n\n")
	b.WriteString("def sites : List Site := [\n")
	for i, r := range rows {
		sep := ","
		if i == len(rows)-1 {
			sep = ""
		}
		fmt.Fprintf(&b, "  ⟨%s, %s, %s, %s⟩%s\n", ex.LeanStr(r.key), ex.LeanStr(r.kind), ex.LeanStr(r.guard), ex.LeanStr(r.cls), sep)
	}
	b.WriteString("]\n\n/-- functions of the anchored files whose name is called from the reach set but which are neither listed as reachable nor as not-reachable -/\n")
	b.WriteString("def unlisted : List String := [")
	for i, u := range unlisted {
		if i > 0 {
			b.WriteString(", ")
		}
		b.WriteString(ex.LeanStr(u))
	}
	b.WriteString("]\n\n/-- every `if` condition of the reach set (function, condition text): cross-function guards are cited from here -/\n")
	sort.Slice(conds, func(i, j int) bool { return conds[i][0]+"|"+conds[i][1] < conds[j][0]+"|"+conds[j][1] })
	b.WriteString("def conds : List (String × String) := [\n")
	for i, c := range conds {
		sep := ","
		if i == len(conds)-1 {
			sep = ""
		}
		fmt.Fprintf(&b, "  (%s, %s)%s\n", ex.LeanStr(c[0]), ex.LeanStr(c[1]), sep)
	}
	b.WriteString("]\n\n")
	cl, err := cleanupFacts(repo)
	if err != nil {
		return "", err
	}
	b.WriteString(cl)
	fl, err := flowFacts(repo)
	if err != nil {
		return "", err
	}
	b.WriteString("\n")
	b.WriteString(fl)
	b.WriteString("\nend Dos.Gen.PanicSites\n")
	return b.String(), nil
}

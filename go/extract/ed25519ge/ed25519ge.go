// Package ed25519ge (C20, round 4): syntax-directed go/ast translation of the ref10 GROUP
// code group/edwards25519/ge.go and of the constants of const.go into Lean
// (Gen/Ed25519Ge.lean, Gen/Ed25519GeTable.lean).
//
//   - every straight-line method of ge.go (a sequence of fe* calls on struct fields) becomes a
//     `Dos.GeProg.GeFn`: one Go statement `feX(&a.F, &b.G, &c.H)` = one
//     `⟨.x, (obj a, field F), (obj b, field G), (obj c, field H)⟩`.  Objects: 0 = receiver,
//     1… = pointer parameters, then local fieldElements, then the constants d, d2, sqrtM1.
//     Struct field orders are read from the type declarations.
//   - ToBytes (both receivers): the fe* prefix as a GeFn, then exactly
//     `feToBytes(s, &y)` ; `s[31] ^= feIsNegative(&x) << 7` (shape checked, registers emitted).
//   - FromBytes: its control skeleton is checked to be
//     len test; A…; if feIsNonZero(&check)==1 { B…; if feIsNonZero(&check)==1 {return false}; C… };
//     if feIsNegative(&p.X) != (s[31]>>7) { D… }; E…; return true
//     and the straight-line segments A–E are emitted as GeFns over one common object table.
//   - const.go: d, d2, sqrtM1, baseext, bi as limb literals; the table `base` in a module
//     of its own (Gen/Ed25519GeTable.lean).
//   - slide/equal/negative/select*/geScalarMult*: statement lists as text (pinned), modelled
//     by hand in Model/Ed25519Ge.lean.
package ed25519ge

import (
	"bytes"
	"fmt"
	"go/ast"
	"go/parser"
	"go/printer"
	"go/token"
	"path/filepath"
	"strings"

	"verifharness/extract/ex"
)

func init() {
	ex.Register(&ex.Extractor{Name: "Ed25519Ge", Run: run})
	ex.Register(&ex.Extractor{Name: "Ed25519GeTable", Run: runTable})
}

var feOps = map[string]struct {
	op    string
	arity int // operands after dst
}{
	"feMul": {".mul", 2}, "feSquare": {".sq", 1}, "feSquare2": {".sq2", 1}, "feAdd": {".add", 2}, "feSub": {".sub", 2},
	"feNeg": {".neg", 1}, "feCopy": {".copy", 1}, "feZero": {".zero", 0}, "feOne": {".one", 0},
	"feInvert": {".invert", 1}, "fePow22523": {".pow22523", 1},
}

var consts = []string{"d", "d2", "sqrtM1"}

type env struct {
	fset    *token.FileSet
	structs map[string][]string // struct type → field names
	objs    []string            // object names
	fields  [][]string          // per object: field names ("" = plain fieldElement)
	bparam  string              // the int32 parameter of CMove
}

func (e *env) obj(name string) int {
	for i, o := range e.objs {
		if o == name {
			return i
		}
	}
	return -1
}

// &x.F | &x | x.F (inside &) → (obj, field)
func (e *env) loc(a ast.Expr) (string, error) {
	if u, ok := a.(*ast.UnaryExpr); ok && u.Op == token.AND {
		a = u.X
	}
	switch x := a.(type) {
	case *ast.Ident:
		o := e.obj(x.Name)
		if o < 0 || len(e.fields[o]) != 1 || e.fields[o][0] != "" {
			return "", fmt.Errorf("%s: %s is not a fieldElement here", e.fset.Position(a.Pos()), x.Name)
		}
		return fmt.Sprintf("(%d, 0)", o), nil
	case *ast.SelectorExpr:
		id, ok := x.X.(*ast.Ident)
		if !ok {
			return "", fmt.Errorf("%s: operand", e.fset.Position(a.Pos()))
		}
		o := e.obj(id.Name)
		if o < 0 {
			return "", fmt.Errorf("%s: unknown object %s", e.fset.Position(a.Pos()), id.Name)
		}
		for k, f := range e.fields[o] {
			if f == x.Sel.Name {
				return fmt.Sprintf("(%d, %d)", o, k), nil
			}
		}
		return "", fmt.Errorf("%s: %s has no field %s", e.fset.Position(a.Pos()), id.Name, x.Sel.Name)
	}
	return "", fmt.Errorf("%s: operand %T", e.fset.Position(a.Pos()), a)
}

func (e *env) feCall(s ast.Stmt) (string, error) {
	es, ok := s.(*ast.ExprStmt)
	if !ok {
		return "", fmt.Errorf("%s: statement %T", e.fset.Position(s.Pos()), s)
	}
	c, ok := es.X.(*ast.CallExpr)
	if !ok {
		return "", fmt.Errorf("%s: not a call", e.fset.Position(s.Pos()))
	}
	id, ok := c.Fun.(*ast.Ident)
	if !ok {
		return "", fmt.Errorf("%s: call of a non-function", e.fset.Position(s.Pos()))
	}
	if id.Name == "feCMove" {
		if len(c.Args) != 3 {
			return "", fmt.Errorf("%s: feCMove arity", e.fset.Position(s.Pos()))
		}
		b, ok := c.Args[2].(*ast.Ident)
		if !ok || b.Name != e.bparam || e.bparam == "" {
			return "", fmt.Errorf("%s: feCMove selector is not the int32 parameter", e.fset.Position(s.Pos()))
		}
		d, err := e.loc(c.Args[0])
		if err != nil {
			return "", err
		}
		a, err := e.loc(c.Args[1])
		if err != nil {
			return "", err
		}
		return fmt.Sprintf("⟨.cmove, %s, %s, (0, 0)⟩", d, a), nil
	}
	op, ok := feOps[id.Name]
	if !ok || len(c.Args) != op.arity+1 {
		return "", fmt.Errorf("%s: call of %s", e.fset.Position(s.Pos()), id.Name)
	}
	locs := []string{"(0, 0)", "(0, 0)", "(0, 0)"}
	for k, a := range c.Args {
		l, err := e.loc(a)
		if err != nil {
			return "", err
		}
		locs[k] = l
	}
	return fmt.Sprintf("⟨%s, %s, %s, %s⟩", op.op, locs[0], locs[1], locs[2]), nil
}

func recvOf(fd *ast.FuncDecl) (string, string) {
	if fd.Recv == nil || len(fd.Recv.List) != 1 || len(fd.Recv.List[0].Names) != 1 {
		return "", ""
	}
	t := fd.Recv.List[0].Type
	if s, ok := t.(*ast.StarExpr); ok {
		t = s.X
	}
	id, ok := t.(*ast.Ident)
	if !ok {
		return "", ""
	}
	return fd.Recv.List[0].Names[0].Name, id.Name
}

// object table of a method: receiver, pointer-to-struct parameters, then (added while walking) locals; constants last
func newEnv(fset *token.FileSet, structs map[string][]string, fd *ast.FuncDecl) (*env, error) {
	e := &env{fset: fset, structs: structs}
	rn, rt := recvOf(fd)
	fs, ok := structs[rt]
	if !ok {
		return nil, fmt.Errorf("%s: receiver type %s", fd.Name.Name, rt)
	}
	e.objs = append(e.objs, rn)
	e.fields = append(e.fields, fs)
	for _, fl := range fd.Type.Params.List {
		switch x := fl.Type.(type) {
		case *ast.StarExpr:
			if id, ok := x.X.(*ast.Ident); ok {
				if fs, ok := structs[id.Name]; ok {
					for _, n := range fl.Names {
						e.objs = append(e.objs, n.Name)
						e.fields = append(e.fields, fs)
					}
					continue
				}
			}
			if _, ok := x.X.(*ast.ArrayType); ok { // s *[32]byte
				continue
			}
		case *ast.ArrayType: // s []byte
			continue
		case *ast.Ident:
			if x.Name == "int32" && len(fl.Names) == 1 {
				e.bparam = fl.Names[0].Name
				continue
			}
		}
		return nil, fmt.Errorf("%s: parameter type", fd.Name.Name)
	}
	return e, nil
}

func (e *env) locals(s ast.Stmt) bool {
	ds, ok := s.(*ast.DeclStmt)
	if !ok {
		return false
	}
	gd, ok := ds.Decl.(*ast.GenDecl)
	if !ok || gd.Tok != token.VAR {
		return false
	}
	for _, sp := range gd.Specs {
		vs := sp.(*ast.ValueSpec)
		id, ok := vs.Type.(*ast.Ident)
		if !ok || id.Name != "fieldElement" || len(vs.Values) != 0 {
			return false
		}
		for _, n := range vs.Names {
			e.objs = append(e.objs, n.Name)
			e.fields = append(e.fields, []string{""})
		}
	}
	return true
}

func (e *env) addConsts() {
	for _, c := range consts {
		e.objs = append(e.objs, c)
		e.fields = append(e.fields, []string{""})
	}
}

func (e *env) emit(name string, bodies map[string][]string, order []string) string {
	var b strings.Builder
	var sizes, desc []string
	for i, o := range e.objs {
		sizes = append(sizes, fmt.Sprint(len(e.fields[i])))
		if e.fields[i][0] == "" {
			desc = append(desc, fmt.Sprintf("%d=%s", i, o))
		} else {
			desc = append(desc, fmt.Sprintf("%d=%s{%s}", i, o, strings.Join(e.fields[i], ",")))
		}
	}
	for _, k := range order {
		fmt.Fprintf(&b, "/-- %s%s: objects %s -/\n", name, k, strings.Join(desc, " "))
		body := "[]"
		if len(bodies[k]) > 0 {
			body = "[" + strings.Join(bodies[k], ",\n     ") + "]"
		}
		fmt.Fprintf(&b, "def %s%s : GeFn :=\n  { objs := [%s],\n    body :=\n    %s }\n\n", name, k, strings.Join(sizes, ", "), body)
	}
	return b.String()
}

var short = map[string]string{
	"projectiveGroupElement": "projective", "extendedGroupElement": "extended", "completedGroupElement": "completed",
	"preComputedGroupElement": "precomp", "cachedGroupElement": "cached",
}

func straight(fset *token.FileSet, structs map[string][]string, fd *ast.FuncDecl) (string, error) {
	_, rt := recvOf(fd)
	name := short[rt] + "_" + fd.Name.Name
	e, err := newEnv(fset, structs, fd)
	if err != nil {
		return "", err
	}
	var stmts []ast.Stmt
	for _, s := range fd.Body.List {
		if e.locals(s) {
			continue
		}
		stmts = append(stmts, s)
	}
	e.addConsts()
	var body []string
	for _, s := range stmts {
		l, err := e.feCall(s)
		if err != nil {
			return "", fmt.Errorf("%s: %v", name, err)
		}
		body = append(body, l)
	}
	return e.emit(name, map[string][]string{"": body}, []string{""}), nil
}

func isCall(e ast.Expr, fn string) (*ast.CallExpr, bool) {
	c, ok := e.(*ast.CallExpr)
	if !ok {
		return nil, false
	}
	id, ok := c.Fun.(*ast.Ident)
	return c, ok && id.Name == fn
}

// ToBytes: fe* prefix; feToBytes(s, &y); s[31] ^= feIsNegative(&x) << 7
func toBytes(fset *token.FileSet, structs map[string][]string, fd *ast.FuncDecl) (string, error) {
	_, rt := recvOf(fd)
	name := short[rt] + "_ToBytes"
	e, err := newEnv(fset, structs, fd)
	if err != nil {
		return "", err
	}
	var stmts []ast.Stmt
	for _, s := range fd.Body.List {
		if e.locals(s) {
			continue
		}
		stmts = append(stmts, s)
	}
	e.addConsts()
	if len(stmts) < 2 {
		return "", fmt.Errorf("%s: too short", name)
	}
	var body []string
	for _, s := range stmts[:len(stmts)-2] {
		l, err := e.feCall(s)
		if err != nil {
			return "", fmt.Errorf("%s: %v", name, err)
		}
		body = append(body, l)
	}
	// feToBytes(s, &y)
	es, ok := stmts[len(stmts)-2].(*ast.ExprStmt)
	if !ok {
		return "", fmt.Errorf("%s: feToBytes expected", name)
	}
	c, ok := isCall(es.X, "feToBytes")
	if !ok || len(c.Args) != 2 {
		return "", fmt.Errorf("%s: feToBytes expected", name)
	}
	sname, ok := c.Args[0].(*ast.Ident)
	if !ok {
		return "", fmt.Errorf("%s: feToBytes target", name)
	}
	yloc, err := e.loc(c.Args[1])
	if err != nil {
		return "", err
	}
	// s[31] ^= feIsNegative(&x) << 7
	as, ok := stmts[len(stmts)-1].(*ast.AssignStmt)
	if !ok || as.Tok != token.XOR_ASSIGN || len(as.Lhs) != 1 {
		return "", fmt.Errorf("%s: sign statement", name)
	}
	ix, ok := as.Lhs[0].(*ast.IndexExpr)
	if !ok {
		return "", fmt.Errorf("%s: sign statement target", name)
	}
	if id, ok := ix.X.(*ast.Ident); !ok || id.Name != sname.Name {
		return "", fmt.Errorf("%s: sign statement target", name)
	}
	if b, ok := ix.Index.(*ast.BasicLit); !ok || b.Value != "31" {
		return "", fmt.Errorf("%s: sign byte index", name)
	}
	be, ok := as.Rhs[0].(*ast.BinaryExpr)
	if !ok || be.Op != token.SHL {
		return "", fmt.Errorf("%s: sign shift", name)
	}
	if b, ok := be.Y.(*ast.BasicLit); !ok || b.Value != "7" {
		return "", fmt.Errorf("%s: sign shift amount", name)
	}
	nc, ok := isCall(be.X, "feIsNegative")
	if !ok || len(nc.Args) != 1 {
		return "", fmt.Errorf("%s: feIsNegative expected", name)
	}
	xloc, err := e.loc(nc.Args[0])
	if err != nil {
		return "", err
	}
	out := e.emit(name, map[string][]string{"": body}, []string{""})
	out += fmt.Sprintf("/-- %s: `feToBytes(s, &y)` then `s[31] ^= feIsNegative(&x) << 7`: the registers y and x -/\ndef %s_y : Loc := %s\ndef %s_x : Loc := %s\n\n", name, name, yloc, name, xloc)
	return out, nil
}

func condNonZero(e *env, c ast.Expr) (string, bool) {
	be, ok := c.(*ast.BinaryExpr)
	if !ok || be.Op != token.EQL {
		return "", false
	}
	if b, ok := be.Y.(*ast.BasicLit); !ok || b.Value != "1" {
		return "", false
	}
	call, ok := isCall(be.X, "feIsNonZero")
	if !ok || len(call.Args) != 1 {
		return "", false
	}
	l, err := e.loc(call.Args[0])
	return l, err == nil
}

func isReturn(s ast.Stmt, val string) bool {
	r, ok := s.(*ast.ReturnStmt)
	if !ok || len(r.Results) != 1 {
		return false
	}
	id, ok := r.Results[0].(*ast.Ident)
	return ok && id.Name == val
}

func fromBytes(fset *token.FileSet, structs map[string][]string, fd *ast.FuncDecl) (string, error) {
	name := "extended_FromBytes"
	e, err := newEnv(fset, structs, fd)
	if err != nil {
		return "", err
	}
	var stmts []ast.Stmt
	for _, s := range fd.Body.List {
		if e.locals(s) {
			continue
		}
		stmts = append(stmts, s)
	}
	e.addConsts()
	bad := func(what string) (string, error) { return "", fmt.Errorf("%s: skeleton: %s", name, what) }
	// 0: if len(s) != 32 { return false }
	ifs, ok := stmts[0].(*ast.IfStmt)
	if !ok || ifs.Else != nil || len(ifs.Body.List) != 1 || !isReturn(ifs.Body.List[0], "false") {
		return bad("length test")
	}
	be, ok := ifs.Cond.(*ast.BinaryExpr)
	if !ok || be.Op != token.NEQ {
		return bad("length test")
	}
	if b, ok := be.Y.(*ast.BasicLit); !ok || b.Value != "32" {
		return bad("length test")
	}
	if c, ok := isCall(be.X, "len"); !ok || len(c.Args) != 1 {
		return bad("length test")
	}
	// 1: feFromBytes(&p.Y, s)
	es, ok := stmts[1].(*ast.ExprStmt)
	if !ok {
		return bad("feFromBytes")
	}
	fc, ok := isCall(es.X, "feFromBytes")
	if !ok || len(fc.Args) != 2 {
		return bad("feFromBytes")
	}
	yloc, err := e.loc(fc.Args[0])
	if err != nil {
		return "", err
	}
	segs := map[string][]string{}
	seq := func(key string, ss []ast.Stmt) error {
		for _, s := range ss {
			l, err := e.feCall(s)
			if err != nil {
				return fmt.Errorf("%s: %v", name, err)
			}
			segs[key] = append(segs[key], l)
		}
		return nil
	}
	// A: up to the first if
	i := 2
	for i < len(stmts) {
		if _, ok := stmts[i].(*ast.IfStmt); ok {
			break
		}
		i++
	}
	if err := seq("_A", stmts[2:i]); err != nil {
		return "", err
	}
	if i+2 >= len(stmts) {
		return bad("missing branches")
	}
	if1, ok := stmts[i].(*ast.IfStmt)
	if !ok || if1.Else != nil {
		return bad("first branch")
	}
	chk1, ok := condNonZero(e, if1.Cond)
	if !ok {
		return bad("first branch condition")
	}
	// inside: B…; if nonzero {return false}; C…
	j := 0
	for j < len(if1.Body.List) {
		if _, ok := if1.Body.List[j].(*ast.IfStmt); ok {
			break
		}
		j++
	}
	if j >= len(if1.Body.List) {
		return bad("inner branch")
	}
	if err := seq("_B", if1.Body.List[:j]); err != nil {
		return "", err
	}
	if2, ok := if1.Body.List[j].(*ast.IfStmt)
	if !ok || if2.Else != nil || len(if2.Body.List) != 1 || !isReturn(if2.Body.List[0], "false") {
		return bad("inner branch")
	}
	chk2, ok := condNonZero(e, if2.Cond)
	if !ok || chk2 != chk1 {
		return bad("inner branch condition")
	}
	if err := seq("_C", if1.Body.List[j+1:]); err != nil {
		return "", err
	}
	// if feIsNegative(&p.X) != (s[31] >> 7) { D }
	if3, ok := stmts[i+1].(*ast.IfStmt)
	if !ok || if3.Else != nil {
		return bad("sign branch")
	}
	sb, ok := if3.Cond.(*ast.BinaryExpr)
	if !ok || sb.Op != token.NEQ {
		return bad("sign branch condition")
	}
	nc, ok := isCall(sb.X, "feIsNegative")
	if !ok || len(nc.Args) != 1 {
		return bad("sign branch condition")
	}
	xloc, err := e.loc(nc.Args[0])
	if err != nil {
		return "", err
	}
	rhs := sb.Y
	if p, ok := rhs.(*ast.ParenExpr); ok {
		rhs = p.X
	}
	sh, ok := rhs.(*ast.BinaryExpr)
	if !ok || sh.Op != token.SHR {
		return bad("sign bit")
	}
	if b, ok := sh.Y.(*ast.BasicLit); !ok || b.Value != "7" {
		return bad("sign bit shift")
	}
	six, ok := sh.X.(*ast.IndexExpr)
	if !ok {
		return bad("sign bit byte")
	}
	if b, ok := six.Index.(*ast.BasicLit); !ok || b.Value != "31" {
		return bad("sign bit byte")
	}
	if err := seq("_D", if3.Body.List); err != nil {
		return "", err
	}
	rest := stmts[i+2:]
	if len(rest) < 1 || !isReturn(rest[len(rest)-1], "true") {
		return bad("final return")
	}
	if err := seq("_E", rest[:len(rest)-1]); err != nil {
		return "", err
	}
	out := e.emit(name, segs, []string{"_A", "_B", "_C", "_D", "_E"})
	out += fmt.Sprintf("/-- %s: `feFromBytes(&…, s)` target, the register tested by both `feIsNonZero`, the register whose sign is compared with `s[31] >> 7` -/\ndef %s_y : Loc := %s\ndef %s_check : Loc := %s\ndef %s_x : Loc := %s\n\n", name, name, yloc, name, chk1, name, xloc)
	return out, nil
}

// ---- constants -----------------------------------------------------------------------

func feLit(e ast.Expr) (string, error) {
	cl, ok := e.(*ast.CompositeLit)
	if !ok || len(cl.Elts) != 10 {
		return "", fmt.Errorf("fieldElement literal expected")
	}
	var vs []string
	for _, el := range cl.Elts {
		neg := false
		if u, ok := el.(*ast.UnaryExpr); ok && u.Op == token.SUB {
			neg, el = true, u.X
		}
		b, ok := el.(*ast.BasicLit)
		if !ok || b.Kind != token.INT {
			return "", fmt.Errorf("limb literal expected")
		}
		if neg {
			vs = append(vs, "-"+b.Value)
		} else {
			vs = append(vs, b.Value)
		}
	}
	return "⟨" + strings.Join(vs, ", ") + "⟩", nil
}

func structLit(e ast.Expr) (string, error) {
	cl, ok := e.(*ast.CompositeLit)
	if !ok {
		return "", fmt.Errorf("struct literal expected")
	}
	var fs []string
	for _, el := range cl.Elts {
		f, err := feLit(el)
		if err != nil {
			return "", err
		}
		fs = append(fs, f)
	}
	return "[" + strings.Join(fs, ", ") + "]", nil
}

func varValue(f *ast.File, name string) ast.Expr {
	for _, d := range f.Decls {
		gd, ok := d.(*ast.GenDecl)
		if !ok || gd.Tok != token.VAR {
			continue
		}
		for _, sp := range gd.Specs {
			vs := sp.(*ast.ValueSpec)
			for i, n := range vs.Names {
				if n.Name == name && i < len(vs.Values) {
					return vs.Values[i]
				}
			}
		}
	}
	return nil
}

func stmtTexts(fset *token.FileSet, fd *ast.FuncDecl) string {
	var lines []string
	for _, st := range fd.Body.List {
		lines = append(lines, ex.LeanStr(nodeText(st)))
	}
	return "[" + strings.Join(lines, ",\n   ") + "]"
}

func nodeText(n ast.Node) string {
	var parts []string
	ast.Inspect(n, func(m ast.Node) bool {
		switch x := m.(type) {
		case *ast.Ident:
			parts = append(parts, x.Name)
		case *ast.BasicLit:
			parts = append(parts, x.Value)
		case *ast.BinaryExpr:
			parts = append(parts, x.Op.String())
		case *ast.UnaryExpr:
			parts = append(parts, "u"+x.Op.String())
		case *ast.AssignStmt:
			parts = append(parts, x.Tok.String())
		case *ast.IncDecStmt:
			parts = append(parts, x.Tok.String())
		case *ast.RangeStmt:
			parts = append(parts, "range")
		case *ast.ForStmt:
			parts = append(parts, "for")
		case *ast.IfStmt:
			parts = append(parts, "if")
		case *ast.BlockStmt:
			parts = append(parts, "{")
		case *ast.ReturnStmt:
			parts = append(parts, "return")
		case *ast.CallExpr:
			parts = append(parts, "call")
		case *ast.IndexExpr:
			parts = append(parts, "index")
		}
		return true
	})
	return strings.Join(parts, " ")
}

func run(repo string) (string, error) {
	dir := filepath.Join(repo, "group", "edwards25519")
	fset, f, err := ex.Parse(filepath.Join(dir, "ge.go"))
	if err != nil {
		return "", err
	}
	_, cf, err := ex.Parse(filepath.Join(dir, "const.go"))
	if err != nil {
		return "", err
	}
	structs := map[string][]string{}
	for _, d := range f.Decls {
		gd, ok := d.(*ast.GenDecl)
		if !ok || gd.Tok != token.TYPE {
			continue
		}
		for _, sp := range gd.Specs {
			ts := sp.(*ast.TypeSpec)
			st, ok := ts.Type.(*ast.StructType)
			if !ok {
				continue
			}
			var fs []string
			for _, fl := range st.Fields.List {
				id, ok := fl.Type.(*ast.Ident)
				if !ok || id.Name != "fieldElement" {
					return "", fmt.Errorf("ge.go: struct %s has a non-fieldElement field", ts.Name.Name)
				}
				for _, n := range fl.Names {
					fs = append(fs, n.Name)
				}
			}
			structs[ts.Name.Name] = fs
		}
	}
	s := ex.Header("Ed25519Ge", "group/edwards25519/ge.go, const.go")
	s += "import DosModel.Model.GeProg\nnamespace Dos.Gen.Ed25519Ge\nopen Dos Dos.FeProg Dos.GeProg\n\n"
	for _, t := range []string{"projectiveGroupElement", "extendedGroupElement", "completedGroupElement", "preComputedGroupElement", "cachedGroupElement"} {
		fs, ok := structs[t]
		if !ok {
			return "", fmt.Errorf("ge.go: type %s not found", t)
		}
		var q []string
		for _, x := range fs {
			q = append(q, ex.LeanStr(x))
		}
		s += fmt.Sprintf("def %s_fields : List String := [%s]\n", short[t], strings.Join(q, ", "))
	}
	s += "\n"
	type m struct{ recv, name string }
	for _, x := range []m{
		{"projectiveGroupElement", "Zero"}, {"projectiveGroupElement", "Double"},
		{"extendedGroupElement", "Zero"}, {"extendedGroupElement", "Neg"}, {"extendedGroupElement", "ToCached"}, {"extendedGroupElement", "ToProjective"},
		{"completedGroupElement", "ToProjective"}, {"completedGroupElement", "ToExtended"},
		{"completedGroupElement", "Add"}, {"completedGroupElement", "Sub"}, {"completedGroupElement", "MixedAdd"}, {"completedGroupElement", "MixedSub"},
		{"preComputedGroupElement", "Zero"}, {"preComputedGroupElement", "CMove"}, {"preComputedGroupElement", "Neg"},
		{"cachedGroupElement", "Zero"}, {"cachedGroupElement", "CMove"}, {"cachedGroupElement", "Neg"},
	} {
		fd := ex.FuncDecl(f, x.recv, x.name)
		if fd == nil {
			return "", fmt.Errorf("ge.go: method %s.%s not found", x.recv, x.name)
		}
		body, err := straight(fset, structs, fd)
		if err != nil {
			return "", err
		}
		s += body
	}
	for _, r := range []string{"projectiveGroupElement", "extendedGroupElement"} {
		fd := ex.FuncDecl(f, r, "ToBytes")
		if fd == nil {
			return "", fmt.Errorf("ge.go: %s.ToBytes not found", r)
		}
		body, err := toBytes(fset, structs, fd)
		if err != nil {
			return "", err
		}
		s += body
	}
	fd := ex.FuncDecl(f, "extendedGroupElement", "FromBytes")
	if fd == nil {
		return "", fmt.Errorf("ge.go: FromBytes not found")
	}
	body, err := fromBytes(fset, structs, fd)
	if err != nil {
		return "", err
	}
	s += body
	// extended.Double: p.ToProjective(&q); q.Double(r)
	fd = ex.FuncDecl(f, "extendedGroupElement", "Double")
	if fd == nil {
		return "", fmt.Errorf("ge.go: extended.Double not found")
	}
	s += fmt.Sprintf("/-- extended.Double, scalar multiplication and table selection: statements as text (hand model: Model/Ed25519Ge.lean) -/\ndef extended_Double_src : List String :=\n  %s\n", stmtTexts(fset, fd))
	for _, fn := range []string{"equal", "negative", "selectPreComputed", "geScalarMultBase", "selectCached", "geScalarMult"} {
		fd := ex.FuncDecl(f, "", fn)
		if fd == nil {
			return "", fmt.Errorf("ge.go: func %s not found", fn)
		}
		s += fmt.Sprintf("def %s_src : List String :=\n  %s\n", fn, stmtTexts(fset, fd))
	}
	s += "\n/-! ### const.go -/\n\n"
	for _, c := range []string{"d", "d2", "sqrtM1"} {
		v := varValue(cf, c)
		if v == nil {
			return "", fmt.Errorf("const.go: %s not found", c)
		}
		l, err := feLit(v)
		if err != nil {
			return "", fmt.Errorf("const.go: %s: %v", c, err)
		}
		s += fmt.Sprintf("def c_%s : L10 := %s\n", c, l)
	}
	v := varValue(cf, "baseext")
	if v == nil {
		return "", fmt.Errorf("const.go: baseext not found")
	}
	l, err := structLit(v)
	if err != nil {
		return "", fmt.Errorf("const.go: baseext: %v", err)
	}
	s += fmt.Sprintf("/-- baseext: X, Y, Z, T -/\ndef c_baseext : List L10 := %s\n", l)
	v = varValue(cf, "bi")
	cl, ok := v.(*ast.CompositeLit)
	if v == nil || !ok {
		return "", fmt.Errorf("const.go: bi not found")
	}
	var rows []string
	for _, el := range cl.Elts {
		r, err := structLit(el)
		if err != nil {
			return "", fmt.Errorf("const.go: bi: %v", err)
		}
		rows = append(rows, r)
	}
	s += fmt.Sprintf("/-- bi: yPlusX, yMinusX, xy2d of 1B, 3B, …, 15B -/\ndef c_bi : List (List L10) :=\n  [%s]\n", strings.Join(rows, ",\n   "))
	for _, c := range []string{"prime", "primeOrder"} {
		v := varValue(cf, c)
		call, ok := v.(*ast.CallExpr)
		if v == nil || !ok || len(call.Args) != 2 {
			return "", fmt.Errorf("const.go: %s", c)
		}
		b, ok := call.Args[0].(*ast.BasicLit)
		if !ok || b.Kind != token.STRING {
			return "", fmt.Errorf("const.go: %s literal", c)
		}
		s += fmt.Sprintf("def c_%s : Nat := %s\n", c, strings.Trim(b.Value, "\""))
	}
	// point.go and the kyber.Scalar wrappers of scalar.go: every statement of every method the model covers, rendered by
	// go/printer (comments dropped, white space collapsed). The hand model (Model/Ed25519Ge.lean pt*, Model/Ed25519Scalar.lean,
	// Drivers/C20.lean) was written against these statements; Props/C20Pins.lean compares them with the text it was written
	// against, so that an edited method body is a broken obligation and not only a differential disagreement.
	wr, err := wrapperPins(dir)
	if err != nil {
		return "", err
	}
	s += wr
	s += "\nend Dos.Gen.Ed25519Ge\n"
	return s, nil
}

// PointMethods / ScalarMethods: the methods pinned as text
var PointMethods = []string{"MarshalSize", "MarshalBinary", "UnmarshalBinary", "Equal", "Set", "Clone", "Null", "Base", "Add", "Sub", "Neg", "Mul"}
var ScalarMethods = []string{"Equal", "Set", "Clone", "setInt", "SetInt64", "toInt", "Zero", "One", "Add", "Sub", "Neg", "Mul", "Div", "Inv", "Pick", "SetBytes", "MarshalSize", "MarshalBinary", "UnmarshalBinary", "MarshalTo", "UnmarshalFrom"}

// PointPinOnly: pinned as text, not translated (they only forward to group/internal/marshalling)
var PointPinOnly = []string{"MarshalTo", "UnmarshalFrom"}

// MarshallingFuncs: group/internal/marshalling, pinned as text
var MarshallingFuncs = []string{"PointMarshalTo", "PointUnmarshalFrom", "ScalarMarshalTo", "ScalarUnmarshalFrom"}

func printed(fset *token.FileSet, n ast.Node) string {
	var b bytes.Buffer
	printer.Fprint(&b, fset, n)
	return strings.Join(strings.Fields(b.String()), " ")
}

func wrapperPins(dir string) (string, error) {
	s := "\n/-! ### point.go, scalar.go (kyber wrappers): statements as printed source text -/\n\n"
	for _, src := range []struct {
		file, recv, prefix string
		methods            []string
	}{{"point.go", "point", "point", append(append([]string{}, PointMethods...), PointPinOnly...)}, {"scalar.go", "scalar", "scalar", ScalarMethods}} {
		fset := token.NewFileSet()
		f, err := parser.ParseFile(fset, filepath.Join(dir, src.file), nil, 0) // comments dropped
		if err != nil {
			return "", err
		}
		for _, m := range src.methods {
			fd := ex.FuncDecl(f, src.recv, m)
			if fd == nil || fd.Body == nil {
				return "", fmt.Errorf("%s: method %s.%s not found", src.file, src.recv, m)
			}
			lines := []string{ex.LeanStr(printed(fset, fd.Type))}
			for _, st := range fd.Body.List {
				lines = append(lines, ex.LeanStr(printed(fset, st)))
			}
			s += fmt.Sprintf("/-- %s.%s of %s: signature, then one string per top-level statement -/\ndef %s_%s_src : List String :=\n  [%s]\n", src.recv, m, src.file, src.prefix, m, strings.Join(lines, ",\n   "))
		}
		// the struct itself
		for _, d := range f.Decls {
			gd, ok := d.(*ast.GenDecl)
			if !ok || gd.Tok != token.TYPE {
				continue
			}
			for _, sp := range gd.Specs {
				ts := sp.(*ast.TypeSpec)
				if ts.Name.Name == src.recv {
					s += fmt.Sprintf("def %s_type_src : String := %s\n", src.prefix, ex.LeanStr(printed(fset, ts)))
				}
			}
		}
	}
	{
		fset := token.NewFileSet()
		f, err := parser.ParseFile(fset, filepath.Join(dir, "..", "internal", "marshalling", "marshal.go"), nil, 0)
		if err != nil {
			return "", err
		}
		for _, m := range MarshallingFuncs {
			fd := ex.FuncDecl(f, "", m)
			if fd == nil || fd.Body == nil {
				return "", fmt.Errorf("marshalling: func %s not found", m)
			}
			lines := []string{ex.LeanStr(printed(fset, fd.Type))}
			for _, st := range fd.Body.List {
				lines = append(lines, ex.LeanStr(printed(fset, st)))
			}
			s += fmt.Sprintf("/-- marshalling.%s -/\ndef marshalling_%s_src : List String :=\n  [%s]\n", m, m, strings.Join(lines, ",\n   "))
		}
	}
	return s, nil
}

func runTable(repo string) (string, error) {
	dir := filepath.Join(repo, "group", "edwards25519")
	_, cf, err := ex.Parse(filepath.Join(dir, "const.go"))
	if err != nil {
		return "", err
	}
	v := varValue(cf, "base")
	cl, ok := v.(*ast.CompositeLit)
	if v == nil || !ok {
		return "", fmt.Errorf("const.go: base not found")
	}
	s := ex.Header("Ed25519GeTable", "group/edwards25519/const.go")
	s += "import DosModel.Model.FeProg\nnamespace Dos.Gen.Ed25519GeTable\nopen Dos Dos.FeProg\n\n"
	s += "set_option maxRecDepth 100000\n\n"
	var names []string
	for i, row := range cl.Elts {
		rcl, ok := row.(*ast.CompositeLit)
		if !ok {
			return "", fmt.Errorf("const.go: base row")
		}
		var es []string
		for _, el := range rcl.Elts {
			r, err := structLit(el)
			if err != nil {
				return "", fmt.Errorf("const.go: base: %v", err)
			}
			es = append(es, r)
		}
		n := fmt.Sprintf("c_base_%d", i)
		names = append(names, n)
		s += fmt.Sprintf("def %s : List (List L10) :=\n  [%s]\n", n, strings.Join(es, ",\n   "))
	}
	s += fmt.Sprintf("/-- base[i][j] = (j+1)·256^i·B as (yPlusX, yMinusX, xy2d) -/\ndef c_base : List (List (List L10)) :=\n  [%s]\n", strings.Join(names, ", "))
	s += "\nend Dos.Gen.Ed25519GeTable\n"
	return s, nil
}

/-
C14 fairness, part 1: elementary facts about `InfOften` / `Eventually`, and about runs:
every state of a run is reachable, flags and control states evolve monotonically, a goroutine's
position changes only by its own moves, what a move of a goroutine looks like.
-/
import DosModel.Proofs.PipeLive4

namespace Dos.Pipe

/-! ### temporal bookkeeping -/

theorem not_infOften {P : Nat → Prop} (h : ¬ InfOften P) : Eventually (fun i => ¬ P i) := by
  unfold InfOften at h
  obtain ⟨T, hT⟩ := Classical.not_forall.mp h
  exact ⟨T, fun i hi hp => hT ⟨i, hi, hp⟩⟩

theorem not_eventually {P : Nat → Prop} (h : ¬ Eventually P) : InfOften (fun i => ¬ P i) := by
  intro T
  apply Classical.byContradiction
  intro hn
  apply h
  refine ⟨T, fun i hi => ?_⟩
  apply Classical.byContradiction
  intro hp
  exact hn ⟨i, hi, hp⟩

theorem InfOften.mono {P Q : Nat → Prop} (h : InfOften P) (hpq : ∀ i, P i → Q i) : InfOften Q := by
  intro T
  obtain ⟨i, hi, hp⟩ := h T
  exact ⟨i, hi, hpq i hp⟩

/-- infinitely often `P`, and `Q` from some position on: infinitely often both -/
theorem InfOften.and_eventually {P Q : Nat → Prop} (h : InfOften P) (hq : Eventually Q) :
    InfOften (fun i => P i ∧ Q i) := by
  obtain ⟨T0, hT0⟩ := hq
  intro T
  obtain ⟨i, hi, hp⟩ := h (max T T0)
  exact ⟨i, by omega, hp, hT0 i (by omega)⟩

theorem Eventually.and {P Q : Nat → Prop} (hp : Eventually P) (hq : Eventually Q) :
    Eventually (fun i => P i ∧ Q i) := by
  obtain ⟨T1, h1⟩ := hp
  obtain ⟨T2, h2⟩ := hq
  exact ⟨max T1 T2, fun i hi => ⟨h1 i (by omega), h2 i (by omega)⟩⟩

theorem Eventually.mono {P Q : Nat → Prop} (h : Eventually P) (hpq : ∀ i, P i → Q i) : Eventually Q := by
  obtain ⟨T, hT⟩ := h
  exact ⟨T, fun i hi => hpq i (hT i hi)⟩

/-- finitely many "eventually always" facts hold together from some position on -/
theorem eventually_all_lt {P : Nat → Nat → Prop} (n : Nat) (h : ∀ g, g < n → Eventually (P g)) :
    Eventually (fun i => ∀ g, g < n → P g i) := by
  induction n with
  | zero => exact ⟨0, fun i _ g hg => absurd hg (Nat.not_lt_zero g)⟩
  | succ n ih =>
    obtain ⟨T1, h1⟩ := ih (fun g hg => h g (by omega))
    obtain ⟨T2, h2⟩ := h n (by omega)
    refine ⟨max T1 T2, fun i hi g hg => ?_⟩
    by_cases hgn : g = n
    · subst hgn; exact h2 i (by omega)
    · exact h1 i (by omega) g (by omega)

/-- pigeonhole: infinitely often one of finitely many things happens ⇒ one of them happens
    infinitely often -/
theorem infOften_pigeon {Q : Nat → Nat → Prop} (n : Nat)
    (h : InfOften (fun i => ∃ k, k < n ∧ Q k i)) : ∃ k, k < n ∧ InfOften (Q k) := by
  apply Classical.byContradiction
  intro hno
  have hev : ∀ k, k < n → Eventually (fun i => ¬ Q k i) := by
    intro k hk
    apply not_infOften
    intro hq
    exact hno ⟨k, hk, hq⟩
  obtain ⟨T, hT⟩ := eventually_all_lt n hev
  obtain ⟨i, hi, k, hk, hq⟩ := h T
  exact hT i hi k hk hq

/-- a sequence of naturals that does not increase from `T` on cannot decrease infinitely often -/
theorem no_infinite_descent (f : Nat → Nat) (T : Nat) (hmono : ∀ i, T ≤ i → f (i + 1) ≤ f i)
    (hdec : InfOften (fun i => f (i + 1) < f i)) : False := by
  have hle : ∀ T', T ≤ T' → ∀ d, f (T' + d) ≤ f T' := by
    intro T' hT' d
    induction d with
    | zero => exact Nat.le_refl _
    | succ d ih =>
      have := hmono (T' + d) (by omega)
      have e : T' + (d + 1) = T' + d + 1 := by omega
      rw [e]; omega
  have main : ∀ n T', T ≤ T' → f T' = n → False := by
    intro n
    induction n using Nat.strongRecOn with
    | _ n ih =>
      intro T' hT' hf
      obtain ⟨i, hi, hlt⟩ := hdec T'
      have h1 := hle T' hT' (i - T')
      have e : T' + (i - T') = i := by omega
      rw [e] at h1
      exact ih (f (i + 1)) (by omega) (i + 1) (by omega) rfl
  exact main (f T) T (Nat.le_refl _) rfl

/-! ### runs -/

namespace Run
variable {p : Pipeline}

theorem step_cases (r : Run p) (i : Nat) :
    (∃ e, r.ev i = some e ∧ Step p (r.st i) e (.run (r.st (i + 1)))) ∨
    (r.ev i = none ∧ r.st (i + 1) = r.st i) := by
  have h := r.step i
  cases he : r.ev i with
  | none => rw [he] at h; exact Or.inr ⟨rfl, h⟩
  | some e => rw [he] at h; exact Or.inl ⟨e, rfl, h⟩

theorem reach (r : Run p) : ∀ i, Reach p (r.st i) := by
  intro i
  induction i with
  | zero => rw [r.start]; exact Reach.init
  | succ i ih =>
    rcases r.step_cases i with ⟨e, _, hst⟩ | ⟨_, heq⟩
    · exact Reach.step ih hst
    · rw [heq]; exact ih

/-- a property of states preserved by every step holds for ever once it holds -/
theorem stable (r : Run p) (I : State → Prop)
    (hs : ∀ s e s', Reach p s → I s → Step p s e (.run s') → I s') {i : Nat} (hi : I (r.st i)) :
    ∀ j, i ≤ j → I (r.st j) := by
  intro j hij
  obtain ⟨d, rfl⟩ := Nat.exists_eq_add_of_le hij
  induction d with
  | zero => exact hi
  | succ d ih =>
    have ih := ih (by omega)
    rcases r.step_cases (i + d) with ⟨e, _, hst⟩ | ⟨_, heq⟩
    · exact hs _ _ _ (r.reach _) ih hst
    · have e : i + (d + 1) = i + d + 1 := by omega
      rw [e, heq]; exact ih

theorem ctxDone_stable (r : Run p) {k i : Nat} (h : (r.st i).ctxDone k = true) :
    ∀ j, i ≤ j → (r.st j).ctxDone k = true :=
  r.stable (fun s => s.ctxDone k = true) (fun _ _ _ _ hI hst => ctxDone_mono hst k hI) h

theorem closed_stable (r : Run p) {c : Ch} {i : Nat} (h : (r.st i).closed c = true) :
    ∀ j, i ≤ j → (r.st j).closed c = true :=
  r.stable (fun s => s.closed c = true) (fun _ _ _ _ hI hst => closed_mono hst hI) h

end Run

/-! ### control states along a step -/

theorem done_step {p : Pipeline} {s s' : State} {e : Ev} (hst : Step p s e (.run s')) {g : Gi}
    (h : s.gs[g]? = some .done) : s'.gs[g]? = some .done := by
  rcases pos_step hst g with hsame | ⟨pc, _, _, _, hat, _⟩ | ⟨hi, _⟩ | ⟨pc, hat, _⟩
  · rw [hsame]; exact h
  · rw [h] at hat; cases hat
  · rw [h] at hi; cases hi
  · rw [h] at hat; cases hat

theorem at_step {p : Pipeline} {s s' : State} {e : Ev} (hst : Step p s e (.run s')) {g : Gi} {pc : Pc}
    (h : s.gs[g]? = some (.at pc)) : (∃ pc', s'.gs[g]? = some (.at pc')) ∨ s'.gs[g]? = some .done := by
  rcases pos_step hst g with hsame | ⟨_, _, _, n, _, _, _, hat2, _⟩ | ⟨hi, _⟩ | ⟨_, _, _, hd⟩
  · rw [hsame]; exact Or.inl ⟨pc, h⟩
  · exact Or.inl ⟨n, hat2⟩
  · rw [h] at hi; cases hi
  · exact Or.inr hd

/-- a step in which `g` does not take part leaves `g` where it stands -/
theorem nomove_at {p : Pipeline} {s s' : State} {e : Ev} (hst : Step p s e (.run s')) {g : Gi} {pc : Pc}
    (h : s.gs[g]? = some (.at pc)) (hm : e.moves g = false) : s'.gs[g]? = some (.at pc) := by
  cases hst with
  | env k hk hd => exact h
  | act g' pc' nd l n hat hnd hed hgd hdf =>
    have hne : g' ≠ g := by
      intro heq; subst heq; simp [Ev.moves] at hm
    rw [State.setG_get_ne hne, effect_gs_get]
    split
    · rename_i hc; rw [h] at hc; cases hc.2
    · exact h
  | sync g1 pc1 nd1 n1 g2 pc2 nd2 n2 c hne hat1 hnd1 hed1 hat2 hnd2 hed2 hcap hcl =>
    simp only [Ev.moves, Bool.or_eq_false_iff, beq_eq_false_iff_ne, ne_eq] at hm
    rw [State.setG_get_ne hm.2, State.setG_get_ne hm.1]; exact h
  | exit g' pc' hat hnd =>
    have hne : g' ≠ g := by
      intro heq; subst heq; simp [Ev.moves] at hm
    rw [State.setG_get_ne hne]; exact h

/-- what a move of `g` from `pc` is -/
theorem move_cases {p : Pipeline} {s s' : State} {e : Ev} (hst : Step p s e (.run s')) {g : Gi} {pc : Pc}
    (hat : s.gs[g]? = some (.at pc)) (hm : e.moves g = true) :
    ∃ nd, p.node g pc = some nd ∧
      ((∃ l n, (l, n) ∈ nd.edges ∧ e = .act g l ∧ guard p s l = true ∧ s' = moved s g l n ∧
          s'.gs[g]? = some (.at n)) ∨
       (∃ c n g', (Lab.send c, n) ∈ nd.edges ∧ e = .sync g g' c ∧ s.closed c = false ∧
          s'.gs[g]? = some (.at n)) ∨
       (∃ c n g', (Lab.recvOk c, n) ∈ nd.edges ∧ e = .sync g' g c ∧ s.closed c = false ∧
          s'.gs[g]? = some (.at n)) ∨
       (nd = .exit ∧ e = .exit g ∧ s'.gs[g]? = some .done)) := by
  cases hst with
  | env k hk hd => simp [Ev.moves] at hm
  | act g' pc' nd l n hat' hnd hed hgd hdf =>
    have heq : g' = g := by simpa [Ev.moves] using hm
    subst heq
    rw [hat] at hat'; cases hat'
    refine ⟨nd, hnd, Or.inl ⟨l, n, hed, rfl, hgd, rfl, ?_⟩⟩
    rw [State.setG_get, if_pos rfl, effect_gs_length, if_pos (List.getElem?_eq_some_iff.mp hat).1]
  | sync g1 pc1 nd1 n1 g2 pc2 nd2 n2 c hne hat1 hnd1 hed1 hat2 hnd2 hed2 hcap hcl =>
    by_cases h2 : g2 = g
    · subst h2
      rw [hat] at hat2; cases hat2
      refine ⟨nd2, hnd2, Or.inr (Or.inr (Or.inl ⟨c, n2, g1, hed2, rfl, hcl, ?_⟩))⟩
      apply State.setG_get_self (y := GSt.at pc)
      rw [State.setG_get_ne hne]; exact hat
    · have h1 : g1 = g := by
        simp only [Ev.moves, Bool.or_eq_true, beq_iff_eq] at hm
        rcases hm with hm | hm
        · exact hm
        · exact absurd hm h2
      subst h1
      rw [hat] at hat1; cases hat1
      refine ⟨nd1, hnd1, Or.inr (Or.inl ⟨c, n1, g2, hed1, rfl, hcl, ?_⟩)⟩
      rw [State.setG_get_ne h2]
      exact State.setG_get_self hat
  | exit g' pc' hat' hnd =>
    have heq : g' = g := by simpa [Ev.moves] using hm
    subst heq
    rw [hat] at hat'; cases hat'
    exact ⟨.exit, hnd, Or.inr (Or.inr (Or.inr ⟨rfl, rfl, State.setG_get_self hat⟩))⟩

/-! ### a closed channel only drains -/

theorem len_closed_step {p : Pipeline} {s s' : State} {e : Ev} (hst : Step p s e (.run s')) {c : Ch}
    (hcl : s.closed c = true) :
    s'.len c ≤ s.len c ∧ (∀ g, e = .act g (.recvOk c) → s'.len c < s.len c) := by
  cases hst with
  | env k hk hd => exact ⟨Nat.le_refl _, fun g h => by cases h⟩
  | act g' pc' nd l n hat hnd hed hgd hdf =>
    simp only [State.setG_len]
    rw [effect_len]
    constructor
    · split
      · omega
      · split
        · rename_i h; rw [h.1] at hgd; simp [guard, hcl] at hgd
        · exact Nat.le_refl _
    · intro g h
      simp only [Ev.act.injEq] at h
      obtain ⟨_, hl⟩ := h
      subst hl
      have hpos : 0 < s.len c := by simpa [guard] using hgd
      have hin : c < s.chs.length := by
        unfold State.len at hpos
        cases hh : s.chs[c]? with
        | none => simp [hh] at hpos
        | some y => exact (List.getElem?_eq_some_iff.mp hh).1
      rw [if_pos ⟨rfl, hin⟩]; omega
  | sync g1 pc1 nd1 n1 g2 pc2 nd2 n2 c' hne hat1 hnd1 hed1 hat2 hnd2 hed2 hcap hcl' =>
    exact ⟨Nat.le_refl _, fun g h => by cases h⟩
  | exit g' pc' hat hnd => exact ⟨Nat.le_refl _, fun g h => by cases h⟩

/-! ### positions along a run -/

namespace Run
variable {p : Pipeline}

theorem done_stable (r : Run p) {g : Gi} {i : Nat} (h : (r.st i).gs[g]? = some .done) :
    ∀ j, i ≤ j → (r.st j).gs[g]? = some .done :=
  r.stable (fun s => s.gs[g]? = some .done) (fun _ _ _ _ hI hst => done_step hst hI) h

/-- once started a goroutine is running or has returned, for ever -/
theorem at_stable (r : Run p) {g : Gi} {i : Nat} {pc : Pc} (h : (r.st i).gs[g]? = some (.at pc)) :
    ∀ j, i ≤ j → (∃ pc', (r.st j).gs[g]? = some (.at pc')) ∨ (r.st j).gs[g]? = some .done := by
  apply r.stable (fun s => (∃ pc', s.gs[g]? = some (.at pc')) ∨ s.gs[g]? = some .done)
  · intro s e s' _ hI hst
    rcases hI with ⟨pc', hI⟩ | hI
    · exact at_step hst hI
    · exact Or.inr (done_step hst hI)
  · exact Or.inl ⟨pc, h⟩

/-- a goroutine that does not move stays where it is -/
theorem stay (r : Run p) {g : Gi} {pc : Pc} {i : Nat} (h : (r.st i).gs[g]? = some (.at pc))
    (hm : ¬ r.movesAt g i) : (r.st (i + 1)).gs[g]? = some (.at pc) := by
  rcases r.step_cases i with ⟨e, he, hst⟩ | ⟨_, heq⟩
  · apply nomove_at hst h
    cases hmv : e.moves g with
    | false => rfl
    | true => exact absurd ⟨e, he, hmv⟩ hm
  · rw [heq]; exact h

/-- the position of `g` at its next move after `i` is its position at `i` -/
theorem next_move (r : Run p) {g : Gi} {pc : Pc} {i : Nat} (h : (r.st i).gs[g]? = some (.at pc))
    {j : Nat} (hij : i ≤ j) (hmj : r.movesAt g j) :
    ∃ j', i ≤ j' ∧ j' ≤ j ∧ r.movesFrom g pc j' := by
  obtain ⟨d, rfl⟩ := Nat.exists_eq_add_of_le hij
  induction d generalizing i pc with
  | zero => exact ⟨i, Nat.le_refl _, Nat.le_refl _, h, hmj⟩
  | succ d ih =>
    by_cases hmi : r.movesAt g i
    · exact ⟨i, Nat.le_refl _, by omega, h, hmi⟩
    · have h' := r.stay h hmi
      have e : i + (d + 1) = (i + 1) + d := by omega
      rw [e] at hmj
      obtain ⟨j', h1, h2, h3⟩ := ih h' (by omega) hmj
      exact ⟨j', by omega, by omega, h3⟩

end Run

end Dos.Pipe

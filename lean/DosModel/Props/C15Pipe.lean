/-
C15, round 5 — the callers of `writeTo` / `readFrom`, every `Write` of the transport scripted, the
width of `int`, and who writes a connection. Property theorems only; lemmas in `Proofs/FramingPipe.lean`.
-/
import DosModel.Proofs.FramingPipe
import DosModel.Gen.P2PConsts
import DosModel.Gen.P2PFraming

namespace Dos.Props.C15Pipe
open Dos Dos.Framing Dos.Props.C15

/-- regenerated fact: the COMPLETE bodies of `client.readPipe` / `client.sendPipe` (go/printer, like
`c15_code_shape`). What `Model/FramingPipe.lean` transcribes: `readPipe` reports a failed `readFrom`
and RETURNS (the connection is not read again, whatever the error: EOF, reset, bad size);
`sendPipe` reports a failed `writeTo` and goes on with the next payload. -/
theorem c15_pipe_shape :
    Gen.P2PFraming.readPipe = [
      "sig func() (out chan []byte)",
      "0 out = make(chan []byte, 10)",
      "1 go func() { defer close(out) for { var buffer []byte var err error select { case <-c.ctx.Done(): return default: buffer, err = readFrom(c.conn) if err != nil { c.reportError(errors.Errorf(\"readPipe: %w\", err)) return } } select { case <-c.ctx.Done(): case out <- buffer: } } }()",
      "2 return out"] ∧
    Gen.P2PFraming.sendPipe = [
      "sig func(bytesC chan []byte)",
      "0 go func() { for { select { case <-c.ctx.Done(): return case bytes, ok := <-bytesC: if ok { err := writeTo(bytes, c.conn) if err != nil { c.reportError(errors.Errorf(\"client sendPipe: %w\", err)) } } } } }()",
      "1 return"] :=
  ⟨rfl, rfl⟩

/-- regenerated fact: who reads and who writes a connection. Every call site in package p2p of
`readFrom`, `writeTo`, the two pipes, `run`, `runClient`, the handshake and the deadline setters
("file:function:callee", `go:` = inside a goroutine literal or a `go` statement).
`writeTo` has two callers: `sendID` (the handshake; `handShake` is drained by `Listen` /
`handleCallReq` before the client is handed on) and the ONE goroutine of `sendPipe`, started by `run`,
which only `runClient` calls, once per client: one writer per connection at a time
(`two_writers_bleed_witness` shows what a second one would do). `readFrom`: `receiveID`, then the one
goroutine of `readPipe`. The only deadlines are the two `SetDeadline` calls of `handleCallReq` around
the handshake (set, then cleared before `run`): while the pipes run no `Write` can time out and later
succeed — the transport assumption of `pipe_no_bleed`. A new caller or a new deadline breaks this. -/
theorem c15_single_writer_shape :
    Gen.P2PFraming.callSites = [
      "client.go:handShake:receiveID",
      "client.go:handShake:sendID",
      "client.go:readPipe:go:readFrom",
      "client.go:receiveID:go:readFrom",
      "client.go:run:readPipe",
      "client.go:run:sendPipe",
      "client.go:sendID:go:writeTo",
      "client.go:sendPipe:go:writeTo",
      "server.go:Listen:go:handShake",
      "server.go:callHandler:go:runClient",
      "server.go:handleCallReq:SetDeadline",
      "server.go:handleCallReq:SetDeadline",
      "server.go:handleCallReq:handShake",
      "server.go:receiveHandler:go:runClient",
      "server.go:runClient:run"] :=
  rfl

/-- **9a. every `Write` scripted: short writes with a nil error and zero-byte writes.**  Whatever each
`Write` of the transport accepts — fewer bytes than offered with a nil error (outside the `io.Writer`
contract), nothing at all (`0, nil`), in any pattern `as` — as long as none returns an error the loop
of `writeTo` ends without an error and has handed the transport exactly header ++ payload. -/
theorem write_any_script (L : Nat) (p : Bytes) (hpL : p.length ≤ L) (as : List WAct)
    (hacc : ∀ a ∈ as, ∃ k, a = WAct.acc k) :
    ∃ w, writeFrameX L p as = some w ∧ w.err = false ∧ w.pieces.flatten = natBE 4 p.length ++ p := by
  refine ⟨writeLoopX (natBE 4 p.length ++ p) as, by simp [writeFrameX, (write_limit L p).2 hpL], ?_, ?_⟩
  · exact writeLoopX_noerr as _ hacc
  · obtain ⟨t, h1, h2⟩ := writeLoopX_prefix as (natBE 4 p.length ++ p)
    have := h2 (writeLoopX_noerr as _ hacc); subst this; simpa using h1
example : writeFrameX 1048576 [7, 9] [.acc 0, .acc 3, .acc 0, .acc 0, .acc 1] =
    some ⟨[[], [0, 0, 0], [], [], [2], [7, 9]], false, []⟩ := rfl

/-- **9b. a failing `Write` at any position.**  For every script: `writeTo` returns an error exactly when
a `Write` it issued failed; what the transport has accepted by then is a PREFIX of header ++ payload
(the bytes of the failing `Write` included, nothing after it), and the whole of it when no `Write`
failed. An oversize payload is refused before any `Write`. -/
theorem write_error_prefix (L : Nat) (p : Bytes) (as : List WAct) :
    (p.length > L → writeFrameX L p as = none) ∧
    (p.length ≤ L → ∃ w t, writeFrameX L p as = some w ∧ w.pieces.flatten ++ t = natBE 4 p.length ++ p ∧
      (w.err = false → t = []) ∧ (w.err = true → ∃ k, WAct.fail k ∈ as)) := by
  constructor
  · intro h; simp [writeFrameX, (write_limit L p).1 h]
  · intro h
    obtain ⟨t, h1, h2⟩ := writeLoopX_prefix as (natBE 4 p.length ++ p)
    exact ⟨_, t, by simp [writeFrameX, (write_limit L p).2 h], h1, h2, writeLoopX_err_has_fail as _⟩
example : writeFrameX 1048576 [7, 9] [.acc 1, .acc 0, .fail 2, .acc 9] =
    some ⟨[[0], [], [0, 0]], true, [.acc 9]⟩ := rfl

/-- **10. no bleed at the pipe level.**  `sendPipe` writes the payloads `ps` (each 1..L bytes) one after
the other on a connection whose `Write`s follow ANY script `as` and whose first failure is final (TCP
without a write deadline: `c15_single_writer_shape`); the transport re-cuts what it accepted into ANY
read chunking `cs` and then ends; `readPipe` on the other end delivers exactly a prefix `qs` of `ps`,
each payload unchanged and in order, followed by ONE error, and nothing else. `qs` contains every
frame whose `writeTo` succeeded before the first failing one, and at most one frame more (the one
whose failing `Write` had taken its last byte). -/
theorem pipe_no_bleed (L : Nat) (hL : L < 2 ^ 32) (ps : List Bytes)
    (hps : ∀ p ∈ ps, 1 ≤ p.length ∧ p.length ≤ L) (as : List WAct) (cs : List Bytes)
    (hcs : cs.flatten = (sendPipe L true false ps as).1.flatten) :
    ∃ qs e, (readPipe L cs).1 = qs.map .ok ++ [.error e] ∧ qs <+: ps ∧
      okCount (sendPipe L true false ps as).2 ≤ qs.length ∧
      qs.length ≤ okCount (sendPipe L true false ps as).2 + 1 := by
  obtain ⟨qs, pre, hq, hw, htr, h1, h2⟩ := sendPipe_wire_shape L ps as hps
  have hv : ∀ p ∈ qs, 1 ≤ p.length ∧ p.length ≤ L := fun p hp => hps p (hq.subset hp)
  have hlen : qs.length < cs.flatten.length + 1 := by
    have := wire_length_ge qs pre; rw [hcs, hw]; omega
  obtain ⟨e, he⟩ := readFrames_frames_then_trunc L hL qs pre hv htr _ cs hlen (by rw [hcs, hw])
  exact ⟨qs, e, he, hq, h1, h2⟩
example : sendPipe 1048576 true false [[7, 9], [5], [6]] [.acc 4, .acc 2, .acc 3, .fail 1] =
      ([[0, 0, 0, 2], [7, 9], [0, 0, 0], [1]], [false, true, true]) ∧
    (readPipe 1048576 [[0, 0, 0, 2, 7], [9, 0, 0], [0, 1]]).1 = [.ok [7, 9], .error .body] := ⟨rfl, rfl⟩

/-- **10b. all frames written without an error arrive, whole and in order** (the case of 10 in which no
`Write` fails: short and zero-byte writes in any pattern, any read chunking). -/
theorem pipe_all_delivered (L : Nat) (hL : L < 2 ^ 32) (ps : List Bytes)
    (hps : ∀ p ∈ ps, 1 ≤ p.length ∧ p.length ≤ L) (as : List WAct) (cs : List Bytes)
    (hcs : cs.flatten = (sendPipe L true false ps as).1.flatten)
    (hok : okCount (sendPipe L true false ps as).2 = ps.length) :
    (readPipe L cs).1 = ps.map .ok ++ [.error .header] := by
  have hw := sendPipe_all_ok L ps as hps hok
  have hlen : ps.length < cs.flatten.length + 1 := by
    have := wire_length_ge ps []; rw [hcs, hw]; omega
  exact readFrames_frames_then_end L hL ps hps _ cs hlen (by rw [hcs, hw])
example : okCount (sendPipe 1048576 true false [[7, 9], [5]] [.acc 0, .acc 5, .acc 0]).2 = 2 := rfl

/-- **10c. (the code as it is) why the transport assumption is needed.**  `sendPipe` goes on writing after
a failed `writeTo`. On a transport whose failed `Write` is NOT final (a write deadline would do that;
the code sets none while the pipes run) the next frame follows the torn one and the reader, still
inside the torn frame, delivers a payload that nobody sent: here `[7, 0]` for `[7, 9]`, `[5]`.
Replayed on the real `sendPipe` / `readPipe` at every run (case `pipe 0 0709;05 e5 -`). -/
theorem transient_write_error_bleeds :
    sendPipe 1048576 false false [[7, 9], [5]] [.fail 5] =
      ([[0, 0, 0, 2, 7], [0, 0, 0, 1, 5]], [true, false]) ∧
    (readPipe 1048576 [[0, 0, 0, 2, 7], [0, 0, 0, 1, 5]]).1 = [.ok [7, 0], .error .body] ∧
    -- the same script on a transport whose failure is final: nothing after the torn frame, an error
    sendPipe 1048576 true false [[7, 9], [5]] [.fail 5] = ([[0, 0, 0, 2, 7]], [true, true]) ∧
    (readPipe 1048576 [[0, 0, 0, 2, 7]]).1 = [.error .body] :=
  ⟨rfl, rfl, rfl, rfl⟩

/-- **11. the width of `int`.**  `size` is a `uint32`; the check is an unsigned comparison; the content
loop compares against `int(size)`. For every `int` of at least 32 bits (GOARCH=386 and amd64 alike) and
every limit below 2^31 the conversion is exact and `readFrom` with the code's integer types
(`readFrameW`) IS `readFrame`, for every stream and chunking: all theorems about `readFrame` hold on
both platforms. -/
theorem int_width_irrelevant (w : Nat) (hw : w = 32 ∨ w = 64) (L : Nat) (hL : L < 2 ^ 31)
    (cs : List Bytes) : readFrameW w L cs = readFrame L cs :=
  readFrameW_eq w (by omega) L hL cs
example : (readFrameW 32 1048576 [[0, 0], [0, 2, 7], [9, 5], [6]]).out = .ok [7, 9] ∧
    (readFrameW 64 1048576 [[0, 0], [0, 2, 7], [9, 5], [6]]).rest = [[5], [6]] := ⟨rfl, rfl⟩

/-- the code's limit is below 2^31, so 11 applies to it (regenerated constant) -/
theorem int_width_at_code_limit (cs : List Bytes) :
    readFrameW 32 Gen.msgSizeLimit cs = readFrame Gen.msgSizeLimit cs ∧
    readFrameW 64 Gen.msgSizeLimit cs = readFrame Gen.msgSizeLimit cs := by
  have h : Gen.msgSizeLimit < 2 ^ 31 := by decide
  exact ⟨readFrameW_eq 32 (by omega) _ h cs, readFrameW_eq 64 (by omega) _ h cs⟩

/-- **11b. what the size check protects on a 32-bit `int`**: from 2^31 on, `int(size)` is negative
(the content loop would not run and the zero-filled buffer would come back as the payload); below it
the conversion is exact. The check `size > msgSizeLimit` comes first (`c15_code_shape`, statement 5). -/
theorem int32_wraps_from_2_31 :
    intOfU32 32 (BitVec.ofNat 32 (2 ^ 31)) < 0 ∧ intOfU32 64 (BitVec.ofNat 32 (2 ^ 31)) = 2 ^ 31 ∧
    (∀ x : BitVec 32, x.toNat < 2 ^ 31 → intOfU32 32 x = x.toNat ∧ intOfU32 64 x = x.toNat) :=
  ⟨by decide, by decide, fun x hx => ⟨intOfU32_exact 32 (by omega) x hx, intOfU32_exact 64 (by omega) x hx⟩⟩

/-- the writer's `uint32(size)` does not wrap: `size ≤ L < 2^32` -/
theorem write_header_no_wrap (L : Nat) (hL : L < 2 ^ 32) (p : Bytes) (hpL : p.length ≤ L) :
    (BitVec.ofNat 32 p.length).toNat = p.length ∧ beNat (natBE 4 p.length) = p.length := by
  refine ⟨?_, beNat_natBE4 _ (by omega)⟩
  rw [BitVec.toNat_ofNat]; exact Nat.mod_eq_of_lt (by omega)
example : (BitVec.ofNat 32 1048576).toNat = 1048576 := by decide

/-- **12a. two writers, whole frames.**  If each of two goroutines hands its frame to the transport in ONE
`Write` (what `writeTo` does on a transport that takes everything: header and payload are one buffer,
`c15_code_shape` writeTo 5–6), then in whatever order the transport takes the two `Write`s the reader
gets both payloads, whole, in that order. -/
theorem two_writers_whole_frames (L : Nat) (hL : L < 2 ^ 32) (pa pb : Bytes)
    (ha : 1 ≤ pa.length ∧ pa.length ≤ L) (hb : 1 ≤ pb.length ∧ pb.length ≤ L) (sch : List Bool)
    (wa wb : WLoop) (hwa : writeFrameX L pa [] = some wa) (hwb : writeFrameX L pb [] = some wb)
    (cs : List Bytes) (hcs : cs.flatten = (mergeWrites sch wa.pieces wb.pieces).flatten) :
    (readFrames L 2 cs).1 = [.ok pa, .ok pb] ∨ (readFrames L 2 cs).1 = [.ok pb, .ok pa] := by
  have hfa : writeFrame L pa = some (natBE 4 pa.length ++ pa) := (write_limit L pa).2 ha.2
  have hfb : writeFrame L pb = some (natBE 4 pb.length ++ pb) := (write_limit L pb).2 hb.2
  have hna : (natBE 4 pa.length ++ pa).isEmpty = false := by
    cases h : natBE 4 pa.length ++ pa with
    | nil => have := congrArg List.length h; simp [natBE_length] at this
    | cons _ _ => rfl
  have hnb : (natBE 4 pb.length ++ pb).isEmpty = false := by
    cases h : natBE 4 pb.length ++ pb with
    | nil => have := congrArg List.length h; simp [natBE_length] at this
    | cons _ _ => rfl
  simp only [writeFrameX, hfa, hfb, writeLoopX, hna, hnb, Bool.false_eq_true, if_false,
    Option.some.injEq] at hwa hwb
  subst hwa; subst hwb
  rcases mergeWrites_single sch (natBE 4 pa.length ++ pa) (natBE 4 pb.length ++ pb) with h | h
  · left
    have := frames_sequence L hL [pa, pb] [] (by intro p hp; simp at hp; rcases hp with rfl | rfl <;> assumption)
      cs (by rw [hcs, h]; simp [wire])
    simpa using this.1
  · right
    have := frames_sequence L hL [pb, pa] [] (by intro p hp; simp at hp; rcases hp with rfl | rfl <;> assumption)
      cs (by rw [hcs, h]; simp [wire])
    simpa using this.1
example : (mergeWrites [false, true] [[0, 0, 0, 2, 7, 9]] [[0, 0, 0, 1, 5]]).flatten =
    [0, 0, 0, 1, 5, 0, 0, 0, 2, 7, 9] := rfl

/-- **12b. two writers, torn frames: why one writer per connection is needed.**  With a transport that
takes A's header in one `Write` and its payload in the next, B's frame can land in between and the
reader delivers `[0, 0]` — a payload nobody sent — and loses both. The code has one writer per
connection (`c15_single_writer_shape`); replayed on the real `writeTo` with two goroutines on one
connection at every run (case `wr2 0709 05 4 - ab…`). -/
theorem two_writers_bleed_witness :
    writeFrameX 1048576 [7, 9] [.acc 4] = some ⟨[[0, 0, 0, 2], [7, 9]], false, []⟩ ∧
    writeFrameX 1048576 [5] [] = some ⟨[[0, 0, 0, 1, 5]], false, []⟩ ∧
    (mergeWrites [true, false, true] [[0, 0, 0, 2], [7, 9]] [[0, 0, 0, 1, 5]]).flatten =
      [0, 0, 0, 2, 0, 0, 0, 1, 5, 7, 9] ∧
    (readFrames 1048576 2 [[0, 0, 0, 2, 0, 0, 0, 1, 5, 7, 9]]).1 = [.ok [0, 0], .error .body] :=
  ⟨rfl, rfl, rfl, rfl⟩

end Dos.Props.C15Pipe

/-
Concrete bn256 (alt_bn128) G1 for the byte-level model of `sign/tbls`: the curve
`y² = x³ + 3` over `F_p`, points in affine form (so structural equality is point equality,
as `pointG1.Equal` compares canonical encodings), scalar multiplication through Jacobian
coordinates, and the 64-byte codec of `group/bn256/point.go`:

* `UnmarshalBinary`: `len < 64` → error; `x ‖ y` big-endian from the first 64 bytes (longer
  input is accepted, the tail ignored); a coordinate `≥ p` → error (repository commit 1d47f6b);
  `(0,0)` is the point at infinity; otherwise the point must satisfy the curve equation.
* `MarshalBinary`: 64 zero bytes for infinity, else `x ‖ y`.

Core Lean only. That these formulas form a group of prime order `r` is the standard fact about
alt_bn128 (assumption of C02/C03; the arithmetic itself is property C10).
-/
import DosModel.Model.ShareZq

namespace Dos.G1
open Dos

/-- base field prime (`group/bn256/constants.go` `P`, regenerated from /repo) -/
def p : Nat := Gen.bn256P
/-- group order (`Order`) -/
abbrev r : Nat := Share.bn256Order

inductive Pt where
  | inf
  | aff (x y : Nat)
  deriving DecidableEq, Repr

/-- `a - b` for reduced operands (`b ≤ p`) -/
@[inline] def fsub (a b : Nat) : Nat := (a + (p - b)) % p
@[inline] def fmul (a b : Nat) : Nat := (a * b) % p
@[inline] def fadd (a b : Nat) : Nat := (a + b) % p
def finv (a : Nat) : Nat := Zq.powMod (a % p) (p - 2) p

/-- `curvePoint.IsOnCurve` for an affine point -/
def onCurve (x y : Nat) : Bool := fmul y y == fadd (fmul (fmul x x) x) 3

def neg : Pt → Pt
  | .inf => .inf
  | .aff x y => .aff x (fsub 0 y)

/-- affine chord-and-tangent addition -/
def add : Pt → Pt → Pt
  | .inf, q => q
  | a, .inf => a
  | .aff x1 y1, .aff x2 y2 =>
    if x1 = x2 then
      if y1 = y2 ∧ y1 ≠ 0 then
        let l := fmul (fmul 3 (fmul x1 x1)) (finv (fmul 2 y1))
        let x3 := fsub (fsub (fmul l l) x1) x2
        .aff x3 (fsub (fmul l (fsub x1 x3)) y1)
      else .inf
    else
      let l := fmul (fsub y2 y1) (finv (fsub x2 x1))
      let x3 := fsub (fsub (fmul l l) x1) x2
      .aff x3 (fsub (fmul l (fsub x1 x3)) y1)

/-- Jacobian point `(X : Y : Z)`, `Z = 0` is infinity -/
structure Jac where
  x : Nat
  y : Nat
  z : Nat

def Jac.dbl (a : Jac) : Jac :=
  let A := fmul a.x a.x
  let B := fmul a.y a.y
  let C := fmul B B
  let t := fadd a.x B
  let D := fmul 2 (fsub (fsub (fmul t t) A) C)
  let E := fmul 3 A
  let F := fmul E E
  let x3 := fsub F (fmul 2 D)
  let y3 := fsub (fmul E (fsub D x3)) (fmul 8 C)
  ⟨x3, y3, fmul 2 (fmul a.y a.z)⟩

/-- mixed addition of the affine point `(x2, y2)` -/
def Jac.addAff (a : Jac) (x2 y2 : Nat) : Jac :=
  if a.z = 0 then ⟨x2, y2, 1⟩
  else
    let z1z1 := fmul a.z a.z
    let u2 := fmul x2 z1z1
    let s2 := fmul y2 (fmul a.z z1z1)
    let h := fsub u2 a.x
    let rr := fsub s2 a.y
    if h = 0 then
      if rr = 0 then a.dbl else ⟨0, 1, 0⟩
    else
      let hh := fmul h h
      let hhh := fmul h hh
      let v := fmul a.x hh
      let x3 := fsub (fsub (fmul rr rr) hhh) (fmul 2 v)
      let y3 := fsub (fmul rr (fsub v x3)) (fmul a.y hhh)
      ⟨x3, y3, fmul a.z h⟩

def Jac.toPt (a : Jac) : Pt :=
  if a.z = 0 then .inf
  else
    let zi := finv a.z
    let zi2 := fmul zi zi
    .aff (fmul a.x zi2) (fmul a.y (fmul zi zi2))

/-- double-and-add from the top bit; `fuel` = number of bits -/
def mulAux (x y : Nat) (k : Nat) : Nat → Jac → Jac
  | 0, acc => acc
  | i + 1, acc =>
    let d := acc.dbl
    mulAux x y k i (if k.testBit i then d.addAff x y else d)

/-- scalar multiplication `k • P` -/
def mul (k : Nat) : Pt → Pt
  | .inf => .inf
  | .aff x y => (mulAux x y k (k.log2 + 1) ⟨0, 1, 0⟩).toPt

def base : Pt := .aff 1 2

instance : Add Pt := ⟨add⟩
instance : Zero Pt := ⟨.inf⟩
instance : Neg Pt := ⟨neg⟩
instance : SMul (Zq r) Pt := ⟨fun k q => mul k.val q⟩

/-- `pointG1.UnmarshalBinary` -/
def decode (b : Bytes) : Option Pt :=
  if b.length < 64 then none
  else
    let x := beNat (b.take 32)
    let y := beNat ((b.drop 32).take 32)
    if x ≥ p ∨ y ≥ p then none
    else if x = 0 ∧ y = 0 then some .inf
    else if onCurve x y then some (.aff x y) else none

/-- `pointG1.MarshalBinary` -/
def encode : Pt → Bytes
  | .inf => List.replicate 64 0
  | .aff x y => natBE 32 x ++ natBE 32 y

end Dos.G1

package c11

// A decoded element must BEHAVE as the element it encodes, not merely re-encode to the same bytes
// (review 4-B finding 1: deleting `p.g.t.SetOne()` in pointG2.UnmarshalBinary left every re-encoding
// unchanged while every pairing with the decoded key went wrong).  After every successful decode
// (UnmarshalBinary / UnmarshalFrom, fresh or reused receiver) the harness
//   * reads the internal representation (x, y, z, t limbs) through the verif hook and reports its form:
//     `n` normalised affine (z = t = 1 in Montgomery form), `i` identity form (0, 1, 0, 0), anything else
//     is printed in full — the model predicts `n` / `i`;
//   * computes WITH the decoded object: Add, Sub, Neg, doubling, Mul by a small and by a full-size scalar,
//     compared with math/big arithmetic (bnref) on the coordinates of the byte string;
//   * builds a second representative Q2 = (Q + B) − B (a Jacobian point with z ≠ 1 whose t is recomputed
//     from scratch by MakeAffine) and demands Equal both ways, equal encodings, and EQUAL PAIRINGS:
//     e(G1, Q) = e(G1, Q2), PairingCheck([G1, −G1], [Q, Q2]) = true, PairingCheck with Q + B = false;
//   * on a sample compares the pairing value with go-ethereum's crypto/bn256/google.
// GT values: Add (gfP12 multiplication) with the generator, Mul (exponentiation) by a scalar against
// google's GT, (Q·g)·conj(g) = Q.

import (
	"bytes"
	"fmt"
	"math/big"
	"unsafe"

	bn "github.com/DOSNetwork/core/group/bn256"
	"github.com/dedis/kyber"
	gbn "github.com/ethereum/go-ethereum/crypto/bn256/google"

	"github.com/DOSNetwork/core/sign/bls"

	"verifharness/internal/h"
	"verifharness/props/c11/bnref"
)

type limb = [4]uint64

// montOne = R mod p as limbs (little-endian words), computed with math/big
var montOne = func() limb {
	v := new(big.Int).Lsh(big.NewInt(1), 256)
	v.Mod(v, bnref.P)
	var l limb
	for i := 0; i < 4; i++ {
		l[i] = new(big.Int).Rsh(v, uint(64*i)).Uint64()
	}
	return l
}()

func limbHex(ls []limb) string {
	s := ""
	for i, l := range ls {
		if i > 0 {
			s += "."
		}
		s += fmt.Sprintf("%016x%016x%016x%016x", l[3], l[2], l[1], l[0])
	}
	return s
}

// repState: the form of the internal Jacobian representation of a G1/G2 object ("-" for GT)
func repState(g string, pt kyber.Point) string {
	var zero limb
	switch g {
	case "g1":
		l := (*[4]limb)(unsafe.Pointer(bn.VerifG1Of(pt)))
		x, y, z, t := l[0], l[1], l[2], l[3]
		switch {
		case z == montOne && t == montOne:
			return "n"
		case x == zero && y == montOne && z == zero && t == zero:
			return "i"
		}
		return "x:z=" + limbHex([]limb{z}) + ",t=" + limbHex([]limb{t})
	case "g2":
		l := (*[8]limb)(unsafe.Pointer(bn.VerifG2Of(pt)))
		one := func(i int) bool { return l[i] == zero && l[i+1] == montOne }
		nul := func(i int) bool { return l[i] == zero && l[i+1] == zero }
		switch {
		case one(4) && one(6):
			return "n"
		case nul(0) && one(2) && nul(4) && nul(6):
			return "i"
		}
		return "x:z=" + limbHex(l[4:6]) + ",t=" + limbHex(l[6:8])
	}
	return "-"
}

// jacZ reports whether the Jacobian z of a G1/G2 object is neither 0 nor 1 (a non-normalised representative)
func nonNormal(g string, pt kyber.Point) bool {
	var zero limb
	switch g {
	case "g1":
		l := (*[4]limb)(unsafe.Pointer(bn.VerifG1Of(pt)))
		return l[2] != zero && l[2] != montOne
	case "g2":
		l := (*[8]limb)(unsafe.Pointer(bn.VerifG2Of(pt)))
		return !(l[4] == zero && l[5] == zero) && !(l[4] == zero && l[5] == montOne)
	}
	return false
}

func p1Of(enc []byte) bnref.P1 {
	if isZero(enc) {
		return bnref.P1{Inf: true}
	}
	return bnref.P1{X: word(enc, 0), Y: word(enc, 32)}
}

func p2Of(enc []byte) bnref.P2 {
	if len(enc) < 129 {
		return bnref.P2{Inf: true}
	}
	return bnref.P2{X: bnref.F2{Im: word(enc, 1), Re: word(enc, 33)}, Y: bnref.F2{Im: word(enc, 65), Re: word(enc, 97)}}
}

func mustEnc(p kyber.Point) []byte {
	b, err := p.MarshalBinary()
	if err != nil {
		return []byte("marshal-error")
	}
	return b
}

var (
	g1Base  = suite.G1().Point().Base()
	g2Base  = suite.G2().Point().Base()
	g1BaseN = suite.G1().Point().Neg(suite.G1().Point().Base())
	three   = big.NewInt(3)
	rMinus1 = new(big.Int).Sub(bnref.Rn, big.NewInt(1))
	pairMemo = map[string][]byte{} // google pairing values, by encoding (exec is single-threaded per process)
)

// useValue: what the Impl line shows of the computation with a decoded G1/G2 element Q: enc(3·Q + B)
func useValue(g string, Q kyber.Point) []byte {
	G := group(g)
	T := G.Point().Mul(scalar(three), Q)
	return mustEnc(G.Point().Add(T, G.Point().Base()))
}

func googlePair(g string, enc []byte) []byte {
	key := g + string(enc)
	if v, ok := pairMemo[key]; ok {
		return v
	}
	var out []byte
	if g == "g1" {
		out = gbn.Pair(mustG1(enc), new(gbn.G2).ScalarBaseMult(big.NewInt(1))).Marshal()
	} else if b := mustG2(enc); b != nil {
		out = gbn.Pair(new(gbn.G1).ScalarBaseMult(big.NewInt(1)), b).Marshal()
	}
	pairMemo[key] = out
	return out
}

func mustG1(enc []byte) *gbn.G1 {
	a := new(gbn.G1)
	if _, err := a.Unmarshal(enc[:64]); err != nil {
		return new(gbn.G1).ScalarBaseMult(big.NewInt(0))
	}
	return a
}

func mustG2(enc []byte) *gbn.G2 {
	if len(enc) < 129 {
		return new(gbn.G2).ScalarBaseMult(big.NewInt(0))
	}
	b := new(gbn.G2)
	if _, err := b.Unmarshal(enc[1:129]); err != nil {
		return nil
	}
	return b
}

// useDecoded: the decoded object Q (canonical encoding enc, as the math/big reference decoder gives it)
// is computed with; returns "" or "<sig>: details".  deep = also the google pairing.
func useDecoded(g string, Q kyber.Point, enc []byte, deep bool) (oracle string) {
	defer func() {
		if r := recover(); r != nil {
			oracle = fmt.Sprintf("%s-decoded-use-panics: %v", g, r)
		}
	}()
	if g == "gt" {
		return useDecodedGT(Q, enc)
	}
	G := group(g)
	B := G.Point().Base()
	k := big.NewInt(int64(2 + int(enc[len(enc)-1])%250))
	var want func(op string) []byte
	if g == "g1" {
		P := p1Of(enc)
		want = func(op string) []byte {
			switch op {
			case "add":
				return bnref.Enc1(bnref.Add1(P, bnref.G1Gen()))
			case "sub":
				return bnref.Enc1(bnref.Add1(P, bnref.Neg1(bnref.G1Gen())))
			case "neg", "mulr1":
				return bnref.Enc1(bnref.Neg1(P))
			case "dbl":
				return bnref.Enc1(bnref.Add1(P, P))
			}
			return bnref.Enc1(bnref.Mul1(k, P))
		}
	} else {
		P := p2Of(enc)
		want = func(op string) []byte {
			switch op {
			case "add":
				return bnref.Enc2(bnref.Add2(P, bnref.G2Gen()))
			case "sub":
				return bnref.Enc2(bnref.Add2(P, bnref.Neg2(bnref.G2Gen())))
			case "neg", "mulr1":
				return bnref.Enc2(bnref.Neg2(P))
			case "dbl":
				return bnref.Enc2(bnref.Add2(P, P))
			}
			return bnref.Enc2(bnref.Mul2(k, P))
		}
	}
	A := G.Point().Add(Q, B)
	got := map[string]kyber.Point{
		"add":   A,
		"sub":   G.Point().Sub(Q, B),
		"neg":   G.Point().Neg(Q),
		"dbl":   G.Point().Add(Q, Q),
		"mulk":  G.Point().Mul(scalar(k), Q),
		"mulr1": G.Point().Mul(scalar(rMinus1), Q),
	}
	for _, op := range []string{"add", "sub", "neg", "dbl", "mulk", "mulr1"} {
		if e := mustEnc(got[op]); !bytes.Equal(e, want(op)) {
			return fmt.Sprintf("%s-decoded-arith-differs: %s with the decoded element gives %s, math/big on the encoded coordinates gives %s", g, op, h.Hex(e), h.Hex(want(op)))
		}
	}
	// a second representative of the same element, built by arithmetic (z != 1; MakeAffine recomputes t)
	Q2 := G.Point().Sub(G.Point().Add(Q, B), B)
	if !Q.Equal(Q2) || !Q2.Equal(Q) || !bytes.Equal(mustEnc(Q2), enc) {
		return fmt.Sprintf("%s-decoded-equal-mismatch: Q = decode(bytes), Q2 = (Q+B)-B: Q.Equal(Q2)=%v Q2.Equal(Q)=%v enc(Q2)=%s", g, Q.Equal(Q2), Q2.Equal(Q), h.Hex(mustEnc(Q2)))
	}
	if Q.Equal(A) || A.Equal(Q) {
		return g + "-decoded-equal-mismatch: Q.Equal(Q+B) is true"
	}
	Q3 := G.Point().Sub(G.Point().Add(Q, B), B) // fresh, still non-normalised
	var e1, e2 kyber.Point
	var chk, chkNeg bool
	if g == "g2" {
		e1, e2 = suite.Pair(g1Base, Q), suite.Pair(g1Base, Q3)
		chk = suite.PairingCheck([]kyber.Point{g1Base, g1BaseN}, []kyber.Point{Q, Q3})
		chkNeg = suite.PairingCheck([]kyber.Point{g1Base, g1BaseN}, []kyber.Point{Q, A})
	} else {
		e1, e2 = suite.Pair(Q, g2Base), suite.Pair(Q3, g2Base)
		chk = suite.PairingCheck([]kyber.Point{Q, suite.G1().Point().Neg(Q3)}, []kyber.Point{g2Base, g2Base})
		chkNeg = suite.PairingCheck([]kyber.Point{Q, suite.G1().Point().Neg(A)}, []kyber.Point{g2Base, g2Base})
	}
	b1, b2 := mustEnc(e1), mustEnc(e2)
	if !bytes.Equal(b1, b2) || !e1.Equal(e2) {
		return fmt.Sprintf("%s-decoded-pairing-differs: Pair with the decoded element differs from Pair with (Q+B)-B, the same element built by arithmetic: %s… vs %s…", g, h.Hex(b1[:32]), h.Hex(b2[:32]))
	}
	if !chk {
		return g + "-decoded-pairingcheck-differs: e(G, Q)·e(-G, Q2) != 1 for the decoded Q and Q2 = (Q+B)-B"
	}
	if chkNeg {
		return g + "-decoded-pairingcheck-differs: e(G, Q)·e(-G, Q+B) = 1"
	}
	if deep {
		if gp := googlePair(g, enc); gp != nil && !bytes.Equal(gp, b1) {
			return fmt.Sprintf("%s-decoded-pairing-differs-google: Pair with the decoded element gives %s…, go-ethereum google gives %s…", g, h.Hex(b1[:32]), h.Hex(gp[:32]))
		}
	}
	return ""
}

var gtBaseEnc = mustEnc(suite.GT().Point().Base())

func useDecodedGT(Q kyber.Point, enc []byte) string {
	GT := suite.GT()
	gq, ok := new(gbn.GT).Unmarshal(enc)
	gb, ok2 := new(gbn.GT).Unmarshal(gtBaseEnc)
	if !ok || !ok2 {
		return ""
	}
	k := big.NewInt(int64(2 + int(enc[len(enc)-1])%250))
	A := GT.Point().Add(Q, GT.Point().Base())
	if e, w := mustEnc(A), new(gbn.GT).Add(gq, gb).Marshal(); !bytes.Equal(e, w) {
		return fmt.Sprintf("gt-decoded-arith-differs: Add(Q, Base) with the decoded value gives %s…, google gives %s…", h.Hex(e[:32]), h.Hex(w[:32]))
	}
	M := GT.Point().Mul(scalar(k), Q)
	if e, w := mustEnc(M), new(gbn.GT).ScalarMult(gq, k).Marshal(); !bytes.Equal(e, w) {
		return fmt.Sprintf("gt-decoded-arith-differs: Mul(%s, Q) with the decoded value gives %s…, google gives %s…", k, h.Hex(e[:32]), h.Hex(w[:32]))
	}
	// (Q·g)·conj(g) = Q because the generator is a pairing value (norm one)
	Q2 := GT.Point().Sub(A, GT.Point().Base())
	if !Q.Equal(Q2) || !Q2.Equal(Q) || !bytes.Equal(mustEnc(Q2), enc) {
		return "gt-decoded-equal-mismatch: (Q+Base)-Base differs from the decoded Q"
	}
	if !bytes.Equal(enc, gtBaseEnc) && (Q.Equal(GT.Point().Base()) || GT.Point().Base().Equal(Q)) {
		return "gt-decoded-equal-mismatch: Q.Equal(Base) is true"
	}
	return ""
}

// deepSample: a deterministic sample of the byte strings gets the (slow, pure math/big) google pairing
func deepSample(enc []byte) bool {
	s := 0
	for _, b := range enc {
		s = s*31 + int(b)
	}
	return (s&0x7fffffff)%6 == 0
}

// sameBehaviour: P is an element built by arithmetic (Mul / Add / ...: a Jacobian representative that was never
// decoded), Q = decode(encode(P)).  "Survives encode-then-decode UNCHANGED": every operation answers the same.
func sameBehaviour(g string, P, Q kyber.Point) (oracle string) {
	defer func() {
		if r := recover(); r != nil {
			oracle = fmt.Sprintf("%s-decoded-use-panics: %v", g, r)
		}
	}()
	if !P.Equal(Q) || !Q.Equal(P) {
		return g + "-roundtrip-behaviour-differs: Equal(P, decode(encode P)) is false"
	}
	G := group(g)
	five := scalar(big.NewInt(5))
	pairs := [][2]kyber.Point{
		{G.Point().Add(P, G.Point().Base()), G.Point().Add(Q, G.Point().Base())},
		{G.Point().Add(G.Point().Base(), P), G.Point().Add(G.Point().Base(), Q)},
		{G.Point().Sub(P, G.Point().Base()), G.Point().Sub(Q, G.Point().Base())},
		{G.Point().Neg(P), G.Point().Neg(Q)},
		{G.Point().Mul(five, P), G.Point().Mul(five, Q)},
		{G.Point().Add(P, P), G.Point().Add(Q, Q)},
		{G.Point().Add(P, Q), G.Point().Add(Q, P)},
	}
	if g == "g1" {
		pairs = append(pairs, [2]kyber.Point{suite.Pair(P, g2Base), suite.Pair(Q, g2Base)})
	} else if g == "g2" {
		pairs = append(pairs, [2]kyber.Point{suite.Pair(g1Base, P), suite.Pair(g1Base, Q)})
	}
	names := []string{"Add(x,Base)", "Add(Base,x)", "Sub(x,Base)", "Neg(x)", "Mul(5,x)", "Add(x,x)", "Add(P,Q)/Add(Q,P)", "Pair"}
	for i, pr := range pairs {
		a, b := mustEnc(pr[0]), mustEnc(pr[1])
		if !bytes.Equal(a, b) || !pr[0].Equal(pr[1]) {
			return fmt.Sprintf("%s-roundtrip-behaviour-differs: %s on P and on decode(encode P) differ: %s… vs %s…", g, names[i], h.Hex(a[:33]), h.Hex(b[:33]))
		}
	}
	return ""
}

// blsRound: a BLS round under a DECODED public key and a decoded signature (k = the key's discrete log)
func blsRound(k *big.Int, X kyber.Point) (oracle string) {
	defer func() {
		if r := recover(); r != nil {
			oracle = fmt.Sprintf("g2-decoded-use-panics: bls round: %v", r)
		}
	}()
	msg := []byte("c11 round trip " + k.String())
	sig, err := bls.Sign(suite, scalar(k), msg)
	if err != nil {
		return "g2-decoded-bls: Sign: " + err.Error()
	}
	if err := bls.Verify(suite, X, msg, sig); err != nil {
		return "g2-decoded-bls-rejects: bls.Verify under the decoded public key k·G2 rejects the signature made with k: " + err.Error()
	}
	// the signature as a decoded G1 object re-encoded
	S := suite.G1().Point()
	if err := S.UnmarshalBinary(sig); err != nil {
		return "g2-decoded-bls: signature does not decode: " + err.Error()
	}
	if err := bls.Verify(suite, X, msg, mustEnc(S)); err != nil {
		return "g2-decoded-bls-rejects: re-encoded signature rejected: " + err.Error()
	}
	other, _ := bls.Sign(suite, scalar(new(big.Int).Add(k, big.NewInt(1))), msg)
	if err := bls.Verify(suite, X, msg, other); err == nil {
		return "g2-decoded-bls-accepts: bls.Verify under the decoded key k·G2 accepts a signature made with k+1"
	}
	return ""
}

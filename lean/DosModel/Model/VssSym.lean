/-
Model of `share/vss/pedersen/vss.go` + `dh.go` with SYMBOLIC cryptography
(Dolev–Yao style, DESIGN §4): signatures, the AEAD, the KDF and the hashes are
free constructors – a signature verifies iff it is the term `sign sk msg` with
`sk • g` the expected public key, a ciphertext opens iff it is the term
`seal key nonce ad pt` with exactly that key / nonce / associated data, and the
session id / HKDF context are injective functions of the values hashed.
Byte strings an honest party would never produce are `junk` / `other` / `raw`
constructors carrying an arbitrary tag.

Scalars `S` and points `P` only need the core notation classes, so the same
functions run in the drivers (numbers modulo the group order, points in the
discrete-log representation, `Model/VssZr.lean`) and are reasoned about over any
field and module in `Proofs/Vss*.lean`.  `g` is the group's base point.

Go pointer mutation becomes returned state; every Go `map[uint32]*Response` is a list of
optional entries indexed by the key (`addResponse` only ever stores keys below
`len(verifiers)`, so the map is an array of that length; entry `none` = key absent).
The code modelled is the tree WITH the `fix:` commits c536de3 (nonce length), 4c3770c and c743079
(deal without share / without share value: error before an aggregator exists), 386c5d2
(session id bound to the commitments) and 5814a9f (a verifier's deal is certified only if the
verifier itself approved it: field `approved`, `Verifier.DealCertified`).
-/
import DosModel.Model.Util

namespace Dos.Vss

/-! ### terms -/

/-- `context(suite, dealer, verifiers)`: hash of the dealer key and the member list -/
structure Ctx (P : Type) where
  dealer : P
  vs : List P
  deriving DecidableEq, Repr

/-- `sessionID(suite, dealer, verifiers, commitments, t)` (`h`), or any other byte string (`raw`) -/
inductive Sid (P : Type) where
  | h (dealer : P) (vs : List P) (commits : List P) (t : Nat)
  | raw (id : Nat)
  deriving DecidableEq, Repr

/-- `share.PriShare`; a missing `V` is `none` -/
structure PriShare (S : Type) where
  i : Int
  v : Option S
  deriving DecidableEq, Repr

/-- plaintext `Deal`; a missing `SecShare` is `none`; `t` is the `uint32` -/
structure Deal (S P : Type) where
  sid : Sid P
  share : Option (PriShare S)
  t : Nat
  commits : List P
  deriving DecidableEq, Repr

/-- AEAD plaintext: the protobuf encoding of a deal (injective), or bytes protobuf rejects -/
inductive Plain (S P : Type) where
  | deal (d : Deal S P)
  | junk (id : Nat)
  deriving DecidableEq, Repr

/-- contents of the `DHKey` field: the canonical encoding of a point, or any other byte
string together with what `UnmarshalBinary` makes of it (trailing bytes are accepted, so
several byte strings decode to one point) -/
inductive DhBytes (P : Type) where
  | canon (pt : P)
  | other (pt : Option P) (tag : Nat)
  deriving DecidableEq, Repr

def DhBytes.parse {P : Type} : DhBytes P → Option P
  | .canon pt => some pt
  | .other pt _ => pt

/-- Schnorr signature over the `DHKey` bytes; `rnd` is the signer's randomness -/
inductive DhSig (S P : Type) where
  | sign (sk : S) (msg : DhBytes P) (rnd : Nat)
  | junk (id : Nat)
  deriving DecidableEq, Repr

/-- HKDF output: injective in (shared point, context) -/
structure Key (P : Type) where
  shared : P
  ctx : Ctx P
  deriving DecidableEq, Repr

/-- AES-GCM ciphertext -/
inductive Cipher (S P : Type) where
  | seal (k : Key P) (nonce : Bytes) (ad : Ctx P) (pt : Plain S P)
  | junk (id : Nat)
  deriving DecidableEq, Repr

structure EncDeal (S P : Type) where
  dh : DhBytes P
  sig : DhSig S P
  nonce : Bytes
  cipher : Cipher S P
  deriving DecidableEq, Repr

/-- Schnorr signature over `Response.Hash` = H("response" ‖ sid ‖ index ‖ status) -/
inductive RespSig (S P : Type) where
  | sign (sk : S) (sid : Sid P) (index : Nat) (status : Bool) (rnd : Nat)
  | junk (id : Nat)
  deriving DecidableEq, Repr

structure Response (S P : Type) where
  sid : Sid P
  index : Nat
  status : Bool          -- true = approval
  sig : RespSig S P
  deriving DecidableEq, Repr

inductive Err where
  | noDeal        -- nil EncryptedDeal
  | sig           -- schnorr.Verify of the DH key failed
  | dhparse       -- DH key bytes do not decode
  | nonce         -- nonce length
  | open_         -- AEAD authentication failed
  | decode        -- protobuf
  | noShare       -- deal without SecShare
  | index         -- SecShare.I is not the verifier's index
  | already       -- errDealAlreadyProcessed
  | respSid | respIndex | respSig | respDup
  | noDealBeforeResp
  | notMember     -- NewVerifier: key not in the list
  | justIndex | justNoComplaint | justApproval | justDeal
  deriving DecidableEq, Repr

def Err.name : Err → String
  | .noDeal => "nodeal" | .sig => "sig" | .dhparse => "dhparse" | .nonce => "nonce"
  | .open_ => "open" | .decode => "decode" | .noShare => "noshare" | .index => "index"
  | .already => "already" | .respSid => "respsid" | .respIndex => "respindex"
  | .respSig => "respsig" | .respDup => "respdup" | .noDealBeforeResp => "nodealbeforeresp"
  | .notMember => "notmember" | .justIndex => "justindex" | .justNoComplaint => "justnocomplaint"
  | .justApproval => "justapproval" | .justDeal => "justdeal"

/-- why `VerifyDeal` refused -/
inductive VErr where
  | noValue | already | badT | sidDiffer | sidMismatch | bounds | share
  deriving DecidableEq, Repr

/-! ### state -/

/-- `aggregator` -/
structure Agg (S P : Type) where
  dealer : P
  vs : List P
  commits : List P
  t : Nat
  sid : Sid P
  deal : Option (Deal S P)
  responses : List (Option (Response S P))   -- slot `i` = `responses[uint32(i)]`
  badDealer : Bool
  deriving DecidableEq, Repr

/-- `Verifier`; `agg = none` is the nil aggregator before the first deal -/
structure Verifier (S P : Type) where
  long : S
  pub : P
  dealer : P
  index : Nat
  vs : List P
  agg : Option (Agg S P)
  /-- `approved` (fix 5814a9f): set when `ProcessEncryptedDeal` answered the deal with an approval -/
  approved : Bool := false
  deriving DecidableEq, Repr

def nonceSize : Nat := 12

section
variable {S P : Type} [DecidableEq S] [DecidableEq P]
variable [Zero P] [Add P] [SMul S P] [IntCast S]

def Verifier.ctx (v : Verifier S P) : Ctx P := ⟨v.dealer, v.vs⟩

/-- `g.Scalar().SetInt64(1 + int64(i))` -/
def xOf (i : Int) : S := ((1 + i : Int) : S)

/-- `PubPoly.Eval(i).V`: Horner from the top commitment down, at `x = i + 1` -/
def pubEval (commits : List P) (i : Int) : P :=
  commits.foldr (fun c v => (xOf i : S) • v + c) 0

/-- `validT` (the `int(uint32(t)) == t` clause holds for every caller: `t` comes from a `uint32`) -/
def validT (t n : Nat) : Bool := decide (2 ≤ t) && decide (t ≤ n)

/-- position of the first key equal to `pub` (the loop in `NewVerifier` / `initDistKeyGenerator`) -/
def findIndex (pub : P) : List P → Nat → Option Nat
  | [], _ => none
  | p :: ps, k => if p = pub then some k else findIndex pub ps (k + 1)

/-- `NewVerifier` -/
def newVerifier (g : P) (long : S) (dealer : P) (vs : List P) : Except Err (Verifier S P) :=
  match findIndex (long • g) vs 0 with
  | none => .error .notMember
  | some i => .ok { long := long, pub := long • g, dealer := dealer, index := i, vs := vs, agg := none }

/-- `schnorr.Verify(suite, pub, e.DHKey, e.Signature)` with an ideal signature scheme -/
def verifyDhSig (g pub : P) (msg : DhBytes P) : DhSig S P → Bool
  | .sign sk m _ => decide (sk • g = pub) && decide (m = msg)
  | .junk _ => false

/-- `schnorr.Verify(suite, pub, r.Hash(suite), r.Signature)` -/
def verifyRespSig (g pub : P) (r : Response S P) : Bool :=
  match r.sig with
  | .sign sk sid i st _ => decide (sk • g = pub) && decide (sid = r.sid) && decide (i = r.index) && decide (st = r.status)
  | .junk _ => false

/-- `Verifier.decryptDeal` -/
def decryptDeal (g : P) (v : Verifier S P) (e : EncDeal S P) : Except Err (Deal S P) :=
  if verifyDhSig g v.dealer e.dh e.sig = false then .error .sig
  else match e.dh.parse with
    | none => .error .dhparse
    | some X =>
      let key : Key P := ⟨v.long • X, v.ctx⟩
      if e.nonce.length ≠ nonceSize then .error .nonce
      else match e.cipher with
        | .junk _ => .error .open_
        | .seal k n ad pt =>
          if k = key ∧ n = e.nonce ∧ ad = v.ctx then
            match pt with
            | .deal d => .ok d
            | .junk _ => .error .decode
          else .error .open_

/-- `newAggregator` -/
def newAgg (dealer : P) (vs commits : List P) (t : Nat) (sid : Sid P) : Agg S P :=
  { dealer := dealer, vs := vs, commits := commits, t := t, sid := sid, deal := none,
    responses := List.replicate vs.length none, badDealer := false }

/-- `aggregator.VerifyDeal(d, inclusion)`: new state and `none` for success -/
def verifyDeal (g : P) (a : Agg S P) (d : Deal S P) (inclusion : Bool) : Agg S P × Option VErr :=
  match d.share with
  | none => (a, some .noValue)
  | some sh =>
    match sh.v with
    | none => (a, some .noValue)
    | some val =>
      if a.deal.isSome ∧ inclusion = true then (a, some .already)
      else
        let a1 : Agg S P := if a.deal.isNone then { a with commits := d.commits, sid := d.sid, deal := some d } else a
        if validT d.t a1.vs.length = false then (a1, some .badT)
        else if a1.sid ≠ d.sid then (a1, some .sidDiffer)
        else if Sid.h a1.dealer a1.vs d.commits d.t ≠ d.sid then (a1, some .sidMismatch)
        else if sh.i < 0 ∨ sh.i ≥ (a1.vs.length : Int) then (a1, some .bounds)
        else if val • g = pubEval (S := S) d.commits sh.i then (a1, none)
        else (a1, some .share)

/-- `a.responses[uint32(i)]` -/
def getResponse (a : Agg S P) (i : Nat) : Option (Response S P) := (a.responses[i]?).join

def hasResponse (a : Agg S P) (i : Nat) : Bool := (getResponse a i).isSome

/-- `aggregator.addResponse` -/
def addResponse (a : Agg S P) (r : Response S P) : Except Err (Agg S P) :=
  if r.index ≥ a.vs.length then .error .respIndex
  else if hasResponse a r.index then .error .respDup
  else .ok { a with responses := a.responses.set r.index (some r) }

/-- `aggregator.verifyResponse` -/
def verifyResponse (g : P) (a : Agg S P) (r : Response S P) : Except Err (Agg S P) :=
  if r.sid ≠ a.sid then .error .respSid
  else match a.vs[r.index]? with
    | none => .error .respIndex
    | some pub =>
      if verifyRespSig g pub r = false then .error .respSig
      else addResponse a r

/-- `Verifier.ProcessEncryptedDeal`; `rnd` is the randomness of the response signature -/
def processEncryptedDeal (g : P) (v : Verifier S P) (e : EncDeal S P) (rnd : Nat := 0) :
    Verifier S P × Except Err (Response S P) :=
  match decryptDeal g v e with
  | .error err => (v, .error err)
  | .ok d =>
    match d.share with
    | none => (v, .error .noShare)
    | some sh =>
      if sh.v.isNone then (v, .error .noShare)          -- fix c743079: no aggregator for a share without value
      else if sh.i ≠ (v.index : Int) then (v, .error .index)
      else
        let sid : Sid P := .h v.dealer v.vs d.commits d.t
        let a0 : Agg S P := match v.agg with
          | some a => a
          | none => newAgg v.dealer v.vs d.commits d.t d.sid
        let (a1, verr) := verifyDeal g a0 d true
        let v1 := { v with agg := some a1 }
        if verr = some .already then (v1, .error .already)
        else
          let status := verr.isNone
          let r : Response S P := { sid := sid, index := v.index, status := status, sig := .sign v.long sid v.index status rnd }
          match addResponse a1 r with
          | .error err => (v1, .error err)
          | .ok a2 => ({ v with agg := some a2, approved := status }, .ok r)

/-- `Verifier.ProcessResponse` -/
def Verifier.processResponse (g : P) (v : Verifier S P) (r : Response S P) : Verifier S P × Option Err :=
  match v.agg with
  | none => (v, some .noDealBeforeResp)
  | some a =>
    match verifyResponse g a r with
    | .error err => (v, some err)
    | .ok a' => ({ v with agg := some a' }, none)

/-- `Verifier.UnsafeSetResponseDKG` (the error of `addResponse` is dropped); the caller has a non-nil aggregator -/
def Verifier.unsafeSetResponse (v : Verifier S P) (idx : Nat) (approval : Bool) : Verifier S P :=
  match v.agg with
  | none => v
  | some a =>
    match addResponse a { sid := a.sid, index := idx, status := approval, sig := .junk 0 } with
    | .error _ => v
    | .ok a' => { v with agg := some a' }

/-- `aggregator.EnoughApprovals` -/
def enoughApprovals (a : Agg S P) : Bool :=
  decide ((a.responses.filter (fun r => match r with | some r => r.status | none => false)).length ≥ a.t)

/-- `aggregator.DealCertified` on a non-nil aggregator -/
def Agg.certified (a : Agg S P) : Bool :=
  (List.range a.vs.length).all (fun i => hasResponse a i) && !a.badDealer && enoughApprovals a

/-- `Verifier.DealCertified()` (fix 5814a9f): `v.approved && v.aggregator.DealCertified()`
(nil aggregator ⇒ false) -/
def Verifier.dealCertified (v : Verifier S P) : Bool :=
  v.approved && (match v.agg with
  | none => false
  | some a => a.certified)

/-- `Verifier.Deal()`: `none` = the nil dereference of a verifier that never opened a deal;
`some none` = nil result -/
def Verifier.dealOut (v : Verifier S P) : Option (Option (Deal S P)) :=
  match v.agg with
  | none => none
  | some a => some (if enoughApprovals a && (v.approved && a.certified) then a.deal else none)

/-- set the status of the stored response of `idx` to approval (`r.Status = StatusApproval` through the shared pointer) -/
def approveStored (rs : List (Option (Response S P))) (idx : Nat) : List (Option (Response S P)) :=
  rs.modify idx (fun r => r.map (fun r => { r with status := true }))

/-- `aggregator.verifyJustification(j)` with `j = (Index, Deal)` (the signature of a justification is never checked by the code) -/
def verifyJustification (g : P) (a : Agg S P) (idx : Nat) (d : Deal S P) : Agg S P × Option Err :=
  if idx ≥ a.vs.length then (a, some .justIndex)
  else match getResponse a idx with
    | none => (a, some .justNoComplaint)
    | some r =>
      if r.status = true then (a, some .justApproval)
      else
        let (a1, verr) := verifyDeal g a d false
        match verr with
        | some _ => ({ a1 with badDealer := true }, some .justDeal)
        | none => ({ a1 with responses := approveStored a1.responses idx }, none)

/-! ### the honest dealer -/

/-- `PriPoly.Eval(i).V` -/
def priEval [Mul S] [Add S] [Zero S] (f : List S) (i : Int) : S :=
  f.foldr (fun c v => v * xOf i + c) 0

/-- `PriPoly.Commit(base)` -/
def commit (g : P) (f : List S) : List P := f.map (fun c => c • g)

/-- the plaintext deal `NewDealer` prepares for verifier `i` -/
def honestDeal [Mul S] [Add S] [Zero S] (g : P) (long : S) (vs : List P) (f : List S) (i : Nat) : Deal S P :=
  { sid := .h (long • g) vs (commit g f) f.length
    share := some ⟨(i : Int), some (priEval f (i : Int))⟩
    t := f.length
    commits := commit g f }

/-- `Dealer.EncryptedDeal(i)` for an arbitrary plaintext `d` (what the sealing hook does):
ephemeral secret `eph`, signature randomness `rnd`; `none` = index out of range -/
def sealDeal (g : P) (long : S) (vs : List P) (i : Nat) (eph : S) (rnd : Nat) (pt : Plain S P) : Option (EncDeal S P) :=
  match vs[i]? with
  | none => none
  | some vpub =>
    let dh : DhBytes P := .canon (eph • g)
    let ctx : Ctx P := ⟨long • g, vs⟩
    some { dh := dh, sig := .sign long dh rnd, nonce := List.replicate nonceSize 0,
           cipher := .seal ⟨eph • vpub, ctx⟩ (List.replicate nonceSize 0) ctx pt }

end

end Dos.Vss

import DosModel.Model.Query
import DosModel.Gen.DosnodeConsts
def main : IO Unit := Dos.lineLoop (Dos.Query.stepLine Dos.Gen.padSize Dos.Gen.stripLen)

/-
Helper lemmas for Props/C07.lean (round 4): the evaluation machine of Model/Eval.lean reaches the
one-shot result, machines in one list do not disturb one another under any schedule, and the group
table returns what was announced.
-/
import DosModel.Model.Eval

namespace Dos.Eval
open Dos Dos.Content

/-! ### one machine -/

theorem iter_succ (E : Engines) (k : Nat) (e : Ev) : iter E (k + 1) e = iter E k (step E e) := rfl

theorem iter_add (E : Engines) : ∀ (a b : Nat) (e : Ev), iter E (a + b) e = iter E b (iter E a e)
  | 0, b, e => by simp [iter]
  | a + 1, b, e => by
    have : a + 1 + b = (a + b) + 1 := by omega
    rw [this, iter_succ, iter_add E a b, iter_succ]

theorem iter_done (E : Engines) (r : Req) (o : Option Bytes) :
    ∀ k, iter E k { req := r, pc := .done o } = { req := r, pc := .done o }
  | 0 => rfl
  | k + 1 => by rw [iter_succ]; simp only [step]; exact iter_done E r o k

theorem iter_req (E : Engines) : ∀ (k : Nat) (e : Ev), (iter E k e).req = e.req
  | 0, _ => rfl
  | k + 1, e => by
    rw [iter_succ, iter_req E k]
    unfold step
    split
    · split
      · rfl
      · split
        · split <;> rfl
        · split
          · split <;> rfl
          · rfl
    all_goals rfl

theorem xmlJoin_append (a : List Bytes) (n : Bytes) : xmlJoin (a ++ [n]) = xmlJoin a ++ n ++ [10] := by
  induction a with
  | nil => simp [xmlJoin]
  | cons x xs ih => simp [xmlJoin, ih]

/-- the node loop: from `xmlLoop ns acc`, after `|ns| + 2` turns the machine is done with
`acc ++ xmlJoin ns ++ addr` -/
theorem iter_xmlLoop (E : Engines) (r : Req) :
    ∀ (ns : List Bytes) (acc : Bytes),
      iter E (ns.length + 2) { req := r, pc := .xmlLoop ns acc }
        = { req := r, pc := .done (some (queryContent (acc ++ xmlJoin ns) r.addr)) }
  | [], acc => by
    simp [iter, step, xmlJoin]
  | n :: ns, acc => by
    have : (n :: ns).length + 2 = (ns.length + 2) + 1 := by simp
    rw [this, iter_succ]
    simp only [step]
    rw [iter_xmlLoop E r ns (acc ++ n ++ [10])]
    simp [xmlJoin, List.append_assoc]

/-- **the machine is `queryResult`**: after `turns E r` turns – and after any larger number – the
evaluation of `r` is done with exactly the one-shot result. -/
theorem machine_is_queryResult (E : Engines) (r : Req) (k : Nat) (hk : turns E r ≤ k) :
    result (iter E k (init r)) = some (queryResult E r) := by
  obtain ⟨d, rfl⟩ := Nat.exists_eq_add_of_le hk
  rw [iter_add]
  suffices h : iter E (turns E r) (init r) = { req := r, pc := .done (queryResult E r) } by
    rw [h, iter_done]; rfl
  obtain ⟨doc, sel, addr⟩ := r
  cases sel with
  | nil => simp [turns, iter, step, init, queryResult, dataParse]
  | cons c rest =>
    by_cases h24 : c = 0x24
    · subst h24
      simp only [turns, queryResult, dataParse, init]
      cases hj : jsonBranch E doc (0x24 :: rest) <;> simp [iter, step, hj]
    · by_cases h2f : c = 0x2f
      · subst h2f
        simp only [turns, queryResult, dataParse, init, if_true]
        cases hx : E.xml doc (0x2f :: rest) with
        | nodes ns =>
          have : ns.length + 3 = (ns.length + 2) + 1 := by omega
          simp only [this]
          have hs : step E { req := { doc := doc, sel := 0x2f :: rest, addr := addr }, pc := .start }
              = { req := { doc := doc, sel := 0x2f :: rest, addr := addr }, pc := .xmlLoop ns [] } := by
            simp [step, hx]
          rw [iter_succ, hs, iter_xmlLoop]
          simp
        | err => simp [iter, step, hx]
        | panic => simp [iter, step, hx]
      · simp [turns, iter, step, init, queryResult, dataParse, h24, h2f]

/-! ### many machines, any schedule -/

theorem stepAt_getElem? (E : Engines) : ∀ (es : List Ev) (i j : Nat),
    (stepAt E i es)[j]? = if i = j then (es[j]?).map (step E) else es[j]?
  | [], i, j => by simp [stepAt]
  | e :: es, 0, 0 => by simp [stepAt]
  | e :: es, 0, j + 1 => by simp [stepAt]
  | e :: es, i + 1, 0 => by simp [stepAt]
  | e :: es, i + 1, j + 1 => by
    simp only [stepAt, List.getElem?_cons_succ]
    rw [stepAt_getElem? E es i j]
    simp

theorem stepAt_length (E : Engines) : ∀ (es : List Ev) (i : Nat), (stepAt E i es).length = es.length
  | [], _ => by simp [stepAt]
  | _ :: _, 0 => by simp [stepAt]
  | _ :: es, i + 1 => by simp [stepAt, stepAt_length E es i]

theorem runSched_length (E : Engines) : ∀ (sch : List Nat) (es : List Ev), (runSched E sch es).length = es.length
  | [], _ => rfl
  | i :: sch, es => by
    show (runSched E sch (stepAt E i es)).length = es.length
    rw [runSched_length E sch, stepAt_length]

/-- under ANY schedule machine `j` has simply taken as many steps as it had turns: nobody else's
turn touches it -/
theorem runSched_getElem? (E : Engines) : ∀ (sch : List Nat) (es : List Ev) (j : Nat),
    (runSched E sch es)[j]? = (es[j]?).map (iter E (sch.count j))
  | [], es, j => by simp [runSched, iter]
  | i :: sch, es, j => by
    show (runSched E sch (stepAt E i es))[j]? = _
    rw [runSched_getElem? E sch, stepAt_getElem?]
    by_cases h : i = j
    · subst h
      simp only [if_true, Option.map_map, List.count_cons_self]
      congr 1
    ·       simp [h]

/-! ### the group table -/

theorem ids_append_none (b : Book) (g gid : Nat) (l : List Bytes) (h : Book.ids b gid = none) :
    Book.ids (b ++ [(g, l)]) gid = if g = gid then some l else none := by
  induction b with
  | nil => simp [Book.ids]
  | cons p rest ih =>
    obtain ⟨g', l'⟩ := p
    simp only [Book.ids, List.cons_append] at h ⊢
    by_cases hg : g' = gid
    · simp [hg] at h
    · simp only [hg, if_false] at h ⊢
      exact ih h

theorem ids_append_some (b : Book) (g gid : Nat) (l l0 : List Bytes) (h : Book.ids b gid = some l0) :
    Book.ids (b ++ [(g, l)]) gid = some l0 := by
  induction b with
  | nil => simp [Book.ids] at h
  | cons p rest ih =>
    obtain ⟨g', l'⟩ := p
    simp only [Book.ids, List.cons_append] at h ⊢
    by_cases hg : g' = gid
    · simpa [hg] using h
    · simp only [hg, if_false] at h ⊢
      exact ih h

theorem ids_filter (b : Book) (g gid : Nat) :
    Book.ids (b.filter (fun p => p.1 ≠ g)) gid = if g = gid then none else Book.ids b gid := by
  induction b with
  | nil => simp [Book.ids]
  | cons p rest ih =>
    obtain ⟨g', l'⟩ := p
    by_cases hg : g' = g
    · subst hg
      simp only [List.filter_cons, ne_eq, not_true_eq_false, decide_false, Bool.false_eq_true, if_false, ih]
      by_cases h2 : g' = gid
      · simp [h2]
      · simp [Book.ids, h2]
    · have : decide (g' ≠ g) = true := by simp [hg]
      simp only [List.filter_cons, this, if_true, Book.ids, ih]
      by_cases h2 : g' = gid
      · subst h2; simp; intro h; exact absurd h.symm hg
      · simp [h2]

/-- one event changes the list of group `gid` only in two ways: an announcement naming `me`
while the table has no entry installs exactly the announced list; a dissolve removes the entry -/
theorem apply_ids (me : Bytes) (b : Book) (op : Op) (gid : Nat) :
    Book.ids (Book.apply me b op) gid =
      match op with
      | .grouping g l => if g = gid ∧ me ∈ l ∧ Book.ids b gid = none then some l else Book.ids b gid
      | .dissolve g => if g = gid then none else Book.ids b gid := by
  cases op with
  | dissolve g => simp only [Book.apply]; exact ids_filter b g gid
  | grouping g l =>
    simp only [Book.apply]
    by_cases hm : me ∈ l
    · simp only [hm, if_true, true_and]
      cases hb : Book.ids b g with
      | some l0 =>
        by_cases hg : g = gid
        · subst hg; simp [hb]
        · simp [hg]
      | none =>
        by_cases hg : g = gid
        · subst hg; simp [ids_append_none b g g l hb, hb]
        · simp only [hg, false_and, if_false]
          cases hb2 : Book.ids b gid with
          | none => simp [ids_append_none b g gid l hb2, hg]
          | some l0 => exact ids_append_some b g gid l l0 hb2
    · simp [hm]

/-- whatever a node holds for `gid` after any sequence of events was announced for `gid`, names
the node, and is stored unchanged -/
theorem run_ids_announced (me : Bytes) (ops : List Op) (b0 : Book) (gid : Nat) (l : List Bytes)
    (h : Book.ids (ops.foldl (Book.apply me) b0) gid = some l) :
    Book.ids b0 gid = some l ∨ (Op.grouping gid l ∈ ops ∧ me ∈ l) := by
  induction ops generalizing b0 with
  | nil => exact Or.inl h
  | cons op ops ih =>
    rw [List.foldl_cons] at h
    rcases ih _ h with h1 | ⟨h1, h2⟩
    · rw [apply_ids] at h1
      cases op with
      | dissolve g =>
        simp only at h1
        by_cases hg : g = gid
        · simp [hg] at h1
        · simp only [hg, if_false] at h1; exact Or.inl h1
      | grouping g l' =>
        simp only at h1
        by_cases hc : g = gid ∧ me ∈ l' ∧ Book.ids b0 gid = none
        · simp only [hc, and_self, if_true, Option.some.injEq] at h1
          subst h1
          obtain ⟨hg, hm, _⟩ := hc
          subst hg
          exact Or.inr ⟨by simp, hm⟩
        · simp only [hc, if_false] at h1; exact Or.inl h1
    · exact Or.inr ⟨List.mem_cons_of_mem _ h1, h2⟩

/-! ### the node around the table (round 5, review H #6) -/

theorem nodeApply_ids (me : Bytes) (st : NodeSt) (op : NodeOp) (gid : Nat) :
    Book.ids (NodeSt.apply me st op).book gid =
      match op with
      | .grouping g l => if g = gid ∧ me ∈ l ∧ Book.ids st.book gid = none then some l else Book.ids st.book gid
      | .certified _ => Book.ids st.book gid
      | .dissolve g => if g = gid ∧ g ∈ st.shares then none else Book.ids st.book gid := by
  cases op with
  | grouping g l => simp only [NodeSt.apply]; exact apply_ids me st.book (.grouping g l) gid
  | certified g =>
    simp only [NodeSt.apply]
    cases Book.ids st.book g with
    | none => rfl
    | some _ => by_cases hm : g ∈ st.shares <;> simp [hm]
  | dissolve g =>
    simp only [NodeSt.apply]
    by_cases hm : g ∈ st.shares
    · simp only [hm, if_true, and_true]
      exact apply_ids me st.book (.dissolve g) gid
    · simp [hm]

/-- whatever a NODE holds for `gid` after any sequence of announcements, certifications and dissolve
events was announced for `gid`, names the node, and is stored unchanged -/
theorem nodeRun_ids_announced (me : Bytes) (ops : List NodeOp) (st0 : NodeSt) (gid : Nat) (l : List Bytes)
    (h : Book.ids (ops.foldl (NodeSt.apply me) st0).book gid = some l) :
    Book.ids st0.book gid = some l ∨ (NodeOp.grouping gid l ∈ ops ∧ me ∈ l) := by
  induction ops generalizing st0 with
  | nil => exact Or.inl h
  | cons op ops ih =>
    rw [List.foldl_cons] at h
    rcases ih _ h with h1 | ⟨h1, h2⟩
    · rw [nodeApply_ids] at h1
      cases op with
      | certified g => exact Or.inl h1
      | dissolve g =>
        simp only at h1
        by_cases hg : g = gid ∧ g ∈ st0.shares
        · obtain ⟨rfl, hm⟩ := hg
          simp [hm] at h1
        · simp only [hg, if_false] at h1; exact Or.inl h1
      | grouping g l' =>
        simp only at h1
        by_cases hc : g = gid ∧ me ∈ l' ∧ Book.ids st0.book gid = none
        · simp only [hc, and_self, if_true, Option.some.injEq] at h1
          subst h1
          obtain ⟨hg, hm, _⟩ := hc
          subst hg
          exact Or.inr ⟨by simp, hm⟩
        · simp only [hc, if_false] at h1; exact Or.inl h1
    · exact Or.inr ⟨List.mem_cons_of_mem _ h1, h2⟩

/-- a share is held only for a group whose key generation was certified -/
theorem nodeRun_share_certified (me : Bytes) (ops : List NodeOp) (st0 : NodeSt) (gid : Nat)
    (h : gid ∈ (ops.foldl (NodeSt.apply me) st0).shares) :
    gid ∈ st0.shares ∨ NodeOp.certified gid ∈ ops := by
  induction ops generalizing st0 with
  | nil => exact Or.inl h
  | cons op ops ih =>
    rw [List.foldl_cons] at h
    rcases ih _ h with h1 | h1
    · cases op with
      | grouping g l => exact Or.inl (by simpa [NodeSt.apply] using h1)
      | dissolve g =>
        by_cases hm : g ∈ st0.shares
        · simp only [NodeSt.apply, hm, if_true, List.mem_filter] at h1; exact Or.inl h1.1
        · simp only [NodeSt.apply, hm, if_false] at h1; exact Or.inl h1
      | certified g =>
        simp only [NodeSt.apply] at h1
        cases hb : Book.ids st0.book g with
        | none => simp only [hb] at h1; exact Or.inl h1
        | some l0 =>
          simp only [hb] at h1
          by_cases hm : g ∈ st0.shares
          · simp only [hm, if_true] at h1; exact Or.inl h1
          · simp only [hm, if_false, List.mem_cons] at h1
            rcases h1 with rfl | h1
            · exact Or.inr (by simp)
            · exact Or.inl h1
    · exact Or.inr (List.mem_cons_of_mem _ h1)

/-- **an entry without a share is permanent**: as long as the key generation of `gid` is not certified,
no sequence of announcements and dissolve events changes the list the node holds for `gid` (a
dissolve is not acted on, and every later announcement of the id is refused as a duplicate) -/
theorem entry_without_share_stays (me : Bytes) (ops : List NodeOp) (st0 : NodeSt) (gid : Nat) (l0 : List Bytes)
    (h0 : Book.ids st0.book gid = some l0) (hs : gid ∉ st0.shares) (hc : NodeOp.certified gid ∉ ops) :
    Book.ids (ops.foldl (NodeSt.apply me) st0).book gid = some l0 ∧ gid ∉ (ops.foldl (NodeSt.apply me) st0).shares := by
  induction ops generalizing st0 with
  | nil => exact ⟨h0, hs⟩
  | cons op ops ih =>
    rw [List.foldl_cons]
    have hc' : NodeOp.certified gid ∉ ops := fun h => hc (List.mem_cons_of_mem _ h)
    apply ih _ _ _ hc'
    · rw [nodeApply_ids]
      cases op with
      | certified g => exact h0
      | dissolve g =>
        simp only
        by_cases hg : g = gid ∧ g ∈ st0.shares
        · exact absurd (hg.1 ▸ hg.2) hs
        · simp only [hg, if_false]; exact h0
      | grouping g l => simp [h0]
    · cases op with
      | grouping g l => simpa [NodeSt.apply] using hs
      | dissolve g =>
        by_cases hm : g ∈ st0.shares
        · simp only [NodeSt.apply, hm, if_true, List.mem_filter]; exact fun h => hs h.1
        · simpa [NodeSt.apply, hm] using hs
      | certified g =>
        have hne : g ≠ gid := fun h => hc (by simp [h])
        simp only [NodeSt.apply]
        cases Book.ids st0.book g with
        | none => exact hs
        | some _ =>
          by_cases hm : g ∈ st0.shares
          · simpa [hm] using hs
          · simp only [hm, if_false, List.mem_cons, not_or]; exact ⟨fun h => hne h.symm, hs⟩

end Dos.Eval

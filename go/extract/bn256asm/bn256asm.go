// Package bn256asm (E2): translates group/bn256/gfp.s (with gfp.h, mul.h,
// mul_bmi2.h) into Lean data for Model/AsmInterp.lean.
//
// The input is NOT our own macro expansion but what the Go assembler itself
// parsed and emitted:
//
//	go tool asm -p <pkg> -I . -debug -o <tmp>/x.o gfp.s   instruction list after macro expansion,
//	                                                       operands as written (a+8(FP), ·p2+8(SB))
//	go tool asm -p <pkg> -I . -S     -o <tmp>/x.o gfp.s   final Progs with resolved jump targets
//
// The two listings are cross-checked instruction by instruction (opcode and
// every operand except the frame-adjusted FP offsets); the -S listing is only
// used to resolve the two jump targets of gfpMul. Anything outside the twelve
// opcodes / known operand shapes is an extraction error (⇒ broken obligation).
package bn256asm

import (
	"fmt"
	"io/ioutil"
	"os"
	"os/exec"
	"path/filepath"
	"regexp"
	"strconv"
	"strings"

	"verifharness/extract/ex"
)

const pkgPath = "github.com/DOSNetwork/core/group/bn256"

func init() {
	ex.Register(&ex.Extractor{Name: "Bn256Asm", Run: run})
}

type ins struct {
	line int    // gfp.s source line
	pc   int    // byte offset (only from -S)
	op   string // opcode
	args []string
}

type fn struct {
	name       string
	frame, arg int
	textLine   int
	code       []ins
}

func asm(dir, tmp, flag string) (string, error) {
	cmd := exec.Command("go", "tool", "asm", "-p", pkgPath, "-I", ".", flag, "-o", filepath.Join(tmp, "x.o"), "gfp.s")
	cmd.Dir = dir
	cmd.Env = append(os.Environ(), "GOFLAGS=-mod=mod", "GOPROXY=off", "GOSUMDB=off", "GOTOOLCHAIN=local")
	out, err := cmd.CombinedOutput()
	if err != nil {
		return "", fmt.Errorf("go tool asm %s: %v: %s", flag, err, string(out))
	}
	return string(out), nil
}

var reDebug = regexp.MustCompile(`^\d+ \d+ \(gfp\.s:(\d+)\)\t(\S+)(?:\t(.*))?$`)
var reS = regexp.MustCompile(`^\t0x[0-9a-f]+ (\d+) \(gfp\.s:(\d+)\)\t(\S+)(?:\t(.*))?$`)
var reText = regexp.MustCompile(`^` + regexp.QuoteMeta(pkgPath) + `\.(\w+)\(SB\), (?:[A-Z|]+, )?\$(\d+)-(\d+)$`)

func splitArgs(s string) []string {
	s = strings.TrimSpace(s)
	if s == "" {
		return nil
	}
	parts := strings.Split(s, ", ")
	for i := range parts {
		parts[i] = strings.TrimSpace(parts[i])
	}
	return parts
}

func parseDebug(out string) ([]*fn, error) {
	var fns []*fn
	var cur *fn
	for _, l := range strings.Split(out, "\n") {
		if strings.TrimSpace(l) == "" {
			continue
		}
		m := reDebug.FindStringSubmatch(l)
		if m == nil {
			return nil, fmt.Errorf("unrecognised -debug line %q", l)
		}
		line, _ := strconv.Atoi(m[1])
		if m[2] == "TEXT" {
			t := reText.FindStringSubmatch(strings.TrimSpace(m[3]))
			if t == nil {
				return nil, fmt.Errorf("unrecognised TEXT operands %q", m[3])
			}
			fr, _ := strconv.Atoi(t[2])
			ar, _ := strconv.Atoi(t[3])
			cur = &fn{name: t[1], frame: fr, arg: ar, textLine: line}
			fns = append(fns, cur)
			continue
		}
		if cur == nil {
			return nil, fmt.Errorf("instruction before TEXT: %q", l)
		}
		cur.code = append(cur.code, ins{line: line, op: m[2], args: splitArgs(m[3])})
	}
	return fns, nil
}

// parseS returns, per function, the body instructions of the final listing
// (prologue / epilogue / metadata stripped) with their byte offsets.
func parseS(out string) (map[string][]ins, error) {
	res := map[string][]ins{}
	var name string
	var textLine int
	for _, l := range strings.Split(out, "\n") {
		m := reS.FindStringSubmatch(l)
		if m == nil {
			continue // symbol headers, hex dumps, relocations
		}
		pc, _ := strconv.Atoi(m[1])
		line, _ := strconv.Atoi(m[2])
		op := m[3]
		if op == "TEXT" {
			t := reText.FindStringSubmatch(strings.TrimSpace(m[4]))
			if t == nil {
				return nil, fmt.Errorf("unrecognised TEXT operands in -S listing %q", m[4])
			}
			name, textLine = t[1], line
			res[name] = nil
			continue
		}
		if name == "" {
			return nil, fmt.Errorf("-S instruction before TEXT: %q", l)
		}
		switch op {
		case "FUNCDATA", "PCDATA", "NOP":
			continue
		}
		if line == textLine {
			continue // stack-split prologue and the morestack tail are attributed to the TEXT line
		}
		args := splitArgs(m[4])
		// frame epilogue inserted in front of RET: ADDQ $n, SP ; POPQ BP
		if (op == "ADDQ" && len(args) == 2 && args[1] == "SP") || (op == "POPQ" && len(args) == 1 && args[0] == "BP") {
			continue
		}
		res[name] = append(res[name], ins{line: line, pc: pc, op: op, args: args})
	}
	return res, nil
}

var reFP = regexp.MustCompile(`^(\w+)(?:\+(\d+))?\(FP\)$`)
var reGlob = regexp.MustCompile(`^` + regexp.QuoteMeta(pkgPath) + `\.(\w+)(?:\+(\d+))?\(SB\)$`)
var reMem = regexp.MustCompile(`^(\d+)?\((\w+)\)$`)
var reImm = regexp.MustCompile(`^\$(\d+)$`)

var regs = map[string]bool{"AX": true, "BX": true, "DX": true, "DI": true, "SI": true, "R8": true, "R9": true, "R10": true,
	"R11": true, "R12": true, "R13": true, "R14": true, "R15": true}
var globs = map[string]bool{"p2": true, "np": true, "hasBMI2": true}

func reg(s string) (string, error) {
	if !regs[s] {
		return "", fmt.Errorf("register %q is outside the modelled register set", s)
	}
	return ".reg ." + s, nil
}
func bareReg(s string) (string, error) {
	if !regs[s] {
		return "", fmt.Errorf("register %q is outside the modelled register set", s)
	}
	return "." + s, nil
}

func opd(s string) (string, error) {
	if m := reImm.FindStringSubmatch(s); m != nil {
		return "(.imm " + m[1] + ")", nil
	}
	if regs[s] {
		return "(.reg ." + s + ")", nil
	}
	if m := reFP.FindStringSubmatch(s); m != nil {
		off := m[2]
		if off == "" {
			off = "0"
		}
		return "(.arg " + off + ")", nil
	}
	if m := reGlob.FindStringSubmatch(s); m != nil {
		if !globs[m[1]] {
			return "", fmt.Errorf("global %q is not modelled", m[1])
		}
		off := m[2]
		if off == "" {
			off = "0"
		}
		return "(.glob ." + m[1] + " " + off + ")", nil
	}
	if m := reMem.FindStringSubmatch(s); m != nil {
		off := m[1]
		if off == "" {
			off = "0"
		}
		if m[2] == "SP" {
			return "(.frame " + off + ")", nil
		}
		if !regs[m[2]] {
			return "", fmt.Errorf("base register %q is outside the modelled register set", m[2])
		}
		return "(.mem ." + m[2] + " " + off + ")", nil
	}
	return "", fmt.Errorf("operand %q has no modelled shape", s)
}

func sameOperand(a, b string) bool {
	if a == b {
		return true
	}
	ma, mb := reFP.FindStringSubmatch(a), reFP.FindStringSubmatch(b)
	return ma != nil && mb != nil && ma[1] == mb[1] // FP offsets are frame-adjusted in the final listing
}

func translate(f *fn, final []ins) ([]string, error) {
	if len(final) != len(f.code) {
		return nil, fmt.Errorf("%s: parsed listing has %d instructions, final listing %d", f.name, len(f.code), len(final))
	}
	pcIndex := map[int]int{}
	for i, s := range final {
		d := f.code[i]
		if s.op != d.op || s.line != d.line {
			return nil, fmt.Errorf("%s #%d: listings disagree: %s (gfp.s:%d) vs %s (gfp.s:%d)", f.name, i, d.op, d.line, s.op, s.line)
		}
		if d.op != "JEQ" && d.op != "JMP" {
			if len(s.args) != len(d.args) {
				return nil, fmt.Errorf("%s #%d %s: operand count differs", f.name, i, d.op)
			}
			for k := range s.args {
				if !sameOperand(d.args[k], s.args[k]) {
					return nil, fmt.Errorf("%s #%d %s: operand %q vs %q", f.name, i, d.op, d.args[k], s.args[k])
				}
			}
		}
		pcIndex[s.pc] = i
	}
	var out []string
	for i, d := range f.code {
		two := func() (string, string, error) {
			if len(d.args) != 2 {
				return "", "", fmt.Errorf("%s #%d %s: want 2 operands, have %v", f.name, i, d.op, d.args)
			}
			a, err := opd(d.args[0])
			if err != nil {
				return "", "", err
			}
			b, err := opd(d.args[1])
			return a, b, err
		}
		var l string
		switch d.op {
		case "MOVQ", "ADDQ", "ADCQ", "SUBQ", "SBBQ":
			a, b, err := two()
			if err != nil {
				return nil, fmt.Errorf("%s #%d: %v", f.name, i, err)
			}
			l = "." + strings.ToLower(d.op) + " " + a + " " + b
		case "CMPB":
			a, b, err := two()
			if err != nil {
				return nil, fmt.Errorf("%s #%d: %v", f.name, i, err)
			}
			l = ".cmpb " + a + " " + b
		case "CMOVQCC":
			if len(d.args) != 2 {
				return nil, fmt.Errorf("%s #%d CMOVQCC operands %v", f.name, i, d.args)
			}
			a, err := opd(d.args[0])
			if err != nil {
				return nil, fmt.Errorf("%s #%d: %v", f.name, i, err)
			}
			r, err := bareReg(d.args[1])
			if err != nil {
				return nil, fmt.Errorf("%s #%d: %v", f.name, i, err)
			}
			l = ".cmovqcc " + a + " " + r
		case "MULQ":
			if len(d.args) != 1 {
				return nil, fmt.Errorf("%s #%d MULQ operands %v", f.name, i, d.args)
			}
			a, err := opd(d.args[0])
			if err != nil {
				return nil, fmt.Errorf("%s #%d: %v", f.name, i, err)
			}
			l = ".mulq " + a
		case "MULXQ":
			if len(d.args) != 3 {
				return nil, fmt.Errorf("%s #%d MULXQ operands %v", f.name, i, d.args)
			}
			a, err := opd(d.args[0])
			if err != nil {
				return nil, fmt.Errorf("%s #%d: %v", f.name, i, err)
			}
			lo, err := bareReg(d.args[1])
			if err != nil {
				return nil, fmt.Errorf("%s #%d: %v", f.name, i, err)
			}
			hi, err := bareReg(d.args[2])
			if err != nil {
				return nil, fmt.Errorf("%s #%d: %v", f.name, i, err)
			}
			l = ".mulxq " + a + " " + lo + " " + hi
		case "JEQ", "JMP":
			s := final[i]
			if len(s.args) != 1 {
				return nil, fmt.Errorf("%s #%d %s: no resolved target", f.name, i, d.op)
			}
			pc, err := strconv.Atoi(s.args[0])
			if err != nil {
				return nil, fmt.Errorf("%s #%d %s: target %q", f.name, i, d.op, s.args[0])
			}
			t, ok := pcIndex[pc]
			if !ok {
				return nil, fmt.Errorf("%s #%d %s: target pc %d is not a body instruction", f.name, i, d.op, pc)
			}
			l = "." + strings.ToLower(d.op) + " " + strconv.Itoa(t)
		case "RET":
			l = ".ret"
		default:
			return nil, fmt.Errorf("%s #%d: opcode %s is outside the modelled instruction set", f.name, i, d.op)
		}
		out = append(out, l)
	}
	return out, nil
}

func run(repo string) (string, error) {
	dir := filepath.Join(repo, "group", "bn256")
	tmp, err := ioutil.TempDir("", "verif-bn256asm")
	if err != nil {
		return "", err
	}
	defer os.RemoveAll(tmp)
	dbg, err := asm(dir, tmp, "-debug")
	if err != nil {
		return "", err
	}
	lst, err := asm(dir, tmp, "-S")
	if err != nil {
		return "", err
	}
	fns, err := parseDebug(dbg)
	if err != nil {
		return "", err
	}
	final, err := parseS(lst)
	if err != nil {
		return "", err
	}
	want := map[string]bool{"gfpNeg": true, "gfpAdd": true, "gfpSub": true, "gfpMul": true}
	s := ex.Header("Bn256Asm", "group/bn256/gfp.s gfp.h mul.h mul_bmi2.h (go tool asm -debug / -S)")
	s += "import DosModel.Model.AsmSyntax\nnamespace Dos.Gen.Bn256Asm\nopen Dos.Asm\n"
	for _, f := range fns {
		if !want[f.name] {
			return "", fmt.Errorf("unexpected function %s in gfp.s", f.name)
		}
		delete(want, f.name)
		code, err := translate(f, final[f.name])
		if err != nil {
			return "", err
		}
		s += fmt.Sprintf("\n/-- %s: frame %d bytes, %d bytes of arguments, %d instructions -/\ndef %s : Func := { name := %s, frame := %d, args := %d, code := [\n",
			f.name, f.frame, f.arg, len(code), f.name, ex.LeanStr(f.name), f.frame, f.arg)
		for i, l := range code {
			sep := ","
			if i == len(code)-1 {
				sep = ""
			}
			s += fmt.Sprintf("  %s%s  -- %d gfp.s:%d\n", l, sep, i, f.code[i].line)
		}
		s += "] }\n"
	}
	for k := range want {
		return "", fmt.Errorf("function %s not found in gfp.s", k)
	}
	s += "\nend Dos.Gen.Bn256Asm\n"
	return s, nil
}

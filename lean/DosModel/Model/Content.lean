/-
Model of what a member signs (`dosnode/dos_stages.go`): `padOrTrim`,
`genSysRandom`, `genUserRandom`, `genQueryResult` (after `dataParse`),
`choseSubmitter`, and the strip of the trailing address in `recoverSign`.

Numbers are unbounded `Nat` (`*big.Int`, non-negative: they are `uint256`
event fields); `natBytes` is `big.Int.Bytes()` (minimal big-endian, empty for 0).
The selector engines behind `dataParse` (ajson / xmlquery) are NOT modelled: their result is a
parameter (the dispatch of `dataParse` around them is in Model/Eval.lean).
The sizes are parameters here; `Props/C07.lean` instantiates them with the
constants regenerated from the source (`Gen/DosnodeConsts.lean`).
-/
import DosModel.Model.Util

namespace Dos.Content
open Dos

/-- `padOrTrim(bb, size)`: same length → unchanged; longer → the LOW (last) `size` bytes;
shorter → left-padded with zero bytes. -/
def padOrTrim (bb : Bytes) (size : Nat) : Bytes :=
  if bb.length = size then bb
  else if bb.length > size then bb.drop (bb.length - size)
  else List.replicate (size - bb.length) 0 ++ bb

/-- `genSysRandom` on raw bytes: `append(padOrTrim(lastSysRand, randNumberSize), submitter...)` -/
def sysContentRaw (size : Nat) (last : Bytes) (addr : Bytes) : Bytes := padOrTrim last size ++ addr

/-- `genSysRandom` as `handleQuery` calls it: `lastRand.Bytes()` -/
def sysContent (size : Nat) (r : Nat) (addr : Bytes) : Bytes := sysContentRaw size (natBytes r) addr

/-- `genUserRandom`: requestId ‖ lastSysRand ‖ userSeed ‖ submitter, each number as `big.Int.Bytes()` -/
def userContentRaw (q r s addr : Bytes) : Bytes := q ++ r ++ s ++ addr
def userContent (q r s : Nat) (addr : Bytes) : Bytes := userContentRaw (natBytes q) (natBytes r) (natBytes s) addr

/-- `genQueryResult`: `append(msgReturn, submitter...)`, `msgReturn` = result of `dataParse` -/
def queryContent (parsed addr : Bytes) : Bytes := parsed ++ addr

inductive Strip where
  | ok (result : Bytes)
  /-- `t < 0`: an error is reported and the share is skipped (`continue`, /repo 419bec9; on the
  pinned commit the code went on to `make([]byte, t)` and panicked) -/
  | tooShort
  deriving DecidableEq, Repr

/-- `recoverSign`: `t := len(Content) - addrLen; if t < 0 { …; continue }; queryResult := make([]byte, t); copy(queryResult, Content)` -/
def stripResult (addrLen : Nat) (c : Bytes) : Strip :=
  if c.length < addrLen then .tooShort else .ok (c.take (c.length - addrLen))

/-- `choseSubmitter`: `lastSysRand.Uint64() % uint64(len(ids))`; `none` = integer division by zero -/
def submitterIdx (r n : Nat) : Option Nat :=
  if n = 0 then none else some (r % 2 ^ 64 % n)

def submitter (ids : List Bytes) (r : Nat) : Option Bytes :=
  match submitterIdx r ids.length with
  | none => none
  | some i => ids[i]?

/-- the threshold `handleQuery` passes to `dispatchSign` / `recoverSign` -/
def threshold (n : Nat) : Nat := n / 2 + 1

/-! ### line protocol (driver) -/

def showStrip : Strip → String
  | .ok r => "ok " ++ toHex r
  | .tooShort => "skipped"

def stepLine (size addrLen : Nat) (line : String) : String :=
  match words line with
  | ["pad", bs, k] =>
    match ofHex bs, k.toNat? with
    | some b, some k => toHex (padOrTrim b k)
    | _, _ => "bad-op"
  | ["sys", r, a] =>
    match r.toNat?, ofHex a with
    | some r, some a => toHex (sysContent size r a)
    | _, _ => "bad-op"
  | ["sysraw", bs, a] =>
    match ofHex bs, ofHex a with
    | some b, some a => toHex (sysContentRaw size b a)
    | _, _ => "bad-op"
  | ["user", q, r, s, a] =>
    match q.toNat?, r.toNat?, s.toNat?, ofHex a with
    | some q, some r, some s, some a => toHex (userContent q r s a)
    | _, _, _, _ => "bad-op"
  | ["userraw", q, r, s, a] =>
    match ofHex q, ofHex r, ofHex s, ofHex a with
    | some q, some r, some s, some a => toHex (userContentRaw q r s a)
    | _, _, _, _ => "bad-op"
  | ["submitter", r, n] =>
    match r.toNat?, n.toNat? with
    | some r, some n =>
      match submitterIdx r n with
      | some i => s!"idx {i}"
      | none => "panic div0"
    | _, _ => "bad-op"
  | ["strip", c] =>
    match ofHex c with
    | some c => showStrip (stripResult addrLen c)
    | none => "bad-op"
  -- `query`, `cq`, `subm`, `grp` lines: Model/Eval.lean (tried first by the driver)
  | ["threshold", n] =>
    match n.toNat? with
    | some n => toString (threshold n)
    | none => "bad-op"
  | _ => "bad-op"

end Dos.Content

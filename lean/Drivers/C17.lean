import DosModel.Model.Dispatch
import DosModel.Gen.P2PFlow
def main : IO Unit :=
  Dos.lineLoop (Dos.Dispatch.driverStep (Dos.Gen.handshakeDeadline && Dos.Gen.mergeErrorsReleases))

// Package dosnodeconsts regenerates DosModel/Gen/DosnodeConsts.lean from
// dosnode/dos_stages.go and dosnode/dos_query_handler.go: the two size
// constants and, translated from their Go expressions into Lean functions, the
// submitter index (choseSubmitter), the thresholds handleQuery passes to
// dispatchSign / recoverSign, the size handed to padOrTrim and the number of
// bytes recoverSign strips. go/ast only.
package dosnodeconsts

import (
	"fmt"
	"go/ast"
	"go/token"
	"path/filepath"

	"verifharness/extract/ex"
)

func init() { ex.Register(&ex.Extractor{Name: "DosnodeConsts", Run: run}) }

// tr translates an integer expression. vars maps Go identifiers / `len(x)` texts to Lean names.
func tr(e ast.Expr, vars map[string]string) (string, error) {
	switch x := e.(type) {
	case *ast.BasicLit:
		if x.Kind == token.INT {
			return x.Value, nil
		}
	case *ast.ParenExpr:
		s, err := tr(x.X, vars)
		return "(" + s + ")", err
	case *ast.Ident:
		if v, ok := vars[x.Name]; ok {
			return v, nil
		}
		return "", fmt.Errorf("unknown identifier %s", x.Name)
	case *ast.BinaryExpr:
		a, err := tr(x.X, vars)
		if err != nil {
			return "", err
		}
		b, err := tr(x.Y, vars)
		if err != nil {
			return "", err
		}
		switch x.Op {
		case token.ADD, token.MUL, token.QUO, token.REM:
			return fmt.Sprintf("(%s %s %s)", a, x.Op.String(), b), nil
		}
		return "", fmt.Errorf("operator %s not translated", x.Op)
	case *ast.CallExpr:
		// len(v)
		if id, ok := x.Fun.(*ast.Ident); ok && len(x.Args) == 1 {
			switch id.Name {
			case "len":
				if v, ok := vars["len("+exprText(x.Args[0])+")"]; ok {
					return v, nil
				}
				return "", fmt.Errorf("len of unknown %s", exprText(x.Args[0]))
			case "uint64", "int", "int64", "uint32":
				// conversion of a non-negative value that fits: identity
				return tr(x.Args[0], vars)
			}
		}
		// v.Uint64(): low 64 bits of a non-negative big.Int
		if sel, ok := x.Fun.(*ast.SelectorExpr); ok && sel.Sel.Name == "Uint64" && len(x.Args) == 0 {
			s, err := tr(sel.X, vars)
			return fmt.Sprintf("(%s %% 18446744073709551616)", s), err
		}
	}
	return "", fmt.Errorf("expression %s not translated", exprText(e))
}

func exprText(e ast.Expr) string {
	switch x := e.(type) {
	case *ast.Ident:
		return x.Name
	case *ast.SelectorExpr:
		return exprText(x.X) + "." + x.Sel.Name
	case *ast.ParenExpr:
		return "(" + exprText(x.X) + ")"
	case *ast.BasicLit:
		return x.Value
	case *ast.BinaryExpr:
		return exprText(x.X) + x.Op.String() + exprText(x.Y)
	case *ast.CallExpr:
		s := exprText(x.Fun) + "("
		for i, a := range x.Args {
			if i > 0 {
				s += ","
			}
			s += exprText(a)
		}
		return s + ")"
	}
	return fmt.Sprintf("<%T>", e)
}

// calls returns every call of the plain function `name` inside fd.
func calls(fd *ast.FuncDecl, name string) []*ast.CallExpr {
	var out []*ast.CallExpr
	ast.Inspect(fd, func(n ast.Node) bool {
		if c, ok := n.(*ast.CallExpr); ok {
			if id, ok := c.Fun.(*ast.Ident); ok && id.Name == name {
				out = append(out, c)
			}
		}
		return true
	})
	return out
}

// assignOf returns the right-hand side of the single `name := expr` inside fd.
func assignOf(fd *ast.FuncDecl, name string) (ast.Expr, error) {
	var found []ast.Expr
	ast.Inspect(fd, func(n ast.Node) bool {
		if a, ok := n.(*ast.AssignStmt); ok && len(a.Lhs) == 1 && len(a.Rhs) == 1 {
			if id, ok := a.Lhs[0].(*ast.Ident); ok && id.Name == name {
				found = append(found, a.Rhs[0])
			}
		}
		return true
	})
	if len(found) != 1 {
		return nil, fmt.Errorf("%d assignments to %s in %s", len(found), name, fd.Name.Name)
	}
	return found[0], nil
}

func run(repo string) (string, error) {
	_, stages, err := ex.Parse(filepath.Join(repo, "dosnode", "dos_stages.go"))
	if err != nil {
		return "", err
	}
	_, qh, err := ex.Parse(filepath.Join(repo, "dosnode", "dos_query_handler.go"))
	if err != nil {
		return "", err
	}
	c := ex.Consts(stages)
	for _, k := range []string{"randNumberSize", "addrLen"} {
		if c[k] == nil {
			return "", fmt.Errorf("constant %s not found in dosnode/dos_stages.go", k)
		}
	}
	consts := map[string]string{"randNumberSize": "randNumberSize", "addrLen": "addrLen"}

	// choseSubmitter: submitter := lastSysRand.Uint64() % uint64(len(ids))
	cs := ex.FuncDecl(stages, "", "choseSubmitter")
	if cs == nil {
		return "", fmt.Errorf("choseSubmitter not found")
	}
	rhs, err := assignOf(cs, "submitter")
	if err != nil {
		return "", err
	}
	subExpr, err := tr(rhs, map[string]string{"lastSysRand": "lastSysRand", "len(ids)": "n"})
	if err != nil {
		return "", fmt.Errorf("choseSubmitter: %v", err)
	}
	// and it must be used as ids[submitter] on every output
	usesIdx := false
	ast.Inspect(cs, func(n ast.Node) bool {
		if ix, ok := n.(*ast.IndexExpr); ok && exprText(ix.X) == "ids" && exprText(ix.Index) == "submitter" {
			usesIdx = true
		}
		return true
	})
	if !usesIdx {
		return "", fmt.Errorf("choseSubmitter no longer sends ids[submitter]")
	}

	// handleQuery: thresholds / participants at the call sites
	hq := ex.FuncDecl(qh, "DosNode", "handleQuery")
	if hq == nil {
		return "", fmt.Errorf("handleQuery not found")
	}
	nvars := map[string]string{"len(ids)": "n"}
	ds, rs := calls(hq, "dispatchSign"), calls(hq, "recoverSign")
	if len(ds) != 1 || len(ds[0].Args) != 8 || len(rs) != 1 || len(rs[0].Args) != 7 {
		return "", fmt.Errorf("handleQuery: unexpected dispatchSign/recoverSign call shape")
	}
	thrD, err := tr(ds[0].Args[6], nvars)
	if err != nil {
		return "", fmt.Errorf("dispatchSign threshold: %v", err)
	}
	thrR, err := tr(rs[0].Args[4], nvars)
	if err != nil {
		return "", fmt.Errorf("recoverSign threshold: %v", err)
	}
	partR, err := tr(rs[0].Args[5], nvars)
	if err != nil {
		return "", fmt.Errorf("recoverSign participants: %v", err)
	}
	csCalls := calls(hq, "choseSubmitter")
	if len(csCalls) != 1 || len(csCalls[0].Args) != 7 || exprText(csCalls[0].Args[3]) != "lastRand" || exprText(csCalls[0].Args[4]) != "ids" {
		return "", fmt.Errorf("handleQuery: choseSubmitter is no longer called with (lastRand, ids)")
	}

	// genSysRandom: padOrTrim(lastSysRand, randNumberSize)
	gs := ex.FuncDecl(stages, "", "genSysRandom")
	if gs == nil {
		return "", fmt.Errorf("genSysRandom not found")
	}
	pc := calls(gs, "padOrTrim")
	if len(pc) != 1 || len(pc[0].Args) != 2 || exprText(pc[0].Args[0]) != "lastSysRand" {
		return "", fmt.Errorf("genSysRandom: padOrTrim(lastSysRand, …) not found")
	}
	padSize, err := tr(pc[0].Args[1], consts)
	if err != nil {
		return "", fmt.Errorf("padOrTrim size: %v", err)
	}

	// recoverSign: t := len(sign.Content) - addrLen
	rsd := ex.FuncDecl(stages, "", "recoverSign")
	if rsd == nil {
		return "", fmt.Errorf("recoverSign not found")
	}
	trhs, err := assignOf(rsd, "t")
	if err != nil {
		return "", err
	}
	be, ok := trhs.(*ast.BinaryExpr)
	if !ok || be.Op != token.SUB || exprText(be.X) != "len(sign.Content)" {
		return "", fmt.Errorf("recoverSign: t is no longer len(sign.Content) - <n>: %s", exprText(trhs))
	}
	strip, err := tr(be.Y, consts)
	if err != nil {
		return "", fmt.Errorf("recoverSign strip length: %v", err)
	}

	// recoverSign: the order of recovery, verification under the group key and the single send on out
	var steps []string
	ast.Inspect(rsd, func(n ast.Node) bool {
		switch x := n.(type) {
		case *ast.CallExpr:
			if t := exprText(x.Fun); t == "tbls.Recover" || t == "bls.Verify" {
				arg := ""
				if len(x.Args) > 2 {
					arg = "(" + exprText(x.Args[1]) + "," + exprText(x.Args[2]) + ")"
				}
				steps = append(steps, t+arg)
			}
		case *ast.SendStmt:
			if exprText(x.Chan) == "out" {
				steps = append(steps, "send:out")
			}
		case *ast.ReturnStmt:
			if len(steps) > 0 && steps[len(steps)-1] == "send:out" {
				steps = append(steps, "return")
			}
		}
		return true
	})
	// reportQueryResult: which adaptor call for which request type
	rq := ex.FuncDecl(stages, "", "reportQueryResult")
	if rq == nil {
		return "", fmt.Errorf("reportQueryResult not found")
	}
	var rsteps []string
	ast.Inspect(rq, func(n ast.Node) bool {
		switch x := n.(type) {
		case *ast.IfStmt:
			rsteps = append(rsteps, "if:"+exprText(x.Cond))
		case *ast.CallExpr:
			if t := exprText(x.Fun); t == "chain.UpdateRandomness" || t == "chain.DataReturn" {
				rsteps = append(rsteps, t)
			}
		}
		return true
	})
	leanList := func(xs []string) string {
		out := "["
		for i, x := range xs {
			if i > 0 {
				out += ", "
			}
			out += ex.LeanStr(x)
		}
		return out + "]"
	}

	s := ex.Header("DosnodeConsts", "dosnode/dos_stages.go, dosnode/dos_query_handler.go")
	s += "namespace Dos.Gen\n"
	s += fmt.Sprintf("def randNumberSize : Nat := %s\n", c["randNumberSize"])
	s += fmt.Sprintf("def addrLen : Nat := %s\n", c["addrLen"])
	s += fmt.Sprintf("/-- choseSubmitter: `submitter := %s`, then `ids[submitter]` -/\n", exprText(rhs))
	s += fmt.Sprintf("def submitterExpr (lastSysRand n : Nat) : Nat := %s\n", subExpr)
	s += fmt.Sprintf("/-- handleQuery → dispatchSign threshold: `%s` -/\n", exprText(ds[0].Args[6]))
	s += fmt.Sprintf("def thresholdDispatch (n : Nat) : Nat := %s\n", thrD)
	s += fmt.Sprintf("/-- handleQuery → recoverSign nbThreshold: `%s`, nbParticipants: `%s` -/\n", exprText(rs[0].Args[4]), exprText(rs[0].Args[5]))
	s += fmt.Sprintf("def thresholdRecover (n : Nat) : Nat := %s\n", thrR)
	s += fmt.Sprintf("def participantsRecover (n : Nat) : Nat := %s\n", partR)
	s += fmt.Sprintf("/-- genSysRandom: `padOrTrim(lastSysRand, %s)` -/\n", exprText(pc[0].Args[1]))
	s += fmt.Sprintf("def padSize : Nat := %s\n", padSize)
	s += fmt.Sprintf("/-- recoverSign: `t := %s` -/\n", exprText(trhs))
	s += fmt.Sprintf("def stripLen : Nat := %s\n", strip)
	s += "/-- recoverSign: calls of tbls.Recover / bls.Verify (with their key and message arguments), sends on out and the return after it, in source order -/\n"
	s += fmt.Sprintf("def recoverSignSteps : List String := %s\n", leanList(steps))
	s += "/-- reportQueryResult: conditions and adaptor calls in source order -/\n"
	s += fmt.Sprintf("def reportSteps : List String := %s\n", leanList(rsteps))
	s += "end Dos.Gen\n"
	return s, nil
}

/-
C20 (round 5) — the guard of `point.Mul` (fix /repo ec5317f): a scalar with a[31] > 127 (outside the contract of the
ref10 window recoding; only `scalar.UnmarshalBinary` makes one) is reduced modulo ℓ by the translated `scReduce`
on a ‖ 0³² before the multiplication.  With it `P.Mul(s, nil)` is (leNat s)•B for EVERY 32-byte scalar, and
`P.Mul(s, A)` is (leNat s)•A for every point A of the prime-order subgroup ((leNat s mod ℓ)•A in general).
Before the fix the top digit of the recoding exceeded 8, `selectCached`/`selectPreComputed` returned the identity for
it, and the result was not a multiple determined by the scalar's value (review 5-F, finding 2).
-/
import DosModel.Proofs.GeLawful
import DosModel.Proofs.GeScalarMultBase
import DosModel.Proofs.Ed25519RangesReduce

set_option exponentiation.threshold 600

namespace Dos.Ge
open Dos Dos.Ed25519 Dos.FeProg Dos.FeOps Dos.GeProg Dos.Ed25519Prime Dos.Edwards Dos.Gen.Ed25519Sc

theorem scReduce_length (s : Bytes) : (scReduce shrI s).length = 32 := by
  rw [scReduce_eq_app, scReduce_store_eq]; rfl

theorem top_byte_of_lt (b : Bytes) (hl : b.length = 32) (h : leNat b < 2 ^ 255) : (b.getD 31 0).toNat ≤ 127 := by
  have := natLE_top (leNat b) h
  rwa [← hl, natLE_leNat] at this

theorem mulScalar_of_le (a : Bytes) (h31 : (a.getD 31 0).toNat ≤ 127) : mulScalar a = a := by
  unfold mulScalar; rw [if_neg (by omega)]

/-- the scalar handed to the window recoding: 32 bytes, top byte ≤ 127, the same value modulo ℓ — and the same bytes
when the caller's scalar was within the contract -/
theorem mulScalar_spec (a : Bytes) (hlen : a.length = 32) :
    (mulScalar a).length = 32 ∧ ((mulScalar a).getD 31 0).toNat ≤ 127 ∧ leNat (mulScalar a) % ell = leNat a % ell
    ∧ ((a.getD 31 0).toNat ≤ 127 → mulScalar a = a)
    ∧ (127 < (a.getD 31 0).toNat → leNat (mulScalar a) = leNat a % ell) := by
  by_cases h : (a.getD 31 0).toNat ≤ 127
  · rw [mulScalar_of_le a h]
    exact ⟨hlen, h, rfl, fun _ => rfl, fun h' => absurd h' (by omega)⟩
  · have hm : mulScalar a = scReduce shrI (a ++ List.replicate 32 0) := by
      unfold mulScalar; rw [if_pos (by omega)]
    have hl64 : (a ++ List.replicate 32 (0 : UInt8)).length = 64 := by simp [hlen]
    have hv : leNat (scReduce shrI (a ++ List.replicate 32 0)) = leNat a % ell := by
      have h1 := scReduce_full (a ++ List.replicate 32 0) hl64
      have h0 : leNat (List.replicate 32 (0 : UInt8)) = 0 := by decide
      rw [leNat_append, h0, Nat.mul_zero, Nat.add_zero] at h1
      exact_mod_cast h1
    have hlt : leNat a % ell < 2 ^ 255 := by
      have : leNat a % ell < ell := Nat.mod_lt _ (by decide)
      have : ell < 2 ^ 255 := by decide
      omega
    rw [hm]
    refine ⟨scReduce_length _, top_byte_of_lt _ (scReduce_length _) (by rw [hv]; exact hlt), ?_, fun h' => absurd h' h,
      fun _ => hv⟩
    rw [hv, Nat.mod_mod]

/-- **`P.Mul(s, A)` for every 32-byte scalar** (fixed code): the base-point form is (leNat s)•B; the general form is
(leNat s)•A whenever ℓ•A = 0, and (leNat (mulScalar s))•A — the value reduced modulo ℓ when a[31] > 127 — always -/
theorem ptMul_spec_any {basePt : Pt} (htab : BaseTableOK basePt) (hord : ell • basePt = 0) (a : Bytes)
    (hlen : a.length = 32) :
    GoodExt (ptMul a none) (leNat a • basePt)
    ∧ (∀ (q : Ext) (Q : Pt), GoodExt q Q → GoodExt (ptMul a (some q)) (leNat (mulScalar a) • Q))
    ∧ (∀ (q : Ext) (Q : Pt), GoodExt q Q → ell • Q = 0 → GoodExt (ptMul a (some q)) (leNat a • Q)) := by
  obtain ⟨hl, h31, hmod, _, _⟩ := mulScalar_spec a hlen
  have key : ∀ Q : Pt, ell • Q = 0 → leNat (mulScalar a) • Q = leNat a • Q := by
    intro Q hQ
    have e1 : ∀ n : ℕ, n • Q = (n % ell) • Q := by
      intro n
      conv_lhs => rw [← Nat.div_add_mod n ell]
      rw [add_smul, mul_comm, mul_smul, hQ, smul_zero, zero_add]
    rw [e1 (leNat (mulScalar a)), e1 (leNat a), hmod]
  refine ⟨?_, ?_, ?_⟩
  · have := geScalarMultBase_spec htab (mulScalar a) hl h31
    rw [key basePt hord] at this
    exact this
  · intro q Q hq
    exact geScalarMult_spec (mulScalar a) hl h31 hq
  · intro q Q hq hQ
    have := geScalarMult_spec (mulScalar a) hl h31 hq
    rw [key Q hQ] at this
    exact this

end Dos.Ge

/-
C12 — handler models, part 6: the nesting-depth guard of `dataParse` (`dosnode/dos_stages.go`, /repo 14409e8).

Every evaluator / encoder behind `dataParse` (ajson `Unpack`, `json.Marshal`, the XPath evaluator, xmlquery's
`OutputXML`) recurses once per nesting level of the fetched document, and a goroutine stack overflow is a FATAL
error that the deferred `recover()` of `dataParse` cannot catch.  The guard refuses a document nested deeper than
`maxDocumentDepth` before anything recursive runs.

* `jsonScan` / `jsonDepthExceeds`: transcription of the byte scanner (string-aware bracket count);
* `XTree`, `xmlDepthExceeds`: the XML side at specification level (height of the parsed tree; the pointer walk of
  the Go function is exercised by the `deep` cases at the limit and one above, not transcribed);
* `docGuard`: what `dataParse` does with the answer (flag `parseDepth`: both conditions are present).

The evaluators themselves stay outside the model (third party: fuzzed).
-/
import DosModel.Model.Handlers

namespace Dos.Handlers
open Dos

/-- `maxDocumentDepth` of dos_stages.go (tied by the `deep` cases at 1000 / 1001) -/
def maxDocumentDepth : Nat := 1000

structure ScanSt where
  depth : Nat := 0
  inString : Bool := false
  escaped : Bool := false
  deriving DecidableEq, Repr

/-- the loop body of `jsonDepthExceeds` over the remaining bytes; `depth - 1` is Go's `if depth > 0 { depth-- }` -/
def jsonScan (max : Nat) : ScanSt → Bytes → Bool
  | _, [] => false
  | s, c :: r =>
    if s.inString then
      if s.escaped then jsonScan max { s with escaped := false } r
      else if c = 0x5c then jsonScan max { s with escaped := true } r
      else if c = 0x22 then jsonScan max { s with inString := false } r
      else jsonScan max s r
    else if c = 0x22 then jsonScan max { s with inString := true } r
    else if c = 0x5b || c = 0x7b then
      (if s.depth + 1 > max then true else jsonScan max { s with depth := s.depth + 1 } r)
    else if c = 0x5d || c = 0x7d then jsonScan max { s with depth := s.depth - 1 } r
    else jsonScan max s r

def jsonDepthExceeds (max : Nat) (b : Bytes) : Bool := jsonScan max {} b

/-- a parsed XML document: only its shape matters here -/
inductive XTree where
  | node (kids : List XTree)

mutual
def XTree.height : XTree → Nat
  | .node ks => XTree.heightList ks
def XTree.heightList : List XTree → Nat
  | [] => 0
  | k :: ks => Nat.max (k.height + 1) (XTree.heightList ks)
end

/-- `xmlDepthExceeds root max`: some node lies more than `max` levels below the root -/
def xmlDepthExceeds (max : Nat) (t : XTree) : Bool := decide (t.height > max)

/-- a chain of `d` nested elements -/
def XTree.chain : Nat → XTree
  | 0 => .node []
  | d + 1 => .node [XTree.chain d]

/-- what `dataParse` does once the depth question is answered: refuse, or evaluate (third party). Without the
guard a deep document reaches the recursive evaluators: stack overflow, fatal (seen from 8·10⁵ levels on). -/
def docGuard (cfg : Cfg) (deep : Bool) : Out :=
  if deep then (if cfg.parseDepth then .err "deep" else .panic "dosnode.dataParse|stack|evaluators recurse once per nesting level")
  else .ok "eval"

def dataParseJson (cfg : Cfg) (doc : Bytes) : Out := docGuard cfg (jsonDepthExceeds maxDocumentDepth doc)
def dataParseXml (cfg : Cfg) (t : XTree) : Out := docGuard cfg (xmlDepthExceeds maxDocumentDepth t)

/-! documents of the `deep <kind> <d>` case lines (mirrors `deepDoc` of go/props/c12/ops_fuzz.go) -/

def rep (n : Nat) (s : Bytes) : Bytes := (List.replicate n s).flatten

def asc (s : String) : Bytes := s.toUTF8.toList

def deepJson (kind : String) (d : Nat) : Option Bytes :=
  if kind == "json" then some (rep d (asc "[") ++ rep d (asc "]"))
  else if kind == "jsonobj" || kind == "jsondesc" then some (rep d (asc "{\"a\":") ++ asc "1" ++ rep d (asc "}"))
  else if kind == "jsonstr" then some (asc "[\"" ++ rep d (asc "[{") ++ asc "\",\"" ++ rep d (asc "\\\\\\\"[") ++ asc "\"]")
  else if kind == "jsonmix" then some (rep d (asc "[\"]\",{\"a\":") ++ asc "1" ++ rep d (asc "}]"))
  else none

/-- nesting depth of the XML kinds (elements below the document node, text nodes included) -/
def deepXml (kind : String) (d : Nat) : Option Nat :=
  if kind == "xml" then some d
  else if kind == "xmldesc" then some (d + 1)
  else if kind == "xmlwide" then some 2
  else none

/-- the model's line for a `deep` case. The nested JSON kinds are built with at most 4·max levels: what lies behind
the first max+1 opening brackets cannot change the scanner's answer (`jsonScan_prefix`), and the lines that matter
have millions of levels. -/
def deepLine (cfg : Cfg) (kind : String) (d : Nat) : Option String :=
  match deepJson kind (if kind == "jsonstr" then d else Nat.min d (4 * maxDocumentDepth)) with
  | some doc => some (dataParseJson cfg doc).show
  | none => (deepXml kind d).map (fun h => (docGuard cfg (decide (h > maxDocumentDepth))).show)

end Dos.Handlers

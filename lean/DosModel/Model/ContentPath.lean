/-
C07, round 5 — the signed content in a GROUP: what each of the n members is served by the data
source (the requester controls the server: it may answer members differently, cut the transfer, send
an over-long body), what each member therefore signs, sends and – the submitter – reports.

* `dataFetch`: the transfer result and the 16 MiB bound of dosnode/dos_stages.go (`maxDocumentSize`,
  regenerated: `Gen.DosnodeFlow.maxDocumentSize`, pinned by `c07_fetch_bound`);
* `memberParsed`: dataFetch, then `Eval.dataParse`, for one member;
* `groupRun`: every member runs `Query.handleQuery` (Model/Query.lean, shared with C01: content stage →
  genSign → dispatchSign → recoverSign → reportQueryResult) on ITS OWN fetch result; the shares the
  non-submitters send are what the submitter's collector hands to its recovery stage, in the order
  the members ran.

Since /repo 7f58072 a member whose content stage failed sends no share (a nil message never reaches
the wire) and a submitter whose content stage failed neither registers nor collects.
Core Lean only (the driver links it).
-/
import DosModel.Model.Eval
import DosModel.Model.Query

namespace Dos.ContentPath
open Dos Dos.Content

/-! ### dataFetch -/

/-- `dataFetch(url)`: `tr = none` – `client.Get` or the read of the body failed (connection refused
or cut, body shorter than announced); `some body` – a complete answer.  At most `maxDoc + 1` bytes are
read (`io.LimitReader(r.Body, maxDocumentSize+1)`) and `len(body) > maxDocumentSize` is an error: a
document of at most `maxDoc` bytes is handed on unchanged, a longer one is refused, and with an error
the document is `nil`. -/
def dataFetch (maxDoc : Nat) (tr : Option Bytes) : Option Bytes :=
  match tr with
  | none => none
  | some body => if maxDoc < body.length then none else some body

/-- the same on lengths (what the `fetch` lines of the correspondence run print: the document of a
boundary case has 16 MiB and is not written down) -/
def fetchLen (maxDoc len : Nat) : Option Nat := if maxDoc < len then none else some len

/-- `genQueryResult` from the transfer on: `dataFetch`, `dataParse`, `append(msgReturn, submitter...)` -/
def stageQuery (E : Eval.Engines) (maxDoc : Nat) (tr : Option Bytes) (sel addr : Bytes) : Option Bytes :=
  match dataFetch maxDoc tr with
  | none => none
  | some doc => Eval.queryResult E { doc := doc, sel := sel, addr := addr }

/-- the parse result a member hands to the content function: `none` = fetch or selector error -/
def memberParsed (E : Eval.Engines) (maxDoc : Nat) (tr : Option Bytes) (sel : Bytes) : Option Bytes :=
  match dataFetch maxDoc tr with
  | none => none
  | some doc =>
    match Eval.dataParse E doc sel with
    | .ok p => some p
    | _ => none

/-! ### the group -/

/-- the fields of the chain event, the same at every member -/
structure Fields where
  kind : Query.Kind
  rid : Nat
  last : Nat
  seed : Nat
  deriving Repr

/-- the request as member `i` handles it: the event fields and ITS parse result -/
def requestAt (f : Fields) (parsedAt : Nat → Option Bytes) (i : Nat) : Query.Request :=
  { kind := f.kind, rid := f.rid, last := f.last, seed := f.seed, parsed := parsedAt i }

/-- the share a non-submitter hands to `p.Request` (`none` = a nil message: nothing is sent) -/
def shareOf (o : Query.NodeOut) : Option Query.Msg :=
  match o.sent with
  | (_, m) :: _ => m
  | [] => none

structure GroupOut where
  sub : Nat                          -- index of the submitter in the member list
  sent : List Nat                    -- members whose share reached the submitter
  nils : List Nat                    -- members that had no share to send
  reports : List (Nat × Query.Report)  -- (member, report)
  deriving Repr

/-- all members run.  `order` = the order in which the non-submitters' shares reach the submitter's
collector; `extra` = anything else the collector hands on afterwards (the harness's flush share; in the
theorems: arbitrary messages). -/
def groupRun (C : Query.Crypto) (padSize addrLen : Nat) (ids : List Bytes) (signOf : Nat → Bytes → Bytes)
    (f : Fields) (parsedAt : Nat → Option Bytes) (order : List Nat) (extra : List (Option Query.Msg)) :
    Option GroupOut :=
  match submitterIdx f.last ids.length with
  | none => none
  | some subI =>
    let member (i : Nat) : Query.Member := { ids := ids, me := ids.getD i [], signOwn := signOf i }
    let peers := order.filter (fun i => i ≠ subI)
    let outs := peers.map (fun i => (i, Query.handleQuery C padSize addrLen (member i) (requestAt f parsedAt i) []))
    let shares := outs.filterMap (fun p => (shareOf p.2).map (fun m => (p.1, m)))
    let fc : List (Option Query.Msg) := shares.map (fun p => some p.2) ++ extra
    let so := Query.handleQuery C padSize addrLen (member subI) (requestAt f parsedAt subI) fc
    some { sub := subI,
           sent := shares.map (·.1),
           nils := (outs.filter (fun p => (shareOf p.2).isNone)).map (·.1),
           reports := (outs.flatMap (fun p => p.2.reports.map (fun r => (p.1, r)))) ++ so.reports.map (fun r => (subI, r)) }

/-! ### line protocol (driver) -/

def insertSorted (x : Nat) : List Nat → List Nat
  | [] => [x]
  | y :: ys => if x ≤ y then x :: y :: ys else y :: insertSorted x ys

def sortNat (l : List Nat) : List Nat := l.foldr insertSorted []

def showNats (l : List Nat) : String :=
  if l.isEmpty then "-" else String.intercalate "," ((sortNat l).map toString)

/-- `fetch <len> direct | empty <addr> | other <addr> | cut | eof` -/
def fetchLine (maxDoc : Nat) (ws : List String) : String :=
  let pr : Option Nat → String
    | some k => s!"ok {k}"
    | none => "err"
  match ws with
  | [_, "cut"] => "err"
  | [_, "eof"] => "err"
  | [len, "direct"] =>
    match len.toNat? with
    | some len => pr (fetchLen maxDoc len)
    | none => "bad-op"
  | [len, "empty", a] =>
    match len.toNat?, ofHex a with
    | some len, some a => pr ((fetchLen maxDoc len).map (· + a.length))
    | _, _ => "bad-op"
  | [len, "other", a] =>
    match len.toNat?, ofHex a with
    | some len, some a => pr ((fetchLen maxDoc len).map (fun _ => a.length))
    | _, _ => "bad-op"
  | _ => "bad-op"

/-- `pm <kind> <n> <ids> <last> <rid> <seed> <sel> <doc> <parsed> <doc2> <parsed2> <blen> <faults> <order>` -/
def pmLine (padSize addrLen maxDoc : Nat) (ws : List String) : String :=
  match ws with
  | [kind, n, ids, last, rid, seed, sel, doc, parsed, doc2, parsed2, blen, faults, order] =>
    match Query.parseKind kind, n.toNat?, Query.hexList ids, last.toNat?, rid.toNat?, seed.toNat?,
          ofHex sel, ofHex doc, ofHex doc2, blen.toNat?, csvNat order with
    | some kind, some n, some ids, some last, some rid, some seed, some sel, some doc, some doc2, some blen, some order =>
      let p1 := if parsed == "-" then some (Eval.Parsed.ok []) else Eval.parsedOfTok parsed
      let p2 := if parsed2 == "-" then some (Eval.Parsed.ok []) else Eval.parsedOfTok parsed2
      match p1, p2 with
      | some p1, some p2 =>
        if ids.length ≠ n ∨ faults.length ≠ n then "bad-op" else
        let fl := faults.toList
        -- an over-long body that the bound lets through would have to be written down: not modelled
        if fl.contains 'b' ∧ (fetchLen maxDoc blen).isSome then "unmodelled: a body of blen bytes passes the bound" else
        let parsedAt (i : Nat) : Option Bytes :=
          match fl.getD i 'c' with
          | 'o' => memberParsed (Eval.recordedEngines p1) maxDoc (some doc) sel
          | '2' => memberParsed (Eval.recordedEngines p2) maxDoc (some doc2) sel
          | _ => none      -- 'c', 'e': no complete answer; 'b': longer than the bound (checked above)
        let f : Fields := { kind := kind, rid := rid, last := last, seed := seed }
        match submitter ids last with
        | none => "panic submitter"
        | some sub =>
          -- the contents that occur: what a member served <doc> signs, what a member served <doc2> signs
          let cOf (p : Option Bytes) : Bytes :=
            (Query.contentFor padSize { kind := kind, rid := rid, last := last, seed := seed, parsed := p } sub).getD []
          let contents : List Bytes :=
            [cOf (memberParsed (Eval.recordedEngines p1) maxDoc (some doc) sel),
             cOf (memberParsed (Eval.recordedEngines p2) maxDoc (some doc2) sel)]
          let t := threshold n
          let C := Query.symCrypto contents t n
          let signOf (i : Nat) (c : Bytes) : Bytes :=
            match Query.contentIdx contents c with
            | some k => [1, UInt8.ofNat i, UInt8.ofNat k]
            | none => []
          let flush : Option Query.Msg :=
            some { index := kind.ptype, rid := natBytes rid, content := none, sig := some [1] }
          match groupRun C padSize addrLen ids signOf f parsedAt order [flush] with
          | none => "panic submitter"
          | some o =>
            let tag := if kind = .sys then "rand" else "data"
            let reps := o.reports.map (fun p => s!"{p.1}:{tag}:{toHex p.2.result}")
            s!"sub={o.sub} sent={showNats o.sent} nil={showNats o.nils} rep=" ++
              (if reps.isEmpty then "-" else String.intercalate "," reps)
      | _, _ => "bad-op"
    | _, _, _, _, _, _, _, _, _, _, _ => "bad-op"
  | _ => "bad-op"

/-- `grpk <n> <gid> <ids> <lastRand>`: every member's group table after the announcement (the key
generation does not touch the list), then `choseSubmitter` on it -/
def grpkLine (ws : List String) : String :=
  match ws with
  | [n, gid, ids, r] =>
    match n.toNat?, gid.toNat?, Query.hexList ids, r.toNat? with
    | some n, some gid, some ids, some r =>
      String.intercalate " " ((List.range n).map (fun k =>
        let b := Eval.Book.run (ids.getD k []) [.grouping gid ids]
        match Eval.Book.ids b gid with
        | none => s!"{k}:unfinished"
        | some l =>
          match submitter l r with
          | some id => s!"{k}:n={l.length} id " ++ toHex id
          | none => s!"{k}:panic div0"))
    | _, _, _, _ => "bad-op"
  | _ => "bad-op"

/-- `grpd <n> <gid> <ids1> <ids2> <share|noshare> <lastRand>`: announce, key generation completed or
not, dissolve event, re-announce in another order (key generation again if the id is accepted), request
event – at every member, over the node-level table `Eval.NodeSt` -/
def grpdLine (ws : List String) : String :=
  match ws with
  | [n, gid, ids1, ids2, mode, r] =>
    match n.toNat?, gid.toNat?, Query.hexList ids1, Query.hexList ids2, r.toNat? with
    | some n, some gid, some ids1, some ids2, some r =>
      let share := mode == "share"
      let indexIn (l : List Bytes) (x : Bytes) : String :=
        let rec go : List Bytes → Nat → String
          | [], _ => "?"
          | y :: ys, i => if y = x then toString i else go ys (i + 1)
        go l 0
      String.intercalate " " ((List.range n).map (fun k =>
        let me := ids1.getD k []
        let ops1 : List Eval.NodeOp :=
          [.grouping gid ids1] ++ (if share then [.certified gid] else []) ++ [.dissolve gid]
        let st1 := Eval.NodeSt.run me ops1
        -- the second key generation runs only where the id was accepted again
        let st2 := Eval.NodeSt.apply me st1 (.grouping gid ids2)
        let st3 := if share then Eval.NodeSt.apply me st2 (.certified gid) else st2
        let after := match Eval.Book.ids st1.book gid with
          | some _ => "kept"
          | none => "gone"
        let fin := match Eval.Book.ids st3.book gid with
          | none => "none"
          | some l =>
            match submitter l r with
            | some id => s!"n={l.length} id " ++ toHex id
            | none => "panic div0"
        let hasShare := decide (gid ∈ st3.shares)
        let req := match Eval.NodeSt.submitterOf st3 gid r with
          | none => "-"
          | some sub => if sub = me then "-" else "to=" ++ indexIn ids2 sub
        s!"{k}:{after} {fin} share={if hasShare then 1 else 0} req={req}"))
    | _, _, _, _, _ => "bad-op"
  | _ => "bad-op"

/-- one event of an `evs` line that starts a pipeline: the chain event (C01's event layer,
`Query.requestOf`) and, for a URL query, what fetch + parse give -/
def parseEvent (tok : String) : Option (Option Query.Event) :=
  match tok.splitOn ":" with
  | ["R", last, g] => do
    let last ← last.toNat?
    let g ← g.toNat?
    pure (some (.updateRandom last g))
  | ["U", q, last, seed, g] => do
    let q ← q.toNat?
    let last ← last.toNat?
    let seed ← seed.toNat?
    let g ← g.toNat?
    pure (some (.requestUserRandom q last seed g))
  | ["Q", q, last, g, sel, doc, parsed] => do
    let q ← q.toNat?
    let last ← last.toNat?
    let g ← g.toNat?
    let sel ← ofHex sel
    let doc ← ofHex doc
    let p ← Eval.parsedOfTok parsed
    let res := match Eval.dataParse (Eval.recordedEngines p) doc sel with
      | .ok b => some b
      | _ => none
    pure (some (.url q res last g))
  | ["C", _] => some none      -- LogStartCommitReveal: handleCR, no pipeline
  | ["K", _] => some none      -- LogPublicKeyAccepted
  | ["X"] => some none         -- an event type the loop ignores
  | _ => none

/-- `evs <n> <me> <gid> <ids> <events>`: what member `me` sends / reports for every request event, in
event order.  Each event is handled on its own: the handlers started by one event loop share nothing
in the model – that the code's handlers do not disturb each other through the event objects they are
handed is what the `evs` cases check. -/
def evsLine (padSize addrLen : Nat) (ws : List String) : String :=
  match ws with
  | [n, me, gid, ids, evs] =>
    match n.toNat?, me.toNat?, gid.toNat?, Query.hexList ids, (evs.splitOn ",").mapM parseEvent with
    | some n, some me, some gid, some ids, some evs =>
      let indexed := (List.range evs.length).zip evs
      let outs := indexed.filterMap (fun (p : Nat × Option Query.Event) =>
        match p.2 with
        | none => none
        | some ev =>
          let k := p.1
          let r := Query.requestOf ev
          if ev.gid ≠ gid then some (s!"{k}:-", 0) else
          match submitterIdx r.last ids.length, submitter ids r.last with
          | some subI, some sub =>
            match Query.contentFor padSize r sub with
            | none => some (s!"{k}:-", if subI ≠ me then 1 else 0)
            | some c =>
              if subI ≠ me then some (s!"{k}:to={subI}:" ++ toHex c, 0)
              else if n = 1 then
                match stripResult addrLen c with
                | .ok res => some (s!"{k}:rep=" ++ (if r.kind = .sys then "rand" else "data") ++ ":" ++ toHex res, 0)
                | .tooShort => some (s!"{k}:-", 0)
              else some (s!"{k}:-", 0)
          | _, _ => some (s!"{k}:panic submitter", 0))
      let nils := (outs.map (·.2)).foldl (· + ·) 0
      String.intercalate " " (outs.map (·.1) ++ [s!"nil={nils}"])
    | _, _, _, _, _ => "bad-op"
  | _ => "bad-op"

/-- `depth <form> <d>`: the documents of the boundary cases of the nesting guard.  JSON forms: the guard
is `Eval.jsonDepthExceeds` on the bytes; XML forms: the tree has `d` (`xml`) / `d + 1` (`xmlt`)
levels by construction.  Printed: `ok <length of the expected result>` | `err`. -/
def depthLine (maxDepth : Nat) (ws : List String) : String :=
  let rep (k : Nat) (s : String) : Bytes := (List.replicate k s.toUTF8.toList).flatten
  match ws with
  | [form, d] =>
    match d.toNat? with
    | none => "bad-op"
    | some d =>
      let one : Bytes := [0x31]
      match form with
      | "jarr" =>
        let doc := rep d "[" ++ one ++ rep d "]"
        if Eval.jsonDepthExceeds doc maxDepth then "err" else s!"ok {doc.length + 2}"
      | "jobj" =>
        let doc := rep d "{\"a\":" ++ one ++ rep d "}"
        if Eval.jsonDepthExceeds doc maxDepth then "err" else s!"ok {doc.length - 6 + 2}"
      | "jstr" =>
        let doc := "{\"s\":\"".toUTF8.toList ++ rep d "[" ++ "\"}".toUTF8.toList
        if Eval.jsonDepthExceeds doc maxDepth then "err" else s!"ok {d + 4}"
      | "xml" => if maxDepth < d then "err" else s!"ok {7 * (d - 1) + 1}"
      | "xmlt" => if maxDepth < d + 1 then "err" else s!"ok {7 * (d - 1) + 2}"
      | _ => "bad-op"
  | _ => "bad-op"

def stepLine (padSize addrLen maxDoc : Nat) (line : String) : Option String :=
  match words line with
  | "pm" :: rest => some (pmLine padSize addrLen maxDoc rest)
  | "fetch" :: rest => some (fetchLine maxDoc rest)
  | "grpk" :: rest => some (grpkLine rest)
  | "grpd" :: rest => some (grpdLine rest)
  | "depth" :: rest => some (depthLine Eval.maxDocumentDepth rest)
  | "evs" :: rest => some (evsLine padSize addrLen rest)
  | _ => none

end Dos.ContentPath

/-
C14: wait groups.  For a wait group that passes W5 the counter always equals the number of
goroutines that still owe their `wgDone` (so it never goes negative, and `wgWait` passes exactly
when every one of them is past its `wgDone`).
-/
import DosModel.Proofs.PipeSafe

namespace Dos.Pipe

/-- 1 if the goroutine still owes a `wgDone w` in this control state -/
def owe (gr : Goroutine) (w : Nat) (st : GSt) : Nat := if labelAt (owes gr w) (some st) then 1 else 0

theorem owe_at (gr : Goroutine) (w : Nat) (pc : Pc) :
    owe gr w (GSt.at pc) = if mark (owes gr w) pc then 1 else 0 := rfl
theorem owe_idle (gr : Goroutine) (w : Nat) : owe gr w GSt.idle = owe gr w (GSt.at 0) := rfl
theorem owe_done (gr : Goroutine) (w : Nat) : owe gr w GSt.done = 0 := rfl
theorem owe_at_true {gr : Goroutine} {w : Nat} {pc : Pc} (h : mark (owes gr w) pc = true) :
    owe gr w (GSt.at pc) = 1 := by rw [owe_at, h]; rfl
theorem owe_at_false {gr : Goroutine} {w : Nat} {pc : Pc} (h : mark (owes gr w) pc = false) :
    owe gr w (GSt.at pc) = 0 := by rw [owe_at, h]; rfl
theorem owe_at_congr {gr : Goroutine} {w : Nat} {pc n : Pc} (h : mark (owes gr w) n = mark (owes gr w) pc) :
    owe gr w (GSt.at n) = owe gr w (GSt.at pc) := by rw [owe_at, owe_at, h]

/-- total debt of the goroutines `grs` in control states `sts` -/
def debt (w : Nat) : List Goroutine → List GSt → Nat
  | gr :: grs, st :: sts => owe gr w st + debt w grs sts
  | _, _ => 0

theorem debt_set (w : Nat) : ∀ (grs : List Goroutine) (sts : List GSt) (i : Nat) (gr : Goroutine) (st st' : GSt),
    grs[i]? = some gr → sts[i]? = some st →
    debt w grs (sts.set i st') + owe gr w st = debt w grs sts + owe gr w st' := by
  intro grs
  induction grs with
  | nil => intro sts i gr st st' h; simp at h
  | cons g0 grs ih =>
    intro sts i gr st st' hg hs
    cases sts with
    | nil => simp at hs
    | cons s0 sts =>
      cases i with
      | zero =>
        simp only [List.getElem?_cons_zero, Option.some.injEq] at hg hs
        subst hg; subst hs
        simp only [List.set_cons_zero, debt]
        omega
      | succ i =>
        simp only [List.getElem?_cons_succ] at hg hs
        simp only [List.set_cons_succ, debt]
        have := ih sts i gr st st' hg hs
        omega

theorem debt_ge (w : Nat) : ∀ (grs : List Goroutine) (sts : List GSt) (i : Nat) (gr : Goroutine) (st : GSt),
    grs[i]? = some gr → sts[i]? = some st → owe gr w st ≤ debt w grs sts := by
  intro grs
  induction grs with
  | nil => intro sts i gr st h; simp at h
  | cons g0 grs ih =>
    intro sts i gr st hg hs
    cases sts with
    | nil => simp at hs
    | cons s0 sts =>
      cases i with
      | zero =>
        simp only [List.getElem?_cons_zero, Option.some.injEq] at hg hs
        subst hg; subst hs
        simp only [debt]; omega
      | succ i =>
        simp only [List.getElem?_cons_succ] at hg hs
        simp only [debt]
        have := ih sts i gr st hg hs
        omega

theorem owesOk_parts {gr : Goroutine} {w : Nat} (h : owesOk gr w = true) {pc : Pc} {nd : Node}
    (hn : gr.nodes[pc]? = some nd) :
    (nd.isExit = true → mark (owes gr w) pc = false) ∧
    (nd.isDone w = true → mark (owes gr w) pc = true ∧ ∀ j ∈ nd.succs, mark (owes gr w) j = false) ∧
    (nd.isDone w = false → ∀ j ∈ nd.succs, mark (owes gr w) j = mark (owes gr w) pc) := by
  unfold owesOk at h
  have := zipIdx_all h hn
  simp only [Bool.and_eq_true, Bool.or_eq_true, Bool.not_eq_true'] at this
  obtain ⟨h1, h2⟩ := this
  refine ⟨?_, ?_, ?_⟩
  · intro he
    rcases h1 with h1 | h1
    · rw [he] at h1; cases h1
    · exact h1
  · intro hd
    rw [if_pos hd] at h2
    simp only [Bool.and_eq_true, List.all_eq_true, Bool.not_eq_true'] at h2
    exact h2
  · intro hd
    rw [if_neg (by simp [hd])] at h2
    simp only [List.all_eq_true, beq_iff_eq] at h2
    exact h2

/-- all the facts about wait group `w` that the rules check -/
structure WgOk (p : Pipeline) (w : Nat) : Prop where
  owes : ∀ gr ∈ p.gs, owesOk gr w = true
  init : ∃ x, p.wgs[w]? = some x ∧ x.init = (p.gs.filter (fun gr => owesAtEntry gr w)).length

theorem wgOk_of_W5w {p : Pipeline} {w : Nat} (h : W5w p w = true) : WgOk p w := by
  unfold W5w at h
  simp only [Bool.and_eq_true, List.all_eq_true] at h
  refine ⟨h.1, ?_⟩
  have h2 := h.2
  split at h2
  · rename_i x hx
    exact ⟨x, hx, by simpa using h2⟩
  · cases h2

theorem debt_init (w : Nat) : ∀ (grs : List Goroutine),
    debt w grs (grs.map (fun g => if g.static then GSt.at 0 else GSt.idle)) =
      (grs.filter (fun gr => owesAtEntry gr w)).length := by
  intro grs
  induction grs with
  | nil => rfl
  | cons g grs ih =>
    simp only [List.map_cons, debt, List.filter_cons, ih]
    have : owe g w (if g.static then GSt.at 0 else GSt.idle) = if owesAtEntry g w then 1 else 0 := by
      cases g.static <;> rfl
    rw [this]
    split <;> simp <;> omega

theorem init_wg (p : Pipeline) (w : Nat) : (init p).wg w = match p.wgs[w]? with | some x => x.init | none => 0 := by
  unfold init State.wg
  simp only [List.getElem?_map]
  cases p.wgs[w]? <;> rfl

/-- position of goroutine `g` after an `act` step of `g` along an edge to `n` -/
theorem act_gs (s : State) (l : Lab) (g : Gi) (n : Pc) :
    ((effect s l).setG g (.at n)).gs = ((effect s l).gs).set g (.at n) := rfl

theorem effect_debt {p : Pipeline} (w : Nat) (s : State) (l : Lab) (hlen : s.gs.length = p.gs.length) :
    debt w p.gs (effect s l).gs = debt w p.gs s.gs := by
  rw [effect_gs]
  cases l <;> try rfl
  case spawn g =>
    simp only
    split
    · rename_i hidle
      have hlt := (List.getElem?_eq_some_iff.mp hidle).1
      have hg : ∃ gr, p.gs[g]? = some gr := by
        have : g < p.gs.length := by rw [← hlen]; exact hlt
        exact ⟨p.gs[g], by simp [this]⟩
      obtain ⟨gr, hg⟩ := hg
      have := debt_set w p.gs s.gs g gr GSt.idle (GSt.at 0) hg hidle
      have e : owe gr w GSt.idle = owe gr w (GSt.at 0) := owe_idle gr w
      omega
    · rfl

/-- **the counter invariant** -/
theorem wg_counts_debt {p : Pipeline} {w : Nat} (hw : WgOk p w) :
    ∀ s, Reach p s → s.gs.length = p.gs.length ∧ s.wg w = debt w p.gs s.gs := by
  apply reach_inv (I := fun s => s.gs.length = p.gs.length ∧ s.wg w = debt w p.gs s.gs)
  · obtain ⟨x, hx, hxi⟩ := hw.init
    refine ⟨by simp [init], ?_⟩
    rw [init_wg, hx]
    simp only [init]
    rw [debt_init, hxi]
  · intro s e s' _ ih hst
    obtain ⟨hlen, hcnt⟩ := ih
    cases hst with
    | env k hk hd => exact ⟨by simpa using hlen, by simpa using hcnt⟩
    | act g pc nd l n hat hnd hed hgd hdf =>
      refine ⟨by simp [effect_gs_length, hlen], ?_⟩
      obtain ⟨gr, hg, hn⟩ := node_some hnd
      have hok := owesOk_parts (hw.owes gr (List.mem_of_getElem? hg)) hn
      -- `g` is still at `pc` after the effect
      have hat2 : (effect s l).gs[g]? = some (GSt.at pc) := by
        rw [effect_gs_get]
        split
        · rename_i hc; rw [hat] at hc; cases hc.2
        · exact hat
      have hset := debt_set w p.gs (effect s l).gs g gr (GSt.at pc) (GSt.at n) hg hat2
      rw [effect_debt w s l hlen] at hset
      simp only [State.setG_wg, State.setG_gs]
      have hsucc := mem_succs_of_edge hed
      by_cases hd : nd.isDone w = true
      · -- the edge is the `wgDone w` edge
        have hl : l = .wgDone w := by
          cases nd <;> simp [Node.isDone] at hd
          case wgDone w' n' =>
            subst hd
            simp [Node.edges] at hed
            exact hed.1
        subst hl
        have h1 : owe gr w (GSt.at pc) = 1 := owe_at_true (hok.2.1 hd).1
        have h2 : owe gr w (GSt.at n) = 0 := owe_at_false ((hok.2.1 hd).2 n hsucc)
        have hpos : 0 < s.wg w := by simpa [guard] using hgd
        have hin : w < s.wgs.length := by
          unfold State.wg at hpos
          cases hh : s.wgs[w]? with
          | none => simp [hh] at hpos
          | some x => exact (List.getElem?_eq_some_iff.mp hh).1
        rw [effect_wg, if_pos ⟨rfl, hin⟩]
        omega
      · have hd' : nd.isDone w = false := by simpa using hd
        have hl : l ≠ .wgDone w := by
          intro hl; subst hl
          rw [isDone_of_edge hed] at hd'; cases hd'
        have h1 : owe gr w (GSt.at n) = owe gr w (GSt.at pc) := owe_at_congr (hok.2.2 hd' n hsucc)
        rw [effect_wg, if_neg (by simp [hl])]
        omega
    | sync g pc nd n g' pc' nd' n' c hne hat hnd hed hat' hnd' hed' hcap hcl =>
      refine ⟨by simp [hlen], ?_⟩
      obtain ⟨gr, hg, hn⟩ := node_some hnd
      obtain ⟨gr', hg', hn'⟩ := node_some hnd'
      have hok := owesOk_parts (hw.owes gr (List.mem_of_getElem? hg)) hn
      have hok' := owesOk_parts (hw.owes gr' (List.mem_of_getElem? hg')) hn'
      have hd : nd.isDone w = false := by
        cases h : nd.isDone w with
        | false => rfl
        | true =>
          cases nd <;> simp [Node.isDone] at h
          simp [Node.edges] at hed
      have hd' : nd'.isDone w = false := by
        cases h : nd'.isDone w with
        | false => rfl
        | true =>
          cases nd' <;> simp [Node.isDone] at h
          simp [Node.edges] at hed'
      have h1 : owe gr w (GSt.at n) = owe gr w (GSt.at pc) := owe_at_congr (hok.2.2 hd n (mem_succs_of_edge hed))
      have h2 : owe gr' w (GSt.at n') = owe gr' w (GSt.at pc') := owe_at_congr (hok'.2.2 hd' n' (mem_succs_of_edge hed'))
      have hat2 : (s.setG g (GSt.at n)).gs[g']? = some (GSt.at pc') := by
        rw [State.setG_get_ne hne]; exact hat'
      have hs1 := debt_set w p.gs s.gs g gr (GSt.at pc) (GSt.at n) hg hat
      have hs2 := debt_set w p.gs (s.setG g (GSt.at n)).gs g' gr' (GSt.at pc') (GSt.at n') hg' hat2
      simp only [State.setG_wg, State.setG_gs] at hs2 ⊢
      omega
    | exit g pc hat hnd =>
      refine ⟨by simp [hlen], ?_⟩
      obtain ⟨gr, hg, hn⟩ := node_some hnd
      have hok := owesOk_parts (hw.owes gr (List.mem_of_getElem? hg)) hn
      have h1 : owe gr w (GSt.at pc) = 0 := owe_at_false (hok.1 (by simp [Node.isExit]))
      have h2 : owe gr w GSt.done = 0 := owe_done gr w
      have hs1 := debt_set w p.gs s.gs g gr (GSt.at pc) GSt.done hg hat
      simp only [State.setG_wg, State.setG_gs]
      omega

/-- a wait group that passes W5 never goes negative -/
theorem wg_safe {p : Pipeline} {w : Nat} (h : W5w p w = true) : ¬ CrashReachable p (.wgNegative w) := by
  have hw := wgOk_of_W5w h
  rintro ⟨s, e, g, pc, hr, hst⟩
  cases hst with
  | crash g pc nd l n k hat hnd hed hk =>
    obtain ⟨hl, h0⟩ := crashOf_wg hk
    subst hl
    obtain ⟨hlen, hcnt⟩ := wg_counts_debt hw s hr
    obtain ⟨gr, hg, hn⟩ := node_some hnd
    have hok := owesOk_parts (hw.owes gr (List.mem_of_getElem? hg)) hn
    have h1 : owe gr w (GSt.at pc) = 1 := owe_at_true (hok.2.1 (isDone_of_edge hed)).1
    have := debt_ge w p.gs s.gs g gr (GSt.at pc) hg hat
    omega

end Dos.Pipe

// Package bnref is a small math/big reference for alt_bn128: base field, Fp2, affine
// G1 (y²=x³+3) and twist (y²=x³+3/(i+9)) arithmetic, square roots, and encoders.
// It shares no code with /repo/group/bn256 nor with go-ethereum; the harnesses of C11
// and C06 use it as an independent oracle and to build hostile inputs (points off the
// curve, points on the twist outside the order-r subgroup, non-canonical coordinates).
package bnref

import "math/big"

var (
	P, _  = new(big.Int).SetString("21888242871839275222246405745257275088696311157297823662689037894645226208583", 10)
	Rn, _ = new(big.Int).SetString("21888242871839275222246405745257275088548364400416034343698204186575808495617", 10)
	one   = big.NewInt(1)
	three = big.NewInt(3)
)

func mod(a *big.Int) *big.Int { return a.Mod(a, P) }
func Add(a, b *big.Int) *big.Int { return mod(new(big.Int).Add(a, b)) }
func Sub(a, b *big.Int) *big.Int { return mod(new(big.Int).Sub(a, b)) }
func Mul(a, b *big.Int) *big.Int { return mod(new(big.Int).Mul(a, b)) }
func Neg(a *big.Int) *big.Int    { return mod(new(big.Int).Neg(a)) }
func Inv(a *big.Int) *big.Int    { return new(big.Int).ModInverse(a, P) }

// Sqrt returns a square root of a mod p (p ≡ 3 mod 4), or nil.
func Sqrt(a *big.Int) *big.Int {
	e := new(big.Int).Add(P, one)
	e.Rsh(e, 2)
	s := new(big.Int).Exp(a, e, P)
	if Mul(s, s).Cmp(new(big.Int).Mod(a, P)) != 0 {
		return nil
	}
	return s
}

// F2 is Im·i + Re with i² = −1.
type F2 struct{ Im, Re *big.Int }

func NewF2(im, re *big.Int) F2 { return F2{new(big.Int).Set(im), new(big.Int).Set(re)} }
func (a F2) IsZero() bool      { return a.Im.Sign() == 0 && a.Re.Sign() == 0 }
func (a F2) Eq(b F2) bool      { return a.Im.Cmp(b.Im) == 0 && a.Re.Cmp(b.Re) == 0 }
func F2Add(a, b F2) F2         { return F2{Add(a.Im, b.Im), Add(a.Re, b.Re)} }
func F2Sub(a, b F2) F2         { return F2{Sub(a.Im, b.Im), Sub(a.Re, b.Re)} }
func F2Neg(a F2) F2            { return F2{Neg(a.Im), Neg(a.Re)} }
func F2Mul(a, b F2) F2 {
	return F2{Add(Mul(a.Im, b.Re), Mul(a.Re, b.Im)), Sub(Mul(a.Re, b.Re), Mul(a.Im, b.Im))}
}
func F2Inv(a F2) F2 {
	n := Inv(Add(Mul(a.Im, a.Im), Mul(a.Re, a.Re)))
	return F2{Mul(Neg(a.Im), n), Mul(a.Re, n)}
}

// F2Sqrt: square root in Fp2 (complex method), or ok=false.
func F2Sqrt(a F2) (F2, bool) {
	if a.Im.Sign() == 0 {
		if s := Sqrt(a.Re); s != nil {
			return F2{new(big.Int), s}, true
		}
		s := Sqrt(Neg(a.Re)) // a.Re = −s² = (s·i)²
		if s == nil {
			return F2{}, false
		}
		return F2{s, new(big.Int)}, true
	}
	// a = (x·i + y)²:  y² − x² = Re, 2xy = Im.  norm = Re² + Im² must be a square.
	n := Sqrt(Add(Mul(a.Re, a.Re), Mul(a.Im, a.Im)))
	if n == nil {
		return F2{}, false
	}
	half := Inv(big.NewInt(2))
	for _, nn := range []*big.Int{n, Neg(n)} {
		y2 := Mul(Add(a.Re, nn), half)
		y := Sqrt(y2)
		if y == nil || y.Sign() == 0 {
			continue
		}
		x := Mul(a.Im, Inv(Add(y, y)))
		r := F2{x, y}
		if F2Mul(r, r).Eq(a) {
			return r, true
		}
	}
	return F2{}, false
}

// TwistB = 3/(i+9)
var TwistB = func() F2 {
	return F2Mul(F2{new(big.Int), big.NewInt(3)}, F2Inv(F2{big.NewInt(1), big.NewInt(9)}))
}()

// P1 is an affine G1 point; Inf = identity.
type P1 struct {
	X, Y *big.Int
	Inf  bool
}

func G1Gen() P1 { return P1{big.NewInt(1), big.NewInt(2), false} }
func OnCurve1(x, y *big.Int) bool {
	return Mul(y, y).Cmp(Add(Mul(Mul(x, x), x), three)) == 0
}
func Neg1(a P1) P1 {
	if a.Inf {
		return a
	}
	return P1{a.X, Neg(a.Y), false}
}
func Add1(a, b P1) P1 {
	if a.Inf {
		return b
	}
	if b.Inf {
		return a
	}
	var l *big.Int
	if a.X.Cmp(b.X) == 0 {
		if a.Y.Cmp(b.Y) != 0 || a.Y.Sign() == 0 {
			return P1{Inf: true}
		}
		l = Mul(Mul(three, Mul(a.X, a.X)), Inv(Add(a.Y, a.Y)))
	} else {
		l = Mul(Sub(b.Y, a.Y), Inv(Sub(b.X, a.X)))
	}
	x3 := Sub(Sub(Mul(l, l), a.X), b.X)
	return P1{x3, Sub(Mul(l, Sub(a.X, x3)), a.Y), false}
}
func Mul1(k *big.Int, a P1) P1 {
	r := P1{Inf: true}
	for i := k.BitLen() - 1; i >= 0; i-- {
		r = Add1(r, r)
		if k.Bit(i) == 1 {
			r = Add1(r, a)
		}
	}
	return r
}

// P2 is an affine twist point.
type P2 struct {
	X, Y F2
	Inf  bool
}

func G2Gen() P2 {
	s := func(v string) *big.Int { n, _ := new(big.Int).SetString(v, 10); return n }
	return P2{
		F2{s("11559732032986387107991004021392285783925812861821192530917403151452391805634"), s("10857046999023057135944570762232829481370756359578518086990519993285655852781")},
		F2{s("4082367875863433681332203403145435568316851327593401208105741076214120093531"), s("8495653923123431417604973247489272438418190587263600148770280649306958101930")}, false}
}
func OnTwist(x, y F2) bool {
	return F2Mul(y, y).Eq(F2Add(F2Mul(F2Mul(x, x), x), TwistB))
}
func Neg2(a P2) P2 {
	if a.Inf {
		return a
	}
	return P2{a.X, F2Neg(a.Y), false}
}
func Add2(a, b P2) P2 {
	if a.Inf {
		return b
	}
	if b.Inf {
		return a
	}
	var l F2
	if a.X.Eq(b.X) {
		if !a.Y.Eq(b.Y) || a.Y.IsZero() {
			return P2{Inf: true}
		}
		xx := F2Mul(a.X, a.X)
		l = F2Mul(F2Add(F2Add(xx, xx), xx), F2Inv(F2Add(a.Y, a.Y)))
	} else {
		l = F2Mul(F2Sub(b.Y, a.Y), F2Inv(F2Sub(b.X, a.X)))
	}
	x3 := F2Sub(F2Sub(F2Mul(l, l), a.X), b.X)
	return P2{x3, F2Sub(F2Mul(l, F2Sub(a.X, x3)), a.Y), false}
}
func Mul2(k *big.Int, a P2) P2 {
	r := P2{Inf: true}
	for i := k.BitLen() - 1; i >= 0; i-- {
		r = Add2(r, r)
		if k.Bit(i) == 1 {
			r = Add2(r, a)
		}
	}
	return r
}
func InSubgroup2(a P2) bool { return Mul2(Rn, a).Inf }

func be32(v *big.Int) []byte {
	b := v.Bytes()
	out := make([]byte, 32)
	copy(out[32-len(b):], b)
	return out
}

// Enc1: 64 bytes x‖y, identity = zeros.
func Enc1(a P1) []byte {
	if a.Inf {
		return make([]byte, 64)
	}
	return append(be32(a.X), be32(a.Y)...)
}

// Enc2: kyber form 0x01‖x.im‖x.re‖y.im‖y.re, identity = 0x00.
func Enc2(a P2) []byte {
	if a.Inf {
		return []byte{0}
	}
	out := []byte{1}
	for _, c := range []*big.Int{a.X.Im, a.X.Re, a.Y.Im, a.Y.Re} {
		out = append(out, be32(c)...)
	}
	return out
}

// Enc2EVM: the 128-byte EVM form x.im‖x.re‖y.im‖y.re, identity = zeros.
func Enc2EVM(a P2) []byte {
	if a.Inf {
		return make([]byte, 128)
	}
	return Enc2(a)[1:]
}

package c01

import (
	"crypto/sha256"
	"fmt"
	"math/big"
	"strings"

	"github.com/DOSNetwork/core/dosnode"

	"verifharness/internal/h"
)

// a request under construction
type build struct {
	kind          string
	n             int
	seed          uint64
	byz           []int
	last, rid, us *big.Int
	doc           []byte
	sel           string
	fails         []int // url: members whose fetch is refused by the server
}

func (b *build) kase() *kase {
	k := &kase{kind: b.kind, n: b.n, seed: b.seed, byz: map[int]bool{}, last: b.last, rid: b.rid, seed2: b.us, doc: b.doc, sel: b.sel}
	for _, x := range b.byz {
		k.byz[x] = true
	}
	return k
}

// dataOf: the result part of the content for lastRand value `last` (what honest members sign before the address)
func (b *build) dataOf(last *big.Int) ([]byte, bool) {
	switch b.kind {
	case "sys":
		return pad32(last), true
	case "user":
		var c []byte
		for _, v := range []*big.Int{b.rid, last, b.us} {
			c = append(c, h.UnHex(evenHex(v))...)
		}
		return c, true
	}
	p, err := dosnode.VerifDataParse(append([]byte(nil), b.doc...), b.sel)
	if err != nil {
		return nil, false
	}
	return p, true
}

// alts: content 1 = "other content" (content 0 with its first byte changed: only Byzantine members sign it),
// content 2 = the content of ANOTHER request of the same group whose derived submitter is the Byzantine
// member x (honest members really sign it and send their shares to x).
func (b *build) alts(x int) [][]byte {
	k := b.kase()
	g := &group{n: b.n, ids: b.ids()}
	c0, ok := k.content0(g, k.submitter())
	if !ok {
		// nobody can compute the content (the selector fails everywhere): the other contents are free strings
		c1 := append([]byte("other-content"), g.ids[k.submitter()]...)
		if x < 0 {
			return [][]byte{c1}
		}
		return [][]byte{c1, append([]byte("foo"), g.ids[x]...)}
	}
	c1 := append([]byte(nil), c0...)
	c1[0] ^= 1
	if x < 0 {
		return [][]byte{c1}
	}
	lastA := new(big.Int).Add(b.last, big.NewInt(1))
	for int(new(big.Int).Mod(new(big.Int).Mod(lastA, two64), big.NewInt(int64(b.n))).Int64()) != x {
		lastA.Add(lastA, big.NewInt(1))
	}
	dA, _ := b.dataOf(lastA)
	cA := append(append([]byte(nil), dA...), g.ids[x]...)
	return [][]byte{c1, cA}
}

func (b *build) line(alts [][]byte, sched []string) string {
	bz := "-"
	if len(b.byz) > 0 {
		var s []string
		for _, x := range b.byz {
			s = append(s, fmt.Sprint(x))
		}
		bz = strings.Join(s, ",")
	}
	al := "-"
	if len(alts) > 0 {
		var s []string
		for _, a := range alts {
			s = append(s, h.Hex(a))
		}
		al = strings.Join(s, ";")
	}
	sc := "-"
	if len(sched) > 0 {
		sc = strings.Join(sched, ",")
	}
	sel := "-"
	if b.sel != "" {
		sel = h.Hex([]byte(b.sel))
	}
	var ids []string
	for _, id := range b.ids() {
		ids = append(ids, h.Hex(id))
	}
	parsed := "-"
	if b.kind == "url" {
		parsed = "err"
		if p, ok := b.dataOf(b.last); ok {
			parsed = h.Hex(p)
		}
		if len(b.fails) > 0 {
			var f []string
			for _, x := range b.fails {
				f = append(f, fmt.Sprint(x))
			}
			parsed += "!" + strings.Join(f, ",")
		}
	}
	return fmt.Sprintf("q %s %d %d %s %s %s %s %s %s %s %s %s %s", b.kind, b.n, b.seed, strings.Join(ids, ";"), bz, b.last, b.rid, b.us, h.Hex(b.doc), sel, parsed, al, sc)
}

// ids: the member list (20-byte addresses), a function of (n, seed)
func (b *build) ids() [][]byte {
	var out [][]byte
	for i := 0; i < b.n; i++ {
		d := sha256.Sum256([]byte(fmt.Sprintf("member/%d/%d/%d", b.n, b.seed, i)))
		id := d[:20]
		if i == 1 {
			id[0] = 0 // an address with a leading zero byte
		}
		out = append(out, id)
	}
	return out
}

// lastFor returns an interesting last randomness whose derived submitter is member `sub` of n.
func lastFor(rng *h.Rng, n, sub, flavour int) *big.Int {
	var v *big.Int
	switch flavour % 6 {
	case 0: // small
		v = big.NewInt(int64(rng.Intn(1000)))
	case 1: // < 2^64
		v = new(big.Int).SetUint64(rng.U64() >> 1)
	case 2: // > 2^64, random 32 bytes
		v = new(big.Int).SetBytes(rng.Bytes(32))
	case 3: // leading zero bytes
		v = new(big.Int).SetBytes(rng.Bytes(32 - 1 - rng.Intn(31)))
	case 4: // near 2^256-1
		v = new(big.Int).Sub(two256, big.NewInt(1+int64(rng.Intn(50))))
	default: // high bits set, low 64 bits small
		v = new(big.Int).Add(new(big.Int).Lsh(new(big.Int).SetBytes(rng.Bytes(20)), 64), big.NewInt(int64(rng.Intn(100))))
	}
	for int(new(big.Int).Mod(new(big.Int).Mod(v, two64), big.NewInt(int64(n))).Int64()) != sub {
		v.Add(v, big.NewInt(1))
		if v.Cmp(two256) >= 0 {
			v.Sub(v, big.NewInt(int64(2*n)))
		}
	}
	return v
}

var docsJSON = []string{
	`{"price": 42.5, "name": "dos", "items": [{"id": 1, "v": "a"}, {"id": 2, "v": "b"}]}`,
	`{"a": {"b": [1, 2, 3]}, "z": null, "k": "0x00"}`,
}
var selsJSON = []string{"$.price", "$.items[*].id", "$..v", "$.a.b[1]", ""}
var docsXML = []string{`<root><item id="1">x</item><item id="2">y</item><n>5</n></root>`}
var selsXML = []string{"//item", "/root/n", "//item[@id='2']"}

func newBuild(rng *h.Rng, kind string, n, sub, flavour int, byz []int) *build {
	b := &build{kind: kind, n: n, seed: uint64(rng.Intn(4)), byz: byz, rid: big.NewInt(0), us: big.NewInt(0)}
	b.last = lastFor(rng, n, sub, flavour)
	switch kind {
	case "user":
		b.rid = new(big.Int).SetBytes(rng.Bytes(1 + rng.Intn(32)))
		b.us = new(big.Int).SetBytes(rng.Bytes(rng.Intn(33)))
	case "url":
		b.rid = new(big.Int).SetBytes(rng.Bytes(1 + rng.Intn(32)))
		if r := rng.Intn(12); r == 0 {
			b.doc, b.sel = []byte(`{"a":1`), "$.a" // does not parse: nobody can compute the content
		} else if r < 4 {
			b.doc, b.sel = []byte(docsXML[0]), selsXML[rng.Intn(len(selsXML))]
		} else {
			b.doc, b.sel = []byte(docsJSON[rng.Intn(len(docsJSON))]), selsJSON[rng.Intn(len(selsJSON))]
		}
	}
	return b
}

func perms(a []string) [][]string {
	if len(a) <= 1 {
		return [][]string{append([]string(nil), a...)}
	}
	var out [][]string
	for i := range a {
		rest := append(append([]string(nil), a[:i]...), a[i+1:]...)
		for _, p := range perms(rest) {
			out = append(out, append([]string{a[i]}, p...))
		}
	}
	return out
}

func shuffled(rng *h.Rng, a []string) []string {
	p := rng.Perm(len(a))
	out := make([]string, len(a))
	for i, j := range p {
		out[i] = a[j]
	}
	return out
}

func insertAt(a []string, pos int, x ...string) []string {
	out := append([]string(nil), a[:pos]...)
	out = append(out, x...)
	return append(out, a[pos:]...)
}

// genHist: consecutive requests on one set of nodes with the same derived submitter; the Byzantine member x
// sends its VALID share in an early request (so that the submitter's process has verified those bytes) and
// replays exactly those bytes, relabelled, in later requests - ahead of the honest shares, so that they are
// among the first t usable entries - together with the other foreign-request flavours.
func genHist(tier string, rng *h.Rng, emit func(string)) {
	kinds := []string{"sys", "user"}
	nMax := 4
	reps := 1
	if tier == "thorough" {
		nMax, reps = 7, 3
	}
	fl := 500
	for n := 3; n <= nMax; n++ {
		for rep := 0; rep < 2*reps; rep++ {
			sub := rng.Intn(n)
			x := (sub + 1 + rng.Intn(n-1)) % n
			var hs []string
			for j := 0; j < n; j++ {
				if j != sub && j != x {
					hs = append(hs, fmt.Sprintf("h%d", j))
				}
			}
			var ids []string
			var words []string
			nreq := 3 + rng.Intn(2)
			seenRid := map[string]bool{}
			for r := 0; r < nreq; r++ {
				b := newBuild(rng, kinds[(r+rep)%2], n, sub, fl, []int{x})
				fl++
				for seenRid[b.kase().rid0().String()] { // request ids of one history are pairwise different
					b = newBuild(rng, kinds[(r+rep)%2], n, sub, fl, []int{x})
					fl++
				}
				seenRid[b.kase().rid0().String()] = true
				if r == 0 {
					b.seed = uint64(rep % 4)
				}
				if ids == nil {
					for _, id := range b.ids() {
						ids = append(ids, h.Hex(id))
					}
					words = []string{"hist", fmt.Sprint(n), fmt.Sprint(b.seed), strings.Join(ids, ";"), fmt.Sprint(x)}
				}
				var sched []string
				switch {
				case r == 0: // x takes part honestly: its share is verified and used (it arrives first)
					sched = append([]string{"S", fmt.Sprintf("m1.0.V%d.0", x)}, shuffled(rng, hs)...)
				case r == 1 && rep%2 == 1: // a fresh foreign-request share first (never verified anywhere)
					sched = append([]string{"S", "m1.0.J" + fmt.Sprint(x)}, shuffled(rng, hs)...)
				case r%2 == 1: // the replay right behind the own share, before every honest share
					sched = append([]string{"S", fmt.Sprintf("m1.0.P%d.0", x)}, shuffled(rng, hs)...)
				default: // the replay buffered before the submitter starts
					sched = append([]string{fmt.Sprintf("m1.0.P%d.%d", x, 0), "S"}, shuffled(rng, hs)...)
				}
				words = append(words, fmt.Sprintf("%s/%s/%s/%s/%s", b.kind, b.last, b.rid, b.us, strings.Join(sched, ",")))
			}
			emit(strings.Join(words, " "))
		}
	}
}

func gen(tier string, rng *h.Rng, emit func(string)) {
	genEv(tier, rng, emit)
	genHist(tier, rng, emit)
	thorough := tier == "thorough"
	kinds := []string{"sys", "user", "url"}
	fl := 0
	// 1. honest groups: every submitter index; n=3 every arrival order and every position of the own start
	for n := 3; n <= 7; n++ {
		for sub := 0; sub < n; sub++ {
			kind := kinds[(n+sub)%3]
			b := newBuild(rng, kind, n, sub, fl, nil)
			fl++
			var hs []string
			for j := 0; j < n; j++ {
				if j != sub {
					hs = append(hs, fmt.Sprintf("h%d", j))
				}
			}
			if n == 3 || (thorough && n == 4) {
				for _, p := range perms(append([]string{"S"}, hs...)) {
					emit(b.line(nil, p))
				}
			} else {
				reps := 1
				if thorough {
					reps = 6
				}
				for r := 0; r < reps; r++ {
					emit(b.line(nil, shuffled(rng, append([]string{"S"}, hs...))))
				}
			}
			if sub == 0 || thorough {
				t := n/2 + 1
				// exactly t-1 others: just enough; t-2 others: not enough
				emit(b.line(nil, shuffled(rng, append([]string{"S"}, shuffled(rng, hs)[:t-1]...))))
				emit(b.line(nil, shuffled(rng, append([]string{"S"}, shuffled(rng, hs)[:t-2]...))))
				// a duplicated delivery
				d := append([]string{"S"}, hs...)
				d = append(d, hs[0])
				emit(b.line(nil, shuffled(rng, d)))
			}
		}
	}
	// 2. Byzantine behaviours against an honest submitter
	type beh struct {
		name string
		msgs func(x int, honest []int) []string // x = the Byzantine member
	}
	behs := []beh{
		{"own-valid", func(x int, _ []int) []string { return []string{fmt.Sprintf("m1.0.V%d.0", x)} }},
		{"trailing-byte", func(x int, _ []int) []string { return []string{fmt.Sprintf("m1.0.T%d.0", x)} }},
		{"invalid-junk", func(x int, _ []int) []string {
			return []string{fmt.Sprintf("m1.0.J%d", x), fmt.Sprintf("m1.0.J%d", 200+x)}
		}},
		{"invalid-othershare", func(x int, _ []int) []string { return []string{fmt.Sprintf("m1.0.V%d.1", x)} }},
		{"short-empty", func(x int, _ []int) []string { return []string{"m1.0.E"} }},
		{"short-1", func(x int, _ []int) []string { return []string{"m1.0.S1"} }},
		{"nil-sig", func(x int, _ []int) []string { return []string{"m1.0.N"} }},
		{"nil-content", func(x int, _ []int) []string { return []string{fmt.Sprintf("m1.n.V%d.0", x)} }},
		{"foreign-request", func(x int, _ []int) []string { return []string{fmt.Sprintf("m0.0.V%d.0", x), "m0.0.S1"} }},
		{"foreign-group", func(x int, _ []int) []string { return []string{fmt.Sprintf("m1.0.G%d", x)} }},
		{"other-content", func(x int, _ []int) []string { return []string{fmt.Sprintf("m1.1.V%d.1", x)} }},
		{"other-type", func(x int, _ []int) []string { return []string{fmt.Sprintf("m1.0.V%d.0~%d", x, 7)} }},
		{"cross-request", func(x int, honest []int) []string {
			out := []string{fmt.Sprintf("m1.2.V%d.2", x)}
			for _, j := range honest {
				out = append(out, fmt.Sprintf("m1.2.V%d.2", j))
			}
			return out
		}},
	}
	nsMax := 5
	if thorough {
		nsMax = 7
	}
	for n := 3; n <= nsMax; n++ {
		t := n/2 + 1
		for bi, bh := range behs {
			variants := 2
			if thorough {
				variants = 6
			}
			for v := 0; v < variants; v++ {
				sub := rng.Intn(n)
				x := (sub + 1 + rng.Intn(n-1)) % n
				kind := kinds[(bi+v+n)%3]
				b := newBuild(rng, kind, n, sub, fl, []int{x})
				fl++
				if n-t >= 2 && v%2 == 1 { // a second, silent Byzantine member
					y := (x + 1) % n
					if y == sub {
						y = (y + 1) % n
					}
					if y != x {
						b.byz = append(b.byz, y)
					}
				}
				isByz := map[int]bool{}
				for _, y := range b.byz {
					isByz[y] = true
				}
				var hs []string
				var honest []int
				for j := 0; j < n; j++ {
					if j != sub && !isByz[j] {
						hs = append(hs, fmt.Sprintf("h%d", j))
						honest = append(honest, j)
					}
				}
				honestAll := append([]int{sub}, honest...)
				alts := b.alts(x)
				ms := bh.msgs(x, honestAll)
				base := append([]string{"S"}, shuffled(rng, hs)...)
				var sched []string
				switch v % 3 {
				case 0: // Byzantine messages first (buffered before the submitter starts)
					sched = append(append([]string(nil), ms...), base...)
				case 1: // after the start, before the honest shares
					sched = insertAt(base, 1, ms...)
				default: // somewhere in between
					sched = insertAt(base, 1+rng.Intn(len(base)), ms...)
				}
				emit(b.line(alts, sched))
			}
		}
		// both encodings of one share (F1): own valid share and the same share with a trailing byte
		for v := 0; v < 2; v++ {
			sub := rng.Intn(n)
			x := (sub + 1) % n
			b := newBuild(rng, kinds[v%3], n, sub, fl, []int{x})
			fl++
			var hs []string
			for j := 0; j < n; j++ {
				if j != sub && j != x {
					hs = append(hs, fmt.Sprintf("h%d", j))
				}
			}
			ms := []string{fmt.Sprintf("m1.0.V%d.0", x), fmt.Sprintf("m1.0.T%d.0", x)}
			alts := b.alts(x)
			if v == 0 {
				emit(b.line(alts, append(append([]string{"S"}, ms...), hs...)))
			} else {
				emit(b.line(alts, append(append([]string{"S"}, hs...), ms...)))
			}
		}
	}
	// 2b. exactly t honest members; a Byzantine member sends a share that cannot verify but carries the index
	//     of an honest member whose genuine share is needed (junk, or another member's share relabelled):
	//     every victim, every arrival position. The genuine share must still count.
	nrMax := 7
	for n := 3; n <= nrMax; n++ {
		t := n/2 + 1
		sub := rng.Intn(n)
		var byz, honest []int // honest = the t-1 honest members besides the submitter
		for j := 1; j < n; j++ {
			m := (sub + j) % n
			if len(byz) < n-t {
				byz = append(byz, m)
			} else {
				honest = append(honest, m)
			}
		}
		if len(byz) == 0 {
			continue
		}
		for vi, victim := range honest {
			b := newBuild(rng, kinds[(n+vi)%3], n, sub, fl, byz)
			fl++
			alts := b.alts(byz[0])
			var hs []string
			for _, j := range honest {
				hs = append(hs, fmt.Sprintf("h%d", j))
			}
			base := append([]string{"S"}, shuffled(rng, hs)...)
			for pos := 0; pos <= len(base); pos++ {
				tok := fmt.Sprintf("m1.0.J%d", victim)
				if (pos+vi)%2 == 1 {
					tok = fmt.Sprintf("m1.0.R%d.%d", victim, byz[0])
				}
				emit(b.line(alts, insertAt(base, pos, tok)))
			}
		}
	}
	// 2c. URL requests whose FETCH fails at some members only (the requester controls the server), Review A #1 /
	//     finding F19: the submitter alone, the submitter together with a Byzantine cross-request replay that
	//     carries another traffic type (pre-fix: the honest submitter reported it), a non-submitter, everybody.
	for n := 3; n <= nsMax; n++ {
		t := n/2 + 1
		for v := 0; v < 6; v++ {
			sub := rng.Intn(n)
			x := (sub + 1 + rng.Intn(n-1)) % n
			var byz []int
			if v == 1 || v == 2 || v == 5 {
				byz = []int{x}
			}
			b := newBuild(rng, "url", n, sub, fl, byz)
			fl++
			if v == 5 {
				b.doc, b.sel = []byte(`{"a":1`), "$.a" // nobody has a content; the replayed one is "foo"
			} else if string(b.doc) == `{"a":1` {
				b.doc, b.sel = []byte(docsJSON[0]), selsJSON[0]
			}
			var hs []string
			var honest []int
			for j := 0; j < n; j++ {
				if j != sub && (len(byz) == 0 || j != x) {
					hs = append(hs, fmt.Sprintf("h%d", j))
					honest = append(honest, j)
				}
			}
			switch v {
			case 0, 1, 2: // the submitter's fetch fails
				b.fails = []int{sub}
			case 3: // one non-submitter's fetch fails: the rest still reaches the threshold iff n-1 >= t
				b.fails = []int{honest[rng.Intn(len(honest))]}
			case 4: // so many fail that fewer than t members can sign
				for _, j := range honest {
					if len(b.fails) < n-t+1 {
						b.fails = append(b.fails, j)
					}
				}
			}
			alts := b.alts(x)
			base := append([]string{"S"}, shuffled(rng, hs)...)
			var ms []string
			if len(byz) > 0 {
				suffix := "~7"
				if v == 2 {
					suffix = ""
				}
				for _, j := range append([]int{x}, append([]int{sub}, honest...)...)[:t] {
					ms = append(ms, fmt.Sprintf("m1.2.V%d.2%s", j, suffix))
				}
			}
			switch v % 3 {
			case 0:
				emit(b.line(alts, append(append([]string(nil), ms...), base...)))
			case 1:
				emit(b.line(alts, insertAt(base, 1, ms...)))
			default:
				emit(b.line(alts, append(append([]string(nil), base...), ms...)))
			}
		}
	}
	// 3. shares sent to a non-submitter; Byzantine submitter
	for n := 3; n <= 5; n++ {
		sub := rng.Intn(n)
		x := (sub + 1) % n
		k := (sub + 2) % n
		b := newBuild(rng, kinds[n%3], n, sub, fl, []int{x})
		fl++
		var sched []string
		for j := 0; j < n; j++ {
			if j != sub && j != x && j != k {
				sched = append(sched, fmt.Sprintf("x%d:h%d", k, j))
			}
		}
		sched = append(sched, fmt.Sprintf("x%d:m1.0.V%d.0", k, x), fmt.Sprintf("x%d:m1.0.V%d.0", k, sub), fmt.Sprintf("x%d:m1.0.S1", k), "S")
		for j := 0; j < n; j++ {
			if j != sub && j != x {
				sched = append(sched, fmt.Sprintf("h%d", j))
			}
		}
		emit(b.line(b.alts(x), sched))
		// the derived submitter is Byzantine: nobody honest may report
		b2 := newBuild(rng, kinds[(n+1)%3], n, sub, fl, []int{sub})
		fl++
		k2 := (sub + 1) % n
		emit(b2.line(b2.alts(-1), []string{"S", fmt.Sprintf("x%d:m1.0.V%d.0", k2, sub), fmt.Sprintf("x%d:m1.1.V%d.1", k2, sub)}))
	}
}

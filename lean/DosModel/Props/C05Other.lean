/-
C05 round 4 — the adversary that owns OTHER SESSIONS.

`Model/DkgAdv.lean` makes the adversary's knowledge of signed material explicit: besides the responses
honest members emit in the run under attack it owns the answers of an ORACLE – the response the holder
of a long-term key gives, in any other run it takes part in with that key (member list, dealer
polynomial and deal chosen by the adversary, adaptively, before and during the attack), to the deal it
is handed there.  A vss session id hashes dealer key, member keys, commitments and threshold and no
per-run nonce, so such an answer is valid for the same session id in the run under attack.  Deals,
justifications and every other unsigned material of other runs were never excluded: every theorem of
`Props/C05.lean` quantifies over ALL deal, response and key messages and over ALL batches.

What this does to the theorems of `Props/C05.lean`:
* `inconsistent_never_approved`, `complaint_stops_pipeline`, `failed_absorbing`, `finished_approved_all`,
  `reachable_invariant`, `accepted_keys_are_bound`, `forged_key_aborts`, `duplicate_key_aborts` have no
  hypothesis about signatures: they hold verbatim against the stronger adversary.
* `safety` assumed `AuthResp` – "a response verifying under an honest key was signed in THIS run".  The
  oracle makes that false when long-term keys are used in more than one run.  It is replaced by
  - `safety_other_sessions` (keys re-used at will, NO assumption on signatures at all): agreement follows
    from `processed_response_was_verified` – every response of a batch that `getAndProcessResponses`
    worked off was compared with the session id of the deal THIS member holds from that dealer – as soon
    as the other finisher's genuine responses are in the batch (reliable delivery between honest members,
    which the protocol assumes of its broadcast channel), and `second_response_aborts` – a second response
    for an occupied (dealer, responder) slot stops the stage;
  - `safety_fresh_keys` for the pipeline WITH its session layer (`handlePeerMsg` keeps the first response
    per (dealer, responder) from whatever sender, so a genuine response can be displaced): the key under
    which a session's responses are signed is drawn afresh by `genPub` in every `Grouping` call
    (`c05_other_sessions_shape`), oracle answers are signed with other keys, and `AuthRespO` (unforgeability
    WITH the oracle) gives back `AuthResp` (`oracle_useless_with_fresh_keys`);
  - `session_layer_needs_fresh_keys`: with the SAME keys in another run the session layer is NOT safe – the
    concrete run in which two honest member machines finish on different polynomials (replayed on the real
    `handlePeerMsg` and stages by corpus/C05/004).
-/
import DosModel.Props.C05
import DosModel.Proofs.DkgOther

set_option linter.unusedSectionVars false

namespace Dos.Props.C05
open Dos Dos.Vss Dos.Dkg

variable {F G : Type} [Field F] [AddCommGroup G] [Module F G] [DecidableEq F] [DecidableEq G]

/-- regenerated facts for the other-sessions argument (round 4): `Verifier.ProcessResponse` hands EVERY response
to `aggregator.verifyResponse` (pinned in `c05_code_shape`: session id, index, signature, then `addResponse`, which refuses an
occupied slot) – together with dkg `ProcessResponse` in `c05_code_shape` (first statement after the two nil/slot checks is
`v.ProcessResponse`) nothing is recorded, skipped or de-duplicated on (dealer, responder) before that comparison; the STATE a
`DistKeyGenerator`, a `Verifier` and an `aggregator` keep (one `responses` map per dealer slot keyed by the responder index;
no other memory of responses); what a response signature covers (`Response.Hash`: session id, index, status – no per-run
nonce); and, for the pipeline with its session layer: `genPub` draws the key a session's responses are signed with afresh in
every `Grouping` call and `Grouping` hands exactly that key to `genDistKeyGenerator` (`secrc`), while `handlePeerMsg` keeps the
FIRST response per (dealer, responder) whoever sent it (`session_layer_needs_fresh_keys`). -/
theorem c05_other_sessions_shape :
    Gen.VssFacts.verifierProcessResponse = [
      "0| func ProcessResponse(resp *Response) error",
      "1| if v.aggregator == nil",
      "2| return ErrNoDealBeforeResponse",
      "1| return v.aggregator.verifyResponse(resp)"] ∧
    Gen.VssFacts.responseHash = [
      "0| func Hash(s suites.Suite) []byte",
      "1| h := s.Hash()",
      "1| _, _ = h.Write([]byte(\"response\"))",
      "1| _, _ = h.Write(r.SessionID)",
      "1| _ = binary.Write(h, binary.LittleEndian, r.Index)",
      "1| _ = binary.Write(h, binary.LittleEndian, r.Status)",
      "1| return h.Sum(nil)"] ∧
    Gen.VssFacts.distKeyGeneratorFields = [
      "suite Suite",
      "index uint32",
      "long kyber.Scalar",
      "pub kyber.Point",
      "participants []kyber.Point",
      "t int",
      "dealer *vss.Dealer",
      "verifiers map[uint32]*vss.Verifier"] ∧
    Gen.VssFacts.aggregatorFields = [
      "suite suites.Suite",
      "dealer kyber.Point",
      "verifiers []kyber.Point",
      "commits []kyber.Point",
      "responses map[uint32]*Response",
      "sid []byte",
      "deal *Deal",
      "t int",
      "badDealer bool"] ∧
    Gen.VssFacts.verifierFields = [
      "suite suites.Suite",
      "longterm kyber.Scalar",
      "pub kyber.Point",
      "dealer kyber.Point",
      "index int",
      "verifiers []kyber.Point",
      "hkdfContext []byte",
      "approved bool",
      "(embedded) *aggregator"] ∧
    Gen.VssFacts.genPub = [
      "0| func genPub(ctx context.Context, logger log.Logger, suite suites.Suite, id []byte, groupIds [][]byte, sessionID string) (out chan interface{}, secrc chan kyber.Scalar, errc chan error)",
      "1| out = make(chan interface{})",
      "1| secrc = make(chan kyber.Scalar)",
      "1| errc = make(chan error)",
      "1| go func() {…}()",
      "2| func()",
      "3| defer close(out)",
      "3| defer close(secrc)",
      "3| defer close(errc)",
      "3| index := -1",
      "3| for i, groupId := range groupIds",
      "4| if r := bytes.Compare(id, groupId); r == 0",
      "5| index = i",
      "5| break",
      "3| if index == -1",
      "4| err := &DKGError{err: errors.Errorf(\"index id failed for GID %s : %w\", sessionID, ErrCanNotFindID)}",
      "4| reportErr(ctx, errc, err)",
      "4| return",
      "3| sec := suite.Scalar().Pick(suite.RandomStream())",
      "3| select",
      "4| case secrc <- sec:",
      "4| case <-ctx.Done():",
      "5| return",
      "3| pub := suite.Point().Mul(sec, nil)",
      "3| bin, err := pub.MarshalBinary()",
      "3| if err != nil",
      "4| err := &DKGError{err: errors.Errorf(\"MarshalBinary failed for GID %s : %w\", sessionID, err)}",
      "4| reportErr(ctx, errc, err)",
      "4| return",
      "3| pubkey := &PublicKey{SessionId: sessionID, Index: uint32(index), Publickey: &vss.PublicKey{Binary: bin}}",
      "3| select",
      "4| case out <- pubkey:",
      "4| case <-ctx.Done():",
      "3| return",
      "1| return"] ∧
    Gen.VssFacts.grouping = [
      "0| func Grouping(ctx context.Context, sessionID string, groupIds [][]byte) (chan [5]*big.Int, chan error, error)",
      "1| group := &group{participants: groupIds}",
      "1| var errcList []chan error",
      "1| if _, loaded := d.groups.LoadOrStore(sessionID, group); loaded",
      "2| return nil, nil, errors.New(\"dkg: duplicate share public key\")",
      "1| selfPubc, secrc, errc := genPub(ctx, d.logger, d.suite, d.p.GetID(), groupIds, sessionID)",
      "1| errcList = append(errcList, errc)",
      "1| selfPubcs := fanOut(ctx, selfPubc, 2)",
      "1| errcList = append(errcList, sendToMembers(ctx, d.logger, selfPubcs[0], d.p, groupIds, sessionID))",
      "1| peerPubc := askMembers(ctx, d.logger, d.bufToNode, len(groupIds)-1, 0, sessionID)",
      "1| errcList = append(errcList, errc)",
      "1| partPubsc, errc := exchangePub(ctx, d.logger, selfPubcs[1], peerPubc, d.p, groupIds, sessionID)",
      "1| errcList = append(errcList, errc)",
      "1| dkgcStep1, errc := genDistKeyGenerator(ctx, d.logger, secrc, partPubsc, len(groupIds), d.suite, sessionID)",
      "1| errcList = append(errcList, errc)",
      "1| dkgcStep2, errc := genDealsAndSend(ctx, d.logger, dkgcStep1, d.p, groupIds, sessionID)",
      "1| errcList = append(errcList, errc)",
      "1| dkgcStep3, respsc, errc := getAndProcessDeals(ctx, d.logger, dkgcStep2, askMembers(ctx, d.logger, d.bufToNode, len(groupIds)-1, 1, sessionID), sessionID)",
      "1| errcList = append(errcList, errc)",
      "1| errcList = append(errcList, sendToMembers(ctx, d.logger, respsc, d.p, groupIds, sessionID))",
      "1| cetifiedDkgc, errc := getAndProcessResponses(ctx, d.logger, dkgcStep3, askMembers(ctx, d.logger, d.bufToNode, (len(groupIds)-1)*(len(groupIds)-1), 2, sessionID), sessionID)",
      "1| errcList = append(errcList, errc)",
      "1| outc, errc := genGroup(ctx, d.logger, group, d.suite, cetifiedDkgc, sessionID)",
      "1| errcList = append(errcList, errc)",
      "1| errc = mergeErrors(ctx, d.logger, sessionID, errcList...)",
      "1| return outc, errc, nil"] ∧
    Gen.VssFacts.handlePeerMsg = [
      "0| func handlePeerMsg(sessionMap map[string][]interface{}, sessionReq map[string]request, p p2p.P2PInterface, sessionID string, content interface{})",
      "1| switch pubkeyFromPeer := content.(type)",
      "2| case *PublicKey:",
      "3| pubkeys := sessionMap[sessionID]",
      "3| for _, p := range pubkeys",
      "4| pubkey, ok := p.(*PublicKey)",
      "4| if ok",
      "5| if pubkey.Index == pubkeyFromPeer.Index",
      "6| return",
      "2| default:",
      "1| switch dealFromPeer := content.(type)",
      "2| case *Deal:",
      "3| deals := sessionMap[sessionID]",
      "3| for _, dd := range deals",
      "4| d, ok := dd.(*Deal)",
      "4| if ok",
      "5| if d.Index == dealFromPeer.Index",
      "6| return",
      "2| default:",
      "1| switch respFromPeer := content.(type)",
      "2| case *Response:",
      "3| if respFromPeer.Response != nil",
      "4| for _, rr := range sessionMap[sessionID]",
      "5| r, ok := rr.(*Response)",
      "5| if ok && r.Response != nil",
      "6| if r.Index == respFromPeer.Index && r.Response.Index == respFromPeer.Response.Index",
      "7| return",
      "2| default:",
      "1| sessionMap[sessionID] = append(sessionMap[sessionID], content)",
      "1| if len(sessionMap[sessionID]) == sessionReq[sessionID].numOfResps",
      "2| select",
      "3| case <-sessionReq[sessionID].ctx.Done():",
      "3| case sessionReq[sessionID].reply <- sessionMap[sessionID]:",
      "2| close(sessionReq[sessionID].reply)",
      "2| delete(sessionMap, sessionID)",
      "2| delete(sessionReq, sessionID)"] :=
  ⟨rfl, rfl, rfl, rfl, rfl, rfl, rfl, rfl⟩

/-- **4a. `processed_response_was_verified` – the lemma that carries the argument.**  If
`getAndProcessResponses` worked a batch off without an error – ANY batch: genuine, forged, replayed
from other sessions, oracle answers – then every message of it named a dealer slot `v` of this member
that holds a deal `dl`, and the response carried exactly the session id of that deal: the id of THIS
member's list, that dealer's key, and the commitments and threshold THIS member was dealt. -/
theorem processed_response_was_verified (g : G) (d0 d : Gen F G) (batch : List (DkgResp F G))
    (hg0 : GoodGen g d0) (ha0 : AllApproved d0) (hrun : runResps g d0 batch = (d, true)) :
    ∀ m ∈ batch, ∃ r v a dl, m.resp = some r ∧ getVerifier d0 m.index = some v ∧ v.agg = some a ∧
      a.deal = some dl ∧ d0.participants[m.index]? = some v.dealer ∧
      r.sid = Sid.h v.dealer d0.participants dl.commits dl.t := by
  intro m hm
  obtain ⟨r, v, a, h1, hv, hagg, hsid⟩ := runResps_verified g batch d0 d hg0 ha0 hrun m hm
  obtain ⟨dl, hdl, _, hasid, hdealer, _⟩ := approved_slot g d0 hg0 ha0 m.index v a hv hagg
  exact ⟨r, v, a, dl, h1, hv, hagg, hdl, hdealer, by rw [hsid, hasid]⟩

/-- **4b. `second_response_aborts` – the unchanged code's reaction to a replay.**  A response for a
(dealer, responder) slot that is already occupied – whichever of the two came first, the replayed or
the genuine one, whatever either carries – is an error of `ProcessResponse`, and the stage stops: the
member does not finish. -/
theorem second_response_aborts (g : G) (d : Gen F G) (m : DkgResp F G) (ms : List (DkgResp F G))
    (r : Response F G) (v : Verifier F G) (a : Agg F G) (hr : m.resp = some r)
    (hv : getVerifier d m.index = some v) (hagg : v.agg = some a)
    (hocc : (getResponse a r.index).isSome = true) :
    runResps g d (m :: ms) = (d, false) := by
  obtain ⟨e, he⟩ := second_response_errors g d m r v a hr hv hagg hocc
  simp [runResps, he]

/-- **4. `safety_other_sessions`.**  Long-term keys may be used in any number of other runs and the
adversary owns every signature produced there (`Model/DkgAdv.lean`): NOTHING is assumed about
signatures.  Take two generators `d0`, `d0'` in any states reachable after the deal stage (`GoodGen`,
`AllApproved`: `reachable_invariant`), at different indices, each inside the other's member list, ANY two
response batches that `getAndProcessResponses` worked off without error, each containing (anywhere, among
anything else) the responses the other member holds as its own for the dealers other than itself
(reliable delivery between honest members), and let both finish.  Then both hold the SAME member list, each
holds the commitments the other dealt, both output the SAME public polynomial, and each private share lies
on it at its own index. -/
theorem safety_other_sessions (g : G) (d0 d d0' d' : Gen F G) (batch batch' : List (DkgResp F G))
    (ks ks' : KeyShare F G)
    (hg0 : GoodGen g d0) (ha0 : AllApproved d0) (hrun : runResps g d0 batch = (d, true))
    (hg0' : GoodGen g d0') (ha0' : AllApproved d0') (hrun' : runResps g d0' batch' = (d', true))
    (hks : genGroup d = .ok ks) (hks' : genGroup d' = .ok ks')
    (hne : d'.index ≠ d.index)
    (hlt' : d'.index < d.participants.length) (hlt : d.index < d'.participants.length)
    (hdel : ∀ j r', j ≠ d'.index → ownRespAt d' j = some r' → (⟨j, some r'⟩ : DkgResp F G) ∈ batch)
    (hdel' : ∀ j r, j ≠ d.index → ownRespAt d j = some r → (⟨j, some r⟩ : DkgResp F G) ∈ batch') :
    d'.participants = d.participants ∧ commitsAt d' d'.index = commitsAt d d'.index ∧
    ks'.commits = ks.commits ∧
    ks.shareV • g = pubEval (S := F) ks.commits (d.index : Int) ∧
    ks'.shareV • g = pubEval (S := F) ks'.commits (d'.index : Int) ∧
    ks.shareI = d.index ∧ ks'.shareI = d'.index := by
  obtain ⟨hg, ha, _, _, _, _⟩ := runResps_inv g batch d0 d true hg0 ha0 hrun
  obtain ⟨hg', ha', _, _, _, _⟩ := runResps_inv g batch' d0' d' true hg0' ha0' hrun'
  obtain ⟨h1, h2, h3⟩ := finishers_agree_delivered g d0 d d0' d' batch batch' ks ks' hg0 ha0 hrun hg0' ha0' hrun'
    hks hks' hne hlt' hlt hdel hdel'
  exact ⟨h1, h2, h3, finished_share_on_poly g d ks hg ha hks, finished_share_on_poly g d' ks' hg' ha' hks',
    (distKeyShare_spec d ks hg.len hks).2.2.2.2.2.1, (distKeyShare_spec d' ks' hg'.len hks').2.2.2.2.2.1⟩

/-- **5a. `oracle_useless_with_fresh_keys`.**  `AuthRespO` is unforgeability WITH the oracle: a stored
response verifying under `pubk` was signed by its holder in this run, or its signature is that of an
oracle answer given under a key used in other runs (`otherKeys`).  If no other run uses a key whose public
key is `pubk`, it gives back `AuthResp`: an oracle answer is signed with the key the oracle was asked
under (`oracleAnswer_sig`) and does not verify under `pubk`. -/
theorem oracle_useless_with_fresh_keys (g : G) (pubk : G) (d dk : Gen F G) (otherKeys : F → Prop)
    (hfresh : ∀ long, otherKeys long → long • g ≠ pubk) (h : AuthRespO g pubk d dk otherKeys) :
    AuthResp g pubk d dk :=
  authResp_of_fresh_keys g pubk d dk otherKeys hfresh h

/-- **5. `safety_fresh_keys`** – `safety` for the pipeline with its session layer, against the adversary
that owns other sessions: ANY two member machines in ANY reachable finished states; unforgeability WITH
the oracle in both directions; the keys of this run are used in no other run (`genPub` draws them in
every `Grouping` call: `c05_other_sessions_shape`). -/
theorem safety_fresh_keys (g : G) (m m' : Member F G) (d d' : Gen F G) (ks ks' : KeyShare F G)
    (otherKeys : F → Prop)
    (hm : MemberInv g m) (hm' : MemberInv g m') (hst : m.stage = .done d ks) (hst' : m'.stage = .done d' ks')
    (hne : d'.index ≠ d.index)
    (hpub' : d.participants[d'.index]? = some (d'.long • g)) (hpub : d'.participants[d.index]? = some (d.long • g))
    (hfresh' : ∀ long, otherKeys long → long • g ≠ d'.long • g) (hfresh : ∀ long, otherKeys long → long • g ≠ d.long • g)
    (hauth : AuthRespO g (d'.long • g) d d' otherKeys) (hauth' : AuthRespO g (d.long • g) d' d otherKeys) :
    d'.participants = d.participants ∧ commitsAt d' d'.index = commitsAt d d'.index ∧
    ks'.commits = ks.commits ∧
    ks.shareV • g = pubEval (S := F) ks.commits (d.index : Int) ∧
    ks'.shareV • g = pubEval (S := F) ks'.commits (d'.index : Int) ∧
    ks.shareI = d.index ∧ ks'.shareI = d'.index :=
  safety g m m' d d' ks ks' hm hm' hst hst' hne hpub' hpub
    (authResp_of_fresh_keys g _ d d' otherKeys hfresh' hauth) (authResp_of_fresh_keys g _ d' d otherKeys hfresh hauth')

/-! ### non-vacuity and the negation witness (ℚ, `g = 1`): members 0, 1 honest (keys 5, 7), member 2 Byzantine (key 9) -/

section Examples
def exEphs : List (List ℚ) := [[11, 12, 13], [21, 22, 23], [31, 32, 33]]
def exPairs : List (Nat × Nat) := [(0, 1), (0, 2), (1, 0), (1, 2), (2, 0), (2, 1)]
def exStarts : List Ev := [.start 0, .start 1, .start 2] ++ exPairs.map (fun p => Ev.pk p.1 p.2)

def stageGen (s : Sys ℚ ℚ) (i : Nat) : Option (Gen ℚ ℚ) :=
  (s.ms[i]?).bind (fun m => match m.stage with | .waitResps d => some d | _ => none)
/-- the default response batch of member `i`: the `Responses` messages of the other members -/
def respBatch (s : Sys ℚ ℚ) (i : Nat) : List (DkgResp ℚ ℚ) :=
  ((List.range 3).filter (· ≠ i)).flatMap (fun k => ((s.ms[k]?).bind sentResps).getD [])
def isOk {α : Type} : Out α → Bool | .ok _ => true | _ => false
/-- every own response of `d'` for a dealer other than itself is in `batch` -/
def delivered (d' : Gen ℚ ℚ) (batch : List (DkgResp ℚ ℚ)) : Bool :=
  ((List.range 3).filter (· ≠ d'.index)).all (fun j =>
    match ownRespAt d' j with | some r => batch.contains ⟨j, some r⟩ | none => false)

/-- an honest run up to the end of every deal stage -/
def exPre : Sys ℚ ℚ := runEvents exCfg exEphs (exStarts ++ exPairs.map (fun p => Ev.deal p.1 p.2))

-- 4 / 4a: members 0 and 1 work their default batches off, finish, and each batch holds the other's own responses
def exHonestCheck : Option (List Bool × Nat) := do
  let d0 ← stageGen exPre 0; let d0' ← stageGen exPre 1
  let r := runResps 1 d0 (respBatch exPre 0); let r' := runResps 1 d0' (respBatch exPre 1)
  pure ([r.2, r'.2, isOk (genGroup r.1), isOk (genGroup r'.1), delivered r'.1 (respBatch exPre 0),
    delivered r.1 (respBatch exPre 1), r'.1.index != r.1.index], (respBatch exPre 0).length)
example : exHonestCheck = some ([true, true, true, true, true, true, true], 4) := by decide +kernel

/-- b's polynomials and its deals sealed with its own key -/
def exP1 : List ℚ := [40, 3]
def exP2 : List ℚ := [50, 4]
def exSeal (f : List ℚ) (i : Nat) : Option (EncDeal ℚ ℚ) :=
  sealDeal (1 : ℚ) 9 exL i 77 0 (.deal (honestDeal (1 : ℚ) 9 exL f i))
/-- ORACLE answers: in runs of their own, with the same long-term keys, member 1 (key 7) is dealt `exP1` by b and
member 0 (key 5) is dealt `exP2`; both approve -/
def exOracle1 : Option (DkgResp ℚ ℚ) := oracleAnswer (1 : ℚ) 7 exL [60, 1] ⟨2, exSeal exP1 1⟩
def exOracle0 : Option (DkgResp ℚ ℚ) := oracleAnswer (1 : ℚ) 5 exL [61, 2] ⟨2, exSeal exP2 0⟩
def exInj (s : Sys ℚ ℚ) (i : Nat) (f : Member ℚ ℚ → Member ℚ ℚ) : Sys ℚ ℚ := { s with ms := s.ms.modify i f }
/-- the run under attack up to the end of the deal stages: b deals `exP1` to member 0 and `exP2` to member 1 -/
def exAttackDeals : Sys ℚ ℚ :=
  let s0 := runEvents exCfg exEphs (exStarts ++ [.deal 1 0, .deal 0 1, .deal 0 2, .deal 1 2])
  let s1 := exInj s0 0 (fun m => m.recvDeal 1 ⟨2, exSeal exP1 0⟩)
  exInj s1 1 (fun m => m.recvDeal 1 ⟨2, exSeal exP2 1⟩)

-- the oracle answers are approvals, signed with the honest keys, carrying the session ids of b's two dealings
example : (exOracle1.bind (·.resp)).map (fun r => (r.index, r.status, r.sid == Sid.h 9 exL [40, 3] 2)) = some (1, true, true) ∧
    (exOracle0.bind (·.resp)).map (fun r => (r.index, r.status, r.sid == Sid.h 9 exL [50, 4] 2)) = some (0, true, true) := by
  decide +kernel

-- 4 / 4b, the unchanged code's reaction at stage level: member 0 gets the oracle answer (member 1 approving `exP1`)
-- BEFORE the genuine responses: the genuine response of member 1 about b (it holds `exP2`) hits the occupied slot and
-- the stage stops; delivered the other way round, the genuine one is refused for its session id. Nobody finishes.
def exReaction : Option (List Bool) := do
  let d0 ← stageGen exAttackDeals 0; let o ← exOracle1
  pure [(runResps 1 d0 (o :: respBatch exAttackDeals 0)).2, (runResps 1 d0 (respBatch exAttackDeals 0 ++ [o])).2,
    (runResps 1 d0 (respBatch exAttackDeals 0)).2]
example : exReaction = some [false, false, false] := by decide +kernel

/-- **6. `session_layer_needs_fresh_keys` – negation witness for the pipeline with RE-USED keys.**  The
same attack through the session layer (`handlePeerMsg` keeps the first response per (dealer, responder)):
the oracle answers arrive first, the genuine responses of the other honest member about b are dropped as
duplicates and never reach `ProcessResponse`.  Every message the two honest machines receive is a message of
an honest member of this run, a deal sealed with b's own key, a response signed by b, or an oracle answer;
both FINISH, on different public polynomials.  `safety_fresh_keys` therefore needs its freshness hypothesis,
and `safety_other_sessions` its delivery hypothesis. -/
theorem session_layer_needs_fresh_keys :
    let s3 := exInj exAttackDeals 0 (fun m => match exOracle1 with | some x => m.recvResp 1 x | none => m)
    let s4 := exInj s3 1 (fun m => match exOracle0 with | some x => m.recvResp 1 x | none => m)
    let fin := [Ev.resps 1 0, .resps 2 0, .resps 0 1, .resps 2 1].foldl (stepEv (1 : ℚ)) s4
    fin.ms.map (fun m => match m.stage with | .done _ ks => some ks.commits | _ => none) =
      [some [50, 6], some [60, 7], none] := by
  decide +kernel

-- 5a / 5: the oracle answer does not verify under any other key (here: a fresh key 17 instead of 7)
example : (exOracle1.bind (·.resp)).map (fun r => (verifyRespSig (1 : ℚ) 7 r, verifyRespSig (1 : ℚ) 17 r)) = some (true, false) := by
  decide +kernel
end Examples

end Dos.Props.C05

/-
C10 / E2 — executable semantics of the amd64 subset used by gfp.s.

Machine words are `Nat`s below 2^64 (explicit `% 2^64`, so that `omega` can
reason about carries). The state has the 13 registers of the listing, the
carry flag (as 0/1), the zero flag (defined only right after CMPB), the local
frame (8-byte words), and a memory that is only accessible through the three
pointer arguments c, a, b (4 words each; the pointers may alias, as they do in
the Go callers). Package variables p2 / np / hasBMI2 are a read-only
environment. Everything else — unaligned or out-of-block access, write to a
global, jump on an undefined flag, running off the end — is an explicit error.
-/
import DosModel.Model.AsmSyntax

namespace Dos.Asm

abbrev W64 : Nat := 18446744073709551616   -- 2^64

structure Regs where
  ax : Nat
  bx : Nat
  dx : Nat
  di : Nat
  si : Nat
  r8 : Nat
  r9 : Nat
  r10 : Nat
  r11 : Nat
  r12 : Nat
  r13 : Nat
  r14 : Nat
  r15 : Nat

def Regs.get (s : Regs) : Reg → Nat
  | .AX => s.ax | .BX => s.bx | .DX => s.dx | .DI => s.di | .SI => s.si
  | .R8 => s.r8 | .R9 => s.r9 | .R10 => s.r10 | .R11 => s.r11
  | .R12 => s.r12 | .R13 => s.r13 | .R14 => s.r14 | .R15 => s.r15

def Regs.set (s : Regs) (r : Reg) (v : Nat) : Regs :=
  match r with
  | .AX => { s with ax := v } | .BX => { s with bx := v } | .DX => { s with dx := v }
  | .DI => { s with di := v } | .SI => { s with si := v }
  | .R8 => { s with r8 := v } | .R9 => { s with r9 := v } | .R10 => { s with r10 := v }
  | .R11 => { s with r11 := v } | .R12 => { s with r12 := v } | .R13 => { s with r13 := v }
  | .R14 => { s with r14 := v } | .R15 => { s with r15 := v }

/-- read-only package variables -/
structure Env where
  p2 : Nat → Nat        -- limb i of p2
  np : Nat → Nat        -- limb i of np
  hasBMI2 : Bool

structure State where
  regs : Regs
  cf : Nat                  -- carry flag, 0 or 1
  zf : Option Bool          -- zero flag; `none` = not defined by the last flag-setting instruction we model
  frame : List Nat          -- local frame, one entry per 8 bytes
  mem : Nat → Nat           -- byte address (multiple of 8 relative to a block start) ↦ 64-bit word
  cPtr : Nat
  aPtr : Nat
  bPtr : Nat

inductive Outcome
  | ok (s : State)
  | err (msg : String)

/-- an address is accessible iff it is word `i < 4` of one of the three argument blocks -/
def inBlock (ptr addr : Nat) : Bool :=
  addr == ptr || addr == ptr + 8 || addr == ptr + 16 || addr == ptr + 24

def accessible (s : State) (addr : Nat) : Bool :=
  inBlock s.cPtr addr || inBlock s.aPtr addr || inBlock s.bPtr addr

def globRead (e : Env) (g : Glob) (off : Nat) : Option Nat :=
  match g with
  | .p2 => if off % 8 = 0 ∧ off < 32 then some (e.p2 (off / 8)) else none
  | .np => if off % 8 = 0 ∧ off < 32 then some (e.np (off / 8)) else none
  | .hasBMI2 => if off = 0 then some (if e.hasBMI2 then 1 else 0) else none

def readOpd (e : Env) (s : State) : Opd → Option Nat
  | .imm n => if n < W64 then some n else none
  | .reg r => some (s.regs.get r)
  | .mem b off =>
      let addr := s.regs.get b + off
      if accessible s addr then some (s.mem addr) else none
  | .frame off => if off % 8 = 0 then s.frame[off / 8]? else none
  | .arg off =>
      if off = 0 then some s.cPtr else if off = 8 then some s.aPtr else if off = 16 then some s.bPtr else none
  | .glob g off => globRead e g off

def writeOpd (s : State) (d : Opd) (v : Nat) : Option State :=
  match d with
  | .reg r => some { s with regs := s.regs.set r v }
  | .mem b off =>
      let addr := s.regs.get b + off
      if accessible s addr then some { s with mem := fun x => if x = addr then v else s.mem x } else none
  | .frame off =>
      if off % 8 = 0 ∧ off / 8 < s.frame.length then some { s with frame := s.frame.set (off / 8) v } else none
  | _ => none    -- immediates, argument slots and package variables are never written

def stepFail (i : Instr) : Outcome := .err ("cannot execute " ++ reprStr i)

/-- one non-control instruction -/
def step (e : Env) (i : Instr) (s : State) : Outcome :=
  match i with
  | .movq src dst =>
      match readOpd e s src with
      | some v => match writeOpd s dst v with
        | some s' => .ok s'
        | none => stepFail i
      | none => stepFail i
  | .addq src dst =>
      match readOpd e s src, readOpd e s dst with
      | some x, some y => match writeOpd s dst ((y + x) % W64) with
        | some s' => .ok { s' with cf := (y + x) / W64, zf := none }
        | none => stepFail i
      | _, _ => stepFail i
  | .adcq src dst =>
      match readOpd e s src, readOpd e s dst with
      | some x, some y => match writeOpd s dst ((y + x + s.cf) % W64) with
        | some s' => .ok { s' with cf := (y + x + s.cf) / W64, zf := none }
        | none => stepFail i
      | _, _ => stepFail i
  | .subq src dst =>
      match readOpd e s src, readOpd e s dst with
      | some x, some y => match writeOpd s dst ((y + W64 - x) % W64) with
        | some s' => .ok { s' with cf := 1 - (y + W64 - x) / W64, zf := none }
        | none => stepFail i
      | _, _ => stepFail i
  | .sbbq src dst =>
      match readOpd e s src, readOpd e s dst with
      | some x, some y => match writeOpd s dst ((y + W64 - x - s.cf) % W64) with
        | some s' => .ok { s' with cf := 1 - (y + W64 - x - s.cf) / W64, zf := none }
        | none => stepFail i
      | _, _ => stepFail i
  | .mulq src =>
      match readOpd e s src with
      | some x =>
          let pr := s.regs.ax * x
          .ok { s with regs := (s.regs.set .AX (pr % W64)).set .DX (pr / W64),
                       cf := if pr / W64 = 0 then 0 else 1, zf := none }
      | none => stepFail i
  | .mulxq src lo hi =>
      match readOpd e s src with
      | some x =>
          let pr := s.regs.dx * x
          -- if lo = hi the high half wins (Intel SDM); flags are not touched
          .ok { s with regs := (s.regs.set lo (pr % W64)).set hi (pr / W64) }
      | none => stepFail i
  | .cmovqcc src d =>
      match readOpd e s src with
      | some x => .ok (if s.cf = 0 then { s with regs := s.regs.set d x } else s)
      | none => stepFail i
  | .cmpb a b =>
      match readOpd e s a, readOpd e s b with
      | some x, some y =>
          let x8 := x % 256
          let y8 := y % 256
          .ok { s with cf := if x8 < y8 then 1 else 0, zf := some (x8 == y8) }
      | _, _ => stepFail i
  | _ => stepFail i

/-- run from the instruction suffix `rest` of `code`; jumps re-enter `code` at an index -/
def run (e : Env) (code : List Instr) : Nat → List Instr → State → Outcome
  | 0, _, _ => .err "out of fuel"
  | _ + 1, [], _ => .err "fell off the end of the function"
  | fuel + 1, i :: rest, s =>
      match i with
      | .ret => .ok s
      | .jmp t => if t ≤ code.length then run e code fuel (code.drop t) s else .err "jump target out of range"
      | .jeq t =>
          match s.zf with
          | some true => if t ≤ code.length then run e code fuel (code.drop t) s else .err "jump target out of range"
          | some false => run e code fuel rest s
          | none => .err "JEQ on an undefined zero flag"
      | _ =>
          match step e i s with
          | .ok s' => run e code fuel rest s'
          | .err m => .err m

/-- call a function: fresh frame of `f.frame / 8` words holding `junk`, run to RET -/
def call (e : Env) (f : Func) (s : State) (junk : Nat) : Outcome :=
  run e f.code (f.code.length + 1) f.code { s with frame := List.replicate (f.frame / 8) junk }

/-- the four words of an argument block -/
def block (m : Nat → Nat) (ptr : Nat) : List Nat := [m ptr, m (ptr + 8), m (ptr + 16), m (ptr + 24)]

end Dos.Asm

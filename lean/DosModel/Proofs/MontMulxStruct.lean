/-
C10 layer 2/3 — the MULX (BMI2) path of gfpMul, limb level, as a composition of blocks of
mul_bmi2.h. MULX does not touch the flags, so the code interleaves products with two
carry chains per operand word; every chain is an `accRow` (five-word accumulate) of
Proofs/MontMulStruct.lean, the last one a four-word `add4`. `mulLimbsMULX_eq`: the flat
model generated from the listing IS this composition (kernel-checked).
-/
import DosModel.Proofs.MontMulStruct

namespace Dos.Mont

/-- a four-word add whose carry out is dropped (last chain of `mulBMI2`) -/
def add4 (x0 x1 x2 x3 y0 y1 y2 y3 : Nat) : L4 :=
  let n0 := addLo x0 y0
  let c := addC x0 y0
  let n1 := adcLo x1 y1 c
  let c := adcC x1 y1 c
  let n2 := adcLo x2 y2 c
  let c := adcC x2 y2 c
  let n3 := adcLo x3 y3 c
  ⟨n0, n1, n2, n3⟩

/-- row 0 of `mulBMI2`: a0·b with the low word split off; the other five words in R9..R13 -/
def mulxRow0 (x : Nat) (b : L4) : L5 :=
  accRow ⟨mulHi x b.l0, mulHi x b.l1, mulHi x b.l2, mulHi x b.l3, 0⟩ (mulLo x b.l1) (mulLo x b.l2) (mulLo x b.l3) 0

/-- first chain of a later row: add x·b0 and x·b2 (shifted by two words) to the accumulator -/
def mulxRowA (acc : L5) (x : Nat) (b : L4) : L5 :=
  accRow acc (mulLo x b.l0) (mulHi x b.l0) (mulLo x b.l2) (mulHi x b.l2)

/-- second chain: add x·b1 and x·b3 one word higher; a fresh top word receives the carry -/
def mulxRowB (a : L5) (x : Nat) (b : L4) : L5 :=
  accRow ⟨a.l1, a.l2, a.l3, a.l4, 0⟩ (mulLo x b.l1) (mulHi x b.l1) (mulLo x b.l3) (mulHi x b.l3)

/-- second chain of the last row: four words, no further carry -/
def mulxRowB4 (a : L5) (x : Nat) (b : L4) : L4 :=
  add4 a.l1 a.l2 a.l3 a.l4 (mulLo x b.l1) (mulHi x b.l1) (mulLo x b.l3) (mulHi x b.l3)

/-- the `mulBMI2` macro: a · b as eight words held in R8..R15 -/
def mulx8 (a b : L4) : L8 :=
  let x0 := mulxRow0 a.l0 b
  let a1 := mulxRowA x0 a.l1 b
  let b1 := mulxRowB a1 a.l1 b
  let a2 := mulxRowA b1 a.l2 b
  let b2 := mulxRowB a2 a.l2 b
  let a3 := mulxRowA b2 a.l3 b
  let b3 := mulxRowB4 a3 a.l3 b
  ⟨mulLo a.l0 b.l0, a1.l0, a2.l0, a3.l0, b3.l0, b3.l1, b3.l2, b3.l3⟩

/-- first part of `gfpReduceBMI2`: the low four words of (t3:t2:t1:t0) · np -/
def redMX (np : L4) (t0 t1 t2 t3 : Nat) : L4 :=
  -- np0: three-word chain on (R9, R10, R11)
  let r8 := mulLo np.l0 t0
  let r9 := addLo (mulHi np.l0 t0) (mulLo np.l0 t1)
  let c := addC (mulHi np.l0 t0) (mulLo np.l0 t1)
  let r10 := adcLo (mulHi np.l0 t1) (mulLo np.l0 t2) c
  let c := adcC (mulHi np.l0 t1) (mulLo np.l0 t2) c
  let r11 := adcLo (mulHi np.l0 t2) (mulLo np.l0 t3) c
  -- np1 · t0 and np1 · t2 (low word)
  let r9' := addLo r9 (mulLo np.l1 t0)
  let c := addC r9 (mulLo np.l1 t0)
  let r10' := adcLo r10 (mulHi np.l1 t0) c
  let c := adcC r10 (mulHi np.l1 t0) c
  let r11' := adcLo r11 (mulLo np.l1 t2) c
  -- np1 · t1
  let r10'' := addLo r10' (mulLo np.l1 t1)
  let c := addC r10' (mulLo np.l1 t1)
  let r11'' := adcLo r11' (mulHi np.l1 t1) c
  -- np2 · t0
  let r10''' := addLo r10'' (mulLo np.l2 t0)
  let c := addC r10'' (mulLo np.l2 t0)
  let r11''' := adcLo r11'' (mulHi np.l2 t0) c
  -- np2 · t1 (low word), np3 · t0 (low word)
  let s := addLo r11''' (mulLo np.l2 t1)
  let r11f := addLo s (mulLo np.l3 t0)
  ⟨r8, r9', r10''', r11f⟩

/-- gfpMul, MULX path, as a composition of its macro blocks -/
def mulStructMULX (p np a b : L4) : L4 :=
  let t := mulx8 a b
  let m := redMX np t.l0 t.l1 t.l2 t.l3
  let mp := mulx8 p m
  let u := hi5 mp t
  carryLimbs p u.l0 u.l1 u.l2 u.l3 u.l4

set_option maxRecDepth 1000000 in
theorem mulLimbsMULX_eq (p np a b : L4) : mulLimbsMULX p np a b = mulStructMULX p np a b := by
  kernel_rfl'

end Dos.Mont

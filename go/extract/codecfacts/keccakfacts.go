package codecfacts

// KeccakFacts: the tables and parameters of golang.org/x/crypto/sha3 (the version /repo's go.mod names,
// read from the module cache) that `Model/Keccak.lean` — written from the Keccak reference, not from this
// library — must agree with (C06): round constants (generic Go table AND the amd64 assembly the harness
// actually runs), the ρ rotation offsets per lane (round 1 of the unrolled generic code, where the lanes are
// still in place; ROLQ constants of the assembly round), and what NewLegacyKeccak256 configures
// (rate 136, 32 output bytes, domain byte 0x01, final bit 0x80).  go/ast + a regexp over the .s file.

import (
	"fmt"
	"go/ast"
	"go/token"
	"io/ioutil"
	"math/big"
	"os"
	"os/exec"
	"path/filepath"
	"regexp"
	"strings"

	"verifharness/extract/ex"
)

func init() { ex.Register(&ex.Extractor{Name: "KeccakFacts", Run: runKeccak}) }

func modCache() string {
	if d := os.Getenv("GOMODCACHE"); d != "" {
		return d
	}
	if out, err := exec.Command("go", "env", "GOMODCACHE").Output(); err == nil {
		if d := strings.TrimSpace(string(out)); d != "" {
			return d
		}
	}
	if d := os.Getenv("GOPATH"); d != "" {
		return filepath.Join(strings.Split(d, string(os.PathListSeparator))[0], "pkg", "mod")
	}
	return filepath.Join(os.Getenv("HOME"), "go", "pkg", "mod")
}

func intLit(e ast.Expr) *big.Int {
	if l, ok := e.(*ast.BasicLit); ok && l.Kind == token.INT {
		if v, ok := new(big.Int).SetString(l.Value, 0); ok {
			return v
		}
	}
	return nil
}

func natList(vs []*big.Int) string {
	var q []string
	for _, v := range vs {
		q = append(q, v.String())
	}
	return "[" + strings.Join(q, ", ") + "]"
}

func runKeccak(repo string) (string, error) {
	gomod, err := ioutil.ReadFile(filepath.Join(repo, "go.mod"))
	if err != nil {
		return "", err
	}
	m := regexp.MustCompile(`(?m)^\s*golang\.org/x/crypto\s+(v\S+)`).FindSubmatch(gomod)
	if m == nil {
		return "", fmt.Errorf("go.mod: golang.org/x/crypto not required")
	}
	ver := string(m[1])
	dir := filepath.Join(modCache(), "golang.org", "x", "crypto@"+ver, "sha3")
	_, kf, err := ex.Parse(filepath.Join(dir, "keccakf.go"))
	if err != nil {
		return "", err
	}
	// var rc = [24]uint64{…}
	var rcGo []*big.Int
	if v := varValue(kf, "rc"); v != nil {
		if cl, ok := v.(*ast.CompositeLit); ok {
			for _, e := range cl.Elts {
				if x := intLit(e); x != nil {
					rcGo = append(rcGo, x)
				}
			}
		}
	}
	if len(rcGo) == 0 {
		return "", fmt.Errorf("keccakf.go: table rc not found")
	}
	// the unrolled rounds: `t = a[I] ^ dX` followed by `bcY = t<<N | t>>(64-N)`
	fd := ex.FuncDecl(kf, "", "keccakF1600")
	if fd == nil {
		return "", fmt.Errorf("keccakf.go: keccakF1600 not found")
	}
	var lanes, rots []*big.Int
	last := (*big.Int)(nil)
	ast.Inspect(fd.Body, func(n ast.Node) bool {
		as, ok := n.(*ast.AssignStmt)
		if !ok || len(as.Lhs) != 1 || len(as.Rhs) != 1 {
			return true
		}
		lhs, _ := as.Lhs[0].(*ast.Ident)
		be, _ := as.Rhs[0].(*ast.BinaryExpr)
		if lhs == nil || be == nil {
			return true
		}
		if lhs.Name == "t" && be.Op == token.XOR {
			last = nil
			if ix, ok := be.X.(*ast.IndexExpr); ok {
				if id, ok := ix.X.(*ast.Ident); ok && id.Name == "a" {
					last = intLit(ix.Index)
				}
			}
			return true
		}
		if strings.HasPrefix(lhs.Name, "bc") && be.Op == token.OR && last != nil {
			if sh, ok := be.X.(*ast.BinaryExpr); ok && sh.Op == token.SHL {
				if id, ok := sh.X.(*ast.Ident); ok && id.Name == "t" {
					if nv := intLit(sh.Y); nv != nil {
						lanes, rots = append(lanes, last), append(rots, nv)
					}
				}
			}
			last = nil
		}
		return true
	})
	if len(lanes) != 96 {
		return "", fmt.Errorf("keccakf.go: expected 4 unrolled rounds of 24 lane rotations, found %d", len(lanes))
	}
	// the assembly
	asm, err := ioutil.ReadFile(filepath.Join(dir, "keccakf_amd64.s"))
	if err != nil {
		return "", err
	}
	var rcAsm, rolAsm []*big.Int
	for _, mm := range regexp.MustCompile(`(?m)^\s*mKeccakRound\(\s*\w+,\s*\w+,\s*\$(0x[0-9a-fA-F]+)`).FindAllSubmatch(asm, -1) {
		v, _ := new(big.Int).SetString(string(mm[1]), 0)
		rcAsm = append(rcAsm, v)
	}
	for _, mm := range regexp.MustCompile(`(?m)^\s*ROLQ\s+\$(\d+),`).FindAllSubmatch(asm, -1) {
		v, _ := new(big.Int).SetString(string(mm[1]), 10)
		rolAsm = append(rolAsm, v)
	}
	// hashes.go: NewLegacyKeccak256 returns &state{rate: …, outputLen: …, dsbyte: …}
	_, hf, err := ex.Parse(filepath.Join(dir, "hashes.go"))
	if err != nil {
		return "", err
	}
	cfg := map[string]*big.Int{}
	if f := ex.FuncDecl(hf, "", "NewLegacyKeccak256"); f != nil {
		ast.Inspect(f.Body, func(n ast.Node) bool {
			if kv, ok := n.(*ast.KeyValueExpr); ok {
				if id, ok := kv.Key.(*ast.Ident); ok {
					if v := intLit(kv.Value); v != nil {
						cfg[id.Name] = v
					}
				}
			}
			return true
		})
	}
	for _, k := range []string{"rate", "outputLen", "dsbyte"} {
		if cfg[k] == nil {
			return "", fmt.Errorf("hashes.go: NewLegacyKeccak256 does not set %s", k)
		}
	}
	// sha3.go padAndPermute: d.buf[d.rate-1] ^= 0x80
	_, sf, err := ex.Parse(filepath.Join(dir, "sha3.go"))
	if err != nil {
		return "", err
	}
	var lastXor *big.Int
	lastXorIndex := ""
	if f := ex.FuncDecl(sf, "state", "padAndPermute"); f != nil {
		ast.Inspect(f.Body, func(n ast.Node) bool {
			if as, ok := n.(*ast.AssignStmt); ok && as.Tok == token.XOR_ASSIGN && len(as.Rhs) == 1 {
				if v := intLit(as.Rhs[0]); v != nil {
					lastXor = v
					if ix, ok := as.Lhs[0].(*ast.IndexExpr); ok {
						if be, ok := ix.Index.(*ast.BinaryExpr); ok {
							lastXorIndex = sel(be.X) + be.Op.String() + sel(be.Y)
							if v := intLit(be.Y); v != nil {
								lastXorIndex = sel(be.X) + be.Op.String() + v.String()
							}
						}
					}
				}
			}
			return true
		})
	}
	if lastXor == nil {
		return "", fmt.Errorf("sha3.go: padAndPermute: final-bit xor not found")
	}
	var b strings.Builder
	b.WriteString(ex.Header("KeccakFacts", "golang.org/x/crypto@"+ver+"/sha3/{keccakf.go,keccakf_amd64.s,hashes.go,sha3.go} (module cache; version from go.mod)"))
	b.WriteString("namespace Dos.Gen.Keccak\n")
	fmt.Fprintf(&b, "def xcryptoVersion : String := %s\n", ex.LeanStr(ver))
	fmt.Fprintf(&b, "def rcGo : List Nat := %s\n", natList(rcGo))
	fmt.Fprintf(&b, "def rcAsm : List Nat := %s\n", natList(rcAsm))
	fmt.Fprintf(&b, "def rhoLanes : List Nat := %s\n", natList(lanes))
	fmt.Fprintf(&b, "def rhoRots : List Nat := %s\n", natList(rots))
	fmt.Fprintf(&b, "def rolAsm : List Nat := %s\n", natList(rolAsm))
	fmt.Fprintf(&b, "def legacyRate : Nat := %s\n", cfg["rate"])
	fmt.Fprintf(&b, "def legacyOutputLen : Nat := %s\n", cfg["outputLen"])
	fmt.Fprintf(&b, "def legacyDsbyte : Nat := %s\n", cfg["dsbyte"])
	fmt.Fprintf(&b, "def padLastXor : Nat := %s\n", lastXor)
	fmt.Fprintf(&b, "def padLastXorIndex : String := %s\n", ex.LeanStr(lastXorIndex))
	b.WriteString("end Dos.Gen.Keccak\n")
	return b.String(), nil
}

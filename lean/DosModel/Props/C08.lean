/-
C08 — a dealt share can be opened only by its addressee and only unmodified; an opened deal
is approved only if its share is the committed polynomial at the recipient's own index.

Theorems about the executable model `Model/VssSym.lean` (symbolic cryptography: ideal
signatures, AEAD, KDF and hashes – DESIGN §4/§5; what is assumed is that the real Schnorr,
HKDF, AES-GCM, SHA-256 behave like these free constructors) for EVERY field `F`, `F`-module `G`
with base point `g ≠ 0`, every key, member list, index, threshold, polynomial and every
encrypted-deal term `e`.  Helper lemmas: `Proofs/VssSym.lean`.
-/
import DosModel.Gen.VssFacts
import DosModel.Proofs.VssSym
import DosModel.Proofs.VssKnows
import DosModel.Proofs.VssAgg
import Mathlib.Algebra.Order.Field.Rat

namespace Dos.Props.C08
open Dos Dos.Vss

variable {F G : Type} [Field F] [AddCommGroup G] [Module F G] [DecidableEq F] [DecidableEq G]

/-- regenerated fact (`go/extract/vssfacts` → `Gen/VssFacts.lean`, on every check run): the ordered statement
skeletons – every check, what it returns, every call – of `Verifier.decryptDeal` (signature verified over the
RECEIVED bytes `e.DHKey` before they are unmarshalled; the context in the KDF and as associated data),
`Verifier.ProcessEncryptedDeal`, `aggregator.VerifyDeal` (`validT` against `a.verifiers`, session-id comparison,
index bound, share check), `validT` and `sessionID` are the ones `Model/VssSym.lean` (`decryptDeal`,
`processEncryptedDeal`, `verifyDeal`, `validT`, `Sid.h`) transcribes. A change to any of them must be re-modelled. -/
theorem c08_code_shape :
    Gen.VssFacts.decryptDeal = [
      "0| func decryptDeal(e *EncryptedDeal) (*Deal, error)",
      "1| if e == nil",
      "2| return nil, errors.New(\"vss: no encrypted deal\")",
      "1| if err := schnorr.Verify(v.suite, v.dealer, e.DHKey, e.Signature); err != nil",
      "2| return nil, err",
      "1| dhKey := v.suite.Point()",
      "1| if err := dhKey.UnmarshalBinary(e.DHKey); err != nil",
      "2| return nil, err",
      "1| pre := dhExchange(v.suite, v.longterm, dhKey)",
      "1| gcm, err := newAEAD(v.suite.Hash, pre, v.hkdfContext)",
      "1| if err != nil",
      "2| return nil, err",
      "1| if len(e.Nonce) != gcm.NonceSize()",
      "2| return nil, errors.New(\"vss: wrong nonce length in encrypted deal\")",
      "1| decrypted, err := gcm.Open(nil, e.Nonce, e.Cipher, v.hkdfContext)",
      "1| if err != nil",
      "2| return nil, err",
      "1| deal := &Deal{}",
      "1| err = deal.UnmarshalBinary(v.suite, decrypted)",
      "1| return deal, err"] ∧
    Gen.VssFacts.processEncryptedDeal = [
      "0| func ProcessEncryptedDeal(e *EncryptedDeal) (*Response, error)",
      "1| d, err := v.decryptDeal(e)",
      "1| if err != nil",
      "2| return nil, err",
      "1| if d.SecShare == nil || d.SecShare.V == nil",
      "2| return nil, errors.New(\"vss: deal without a share\")",
      "1| if d.SecShare.I != v.index",
      "2| return nil, errors.New(\"vss: verifier got wrong index from deal\")",
      "1| t := int(d.T)",
      "1| sid, err := sessionID(v.suite, v.dealer, v.verifiers, d.Commitments, t)",
      "1| if err != nil",
      "2| return nil, err",
      "1| if v.aggregator == nil",
      "2| v.aggregator = newAggregator(v.suite, v.dealer, v.verifiers, d.Commitments, t, d.SessionID)",
      "1| r := &Response{ SessionID: sid, Index: uint32(v.index), Status: StatusApproval, }",
      "1| if err = v.VerifyDeal(d, true); err != nil",
      "2| r.Status = StatusComplaint",
      "1| if err == errDealAlreadyProcessed",
      "2| return nil, err",
      "1| if r.Signature, err = schnorr.Sign(v.suite, v.longterm, r.Hash(v.suite)); err != nil",
      "2| return nil, err",
      "1| if err = v.aggregator.addResponse(r); err != nil",
      "2| return nil, err",
      "1| v.approved = r.Status == StatusApproval",
      "1| return r, nil"] ∧
    Gen.VssFacts.verifyDeal = [
      "0| func VerifyDeal(d *Deal, inclusion bool) error",
      "1| if d == nil || d.SecShare == nil || d.SecShare.V == nil",
      "2| return errors.New(\"vss: deal without a share value\")",
      "1| if a.deal != nil && inclusion",
      "2| return errDealAlreadyProcessed",
      "1| if a.deal == nil",
      "2| a.commits = d.Commitments",
      "2| a.sid = d.SessionID",
      "2| a.deal = d",
      "1| if !validT(int(d.T), a.verifiers)",
      "2| return errors.New(\"vss: invalid t received in Deal\")",
      "1| if !bytes.Equal(a.sid, d.SessionID)",
      "2| return errors.New(\"vss: find different sessionIDs from Deal\")",
      "1| sid, err := sessionID(a.suite, a.dealer, a.verifiers, d.Commitments, int(d.T))",
      "1| if err != nil",
      "2| return err",
      "1| if !bytes.Equal(sid, d.SessionID)",
      "2| return errors.New(\"vss: session id of the deal does not match its dealer, verifiers, commitments and threshold\")",
      "1| fi := d.SecShare",
      "1| if fi.I < 0 || fi.I >= len(a.verifiers)",
      "2| return errors.New(\"vss: index out of bounds in Deal\")",
      "1| fig := a.suite.Point().Base().Mul(fi.V, nil)",
      "1| commitPoly := share.NewPubPoly(a.suite, nil, d.Commitments)",
      "1| pubShare := commitPoly.Eval(fi.I)",
      "1| if !fig.Equal(pubShare.V)",
      "2| return errors.New(\"vss: share does not verify against commitments in Deal\")",
      "1| return nil"] ∧
    Gen.VssFacts.validT = [
      "0| func validT(t int, verifiers []kyber.Point) bool",
      "1| return t >= 2 && t <= len(verifiers) && int(uint32(t)) == t"] ∧
    Gen.VssFacts.sessionID = [
      "0| func sessionID(suite suites.Suite, dealer kyber.Point, verifiers, commitments []kyber.Point, t int) ([]byte, error)",
      "1| h := suite.Hash()",
      "1| _, _ = dealer.MarshalTo(h)",
      "1| for _, v := range verifiers",
      "2| _, _ = v.MarshalTo(h)",
      "1| for _, c := range commitments",
      "2| _, _ = c.MarshalTo(h)",
      "1| _ = binary.Write(h, binary.LittleEndian, uint32(t))",
      "1| return h.Sum(nil), nil"] ∧
    Gen.VssFacts.dhExchange = [
      "0| func dhExchange(suite suites.Suite, ownPrivate kyber.Scalar, remotePublic kyber.Point) kyber.Point",
      "1| sk := suite.Point()",
      "1| sk.Mul(ownPrivate, remotePublic)",
      "1| return sk"] ∧
    Gen.VssFacts.newAEAD = [
      "0| func newAEAD(fn func() hash.Hash, preSharedKey kyber.Point, context []byte) (cipher.AEAD, error)",
      "1| preBuff, _ := preSharedKey.MarshalBinary()",
      "1| reader := hkdf.New(fn, preBuff, nil, context)",
      "1| sharedKey := make([]byte, sharedKeyLength)",
      "1| if _, err := reader.Read(sharedKey); err != nil",
      "2| return nil, err",
      "1| block, err := aes.NewCipher(sharedKey)",
      "1| if err != nil",
      "2| return nil, err",
      "1| gcm, err := cipher.NewGCM(block)",
      "1| if err != nil",
      "2| return nil, err",
      "1| return gcm, nil"] ∧
    Gen.VssFacts.hkdfContext = [
      "0| func context(suite suites.Suite, dealer kyber.Point, verifiers []kyber.Point) []byte",
      "1| h := suite.Hash()",
      "1| _, _ = h.Write([]byte(\"vss-dealer\"))",
      "1| _, _ = dealer.MarshalTo(h)",
      "1| _, _ = h.Write([]byte(\"vss-verifiers\"))",
      "1| for _, v := range verifiers",
      "2| _, _ = v.MarshalTo(h)",
      "1| return h.Sum(nil)"] ∧
    Gen.VssFacts.encryptedDeal = [
      "0| func EncryptedDeal(i int) (*EncryptedDeal, error)",
      "1| vPub, ok := findPub(d.verifiers, uint32(i))",
      "1| if !ok",
      "2| return nil, errors.New(\"dealer: wrong index to generate encrypted deal\")",
      "1| dhSecret := d.suite.Scalar().Pick(d.suite.RandomStream())",
      "1| dhPublic := d.suite.Point().Mul(dhSecret, nil)",
      "1| dhPublicBuff, _ := dhPublic.MarshalBinary()",
      "1| signature, err := schnorr.Sign(d.suite, d.long, dhPublicBuff)",
      "1| if err != nil",
      "2| return nil, err",
      "1| pre := dhExchange(d.suite, dhSecret, vPub)",
      "1| gcm, err := newAEAD(d.suite.Hash, pre, d.hkdfContext)",
      "1| if err != nil",
      "2| return nil, err",
      "1| nonce := make([]byte, gcm.NonceSize())",
      "1| dealBuff, err := d.deals[i].MarshalBinary()",
      "1| if err != nil",
      "2| return nil, err",
      "1| encrypted := gcm.Seal(nil, nonce, dealBuff, d.hkdfContext)",
      "1| dhBytes, _ := dhPublic.MarshalBinary()",
      "1| return &EncryptedDeal{ DHKey: dhBytes, Signature: signature, Nonce: nonce, Cipher: encrypted, }, nil"] ∧
    Gen.VssFacts.newDealer = [
      "0| func NewDealer(suite suites.Suite, longterm, secret kyber.Scalar, verifiers []kyber.Point, t int) (*Dealer, error)",
      "1| d := &Dealer{ suite: suite, long: longterm, secret: secret, verifiers: verifiers, }",
      "1| if !validT(t, verifiers)",
      "2| return nil, fmt.Errorf(\"dealer: t %d invalid\", t)",
      "1| d.t = t",
      "1| f := share.NewPriPoly(d.suite, d.t, d.secret, suite.RandomStream())",
      "1| d.pub = d.suite.Point().Mul(d.long, nil)",
      "1| F := f.Commit(d.suite.Point().Base())",
      "1| _, d.secretCommits = F.Info()",
      "1| var err error",
      "1| d.sessionID, err = sessionID(d.suite, d.pub, d.verifiers, d.secretCommits, d.t)",
      "1| if err != nil",
      "2| return nil, err",
      "1| d.aggregator = newAggregator(d.suite, d.pub, d.verifiers, d.secretCommits, d.t, d.sessionID)",
      "1| d.deals = make([]*Deal, len(d.verifiers))",
      "1| for i := range d.verifiers",
      "2| fi := f.Eval(i)",
      "2| d.deals[i] = &Deal{ SessionID: d.sessionID, SecShare: fi, Commitments: d.secretCommits, T: uint32(d.t), }",
      "1| d.hkdfContext = context(suite, d.pub, verifiers)",
      "1| d.secretPoly = f",
      "1| return d, nil"] ∧
    Gen.VssFacts.newVerifier = [
      "0| func NewVerifier(suite suites.Suite, longterm kyber.Scalar, dealerKey kyber.Point, verifiers []kyber.Point) (*Verifier, error)",
      "1| pub := suite.Point().Mul(longterm, nil)",
      "1| var ok bool",
      "1| var index int",
      "1| for i, v := range verifiers",
      "2| if v.Equal(pub)",
      "3| ok = true",
      "3| index = i",
      "3| break",
      "1| if !ok",
      "2| return nil, errors.New(\"vss: public key not found in the list of verifiers\")",
      "1| v := &Verifier{ suite: suite, longterm: longterm, dealer: dealerKey, verifiers: verifiers, pub: pub, index: index, hkdfContext: context(suite, dealerKey, verifiers), }",
      "1| return v, nil"] ∧
    Gen.VssFacts.findPub = [
      "0| func findPub(verifiers []kyber.Point, idx uint32) (kyber.Point, bool)",
      "1| iidx := int(idx)",
      "1| if iidx >= len(verifiers)",
      "2| return nil, false",
      "1| return verifiers[iidx], true"] :=
  ⟨rfl, rfl, rfl, rfl, rfl, rfl, rfl, rfl, rfl, rfl, rfl, rfl⟩


/-- **1a. What opens.**  `decryptDeal` succeeds on `e` with deal `d` iff the DH bytes are signed
under the verifier's dealer key, decode to a point `X`, the nonce has the AEAD size and the
ciphertext is the sealing of `d` under `kdf(long • X, ctx(dealer, members))` with that context as
associated data.  Nothing else opens: any other term in any field is an error. -/
theorem open_sound (g : G) (v : Verifier F G) (e : EncDeal F G) (d : Deal F G) :
    decryptDeal g v e = .ok d ↔
      (∃ sk rnd, e.sig = .sign sk e.dh rnd ∧ sk • g = v.dealer) ∧
      ∃ X, e.dh.parse = some X ∧ e.nonce.length = nonceSize ∧
        e.cipher = .seal ⟨v.long • X, v.ctx⟩ e.nonce v.ctx (.deal d) :=
  decryptDeal_ok_iff g v e d

/-- **1b. Only the addressee, only unmodified.**  Let `e0` be what the dealer `dlong` produced for
member `i` of list `L` (ephemeral secret `eph ≠ 0`, any plaintext `pt0`).  Whatever else an
encrypted deal `e` contains, if it carries `e0`'s ciphertext and a verifier `v` opens it, then
`v` was constructed for this dealer and this member list, the plaintext and the nonce are the
dealer's, the signature is one of this dealer's key over the presented DH bytes, the derived
key equation holds, and – when the DH bytes are the dealer's too – `v`'s own key is `L[i]`. -/
theorem open_only_addressee (g : G) (hg : g ≠ 0) (dlong eph : F) (heph : eph ≠ 0) (L : List G) (i rnd : Nat)
    (pt0 : Plain F G) (e0 : EncDeal F G) (h0 : sealDeal g dlong L i eph rnd pt0 = some e0)
    (v : Verifier F G) (e : EncDeal F G) (d : Deal F G)
    (hc : e.cipher = e0.cipher) (hok : decryptDeal g v e = .ok d) :
    v.dealer = dlong • g ∧ v.vs = L ∧ pt0 = .deal d ∧ e.nonce = e0.nonce ∧
    (∃ rnd', e.sig = .sign dlong e.dh rnd') ∧
    (∃ X vpub, L[i]? = some vpub ∧ e.dh.parse = some X ∧ v.long • X = eph • vpub) ∧
    (e.dh = e0.dh → L[i]? = some (v.long • g)) := by
  obtain ⟨⟨sk, rnd', hsig, hsk⟩, X, hX, _, hcip⟩ := (decryptDeal_ok_iff g v e d).1 hok
  unfold sealDeal at h0
  rcases hL : L[i]? with _ | vpub
  · simp [hL] at h0
  · simp only [hL, Option.some.injEq] at h0
    subst h0
    rw [hcip] at hc
    simp only [Cipher.seal.injEq, Key.mk.injEq, Verifier.ctx, Ctx.mk.injEq] at hc
    obtain ⟨⟨hkey, hd1, hv1⟩, hn, _, hpt⟩ := hc
    have hdl : sk = dlong := smul_base_inj hg (by rw [hsk, hd1])
    refine ⟨hd1, hv1, hpt.symm, hn, ⟨rnd', by rw [hsig, hdl]⟩, ⟨X, vpub, rfl, hX, hkey⟩, ?_⟩
    intro hdh
    rw [hdh] at hX
    simp only [DhBytes.parse, Option.some.injEq] at hX
    subst hX
    have h2 : eph • (v.long • g) = eph • vpub := by rw [smul_comm]; exact hkey
    have h3 : v.long • g = vpub := by
      have := congrArg (fun p => eph⁻¹ • p) h2
      simpa [smul_smul, ← mul_assoc, inv_mul_cancel₀ heph] using this
    rw [h3]

/-- **1c. The addressee does open it** (so 1b is not vacuous): the verifier built for this dealer,
this list and holding the key `L[i]` recovers exactly the sealed deal. -/
theorem addressee_opens (g : G) (dlong eph : F) (L : List G) (i rnd : Nat) (d0 : Deal F G)
    (e0 : EncDeal F G) (h0 : sealDeal g dlong L i eph rnd (.deal d0) = some e0)
    (v : Verifier F G) (hdl : v.dealer = dlong • g) (hl : v.vs = L) (hk : L[i]? = some (v.long • g)) :
    decryptDeal g v e0 = .ok d0 := by
  unfold sealDeal at h0
  simp only [hk, Option.some.injEq] at h0
  subst h0
  refine (decryptDeal_ok_iff g v _ d0).2 ⟨⟨dlong, rnd, rfl, hdl.symm⟩, eph • g, rfl, by simp [nonceSize], ?_⟩
  simp [Verifier.ctx, hdl, hl, smul_comm v.long eph g]

/-- **1d. Rejected before any share is accepted.**  Whenever decryption fails,
`ProcessEncryptedDeal` returns that error and leaves the verifier exactly as it was: no
aggregator, no stored deal, no response – `VerifyDeal` is never reached. -/
theorem rejected_before_verify (g : G) (v : Verifier F G) (e : EncDeal F G) (rnd : Nat)
    (h : ∀ d, decryptDeal g v e ≠ .ok d) :
    ∃ err, processEncryptedDeal g v e rnd = (v, .error err) := by
  rcases hd : decryptDeal g v e with err | d
  · exact ⟨err, process_decrypt_error g v e rnd err hd⟩
  · exact absurd hd (h d)

/-- **1e. Every cross-wiring and every single-field substitution is rejected.**  With `e0` the
dealer's deal for member `i` as in 1b, presenting it (or any `e` built from its DH bytes and
ciphertext) fails – before `VerifyDeal` – as soon as ONE of the following holds: the opener is
another member, believes in another dealer, has another member list, the nonce was changed, the
DH bytes were changed under the original signature, the signature is not one of the dealer's
key on these DH bytes, or the ciphertext is not a sealing at all.
Read exactly: "signature changed" means the `Signature` field is NOT a signature term of the dealer's key on the
presented DH bytes – another signature OF THE DEALER on the same bytes (other randomness) is not a modification
in this model and is accepted; that nobody else can produce one is the unforgeability assumption.  "Ciphertext
changed" here is `junk` only; every other term is `cipher_not_under_deal_key_rejected` (1e′), two mixed deals
`swapped_cipher_rejected_eph` (1f′). -/
theorem substitution_rejected (g : G) (hg : g ≠ 0) (dlong eph : F) (heph : eph ≠ 0) (L : List G) (i rnd : Nat)
    (pt0 : Plain F G) (e0 : EncDeal F G) (h0 : sealDeal g dlong L i eph rnd pt0 = some e0)
    (v : Verifier F G) (e : EncDeal F G) (rnd' : Nat)
    (hbad :
      (e.dh = e0.dh ∧ e.cipher = e0.cipher ∧ L[i]? ≠ some (v.long • g)) ∨      -- other recipient
      (e.cipher = e0.cipher ∧ v.dealer ≠ dlong • g) ∨                          -- other dealer
      (e.cipher = e0.cipher ∧ v.vs ≠ L) ∨                                      -- other member list
      (e.cipher = e0.cipher ∧ e.nonce ≠ e0.nonce) ∨                            -- nonce changed
      (e.sig = e0.sig ∧ e.dh ≠ e0.dh) ∨                                        -- DH key changed
      (v.dealer = dlong • g ∧ ∀ r, e.sig ≠ .sign dlong e.dh r) ∨               -- signature changed
      (∃ id, e.cipher = .junk id)) :                                            -- ciphertext changed
    ∃ err, processEncryptedDeal g v e rnd' = (v, .error err) := by
  apply rejected_before_verify
  intro d hok
  rcases hbad with ⟨h1, h2, h3⟩ | ⟨h1, h2⟩ | ⟨h1, h2⟩ | ⟨h1, h2⟩ | ⟨h1, h2⟩ | ⟨h1, h2⟩ | ⟨id, h1⟩
  · exact h3 ((open_only_addressee g hg dlong eph heph L i rnd pt0 e0 h0 v e d h2 hok).2.2.2.2.2.2 h1)
  · exact h2 (open_only_addressee g hg dlong eph heph L i rnd pt0 e0 h0 v e d h1 hok).1
  · exact h2 (open_only_addressee g hg dlong eph heph L i rnd pt0 e0 h0 v e d h1 hok).2.1
  · exact h2 (open_only_addressee g hg dlong eph heph L i rnd pt0 e0 h0 v e d h1 hok).2.2.2.1
  · obtain ⟨⟨sk, r, hsig, _⟩, _⟩ := (decryptDeal_ok_iff g v e d).1 hok
    unfold sealDeal at h0
    rcases hL : L[i]? with _ | vpub
    · simp [hL] at h0
    · simp only [hL, Option.some.injEq] at h0
      subst h0
      rw [hsig] at h1
      simp only [DhSig.sign.injEq] at h1
      exact h2 h1.2.1
  · obtain ⟨⟨sk, r, hsig, hsk⟩, _⟩ := (decryptDeal_ok_iff g v e d).1 hok
    have : sk = dlong := smul_base_inj hg (by rw [hsk, h1])
    exact h2 r (by rw [hsig, this])
  · obtain ⟨_, X, _, _, hcip⟩ := (decryptDeal_ok_iff g v e d).1 hok
    rw [h1] at hcip; cases hcip

/-- **1f. Fields of two different deals do not combine.**  Ciphertext of a second deal `e1`
(dealer `dlong1`, list `L1`, member `i1`, ephemeral `eph1`) under the DH bytes of `e0`: rejected
unless the two Diffie–Hellman values collide (`long • (eph • g) = eph1 • L1[i1]`, which for
independently drawn ephemerals is the negligible event the DH assumption excludes). -/
theorem swapped_cipher_rejected (g : G) (hg : g ≠ 0) (dlong eph dlong1 eph1 : F) (heph1 : eph1 ≠ 0)
    (L L1 : List G) (i i1 rnd rnd1 : Nat) (pt0 pt1 : Plain F G) (e0 e1 : EncDeal F G)
    (h0 : sealDeal g dlong L i eph rnd pt0 = some e0) (h1 : sealDeal g dlong1 L1 i1 eph1 rnd1 pt1 = some e1)
    (v : Verifier F G) (e : EncDeal F G) (rnd' : Nat)
    (hdh : e.dh = e0.dh) (hc : e.cipher = e1.cipher)
    (hnocoll : ∀ vpub1, L1[i1]? = some vpub1 → v.long • (eph • g) ≠ eph1 • vpub1) :
    ∃ err, processEncryptedDeal g v e rnd' = (v, .error err) := by
  apply rejected_before_verify
  intro d hok
  obtain ⟨_, _, _, _, _, ⟨X, vpub1, hL1, hX, hkey⟩, _⟩ :=
    open_only_addressee g hg dlong1 eph1 heph1 L1 i1 rnd1 pt1 e1 h1 v e d hc hok
  unfold sealDeal at h0
  rcases hL : L[i]? with _ | vpub
  · simp [hL] at h0
  · simp only [hL, Option.some.injEq] at h0
    subst h0
    rw [hdh] at hX
    simp only [DhBytes.parse, Option.some.injEq] at hX
    subst hX
    exact hnocoll vpub1 hL1 hkey

/-- **1e′. A changed ciphertext – ANY term, not only garbage.**  Under the dealer's DH bytes, whatever is
presented in the `Cipher` field is rejected before `VerifyDeal` unless it is a sealing under exactly the key
of this deal, `kdf(long • (eph • g), ctx(v))`, with the presented nonce and the context as associated data.
(`substitution_rejected` covers `junk` only; a sealing under another key, nonce or context is covered here.
That the key itself is out of an outsider's reach is `share_not_derivable`.)  Conversely every ciphertext a
verifier opens under these DH bytes is such a sealing of the deal it returns. -/
theorem cipher_not_under_deal_key_rejected (g : G) (dlong eph : F) (L : List G) (i rnd : Nat)
    (pt0 : Plain F G) (e0 : EncDeal F G) (h0 : sealDeal g dlong L i eph rnd pt0 = some e0)
    (v : Verifier F G) (e : EncDeal F G) (rnd' : Nat) (hdh : e.dh = e0.dh) :
    ((∀ d, e.cipher ≠ .seal ⟨v.long • (eph • g), v.ctx⟩ e.nonce v.ctx (.deal d)) →
      ∃ err, processEncryptedDeal g v e rnd' = (v, .error err)) ∧
    (∀ d, decryptDeal g v e = .ok d → e.cipher = .seal ⟨v.long • (eph • g), v.ctx⟩ e.nonce v.ctx (.deal d)) := by
  have key : ∀ d, decryptDeal g v e = .ok d →
      e.cipher = .seal ⟨v.long • (eph • g), v.ctx⟩ e.nonce v.ctx (.deal d) := by
    intro d hok
    obtain ⟨_, X, hX, _, hcip⟩ := (decryptDeal_ok_iff g v e d).1 hok
    unfold sealDeal at h0
    rcases hL : L[i]? with _ | vpub
    · simp [hL] at h0
    · simp only [hL, Option.some.injEq] at h0
      subst h0
      rw [hdh] at hX
      simp only [DhBytes.parse, Option.some.injEq] at hX
      subst hX
      exact hcip
  refine ⟨fun hne => ?_, key⟩
  apply rejected_before_verify
  intro d hok
  exact hne d (key d hok)

/-- **1f′. `swapped_cipher_rejected` with the collision stated over the two EPHEMERALS**, as its docstring
says: `v` is the addressee of `e0` (`L[i] = long • g`); the ciphertext of the second deal under the DH bytes
of the first is rejected unless `eph • L[i] = eph1 • L1[i1]` – the two Diffie–Hellman values themselves
collide.  Nothing about the opener's key is assumed beyond its being the addressee. -/
theorem swapped_cipher_rejected_eph (g : G) (hg : g ≠ 0) (dlong eph dlong1 eph1 : F) (heph1 : eph1 ≠ 0)
    (L L1 : List G) (i i1 rnd rnd1 : Nat) (pt0 pt1 : Plain F G) (e0 e1 : EncDeal F G)
    (h0 : sealDeal g dlong L i eph rnd pt0 = some e0) (h1 : sealDeal g dlong1 L1 i1 eph1 rnd1 pt1 = some e1)
    (v : Verifier F G) (e : EncDeal F G) (rnd' : Nat)
    (hdh : e.dh = e0.dh) (hc : e.cipher = e1.cipher) (haddr : L[i]? = some (v.long • g))
    (hnocoll : ∀ vpub vpub1, L[i]? = some vpub → L1[i1]? = some vpub1 → eph • vpub ≠ eph1 • vpub1) :
    ∃ err, processEncryptedDeal g v e rnd' = (v, .error err) :=
  swapped_cipher_rejected g hg dlong eph dlong1 eph1 heph1 L L1 i i1 rnd rnd1 pt0 pt1 e0 e1 h0 h1 v e rnd' hdh hc
    (fun vpub1 hv1 => by
      have := hnocoll (v.long • g) vpub1 haddr hv1
      rwa [smul_comm] at this)

/-- **2a. `approve_iff`.**  A verifier that has not yet received a deal (no aggregator) and whose
index is inside its list answers an OPENED deal `d` with an approval iff the threshold is valid
(`2 ≤ T ≤ n`), the deal's session id is the identifier of (dealer, members, commitments, T), the
share index is the verifier's own and the share lies on the committed polynomial at that index. -/
theorem approve_iff (g : G) (v : Verifier F G) (e : EncDeal F G) (rnd : Nat) (d : Deal F G)
    (hv : v.agg = none) (hidx : v.index < v.vs.length) (hd : decryptDeal g v e = .ok d) :
    (∃ v' r, processEncryptedDeal g v e rnd = (v', .ok r) ∧ r.status = true) ↔
      (validT d.t v.vs.length = true ∧ d.sid = Sid.h v.dealer v.vs d.commits d.t ∧
        ∃ val : F, d.share = some ⟨(v.index : Int), some val⟩ ∧
          val • g = pubEval (S := F) d.commits (v.index : Int)) := by
  obtain ⟨hnone, hnov, hne, heq⟩ := process_fresh g v e rnd d hv hidx hd
  constructor
  · rintro ⟨v', r, hp, hst⟩
    rcases hsh : d.share with _ | sh
    · rw [hnone hsh] at hp; cases hp
    · by_cases hvn : sh.v = none
      · rw [hnov sh hsh hvn] at hp; cases hp
      · by_cases hi : sh.i = (v.index : Int)
        · obtain ⟨v'', r', hp', _, _, _, hiff⟩ := heq sh hsh hvn hi
          rw [hp'] at hp
          injection hp with _ hp; injection hp with hp; subst hp
          obtain ⟨i', val, hs', hT, hsid, _, _, hchk⟩ := hiff.1 hst
          rw [hsh] at hs'; injection hs' with hs'; subst hs'
          simp only at hi; subst hi
          exact ⟨hT, hsid.symm, val, rfl, hchk⟩
        · rw [hne sh hsh hvn hi] at hp; cases hp
  · rintro ⟨hT, hsid, val, hsh, hchk⟩
    obtain ⟨v', r, hp, _, _, _, hiff⟩ := heq ⟨(v.index : Int), some val⟩ hsh (by simp) rfl
    exact ⟨v', r, hp, hiff.2 ⟨(v.index : Int), val, hsh, hT, hsid.symm, by omega, by omega, hchk⟩⟩

/-- **2a′. The second deal.**  `approve_iff` speaks about a verifier without aggregator.  A verifier that
already holds a deal (its aggregator stores one – which is the case after every `ProcessEncryptedDeal` that
returned a response, `first_deal_is_stored`) answers NO further encrypted deal: whatever `e` is, the result
is an error (`already`, or the decryption / share / index error that comes first), never a response, and the
verifier – stored deal, responses, `approved` flag – is exactly what it was. -/
theorem second_deal_never_answered (g : G) (v : Verifier F G) (a : Agg F G) (e : EncDeal F G) (rnd : Nat)
    (hv : v.agg = some a) (hdeal : a.deal.isSome = true) :
    ∃ err, processEncryptedDeal g v e rnd = (v, .error err) := by
  unfold processEncryptedDeal
  rcases decryptDeal g v e with err | d
  · exact ⟨err, rfl⟩
  · simp only
    rcases hsh : d.share with _ | sh
    · exact ⟨.noShare, rfl⟩
    · simp only
      by_cases hvn : sh.v.isNone = true
      · exact ⟨.noShare, by simp [hvn]⟩
      · by_cases hi : sh.i ≠ (v.index : Int)
        · exact ⟨.index, by simp [hvn, hi]⟩
        · refine ⟨.already, ?_⟩
          rcases hval : sh.v with _ | val
          · simp [hval] at hvn
          · have hvd : verifyDeal g a d true = (a, some .already) := by
              unfold verifyDeal
              simp [hsh, hval, hdeal]
            simp only [hvn, hi, hv, hvd, Bool.false_eq_true, if_false, if_true]
            cases v
            simp_all

/-- every `ProcessEncryptedDeal` of a fresh verifier that returns a response stores the deal it opened -/
theorem first_deal_is_stored (g : G) (v v' : Verifier F G) (e : EncDeal F G) (rnd : Nat) (r : Response F G)
    (hv : v.agg = none) (h : processEncryptedDeal g v e rnd = (v', .ok r)) :
    ∃ a d, v'.agg = some a ∧ decryptDeal g v e = .ok d ∧ a.deal = some d := by
  unfold processEncryptedDeal at h
  rcases hd : decryptDeal g v e with err | d
  · simp [hd] at h
  · simp only [hd] at h
    rcases hsh : d.share with _ | sh
    · simp [hsh] at h
    · simp only [hsh] at h
      by_cases hvn : sh.v.isNone = true
      · simp [hvn] at h
      · by_cases hi : sh.i ≠ (v.index : Int)
        · simp [hvn, hi] at h
        · rcases hval : sh.v with _ | val
          · simp [hval] at hvn
          · simp only [hvn, hi, hv, Bool.false_eq_true, if_false] at h
            have hvd : (verifyDeal g (newAgg (S := F) v.dealer v.vs d.commits d.t d.sid) d true).1.deal = some d := by
              unfold verifyDeal
              simp only [hsh, hval, newAgg, Option.isSome_none, Bool.false_eq_true, false_and, if_false,
                Option.isNone_none, if_true]
              (repeat' split) <;> rfl
            rcases hres : verifyDeal g (newAgg (S := F) v.dealer v.vs d.commits d.t d.sid) d true with ⟨a1, verr⟩
            rw [hres] at hvd h
            simp only at hvd h
            by_cases halr : verr = some .already
            · simp [halr] at h
            · simp only [halr, if_false] at h
              split at h
              · simp at h
              · rename_i a2 hadd
                simp only [Prod.mk.injEq, Except.ok.injEq] at h
                obtain ⟨_, _, ha2⟩ := addResponse_ok hadd
                exact ⟨a2, d, by rw [← h.1], rfl, by rw [ha2]; exact hvd⟩

/-- **2b. Otherwise a complaint or an error – never an approval.**  In every other case
`ProcessEncryptedDeal` returns an error, or a response whose status is "complaint". -/
theorem otherwise_complaint_or_error (g : G) (v : Verifier F G) (e : EncDeal F G) (rnd : Nat) (d : Deal F G)
    (hv : v.agg = none) (hidx : v.index < v.vs.length) (hd : decryptDeal g v e = .ok d)
    (hbad : ¬ (validT d.t v.vs.length = true ∧ d.sid = Sid.h v.dealer v.vs d.commits d.t ∧
        ∃ val : F, d.share = some ⟨(v.index : Int), some val⟩ ∧
          val • g = pubEval (S := F) d.commits (v.index : Int))) :
    ∀ v' r, processEncryptedDeal g v e rnd = (v', .ok r) → r.status = false := by
  intro v' r hp
  by_contra hst
  have : r.status = true := by simpa using hst
  exact hbad ((approve_iff g v e rnd d hv hidx hd).1 ⟨v', r, hp, this⟩)

/-- **2c. With commitments `f • g` the approved share is `f(I+1)`** (`• g` injective for `g ≠ 0`):
approval ⇔ valid `T` ∧ session id bound ∧ own index ∧ `V = f(I+1)`. -/
theorem approve_iff_polynomial (g : G) (hg : g ≠ 0) (v : Verifier F G) (e : EncDeal F G) (rnd : Nat)
    (d : Deal F G) (f : List F) (hf : d.commits = commit g f)
    (hv : v.agg = none) (hidx : v.index < v.vs.length) (hd : decryptDeal g v e = .ok d) :
    (∃ v' r, processEncryptedDeal g v e rnd = (v', .ok r) ∧ r.status = true) ↔
      (validT d.t v.vs.length = true ∧ d.sid = Sid.h v.dealer v.vs d.commits d.t ∧
        d.share = some ⟨(v.index : Int), some (priEval f (v.index : Int))⟩) := by
  rw [approve_iff g v e rnd d hv hidx hd, hf]
  constructor
  · rintro ⟨hT, hsid, val, hsh, hchk⟩
    rw [(check_commit_iff hg f _ val).1 hchk] at hsh
    exact ⟨hT, hsid, hsh⟩
  · rintro ⟨hT, hsid, hsh⟩
    exact ⟨hT, hsid, _, hsh, (check_commit_iff hg f _ _).2 rfl⟩

/-- **2d. The response is bound to what was seen**: it carries the verifier's own index and the
identifier of the commitments it checked, signed with the verifier's long-term key. -/
theorem response_binds (g : G) (v : Verifier F G) (e : EncDeal F G) (rnd : Nat) (v' : Verifier F G)
    (r : Response F G) (hv : v.agg = none) (hidx : v.index < v.vs.length)
    (hp : processEncryptedDeal g v e rnd = (v', .ok r)) :
    ∃ d, decryptDeal g v e = .ok d ∧ r.index = v.index ∧ r.sid = Sid.h v.dealer v.vs d.commits d.t ∧
      r.sig = .sign v.long r.sid v.index r.status rnd := by
  rcases hd : decryptDeal g v e with err | d
  · rw [process_decrypt_error g v e rnd err hd] at hp; cases hp
  · obtain ⟨hnone, hnov, hne, heq⟩ := process_fresh g v e rnd d hv hidx hd
    rcases hsh : d.share with _ | sh
    · rw [hnone hsh] at hp; cases hp
    · by_cases hvn : sh.v = none
      · rw [hnov sh hsh hvn] at hp; cases hp
      · by_cases hi : sh.i = (v.index : Int)
        · obtain ⟨v'', r', hp', h1, h2, h3, _⟩ := heq sh hsh hvn hi
          rw [hp'] at hp
          injection hp with _ hp; injection hp with hp; subst hp
          exact ⟨d, rfl, h1, h2, h3⟩
        · rw [hne sh hsh hvn hi] at hp; cases hp

/-! ### non-vacuity: a concrete dealer, list and verifier over ℚ (`g = 1`) -/

/-! ### confidentiality: attacker knowledge (round 5, review C finding 2; `Model/VssKnows.lean`) -/

/-- **1e. `share_not_derivable` – "can be read only by the member it is addressed to".**  For a deal of an
honest dealer to an honest recipient, the share value – and the AEAD key – is NOT derivable (Dolev–Yao
closure `Knows`: pairing/projection, exponentiation with known secrets, HKDF and hashing forward,
sealing, opening with a known key) from everything on the wire – all public keys, the DH key, the
ciphertext – together with EVERY OTHER secret in the system (`others`: the long-term keys of all other
members, any ephemerals of the attacker's own), provided the attacker holds neither the ephemeral secret
nor the recipient's long-term key, nor the share value itself.  Idealised cryptography: names are
unguessable, the discrete logarithm, HKDF and the AEAD cannot be inverted. -/
theorem share_not_derivable (s : Knows.Scene) (he : s.eph ∉ s.others) (hl : s.long ∉ s.others)
    (hv : s.v ∉ s.others) (hne : s.eph ≠ s.long) :
    ¬ Knows.Knows s.wire (.name s.v) ∧ ¬ Knows.Knows s.wire s.key :=
  ⟨fun h => hv (Knows.knows_good s he hl hne h), fun h => Knows.key_not_good s (Knows.knows_good s he hl hne h)⟩

/-- the closure is not empty-handed: the ADDRESSEE (the wire plus its own long-term key) derives the share … -/
theorem addressee_derives_share (s : Knows.Scene) :
    Knows.Knows (fun t => s.wire t ∨ t = .name s.long) (.name s.v) := by
  have hdh : Knows.Knows (fun t => s.wire t ∨ t = .name s.long) (.pt [s.eph]) :=
    .init (Or.inl (Or.inr (Or.inr (Or.inr (Or.inr (Or.inl rfl))))))
  have hk : Knows.Knows (fun t => s.wire t ∨ t = .name s.long) s.key :=
    .kdf s.ctx (.perm (.exp (.init (Or.inr rfl)) hdh) (List.Perm.swap _ _ _))
  exact .open_ (.init (Or.inl (Or.inr (Or.inr (Or.inr (Or.inr (Or.inr rfl))))))) hk

/-- … and so does anybody once the ephemeral secret is on the wire (the reviewer's escape E9: `EncryptedDeal`
appending the ephemeral secret to `DHKey`): the hypothesis `eph ∉ others` of `share_not_derivable` is what the
field-length and observer oracles of go/props/c08 watch on the real code. -/
theorem leaked_ephemeral_reveals_share (s : Knows.Scene) :
    Knows.Knows (fun t => s.wire t ∨ t = .name s.eph) (.name s.v) := by
  have hpk : Knows.Knows (fun t => s.wire t ∨ t = .name s.eph) (.pt [s.long]) :=
    .init (Or.inl (Or.inr (Or.inr (Or.inr (Or.inl rfl)))))
  have hk : Knows.Knows (fun t => s.wire t ∨ t = .name s.eph) s.key :=
    .kdf s.ctx (.exp (.init (Or.inr rfl)) hpk)
  exact .open_ (.init (Or.inl (Or.inr (Or.inr (Or.inr (Or.inr (Or.inr rfl))))))) hk

/-- the hypotheses of `share_not_derivable` hold on a concrete scene: members 1..3 (recipient 2), dealer 10,
ephemeral 20, share value 30; the attacker holds members 1 and 3 and an ephemeral 21 of its own -/
example : let s : Knows.Scene := ⟨10, 2, 20, 30, 0, [1, 3, 21], [1, 2, 3]⟩
    s.eph ∉ s.others ∧ s.long ∉ s.others ∧ s.v ∉ s.others ∧ s.eph ≠ s.long := by decide

section Examples
/-- members' keys 5, 7, 9 (`g = 1`), dealer key 3, polynomial `4 + 2x`, deal for member 1 -/
def exL : List ℚ := [5, 7, 9]
def exDeal : Deal ℚ ℚ := honestDeal (1 : ℚ) 3 exL [4, 2] 1
def exE0 : Option (EncDeal ℚ ℚ) := sealDeal (1 : ℚ) 3 exL 1 11 0 (.deal exDeal)
def exV (long dealer : ℚ) (l : List ℚ) : Option (Verifier ℚ ℚ) := (newVerifier (1 : ℚ) long dealer l).toOption

-- the addressee opens and approves (hypotheses of 1b, 1c, 2a, 2c hold with `d = exDeal`)
example : (do let e ← exE0; let v ← exV 7 3 exL; pure (decryptDeal 1 v e)) = some (.ok exDeal) := by
  decide +kernel
example : (do let e ← exE0; let v ← exV 7 3 exL
              pure ((processEncryptedDeal 1 v e).2.toOption.map (·.status))) = some (some true) := by
  decide +kernel
example : exDeal.share = some ⟨1, some (priEval ([4, 2] : List ℚ) 1)⟩ ∧ validT exDeal.t 3 = true := by
  decide +kernel
-- another member, another dealer, another list, a changed nonce: all errors (hypotheses of 1e)
example : (do let e ← exE0; let v ← exV 5 3 exL; pure (decryptDeal 1 v e)) = some (.error .open_) := by
  decide +kernel
example : (do let e ← exE0; let v ← exV 7 4 exL; pure (decryptDeal 1 v e)) = some (.error .sig) := by
  decide +kernel
example : (do let e ← exE0; let v ← exV 7 3 [5, 7, 10]; pure (decryptDeal 1 v e)) = some (.error .open_) := by
  decide +kernel
example : (do let e ← exE0; let v ← exV 7 3 exL
              pure (decryptDeal 1 v { e with nonce := 1 :: e.nonce.drop 1 })) = some (.error .open_) := by
  decide +kernel
-- a bad share is answered with a complaint (hypothesis of 2b)
example : (do let e ← sealDeal (1 : ℚ) 3 exL 1 11 0 (.deal { exDeal with share := some ⟨1, some (9 : ℚ)⟩ })
              let v ← exV 7 3 exL
              pure ((processEncryptedDeal 1 v e).2.toOption.map (·.status))) = some (some false) := by
  decide +kernel
-- 2a′: the verifier that approved `exE0` answers neither the same deal nor a second deal of the dealer again
example : (do let e ← exE0; let v ← exV 7 3 exL
              let v1 := (processEncryptedDeal 1 v e).1
              let e2 ← sealDeal (1 : ℚ) 3 exL 1 12 0 (.deal exDeal)
              pure ((v1.agg.bind (·.deal)).isSome, (processEncryptedDeal 1 v1 e).2.toOption.isNone,
                    (processEncryptedDeal 1 v1 e2).2.toOption.isNone, (processEncryptedDeal 1 v1 e2).1 == v1)) =
    some (true, true, true, true) := by
  decide +kernel
-- 1e′: a sealing of ANOTHER plaintext under another key, with the right nonce and context, is rejected
example : (do let e ← exE0; let v ← exV 7 3 exL
              let e' : EncDeal ℚ ℚ := { e with cipher := .seal ⟨99, v.ctx⟩ e.nonce v.ctx (.deal exDeal) }
              pure (decryptDeal 1 v e')) = some (.error .open_) := by
  decide +kernel
end Examples

end Dos.Props.C08

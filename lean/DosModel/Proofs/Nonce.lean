/-
Helper lemmas for C19: nonces across the request queue.
-/
import DosModel.Model.CallData

namespace Dos.CallData
open Dos Dos.ReqLoop

theorem bumpNonce_same : ∀ (views : List EndpointView) (i : Nat) (v : EndpointView), views[i]? = some v →
    (bumpNonce views i)[i]? = some { v with pendingNonce := v.pendingNonce + 1 } := by
  intro views
  induction views with
  | nil => intro i v h; simp at h
  | cons w ws ih =>
    intro i v h
    cases i with
    | zero => simp at h; subst h; simp [bumpNonce]
    | succ i => simp at h; simp [bumpNonce, ih i v h]

theorem bumpNonce_other : ∀ (views : List EndpointView) (i j : Nat), i ≠ j →
    (bumpNonce views j)[i]? = views[i]? := by
  intro views
  induction views with
  | nil => intro i j _; simp [bumpNonce]
  | cons w ws ih =>
    intro i j hij
    cases j with
    | zero =>
      cases i with
      | zero => exact absurd rfl hij
      | succ i => simp [bumpNonce]
    | succ j =>
      cases i with
      | zero => simp [bumpNonce]
      | succ i => simp [bumpNonce, ih i j (by omega)]

theorem acceptedBy_contacted {r : CallResult} {os : List Outcome} {i : Nat} (h : acceptedBy r os = some i) :
    i ∈ r.contacted ∧ os[i]? = some Outcome.accept := by
  simp only [acceptedBy] at h
  have h1 := List.mem_of_find?_eq_some h
  have h2 := List.find?_some h
  exact ⟨h1, by simpa using h2⟩

/-- the nonces one endpoint accepted are consecutive, starting at the pending count it reported first -/
theorem acceptedNonces_consecutive (cfg : Config) : ∀ (hist : List (Method × List Outcome)) (dead : List Nat)
    (views : List EndpointView) (i : Nat) (v : EndpointView), views[i]? = some v →
    ∃ k, acceptedNonces cfg dead views hist i = List.range' v.pendingNonce k := by
  intro hist
  induction hist with
  | nil => intro dead views i v _; exact ⟨0, by simp [acceptedNonces]⟩
  | cons c rest ih =>
    intro dead views i v hv
    obtain ⟨m, os⟩ := c
    simp only [acceptedNonces]
    cases hacc : acceptedBy (call true dead os).1 os with
    | none =>
      obtain ⟨k, hk⟩ := ih (call true dead os).2 views i v hv
      exact ⟨k, by simp [hk]⟩
    | some j =>
      by_cases hji : j = i
      · subst hji
        have hv' := bumpNonce_same views j v hv
        obtain ⟨k, hk⟩ := ih (call true dead os).2 (bumpNonce views j) j _ hv'
        refine ⟨k + 1, ?_⟩
        simp only [if_true, hv, hk, envelope, List.range'_succ]
      · have hv' : (bumpNonce views j)[i]? = some v := by rw [bumpNonce_other views i j (Ne.symm hji)]; exact hv
        obtain ⟨k, hk⟩ := ih (call true dead os).2 (bumpNonce views j) i v hv'
        refine ⟨k, ?_⟩
        have : ¬ (some j = some i) := by simpa using hji
        simp only [this, if_false, hk]

end Dos.CallData

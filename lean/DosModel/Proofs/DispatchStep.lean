import DosModel.Proofs.DispatchInv

/-! Every event preserves the invariant. -/
namespace Dos.Dispatch
open Dos

theorem allFalse_of_pre {r : Req} (hr : RInv r) (hpre : ∀ h, allowed r.stage r.rtype h = false) :
    ∀ h, r.once h = false := by
  intro h
  cases hh : r.once h
  · rfl
  · have := hr.flags h hh; rw [hpre h] at this; simp at this

theorem complete_onceT (r : Req) (h : Holder) (v : Res) (w : Bool) (hne : h ≠ .table) :
    (r.complete h v w).onceT = r.onceT := by
  have := complete_once r h v w .table
  simp only [Req.once] at this
  rw [this]; simp [hne]

/-- moving a request whose stage allows no completion at all to another pre-table stage -/
theorem Inv.move {s : Sys} (hs : Inv s) (i : Nat) (st : Stage)
    (hpre : ∀ h, allowed (s.reqs i).stage (s.reqs i).rtype h = false)
    (h1 : preTable (s.reqs i).stage = true) (h2 : preTable st = true)
    (h5 : (s.reqs i).stage ≠ .absent) :
    Inv (s.upd i (fun r => { r with stage := st })) := by
  apply hs.upd i _ _ rfl rfl _ rfl (hs.core.lt_of_stage h5)
  · apply stage_change (hs.core.req i)
    · intro h hh; rw [hpre h] at hh; simp at hh
    · intro _; exact h1
  · show preTable st = preTable (s.reqs i).stage
    rw [h1, h2]

/-- move to a stage and complete on a holder other than the table -/
theorem Inv.moveComplete {s : Sys} (hs : Inv s) (i : Nat) (st : Stage) (h : Holder) (v : Res) (w : Bool)
    (hstage : ∀ h', allowed (s.reqs i).stage (s.reqs i).rtype h' = true → allowed st (s.reqs i).rtype h' = true)
    (hal : allowed st (s.reqs i).rtype h = true)
    (h1 : preTable (s.reqs i).stage = preTable st)
    (hne : h ≠ .table)
    (h5 : (s.reqs i).stage ≠ .absent) :
    Inv (s.upd i (fun r => ({ r with stage := st }).complete h v w)) := by
  apply hs.upd i _ _ _ _ _ _ (hs.core.lt_of_stage h5)
  · apply complete_inv
    · apply stage_change (hs.core.req i)
      · exact hstage
      · intro hp; rw [h1]; exact hp
    · exact hal
  · simp
  · simp
  · simp [h1]
  · rw [complete_onceT _ _ _ _ hne]

/-- dispatch takes a send-type request from peerSend: nonce `next`, table entry -/
theorem Inv.register {s : Sys} (hs : Inv s) (i : Nat) (st : Stage)
    (hst : (s.reqs i).stage = .queued) (hty : (s.reqs i).rtype = .send) (hpt : preTable st = false) :
    Inv { s.upd i (fun r => { r with stage := st, nonce := some s.conn.next }) with
          conn := { s.conn with next := s.conn.next + 1, pending := (s.conn.next, i) :: s.conn.pending } } := by
  have hc := hs.core
  have hflag := allFalse_of_pre (hc.req i) (by intro h; rw [hst]; cases h <;> rfl)
  have hR : RInv { s.reqs i with stage := st, nonce := some s.conn.next } := by
    have hr := hc.req i
    constructor
    · exact hr.count
    · exact hr.vals
    · exact hr.wctx
    · intro h hh
      have : (s.reqs i).once h = true := by cases h <;> exact hh
      rw [hflag h] at this; simp at this
    · intro hp
      change preTable st = true at hp
      rw [hpt] at hp; simp at hp
  have hreq : ∀ j, ({ s.upd i (fun r => { r with stage := st, nonce := some s.conn.next }) with
          conn := { s.conn with next := s.conn.next + 1, pending := (s.conn.next, i) :: s.conn.pending } } : Sys).reqs j
      = if j = i then { s.reqs j with stage := st, nonce := some s.conn.next } else s.reqs j := fun _ => rfl
  refine ⟨⟨?_, ?_, ?_, ?_⟩, ?_⟩
  · intro j; rw [hreq]; split
    · rename_i hj; subst hj; exact hR
    · exact hc.req j
  · intro j hj; rw [hreq]
    have : j ≠ i := by
      intro e; subst e
      have := hc.absent _ hj; rw [this] at hst; simp at hst
    simp only [this, if_false]; exact hc.absent j hj
  · intro j k h
    rw [hreq] at h
    show k < s.conn.next + 1
    split at h
    · injection h with h; omega
    · exact Nat.lt_succ_of_lt (hc.bound j k h)
  · intro j j' k h h'
    rw [hreq] at h h'
    split at h <;> split at h'
    · rename_i a b; rw [a, b]
    · injection h with h; subst h
      have := hc.bound j' _ h'; omega
    · injection h' with h'; subst h'
      have := hc.bound j _ h; omega
    · exact hc.uniq j j' k h h'
  · intro k j hkj
    change (k, j) ∈ (s.conn.next, i) :: s.conn.pending at hkj
    rw [hreq]
    show k < s.conn.next + 1 ∧ _
    rcases List.mem_cons.mp hkj with h | h
    · injection h with hk hj; subst hk; subst hj
      simp only [if_true]
      exact ⟨Nat.lt_succ_self _, by simp, hty, hpt, hflag .table⟩
    · have hp := hs.pend k j h
      have hj : j ≠ i := by
        intro e; subst e
        have := hp.2.2.2.1; rw [hst] at this; simp [preTable] at this
      simp only [hj, if_false]
      exact ⟨Nat.lt_succ_of_lt hp.1, hp.2.1, hp.2.2.1, hp.2.2.2⟩

/-- dispatch takes a reply-type request from peerSend: forwarded, not registered -/
theorem Inv.forwardReply {s : Sys} (hs : Inv s) (i : Nat) (st : Stage)
    (hst : (s.reqs i).stage = .queued) (hpt : preTable st = false) :
    Inv (s.upd i (fun r => { r with stage := st })) := by
  have hc := hs.core
  have hflag := allFalse_of_pre (hc.req i) (by intro h; rw [hst]; cases h <;> rfl)
  have hnotpend : ∀ k, (k, i) ∉ s.conn.pending := by
    intro k hk
    have := (hs.pend k i hk).2.2.2.1; rw [hst] at this; simp [preTable] at this
  have hR : RInv { s.reqs i with stage := st } := by
    have hr := hc.req i
    constructor
    · exact hr.count
    · exact hr.vals
    · exact hr.wctx
    · intro h hh
      have : (s.reqs i).once h = true := by cases h <;> exact hh
      rw [hflag h] at this; simp at this
    · intro hp
      change preTable st = true at hp
      rw [hpt] at hp; simp at hp
  refine ⟨hc.upd i _ hR rfl (hc.lt_of_stage (by rw [hst]; simp)), ?_⟩
  intro k j hkj
  have hp := hs.pend k j hkj
  have hj : j ≠ i := by intro e; subst e; exact hnotpend k hkj
  rw [upd_reqs_other _ _ _ _ hj]; exact hp

theorem step_inv {s : Sys} (hs : Inv s) (e : Ev) : Inv (step s e) := by
  have hc := hs.core
  cases e with
  | create t a =>
    simp only [step]
    refine ⟨⟨?_, ?_, ?_, ?_⟩, ?_⟩
    · intro i
      show RInv (if i = s.n then _ else _)
      split
      · constructor <;> simp [preTable]
        intro h; cases h <;> simp [Req.once]
      · exact hc.req i
    · intro i hi
      have hi' : s.n + 1 ≤ i := hi
      show (if i = s.n then _ else _ : Req) = _
      have : i ≠ s.n := by omega
      simp only [this, if_false]
      exact hc.absent i (by omega)
    · intro i k h
      change (if i = s.n then _ else _ : Req).nonce = _ at h
      split at h
      · simp at h
      · exact hc.bound i k h
    · intro i j k h h'
      change (if i = s.n then _ else _ : Req).nonce = _ at h
      change (if j = s.n then _ else _ : Req).nonce = _ at h'
      split at h
      · simp at h
      · split at h'
        · simp at h'
        · exact hc.uniq i j k h h'
    · intro k i hki
      have h := hs.pend k i hki
      have hne : i ≠ s.n := by
        intro e; subst e
        have := hc.absent s.n (Nat.le_refl _)
        rw [this] at h; simp [preTable] at h
      show _ ∧ (if i = s.n then _ else _ : Req).nonce = _ ∧ (if i = s.n then _ else _ : Req).rtype = _ ∧
        preTable (if i = s.n then _ else _ : Req).stage = _ ∧ (if i = s.n then _ else _ : Req).onceT = _
      simp only [hne, if_false]; exact h
  | toHandler i =>
    simp only [step]; split
    · rename_i hst
      exact hs.move i .calling (by intro h; rw [hst]; cases h <;> rfl) (by rw [hst]; rfl) rfl (by rw [hst]; simp)
    · exact hs
  | handlerFail i win =>
    simp only [step]; split
    · rename_i hst
      exact hs.moveComplete i .failed .handler _ _
        (by intro h hh; rw [hst] at hh; cases h <;> simp [allowed] at hh)
        (by cases (s.reqs i).rtype <;> rfl) (by rw [hst]; rfl) (by simp) (by rw [hst]; simp)
    · exact hs
  | toSendG i =>
    simp only [step]; split
    · rename_i hst
      exact hs.move i .sendG (by intro h; rw [hst]; cases h <;> rfl) (by rw [hst]; rfl) rfl (by rw [hst]; simp)
    · exact hs
  | sendGDrop i =>
    simp only [step]; split
    · rename_i hst
      exact hs.move i .dropped (by intro h; rw [hst.1]; cases h <;> rfl) (by rw [hst.1]; rfl) rfl (by rw [hst.1]; simp)
    · exact hs
  | sendGErr i win =>
    simp only [step]; split
    · rename_i hst
      exact hs.moveComplete i .sendErr .sendG _ _
        (by intro h hh; rw [hst.1] at hh; cases h <;> simp [allowed] at hh)
        (by cases (s.reqs i).rtype <;> rfl) (by rw [hst.1]; rfl) (by simp) (by rw [hst.1]; simp)
    · exact hs
  | enqueue i =>
    simp only [step]; split
    · rename_i hst
      exact hs.move i .queued (by intro h; rw [hst]; cases h <;> rfl) (by rw [hst]; rfl) rfl (by rw [hst]; simp)
    · exact hs
  | dsend i fwd =>
    simp only [step]; split
    · rename_i hg
      have hpt : preTable (if fwd = true then Stage.out else Stage.table) = false := by
        cases fwd <;> rfl
      split
      · rename_i hty
        exact hs.register i _ hg.1 hty hpt
      · rename_i hty
        exact hs.forwardReply i _ hg.1 hpt
    · exact hs
  | pack i win =>
    simp only [step]; split
    · rename_i hst
      have hne : (s.reqs i).stage ≠ .absent := by rw [hst]; simp
      have key : Inv (match (s.reqs i).rtype with
          | .reply => s.upd i (fun r => ({ r with stage := .packed }).complete .pack .nilOk win)
          | .send => s.upd i (fun r => { r with stage := .packed })) := by
        split
        · rename_i hty
          exact hs.moveComplete i .packed .pack _ _
            (by intro h hh; rw [hst, hty] at hh; cases h <;> simp [allowed] at hh)
            (by rw [hty]; rfl) (by rw [hst]; rfl) (by simp) hne
        · rename_i hty
          apply hs.upd i _ _ rfl rfl _ rfl (hc.lt_of_stage hne)
          · apply stage_change (hc.req i)
            · intro h hh; rw [hst, hty] at hh; rw [hty]
              cases h <;> simp [allowed] at hh ⊢
            · intro hp; simp [preTable] at hp
          · simp [hst, preTable]
      exact ⟨⟨key.core.req, key.core.absent, key.core.bound, key.core.uniq⟩, key.pend⟩
    · exact hs
  | reply k m race win =>
    simp only [step]; split
    · exact hs
    · split
      · exact hs
      · rename_i i hl
        have hmem := lookup_mem hl
        have hp := hs.pend k i hmem
        have hs1 : Inv { s with conn := { s.conn with pending := erase s.conn.pending k } } :=
          ⟨⟨hc.req, hc.absent, hc.bound, hc.uniq⟩, fun k' j h => hs.pend k' j (mem_erase h)⟩
        split
        · exact hs1
        · refine ⟨hs1.core.completeTable i (.msg m) win (fun r => if race = true then { r with ctxDone := true } else r)
            (by intro r hr; split; exact ctx_change hr; exact hr)
            (by intro r; split <;> rfl) (by intro r; split <;> rfl) (by intro r; split <;> rfl)
            hp.2.2.1 hp.2.2.2.1, ?_⟩
          intro k' j hkj
          have hkj' : (k', j) ∈ erase s.conn.pending k := hkj
          have hpj := hs.pend k' j (mem_erase hkj')
          have hk' : k' ≠ k := by
            have := (List.mem_filter.mp hkj').2
            simpa using this
          have hj : j ≠ i := by
            intro e; subst e
            have := hpj.2.1; rw [hp.2.1] at this; injection this with this; exact hk' this.symm
          rw [upd_reqs_other _ _ _ _ hj]; exact hpj
  | recv m =>
    simp only [step]; split
    · exact hs
    · exact ⟨⟨hc.req, hc.absent, hc.bound, hc.uniq⟩, hs.pend⟩
  | cancel i =>
    simp only [step]; split
    · exact hs
    · rename_i hst
      exact hs.upd i _ (ctx_change (hc.req i)) rfl rfl rfl rfl (hc.lt_of_stage hst)
  | waiterCtx i =>
    simp only [step]; split
    · rename_i hg
      exact hs.upd i _ (waiter_ctx (hc.req i) hg.2 hg.1) rfl rfl rfl rfl (hc.lt_of_ctx hg.2)
    · exact hs
  | close => exact ⟨⟨hc.req, hc.absent, hc.bound, hc.uniq⟩, hs.pend⟩
  | idle =>
    simp only [step]; split
    · exact hs
    · exact ⟨⟨hc.req, hc.absent, hc.bound, hc.uniq⟩, hs.pend⟩
  | ctxDone win =>
    simp only [step]; split
    · have hI := failAll_core win s.conn.pending s hc (fun k i hki => ⟨(hs.pend k i hki).2.2.1, (hs.pend k i hki).2.2.2.1⟩)
      refine ⟨⟨hI.req, ?_, ?_, hI.uniq⟩, ?_⟩
      · intro i hi
        have hi' : (failAll win s.conn.pending s).n ≤ i := hi
        exact hI.absent i hi'
      · intro i k hk
        have := hI.bound i k hk
        show k < (failAll win s.conn.pending s).conn.next
        exact this
      · intro k i hki; simp at hki
    · exact hs

theorem run_inv : ∀ (evs : List Ev) (s : Sys), Inv s → Inv (run s evs) := by
  intro evs
  induction evs with
  | nil => intro s h; exact h
  | cons e es ih => intro s h; exact ih _ (step_inv h e)

theorem run_append (s : Sys) (a b : List Ev) : run s (a ++ b) = run (run s a) b := by
  simp [run, List.foldl_append]

end Dos.Dispatch

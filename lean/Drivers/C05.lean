/-
C05 driver: `adv` case lines (go/props/c05) on the member-machine model with the adversarial
message language of `Model/DkgSim.lean` (the trailing field, the Byzantine member's index, only
tells the Go oracle whom to leave out of the joint outcome), and `hist` case lines – histories of
several key generations with the same long-term keys, whose recorded messages and oracle answers
feed every session – on the stage-level model `Model/DkgHist.lean`, and `libadv` case lines – generators
driven directly at library level – on `Model/DkgLibSim.lean`.
-/
import DosModel.Model.DkgSim
import DosModel.Model.DkgHist
import DosModel.Model.DkgLibSim

def main : IO Unit := Dos.lineLoop (fun line =>
  let w := Dos.words line
  match w.head? with
  | some "adv" => Dos.DkgSim.runLine (w.take 5)
  | some "hist" => Dos.DkgHist.runLine (w.take 8)
  | some "libadv" => Dos.DkgLibSim.runLine (w.take 5)
  | some "netadv" => Dos.DkgSim.runLineNet (w.take 7)
  | _ => "bad-op")

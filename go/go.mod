module verifharness

go 1.13

require github.com/DOSNetwork/core v0.0.0

replace github.com/DOSNetwork/core => /repo

/-
Line protocol of the C02 / C03 drivers: the model of `sign/tbls` (`Model/Tbls.lean`) run on the
concrete bn256 G1 of `Model/TblsG1.lean` with scalars modulo the group order.
-/
import DosModel.Model.Tbls
import DosModel.Model.TblsG1

namespace Dos.Tbls
open Dos Dos.Share

abbrev Fr := Zq G1.r

def g1Codec : Codec G1.Pt := ⟨G1.decode, G1.encode⟩

def parseEntries (s : String) : Option (List Bytes) :=
  if s == "none" then some [] else (s.splitOn ";").mapM ofHex

def hexFull (b : Bytes) : String := String.join (b.map hexOfByte)

def showRes : Res → String
  | .ok s => "ok " ++ hexFull s
  | .errFew => "err few"
  | .errThreshold => "err threshold"
  | .errDecode => "err decode"
  | .panic s => "panic " ++ showSite s

def showV : VRes → String
  | .ok => "ok"
  | .errIndex => "err eof"
  | .errDecode => "err decode"
  | .errInvalid => "err invalid"

/-- `H(m) = h • G1base`, `h = keccak256(m) mod r` supplied in the line -/
def hashPt (h : Fr) : G1.Pt := h • G1.base

/-- one call of a history case (`hist`): the calls of one line share mutable message buffers on the
Go side; the functions are pure in the message VALUE, so the model only tracks, per buffer, the hash
scalar of the bytes it holds at call time (`w` steps carry it). -/
def histTok (t n : Nat) (f : List Fr) (bufs : List (Nat × Fr)) (toks : List String) :
    List (Nat × Fr) × String :=
  let look (b : Nat) : Option Fr := (bufs.find? (fun e => e.1 == b)).map (·.2)
  match toks with
  | ["w", b, h, _msg] =>
    match b.toNat?, parseZ (q := G1.r) h with
    | some b, some h => ((b, h) :: bufs.filter (fun e => e.1 != b), "w")
    | _, _ => (bufs, "bad-op")
  | ["s", b, i] =>
    match b.toNat?.bind look, i.toNat? with
    | some h, some i => (bufs, "ok " ++ hexFull (tblsSign g1Codec f (hashPt h) i))
    | _, _ => (bufs, "bad-op")
  | ["bs", b] =>
    match b.toNat?.bind look with
    | some h => (bufs, "ok " ++ hexFull (blsSign g1Codec (f.headD 0) (hashPt h)))
    | _ => (bufs, "bad-op")
  | ["v", b, sig] =>
    match b.toNat?.bind look, ofHex sig with
    | some h, some sig => (bufs, showV (tblsVerifyR g1Codec f (hashPt h) sig))
    | _, _ => (bufs, "bad-op")
  | ["bv", b, sig] =>
    match b.toNat?.bind look, ofHex sig with
    | some h, some sig => (bufs, showV (blsVerifyR g1Codec (f.headD 0) (hashPt h) sig))
    | _, _ => (bufs, "bad-op")
  | ["r", b, es] =>
    match b.toNat?.bind look, parseEntries es with
    | some h, some es => (bufs, showRes (recover g1Codec f (hashPt h) es t n))
    | _, _ => (bufs, "bad-op")
  | ["rr", b, es] =>
    -- `Recover` twice on the SAME slice object: the second call sees what `sliceUniqMap` left in it
    match b.toNat?.bind look, parseEntries es with
    | some h, some es =>
      (bufs, showRes (recover g1Codec f (hashPt h) es t n) ++ "+"
        ++ showRes (recover g1Codec f (hashPt h) (uniqInPlace es) t n))
    | _, _ => (bufs, "bad-op")
  | _ => (bufs, "bad-op")

/-- a step is its `:`-separated tokens -/
def histStep (t n : Nat) (f : List Fr) (bufs : List (Nat × Fr)) (st : String) :
    List (Nat × Fr) × String := histTok t n f bufs (st.splitOn ":")

def histRun (t n : Nat) (f : List Fr) (steps : List String) : String :=
  let r := steps.foldl (fun (acc : List (Nat × Fr) × List String) st =>
    let (b', o) := histStep t n f acc.1 st
    (b', o :: acc.2)) ([], [])
  String.intercalate "/" r.2.reverse

def step (line : String) : String :=
  match words line with
  | ["hist", t, n, f, steps] =>
    match t.toNat?, n.toNat?, parseZs (q := G1.r) f with
    | some t, some n, some f => histRun t n f (steps.splitOn "/")
    | _, _, _ => "bad-op"
  | ["rec", t, n, h, pub, _msg, es] =>
    match t.toNat?, n.toNat?, parseZ (q := G1.r) h, parseZs (q := G1.r) pub, parseEntries es with
    | some t, some n, some h, some pub, some es => showRes (recover g1Codec pub (hashPt h) es t n)
    | _, _, _, _, _ => "bad-op"
  | ["sign", h, f, _msg, i] =>
    match parseZ (q := G1.r) h, parseZs (q := G1.r) f, i.toNat? with
    | some h, some f, some i => "ok " ++ hexFull (tblsSign g1Codec f (hashPt h) i)
    | _, _, _ => "bad-op"
  | ["blssign", h, x, _msg] =>
    match parseZ (q := G1.r) h, parseZ (q := G1.r) x with
    | some h, some x => "ok " ++ hexFull (blsSign g1Codec x (hashPt h))
    | _, _ => "bad-op"
  | ["ver", h, pub, _msg, sig] =>
    match parseZ (q := G1.r) h, parseZs (q := G1.r) pub, ofHex sig with
    | some h, some pub, some sig => showV (tblsVerifyR g1Codec pub (hashPt h) sig)
    | _, _, _ => "bad-op"
  | ["blsver", h, x, _msg, sig] =>
    match parseZ (q := G1.r) h, parseZ (q := G1.r) x, ofHex sig with
    | some h, some x, some sig => showV (blsVerifyR g1Codec x (hashPt h) sig)
    | _, _, _ => "bad-op"
  | _ => "bad-op"

/-- the cases are independent and each costs a few elliptic-curve scalar multiplications: evaluate
them as parallel pure tasks, print the answers in input order -/
partial def readAllLines (h : IO.FS.Stream) (acc : Array String) : IO (Array String) := do
  let line ← h.getLine
  if line.isEmpty then return acc
  let l := (line.trimAsciiEnd).toString
  readAllLines h (if l.isEmpty then acc else acc.push l)

def parLoop (f : String → String) : IO Unit := do
  let stdin ← IO.getStdin
  let stdout ← IO.getStdout
  let lines ← readAllLines stdin #[]
  let tasks := lines.map fun l => Task.spawn fun _ => f l
  for t in tasks do
    stdout.putStrLn t.get
  stdout.flush

end Dos.Tbls

/-
C05 round 4, "other sessions": agreement of two finishers WITHOUT any assumption on which response
signatures exist (the adversary may own every signature honest members produce in other runs with the
same long-term keys – `Model/DkgAdv.lean`).

The lemma that carries the argument: a response batch that `getAndProcessResponses` worked off without
an error contains only responses that `verifyResponse` compared with the session id of the deal THIS
member holds from the dealer the message names (`runResps_verified`); nothing is recorded, skipped or
de-duplicated before that comparison.  Hence, when the genuine response of another finisher is in the
batch, both hold deals with the same session id, i.e. the same member list and commitments
(`commits_agree_of_processed`), and a second response for an occupied (dealer, responder) slot is an
error that stops the stage (`second_response_errors`).
-/
import DosModel.Proofs.DkgMember
import DosModel.Model.DkgAdv

set_option linter.unusedSectionVars false

namespace Dos.Dkg
open Dos Dos.Vss

variable {F G : Type} [Field F] [AddCommGroup G] [Module F G] [DecidableEq F] [DecidableEq G]

/-- a response message that `ProcessResponse` accepted went through `verifyResponse` of the slot it names -/
theorem processResponse_ok_inv (g : G) (d d1 : Gen F G) (m : DkgResp F G) (x : Option (DkgJust F G))
    (h : processResponse g d m = (d1, .ok x)) :
    ∃ r v a a', m.resp = some r ∧ getVerifier d m.index = some v ∧ v.agg = some a ∧
      verifyResponse g a r = .ok a' := by
  unfold processResponse at h
  split at h
  · simp at h
  · rename_i r hr
    split at h
    · simp at h
    · rename_i v hv
      split at h
      · simp at h
      · rename_i a hagg
        split at h
        · simp at h
        · rename_i a' hvr
          exact ⟨r, v, a, a', hr, hv, hagg, hvr⟩

/-- **a second response for an occupied (dealer, responder) slot is an error**, whatever it carries
(`verifyResponse` hands everything that passed the session-id and signature checks to `addResponse`) -/
theorem verifyResponse_occupied (g : G) (a : Agg F G) (r : Response F G)
    (h : (getResponse a r.index).isSome = true) : ∃ e, verifyResponse g a r = .error e := by
  rcases hv : verifyResponse g a r with e | a'
  · exact ⟨e, rfl⟩
  · obtain ⟨_, _, hadd⟩ := verifyResponse_ok hv
    obtain ⟨_, hnone, _⟩ := addResponse_ok hadd
    rw [hnone] at h; cases h

theorem second_response_errors (g : G) (d : Gen F G) (m : DkgResp F G) (r : Response F G) (v : Verifier F G)
    (a : Agg F G) (hr : m.resp = some r) (hv : getVerifier d m.index = some v) (hagg : v.agg = some a)
    (hocc : (getResponse a r.index).isSome = true) :
    ∃ e, processResponse g d m = (d, .error e) := by
  obtain ⟨e, he⟩ := verifyResponse_occupied g a r hocc
  exact ⟨.vss e, by simp [processResponse, hr, hv, hagg, he]⟩

/-- **the carrying lemma**: every response of a batch that `getAndProcessResponses` worked off without
an error was compared by `verifyResponse` with the session id of the slot it names – the slot as it
was when the stage started (a slot's session id never changes) -/
theorem runResps_verified (g : G) : ∀ (ms : List (DkgResp F G)) (d d' : Gen F G),
    GoodGen g d → AllApproved d → runResps g d ms = (d', true) →
    ∀ m ∈ ms, ∃ r v a, m.resp = some r ∧ getVerifier d m.index = some v ∧ v.agg = some a ∧ r.sid = a.sid := by
  intro ms
  induction ms with
  | nil => intro d d' _ _ _ m hm; cases hm
  | cons m0 ms ih =>
    intro d d' hg ha h m hm
    unfold runResps at h
    have hgood := processResponse_good g d m0 hg
    have hall := processResponse_allApproved g d m0 hg ha
    have hrel := processResponse_rel g d m0 hg
    rcases hpr : processResponse g d m0 with ⟨d1, res⟩
    rw [hpr] at h hgood hall hrel
    simp only at h hgood hall hrel
    rcases res with err | x
    · simp at h
    · simp only at h
      rcases List.mem_cons.1 hm with hm | hm
      · subst hm
        obtain ⟨r, v, a, a', h1, h2, h3, h4⟩ := processResponse_ok_inv g d d1 m x hpr
        exact ⟨r, v, a, h1, h2, h3, (verifyResponse_ok h4).1⟩
      · obtain ⟨r, v1, a1, h1, h2, h3, h4⟩ := ih d1 d' hgood hall h m hm
        rcases hrel m.index with hs | ⟨v0, a0, a2, hb, hva, haf, _, _, hsid, _, _⟩
        · exact ⟨r, v1, a1, h1, by rw [← hs]; exact h2, h3, h4⟩
        · rw [haf] at h2; injection h2 with h2; subst h2
          injection h3 with h3; subst h3
          exact ⟨r, v0, a0, h1, hb, hva, by rw [h4, hsid]⟩

theorem ownRespAt_some {d : Gen F G} {j : Nat} {r : Response F G} (h : ownRespAt d j = some r) :
    ∃ v a, getVerifier d j = some v ∧ v.agg = some a ∧ getResponse a d.index = some r := by
  unfold ownRespAt at h
  rcases hv : getVerifier d j with _ | v
  · simp [hv] at h
  · rcases hagg : v.agg with _ | a
    · simp [hv, hagg] at h
    · exact ⟨v, a, rfl, hagg, by simpa [hv, hagg] using h⟩

/-- **the genuine response of another finisher in a worked-off batch pins the member list and the
commitments**: `d0` is this member's generator when its response stage started, `d` when it ended
without error on `batch`; `d'` is any generator satisfying the invariant (another member's) whose own
response `r'` about dealer `j` is in the batch under that dealer's index.  No assumption on
signatures. -/
theorem commits_agree_of_processed (g : G) (d0 d d' : Gen F G) (batch : List (DkgResp F G))
    (hg0 : GoodGen g d0) (ha0 : AllApproved d0) (hrun : runResps g d0 batch = (d, true))
    (hg' : GoodGen g d') (ha' : AllApproved d')
    (j : Nat) (r' : Response F G) (hown : ownRespAt d' j = some r')
    (hin : (⟨j, some r'⟩ : DkgResp F G) ∈ batch) :
    d'.participants = d.participants ∧ commitsAt d' j = commitsAt d j := by
  obtain ⟨r, v, a, h1, hv, hagg, hsid⟩ := runResps_verified g batch d0 d hg0 ha0 hrun _ hin
  simp only [Option.some.injEq] at h1; subst h1
  obtain ⟨dl, _, hda, hasid, _, _⟩ := approved_slot g d0 hg0 ha0 j v a hv hagg
  obtain ⟨v', a', hv', hagg', hr'⟩ := ownRespAt_some hown
  obtain ⟨dl', _, hda', _, _, r2, hr2, hsid2⟩ := approved_slot g d' hg' ha' j v' a' hv' hagg'
  rw [hr'] at hr2; injection hr2 with hr2; subst hr2
  obtain ⟨_, _, _, _, hp, hkeep⟩ := runResps_inv g batch d0 d true hg0 ha0 hrun
  obtain ⟨a2, hv2, _, hdeal2, _⟩ := hkeep j v a hv hagg
  have heq : Sid.h v'.dealer d'.participants dl'.commits dl'.t = Sid.h v.dealer d0.participants dl.commits dl.t := by
    rw [← hsid2, hsid, hasid]
  injection heq with _ e2 e3 _
  have hdad : dealAt d j = some dl := by
    have : a.deal = some dl := by
      simp only [dealAt, hv, hagg, Option.bind_some] at hda; exact hda
    simp [dealAt, hv2, hdeal2, this]
  refine ⟨by rw [e2, hp], ?_⟩
  simp only [commitsAt, hda', hdad, e3]

/-- a finished generator holds an own response in every dealer slot -/
theorem finished_has_own (g : G) (d : Gen F G) (ks : KeyShare F G) (hg : GoodGen g d)
    (h : distKeyShare d = .ok ks) (j : Nat) (hj : j < d.participants.length) :
    ∃ r, ownRespAt d j = some r := by
  obtain ⟨_, hslots, _⟩ := distKeyShare_spec d ks hg.len h
  obtain ⟨v, a, _, _, _, hv, hagg, _, _, _⟩ := hslots j hj
  obtain ⟨r, hr, _⟩ := ((hg.good j v hv).hagg a hagg).ownResp
  exact ⟨r, by simp [ownRespAt, hv, hagg, hr]⟩

/-- **agreement against the adversary that owns other sessions' signatures**: two members whose
response stages ended without error and who both finish, each one's batch containing the responses
the other holds as its own (reliable delivery between honest members), output the same member list
and public polynomial.  Nothing is assumed about signatures. -/
theorem finishers_agree_delivered (g : G) (d0 d d0' d' : Gen F G) (batch batch' : List (DkgResp F G))
    (ks ks' : KeyShare F G)
    (hg0 : GoodGen g d0) (ha0 : AllApproved d0) (hrun : runResps g d0 batch = (d, true))
    (hg0' : GoodGen g d0') (ha0' : AllApproved d0') (hrun' : runResps g d0' batch' = (d', true))
    (hks : distKeyShare d = .ok ks) (hks' : distKeyShare d' = .ok ks')
    (hne : d'.index ≠ d.index)
    (hlt' : d'.index < d.participants.length) (hlt : d.index < d'.participants.length)
    (hdel : ∀ j r', j ≠ d'.index → ownRespAt d' j = some r' → (⟨j, some r'⟩ : DkgResp F G) ∈ batch)
    (hdel' : ∀ j r, j ≠ d.index → ownRespAt d j = some r → (⟨j, some r⟩ : DkgResp F G) ∈ batch') :
    d'.participants = d.participants ∧ commitsAt d' d'.index = commitsAt d d'.index ∧ ks'.commits = ks.commits := by
  obtain ⟨hg, ha, _, _, _, _⟩ := runResps_inv g batch d0 d true hg0 ha0 hrun
  obtain ⟨hg', ha', _, _, _, _⟩ := runResps_inv g batch' d0' d' true hg0' ha0' hrun'
  -- the member list: the other's response about MY OWN dealing is in my batch
  obtain ⟨r1, hr1⟩ := finished_has_own g d' ks' hg' hks' d.index hlt
  have hp := (commits_agree_of_processed g d0 d d' batch hg0 ha0 hrun hg' ha' d.index r1 hr1
    (hdel _ _ (Ne.symm hne) hr1)).1
  obtain ⟨_, _, hcom, _⟩ := distKeyShare_spec d ks hg.len hks
  obtain ⟨_, _, hcom', _⟩ := distKeyShare_spec d' ks' hg'.len hks'
  -- the other's own dealing: MY response about it is in ITS batch
  obtain ⟨r2, hr2⟩ := finished_has_own g d ks hg hks d'.index hlt'
  have hown : commitsAt d d'.index = commitsAt d' d'.index :=
    (commits_agree_of_processed g d0' d' d batch' hg0' ha0' hrun' hg ha d'.index r2 hr2 (hdel' _ _ hne hr2)).2
  refine ⟨hp, hown.symm, ?_⟩
  rw [hcom, hcom', hp]
  congr 1
  apply List.map_congr_left
  intro j hj
  have hjlt := List.mem_range.1 hj
  by_cases hjd : j = d'.index
  · rw [hjd]; exact hown.symm
  · obtain ⟨r3, hr3⟩ := finished_has_own g d' ks' hg' hks' j (by rw [hp]; exact hjlt)
    exact (commits_agree_of_processed g d0 d d' batch hg0 ha0 hrun hg' ha' j r3 hr3 (hdel _ _ hjd hr3)).2

/-! ### the pipeline with its session layer: per-run keys -/

/-- **unforgeability with the other-session oracle**: a stored response that verifies under `pubk`
carries the session id of a response `dk` holds as its own in THIS run, or its signature is that of
an oracle answer – a response signed in another run by the holder of a key in `otherKeys`. -/
def AuthRespO (g : G) (pubk : G) (d dk : Gen F G) (otherKeys : F → Prop) : Prop :=
  ∀ j v a (r : Response F G) (st : Bool), getVerifier d j = some v → v.agg = some a →
    getResponse a dk.index = some r → verifyRespSig g pubk { r with status := st } = true →
    (∃ j2 v2 a2 r2, getVerifier dk j2 = some v2 ∧ v2.agg = some a2 ∧ getResponse a2 dk.index = some r2 ∧ r2.sid = r.sid) ∨
    (∃ long participants f dd m ro, otherKeys long ∧ oracleAnswer g long participants f dd = some m ∧
      m.resp = some ro ∧ r.sig = ro.sig)

/-- what `ProcessDeal` returns carries a signature under the generator's own long-term key -/
theorem processDeal_sig (g : G) (d : Gen F G) (dd : DkgDeal F G) (m : DkgResp F G) (r : Response F G)
    (hd : GoodGen0 g d) (h : (processDeal g d dd).2 = .ok m) (hr : m.resp = some r) :
    ∃ sid i st rnd, r.sig = .sign d.long sid i st rnd := by
  rcases processDeal_cases g d dd hd with ⟨_, e, he⟩ | ⟨hnone, hlt, w, hw, hc⟩
  · rw [he] at h; cases h
  · rcases hc with ⟨_, e, he⟩ | ⟨r', a', hres, hwa, hgr, _⟩
    · rw [he] at h; cases h
    · rw [hres] at h; injection h with h; subst h
      simp only [Option.some.injEq] at hr; subst hr
      have hgood := processDeal_good0 g d dd hd
      rw [hw] at hgood
      have hjv : dd.index < d.verifiers.length := by rw [hd.len]; exact hlt
      have hget : getVerifier (setVerifier d dd.index w) dd.index = some w := by
        rw [getVerifier_set d dd.index dd.index w hjv]; simp
      have hfr := setVerifier_frame d dd.index w
      have hgv := hgood.good dd.index w hget
      obtain ⟨ro, hro, _, ⟨rnd, hsig⟩, _⟩ := (hgv.hagg a' hwa).ownResp
      rw [hfr.2.1] at hro
      rw [hgr] at hro; injection hro with hro; subst hro
      rw [hfr.2.2.1] at hsig
      exact ⟨_, _, _, rnd, hsig⟩

/-- an oracle answer is signed with the key the oracle was asked under -/
theorem oracleAnswer_sig (g : G) (long : F) (participants : List G) (f : List F) (dd : DkgDeal F G)
    (m : DkgResp F G) (r : Response F G) (h : oracleAnswer g long participants f dd = some m) (hr : m.resp = some r) :
    ∃ sid i st rnd, r.sig = .sign long sid i st rnd := by
  unfold oracleAnswer at h
  rcases hng : newGen g long participants f with e | d
  · simp [hng] at h
  · simp only [hng] at h
    obtain ⟨h0, _, _, hl, _⟩ := newGen_good0 hng
    rcases hpd : (processDeal g d dd).2 with e | m'
    · simp [hpd] at h
    · simp only [hpd, Option.some.injEq] at h; subst h
      obtain ⟨sid, i, st, rnd, hs⟩ := processDeal_sig g d dd m' r h0 hpd hr
      exact ⟨sid, i, st, rnd, by rw [hs, hl]⟩

/-- **with per-run keys the oracle is useless**: if no other run used a key whose public key is `pubk`
(`genPub` draws a fresh key for every `Grouping` call), `AuthRespO` is `AuthResp` -/
theorem authResp_of_fresh_keys (g : G) (pubk : G) (d dk : Gen F G) (otherKeys : F → Prop)
    (hfresh : ∀ long, otherKeys long → long • g ≠ pubk) (h : AuthRespO g pubk d dk otherKeys) :
    AuthResp g pubk d dk := by
  intro j v a r st hv hagg hr hsig
  rcases h j v a r st hv hagg hr hsig with hthis | ⟨long, ps, f, dd, m, ro, hk, ho, hro, hs⟩
  · exact hthis
  · exfalso
    obtain ⟨sid, i, st', rnd, hsg⟩ := oracleAnswer_sig g long ps f dd m ro ho hro
    rw [hsg] at hs
    have := (verifyRespSig_iff g pubk { r with status := st }).1 hsig
    obtain ⟨sk, rnd', h1, h2⟩ := this
    simp only at h1
    rw [hs] at h1
    injection h1 with e1
    exact hfresh long hk (by rw [e1]; exact h2)

end Dos.Dkg

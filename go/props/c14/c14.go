// Package c14: pipelines terminate and release their goroutines; never send on / close a
// closed channel.  The REAL stage functions are driven through scenario lines
//
//	sc p=<pipeline> keep=<functions under test> feed=<chan>:<prog>;.. cons=<chan>:<mode>;..
//	   ctl=<harness script> pick=<data branch> pre=<0|1> obs=<chan>;.. reps=<n>
//
// (same grammar as lean/Drivers/C14.lean).  The harness plays every other goroutine of the
// pipeline: feeders of the inputs (`s` send, `c` close; a pending send is abandoned at release),
// consumers of the outputs, and a controller that acts only after the system went quiet:
// `f<i>` start feeder i, `go` start the code under test, `x` cancel the pipeline context,
// `r` release.  After the last step it observes which goroutines of the functions under test
// are still alive (goroutine dump filtered to their frames), whether the observed channels
// are closed, and whether the process died of "send on closed channel" / "close of closed
// channel".  Go's select is random and scheduling is not controlled: every scenario is repeated
// (`reps`) in child processes and the SET of observations is printed; the Lean driver prints
// the set of observations its exhaustive exploration of the regenerated IR allows.
package c14

import (
	"bufio"
	"bytes"
	"context"
	"fmt"
	"os"
	"os/exec"
	"path/filepath"
	"reflect"
	"regexp"
	"runtime"
	"sort"
	"strconv"
	"strings"
	"sync"
	"sync/atomic"
	"time"
	"unsafe"

	"github.com/DOSNetwork/core/log"

	"verifharness/internal/h"
)

func init() {
	h.Register(&h.Prop{
		ID:   "C14",
		Rule: "scenario lines (stage functions under test × feeder programs × consumer modes × harness scripts with cancellation injected at each quiet point × data-branch choices); every line is repeated reps times in child processes and the set of observations is compared with the set the model allows; spin lines: the real fan-ins with an upstream and a caller that never stop, cancelled at a random instant of the streaming (the weakly fair counter-run's shape): the merged channel must be closed within 3 s, the number of items still forwarded and the closing latency are in the distribution; non-trivial = the script cancels the context or a feeder stops early (a stage failure); distinct = distinct line",
		Gen:  gen,
		Exec: execLine,
	})
}

// ---- line ------------------------------------------------------------------------------

type scen struct {
	p, keep          string
	feed             [][2]string // chan ref, program
	cons             [][2]string // chan ref, mode
	ctl              []string
	pick             map[string]int
	pre              bool
	obs              []string
	reps             int
	raw              string
	cancels, release bool
}

func listOf(s, sep string) []string {
	if s == "" || s == "-" {
		return nil
	}
	return strings.Split(s, sep)
}

func parse(line string) (*scen, error) {
	ws := strings.Fields(line)
	if len(ws) == 0 || ws[0] != "sc" {
		return nil, fmt.Errorf("bad line")
	}
	m := map[string]string{}
	for _, w := range ws[1:] {
		if i := strings.Index(w, "="); i > 0 {
			m[w[:i]] = w[i+1:]
		}
	}
	s := &scen{p: m["p"], keep: m["keep"], pick: map[string]int{}, pre: m["pre"] == "1", reps: 20, raw: line}
	for _, f := range listOf(m["feed"], ";") {
		kv := strings.SplitN(f, ":", 2)
		prog := ""
		if len(kv) == 2 && kv[1] != "-" {
			prog = kv[1]
		}
		s.feed = append(s.feed, [2]string{kv[0], prog})
	}
	for _, f := range listOf(m["cons"], ";") {
		kv := strings.SplitN(f, ":", 2)
		if len(kv) != 2 {
			return nil, fmt.Errorf("bad cons")
		}
		s.cons = append(s.cons, [2]string{kv[0], kv[1]})
	}
	s.ctl = listOf(m["ctl"], ",")
	for _, op := range s.ctl {
		if op == "x" {
			s.cancels = true
		}
		if op == "r" {
			s.release = true
		}
	}
	for _, pk := range listOf(m["pick"], ";") {
		kv := strings.SplitN(pk, ":", 2)
		if len(kv) == 2 {
			s.pick[strings.ReplaceAll(kv[0], "_", " ")] = h.Atoi(kv[1])
		}
	}
	s.obs = listOf(m["obs"], ";")
	if r := m["reps"]; r != "" {
		s.reps = h.Atoi(r)
	}
	return s, nil
}

func chanKey(ref string) string {
	if !strings.Contains(ref, "#") {
		return ref + "#0"
	}
	return ref
}

// ---- a wired instance of the code under test -----------------------------------------------

type instance struct {
	chans   map[string]reflect.Value             // model channel name#k → Go channel
	value   func(ch string, i int) reflect.Value // value a feeder sends on that channel
	start   func()                               // `go`: start the code under test (nil: started by wire)
	cancel  context.CancelFunc                   // `x`
	cleanup func()                               // stop daemons (after the observation)
	watch   []string                             // function bases whose goroutines are reported
}

type wireFn func(s *scen, ctx context.Context, cancel context.CancelFunc) (*instance, error)

var wires = map[string]wireFn{}

// ---- goroutine dump ----------------------------------------------------------------------------

var hdrRe = regexp.MustCompile(`^goroutine (\d+) \[([^\],]+)`)
var frameRe = regexp.MustCompile(`^(github\.com/DOSNetwork/core/[^\s(]+|verifharness/props/c14[^\s(]*)(\(|\.)`)

type gor struct {
	id     int
	status string
	funcs  []string // repo / harness functions on the stack, innermost first
}

func dump() []gor {
	buf := make([]byte, 1<<20)
	for {
		n := runtime.Stack(buf, true)
		if n < len(buf) {
			buf = buf[:n]
			break
		}
		buf = make([]byte, 2*len(buf))
	}
	var out []gor
	for _, blk := range strings.Split(string(buf), "\n\n") {
		lines := strings.Split(blk, "\n")
		m := hdrRe.FindStringSubmatch(lines[0])
		if m == nil {
			continue
		}
		g := gor{status: m[2]}
		g.id, _ = strconv.Atoi(m[1])
		for _, l := range lines[1:] {
			if strings.HasPrefix(l, "\t") || strings.HasPrefix(l, "created by") {
				continue
			}
			if i := strings.LastIndex(l, "("); i > 0 {
				fn := l[:i]
				if strings.HasPrefix(fn, "github.com/DOSNetwork/core/") || strings.HasPrefix(fn, "verifharness/props/c14.") {
					g.funcs = append(g.funcs, fn)
				}
			}
		}
		if len(g.funcs) > 0 {
			out = append(out, g)
		}
	}
	return out
}

var pkgAlias = map[string]string{"share/dkg/pedersen": "dkg", "share/vss/pedersen": "vss"}

// base: "github.com/DOSNetwork/core/dosnode.(*DosNode).queryLoop.func1" → "dosnode.queryLoop"
func base(fn string) string {
	fn = strings.TrimPrefix(fn, "github.com/DOSNetwork/core/")
	i := strings.LastIndex(fn, "/")
	rest := fn
	dir := ""
	if i >= 0 {
		dir, rest = fn[:i+1], fn[i+1:]
	}
	j := strings.Index(rest, ".")
	if j < 0 {
		return fn
	}
	pkgPath := dir + rest[:j]
	pkg := rest[:j]
	if a, ok := pkgAlias[pkgPath]; ok {
		pkg = a
	}
	parts := strings.Split(rest[j+1:], ".")
	k := 0
	if strings.HasPrefix(parts[0], "(") && len(parts) > 1 {
		k = 1
	}
	return pkg + "." + parts[k]
}

// entryBase: the function the goroutine was started with (outermost repo frame that is not a hook)
func entryBase(g gor) string {
	for i := len(g.funcs) - 1; i >= 0; i-- {
		f := g.funcs[i]
		if strings.HasPrefix(f, "github.com/DOSNetwork/core/") && !strings.Contains(f, ".Verif") {
			return base(f)
		}
	}
	return ""
}

func isHarness(g gor) bool {
	for _, f := range g.funcs {
		if strings.HasPrefix(f, "verifharness/") {
			return true
		}
	}
	return false
}

// settle waits until every goroutine that runs repo or harness code is blocked, twice in a row.
func settle(self int) bool {
	deadline := time.Now().Add(5 * time.Second)
	prev := ""
	stable := 0
	for time.Now().Before(deadline) {
		time.Sleep(200 * time.Microsecond)
		var sig []string
		busy := false
		for _, g := range dump() {
			if g.id == self {
				continue
			}
			switch g.status {
			case "running", "runnable", "syscall":
				busy = true
			}
			sig = append(sig, fmt.Sprintf("%d:%s:%s", g.id, g.status, g.funcs[0]))
		}
		sort.Strings(sig)
		cur := strings.Join(sig, ";")
		if !busy && cur == prev {
			stable++
			if stable >= 2 {
				return true
			}
		} else {
			stable = 0
		}
		prev = cur
	}
	return false
}

// chanClosed reads runtime.hchan.closed (qcount uint; dataqsiz uint; buf unsafe.Pointer; elemsize uint16;
// closed uint32: offset 28 on 64-bit, Go 1.2x) without touching the channel.  closedFlagOK is the result of a
// self-test at start-up on channels of this process; when it fails the harness falls back to a receive.
func chanClosed(ch reflect.Value) bool {
	return *(*uint32)(unsafe.Pointer(ch.Pointer() + 28)) != 0
}

var closedFlagOK = func() bool {
	// C14_NO_CLOSED_FLAG=1: use the fall-back (receive) path, so that it stays exercised
	if unsafe.Sizeof(uintptr(0)) != 8 || os.Getenv("C14_NO_CLOSED_FLAG") == "1" {
		return false
	}
	a, b, c := make(chan int), make(chan error, 3), make(chan []byte, 1)
	b <- nil
	va, vb, vc := reflect.ValueOf(a), reflect.ValueOf(b), reflect.ValueOf(c)
	if chanClosed(va) || chanClosed(vb) || chanClosed(vc) {
		return false
	}
	close(a)
	close(b)
	if !chanClosed(va) || !chanClosed(vb) || chanClosed(vc) {
		return false
	}
	close(c)
	return chanClosed(vc)
}()

func selfID() int {
	buf := make([]byte, 64)
	n := runtime.Stack(buf, false)
	m := hdrRe.FindStringSubmatch(string(buf[:n]))
	id, _ := strconv.Atoi(m[1])
	return id
}

func initChild() {
	log.Init([]byte{1, 2, 3, 4})
	// the stages print progress with fmt.Println; the harness protocol owns the real stdout
	if null, err := os.OpenFile(os.DevNull, os.O_WRONLY, 0); err == nil {
		os.Stdout = null
	}
}

// ---- one repetition (in the child process) ------------------------------------------------------

var initOnce sync.Once

func runOnce(s *scen) (outcome string, err error) {
	initOnce.Do(func() { initChild() })
	self := selfID()
	baseline := map[int]bool{}
	for _, g := range dump() {
		baseline[g.id] = true
	}
	w, ok := wires[s.p+"|"+s.keep]
	if !ok {
		return "", fmt.Errorf("no wiring for %s keep=%s", s.p, s.keep)
	}
	ctx, cancel := context.WithCancel(context.Background())
	if s.pre {
		cancel()
	}
	inst, err := w(s, ctx, cancel)
	if err != nil {
		return "", err
	}
	release := make(chan struct{})
	relCase := reflect.SelectCase{Dir: reflect.SelectRecv, Chan: reflect.ValueOf(release)}
	gates := make([]chan struct{}, len(s.feed))
	for i, f := range s.feed {
		ch, ok := inst.chans[chanKey(f[0])]
		if !ok {
			return "", fmt.Errorf("unknown channel %s", f[0])
		}
		gates[i] = make(chan struct{})
		name := chanKey(f[0])
		go feeder(ch, f[1], gates[i], release, relCase, func(k int) reflect.Value { return inst.value(name, k) })
	}
	consStarted := make([]bool, len(s.cons))
	startConsumers := func() {
		for i, c := range s.cons {
			if ch, ok := inst.chans[chanKey(c[0])]; ok && !consStarted[i] {
				consStarted[i] = true
				go consumer(ch, c[1], ctx)
			}
		}
	}
	startConsumers()
	started := inst.start == nil
	for _, op := range s.ctl {
		if !settle(self) {
			return "unsettled", nil
		}
		switch {
		case op == "x":
			cancel()
		case op == "r":
			close(release)
		case op == "go":
			if !started {
				inst.start()
				started = true
				startConsumers()
			}
		case strings.HasPrefix(op, "f"):
			i := h.Atoi(op[1:])
			if i >= 0 && i < len(gates) {
				close(gates[i])
			}
		}
	}
	if !started {
		inst.start()
		startConsumers()
	}
	for i, c := range s.cons {
		if !consStarted[i] {
			return "", fmt.Errorf("unknown channel %s", c[0])
		}
	}
	if !settle(self) {
		return "unsettled", nil
	}
	// observation
	watch := map[string]bool{}
	for _, b := range inst.watch {
		watch[b] = true
	}
	count := map[string]int{}
	for _, g := range dump() {
		if baseline[g.id] || g.id == self || isHarness(g) {
			continue
		}
		b := entryBase(g)
		if watch[b] {
			count[b]++
		}
	}
	var leaks []string
	for b, n := range count {
		leaks = append(leaks, fmt.Sprintf("%s*%d", b, n))
	}
	sort.Strings(leaks)
	var chans []string
	for _, o := range s.obs {
		ch, ok := inst.chans[chanKey(o)]
		if !ok {
			return "", fmt.Errorf("unknown channel %s", o)
		}
		st := "open"
		if closedFlagOK {
			// read the channel's closed flag: a receive would take the value of a sender of the code under
			// test that is blocked on this channel and so let it run on (close its other channels, return)
			// between this observation and the next one
			if chanClosed(ch) {
				st = "closed"
			}
		} else {
			// closed? the buffered items of a closed channel come first; a value beyond them means a
			// blocked sender, so the channel is open
			for n := ch.Len(); n > 0; n-- {
				reflect.Select([]reflect.SelectCase{{Dir: reflect.SelectRecv, Chan: ch}, {Dir: reflect.SelectDefault}})
			}
			if chosen, _, ok := reflect.Select([]reflect.SelectCase{{Dir: reflect.SelectRecv, Chan: ch}, {Dir: reflect.SelectDefault}}); chosen == 0 && !ok {
				st = "closed"
			}
		}
		name := o
		if i := strings.Index(name, "#"); i >= 0 {
			name = name[:i]
		}
		chans = append(chans, name+":"+st)
	}
	// let everything of this repetition go
	cancel()
	if !s.release {
		close(release)
	}
	if inst.cleanup != nil {
		inst.cleanup()
	}
	l, c := "-", "-"
	if len(leaks) > 0 {
		l = strings.Join(leaks, ",")
	}
	if len(chans) > 0 {
		c = strings.Join(chans, ",")
	}
	return "leak=" + l + " chans=" + c, nil
}

func feeder(ch reflect.Value, prog string, gate, release chan struct{}, relCase reflect.SelectCase, val func(int) reflect.Value) {
	select {
	case <-gate:
	case <-release:
		return // never started by the script: it neither sends nor closes (as the model's feeder, which waits at its gate)
	}
	k := 0
	closes := strings.Contains(prog, "c")
	abandoned := false
	for _, op := range prog {
		if op != 's' || abandoned {
			continue
		}
		chosen, _, _ := reflect.Select([]reflect.SelectCase{{Dir: reflect.SelectSend, Chan: ch, Send: val(k)}, relCase})
		if chosen == 1 {
			abandoned = true
		}
		k++
	}
	if closes {
		ch.Close()
		return
	}
	<-release
}

func consumer(ch reflect.Value, mode string, ctx context.Context) {
	switch {
	case mode == "all":
		for {
			if _, ok := ch.Recv(); !ok {
				return
			}
		}
	case mode == "ctx":
		done := reflect.SelectCase{Dir: reflect.SelectRecv, Chan: reflect.ValueOf(ctx.Done())}
		for {
			chosen, _, ok := reflect.Select([]reflect.SelectCase{{Dir: reflect.SelectRecv, Chan: ch}, done})
			if chosen == 1 || !ok {
				return
			}
		}
	case strings.HasPrefix(mode, "n"):
		n := h.Atoi(mode[1:])
		for i := 0; i < n; i++ {
			if _, ok := ch.Recv(); !ok {
				return
			}
		}
	}
}

// ---- parent: repetitions in child processes ------------------------------------------------------

var panicRe = regexp.MustCompile(`panic: (send on closed channel|close of closed channel|sync: negative WaitGroup counter)`)

func crashOutcome(stderr string) string {
	m := panicRe.FindStringSubmatch(stderr)
	if m == nil {
		return "died:" + h.OneLine(lastLines(stderr, 3))
	}
	kind := map[string]string{"send on closed channel": "send-on-closed", "close of closed channel": "close-of-closed", "sync: negative WaitGroup counter": "negative-waitgroup"}[m[1]]
	// the panicking goroutine is the first one printed after the panic line
	rest := stderr[strings.Index(stderr, m[0]):]
	fn := "?"
	for _, l := range strings.Split(rest, "\n") {
		if strings.HasPrefix(l, "github.com/DOSNetwork/core/") {
			if i := strings.LastIndex(l, "("); i > 0 {
				fn = base(l[:i])
				break
			}
		}
	}
	return "crash=" + kind + "@" + fn
}

func lastLines(s string, n int) string {
	ls := strings.Split(strings.TrimSpace(s), "\n")
	if len(ls) > n {
		ls = ls[len(ls)-n:]
	}
	return strings.Join(ls, " | ")
}

func exec1(line string) h.Result {
	if strings.HasPrefix(line, "full ") {
		return execFull(line)
	}
	s, err := parse(line)
	if err != nil {
		return h.Result{Impl: "error " + err.Error(), Class: "bad"}
	}
	seen := repeat(line, s.reps)
	var outs []string
	for o := range seen {
		outs = append(outs, o)
	}
	sort.Strings(outs)
	res := h.Result{Impl: strings.Join(outs, " | "), Class: s.p + " keep=" + s.keep + flakyNote(), Nontrivial: s.cancels || s.pre}
	for _, f := range s.feed {
		if !strings.Contains(f[1], "c") {
			res.Nontrivial = true
		}
	}
	res.Oracle = oracle(s, outs)
	return res
}

// execFull: a full-pipeline line; the comparison line is `clean` / `dirty`, the details go to the oracle
func execFull(line string) h.Result {
	f := parseFull(line)
	seen := repeat(line, f.reps)
	impl := "clean"
	var bad []string
	for o := range seen {
		if o != "clean" {
			impl = "dirty"
			bad = append(bad, o)
		}
	}
	sort.Strings(bad)
	res := h.Result{Impl: impl, Class: "full " + f.p, Nontrivial: f.cancel != "never" && f.cancel != "" || f.fault != "none" && f.fault != "" || f.bt == 0}
	if len(bad) > 0 {
		o := bad[0]
		switch {
		case strings.HasPrefix(o, "crash="):
			res.Oracle = strings.TrimPrefix(o, "crash=") + ": " + o + " in " + line
		case strings.HasPrefix(o, "dirty"):
			sig := "dirty"
			if i := strings.Index(o, "leak="); i >= 0 {
				l := strings.Fields(o[i+5:])
				if len(l) > 0 && l[0] != "" && !strings.HasPrefix(l[0], "open=") {
					sig = "leak@" + strings.SplitN(strings.Split(l[0], ",")[0], "*", 2)[0]
				}
			}
			res.Oracle = sig + ": " + o + " in " + line
		default:
			res.Oracle = "harness-" + strings.SplitN(o, ":", 2)[0] + ": " + o + " in " + line
		}
	}
	return res
}

// repeat runs a line in child processes and returns the distinct outcomes with their counts.
// Go's scheduler and select are random: the line is run in batches of reps repetitions until a
// batch brings no new outcome (at most maxBatches), so that a rare interleaving does not show up
// as a disagreement in one run and not in the next; the number of batches needed is reported in the
// histogram class ("+k batches").
const maxBatches = 4

var (
	stuckCases     int32 // child processes that had to be killed
	extraBatch     int32
	flakyUnsettled int32
)

func repeat(line string, reps int) map[string]int {
	seen := map[string]int{}
	if atomic.LoadInt32(&stuckCases) >= 3 {
		seen["not-run"]++ // three cases hung before: do not wait for the rest
		return seen
	}
	for b := 0; b < maxBatches; b++ {
		before := len(seen)
		batch(line, reps, seen)
		// "unsettled" is an observation problem of the harness (a loaded machine), not an outcome:
		// those repetitions are run again, up to three times, and counted as flaky
		for try := 0; try < 3 && seen["unsettled"] > 0; try++ {
			n := seen["unsettled"]
			delete(seen, "unsettled")
			atomic.AddInt32(&flakyUnsettled, int32(n))
			batch(line, n, seen)
		}
		if b > 0 && len(seen) == before {
			break
		}
		if b > 0 {
			atomic.AddInt32(&extraBatch, 1)
		}
		if seen["harness-timeout"] > 0 {
			break
		}
	}
	return seen
}

// flakyNote marks, in the histogram class of the case, that repetitions had to be re-run
func flakyNote() string {
	if n := atomic.SwapInt32(&flakyUnsettled, 0); n > 0 {
		return fmt.Sprintf(" (flaky: %d unsettled repetitions re-run)", n)
	}
	return ""
}

func batch(line string, reps int, seen map[string]int) {
	remaining := reps
	for remaining > 0 {
		ctx, cancel := context.WithTimeout(context.Background(), time.Duration(20+4*remaining)*time.Second)
		cmd := exec.CommandContext(ctx, os.Args[0], "exec", "C14")
		var in bytes.Buffer
		for i := 0; i < remaining; i++ {
			in.WriteString("child " + line + "\n")
		}
		cmd.Stdin = &in
		var out, errb bytes.Buffer
		cmd.Stdout, cmd.Stderr = &out, &errb
		runErr := cmd.Run()
		timedOut := ctx.Err() != nil
		cancel()
		got := 0
		sc := bufio.NewScanner(&out)
		sc.Buffer(make([]byte, 1<<16), 1<<24)
		for sc.Scan() {
			f := strings.SplitN(sc.Text(), "\t", 2)
			seen[f[0]]++
			got++
		}
		remaining -= got
		if timedOut {
			atomic.AddInt32(&stuckCases, 1)
			seen["harness-timeout"]++
			return
		}
		if runErr != nil {
			seen[crashOutcome(errb.String())]++
			remaining--
		} else if got == 0 {
			return
		}
	}
}

// oracle: the property itself on the observations. When the deadline fired (x / pre) and the
// harness released its side, nothing of the code under test may be left, every observed channel
// it owns must be closed, and the process must not have died of a channel panic.
func oracle(s *scen, outs []string) string {
	for _, o := range outs {
		switch {
		case strings.HasPrefix(o, "crash="):
			return strings.TrimPrefix(o, "crash=") + ": " + o + " in " + s.raw
		case strings.HasPrefix(o, "died:"), o == "unsettled", strings.HasPrefix(o, "error"), o == "harness-timeout", o == "not-run":
			return "harness-" + strings.SplitN(o, ":", 2)[0] + ": " + o + " in " + s.raw
		}
	}
	if !(s.cancels || s.pre) || !s.release {
		return ""
	}
	for _, f := range s.feed {
		if !strings.Contains(f[1], "c") && !strings.HasPrefix(f[0], "p2p.SubscribeMsg") {
			return "" // an upstream stage that never closes its output: not the code under test's doing
		}
	}
	for _, o := range outs {
		f := strings.Fields(o)
		if len(f) != 2 {
			continue
		}
		if l := strings.TrimPrefix(f[0], "leak="); l != "-" {
			b := strings.SplitN(strings.Split(l, ",")[0], "*", 2)[0]
			return "leak@" + b + ": goroutines left after cancellation and release: " + o + " in " + s.raw
		}
		for _, c := range strings.Split(strings.TrimPrefix(f[1], "chans="), ",") {
			if strings.HasSuffix(c, ":open") && !handedOff[strings.TrimSuffix(c, ":open")] {
				return "open@" + strings.TrimSuffix(c, ":open") + ": channel never closed after cancellation and release: " + o + " in " + s.raw
			}
		}
	}
	return ""
}

// channels whose closing is the collector loop's job once they are registered (30 min / 1 min watchdog):
// not observable within a test run, proved in the model instead
var handedOff = map[string]bool{"dosnode.dispatchSign.out": true, "dkg.askMembers.out": true}

// ---- prefetch: the case lines of a run are executed by a small pool of workers ----------------------
//
// Every line is self-contained and runs in child processes, so lines are independent of each other; the
// framework asks for them one by one (corpus first, then the generator's), the pool computes them ahead.
// The results are the same as in a sequential run; only the wall time changes (review: 478 s quick tier).

type pending struct {
	done chan struct{}
	res  h.Result
}

var (
	prefMu  sync.Mutex
	pref    = map[string]*pending{}
	prefQ   = make(chan string, 4096)
	prefOn  sync.Once
	workers = 4
)

func prefetch(lines []string) {
	prefOn.Do(func() {
		for i := 0; i < workers; i++ {
			go func() {
				for l := range prefQ {
					prefMu.Lock()
					p := pref[l]
					prefMu.Unlock()
					p.res = dispatch(l)
					close(p.done)
				}
			}()
		}
	})
	for _, l := range lines {
		prefMu.Lock()
		if _, ok := pref[l]; !ok {
			pref[l] = &pending{done: make(chan struct{})}
			prefMu.Unlock()
			prefQ <- l
			continue
		}
		prefMu.Unlock()
	}
}

// corpusLines: the lines the framework runs before the generator (VERIF_CORPUS/C14/*.txt)
func corpusLines() []string {
	dir := os.Getenv("VERIF_CORPUS")
	if dir == "" {
		return nil
	}
	files, _ := filepath.Glob(filepath.Join(dir, "C14", "*.txt"))
	sort.Strings(files)
	var out []string
	for _, f := range files {
		b, err := os.ReadFile(f)
		if err != nil {
			continue
		}
		for _, l := range strings.Split(string(b), "\n") {
			l = strings.TrimSpace(l)
			if l != "" && !strings.HasPrefix(l, "#") {
				out = append(out, l)
			}
		}
	}
	return out
}

var corpusOnce sync.Once

func execLine(line string) h.Result {
	if strings.HasPrefix(line, "child ") {
		return dispatch(line)
	}
	// the first line of a `gen` run is a corpus line: compute the whole corpus ahead
	if len(os.Args) > 1 && os.Args[1] == "gen" {
		corpusOnce.Do(func() { prefetch(corpusLines()) })
	}
	prefMu.Lock()
	p, ok := pref[line]
	prefMu.Unlock()
	if ok {
		<-p.done
		return p.res
	}
	return dispatch(line)
}

// A verdict that can be produced by machine load alone (a goroutine that has not been scheduled yet looks
// leaked, a 3 s grace period is over before a starved child got to run, a quiescence test gave up) is not
// reported from a run that shared the machine with the other workers: the line is run once more ALONE
// (the pool is held back), and the verdict of that run counts. A crash verdict (send on / close of a closed
// channel) is never load and is reported as it is.
var solo sync.RWMutex

func loadSensitive(oracle string) bool {
	sig := oracle
	if i := strings.Index(sig, ":"); i >= 0 {
		sig = sig[:i]
	}
	return strings.HasPrefix(sig, "leak@") || strings.HasPrefix(sig, "open@") || strings.HasPrefix(sig, "harness-") ||
		sig == "dirty" || strings.HasPrefix(sig, "stuck")
}

func dispatch(line string) h.Result {
	if strings.HasPrefix(line, "child ") {
		return dispatchRaw(line)
	}
	solo.RLock()
	r := dispatchRaw(line)
	solo.RUnlock()
	if r.Oracle == "" || !loadSensitive(r.Oracle) {
		return r
	}
	solo.Lock()
	time.Sleep(200 * time.Millisecond) // let the children of the other workers' last lines go away
	r2 := dispatchRaw(line)
	solo.Unlock()
	first := r.Oracle
	if i := strings.Index(first, ":"); i >= 0 {
		first = first[:i]
	}
	if r2.Oracle == "" {
		r2.Class += " (re-run alone: clean; the first run, beside other workers, said " + first + ")"
	} else {
		r2.Class += " (confirmed by a re-run alone)"
	}
	return r2
}

func dispatchRaw(line string) h.Result {
	if strings.HasPrefix(line, "child spin ") {
		o, d, err := runSpinOnce(parseSpin(strings.TrimPrefix(line, "child ")))
		if err != nil {
			return h.Result{Impl: "error " + h.OneLine(err.Error())}
		}
		return h.Result{Impl: o, Oracle: d} // second column = the measurements, read by execSpin only
	}
	if strings.HasPrefix(line, "spin ") {
		return execSpin(line)
	}
	if strings.HasPrefix(line, "collect ") {
		// the requirement itself: every collector loop closes the reply channels it is handed (its own
		// ticker + the request context).  The tickers are 30 min (queryLoop) and 1 min (pdkg.Loop), so
		// this is not observed on the real goroutines within a run (probe/: confirmed once outside the
		// check); the line makes the model name the collector, the channel and the node when the
		// regenerated IR does not satisfy CollectorsOk (collectors_eventually_close).
		return h.Result{Impl: "closes", Class: "collect (model only)"}
	}
	if strings.HasPrefix(line, "child full ") {
		o, err := runFullOnce(parseFull(strings.TrimPrefix(line, "child ")))
		if err != nil {
			return h.Result{Impl: "error " + h.OneLine(err.Error())}
		}
		return h.Result{Impl: o}
	}
	if strings.HasPrefix(line, "child ") {
		s, err := parse(strings.TrimPrefix(line, "child "))
		if err != nil {
			return h.Result{Impl: "error " + err.Error()}
		}
		o, err := runOnce(s)
		if err != nil {
			return h.Result{Impl: "error " + h.OneLine(err.Error())}
		}
		return h.Result{Impl: o}
	}
	return exec1(line)
}

/-
C14 — key-generation and query pipelines always terminate and release their goroutines;
they never send on or close a closed channel.

Property theorems only.  Model: `Model/PipeIR.lean` (pipeline IR: one control-flow graph per
goroutine), `Model/PipeSem.lean` (interleaving small-step semantics with the crash
configuration, any schedule, any cancellation instant), `Model/PipeWf.lean` (decidable
well-formedness W0–W7).  Helper lemmas: `Proofs/Pipe*.lean`.

`Gen.Pipes.*` is REGENERATED from /repo on every run by go/extract/pipeir (E4);
`Gen.PipeKnown.sites` is generated from the `known: property=C14 sig=W…` lines of
/verif/KNOWN_FINDINGS.txt.

Parts 1–3 are about EVERY pipeline IR (induction over reachable states, no bound on the number of
goroutines, channels, buffer sizes or steps).  Part 4 instantiates them on the regenerated
pipelines.  Part 5 proves the recorded finding and the pre-repair defects *in the model*.

Modelling assumptions (not proved): Go's channel / select / WaitGroup semantics are as in
`PipeSem.lean`; a data-dependent branch is an internal choice; `exit_always_reachable` shows that a
terminating schedule EXISTS from every reachable state after cancellation (EF).  That EVERY run
terminates (AF) is proved in `Props/C14Fair.lean` (`all_fair_runs_terminate` and the
`*_every_fair_run_terminates` corollaries) under an explicit fairness hypothesis on infinite runs
(`Model/PipeRun.lean: Fair`): weak fairness of goroutines, fairness of the `select` choice for the
`<-ctx.Done()` and timer alternatives (what Go's uniformly random `select` gives with probability 1),
and termination of data loops / external calls (`p.Request` 5 s, HTTP 60 s, chain calls) as fairness
of internal choices.
-/
import DosModel.Proofs.PipeBridge
import DosModel.Gen.PipeIR
import DosModel.Gen.PipeKnown

namespace Dos.Props.C14
open Dos Dos.Pipe Dos.Gen.Pipes

/-! ## 1. safety: never a send on, or a second close of, a closed channel -/

/-- **close_discipline_safe.**  A channel whose sends and closes follow one of the disciplines of
W1 (N: never closed; A: one owner, nothing after its close; B: fan-in closed after `wgWait` by a
closer whose senders owe their `wgDone`; C: hand-off of the right to operate on it) is never sent
on or closed after it was closed: in no reachable state, under any schedule and any cancellation
instant. -/
theorem close_discipline_safe (p : Pipeline) (c : Ch) (h : W1c p c = true) :
    ¬ CrashReachable p (.sendClosed c) ∧ ¬ CrashReachable p (.closeClosed c) := w1_safe h

example : W1c helper_dosnode_mergeErrors 2 = true ∧ W1c query_sys 7 = true := by decide +kernel

/-- a wait group on which every goroutine does its `wgDone` exactly once on every path (W5) never
goes negative, and its counter is the number of goroutines that still owe their `wgDone` -/
theorem waitgroup_counts (p : Pipeline) (w : Nat) (h : W5w p w = true) :
    ¬ CrashReachable p (.wgNegative w) ∧
    ∀ s, Reach p s → s.wg w = debt w p.gs s.gs :=
  ⟨wg_safe h, fun s hr => (wg_counts_debt (wgOk_of_W5w h) s hr).2⟩

example : W5w helper_dosnode_mergeErrors 0 = true := by decide +kernel

/-- a pipeline all of whose channels pass W1 and wait groups pass W5 never reaches the crash
configuration -/
theorem safe_pipeline_never_crashes (p : Pipeline) (h0 : W0 p = true) (hs : SafeOk p = true) : NoCrash p := by
  unfold SafeOk at hs
  simp only [Bool.and_eq_true, List.all_eq_true, List.mem_range] at hs
  intro k
  cases k with
  | sendClosed c =>
    by_cases hc : c < p.chans.length
    · exact (w1_safe (hs.1 c hc)).1
    · rintro ⟨s, e, g, pc, hr, hst⟩
      cases hst with
      | crash g pc nd l n k hat hnd hed hk =>
        have hcl := (crashOf_send hk).2
        unfold State.closed at hcl
        rw [List.getElem?_eq_none (by rw [(shape s hr).chs]; exact Nat.le_of_not_lt hc)] at hcl
        cases hcl
  | closeClosed c =>
    by_cases hc : c < p.chans.length
    · exact (w1_safe (hs.1 c hc)).2
    · rintro ⟨s, e, g, pc, hr, hst⟩
      cases hst with
      | crash g pc nd l n k hat hnd hed hk =>
        have hcl := (crashOf_close hk).2
        unfold State.closed at hcl
        rw [List.getElem?_eq_none (by rw [(shape s hr).chs]; exact Nat.le_of_not_lt hc)] at hcl
        cases hcl
  | wgNegative w =>
    by_cases hw : w < p.wgs.length
    · exact wg_safe (hs.2 w hw)
    · rintro ⟨s, e, g, pc, hr, hst⟩
      cases hst with
      | crash g pc nd l n k hat hnd hed hk =>
        obtain ⟨hl, _⟩ := crashOf_wg hk
        subst hl
        obtain ⟨gr, hg, hn⟩ := node_some hnd
        have := (W0_edge h0 hg hn hed).1
        simp only [Lab.inRange, decide_eq_true_eq] at this
        exact hw this

/-! ## 2. after the deadline nothing is stuck -/

/-- **no_stuck_after_cancel.**  In every reachable state in which the pipeline context is done,
the running pipeline goroutine of least rank (W3 order) has an enabled step of its own: the
pipeline cannot deadlock or wedge after its deadline. -/
theorem no_stuck_after_cancel (p : Pipeline) (hlive : LiveOk p = true) (hsafe : NoCrash p)
    (s : State) (hr : Reach p s) (hc : s.ctxDone 0 = true) (g : Gi) (hrun : Running p s g)
    (hmin : ∀ g', Running p s g' → rankOf p g ≤ rankOf p g') :
    (∃ l s1, Step p s (.act g l) (.run s1)) ∨ (∃ s1, Step p s (.exit g) (.run s1)) :=
  min_running_steps hlive hsafe hr hc hrun hmin

/-- non-vacuity: in the initial state of the regenerated fan-in helper the caller is running -/
example : Running helper_dosnode_mergeErrors (init helper_dosnode_mergeErrors) 2 :=
  ⟨_, 0, rfl, rfl, rfl⟩

/-! ## 3. termination is always reachable -/

/-- **exit_always_reachable** (EF, not AF).  From every reachable state in which the pipeline context is done
there is a schedule to a state in which every pipeline goroutine has returned (or was never
started) and every channel that has a pipeline closer is closed.  The schedule is constructed:
run the goroutine of least rank along its escape edges (context alternatives, closed ranges). -/
theorem exit_always_reachable (p : Pipeline) (hlive : LiveOk p = true) (hsafe : NoCrash p)
    (s : State) (hr : Reach p s) (hc : s.ctxDone 0 = true) :
    ∃ s', Path p s s' ∧ Quiet p s' ∧
      ∀ (h : Gi) (gr : Goroutine) (c : Ch), p.gs[h]? = some gr → gr.static = true → gr.daemon = false →
        closesOnAllPaths gr c = true → c < p.chans.length → s'.closed c = true := by
  obtain ⟨s', hp, hq⟩ := drain hlive hsafe s hr hc
  exact ⟨s', hp, hq, fun h gr c hg hst hdm hcl hin => quiet_closed (reach_path hr hp) hq hg hst hdm hcl hin⟩

example : LiveOk helper_dosnode_mergeErrors = true ∧ SafeOk helper_dosnode_mergeErrors = true := by
  decide +kernel

/-- a pipeline without W0–W5 violations satisfies the hypotheses of 1–3 -/
theorem wf_of_no_violation (p : Pipeline) (h : (violations p).all benign = true) :
    W0 p = true ∧ SafeOk p = true ∧ LiveOk p = true :=
  ⟨(liveOk_parts (liveOk_of_violations h)).1, safeOk_of_violations h, liveOk_of_violations h⟩

/-! ## 4. the regenerated pipelines -/

theorem query_sys_wf : subsetOf (violations query_sys) Gen.PipeKnown.sites = true := by decide +kernel
theorem query_user_wf : subsetOf (violations query_user) Gen.PipeKnown.sites = true := by decide +kernel
theorem query_url_wf : subsetOf (violations query_url) Gen.PipeKnown.sites = true := by decide +kernel
theorem p2p_client_wf : subsetOf (violations p2p_client) Gen.PipeKnown.sites = true := by decide +kernel
theorem helpers_wf :
    [helper_dosnode_mergeErrors, helper_dosnode_fanIn, helper_utils_MergeErrors, helper_onchain_merge,
     helper_onchain_mergeError, helper_onchain_first, helper_onchain_firstEvent, helper_p2p_merge,
     helper_dkg_mergeErrors, helper_dkg_fanOut].all
      (fun p => subsetOf (violations p) Gen.PipeKnown.sites) = true := by decide +kernel

/-- the recorded findings concern channels left open (W6/W7) only: none of them is a crash, a
blocked goroutine or a missing `wgDone`.  On this tree no `known:` line is left for C14, so the list
is EMPTY and the statement is vacuous here; it is what lets `pipeline_can_always_terminate_…` go
through relative to whatever is recorded.  The example below instantiates it on the list as it was
when the pdkg.Loop finding was still recorded (and shows that a W1/W2/W5 entry is refused). -/
theorem known_findings_are_benign : Gen.PipeKnown.sites.all benign = true := by decide

example : ([{ rule := 7, g := "dkg.Loop", c := "dkg.askMembers.out" }] : List Violation).all benign = true ∧
    ([{ rule := 5, g := "dosnode.mergeErrors.output", c := "" }] : List Violation).all benign = false := by decide

/-- extracted fact: both callers give their pipeline a deadline (`context.WithTimeout`) -/
theorem callers_set_a_deadline :
    query_sys_ctx0 = "WithTimeout" ∧ query_user_ctx0 = "WithTimeout" ∧ query_url_ctx0 = "WithTimeout" ∧
    grouping_ctx0 = "WithTimeout" := by decide

/-- what 1–3 give for a pipeline whose violations are all recorded benign findings: it never reaches
the crash configuration, and it CAN ALWAYS terminate — from every reachable state after the deadline
a terminating schedule EXISTS (EF, not AF: this does not say that every schedule terminates).
Reading it as "terminates" needs the assumption, not formalised here, that Go's `select` picks
uniformly at random among the ready alternatives and that the scheduler is fair: the state space
after cancellation is finite for bounded buffers, so a run that can always reach the quiet state
reaches it with probability 1. -/
theorem pipeline_can_always_terminate_and_never_crashes (p : Pipeline)
    (h : subsetOf (violations p) Gen.PipeKnown.sites = true) :
    NoCrash p ∧
    ∀ s, Reach p s → s.ctxDone 0 = true → ∃ s', Path p s s' ∧ Quiet p s' ∧
      ∀ (h : Gi) (gr : Goroutine) (c : Ch), p.gs[h]? = some gr → gr.static = true → gr.daemon = false →
        closesOnAllPaths gr c = true → c < p.chans.length → s'.closed c = true := by
  obtain ⟨h0, hs, hl⟩ := wf_of_no_violation p (benign_of_subset h known_findings_are_benign)
  have hnc := safe_pipeline_never_crashes p h0 hs
  exact ⟨hnc, fun s hr hc => exit_always_reachable p hl hnc s hr hc⟩

/-- the three query pipelines (system random, user random, URL query) of `handleQuery`: no channel
panic is reachable, and after the deadline a terminating schedule exists from every reachable state
(EF; termination itself holds with probability 1 under the fairness assumption stated at
`pipeline_can_always_terminate_and_never_crashes`) -/
theorem query_pipelines_can_always_terminate_and_never_crash :
    (NoCrash query_sys ∧ NoCrash query_user ∧ NoCrash query_url) ∧
    ∀ p ∈ [query_sys, query_user, query_url], ∀ s, Reach p s → s.ctxDone 0 = true →
      ∃ s', Path p s s' ∧ Quiet p s' := by
  have h1 := pipeline_can_always_terminate_and_never_crashes _ query_sys_wf
  have h2 := pipeline_can_always_terminate_and_never_crashes _ query_user_wf
  have h3 := pipeline_can_always_terminate_and_never_crashes _ query_url_wf
  refine ⟨⟨h1.1, h2.1, h3.1⟩, ?_⟩
  intro p hp s hr hc
  simp only [List.mem_cons, List.mem_nil_iff, or_false] at hp
  rcases hp with rfl | rfl | rfl
  · obtain ⟨s', a, b, _⟩ := h1.2 s hr hc; exact ⟨s', a, b⟩
  · obtain ⟨s', a, b, _⟩ := h2.2 s hr hc; exact ⟨s', a, b⟩
  · obtain ⟨s', a, b, _⟩ := h3.2 s hr hc; exact ⟨s', a, b⟩

/-- the p2p client pipes (`client.run`: read / decrypt / decode / dispatch / pack / encrypt / send);
their context is cancel-only (`context.WithCancel` in `newClient`, extracted fact).  "Can always
terminate" = a terminating schedule exists from every reachable state after the cancellation (EF). -/
theorem p2p_client_pipes_can_always_terminate_and_never_crash :
    p2p_client_ctx0 = "WithCancel" ∧ NoCrash p2p_client ∧
    ∀ s, Reach p2p_client s → s.ctxDone 0 = true → ∃ s', Path p2p_client s s' ∧ Quiet p2p_client s' := by
  have h := pipeline_can_always_terminate_and_never_crashes _ p2p_client_wf
  exact ⟨by decide, h.1, fun s hr hc => by obtain ⟨s', a, b, _⟩ := h.2 s hr hc; exact ⟨s', a, b⟩⟩

/-- every fan-in / subscribe helper, driven by well-behaved upstream stages and the usual caller
loop: never a channel panic; after the deadline a schedule exists from every reachable state (EF) to
the state where it has drained and its output channel is closed -/
theorem helpers_can_always_terminate_and_never_crash :
    ∀ p ∈ [helper_dosnode_mergeErrors, helper_dosnode_fanIn, helper_utils_MergeErrors, helper_onchain_merge,
      helper_onchain_mergeError, helper_onchain_first, helper_onchain_firstEvent, helper_p2p_merge,
      helper_dkg_mergeErrors, helper_dkg_fanOut],
    NoCrash p ∧ ∀ s, Reach p s → s.ctxDone 0 = true → ∃ s', Path p s s' ∧ Quiet p s' ∧
      ∀ (h : Gi) (gr : Goroutine) (c : Ch), p.gs[h]? = some gr → gr.static = true → gr.daemon = false →
        closesOnAllPaths gr c = true → c < p.chans.length → s'.closed c = true := by
  intro p hp
  apply pipeline_can_always_terminate_and_never_crashes
  have h := helpers_wf
  rw [List.all_eq_true] at h
  exact h p hp

end Dos.Props.C14

// Package codecfacts regenerates lean/DosModel/Gen/CodecFacts.lean from /repo's working tree:
// the constants and the shape of the encode/decode functions of group/bn256 that the models
// Model/Bn256.lean, Model/Codec.lean and Model/Bls.lean assume (C11, C06).  go/ast only.
package codecfacts

import (
	"fmt"
	"go/ast"
	"go/token"
	"math/big"
	"path/filepath"
	"strconv"
	"strings"

	"verifharness/extract/ex"
)

func init() { ex.Register(&ex.Extractor{Name: "CodecFacts", Run: run}) }

func varValue(f *ast.File, name string) ast.Expr {
	for _, d := range f.Decls {
		gd, ok := d.(*ast.GenDecl)
		if !ok || gd.Tok != token.VAR {
			continue
		}
		for _, s := range gd.Specs {
			vs := s.(*ast.ValueSpec)
			for i, n := range vs.Names {
				if n.Name == name && i < len(vs.Values) {
					return vs.Values[i]
				}
			}
		}
	}
	return nil
}

func strip(e ast.Expr) ast.Expr {
	for {
		switch x := e.(type) {
		case *ast.UnaryExpr:
			e = x.X
		case *ast.StarExpr:
			e = x.X
		case *ast.ParenExpr:
			e = x.X
		default:
			return e
		}
	}
}

// base10 evaluates bigFromBase10("...")
func base10(e ast.Expr) (*big.Int, error) {
	c, ok := strip(e).(*ast.CallExpr)
	if !ok || len(c.Args) != 1 {
		return nil, fmt.Errorf("not a bigFromBase10 call")
	}
	lit, ok := c.Args[0].(*ast.BasicLit)
	if !ok || lit.Kind != token.STRING {
		return nil, fmt.Errorf("argument is not a string literal")
	}
	s, _ := strconv.Unquote(lit.Value)
	v, ok := new(big.Int).SetString(s, 10)
	if !ok {
		return nil, fmt.Errorf("bad number")
	}
	return v, nil
}

// limbs evaluates a 4-limb little-endian composite literal ([4]uint64{..}, gfP{..}, &gfP{..}) to its value
func limbs(e ast.Expr) (*big.Int, error) {
	cl, ok := strip(e).(*ast.CompositeLit)
	if !ok || len(cl.Elts) > 4 {
		return nil, fmt.Errorf("not a limb literal")
	}
	v := new(big.Int)
	for i, el := range cl.Elts {
		l := ex.Eval(el, nil, 0)
		if l == nil {
			return nil, fmt.Errorf("limb %d not a constant", i)
		}
		v.Add(v, new(big.Int).Lsh(l, uint(64*i)))
	}
	return v, nil
}

// newGFpArg evaluates *newGFp(k) / newGFp(k)
func newGFpArg(e ast.Expr) (*big.Int, error) {
	c, ok := strip(e).(*ast.CallExpr)
	if !ok || len(c.Args) != 1 {
		return nil, fmt.Errorf("not a newGFp call")
	}
	if id, ok := c.Fun.(*ast.Ident); !ok || id.Name != "newGFp" {
		return nil, fmt.Errorf("not a newGFp call")
	}
	v := ex.Eval(c.Args[0], nil, 0)
	if v == nil {
		return nil, fmt.Errorf("newGFp argument not constant")
	}
	return v, nil
}

func elts(e ast.Expr) []ast.Expr {
	cl, ok := strip(e).(*ast.CompositeLit)
	if !ok {
		return nil
	}
	var out []ast.Expr
	for _, el := range cl.Elts {
		if kv, ok := el.(*ast.KeyValueExpr); ok {
			out = append(out, kv.Value)
		} else {
			out = append(out, el)
		}
	}
	return out
}

func sel(e ast.Expr) string {
	switch x := strip(e).(type) {
	case *ast.Ident:
		return x.Name
	case *ast.SelectorExpr:
		return sel(x.X) + "." + x.Sel.Name
	case *ast.CallExpr:
		return sel(x.Fun) + "()"
	case *ast.IndexExpr:
		return sel(x.X) + "[]"
	}
	return "?"
}

// evalSize evaluates a size expression in which p.ElementSize() stands for es
func evalSize(e ast.Expr, es int64) *big.Int {
	switch x := e.(type) {
	case *ast.CallExpr:
		if s, ok := x.Fun.(*ast.SelectorExpr); ok && s.Sel.Name == "ElementSize" {
			return big.NewInt(es)
		}
		return nil
	case *ast.BinaryExpr:
		a, b := evalSize(x.X, es), evalSize(x.Y, es)
		if a == nil || b == nil {
			return nil
		}
		switch x.Op {
		case token.ADD:
			return a.Add(a, b)
		case token.MUL:
			return a.Mul(a, b)
		case token.QUO:
			if b.Sign() != 0 {
				return a.Quo(a, b)
			}
		}
		return nil
	case *ast.ParenExpr:
		return evalSize(x.X, es)
	}
	return ex.Eval(e, nil, 0)
}

// layout extracts, structurally, which FIELD of the point goes to which byte OFFSET of the encoding
// (review 4-C06 #3: the earlier facts pinned the names of local variables, so a harmless rename turned
// C06/C11 red and a swap behind a renamed temporary would not have been read as one).
// Marshal side: statements `montDecode(T, &E)` record "T currently holds field E"; `T.Marshal(A)` emits
// (field, offset of A).  Unmarshal side: `E.Unmarshal(A)` emits (field E, offset of A).
// E is made relative to the point: the receiver's `p.g` and any local initialised by `L := *p.g` / `L := p.g`
// are the point itself.  A is the buffer (offset 0) or `buf[LOW:]`, LOW a constant expression in which an
// identifier assigned from `p.ElementSize()` stands for the element size.
func layout(fd *ast.FuncDecl, es int64, marshal bool) []string {
	var out []string
	if fd == nil || fd.Body == nil || fd.Recv == nil || len(fd.Recv.List) == 0 || len(fd.Recv.List[0].Names) == 0 {
		return out
	}
	recv := fd.Recv.List[0].Names[0].Name
	isG := func(e ast.Expr) bool { // recv.g
		if st, ok := e.(*ast.StarExpr); ok {
			e = st.X
		}
		se, ok := e.(*ast.SelectorExpr)
		if !ok || se.Sel.Name != "g" {
			return false
		}
		id, ok := se.X.(*ast.Ident)
		return ok && id.Name == recv
	}
	alias := map[string]bool{}
	sizeVar := map[string]bool{}
	var rel func(e ast.Expr) (string, bool)
	rel = func(e ast.Expr) (string, bool) {
		switch x := e.(type) {
		case *ast.ParenExpr:
			return rel(x.X)
		case *ast.UnaryExpr:
			if x.Op == token.AND {
				return rel(x.X)
			}
		case *ast.Ident:
			if alias[x.Name] {
				return "", true
			}
		case *ast.SelectorExpr:
			if isG(x) {
				return "", true
			}
			if b, ok := rel(x.X); ok {
				if b == "" {
					return x.Sel.Name, true
				}
				return b + "." + x.Sel.Name, true
			}
		}
		return "", false
	}
	var ev func(e ast.Expr) *big.Int
	ev = func(e ast.Expr) *big.Int {
		switch x := e.(type) {
		case *ast.Ident:
			if sizeVar[x.Name] {
				return big.NewInt(es)
			}
			return nil
		case *ast.BasicLit:
			v, ok := new(big.Int).SetString(x.Value, 0)
			if !ok {
				return nil
			}
			return v
		case *ast.ParenExpr:
			return ev(x.X)
		case *ast.CallExpr:
			if s, ok := x.Fun.(*ast.SelectorExpr); ok && s.Sel.Name == "ElementSize" {
				return big.NewInt(es)
			}
		case *ast.BinaryExpr:
			a, b := ev(x.X), ev(x.Y)
			if a == nil || b == nil {
				return nil
			}
			switch x.Op {
			case token.ADD:
				return a.Add(a, b)
			case token.MUL:
				return a.Mul(a, b)
			}
		}
		return nil
	}
	offset := func(a ast.Expr) string {
		switch x := a.(type) {
		case *ast.Ident:
			return "0"
		case *ast.SliceExpr:
			if x.High != nil || x.Max != nil {
				return "?"
			}
			if x.Low == nil {
				return "0"
			}
			if v := ev(x.Low); v != nil {
				return v.String()
			}
		}
		return "?"
	}
	holds := map[string]string{}
	ast.Inspect(fd.Body, func(n ast.Node) bool {
		switch x := n.(type) {
		case *ast.AssignStmt:
			if x.Tok == token.DEFINE && len(x.Lhs) == 1 && len(x.Rhs) == 1 {
				if id, ok := x.Lhs[0].(*ast.Ident); ok {
					if isG(x.Rhs[0]) {
						alias[id.Name] = true
					}
					if c, ok := x.Rhs[0].(*ast.CallExpr); ok {
						if s, ok := c.Fun.(*ast.SelectorExpr); ok && s.Sel.Name == "ElementSize" {
							sizeVar[id.Name] = true
						}
					}
				}
			}
		case *ast.CallExpr:
			if id, ok := x.Fun.(*ast.Ident); ok && id.Name == "montDecode" && len(x.Args) == 2 {
				if f, ok := rel(x.Args[1]); ok {
					holds[sel(x.Args[0])] = f
				} else {
					holds[sel(x.Args[0])] = "?" + sel(x.Args[1])
				}
			}
			if s, ok := x.Fun.(*ast.SelectorExpr); ok && len(x.Args) == 1 {
				if marshal && s.Sel.Name == "Marshal" {
					f, ok := holds[sel(s.X)]
					if !ok {
						f = "?" + sel(s.X)
					}
					out = append(out, f+"@"+offset(x.Args[0]))
				}
				if !marshal && s.Sel.Name == "Unmarshal" {
					f, ok := rel(s.X)
					if !ok {
						f = "?" + sel(s.X)
					}
					out = append(out, f+"@"+offset(x.Args[0]))
				}
			}
		}
		return true
	})
	return out
}

func retExpr(fd *ast.FuncDecl) ast.Expr {
	if fd == nil || fd.Body == nil {
		return nil
	}
	for _, st := range fd.Body.List {
		if r, ok := st.(*ast.ReturnStmt); ok && len(r.Results) == 1 {
			return r.Results[0]
		}
	}
	return nil
}

// calls lists, in source order, "recv.path.Method" for every method call and "fn" for plain calls
// in the body, with the first argument's selector path appended after a space for montDecode/montEncode.
func calls(fd *ast.FuncDecl) []string {
	var out []string
	if fd == nil || fd.Body == nil {
		return out
	}
	ast.Inspect(fd.Body, func(n ast.Node) bool {
		c, ok := n.(*ast.CallExpr)
		if !ok {
			return true
		}
		switch f := c.Fun.(type) {
		case *ast.SelectorExpr:
			out = append(out, sel(f.X)+"."+f.Sel.Name)
		case *ast.Ident:
			s := f.Name
			if (f.Name == "montDecode" || f.Name == "montEncode") && len(c.Args) == 2 {
				s += " " + sel(c.Args[1])
			}
			out = append(out, s)
		}
		return true
	})
	return out
}

func filter(cs []string, pre, suf string) []string {
	var out []string
	for _, c := range cs {
		if strings.HasPrefix(c, pre) && strings.HasSuffix(c, suf) {
			out = append(out, strings.TrimSuffix(strings.TrimPrefix(c, pre), suf))
		}
	}
	return out
}

func has(cs []string, what string) bool {
	for _, c := range cs {
		if c == what || strings.HasSuffix(c, "."+what) {
			return true
		}
	}
	return false
}

func count(cs []string, suffix string) int {
	n := 0
	for _, c := range cs {
		if strings.HasSuffix(c, suffix) {
			n++
		}
	}
	return n
}

func leanList(ss []string) string {
	var q []string
	for _, s := range ss {
		q = append(q, ex.LeanStr(s))
	}
	return "[" + strings.Join(q, ", ") + "]"
}

func leanBool(b bool) string {
	if b {
		return "true"
	}
	return "false"
}

// firstIfCond returns the source shape "len(buf) OP p.MarshalSize()" operator of the first if in fd comparing len(buf)
func lenCheckOp(fd *ast.FuncDecl) string {
	op := "?"
	if fd == nil {
		return op
	}
	ast.Inspect(fd.Body, func(n ast.Node) bool {
		b, ok := n.(*ast.BinaryExpr)
		if !ok || op != "?" {
			return true
		}
		if c, ok := b.X.(*ast.CallExpr); ok {
			if id, ok := c.Fun.(*ast.Ident); ok && id.Name == "len" {
				if r, ok := b.Y.(*ast.CallExpr); ok {
					if s, ok := r.Fun.(*ast.SelectorExpr); ok && s.Sel.Name == "MarshalSize" {
						op = b.Op.String()
					}
				}
			}
		}
		return true
	})
	return op
}

func run(repo string) (string, error) {
	dir := filepath.Join(repo, "group", "bn256")
	parse := func(name string) (*ast.File, error) {
		_, f, err := ex.Parse(filepath.Join(dir, name))
		return f, err
	}
	cf, err := parse("constants.go")
	if err != nil {
		return "", err
	}
	gf, err := parse("gfp.go")
	if err != nil {
		return "", err
	}
	pf, err := parse("point.go")
	if err != nil {
		return "", err
	}
	cu, err := parse("curve.go")
	if err != nil {
		return "", err
	}
	tw, err := parse("twist.go")
	if err != nil {
		return "", err
	}
	var b strings.Builder
	b.WriteString(ex.Header("CodecFacts", "group/bn256/{constants,gfp,point,curve,twist}.go"))
	b.WriteString("namespace Dos.Gen.Codec\n")
	def := func(name string, v *big.Int) { fmt.Fprintf(&b, "def %s : Nat := %s\n", name, v.String()) }

	for _, n := range []string{"Order", "P"} {
		v, err := base10(varValue(cf, n))
		if err != nil {
			return "", fmt.Errorf("constants.go %s: %v", n, err)
		}
		def("const"+n, v)
	}
	for _, n := range []string{"p2", "np", "rN1", "r2"} {
		v, err := limbs(varValue(cf, n))
		if err != nil {
			return "", fmt.Errorf("constants.go %s: %v", n, err)
		}
		def("limbs_"+n, v)
	}
	// curve.go: curveB = newGFp(3); curveGen = {x: newGFp(1), y: newGFp(2), z, t}
	v, err := newGFpArg(varValue(cu, "curveB"))
	if err != nil {
		return "", fmt.Errorf("curve.go curveB: %v", err)
	}
	def("curveB", v)
	ce := elts(varValue(cu, "curveGen"))
	if len(ce) != 4 {
		return "", fmt.Errorf("curve.go curveGen: unexpected literal")
	}
	for i, n := range []string{"curveGenX", "curveGenY", "curveGenZ", "curveGenT"} {
		v, err := newGFpArg(ce[i])
		if err != nil {
			return "", fmt.Errorf("curve.go curveGen: %v", err)
		}
		def(n, v)
	}
	// twist.go: twistB (Montgomery limbs), twistGen
	te := elts(varValue(tw, "twistB"))
	if len(te) != 2 {
		return "", fmt.Errorf("twist.go twistB: unexpected literal")
	}
	for i, n := range []string{"twistB_x_mont", "twistB_y_mont"} {
		v, err := limbs(te[i])
		if err != nil {
			return "", fmt.Errorf("twist.go twistB: %v", err)
		}
		def(n, v)
	}
	ge := elts(varValue(tw, "twistGen"))
	if len(ge) != 4 {
		return "", fmt.Errorf("twist.go twistGen: unexpected literal")
	}
	for i, n := range []string{"twistGen_x", "twistGen_y"} {
		xy := elts(ge[i])
		if len(xy) != 2 {
			return "", fmt.Errorf("twist.go twistGen: unexpected literal")
		}
		for j, m := range []string{"_x_mont", "_y_mont"} {
			v, err := limbs(xy[j])
			if err != nil {
				return "", fmt.Errorf("twist.go twistGen: %v", err)
			}
			def(n+m, v)
		}
	}
	// point.go sizes
	for _, t := range []string{"pointG1", "pointG2", "pointGT"} {
		es := evalSize(retExpr(ex.FuncDecl(pf, t, "ElementSize")), 0)
		if es == nil {
			return "", fmt.Errorf("point.go %s.ElementSize: not constant", t)
		}
		ms := evalSize(retExpr(ex.FuncDecl(pf, t, "MarshalSize")), es.Int64())
		if ms == nil {
			return "", fmt.Errorf("point.go %s.MarshalSize: not constant", t)
		}
		def(t+"_ElementSize", es)
		def(t+"_MarshalSize", ms)
	}
	// shapes
	for _, t := range []string{"pointG1", "pointG2", "pointGT"} {
		m := calls(ex.FuncDecl(pf, t, "MarshalBinary"))
		u := calls(ex.FuncDecl(pf, t, "UnmarshalBinary"))
		if len(m) == 0 || len(u) == 0 {
			return "", fmt.Errorf("point.go %s: MarshalBinary/UnmarshalBinary not found", t)
		}
		// order in which the coordinates are written / read
		if t != "pointGT" {
			esz := evalSize(retExpr(ex.FuncDecl(pf, t, "ElementSize")), 0).Int64()
			fmt.Fprintf(&b, "def %s_marshalLayout : List String := %s\n", t, leanList(layout(ex.FuncDecl(pf, t, "MarshalBinary"), esz, true)))
			fmt.Fprintf(&b, "def %s_unmarshalLayout : List String := %s\n", t, leanList(layout(ex.FuncDecl(pf, t, "UnmarshalBinary"), esz, false)))
		}
		fmt.Fprintf(&b, "def %s_marshalOrder : List String := %s\n", t, leanList(filter(m, "montDecode ", "")))
		fmt.Fprintf(&b, "def %s_unmarshalOrder : List String := %s\n", t, leanList(filter(u, "", ".Unmarshal")))
		fmt.Fprintf(&b, "def %s_montEncodeOrder : List String := %s\n", t, leanList(filter(u, "montEncode ", "")))
		fmt.Fprintf(&b, "def %s_isOnCurveCalls : Nat := %d\n", t, count(u, ".IsOnCurve"))
		fmt.Fprintf(&b, "def %s_isCanonicalCalls : Nat := %d\n", t, count(u, ".isCanonical"))
		fmt.Fprintf(&b, "def %s_lenCheckOp : String := %s\n", t, ex.LeanStr(lenCheckOp(ex.FuncDecl(pf, t, "UnmarshalBinary"))))
		eq := calls(ex.FuncDecl(pf, t, "Equal"))
		fmt.Fprintf(&b, "def %s_equalComparesEncodings : Bool := %s\n", t, leanBool(count(eq, ".MarshalBinary") == 2 && has(eq, "ConstantTimeCompare")))
	}
	// gfp.go: Unmarshal overwrites (e[3-w] = 0 inside), Marshal/Unmarshal big-endian shape, isCanonical compares with p2
	um := ex.FuncDecl(gf, "gfP", "Unmarshal")
	overwrites := false
	if um != nil {
		ast.Inspect(um.Body, func(n ast.Node) bool {
			if a, ok := n.(*ast.AssignStmt); ok && a.Tok == token.ASSIGN && len(a.Lhs) == 1 && len(a.Rhs) == 1 {
				if _, ok := a.Lhs[0].(*ast.IndexExpr); ok {
					if l, ok := a.Rhs[0].(*ast.BasicLit); ok && l.Value == "0" {
						overwrites = true
					}
				}
			}
			return true
		})
	}
	fmt.Fprintf(&b, "def gfpUnmarshalOverwrites : Bool := %s\n", leanBool(overwrites))
	ic := ex.FuncDecl(gf, "gfP", "isCanonical")
	usesP2 := false
	if ic != nil {
		ast.Inspect(ic.Body, func(n ast.Node) bool {
			if id, ok := n.(*ast.Ident); ok && id.Name == "p2" {
				usesP2 = true
			}
			return true
		})
	}
	fmt.Fprintf(&b, "def gfpIsCanonicalComparesWithP2 : Bool := %s\n", leanBool(usesP2))
	// twist.go IsOnCurve multiplies by Order and tests z
	tc := calls(ex.FuncDecl(tw, "twistPoint", "IsOnCurve"))
	mulOrder := false
	if fd := ex.FuncDecl(tw, "twistPoint", "IsOnCurve"); fd != nil {
		ast.Inspect(fd.Body, func(n ast.Node) bool {
			if c, ok := n.(*ast.CallExpr); ok {
				if s, ok := c.Fun.(*ast.SelectorExpr); ok && s.Sel.Name == "Mul" && len(c.Args) == 2 {
					if id, ok := c.Args[1].(*ast.Ident); ok && id.Name == "Order" {
						mulOrder = true
					}
				}
			}
			return true
		})
	}
	fmt.Fprintf(&b, "def twistIsOnCurveMulOrder : Bool := %s\n", leanBool(mulOrder && has(tc, "IsZero")))
	// G2 UnmarshalFrom reads the tag first: two ReadFull calls
	fmt.Fprintf(&b, "def pointG2_unmarshalFromReadFulls : Nat := %d\n", count(calls(ex.FuncDecl(pf, "pointG2", "UnmarshalFrom")), "io.ReadFull"))
	b.WriteString("end Dos.Gen.Codec\n")
	return b.String(), nil
}

/-
C14: from the list of violations (what the per-pipeline `decide` theorems compute on the
regenerated IR) to the hypotheses of the general theorems: if no violation of W0–W5 is listed,
the pipeline satisfies `SafeOk` and `LiveOk`.
-/
import DosModel.Proofs.PipeLive4

namespace Dos.Pipe

theorem mem_dedup_aux (v : Violation) : ∀ (l acc : List Violation), (v ∈ acc ∨ v ∈ l) →
    v ∈ l.foldl (fun acc v => if acc.contains v then acc else acc ++ [v]) acc := by
  intro l
  induction l with
  | nil => intro acc h; rcases h with h | h; exact h; cases h
  | cons x xs ih =>
    intro acc h
    simp only [List.foldl_cons]
    apply ih
    rcases h with h | h
    · left; split
      · exact h
      · exact List.mem_append_left _ h
    · rcases List.mem_cons.mp h with h | h
      · subst h
        left
        split
        · rename_i hc; simpa using hc
        · simp
      · right; exact h

theorem mem_dedup {v : Violation} {l : List Violation} (h : v ∈ l) : v ∈ dedup l :=
  mem_dedup_aux v l [] (Or.inr h)

/-- only findings about dropped error channels (W6) and unclosed channels (W7) are listed -/
def benign (v : Violation) : Bool := decide (6 ≤ v.rule)

theorem no_listed {p : Pipeline} (h : (violations p).all benign = true) {v : Violation}
    (hv : v ∈ w0Violations p ++ w1Violations p ++ w23Violations p ++ w4Violations p ++ w5Violations p ++
      w6Violations p ++ w7Violations p) : 6 ≤ v.rule := by
  rw [List.all_eq_true] at h
  have := h v (by unfold violations; exact mem_dedup hv)
  simpa [benign] using this

theorem w5_all {p : Pipeline} (h : (violations p).all benign = true) {w : Nat} (hw : w < p.wgs.length) :
    W5w p w = true := by
  cases h5 : W5w p w with
  | true => rfl
  | false =>
    exfalso
    -- some rule-5 entry is listed
    have hex : ∃ v ∈ w5Violations p, v.rule = 5 := by
      unfold W5w at h5
      simp only [Bool.and_eq_false_iff] at h5
      unfold w5Violations
      rcases h5 with h5 | h5
      · simp only [List.all_eq_false] at h5
        obtain ⟨gr, hm, hgr⟩ := h5
        refine ⟨{ rule := 5, g := gr.name, c := "" }, ?_, rfl⟩
        simp only [List.mem_flatMap, List.mem_range, List.mem_append]
        refine ⟨w, hw, Or.inl ⟨gr, hm, ?_⟩⟩
        simp [hgr]
      · have hx : p.wgs[w]? = some p.wgs[w] := by simp [hw]
        rw [hx] at h5
        simp only at h5
        refine ⟨{ rule := 5, g := "", c := p.wgs[w].name }, ?_, rfl⟩
        simp only [List.mem_flatMap, List.mem_range, List.mem_append]
        refine ⟨w, hw, Or.inr ?_⟩
        rw [hx]
        simp [h5]
    obtain ⟨v, hv, hr⟩ := hex
    have := no_listed h (v := v) (by simp [hv])
    omega

theorem w1_all {p : Pipeline} (h : (violations p).all benign = true) {c : Ch} (hc : c < p.chans.length) :
    W1c p c = true := by
  cases h1 : W1c p c with
  | true => rfl
  | false =>
    exfalso
    have hops : p.gsWhere (fun gr => gr.hasOps c) ≠ [] := by
      intro hnil
      have : discA p c = true := by unfold discA; rw [hnil]
      unfold W1c at h1
      simp [this] at h1
    obtain ⟨g, hg⟩ := List.exists_mem_of_ne_nil _ hops
    have hw5 : ∀ w ∈ List.range p.wgs.length, W5w p w = true := fun w hw => w5_all h (List.mem_range.mp hw)
    have hmem : ({ rule := 1, g := p.gkey g, c := p.ckey c } : Violation) ∈ w1Violations p := by
      unfold w1Violations
      simp only [List.mem_flatMap, List.mem_range]
      refine ⟨c, hc, ?_⟩
      rw [if_neg (by simp [h1])]
      have : (List.range p.wgs.length).any (fun w => !W5w p w) = false := by
        rw [List.any_eq_false]
        intro w hw
        simp [hw5 w hw]
      rw [this]
      simp only [Bool.false_and, Bool.false_eq_true, ↓reduceIte, List.mem_map]
      exact ⟨g, hg, rfl⟩
    have := no_listed h (v := { rule := 1, g := p.gkey g, c := p.ckey c }) (by simp [hmem])
    simp at this

theorem safeOk_of_violations {p : Pipeline} (h : (violations p).all benign = true) : SafeOk p = true := by
  unfold SafeOk
  simp only [Bool.and_eq_true, List.all_eq_true, List.mem_range]
  exact ⟨fun c hc => w1_all h hc, fun w hw => w5_all h hw⟩

theorem nodeLive_all {p : Pipeline} (h : (violations p).all benign = true) {g : Gi} {gr : Goroutine}
    (hg : p.gs[g]? = some gr) (hd : gr.daemon = false) {nd : Node} (hnd : nd ∈ gr.nodes) :
    nodeLive p g nd = true := by
  cases hl : nodeLive p g nd with
  | true => rfl
  | false =>
    exfalso
    have hzip : (gr, g) ∈ p.gs.zipIdx := by
      rw [List.mem_zipIdx_iff_getElem?]; simpa using hg
    -- an entry of rule 2 or 3 is listed (or a rule-5 one, which is excluded as well)
    have hex : ∃ v ∈ w23Violations p, v.rule = 2 ∨ v.rule = 3 := by
      unfold w23Violations
      cases nd with
      | sel alts =>
        -- the entries produced for this node
        let vs : List Violation := alts.flatMap fun a => match a with
          | .send c _ => [{ rule := 2, g := gr.name, c := p.ckey c : Violation }]
          | .recv c _ _ => [{ rule := (if alts.length == 1 then 3 else 2), g := gr.name, c := p.ckey c }]
          | _ => []
        have hall : ∀ v ∈ vs, v.rule = 2 ∨ v.rule = 3 := by
          intro v hv
          simp only [vs, List.mem_flatMap] at hv
          obtain ⟨a, _, hv⟩ := hv
          cases a <;> simp at hv
          case send c n => subst hv; left; rfl
          case recv c a b => subst hv; simp only; split <;> simp
        by_cases hemp : vs.isEmpty = true
        · refine ⟨{ rule := 2, g := gr.name, c := "" }, ?_, Or.inl rfl⟩
          simp only [List.mem_flatMap]
          refine ⟨(gr, g), hzip, ?_⟩
          simp only [hd, Bool.false_eq_true, ↓reduceIte]
          rw [List.mem_flatMap]
          refine ⟨.sel alts, hnd, ?_⟩
          simp only [hl, Bool.false_eq_true, ↓reduceIte]
          show _ ∈ (if vs.isEmpty then _ else vs)
          rw [if_pos hemp]; simp
        · obtain ⟨v, hv⟩ := List.exists_mem_of_ne_nil vs (by simpa using hemp)
          refine ⟨v, ?_, hall v hv⟩
          simp only [List.mem_flatMap]
          refine ⟨(gr, g), hzip, ?_⟩
          simp only [hd, Bool.false_eq_true, ↓reduceIte]
          rw [List.mem_flatMap]
          refine ⟨.sel alts, hnd, ?_⟩
          simp only [hl, Bool.false_eq_true, ↓reduceIte]
          show _ ∈ (if vs.isEmpty then _ else vs)
          rw [if_neg hemp]; exact hv
      | wgWait w n =>
        have hw : w < p.wgs.length → W5w p w = true := fun hw => w5_all h hw
        simp only [nodeLive] at hl
        by_cases hin : w < p.wgs.length
        · refine ⟨{ rule := 3, g := gr.name, c := p.wname w }, ?_, Or.inr rfl⟩
          simp only [List.mem_flatMap]
          refine ⟨(gr, g), hzip, ?_⟩
          simp only [hd, Bool.false_eq_true, ↓reduceIte]
          rw [List.mem_flatMap]
          refine ⟨.wgWait w n, hnd, ?_⟩
          simp [nodeLive, hl, hw hin]
        · -- out of range: W0 is violated, handled by the caller; here we still find the entry
          -- because `W5w` is false only through the `none` branch: no entry, so use W0 instead
          exfalso
          have h0 : W0 p = true := by
            cases h0 : W0 p with
            | true => rfl
            | false =>
              have : ({ rule := 0, g := "", c := "" } : Violation) ∈ w0Violations p := by
                simp [w0Violations, h0]
              have := no_listed h (v := { rule := 0, g := "", c := "" }) (by simp [this])
              simp at this
          have := (W0_edge h0 hg (List.getElem?_of_mem hnd).choose_spec
            (l := .wgWait w) (n := n) (by simp [Node.edges])).1
          simp [Lab.inRange] at this
          exact hin this
      | close c n => simp [nodeLive] at hl
      | branch ns => simp [nodeLive] at hl
      | wgDone w n => simp [nodeLive] at hl
      | spawn g' n => simp [nodeLive] at hl
      | cancel k n => simp [nodeLive] at hl
      | exit => simp [nodeLive] at hl
    obtain ⟨v, hv, hr⟩ := hex
    have := no_listed h (v := v) (by simp [hv])
    omega

theorem liveOk_of_violations {p : Pipeline} (h : (violations p).all benign = true) : LiveOk p = true := by
  have h0 : W0 p = true := by
    cases h0 : W0 p with
    | true => rfl
    | false =>
      have : ({ rule := 0, g := "", c := "" } : Violation) ∈ w0Violations p := by simp [w0Violations, h0]
      have := no_listed h (v := { rule := 0, g := "", c := "" }) (by simp [this])
      simp at this
  unfold LiveOk
  simp only [Bool.and_eq_true, h0, true_and, List.all_eq_true, Bool.or_eq_true]
  rintro ⟨gr, g⟩ hm
  have hg : p.gs[g]? = some gr := by
    have := List.mem_zipIdx_iff_getElem?.mp hm
    simpa using this
  cases hd : gr.daemon with
  | true => left; rfl
  | false =>
    right
    simp only [liveG, Bool.and_eq_true, List.all_eq_true]
    refine ⟨fun nd hnd => nodeLive_all h hg hd hnd, ?_⟩
    cases h4 : W4g p g gr with
    | true => rfl
    | false =>
      exfalso
      have : ({ rule := 4, g := gr.name, c := "" } : Violation) ∈ w4Violations p := by
        unfold w4Violations
        simp only [List.mem_flatMap]
        exact ⟨(gr, g), hm, by simp [hd, h4]⟩
      have := no_listed h (v := { rule := 4, g := gr.name, c := "" }) (by simp [this])
      simp at this

/-- a list of violations contained in a list of benign recorded findings is benign -/
theorem benign_of_subset {vs known : List Violation} (hs : subsetOf vs known = true)
    (hk : known.all benign = true) : vs.all benign = true := by
  rw [List.all_eq_true] at hk ⊢
  unfold subsetOf at hs
  rw [List.all_eq_true] at hs
  intro v hv
  have := hs v hv
  exact hk v (by simpa using this)

end Dos.Pipe

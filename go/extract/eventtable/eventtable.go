// Package eventtable (E3): the subscription tables of onchain/eth_subscribe.go as Lean data.
//
// For every entry of proxyTable / crTable: the index constant and its value, the element type
// of the transit channel, the Watch method called (and on what), the node struct built with
// each `Field: expr` of its literal, the LogCommon literal, and what is sent on `out`.
// Also: every Subscribe* constant, the node event structs of eventMsg.go, the event structs
// and Watch methods of the generated bindings, and the subscription list of
// dosnode/dos_chain_handler.go.  go/ast only.
package eventtable

import (
	"bytes"
	"fmt"
	"go/ast"
	"go/parser"
	"go/printer"
	"go/token"
	"path/filepath"
	"sort"
	"strings"

	"verifharness/extract/ex"
)

func init() {
	ex.Register(&ex.Extractor{Name: "EventTable", Run: run})
}

func src(fset *token.FileSet, n ast.Node) string {
	var b bytes.Buffer
	printer.Fprint(&b, fset, n)
	return strings.Join(strings.Fields(b.String()), " ")
}

type entry struct {
	table, key               string
	index                    string
	watchRecv, watch         string
	binding                  string
	target                   string
	assigns                  [][2]string // field, Src (Lean term)
	common                   [][2]string
	commonType               string
	sent                     string
	nWatch, nTarget, nCommon int
	loops                    map[string]string // local slice variable → binding field it maps with .Bytes()
	errs                     [][3]string       // error reports: site, call shape, Idx expression
	body                     []string          // the WHOLE entry function (go/printer lines), entry-specific names replaced by placeholders
}

// mapBytesLoop recognises
//
//	for _, p := range i.X { id := p.Bytes(); v = append(v, id) }      (or v = append(v, p.Bytes()))
func mapBytesLoop(fset *token.FileSet, rs *ast.RangeStmt) (v, field string, ok bool) {
	sel, isSel := rs.X.(*ast.SelectorExpr)
	if !isSel {
		return
	}
	if id, isID := sel.X.(*ast.Ident); !isID || id.Name != "i" {
		return
	}
	val, isID := rs.Value.(*ast.Ident)
	if !isID {
		return
	}
	body := src(fset, rs.Body)
	for _, cand := range []string{
		fmt.Sprintf("{ id := %s.Bytes() %%s = append(%%s, id) }", val.Name),
		fmt.Sprintf("{ %%s = append(%%s, %s.Bytes()) }", val.Name),
	} {
		// find the appended-to variable
		for _, st := range rs.Body.List {
			if as, isAs := st.(*ast.AssignStmt); isAs && len(as.Lhs) == 1 {
				if lhs, isID := as.Lhs[0].(*ast.Ident); isID && as.Tok == token.ASSIGN {
					if body == fmt.Sprintf(cand, lhs.Name, lhs.Name) {
						return lhs.Name, sel.Sel.Name, true
					}
				}
			}
		}
	}
	return
}

func leanSrc(fset *token.FileSet, e ast.Expr, loops map[string]string) string {
	if sel, ok := e.(*ast.SelectorExpr); ok {
		if id, ok := sel.X.(*ast.Ident); ok && id.Name == "i" {
			return ".field " + ex.LeanStr(sel.Sel.Name)
		}
	}
	if id, ok := e.(*ast.Ident); ok {
		if f, ok := loops[id.Name]; ok {
			return ".mapAddrBytes " + ex.LeanStr(f)
		}
	}
	return ".other " + ex.LeanStr(src(fset, e))
}

func tableEntries(fset *token.FileSet, f *ast.File, table string, consts map[string]string) ([]entry, error) {
	var lit *ast.CompositeLit
	for _, d := range f.Decls {
		gd, ok := d.(*ast.GenDecl)
		if !ok || gd.Tok != token.VAR {
			continue
		}
		for _, s := range gd.Specs {
			vs := s.(*ast.ValueSpec)
			if len(vs.Names) == 1 && vs.Names[0].Name == table && len(vs.Values) == 1 {
				lit, _ = vs.Values[0].(*ast.CompositeLit)
			}
		}
	}
	if lit == nil {
		return nil, fmt.Errorf("table %s not found in onchain/eth_subscribe.go", table)
	}
	var out []entry
	for pos, el := range lit.Elts {
		en := entry{table: table, loops: map[string]string{}}
		fn := el
		if kv, ok := el.(*ast.KeyValueExpr); ok {
			en.key = src(fset, kv.Key)
			fn = kv.Value
		} else {
			en.key = fmt.Sprintf("#%d", pos)
		}
		if v, ok := consts[en.key]; ok {
			en.index = v
		} else {
			return nil, fmt.Errorf("%s: key %s is not a known constant", table, en.key)
		}
		fl, ok := fn.(*ast.FuncLit)
		if !ok {
			return nil, fmt.Errorf("%s[%s] is not a function literal", table, en.key)
		}
		ast.Inspect(fl.Body, func(n ast.Node) bool {
			switch x := n.(type) {
			case *ast.RangeStmt:
				if v, fld, ok := mapBytesLoop(fset, x); ok {
					en.loops[v] = fld
				}
			}
			return true
		})
		ast.Inspect(fl.Body, func(n ast.Node) bool {
			switch x := n.(type) {
			case *ast.AssignStmt:
				if len(x.Lhs) == 1 && len(x.Rhs) == 1 {
					lhs := src(fset, x.Lhs[0])
					// transitChan := make(chan *pkg.T)
					if call, ok := x.Rhs[0].(*ast.CallExpr); ok && lhs == "transitChan" {
						if id, ok := call.Fun.(*ast.Ident); ok && id.Name == "make" && len(call.Args) >= 1 {
							if ch, ok := call.Args[0].(*ast.ChanType); ok {
								en.binding = strings.TrimPrefix(src(fset, ch.Value), "*")
							}
						}
					}
					// l := &T{...} / log = &LogCommon{...}
					if ue, ok := x.Rhs[0].(*ast.UnaryExpr); ok && ue.Op == token.AND {
						if cl, ok := ue.X.(*ast.CompositeLit); ok {
							tn := src(fset, cl.Type)
							var kvs [][2]ast.Expr
							for _, e := range cl.Elts {
								if kv, ok := e.(*ast.KeyValueExpr); ok {
									kvs = append(kvs, [2]ast.Expr{kv.Key, kv.Value})
								} else {
									kvs = append(kvs, [2]ast.Expr{nil, e})
								}
							}
							if lhs == "l" {
								en.nTarget++
								en.target = tn
								for _, kv := range kvs {
									k := "?"
									if kv[0] != nil {
										k = src(fset, kv[0])
									}
									en.assigns = append(en.assigns, [2]string{k, leanSrc(fset, kv[1], en.loops)})
								}
							} else if lhs == "log" {
								en.nCommon++
								en.commonType = tn
								for _, kv := range kvs {
									k := "?"
									if kv[0] != nil {
										k = src(fset, kv[0])
									}
									en.common = append(en.common, [2]string{k, src(fset, kv[1])})
								}
							}
						}
					}
				}
				// sub, err := X.WatchY(opt, transitChan)
				if len(x.Lhs) == 2 && len(x.Rhs) == 1 && src(fset, x.Lhs[0]) == "sub" {
					if call, ok := x.Rhs[0].(*ast.CallExpr); ok {
						if sel, ok := call.Fun.(*ast.SelectorExpr); ok && strings.HasPrefix(sel.Sel.Name, "Watch") {
							en.nWatch++
							en.watch = sel.Sel.Name
							en.watchRecv = src(fset, sel.X)
							if len(call.Args) == 2 {
								en.watchRecv += "(" + src(fset, call.Args[0]) + "," + src(fset, call.Args[1]) + ")"
							}
						}
					}
				}
			case *ast.CommClause:
				if snd, ok := x.Comm.(*ast.SendStmt); ok && src(fset, snd.Chan) == "out" {
					if en.sent != "" && en.sent != src(fset, snd.Value) {
						en.sent += "|" + src(fset, snd.Value)
					} else {
						en.sent = src(fset, snd.Value)
					}
				}
			case *ast.SendStmt:
				_ = x
			}
			return true
		})
		en.errs = errorReports(fset, fl.Body)
		en.body = entryBody(fset, fl, &en)
		out = append(out, en)
	}
	return out, nil
}

// lines prints a node with go/printer and returns its non-empty lines, white space normalised.
func lines(fset *token.FileSet, n ast.Node) []string {
	var b bytes.Buffer
	printer.Fprint(&b, fset, n)
	var out []string
	for _, l := range strings.Split(b.String(), "\n") {
		if t := strings.Join(strings.Fields(l), " "); t != "" {
			out = append(out, t)
		}
	}
	return out
}

// entryBody prints the whole function literal of a table entry (signature and every statement, go/printer, one
// element per printed line) and replaces what legitimately differs between entries by placeholders: the
// `&T{…}` literal assigned to l (its content is in `assigns`) by &«L», the element type of transitChan by «B»,
// the Watch method by «W».  Everything else — any statement before, between or after the two literals —
// stays and is pinned by table_faithful.  (The AST is a private parse; the literal is replaced in it.)
func entryBody(fset *token.FileSet, fl *ast.FuncLit, en *entry) []string {
	ast.Inspect(fl.Body, func(n ast.Node) bool {
		if as, ok := n.(*ast.AssignStmt); ok && len(as.Lhs) == 1 && len(as.Rhs) == 1 && src(fset, as.Lhs[0]) == "l" {
			if ue, ok := as.Rhs[0].(*ast.UnaryExpr); ok && ue.Op == token.AND {
				if _, ok := ue.X.(*ast.CompositeLit); ok {
					as.Rhs[0] = &ast.Ident{Name: "&«L»", NamePos: ue.Pos()}
				}
			}
		}
		return true
	})
	out := lines(fset, fl)
	for i, text := range out {
		if en.binding != "" {
			text = strings.ReplaceAll(text, en.binding, "«B»")
		}
		if en.watch != "" {
			text = strings.ReplaceAll(text, "."+en.watch+"(", ".«W»(")
		}
		out[i] = text
	}
	return out
}

// constDuration evaluates a product of integer literals and time.<Unit> selectors to milliseconds.
func constDuration(fset *token.FileSet, e ast.Expr) (ms int64, ok bool) {
	switch x := e.(type) {
	case *ast.ParenExpr:
		return constDuration(fset, x.X)
	case *ast.BasicLit:
		if x.Kind == token.INT {
			var v int64
			if _, err := fmt.Sscan(x.Value, &v); err == nil {
				return v, true
			}
		}
	case *ast.SelectorExpr:
		units := map[string]int64{"time.Millisecond": 1, "time.Second": 1000, "time.Minute": 60000, "time.Hour": 3600000}
		if u, ok := units[src(fset, x)]; ok {
			return u, true
		}
	case *ast.BinaryExpr:
		if x.Op == token.MUL {
			a, ok1 := constDuration(fset, x.X)
			b, ok2 := constDuration(fset, x.Y)
			if ok1 && ok2 {
				return a * b, true
			}
		}
	}
	return 0, false
}

// dedupWindow: the argument of every time.After call in firstEvent, resolved through a package-level
// variable / constant if it is a plain identifier, evaluated to milliseconds (0 = not a constant product).
func dedupWindow(fset *token.FileSet, f *ast.File) (args []string, ms int64, assigned int) {
	fd := ex.FuncDecl(f, "", "firstEvent")
	if fd == nil {
		return nil, 0, 0
	}
	ms = -1
	ast.Inspect(fd.Body, func(n ast.Node) bool {
		call, ok := n.(*ast.CallExpr)
		if !ok || len(call.Args) != 1 {
			return true
		}
		fn := src(fset, call.Fun)
		if fn != "time.After" && fn != "time.NewTimer" && fn != "time.AfterFunc" && fn != "time.Sleep" {
			return true
		}
		args = append(args, fn+"("+src(fset, call.Args[0])+")")
		arg := call.Args[0]
		if id, ok := arg.(*ast.Ident); ok {
			for _, d := range f.Decls {
				if gd, ok := d.(*ast.GenDecl); ok && (gd.Tok == token.VAR || gd.Tok == token.CONST) {
					for _, sp := range gd.Specs {
						vs := sp.(*ast.ValueSpec)
						for k, nm := range vs.Names {
							if nm.Name == id.Name && k < len(vs.Values) {
								arg = vs.Values[k]
							}
						}
					}
				}
			}
			// the variable must not be assigned anywhere in the package file (outside verif hook files, which the
			// extractor does not read): count assignments to it
			ast.Inspect(f, func(m ast.Node) bool {
				if as, ok := m.(*ast.AssignStmt); ok {
					for _, l := range as.Lhs {
						if src(fset, l) == id.Name {
							assigned++
						}
					}
				}
				if inc, ok := m.(*ast.IncDecStmt); ok && src(fset, inc.X) == id.Name {
					assigned++
				}
				return true
			})
		}
		if v, ok := constDuration(fset, arg); ok && (ms == -1 || ms == v) {
			ms = v
		} else {
			ms = 0
		}
		return true
	})
	if ms < 0 {
		ms = 0
	}
	return
}

// errorReports finds every &OnchainError{…} literal of a table entry with the place it is built in
// ("watch": the `if err != nil` after the Watch call; "subErr": the `<-sub.Err()` case of the loop),
// the call it is handed to (with the literal replaced by _) and its Idx expression.
func errorReports(fset *token.FileSet, body *ast.BlockStmt) [][3]string {
	var out [][3]string
	var stack []ast.Node
	ast.Inspect(body, func(n ast.Node) bool {
		if n == nil {
			stack = stack[:len(stack)-1]
			return true
		}
		stack = append(stack, n)
		cl, ok := n.(*ast.CompositeLit)
		if !ok || src(fset, cl.Type) != "OnchainError" {
			return true
		}
		idx := "(unset)"
		for _, e := range cl.Elts {
			if kv, ok := e.(*ast.KeyValueExpr); ok && src(fset, kv.Key) == "Idx" {
				idx = src(fset, kv.Value)
			}
		}
		site, call := "other", "(none)"
		for i := len(stack) - 2; i >= 0; i-- {
			switch a := stack[i].(type) {
			case *ast.CallExpr:
				if call == "(none)" {
					var args []string
					for _, arg := range a.Args {
						t := src(fset, arg)
						if strings.Contains(t, "OnchainError{") {
							t = "_"
						}
						args = append(args, t)
					}
					call = src(fset, a.Fun) + "(" + strings.Join(args, ", ") + ")"
				}
			case *ast.CommClause:
				if site == "other" {
					if a.Comm != nil && strings.Contains(src(fset, a.Comm), "<-sub.Err()") {
						site = "subErr"
					} else if a.Comm != nil {
						site = "case:" + src(fset, a.Comm)
					}
				}
			case *ast.IfStmt:
				if site == "other" && src(fset, a.Cond) == "err != nil" {
					site = "watch"
				}
			}
		}
		out = append(out, [3]string{site, call, idx})
		return true
	})
	return out
}

// ctxValueKey: the string literal k of the ctx.Value(k) call inside helper function `name`
func ctxValueKey(fset *token.FileSet, f *ast.File, name string) string {
	fd := ex.FuncDecl(f, "", name)
	if fd == nil {
		return "(missing)"
	}
	key := "(none)"
	ast.Inspect(fd.Body, func(n ast.Node) bool {
		if call, ok := n.(*ast.CallExpr); ok {
			if sel, ok := call.Fun.(*ast.SelectorExpr); ok && sel.Sel.Name == "Value" && len(call.Args) == 1 {
				key = strings.Trim(src(fset, call.Args[0]), "\"")
			}
		}
		return true
	})
	return key
}

type structDef struct {
	name   string
	fields [][2]string
}

func structsOf(fset *token.FileSet, f *ast.File, keep func(string) bool, prefix string) []structDef {
	var out []structDef
	for _, d := range f.Decls {
		gd, ok := d.(*ast.GenDecl)
		if !ok || gd.Tok != token.TYPE {
			continue
		}
		for _, s := range gd.Specs {
			ts := s.(*ast.TypeSpec)
			st, ok := ts.Type.(*ast.StructType)
			if !ok || !keep(ts.Name.Name) {
				continue
			}
			sd := structDef{name: prefix + ts.Name.Name}
			for _, fl := range st.Fields.List {
				t := src(fset, fl.Type)
				if len(fl.Names) == 0 {
					sd.fields = append(sd.fields, [2]string{"(embedded)", t})
				}
				for _, n := range fl.Names {
					sd.fields = append(sd.fields, [2]string{n.Name, t})
				}
			}
			out = append(out, sd)
		}
	}
	return out
}

// watchMethods: func (_X *XFilterer) WatchE(opts *bind.WatchOpts, sink chan<- *XE) → (method, sink type, ABI event name)
func watchMethods(fset *token.FileSet, f *ast.File, pkg string) [][4]string {
	var out [][4]string
	for _, d := range f.Decls {
		fd, ok := d.(*ast.FuncDecl)
		if !ok || fd.Recv == nil || !strings.HasPrefix(fd.Name.Name, "Watch") || fd.Type.Params == nil {
			continue
		}
		ps := fd.Type.Params.List
		if len(ps) < 2 {
			continue
		}
		ch, ok := ps[1].Type.(*ast.ChanType)
		if !ok {
			continue
		}
		sink := strings.TrimPrefix(src(fset, ch.Value), "*")
		ev := ""
		ast.Inspect(fd.Body, func(n ast.Node) bool {
			if call, ok := n.(*ast.CallExpr); ok {
				if sel, ok := call.Fun.(*ast.SelectorExpr); ok && sel.Sel.Name == "WatchLogs" && len(call.Args) >= 2 {
					if bl, ok := call.Args[1].(*ast.BasicLit); ok {
						ev = strings.Trim(bl.Value, "\"")
					}
				}
			}
			return true
		})
		out = append(out, [4]string{pkg, fd.Name.Name, pkg + "." + sink, ev})
	}
	return out
}

func run(repo string) (string, error) {
	fset, f, err := ex.Parse(filepath.Join(repo, "onchain", "eth_subscribe.go"))
	if err != nil {
		return "", err
	}
	cv := ex.Consts(f)
	consts := map[string]string{}
	var cnames []string
	for k, v := range cv {
		if strings.HasPrefix(k, "Subscribe") {
			consts[k] = v.String()
			cnames = append(cnames, k)
		}
	}
	sort.Slice(cnames, func(a, b int) bool {
		if cv[cnames[a]].Cmp(cv[cnames[b]]) != 0 {
			return cv[cnames[a]].Cmp(cv[cnames[b]]) < 0
		}
		return cnames[a] < cnames[b]
	})
	// a second parse WITHOUT comments: the function texts below must not depend on them
	fsetNC := token.NewFileSet()
	fNC, err := parser.ParseFile(fsetNC, filepath.Join(repo, "onchain", "eth_subscribe.go"), nil, 0)
	if err != nil {
		return "", err
	}
	var entries []entry
	for _, t := range []string{"proxyTable", "crTable"} {
		es, err := tableEntries(fsetNC, fNC, t, consts)
		if err != nil {
			return "", err
		}
		entries = append(entries, es...)
	}
	if len(entries) == 0 {
		return "", fmt.Errorf("no table entries found")
	}
	// node structs
	fs2, f2, err := ex.Parse(filepath.Join(repo, "onchain", "eventMsg.go"))
	if err != nil {
		return "", err
	}
	node := structsOf(fs2, f2, func(n string) bool { return strings.HasPrefix(n, "Log") }, "")
	// bindings
	var bind []structDef
	var watches [][4]string
	for _, b := range [][3]string{{"dosproxy", "DOSProxy.go", "Dosproxy"}, {"commitreveal", "CommitReveal.go", "Commitreveal"}} {
		fs3, f3, err := ex.Parse(filepath.Join(repo, "onchain", b[0], b[1]))
		if err != nil {
			return "", err
		}
		pre := b[2]
		bind = append(bind, structsOf(fs3, f3, func(n string) bool {
			return strings.HasPrefix(n, pre) && !strings.HasSuffix(n, "Iterator") && !strings.HasSuffix(n, "Session") &&
				!strings.HasSuffix(n, "Raw") && !strings.HasSuffix(n, "Caller") && !strings.HasSuffix(n, "Transactor") &&
				!strings.HasSuffix(n, "Filterer") && n != pre
		}, b[0]+".")...)
		watches = append(watches, watchMethods(fs3, f3, b[0])...)
	}
	// the node's subscription list
	fs4, f4, err := ex.Parse(filepath.Join(repo, "dosnode", "dos_chain_handler.go"))
	if err != nil {
		return "", err
	}
	var subscribed []string
	nSubCalls := 0
	ast.Inspect(f4, func(n ast.Node) bool {
		as, ok := n.(*ast.AssignStmt)
		if !ok || len(as.Rhs) != 1 {
			return true
		}
		if call, ok := as.Rhs[0].(*ast.CallExpr); ok {
			if sel, ok := call.Fun.(*ast.SelectorExpr); ok && sel.Sel.Name == "SubscribeEvent" && len(call.Args) == 1 {
				nSubCalls++
				arg := call.Args[0]
				// resolve a local []int{...} variable
				if id, ok := arg.(*ast.Ident); ok && id.Obj != nil {
					if das, ok := id.Obj.Decl.(*ast.AssignStmt); ok && len(das.Rhs) == 1 {
						arg = das.Rhs[0]
					}
				}
				if cl, ok := arg.(*ast.CompositeLit); ok {
					for _, e := range cl.Elts {
						s := src(fs4, e)
						subscribed = append(subscribed, strings.TrimPrefix(s, "onchain."))
					}
				}
			}
		}
		return true
	})
	if nSubCalls != 1 || len(subscribed) == 0 {
		return "", fmt.Errorf("expected exactly one chain SubscribeEvent call with a literal list in dosnode/dos_chain_handler.go, found %d (%d entries)", nSubCalls, len(subscribed))
	}

	var b strings.Builder
	b.WriteString(ex.Header("EventTable", "onchain/eth_subscribe.go, onchain/eventMsg.go, onchain/dosproxy/DOSProxy.go, onchain/commitreveal/CommitReveal.go, dosnode/dos_chain_handler.go"))
	b.WriteString(`namespace Dos.Gen.EventTable

/-- where the value of a node-struct field comes from (` + "`i`" + ` is the binding event) -/
inductive Src where
  | field (name : String)          -- ` + "`i.<name>`" + `
  | mapAddrBytes (name : String)   -- slice built by ` + "`for _, p := range i.<name> { … append(…, p.Bytes()) }`" + `
  | other (text : String)          -- anything else, verbatim
  deriving DecidableEq, Repr

structure Entry where
  table : String
  key : String                       -- index constant used as the key of the table literal
  index : Nat                        -- its value
  binding : String                   -- element type of transitChan
  watchRecv : String                 -- receiver and arguments of the Watch call
  watch : String                     -- Watch method called
  target : String                    -- node struct built (` + "`l := &T{…}`" + `)
  assigns : List (String × Src)      -- its literal
  commonType : String                -- ` + "`log = &T{…}`" + `
  common : List (String × String)    -- its literal, source text
  sent : String                      -- what is sent on ` + "`out`" + `
  counts : Nat × Nat × Nat           -- number of Watch calls, ` + "`l :=`" + ` literals, ` + "`log =`" + ` literals in the entry
  errs : List (String × String × String)  -- every OnchainError literal: site (watch | subErr | …), call it is passed to, Idx expression
  body : List String                 -- the WHOLE entry function as go/printer prints it, line by line (white space normalised); placeholders: &«L» the literal assigned to l, «B» the binding type, «W» the Watch method
  deriving DecidableEq, Repr

structure StructDef where
  name : String
  fields : List (String × String)
  deriving DecidableEq, Repr

structure WatchMethod where
  pkg : String
  name : String
  sink : String      -- element type of the sink channel
  event : String     -- ABI event name passed to WatchLogs
  deriving DecidableEq, Repr

`)
	b.WriteString("def consts : List (String × Nat) := [\n")
	for i, k := range cnames {
		sep := ","
		if i == len(cnames)-1 {
			sep = ""
		}
		fmt.Fprintf(&b, "  (%s, %s)%s\n", ex.LeanStr(k), consts[k], sep)
	}
	b.WriteString("]\n\n")
	pairList := func(ps [][2]string, quoteSecond bool) string {
		var s []string
		for _, p := range ps {
			if quoteSecond {
				s = append(s, fmt.Sprintf("(%s, %s)", ex.LeanStr(p[0]), ex.LeanStr(p[1])))
			} else {
				s = append(s, fmt.Sprintf("(%s, %s)", ex.LeanStr(p[0]), p[1]))
			}
		}
		return "[" + strings.Join(s, ", ") + "]"
	}
	tripleList := func(ts [][3]string) string {
		var s []string
		for _, t := range ts {
			s = append(s, fmt.Sprintf("(%s, %s, %s)", ex.LeanStr(t[0]), ex.LeanStr(t[1]), ex.LeanStr(t[2])))
		}
		return "[" + strings.Join(s, ", ") + "]"
	}
	strList := func(ss []string) string {
		var q []string
		for _, x := range ss {
			q = append(q, ex.LeanStr(x))
		}
		return "[" + strings.Join(q, ",\n      ") + "]"
	}
	b.WriteString("def entries : List Entry := [\n")
	for i, e := range entries {
		sep := ","
		if i == len(entries)-1 {
			sep = ""
		}
		fmt.Fprintf(&b, "  { table := %s, key := %s, index := %s, binding := %s,\n    watchRecv := %s, watch := %s, target := %s,\n    assigns := %s,\n    commonType := %s,\n    common := %s,\n    sent := %s, counts := (%d, %d, %d),\n    errs := %s,\n    body := %s }%s\n",
			ex.LeanStr(e.table), ex.LeanStr(e.key), e.index, ex.LeanStr(e.binding), ex.LeanStr(e.watchRecv), ex.LeanStr(e.watch), ex.LeanStr(e.target),
			pairList(e.assigns, false), ex.LeanStr(e.commonType), pairList(e.common, true), ex.LeanStr(e.sent), e.nWatch, e.nTarget, e.nCommon, tripleList(e.errs), strList(e.body), sep)
	}
	b.WriteString("]\n\n")
	structList := func(name string, sds []structDef) {
		fmt.Fprintf(&b, "def %s : List StructDef := [\n", name)
		for i, sd := range sds {
			sep := ","
			if i == len(sds)-1 {
				sep = ""
			}
			fmt.Fprintf(&b, "  { name := %s, fields := %s }%s\n", ex.LeanStr(sd.name), pairList(sd.fields, true), sep)
		}
		b.WriteString("]\n\n")
	}
	structList("nodeStructs", node)
	structList("bindingStructs", bind)
	b.WriteString("def watchMethods : List WatchMethod := [\n")
	for i, w := range watches {
		sep := ","
		if i == len(watches)-1 {
			sep = ""
		}
		fmt.Fprintf(&b, "  { pkg := %s, name := %s, sink := %s, event := %s }%s\n", ex.LeanStr(w[0]), ex.LeanStr(w[1]), ex.LeanStr(w[2]), ex.LeanStr(w[3]), sep)
	}
	b.WriteString("]\n\n")
	// how an endpoint index gets into a context, and what the consumer's DisconnectWs does with it
	fsP, fP, err := ex.Parse(filepath.Join(repo, "onchain", "eth_proxy.go"))
	if err != nil {
		return "", err
	}
	var withValues, appends [][2]string
	if fd := ex.FuncDecl(fP, "ethAdaptor", "Connect"); fd != nil {
		ast.Inspect(fd.Body, func(n ast.Node) bool {
			switch x := n.(type) {
			case *ast.CallExpr:
				if src(fsP, x.Fun) == "context.WithValue" && len(x.Args) == 3 {
					withValues = append(withValues, [2]string{strings.Trim(src(fsP, x.Args[1]), "\""), src(fsP, x.Args[2])})
				}
			case *ast.AssignStmt:
				if len(x.Lhs) == 1 && len(x.Rhs) == 1 {
					if call, ok := x.Rhs[0].(*ast.CallExpr); ok && src(fsP, call.Fun) == "append" && len(call.Args) == 2 && src(fsP, call.Args[0]) == src(fsP, x.Lhs[0]) {
						l := src(fsP, x.Lhs[0])
						if l == "e.wsCtxes" || l == "e.wsCancels" || l == "e.ctxes" || l == "e.cancels" {
							appends = append(appends, [2]string{l, src(fsP, call.Args[1])})
						}
					}
				}
			}
			return true
		})
	}
	disc := "(missing)"
	if fd := ex.FuncDecl(fP, "ethAdaptor", "DisconnectWs"); fd != nil {
		disc = src(fsP, fd.Body)
	}
	var tableCalls []string
	if fd := ex.FuncDecl(f, "ethAdaptor", "SubscribeEvent"); fd != nil {
		ast.Inspect(fd.Body, func(n ast.Node) bool {
			if call, ok := n.(*ast.CallExpr); ok {
				if ix, ok := call.Fun.(*ast.IndexExpr); ok {
					tableCalls = append(tableCalls, src(fset, ix.X)+"("+src(fset, call.Args[0])+", "+src(fset, call.Args[1])+")")
				}
			}
			return true
		})
	}
	fmt.Fprintf(&b, "/-- context key read by getIndex / getWsIndex -/\ndef getIndexKey : String := %s\ndef getWsIndexKey : String := %s\n\n", ex.LeanStr(ctxValueKey(fset, f, "getIndex")), ex.LeanStr(ctxValueKey(fset, f, "getWsIndex")))
	fmt.Fprintf(&b, "/-- context.WithValue(ctx, key, value) calls of Connect, in order -/\ndef connectWithValues : List (String × String) := %s\n\n", pairList(withValues, true))
	fmt.Fprintf(&b, "/-- appends to the endpoint context / cancel slices in Connect, in order -/\ndef connectAppends : List (String × String) := %s\n\n", pairList(appends, true))
	fmt.Fprintf(&b, "/-- body of DisconnectWs(idx) -/\ndef disconnectWsBody : String := %s\n\n", ex.LeanStr(disc))
	b.WriteString("/-- how SubscribeEvent calls the table entries -/\ndef subscribeTableCalls : List String := [")
	for i, c := range tableCalls {
		if i > 0 {
			b.WriteString(", ")
		}
		b.WriteString(ex.LeanStr(c))
	}
	b.WriteString("]\n\n")
	b.WriteString("/-- the list the node passes to SubscribeEvent (dosnode/dos_chain_handler.go) -/\ndef subscribed : List String := [")
	for i, s := range subscribed {
		if i > 0 {
			b.WriteString(", ")
		}
		b.WriteString(ex.LeanStr(s))
	}
	b.WriteString("]\n\n")
	// firstEvent: the de-duplication window and the whole function
	wargs, wms, wassigned := dedupWindow(fset, f)
	b.WriteString("/-- every timer call of firstEvent with its argument -/\ndef dedupTimerCalls : List String := [")
	for i, a := range wargs {
		if i > 0 {
			b.WriteString(", ")
		}
		b.WriteString(ex.LeanStr(a))
	}
	b.WriteString("]\n\n")
	fmt.Fprintf(&b, "/-- that argument (through the package-level variable it names) evaluated, in milliseconds (0: not a constant product) -/\ndef dedupWindowMillis : Nat := %d\n\n", wms)
	fmt.Fprintf(&b, "/-- assignments to that variable anywhere in eth_subscribe.go (its declaration aside) -/\ndef dedupWindowAssignments : Nat := %d\n\n", wassigned)
	feBody := []string{"(missing)"}
	if fd := ex.FuncDecl(fNC, "", "firstEvent"); fd != nil {
		feBody = lines(fsetNC, fd)
	}
	fmt.Fprintf(&b, "/-- firstEvent, whole function (go/printer, line by line, white space normalised) -/\ndef firstEventBody : List String := %s\n\n", strList(feBody))
	b.WriteString("end Dos.Gen.EventTable\n")
	return b.String(), nil
}

/-
C14: `close_discipline_safe` — a channel whose close discipline passes W1 (N, A, B or C) is never
sent on or closed after it was closed, in any reachable state, under any schedule and any
cancellation instant; a wait group that passes W5 never goes negative.

All proofs are invariants over `Reach`; they use only the edge-local checks of `PipeWf`.
-/
import DosModel.Proofs.PipeBasic

namespace Dos.Pipe

/-! ### generic -/

theorem reach_inv {p : Pipeline} (I : State → Prop) (h0 : I (init p))
    (hs : ∀ s e s', Reach p s → I s → Step p s e (.run s') → I s') : ∀ s, Reach p s → I s := by
  intro s hr
  induction hr with
  | init => exact h0
  | step hr hst ih => exact hs _ _ _ hr ih hst

theorem init_closed (p : Pipeline) (c : Ch) : (init p).closed c = false := by
  unfold init State.closed
  simp only [List.getElem?_map]
  cases p.chans[c]? <;> rfl

theorem init_len (p : Pipeline) (c : Ch) : (init p).len c = 0 := by
  unfold init State.len
  simp only [List.getElem?_map]
  cases p.chans[c]? <;> rfl

theorem init_gs (p : Pipeline) (g : Gi) :
    (init p).gs[g]? = (p.gs[g]?).map (fun gr => if gr.static then GSt.at 0 else GSt.idle) := by
  simp [init]

theorem crashOf_send {s : State} {l : Lab} {c : Ch} (h : crashOf s l = some (.sendClosed c)) :
    l = .send c ∧ s.closed c = true := by
  cases l <;> simp [crashOf] at h
  case send c' => exact ⟨by rw [h.2], by rw [← h.2]; exact h.1⟩

theorem crashOf_close {s : State} {l : Lab} {c : Ch} (h : crashOf s l = some (.closeClosed c)) :
    l = .close c ∧ s.closed c = true := by
  cases l <;> simp [crashOf] at h
  case close c' => exact ⟨by rw [h.2], by rw [← h.2]; exact h.1⟩

theorem crashOf_wg {s : State} {l : Lab} {w : Nat} (h : crashOf s l = some (.wgNegative w)) :
    l = .wgDone w ∧ s.wg w = 0 := by
  cases l <;> simp [crashOf] at h
  case wgDone w' => exact ⟨by rw [h.2], by rw [← h.2]; exact h.1⟩

/-! ### where a goroutine is after a step -/

theorem effect_gs_length (s : State) (l : Lab) : (effect s l).gs.length = s.gs.length := by
  rw [effect_gs]
  cases l <;> simp
  case spawn g => split <;> simp

theorem effect_gs_get (s : State) (l : Lab) (x : Gi) :
    (effect s l).gs[x]? = if l = .spawn x ∧ s.gs[x]? = some GSt.idle then some (GSt.at 0) else s.gs[x]? := by
  rw [effect_gs]
  cases l <;> simp
  case spawn g =>
    by_cases hg : s.gs[g]? = some GSt.idle
    · simp only [hg, if_true, List.getElem?_set]
      by_cases hx : g = x
      · subst hx
        obtain ⟨hlt, heq⟩ := List.getElem?_eq_some_iff.mp hg
        simp [hlt, heq]
      · simp [hx]
    · by_cases hx : g = x
      · subst hx; simp [hg]
      · simp [hg, hx]

/-- the label of the position of a goroutine, for a labeling of its nodes; an idle goroutine
    counts as standing at its entry, an exited one carries no label -/
def labelAt (m : List Bool) : Option GSt → Bool
  | some (.at pc) => mark m pc
  | some .idle => mark m 0
  | _ => false

theorem node_of_gs {p : Pipeline} {h : Gi} {gr : Goroutine} {pc : Pc} {nd : Node}
    (hg : p.gs[h]? = some gr) (hn : p.node h pc = some nd) : gr.nodes[pc]? = some nd := by
  obtain ⟨gr', h1, h2⟩ := node_some hn
  rw [hg] at h1; cases h1; exact h2

/-- A labeling that is closed backwards along the edges never appears out of nothing:
    if goroutine `h` carries the label after a step, it carried it before. -/
theorem labelAt_step {p : Pipeline} {h : Gi} {gr : Goroutine} {seed : Node → Bool} {m : List Bool}
    (hg : p.gs[h]? = some gr) (hm : backClosedOk gr.nodes seed m = true)
    {s s' : State} {e : Ev} (hst : Step p s e (.run s')) (hl : labelAt m (s'.gs[h]?) = true) :
    labelAt m (s.gs[h]?) = true := by
  cases hst with
  | env k hk hd => simpa using hl
  | act g pc nd l n hat hnd hed hgd hdf =>
    rw [State.setG_get] at hl
    by_cases hgh : g = h
    · subst hgh
      rw [if_pos rfl, effect_gs_length] at hl
      have hlt := (List.getElem?_eq_some_iff.mp hat).1
      rw [if_pos hlt] at hl
      rw [hat]
      exact backClosed_edge hm (node_of_gs hg hnd) hed hl
    · rw [if_neg hgh, effect_gs_get] at hl
      split at hl
      · rename_i hc
        rw [hc.2]
        exact hl
      · exact hl
  | sync g pc nd n g' pc' nd' n' c hne hat hnd hed hat' hnd' hed' hcap hcl =>
    rw [State.setG_get] at hl
    by_cases h2 : g' = h
    · subst h2
      have hlt : g' < (s.setG g (.at n)).gs.length := by
        simp; exact (List.getElem?_eq_some_iff.mp hat').1
      rw [if_pos rfl, if_pos hlt] at hl
      rw [hat']
      exact backClosed_edge hm (node_of_gs hg hnd') hed' hl
    · rw [if_neg h2, State.setG_get] at hl
      by_cases h1 : g = h
      · subst h1
        have hlt := (List.getElem?_eq_some_iff.mp hat).1
        rw [if_pos rfl, if_pos hlt] at hl
        rw [hat]
        exact backClosed_edge hm (node_of_gs hg hnd) hed hl
      · rw [if_neg h1] at hl; exact hl
  | exit g pc hat hnd =>
    rw [State.setG_get] at hl
    by_cases hgh : g = h
    · subst hgh
      have hlt := (List.getElem?_eq_some_iff.mp hat).1
      rw [if_pos rfl, if_pos hlt] at hl
      simp [labelAt] at hl
    · rw [if_neg hgh] at hl; exact hl

/-- a step closes `c` only through a `close c` node of some goroutine -/
theorem closed_step {p : Pipeline} {c : Ch} {s s' : State} {e : Ev} (hst : Step p s e (.run s'))
    (h0 : s.closed c = false) (h1 : s'.closed c = true) :
    ∃ g pc n, e = .act g (.close c) ∧ s.gs[g]? = some (.at pc) ∧ p.node g pc = some (.close c n) ∧
      s'.gs[g]? = some (.at n) := by
  cases hst with
  | env k hk hd => simp [h0] at h1
  | act g pc nd l n hat hnd hed hgd hdf =>
    simp only [State.setG_closed, effect_closed, h0, Bool.false_or, Bool.and_eq_true, decide_eq_true_eq] at h1
    obtain ⟨hl, _⟩ := h1
    subst hl
    have := close_node_of_edge hed
    subst this
    refine ⟨g, pc, n, rfl, hat, hnd, ?_⟩
    rw [State.setG_get, if_pos rfl, effect_gs_length, if_pos (List.getElem?_eq_some_iff.mp hat).1]
  | sync g pc nd n g' pc' nd' n' c' hne hat hnd hed hat' hnd' hed' hcap hcl => simp [h0] at h1
  | exit g pc hat hnd => simp [h0] at h1

theorem closed_mono {p : Pipeline} {c : Ch} {s s' : State} {e : Ev} (hst : Step p s e (.run s'))
    (h : s.closed c = true) : s'.closed c = true := by
  cases hst with
  | env k hk hd => simpa using h
  | act g pc nd l n hat hnd hed hgd hdf => simp [effect_closed, h]
  | sync g pc nd n g' pc' nd' n' c' hne hat hnd hed hat' hnd' hed' hcap hcl => simpa using h
  | exit g pc hat hnd => simpa using h

/-! ### discipline N: nobody closes `c` -/

theorem never_closed {p : Pipeline} {c : Ch} (h : discN p c = true) : ∀ s, Reach p s → s.closed c = false := by
  apply reach_inv
  · exact init_closed p c
  · intro s e s' _ ih hst
    cases hcl : s'.closed c with
    | false => rfl
    | true =>
      obtain ⟨g, pc, n, _, _, hnd, _⟩ := closed_step hst ih hcl
      obtain ⟨gr, hg, hn⟩ := node_some hnd
      have : gr.hasClose c = true := hasClose_of_node hn (by simp [Node.closes])
      unfold discN at h
      rw [List.all_eq_true] at h
      have := h gr (List.mem_of_getElem? hg)
      simp_all

theorem safe_N {p : Pipeline} {c : Ch} (h : discN p c = true) :
    ¬ CrashReachable p (.sendClosed c) ∧ ¬ CrashReachable p (.closeClosed c) := by
  constructor
  · rintro ⟨s, e, g, pc, hr, hst⟩
    cases hst with
    | crash g pc nd l n k hat hnd hed hk =>
      have := (crashOf_send hk).2
      rw [never_closed h s hr] at this; cases this
  · rintro ⟨s, e, g, pc, hr, hst⟩
    cases hst with
    | crash g pc nd l n k hat hnd hed hk =>
      have := (crashOf_close hk).2
      rw [never_closed h s hr] at this; cases this

/-! ### discipline A: one goroutine owns every send and close of `c` -/

theorem closeOnce_parts {gr : Goroutine} {c : Ch} (h : closeOnceOk gr c = true) :
    backClosedOk gr.nodes (Node.opsOn c) (mayOp gr c) = true ∧
    ∀ (pc n : Pc), gr.nodes[pc]? = some (Node.close c n) → mark (mayOp gr c) n = false := by
  unfold closeOnceOk at h
  simp only [Bool.and_eq_true] at h
  refine ⟨h.1, ?_⟩
  intro pc n hn
  have := all_nodes h.2 hn
  simpa using this

/-- the invariant of disciplines A and B for the closer `h`: once `c` is closed, `h` is past
    every operation on `c` -/
theorem closer_past_ops {p : Pipeline} {c : Ch} {h : Gi} {gr : Goroutine}
    (hg : p.gs[h]? = some gr) (hok : closeOnceOk gr c = true)
    (honly : ∀ g gr', p.gs[g]? = some gr' → gr'.hasClose c = true → g = h) :
    ∀ s, Reach p s → s.closed c = true → labelAt (mayOp gr c) (s.gs[h]?) = false := by
  obtain ⟨hback, hclose⟩ := closeOnce_parts hok
  apply reach_inv (I := fun s => s.closed c = true → labelAt (mayOp gr c) (s.gs[h]?) = false)
  · intro hc; rw [init_closed] at hc; cases hc
  · intro s e s' _ ih hst hc'
    cases hc : s.closed c with
    | false =>
      obtain ⟨g, pc, n, _, _, hnd, hat'⟩ := closed_step hst hc hc'
      obtain ⟨gr', hg', hn⟩ := node_some hnd
      have hgh : g = h := honly g gr' hg' (hasClose_of_node hn (by simp [Node.closes]))
      subst hgh
      rw [hg] at hg'; cases hg'
      rw [hat']
      exact hclose pc n hn
    | true =>
      cases hl : labelAt (mayOp gr c) (s'.gs[h]?) with
      | false => rfl
      | true =>
        have := labelAt_step hg hback hst hl
        rw [ih hc] at this; cases this

theorem safe_A {p : Pipeline} {c : Ch} (h : discA p c = true) :
    ¬ CrashReachable p (.sendClosed c) ∧ ¬ CrashReachable p (.closeClosed c) := by
  unfold discA at h
  split at h
  · -- nobody operates on `c`
    rename_i hnil
    apply safe_N
    unfold discN
    rw [List.all_eq_true]
    intro gr hm
    obtain ⟨g, hg⟩ := List.getElem?_of_mem hm
    have := gsWhere_nil hnil hg
    simp only [Goroutine.hasOps, List.any_eq_false] at this
    simp only [Goroutine.hasClose, Bool.not_eq_true', List.any_eq_false]
    intro nd hnd
    have := this nd hnd
    simp only [Node.opsOn, Bool.or_eq_true, not_or] at this
    simpa using this.1
  · rename_i h0 hsing
    split at h
    · rename_i gr hg
      have honlyOps : ∀ g gr', p.gs[g]? = some gr' → gr'.hasOps c = true → g = h0 :=
        fun g gr' hg' hf => gsWhere_singleton hsing hg' hf
      have honly : ∀ g gr', p.gs[g]? = some gr' → gr'.hasClose c = true → g = h0 := by
        intro g gr' hg' hf
        apply honlyOps g gr' hg'
        simp only [Goroutine.hasClose, List.any_eq_true] at hf
        obtain ⟨nd, hm, hcl⟩ := hf
        simp only [Goroutine.hasOps, List.any_eq_true]
        exact ⟨nd, hm, by simp [Node.opsOn, hcl]⟩
      have hinv := closer_past_ops hg h honly
      obtain ⟨hback, _⟩ := closeOnce_parts h
      -- a crash on `c` needs a goroutine at a node that operates on `c`: that is `h0`, marked
      have key : ∀ s g pc nd, Reach p s → s.closed c = true → s.gs[g]? = some (.at pc) →
          p.node g pc = some nd → nd.opsOn c = true → False := by
        intro s g pc nd hr hc hat hnd hop
        obtain ⟨gr', hg', hn⟩ := node_some hnd
        have hgh := honlyOps g gr' hg' (hasOps_of_node hn hop)
        subst hgh
        rw [hg] at hg'; cases hg'
        have h1 := backClosed_seed hback hn hop
        have h2 := hinv s hr hc
        rw [hat] at h2
        simp only [labelAt] at h2
        rw [h1] at h2; cases h2
      constructor
      · rintro ⟨s, e, g, pc, hr, hst⟩
        cases hst with
        | crash g pc nd l n k hat hnd hed hk =>
          obtain ⟨hl, hc⟩ := crashOf_send hk
          subst hl
          exact key s g pc nd hr hc hat hnd (by simp [Node.opsOn, sendsOn_of_edge hed])
      · rintro ⟨s, e, g, pc, hr, hst⟩
        cases hst with
        | crash g pc nd l n k hat hnd hed hk =>
          obtain ⟨hl, hc⟩ := crashOf_close hk
          subst hl
          exact key s g pc nd hr hc hat hnd (by simp [Node.opsOn, closes_of_edge hed])
    · cases h
  · cases h

end Dos.Pipe

// Package c13: the share collector (dosnode/dos_query_handler.go queryLoop) run
// for real, with its three inputs (peer messages, registrations, request
// contexts) serialised by the harness so that the loop processes exactly the
// scripted order.
//
// Case line:   loop <rid0;rid1;…> <ev,ev,…>
//
//	rids: hex request ids ("-" = the empty id, which is what request id 0 encodes to)
//	ev:   a<j>     a vss.Signature for request id j arrives from a peer (tag = position of the event)
//	      r<h>.<j> pipeline instance h registers for request id j (fresh context + reply channel per instance)
//	      c<h>     instance h completes / is cancelled: its recovery stage is gone, then its context is cancelled
//	      x        a peer message that is not a vss.Signature
//	      w        the watchdog ticks (schedules with a w run VerifQueryLoopTick, the copy of queryLoop with an
//	               injected tick channel whose statement skeleton a theorem identifies with queryLoop's)
//
// Output:      h<h>=<tag,tag,…>;…   what each instance received on its reply channel, in order
//
// Case line:   stage <rid0;rid1;…> <ev,ev,…>      (completion of a request: Review A #3, finding F20)
//
//	the receiver of every instance is the REAL recovery stage (dosnode recoverSign through the hook
//	VerifRecoverSign) of a 1-of-1 group, and every arrival a<j> carries a VALID share on a content that
//	names the arrival: the stage reports on the first share it is handed, returns, and its query context
//	stays live until c<h> / the end of the schedule (handleQuery cancels only after the chain call).
//	Every later share for that request must still be TAKEN from the loop (drainSigns since /repo 3a1c0bc);
//	before, the loop waited in that send and no other request was served: oracle collector-blocked.
//
// Output:      h<h>=<tag> | h<h>=-    the arrival each instance's stage reported with
//
// Case line:   inc <rid0;rid1;…> <ev,ev,…>        (incarnations of ONE request id: registered, completed /
//
//	cancelled, registered again - shares of the earlier incarnation arriving late)
//
//	2-of-2 group, every instance has the real recoverSign as its stage and an OWN share on a content class
//	(fed to the stage before it registers, as dispatchSign does): r<h>.<j>.<c> registers instance h for id j with
//	own content class c; a<j>.<c> the peer's valid share for id j on content class c arrives; c<h>; x.
//	The loop routes by request id only; the stage counts a share only if its content (and type) is its own.
//	Oracle: a pipeline never reports another content than its own (a share of the earlier incarnation is not
//	counted by the later one unless it is a share on the later one's content); at most one report; a pipeline
//	that is the last to register its id, registered once and not cancelled reports when a share on its
//	content arrives for its id after its registration.
//
// Output:      h<h>=c<class> | h<h>=-
package c13

import (
	"bytes"
	"context"
	"fmt"
	"os"
	osexec "os/exec"
	"sort"
	"strconv"
	"strings"
	"sync"
	"sync/atomic"
	"time"

	"github.com/golang/protobuf/proto"

	"github.com/DOSNetwork/core/dosnode"
	"github.com/DOSNetwork/core/log"
	"github.com/DOSNetwork/core/share"
	vss "github.com/DOSNetwork/core/share/vss/pedersen"
	"github.com/DOSNetwork/core/sign/tbls"
	"github.com/DOSNetwork/core/suites"
	"github.com/dedis/kyber"

	"verifharness/internal/doubles"
	"verifharness/internal/h"
)

func init() {
	log.Init([]byte{0xc1, 0x3})
	h.Register(&h.Prop{
		ID: "C13",
		Rule: "cases: every interleaving (exhaustive) of k<=4 (quick) / k<=5 (thorough) share arrivals over <=3 request ids with the registrations, " +
			"cancellations and re-registrations of those requests, within the stated event budget, plus random longer schedules and schedules with the empty request id (child process); " +
			"stage lines: every interleaving of k<=3 arrivals over 2 request ids with registrations / cancellations, the receiver being the real recoverSign (reports, returns, must keep draining); " +
			"non-trivial = the schedule has at least one arrival and one registration; distinct = distinct case line",
		Gen:  gen,
		Exec: exec,
		// the enumerated spaces are complete within their stated bounds; the random long schedules are samples
		Exhaustive: func(line string) bool { return !randomLines[line] },
	})
}

type ev struct {
	kind byte // a r c x
	h, j int
	c    int // inc lines: content class
}

func parseInc(w []string) (rids [][]byte, evs []ev) {
	for _, s := range strings.Split(w[1], ";") {
		rids = append(rids, h.UnHex(s))
	}
	if w[2] == "-" {
		return
	}
	for _, t := range strings.Split(w[2], ",") {
		p := strings.Split(t[1:], ".")
		switch {
		case t[0] == 'a' && len(p) == 2:
			evs = append(evs, ev{kind: 'a', j: h.Atoi(p[0]), c: h.Atoi(p[1])})
		case t[0] == 'r' && len(p) == 3:
			evs = append(evs, ev{kind: 'r', h: h.Atoi(p[0]), j: h.Atoi(p[1]), c: h.Atoi(p[2])})
		case t[0] == 'c' && len(p) == 1:
			evs = append(evs, ev{kind: 'c', h: h.Atoi(p[0])})
		case t == "x":
			evs = append(evs, ev{kind: 'x'})
		default:
			panic("bad inc event " + t)
		}
		if e := evs[len(evs)-1]; e.j >= len(rids) {
			panic("bad rid index")
		}
	}
	return
}

func parse(line string) (rids [][]byte, evs []ev) {
	w := strings.Fields(line)
	if len(w) == 3 && w[0] == "inc" {
		return parseInc(w)
	}
	if len(w) != 3 || (w[0] != "loop" && w[0] != "stage") {
		panic("bad case line")
	}
	for _, s := range strings.Split(w[1], ";") {
		rids = append(rids, h.UnHex(s))
	}
	if w[2] == "-" {
		return
	}
	for _, t := range strings.Split(w[2], ",") {
		switch t[0] {
		case 'a':
			evs = append(evs, ev{kind: 'a', j: h.Atoi(t[1:])})
		case 'r':
			p := strings.Split(t[1:], ".")
			evs = append(evs, ev{kind: 'r', h: h.Atoi(p[0]), j: h.Atoi(p[1])})
		case 'c':
			evs = append(evs, ev{kind: 'c', h: h.Atoi(t[1:])})
		case 'x':
			evs = append(evs, ev{kind: 'x'})
		case 'w':
			evs = append(evs, ev{kind: 'w'})
		default:
			panic("bad event " + t)
		}
		if e := evs[len(evs)-1]; e.j >= len(rids) {
			panic("bad rid index")
		}
	}
	return
}

type got struct {
	tag int
	rid []byte
}

type inst struct {
	ctx    context.Context
	cancel context.CancelFunc
	reply  chan *vss.Signature
	stop   chan struct{}
	wg     sync.WaitGroup
	recv   bool
	gone   bool
	mu     sync.Mutex
	got    []got
	rids   map[int]bool // request ids it registered under
	regs   int
	cancAt int
	regAt  int // position of the first registration
	// number of shares received when the instance was cancelled
	gotAtCancel int
	class       int // inc lines: own content class
}

var quiet = doubles.NewLogger()

// randomLines: the sampled (not enumerated) schedules of this process' generator run
var randomLines = map[string]bool{}

// run drives the real queryLoop through the schedule.
// stuckCases counts cases in which the loop stopped consuming inputs.
var stuckCases int32

// patience multiplies every wall-clock bound of the harness. No verdict and no output depends on a bound
// being MET in time - bounds only end a case whose loop or stage is really stuck - and a case that ends with a
// verdict is run again, alone on a fresh loop with patience 10, before the verdict is reported (exec).
var patience time.Duration = 1

func run(rids [][]byte, evs []ev) map[int]*inst {
	id := []byte("verif-c13-node-00001")
	pd := doubles.NewP2P(id, 0)
	node := dosnode.VerifNewNode(id, pd, nil, nil, 0, quiet)
	loopDone := make(chan struct{})
	tick := make(chan time.Time)
	ticks := false
	for _, e := range evs {
		ticks = ticks || e.kind == 'w'
	}
	go func() {
		if ticks {
			node.VerifQueryLoopTick(tick)
		} else {
			node.VerifQueryLoop()
		}
		close(loopDone)
	}()
	insts := map[int]*inst{}
	get := func(k int) *inst {
		if in, ok := insts[k]; ok {
			return in
		}
		in := &inst{reply: make(chan *vss.Signature), stop: make(chan struct{}), rids: map[int]bool{}, cancAt: -1}
		in.ctx, in.cancel = context.WithCancel(context.Background())
		insts[k] = in
		return in
	}
	stopRecv := func(in *inst) {
		if in.recv && !in.gone {
			close(in.stop)
			in.wg.Wait()
		}
		in.gone = true
	}
	// input hands one input to the loop and returns when the loop has taken it
	input := func(op func()) { op() }
	deliver := func(m proto.Message) { input(func() { pd.Deliver([]byte("peer"), m) }) }
	for i, e := range evs {
		switch e.kind {
		case 'a':
			deliver(&vss.Signature{RequestId: rids[e.j], Nonce: []byte(strconv.Itoa(i)), Content: []byte{1}, Signature: []byte{2}})
		case 'x':
			deliver(&vss.PublicKey{})
		case 'w':
			input(func() { tick <- time.Time{} })
		case 'r':
			in := get(e.h)
			in.rids[e.j] = true
			if in.regs == 0 {
				in.regAt = i
			}
			in.regs++
			input(func() { node.VerifRegisterChan(in.ctx, string(rids[e.j]), 2, in.reply) })
			if !in.recv && !in.gone { // the recovery stage starts reading its input
				in.recv = true
				in.wg.Add(1)
				go func() {
					defer in.wg.Done()
					for {
						select {
						case s, ok := <-in.reply:
							if !ok { // closed by the watchdog sweep
								return
							}
							t, _ := strconv.Atoi(string(s.Nonce))
							in.mu.Lock()
							in.got = append(in.got, got{tag: t, rid: s.RequestId})
							in.mu.Unlock()
						case <-in.stop:
							return
						}
					}
				}()
			}
		case 'c':
			in := get(e.h)
			// a cancellation is not an input of the loop: make sure the loop has finished the previous
			// event (e.g. the flush of a registration) before it happens. The sync message is one the loop ignores.
			deliver(&vss.PublicKey{})
			stopRecv(in) // recoverSign has returned …
			in.cancel()  // … and handleQuery's deferred cancel ran
			if in.cancAt < 0 {
				in.cancAt = i
				in.gotAtCancel = len(in.got)
			}
		}
	}
	// sentinel: once the loop takes it, every scripted event has been processed completely
	deliver(&vss.PublicKey{})
	for _, in := range insts {
		stopRecv(in)
		in.cancel()
	}
	node.VerifCancel()
	<-loopDone
	return insts
}

// ---------------------------------------------------------------- stage lines: the real recoverSign as receiver

var (
	suite    = suites.MustFind("bn256")
	keyOnce  sync.Once
	keyPub   *share.PubPoly
	keyShare *share.PriShare
)

// a 1-of-1 group: one coefficient, one share; threshold 1
func oneOfOne() (*share.PubPoly, *share.PriShare) {
	keyOnce.Do(func() {
		sc := suite.G2().Scalar().SetInt64(0x5eed13)
		pri := share.CoefficientsToPriPoly(suite.G2(), []kyber.Scalar{sc})
		keyPub = pri.Commit(suite.G2().Point().Base())
		keyShare = pri.Shares(1)[0]
	})
	return keyPub, keyShare
}

// stageContent: 2 bytes naming the arrival, then 20 address bytes (recoverSign strips addrLen)
func stageContent(tag int) []byte {
	c := []byte{byte(tag >> 8), byte(tag)}
	return append(c, bytes.Repeat([]byte{0xad}, 20)...)
}

func runStage(rids [][]byte, evs []ev) map[int]*inst {
	pub, sh := oneOfOne()
	id := []byte("verif-c13-node-00002")
	pd := doubles.NewP2P(id, 0)
	node := dosnode.VerifNewNode(id, pd, nil, nil, 0, quiet)
	loopDone := make(chan struct{})
	go func() { node.VerifQueryLoop(); close(loopDone) }()
	insts := map[int]*inst{}
	outClosed := map[int]chan struct{}{}
	reported := map[int]chan struct{}{}
	get := func(k int) *inst {
		if in, ok := insts[k]; ok {
			return in
		}
		in := &inst{reply: make(chan *vss.Signature), rids: map[int]bool{}, cancAt: -1}
		in.ctx, in.cancel = context.WithCancel(context.Background())
		insts[k] = in
		return in
	}
	deliver := func(m proto.Message) { pd.Deliver([]byte("peer"), m) }
	// settle: every share the loop handed to the stage of `in` so far has been PROCESSED - no clock involved.
	// The loop is idle (it took the sync message), so the stage has received them. A message the stage skips
	// (nil Signature) is now sent on the stage's own input: the unbuffered send completes only when the stage -
	// or, once it returned, its drain - takes it, i.e. after everything before it has been processed and the
	// report, if any, has been handed to the reader below. (Until round 5c this waited up to 20 ms of wall clock
	// for the stage's log event: on a loaded machine the cancel could overtake a report in flight - the false
	// alarm "1 disagreement + lost-or-extra" of the acceptance run.)
	settle := func(k int, in *inst) {
		if outClosed[k] == nil {
			return
		}
		marker := &vss.Signature{}
		select {
		case in.reply <- marker:
		case <-in.ctx.Done():
		case <-time.After(patience * 60 * time.Second):
		}
	}
	for i, e := range evs {
		switch e.kind {
		case 'a':
			c := stageContent(i)
			sg, err := tbls.Sign(suite, sh, c)
			if err != nil {
				panic(err)
			}
			deliver(&vss.Signature{Index: 0, RequestId: rids[e.j], Nonce: []byte(strconv.Itoa(i)), Content: c, Signature: sg})
		case 'x':
			deliver(&vss.PublicKey{})
		case 'r':
			in := get(e.h)
			in.rids[e.j] = true
			if in.regs == 0 {
				in.regAt = i
				// the recovery stage of this pipeline: the REAL recoverSign reading the channel that is registered
				k := e.h
				out, errc := dosnode.VerifRecoverSign(in.ctx, in.reply, suite, pub, 1, 1, quiet)
				oc, rp := make(chan struct{}), make(chan struct{}) // locals: the goroutines below must not read the maps
				outClosed[k], reported[k] = oc, rp
				go func() {
					for range errc {
					}
				}()
				go func() {
					first := true
					for s := range out { // reportQueryResult reads one value; the channel is closed when the stage returns
						in.mu.Lock()
						tag := -1
						if len(s.Content) == 2 {
							tag = int(s.Content[0])<<8 | int(s.Content[1])
						}
						in.got = append(in.got, got{tag: tag, rid: s.RequestId})
						in.mu.Unlock()
						if first {
							close(rp)
							first = false
						}
					}
					close(oc)
				}()
			}
			in.regs++
			node.VerifRegisterChan(in.ctx, string(rids[e.j]), 1, in.reply)
		case 'c':
			in := get(e.h)
			deliver(&vss.PublicKey{}) // sync: the loop has finished the previous event
			settle(e.h, in)
			in.cancel() // handleQuery returned
			if oc := outClosed[e.h]; oc != nil {
				<-oc
			}
			if in.cancAt < 0 {
				in.cancAt = i
				in.mu.Lock()
				in.gotAtCancel = len(in.got)
				in.mu.Unlock()
			}
		}
	}
	deliver(&vss.PublicKey{}) // sentinel
	for k, in := range insts {
		settle(k, in)
	}
	for k, in := range insts {
		in.cancel()
		if oc := outClosed[k]; oc != nil {
			<-oc
		}
	}
	node.VerifCancel()
	<-loopDone
	return insts
}

func renderStage(insts map[int]*inst) string { return render(insts) }

// oracleStage: the property read off the schedule, no model: one report at most per pipeline; it names a
// share that arrived for a request id the pipeline registered under; a pipeline registered once on an id
// nobody else registers, not cancelled, reports with the FIRST share that arrived for that id (before or
// after the registration). That the loop keeps consuming its inputs is checked by the caller (5 s).
func oracleStage(rids [][]byte, evs []ev, insts map[int]*inst) string {
	regsOfRid := map[string]int{}
	for _, e := range evs {
		if e.kind == 'r' {
			regsOfRid[string(rids[e.j])]++
		}
	}
	var ks []int
	for k := range insts {
		ks = append(ks, k)
	}
	sort.Ints(ks)
	for _, k := range ks {
		in := insts[k]
		if len(in.got) > 1 {
			return fmt.Sprintf("second-report: the stage of instance %d emitted %d values", k, len(in.got))
		}
		for _, g := range in.got {
			if g.tag < 0 || g.tag >= len(evs) || evs[g.tag].kind != 'a' {
				return fmt.Sprintf("invented: instance %d reported with tag %d which is not an arrival", k, g.tag)
			}
			ok := false
			for j := range in.rids {
				if bytes.Equal(rids[j], rids[evs[g.tag].j]) && bytes.Equal(g.rid, rids[j]) {
					ok = true
				}
			}
			if !ok {
				return fmt.Sprintf("crossover: instance %d reported with a share for request id %s", k, h.Hex(rids[evs[g.tag].j]))
			}
		}
		if in.regs == 1 && in.cancAt < 0 {
			var j int
			for jj := range in.rids {
				j = jj
			}
			if regsOfRid[string(rids[j])] == 1 {
				first := -1
				for i, e := range evs {
					if e.kind == 'a' && bytes.Equal(rids[e.j], rids[j]) {
						first = i
						break
					}
				}
				switch {
				case first >= 0 && len(in.got) == 0:
					return fmt.Sprintf("lost-or-extra: instance %d (request %d) never reported although share %d arrived for it", k, j, first)
				case first >= 0 && in.got[0].tag != first:
					return fmt.Sprintf("lost-or-extra: instance %d (request %d) reported with arrival %d, the first one was %d", k, j, in.got[0].tag, first)
				case first < 0 && len(in.got) > 0:
					return fmt.Sprintf("invented: instance %d reported although no share arrived for its request", k)
				}
			}
		}
	}
	return ""
}

// ---------------------------------------------------------------- inc lines: incarnations of one request id

var (
	key2Once sync.Once
	key2Pub  *share.PubPoly
	key2Sh   []*share.PriShare
	incMu    sync.Mutex
	incSigs  = map[[2]int][]byte{}
)

func twoOfTwo() (*share.PubPoly, []*share.PriShare) {
	key2Once.Do(func() {
		pri := share.CoefficientsToPriPoly(suite.G2(), []kyber.Scalar{suite.G2().Scalar().SetInt64(0x5eed14), suite.G2().Scalar().SetInt64(0x5eed15)})
		key2Pub = pri.Commit(suite.G2().Point().Base())
		key2Sh = pri.Shares(2)
	})
	return key2Pub, key2Sh
}

func incContent(c int) []byte { return append([]byte{byte(c)}, bytes.Repeat([]byte{0xad}, 20)...) }

// incShare: member m's valid share on content class c
func incShare(m, c int) []byte {
	incMu.Lock()
	defer incMu.Unlock()
	if s, ok := incSigs[[2]int{m, c}]; ok {
		return s
	}
	_, sh := twoOfTwo()
	s, err := tbls.Sign(suite, sh[m], incContent(c))
	if err != nil {
		panic(err)
	}
	incSigs[[2]int{m, c}] = s
	return s
}

func runInc(rids [][]byte, evs []ev) map[int]*inst {
	pub, _ := twoOfTwo()
	id := []byte("verif-c13-node-00003")
	pd := doubles.NewP2P(id, 0)
	node := dosnode.VerifNewNode(id, pd, nil, nil, 0, quiet)
	loopDone := make(chan struct{})
	go func() { node.VerifQueryLoop(); close(loopDone) }()
	insts := map[int]*inst{}
	outClosed := map[int]chan struct{}{}
	get := func(k int) *inst {
		if in, ok := insts[k]; ok {
			return in
		}
		in := &inst{reply: make(chan *vss.Signature), rids: map[int]bool{}, cancAt: -1, class: -1}
		in.ctx, in.cancel = context.WithCancel(context.Background())
		insts[k] = in
		return in
	}
	deliver := func(m proto.Message) { pd.Deliver([]byte("peer"), m) }
	// settle: a message the stage skips (nil Signature) is sent on the stage's own input; the unbuffered send
	// completes only when the stage (or, once it returned, its drain) takes it, i.e. after everything the loop
	// handed over before has been processed - and a report, if any, has been emitted.
	settle := func(k int, in *inst) {
		if outClosed[k] == nil {
			return
		}
		select {
		case in.reply <- &vss.Signature{}:
		case <-outClosed[k]:
			select {
			case in.reply <- &vss.Signature{}:
			case <-in.ctx.Done():
			case <-time.After(patience * 60 * time.Second):
			}
		case <-time.After(patience * 60 * time.Second):
		}
	}
	for i, e := range evs {
		switch e.kind {
		case 'a':
			deliver(&vss.Signature{Index: 0, RequestId: rids[e.j], Nonce: []byte(strconv.Itoa(i)), Content: incContent(e.c), Signature: incShare(1, e.c)})
		case 'x':
			deliver(&vss.PublicKey{})
		case 'r':
			in := get(e.h)
			in.rids[e.j] = true
			if in.regs == 0 {
				in.regAt = i
				in.class = e.c
				k := e.h
				out, errc := dosnode.VerifRecoverSign(in.ctx, in.reply, suite, pub, 2, 2, quiet)
				oc := make(chan struct{}) // local: the goroutine below must not read the map
				outClosed[k] = oc
				go func() {
					for range errc {
					}
				}()
				go func() {
					for s := range out {
						in.mu.Lock()
						cls := -1
						if len(s.Content) == 1 {
							cls = int(s.Content[0])
						}
						in.got = append(in.got, got{tag: cls, rid: s.RequestId})
						in.mu.Unlock()
					}
					close(oc)
				}()
				// dispatchSign: the own share goes to the stage before the registration
				// (in a select with the context, as dispatchSign does: the pipeline may have been cancelled already)
				select {
				case in.reply <- &vss.Signature{Index: 0, RequestId: rids[e.j], Content: incContent(e.c), Signature: incShare(0, e.c)}:
				case <-in.ctx.Done():
				}
			}
			in.regs++
			node.VerifRegisterChan(in.ctx, string(rids[e.j]), 2, in.reply)
		case 'c':
			in := get(e.h)
			deliver(&vss.PublicKey{}) // sync
			settle(e.h, in)
			in.cancel()
			if oc := outClosed[e.h]; oc != nil {
				<-oc
			}
			if in.cancAt < 0 {
				in.cancAt = i
			}
		}
	}
	deliver(&vss.PublicKey{}) // sentinel
	for k, in := range insts {
		settle(k, in)
	}
	for k, in := range insts {
		in.cancel()
		if oc := outClosed[k]; oc != nil {
			<-oc
		}
	}
	node.VerifCancel()
	<-loopDone
	return insts
}

func renderInc(insts map[int]*inst) string {
	var ks []int
	for k := range insts {
		ks = append(ks, k)
	}
	sort.Ints(ks)
	var parts []string
	for _, k := range ks {
		s := "-"
		if g := insts[k].got; len(g) > 0 {
			s = "c" + strconv.Itoa(g[0].tag)
		}
		parts = append(parts, fmt.Sprintf("h%d=%s", k, s))
	}
	if len(parts) == 0 {
		return "none"
	}
	return strings.Join(parts, ";")
}

func oracleInc(rids [][]byte, evs []ev, insts map[int]*inst) string {
	var ks []int
	for k := range insts {
		ks = append(ks, k)
	}
	sort.Ints(ks)
	for _, k := range ks {
		in := insts[k]
		if len(in.got) > 1 {
			return fmt.Sprintf("second-report: the stage of instance %d emitted %d values", k, len(in.got))
		}
		if len(in.got) == 1 && in.got[0].tag != in.class {
			return fmt.Sprintf("foreign-content-counted: instance %d (own content class %d) reported content class %d: a share of another incarnation of the request id was counted", k, in.class, in.got[0].tag)
		}
		if len(in.got) == 1 {
			ok := false
			for j := range in.rids {
				if bytes.Equal(rids[j], in.got[0].rid) {
					ok = true
				}
			}
			if !ok {
				return fmt.Sprintf("crossover: instance %d reported under request id %s", k, h.Hex(in.got[0].rid))
			}
		}
		if in.regs == 1 && in.cancAt < 0 && len(in.got) == 0 {
			var j int
			for jj := range in.rids {
				j = jj
			}
			later, served := false, -1
			for i, e := range evs {
				if i <= in.regAt {
					continue
				}
				if e.kind == 'r' && bytes.Equal(rids[e.j], rids[j]) {
					later = true
				}
				if e.kind == 'a' && !later && bytes.Equal(rids[e.j], rids[j]) && e.c == in.class && served < 0 {
					served = i
				}
			}
			if served >= 0 {
				return fmt.Sprintf("starved: instance %d (own content class %d, registered at event %d, not cancelled) never reported although the peer's share on its content arrived for its id at event %d while it was the registered pipeline", k, in.class, in.regAt, served)
			}
		}
	}
	return ""
}

// enumerateTok: every sequence with exactly k arrivals drawn from arr and each control at most once
func enumerateTok(k int, arr, controls []string, maxLen int, emit func([]string)) {
	used := make([]bool, len(controls))
	var cur []string
	var rec func(n int)
	rec = func(n int) {
		if n == k {
			emit(cur)
		}
		if len(cur) >= maxLen {
			return
		}
		if n < k {
			for _, a := range arr {
				cur = append(cur, a)
				rec(n + 1)
				cur = cur[:len(cur)-1]
			}
		}
		for i, c := range controls {
			if used[i] {
				continue
			}
			used[i] = true
			cur = append(cur, c)
			rec(n)
			cur = cur[:len(cur)-1]
			used[i] = false
		}
	}
	rec(0)
}

func render(insts map[int]*inst) string {
	var ks []int
	for k := range insts {
		ks = append(ks, k)
	}
	sort.Ints(ks)
	var parts []string
	for _, k := range ks {
		var ts []string
		for _, g := range insts[k].got {
			ts = append(ts, strconv.Itoa(g.tag))
		}
		s := "-"
		if len(ts) > 0 {
			s = strings.Join(ts, ",")
		}
		parts = append(parts, fmt.Sprintf("h%d=%s", k, s))
	}
	if len(parts) == 0 {
		return "none"
	}
	return strings.Join(parts, ";")
}

// oracle: the property itself, read off the schedule (no model involved).
func oracle(rids [][]byte, evs []ev, insts map[int]*inst) string {
	regsOfRid := map[int]int{}
	for _, e := range evs {
		if e.kind == 'r' {
			regsOfRid[e.j]++
		}
	}
	var ks []int
	for k := range insts {
		ks = append(ks, k)
	}
	sort.Ints(ks)
	// each delivery of a peer is handed over at most once, to whomever
	handed := map[int]int{}
	for _, k := range ks {
		for _, g := range insts[k].got {
			if prev, ok := handed[g.tag]; ok && prev != k {
				return fmt.Sprintf("duplicate: arrival %d was handed to instance %d and to instance %d", g.tag, prev, k)
			}
			handed[g.tag] = k
		}
	}
	for _, k := range ks {
		in := insts[k]
		seen := map[int]bool{}
		last := -1
		for _, g := range in.got {
			// no crossover: the share carries a request id this instance registered under
			okRid := false
			for j := range in.rids {
				if bytes.Equal(rids[j], g.rid) {
					okRid = true
				}
			}
			if !okRid {
				return fmt.Sprintf("crossover: instance %d received a share for request id %s", k, h.Hex(g.rid))
			}
			if g.tag < 0 || g.tag >= len(evs) || evs[g.tag].kind != 'a' || !bytes.Equal(rids[evs[g.tag].j], g.rid) {
				return fmt.Sprintf("invented: instance %d received tag %d which is not an arrival for its request", k, g.tag)
			}
			if seen[g.tag] {
				return fmt.Sprintf("duplicate: instance %d received arrival %d twice", k, g.tag)
			}
			seen[g.tag] = true
			if len(in.rids) == 1 && g.tag < last {
				return fmt.Sprintf("reordered: instance %d received arrival %d after %d", k, g.tag, last)
			}
			last = g.tag
		}
		if in.cancAt >= 0 && len(in.got) != in.gotAtCancel {
			return fmt.Sprintf("after-cancel: instance %d received %d share(s) after its cancellation at event %d", k, len(in.got)-in.gotAtCancel, in.cancAt)
		}
		// a live request is served from its registration on, whatever happened to earlier pipelines of the
		// same request id: registered once, never cancelled, nobody registers that id later
		if in.regs == 1 && in.cancAt < 0 {
			var j int
			for jj := range in.rids {
				j = jj
			}
			later := false
			var want []int
			for i, e := range evs {
				if i <= in.regAt {
					continue
				}
				if e.kind == 'r' && bytes.Equal(rids[e.j], rids[j]) {
					later = true
				}
				if e.kind == 'a' && bytes.Equal(rids[e.j], rids[j]) {
					want = append(want, i)
				}
			}
			if !later {
				var have []int
				for _, g := range in.got {
					if g.tag > in.regAt {
						have = append(have, g.tag)
					}
				}
				if fmt.Sprint(have) != fmt.Sprint(want) {
					return fmt.Sprintf("starved: instance %d (request %d, registered at event %d, not cancelled, last to register that id) received %v of the shares %v that arrived after its registration", k, j, in.regAt, have, want)
				}
			}
		}
		// exactly once per delivery: registered once, its request id registered by nobody else, never cancelled
		if in.regs == 1 && in.cancAt < 0 {
			var j int
			for jj := range in.rids {
				j = jj
			}
			same := 0 // registrations under an equal request id (two indices may denote equal ids)
			for jj, n := range regsOfRid {
				if bytes.Equal(rids[jj], rids[j]) {
					same += n
				}
			}
			if same == 1 {
				var want []int
				for i, e := range evs {
					if e.kind == 'a' && bytes.Equal(rids[e.j], rids[j]) {
						want = append(want, i)
					}
				}
				if len(want) != len(in.got) {
					return fmt.Sprintf("lost-or-extra: instance %d (request %d) received %d of %d deliveries", k, j, len(in.got), len(want))
				}
				for i := range want {
					if want[i] != in.got[i].tag {
						return fmt.Sprintf("lost-or-extra: instance %d (request %d) position %d is arrival %d, expected %d", k, j, i, in.got[i].tag, want[i])
					}
				}
			}
		}
	}
	return ""
}

func needsChild(rids [][]byte, evs []ev) bool {
	for _, e := range evs {
		if e.kind == 'a' && len(rids[e.j]) == 0 {
			return true
		}
	}
	return false
}

func classify(evs []ev) (string, bool) {
	na, nr, nc := 0, 0, 0
	for _, e := range evs {
		switch e.kind {
		case 'a':
			na++
		case 'r':
			nr++
		case 'c':
			nc++
		}
	}
	return fmt.Sprintf("arrivals=%d regs=%d cancels=%d", na, nr, nc), na > 0 && nr > 0
}

// exec: a property-oracle verdict (or a stuck loop) is reported only if it REPRODUCES on a second run of the
// case alone (fresh node, fresh loop, ten times the bounds): a loaded machine must not be able to raise an alarm.
func exec(line string) (res h.Result) {
	res = exec1(line)
	if res.Oracle == "" || os.Getenv("VERIF_C13_CHILD") != "" {
		return
	}
	first := res
	patience = 10
	res = exec1(line)
	patience = 1
	if res.Oracle == "" {
		sig := first.Oracle
		if i := strings.Index(sig, ":"); i >= 0 {
			sig = sig[:i]
		}
		res.Class = "verdict of the first run not reproduced (" + sig + "); " + res.Class
	}
	return
}

func exec1(line string) (res h.Result) {
	rids, evs := parse(line)
	res.Class, res.Nontrivial = classify(evs)
	if needsChild(rids, evs) && os.Getenv("VERIF_C13_CHILD") == "" {
		// an arrival with the empty request id may kill the loop goroutine (and so the process): observe it from outside
		cmd := osexec.Command(os.Args[0], "exec", "C13")
		cmd.Env = append(os.Environ(), "VERIF_C13_CHILD=1")
		cmd.Stdin = strings.NewReader(line + "\n")
		var out, errb bytes.Buffer
		cmd.Stdout, cmd.Stderr = &out, &errb
		err := cmd.Run()
		res.Class = "emptyrid " + res.Class
		if err != nil {
			site := "other"
			s := errb.String()
			if strings.Contains(s, "queryLoop") && strings.Contains(s, "nil pointer dereference") {
				site = "queryLoop-nil-ctx"
			}
			res.Impl = "panic " + site
			res.Oracle = "loop-died-" + site + ": the collector goroutine panicked (process exit: " + h.OneLine(err.Error()) + "); no request can be served any more"
			return
		}
		f := strings.SplitN(strings.TrimRight(out.String(), "\n"), "\t", 2)
		res.Impl = f[0]
		if len(f) > 1 {
			res.Oracle = f[1]
		}
		return
	}
	if atomic.LoadInt32(&stuckCases) >= 3 {
		// every stuck case costs 5 s and leaks a blocked loop: three replays are enough
		res.Impl = "not-run"
		return
	}
	ch := make(chan map[int]*inst, 1)
	stage := strings.HasPrefix(line, "stage ")
	inc := strings.HasPrefix(line, "inc ")
	go func() {
		switch {
		case inc:
			ch <- runInc(rids, evs)
		case stage:
			ch <- runStage(rids, evs)
		default:
			ch <- run(rids, evs)
		}
	}()
	select {
	case insts := <-ch:
		if inc {
			res.Class = "incarnations " + res.Class
			res.Impl = renderInc(insts)
			res.Oracle = oracleInc(rids, evs, insts)
		} else if stage {
			res.Class = "stage " + res.Class
			res.Impl = renderStage(insts)
			res.Oracle = oracleStage(rids, evs, insts)
		} else {
			res.Impl = render(insts)
			res.Oracle = oracle(rids, evs, insts)
		}
	case <-time.After(patience * 5 * time.Second):
		// the loop did not take an input within 5 s (50 s when the case is re-run): it is stuck in a send nobody will receive
		res.Impl = "stuck"
		if patience > 1 {
			atomic.AddInt32(&stuckCases, 1)
		}
		res.Oracle = "collector-blocked: the loop stopped consuming its inputs (it waits in a send to a request whose receiver is gone: cancelled, unregistered, or completed with its context still live); every other request is starved"
	}
	return
}

// ---------------------------------------------------------------- generation

func evString(evs []string) string {
	if len(evs) == 0 {
		return "-"
	}
	return strings.Join(evs, ",")
}

// enumerate every sequence that uses each control event at most once (in any order, any subset)
// and exactly k arrivals, each for one of nr request ids.
func enumerate(k, nr int, controls []string, maxLen int, emit func([]string)) {
	used := make([]bool, len(controls))
	var cur []string
	var rec func(arr int)
	rec = func(arr int) {
		if arr == k {
			emit(cur)
		}
		if len(cur) >= maxLen {
			return
		}
		if arr < k {
			for j := 0; j < nr; j++ {
				cur = append(cur, "a"+strconv.Itoa(j))
				rec(arr + 1)
				cur = cur[:len(cur)-1]
			}
		}
		for i, c := range controls {
			if used[i] {
				continue
			}
			used[i] = true
			cur = append(cur, c)
			rec(arr)
			cur = cur[:len(cur)-1]
			used[i] = false
		}
	}
	rec(0)
}

func gen(tier string, rng *h.Rng, emit func(string)) {
	thorough := tier == "thorough"
	// request ids are BYTE STRINGS: the third and fourth set hold distinct ids that are "the same number" under
	// a fixed-width re-encoding (leading zero bytes; 31 / 32 / 33 bytes with equal last 32 bytes) - a key that
	// is a decoded-and-re-encoded form of the id would put them in one slot (seed C13g-1)
	x31 := strings.Repeat("5a", 30) + "07"
	ridSets := []string{"01;02;03", "aa;aabb;00", "07;0007;000007", x31 + ";00" + x31 + ";ff00" + x31}
	// 1. exhaustive interleavings. Instances 0,1,2 belong to request ids 0,1,2; instance 3 is a
	//    second pipeline for request id 0 (duplicate chain event).
	type space struct {
		k, nr    int
		controls []string
		maxLen   int
	}
	var spaces []space
	all6 := []string{"r0.0", "c0", "r1.1", "c1", "r2.2", "c2"}
	if thorough { // ≈1.6e6 schedules
		spaces = []space{
			{5, 3, []string{"r0.0", "c0", "r1.1"}, 8},
			{5, 2, []string{"r0.0", "c0", "r1.1", "c1"}, 9},
			{4, 3, []string{"r0.0", "c0", "r1.1", "c1"}, 8},
			{4, 2, []string{"r0.0", "c0", "r3.0", "c3", "r1.1"}, 9},
			{3, 3, all6, 7},
			{3, 2, []string{"r0.0", "c0", "r3.0", "r1.1", "x"}, 8},
			{0, 3, all6, 6}, {1, 3, all6, 7}, {2, 3, all6, 7},
			{4, 2, []string{"r0.0", "c0", "w", "r3.0", "c3"}, 9},
			{3, 2, []string{"r0.0", "c0", "w", "r1.1", "c1", "r3.0"}, 8},
		}
	} else { // ≈2.4e5 schedules
		spaces = []space{
			{4, 3, []string{"r0.0", "c0", "r1.1"}, 7},
			{4, 2, []string{"r0.0", "c0", "r1.1", "c1"}, 8},
			{3, 3, []string{"r0.0", "c0", "r1.1", "c1", "r2.2"}, 6},
			{3, 2, []string{"r0.0", "c0", "r3.0", "r1.1"}, 7},
			{2, 2, []string{"r0.0", "c0", "r3.0", "c3", "r1.1", "x"}, 6},
			{0, 3, all6, 6}, {1, 3, all6, 7}, {2, 3, all6, 6},
			// the watchdog sweep: before / after the cancellation, before / after a second pipeline of the same id
			{3, 2, []string{"r0.0", "c0", "w", "r3.0"}, 7},
			{2, 2, []string{"r0.0", "c0", "w", "r1.1", "c1"}, 6},
		}
	}
	n := 0
	for _, sp := range spaces {
		enumerate(sp.k, sp.nr, sp.controls, sp.maxLen, func(evs []string) {
			emit("loop " + ridSets[n%len(ridSets)] + " " + evString(evs))
			n++
		})
	}
	// 1b. completion (finding F20): the real recoverSign as receiver of every instance. Exhaustive within the bounds.
	var sspaces []space
	if thorough {
		sspaces = []space{{4, 2, []string{"r0.0", "c0", "r1.1"}, 7}, {3, 2, []string{"r0.0", "c0", "r1.1", "c1", "x"}, 7}, {3, 2, []string{"r0.0", "r3.0", "r1.1"}, 6}}
	} else {
		sspaces = []space{{3, 2, []string{"r0.0", "c0", "r1.1"}, 6}, {2, 2, []string{"r0.0", "r3.0", "r1.1"}, 5}}
	}
	for _, sp := range sspaces {
		enumerate(sp.k, sp.nr, sp.controls, sp.maxLen, func(evs []string) {
			emit("stage " + ridSets[n%len(ridSets)] + " " + evString(evs))
			n++
		})
	}
	// 1c. incarnations of one request id (a second id for isolation): the earlier one completes or is cancelled, or
	//     is still live, when the later one registers; shares of either content arrive at every point
	type ispace struct {
		k        int
		arr      []string
		controls []string
		maxLen   int
	}
	ispaces := []ispace{
		{3, []string{"a0.0", "a0.1"}, []string{"r0.0.0", "c0", "r3.0.1"}, 6}, // the id is re-used for another content
		{2, []string{"a0.0"}, []string{"r0.0.0", "c0", "r3.0.0", "x"}, 6},    // the same request again
		{2, []string{"a0.0", "a0.1", "a1.0"}, []string{"r0.0.0", "r3.0.1", "r1.1.0"}, 5},
	}
	if thorough {
		ispaces = []ispace{
			{4, []string{"a0.0", "a0.1"}, []string{"r0.0.0", "c0", "r3.0.1", "c3"}, 8},
			{3, []string{"a0.0", "a0.1"}, []string{"r0.0.0", "c0", "r3.0.0", "x"}, 7},
			{3, []string{"a0.0", "a0.1", "a1.0"}, []string{"r0.0.0", "r3.0.1", "r1.1.0", "c0"}, 7},
		}
	}
	for _, sp := range ispaces {
		enumerateTok(sp.k, sp.arr, sp.controls, sp.maxLen, func(evs []string) {
			emit("inc " + ridSets[n%len(ridSets)] + " " + evString(evs))
			n++
		})
	}
	// 2. the empty request id (what request id 0 encodes to), unregistered / registered / cancelled
	for _, evs := range [][]string{
		{"a0"}, {"a0", "r0.0"}, {"r0.0", "a0"}, {"a0", "a1", "r0.0", "a0", "r1.1", "a1"}, {"r0.0", "a0", "c0", "a0", "a1", "r1.1"},
		{"a1", "a0", "r1.1", "a1"}, {"x", "a0", "x", "a0", "r0.0", "r3.0", "a0"}, {"r1.1", "a0", "a1", "c1", "a0", "r0.0"},
	} {
		emit("loop -;07;08 " + evString(evs))
	}
	// the empty id next to other spellings of zero
	for _, evs := range [][]string{
		{"r1.1", "a0", "a1", "a2", "r0.0", "a0", "a1"}, {"a0", "a1", "r2.2", "a2", "r0.0", "r1.1"}, {"r0.0", "a1", "a2", "r1.1", "a0", "c0", "a1"},
	} {
		emit("loop -;00;0000 " + evString(evs))
	}
	// 3. random longer schedules (several instances per request id, many arrivals)
	nrand := 300
	if thorough {
		nrand = 5000
	}
	for i := 0; i < nrand; i++ {
		L := 8 + rng.Intn(40)
		nr := 1 + rng.Intn(3)
		var evs []string
		registered := map[int]bool{}
		for len(evs) < L {
			switch rng.Intn(10) {
			case 0, 1:
				hh := rng.Intn(6)
				if registered[hh] {
					continue
				}
				registered[hh] = true
				evs = append(evs, fmt.Sprintf("r%d.%d", hh, hh%nr))
			case 2:
				evs = append(evs, "c"+strconv.Itoa(rng.Intn(6)))
			case 3:
				switch rng.Intn(3) {
				case 0:
					evs = append(evs, "x")
				case 1:
					evs = append(evs, "w")
				}
			default:
				evs = append(evs, "a"+strconv.Itoa(rng.Intn(nr)))
			}
		}
		rs := []string{"0102", "0103", h.Hex(rng.Bytes(1 + rng.Intn(33)))}
		switch i % 4 {
		case 1: // leading zero bytes
			rs = []string{"0102", "000102", "00000102"}
		case 2: // 64 bytes against its last 32
			t := h.Hex(rng.Bytes(32))
			rs = []string{t, h.Hex(rng.Bytes(32)) + t, "00" + t}
		}
		l := "loop " + strings.Join(rs[:3], ";") + " " + evString(evs)
		randomLines[l] = true
		emit(l)
	}
}

/-
C14: the kernel-evaluable breadth-first search of `Model/PipeExplore.lean` only returns reachable
states (used by the witness theorems: a concrete bad schedule exists in the model).
-/
import DosModel.Proofs.PipeSucc
import DosModel.Model.PipeExplore

namespace Dos.Pipe

theorem steps_sub (sc : Scenario) (s : State) : ∀ x ∈ sc.steps s, x ∈ succs sc.p s := by
  intro x hx
  unfold Scenario.steps at hx
  simp only at hx
  split at hx
  · exact (List.mem_filter.mp hx).1
  · split at hx
    · exact (List.mem_filter.mp hx).1
    · exact (List.mem_filter.mp (List.mem_filter.mp hx).1).1

theorem next_step (sc : Scenario) {s t : State} (h : t ∈ sc.next s) : ∃ e, Step sc.p s e (.run t) := by
  unfold Scenario.next at h
  simp only [List.mem_filterMap] at h
  obtain ⟨x, hx, hm⟩ := h
  obtain ⟨e, c⟩ := x
  cases c with
  | run t' =>
    simp only [Option.some.injEq] at hm
    subst hm
    exact ⟨e, (mem_succs_iff sc.p s e _).mp (steps_sub sc s _ hx)⟩
  | crash k g pc => simp at hm

theorem crashes_step (sc : Scenario) {s : State} {k : CrashKind} (h : k ∈ sc.crashes s) :
    ∃ e g pc, Step sc.p s e (.crash k g pc) := by
  unfold Scenario.crashes at h
  simp only [List.mem_filterMap] at h
  obtain ⟨x, hx, hm⟩ := h
  obtain ⟨e, c⟩ := x
  cases c with
  | run t' => simp at hm
  | crash k' g pc =>
    simp only [Option.some.injEq] at hm
    subst hm
    exact ⟨e, g, pc, (mem_succs_iff sc.p s e _).mp (steps_sub sc s _ hx)⟩

theorem keepFresh_sub : ∀ (ts : List State) (keys : List Nat) (acc : List State) (t : State),
    t ∈ (keepFresh ts keys acc).1 → t ∈ acc ∨ t ∈ ts := by
  intro ts
  induction ts with
  | nil => intro keys acc t h; left; exact h
  | cons x xs ih =>
    intro keys acc t h
    unfold keepFresh at h
    split at h
    · rcases ih _ _ t h with h1 | h1
      · left; exact h1
      · right; exact List.mem_cons_of_mem _ h1
    · rcases ih _ _ t h with h1 | h1
      · rcases List.mem_append.mp h1 with h2 | h2
        · left; exact h2
        · right; simp at h2; simp [h2]
      · right; exact List.mem_cons_of_mem _ h1

theorem bfs_reach {p : Pipeline} {next : State → List State}
    (hnext : ∀ s t, t ∈ next s → ∃ e, Step p s e (.run t)) :
    ∀ (fuel : Nat) (frontier : List State) (keys : List Nat) (found : List State),
      (∀ s ∈ frontier, Reach p s) → (∀ s ∈ found, Reach p s) →
      ∀ s ∈ bfs next fuel frontier keys found, Reach p s := by
  intro fuel
  induction fuel with
  | zero => intro frontier keys found _ hv s hs; exact hv s hs
  | succ fuel ih =>
    intro frontier keys found hf hv s hs
    cases frontier with
    | nil => exact hv s hs
    | cons s0 rest =>
      simp only [bfs] at hs
      have hfresh : ∀ t ∈ (keepFresh (next s0) keys []).1, Reach p t := by
        intro t ht
        rcases keepFresh_sub _ _ _ t ht with h | h
        · cases h
        · obtain ⟨e, hst⟩ := hnext s0 t h
          exact Reach.step (hf s0 (by simp)) hst
      apply ih _ _ _ _ _ s hs
      · intro t ht
        rcases List.mem_append.mp ht with h | h
        · exact hf t (List.mem_cons_of_mem _ h)
        · exact hfresh t h
      · intro t ht
        rcases List.mem_append.mp ht with h | h
        · exact hv t h
        · exact hfresh t h

theorem reachSet_sound (sc : Scenario) (fuel : Nat) : ∀ s ∈ sc.reachSet fuel, Reach sc.p s := by
  apply bfs_reach (fun s t h => next_step sc h)
  · intro s hs; simp at hs; subst hs; exact Reach.init
  · intro s hs; simp at hs; subst hs; exact Reach.init

/-- a state found by the search with property `f` is a reachable state with property `f` -/
theorem reachSet_any {sc : Scenario} {fuel : Nat} {f : State → Bool} (h : (sc.reachSet fuel).any f = true) :
    ∃ s, Reach sc.p s ∧ f s = true := by
  rw [List.any_eq_true] at h
  obtain ⟨s, hs, hf⟩ := h
  exact ⟨s, reachSet_sound sc fuel s hs, hf⟩

end Dos.Pipe

/-
C14 fairness, part 5: the semantic content of W6 and of the collector half of W7.

* `collector_closes`: a collector `d` that holds the right to operate on `c` (it has received the
  hand-off, `ownD`-labelled node) and passes `CollectorOk` closes `c` — or returns — in every fair
  run in which the request context (context 0) is eventually done.
* `send_moves`: weak fairness alone gives progress of a send whose consumers are ready from some
  position on.  `receiverless_blocks`: where W6 fails (nobody has a receive on `c`) nothing ever
  leaves `c`, and a goroutine at a bare send on the full `c` is blocked for ever, deadline or not.
-/
import DosModel.Proofs.PipeFair3

namespace Dos.Pipe
variable {p : Pipeline}

/-! ### the collector closes what it was handed -/

theorem collectorOk_parts {d : Gi} {gd : Goroutine} {c rr : Ch} (h : CollectorOk p d gd c rr = true) :
    distOk (escEdges p d) gd.nodes (fun nd => nd.closes c || nd.isExit) (mark (ownD gd c rr))
      (distTo (escEdges p d) gd.nodes (Node.closes c)) = true ∧
    (∀ pc nd, gd.nodes[pc]? = some nd → mark (ownD gd c rr) pc = true → nd.closes c = false →
      ∀ l n, (l, n) ∈ nd.edges → mark (ownD gd c rr) n = true) ∧
    (∀ pc nd, gd.nodes[pc]? = some nd → mark (ownD gd c rr) pc = true → nodeLive p d nd = true) := by
  unfold CollectorOk at h
  simp only [Bool.and_eq_true] at h
  refine ⟨h.1.1, ?_, ?_⟩
  · intro pc nd hn hm hc l n he
    have := zipIdx_all h.1.2 hn
    simp only [hm, hc, Bool.not_true, Bool.false_or, List.all_eq_true] at this
    exact this (l, n) he
  · intro pc nd hn hm
    have := zipIdx_all h.2 hn
    simpa [hm] using this

/-- a goroutine standing at `close c` closes `c` (weak fairness; the close cannot panic) -/
theorem close_node_closes (h0 : W0 p = true) {r : Run p} {g : Gi} {gr : Goroutine}
    (hg : p.gs[g]? = some gr) (hw : WeakFairG r g) {pc n : Pc} {c : Ch} {j : Nat}
    (hat : (r.st j).gs[g]? = some (.at pc)) (hn : gr.nodes[pc]? = some (.close c n)) :
    ∃ j', j ≤ j' ∧ (r.st j').closed c = true := by
  have hnd := node_of hg hn
  have hin : c < p.chans.length := by
    have := (W0_edge h0 hg hn (l := .close c) (n := n) (by simp [Node.edges])).1
    simpa [Lab.inRange] using this
  apply Classical.byContradiction
  intro hno
  have hopen : ∀ j', j ≤ j' → (r.st j').closed c = false := by
    intro j' hj'
    cases hcl : (r.st j').closed c with
    | false => rfl
    | true => exact absurd ⟨j', hj', hcl⟩ hno
  have hmove : ∀ d, (r.st (j + d)).gs[g]? = some (.at pc) → r.movesAt g (j + d) → False := by
    intro d hatd ⟨e, he, hmv⟩
    have hst := r.step_of_ev he
    apply hno
    refine ⟨j + d + 1, by omega, ?_⟩
    apply close_edge_closes hst hatd hnd
    · obtain ⟨nd', hnd', hc⟩ := move_cases hst hatd hmv
      rw [hnd] at hnd'; cases hnd'
      rcases hc with ⟨l', n', hmem, _, _, hs', hgs⟩ | ⟨_, _, _, hmem, _⟩ | ⟨_, _, _, hmem, _⟩ | ⟨hex, _⟩
      · rw [hgs, hatd]
        intro hh
        -- a self loop would mean the step did not close: but then `c` is closed anyway; use the effect
        simp only [Node.edges, List.mem_singleton, Prod.mk.injEq] at hmem
        obtain ⟨h1, h2⟩ := hmem
        subst h1
        have hcl1 : (r.st (j + d + 1)).closed c = true := by
          rw [hs']
          simp [moved, effect_closed, (shape _ (r.reach (j + d))).chs, hin]
        rw [hopen (j + d + 1) (by omega)] at hcl1; cases hcl1
      · simp [Node.edges] at hmem
      · simp [Node.edges] at hmem
      · cases hex
    · rw [(shape _ (r.reach (j + d))).chs]; exact hin
  have hstay : ∀ d, (r.st (j + d)).gs[g]? = some (.at pc) := by
    intro d
    induction d with
    | zero => exact hat
    | succ d ih =>
      by_cases hm : r.movesAt g (j + d)
      · exact absurd hm (hmove d ih)
      · exact r.stay ih hm
  obtain ⟨i, hi, hm⟩ := hw j (fun i hi => by
    obtain ⟨d, rfl⟩ := Nat.exists_eq_add_of_le hi
    refine ⟨_, _, Step.act g pc _ (.close c) n (hstay d) hnd (by simp [Node.edges]) ?_ (fun h => by cases h), by simp [Ev.moves]⟩
    simp [guard, hopen (j + d) (by omega)])
  obtain ⟨d, rfl⟩ := Nat.exists_eq_add_of_le hi
  exact hmove d (hstay d) hm

/-- **the collector closes what it was handed.**  In a fair run in which context 0 is eventually
done: if at position `i0` the collector `d` holds the right to operate on `c` (received on `rr`),
then later `c` is closed or `d` has returned. -/
theorem collector_closes (hlive : LiveOk p = true) (hsafe : NoCrash p) {r : Run p} (hf : Fair r)
    (hc : ∃ i, (r.st i).ctxDone 0 = true) {d : Gi} {gd : Goroutine} {c rr : Ch}
    (hg : p.gs[d]? = some gd) (hok : CollectorOk p d gd c rr = true) {i0 : Nat} {pc0 : Pc}
    (hat0 : (r.st i0).gs[d]? = some (.at pc0)) (hown : mark (ownD gd c rr) pc0 = true) :
    ∃ j, i0 ≤ j ∧ ((r.st j).closed c = true ∨ (r.st j).gs[d]? = some .done) := by
  obtain ⟨h0, _⟩ := liveOk_parts hlive
  obtain ⟨hdist, hfwd, hlv⟩ := collectorOk_parts hok
  apply Classical.byContradiction
  intro hno
  have hopen : ∀ j, i0 ≤ j → (r.st j).closed c = false := by
    intro j hj
    cases hcl : (r.st j).closed c with
    | false => rfl
    | true => exact absurd ⟨j, hj, Or.inl hcl⟩ hno
  have hnd' : ∀ j, i0 ≤ j → (r.st j).gs[d]? ≠ some .done :=
    fun j hj hd => hno ⟨j, hj, Or.inr hd⟩
  -- `d` keeps the right: it stays inside the labeling, at nodes that neither close `c` nor exit
  have hin : ∀ k, ∃ pc nd, (r.st (i0 + k)).gs[d]? = some (.at pc) ∧ gd.nodes[pc]? = some nd ∧
      mark (ownD gd c rr) pc = true ∧ (nd.closes c || nd.isExit) = false := by
    have hnode : ∀ j pc, i0 ≤ j → (r.st j).gs[d]? = some (.at pc) → mark (ownD gd c rr) pc = true →
        ∃ nd, gd.nodes[pc]? = some nd ∧ (nd.closes c || nd.isExit) = false := by
      intro j pc hj hat hm
      have hpc := at_in_range h0 hg (r.st j) (r.reach j) pc hat
      have hn : gd.nodes[pc]? = some gd.nodes[pc] := by simp [hpc]
      refine ⟨_, hn, ?_⟩
      generalize gd.nodes[pc] = nd at hn
      cases hcc : nd.closes c with
      | true =>
        exfalso
        have hnode : ∃ n, nd = .close c n := by
          cases nd <;> simp [Node.closes] at hcc
          case close c' n' => subst hcc; exact ⟨n', rfl⟩
        obtain ⟨n, hnode⟩ := hnode
        subst hnode
        obtain ⟨j', hj', hcl⟩ := close_node_closes h0 hg (hf.weak d) hat hn
        rw [hopen j' (by omega)] at hcl; cases hcl
      | false =>
        cases hex : nd.isExit with
        | false => rfl
        | true =>
          exfalso
          have hnode : nd = .exit := by cases nd <;> simp [Node.isExit] at hex <;> rfl
          subst hnode
          obtain ⟨j', hj', hdone⟩ := exit_node_returns (hf.weak d) hat (node_of hg hn)
          exact hnd' j' (by omega) hdone
    intro k
    induction k with
    | zero =>
      obtain ⟨nd, hn, ht⟩ := hnode i0 pc0 (Nat.le_refl _) hat0 hown
      exact ⟨pc0, nd, hat0, hn, hown, ht⟩
    | succ k ih =>
      obtain ⟨pc, nd, hat, hn, hm, ht⟩ := ih
      have hcc : nd.closes c = false := by
        cases h : nd.closes c with
        | false => rfl
        | true => simp [h] at ht
      have hnext : ∃ pc', (r.st (i0 + k + 1)).gs[d]? = some (.at pc') ∧ mark (ownD gd c rr) pc' = true := by
        by_cases hmv : r.movesAt d (i0 + k)
        · obtain ⟨e, he, hmv'⟩ := hmv
          obtain ⟨nd', hnd2, hcs⟩ := move_cases (r.step_of_ev he) hat hmv'
          rw [node_of hg hn] at hnd2; cases hnd2
          rcases hcs with ⟨l', n', hmem, _, _, _, hgs⟩ | ⟨_, n', _, hmem, _, _, hgs⟩ | ⟨_, n', _, hmem, _, _, hgs⟩ | ⟨_, _, hd⟩
          · exact ⟨n', hgs, hfwd pc nd hn hm hcc _ _ hmem⟩
          · exact ⟨n', hgs, hfwd pc nd hn hm hcc _ _ hmem⟩
          · exact ⟨n', hgs, hfwd pc nd hn hm hcc _ _ hmem⟩
          · exact absurd hd (hnd' (i0 + k + 1) (by omega))
        · exact ⟨pc, r.stay hat hmv, hm⟩
      obtain ⟨pc', hat', hm'⟩ := hnext
      obtain ⟨nd', hn', ht'⟩ := hnode (i0 + k + 1) pc' (by omega) hat' hm'
      exact ⟨pc', nd', hat', hn', hm', ht'⟩
  -- the pipeline goroutines have all returned from some position on
  obtain ⟨Tq, hTq⟩ := fair_run_terminates hlive hsafe hf hc
  obtain ⟨Tc, hTc⟩ := hc
  have H : EscHyp p r d gd (fun nd => nd.closes c || nd.isExit) (mark (ownD gd c rr)) (max i0 (max Tq Tc)) := by
    refine ⟨hg, ?_, fun j hj => r.ctxDone_stable hTc j (by omega), ?_⟩
    · intro j hj
      obtain ⟨k, rfl⟩ := Nat.exists_eq_add_of_le (show i0 ≤ j by omega)
      obtain ⟨pc, nd, hat, hn, hm, ht⟩ := hin k
      exact ⟨pc, nd, hat, hn, hm, ht, hlv pc nd hn hm⟩
    · intro j hj g' gr' hg' hst hdm _
      have hq := (hTq j (by omega)).1
      have hlt : g' < (r.st j).gs.length := by
        rw [(shape _ (r.reach j)).gs]; exact (List.getElem?_eq_some_iff.mp hg').1
      have hsome : (r.st j).gs[g']? = some (r.st j).gs[g'] := by simp [hlt]
      cases hst' : (r.st j).gs[g'] with
      | idle => rw [hst'] at hsome; exact absurd hsome (static_not_idle hg' hst _ (r.reach j))
      | «at» pc' => rw [hst'] at hsome; exact absurd ⟨gr', pc', hg', hdm, hsome⟩ (hq g')
      | done => rw [hst'] at hsome; exact hsome
  exact fair_escape h0 hsafe hf H hdist

/-! ### W6: sends and their consumers -/

/-- **progress of a send under weak fairness.**  A goroutine standing at a `select` with a send on
`c` whose consumers are ready at every position from `T` on, as long as it has not moved, moves (it
is not blocked for ever) — before the deadline or after it. -/
theorem send_moves (hsafe : NoCrash p) {r : Run p} {g : Gi} (hw : WeakFairG r g) {T : Nat} {pc n : Pc}
    {nd : Node} {c : Ch} (hat : (r.st T).gs[g]? = some (.at pc)) (hnd : p.node g pc = some nd)
    (hed : (Lab.send c, n) ∈ nd.edges)
    (hready : ∀ i, T ≤ i → (∀ j, T ≤ j → j < i → ¬ r.movesAt g j) → ConsumerReady p (r.st i) g c) :
    ∃ i, T ≤ i ∧ r.movesAt g i := by
  apply Classical.byContradiction
  intro hno
  have hstay : ∀ d, (r.st (T + d)).gs[g]? = some (.at pc) := by
    intro d
    induction d with
    | zero => exact hat
    | succ d ih => exact r.stay ih (fun hm => hno ⟨T + d, by omega, hm⟩)
  apply hno
  apply hw T
  intro i hi
  obtain ⟨d, rfl⟩ := Nat.exists_eq_add_of_le hi
  have hopen : (r.st (T + d)).closed c = false := by
    cases hcl : (r.st (T + d)).closed c with
    | false => rfl
    | true =>
      exfalso
      exact hsafe (.sendClosed c) ⟨_, _, g, pc, r.reach _,
        Step.crash g pc nd _ n _ (hstay d) hnd hed (by simp [crashOf, hcl])⟩
  rcases hready (T + d) hi (fun j hj _ hm => hno ⟨j, hj, hm⟩) with hroom | ⟨hcap, g', pc', nd', n', hne, hat', hnd', hed'⟩
  · exact ⟨_, _, Step.act g pc nd _ n (hstay d) hnd hed (by simp [guard, hopen, hroom]) (fun h => by cases h),
      by simp [Ev.moves]⟩
  · exact ⟨_, _, Step.sync g pc nd n g' pc' nd' n' c (Ne.symm hne) (hstay d) hnd hed hat' hnd' hed' hcap hopen,
      by simp [Ev.moves]⟩

theorem receiverless_no_edge (h : Receiverless p c) {g : Gi} {pc n : Pc} {nd : Node}
    (hnd : p.node g pc = some nd) : (Lab.recvOk c, n) ∉ nd.edges := by
  intro hed
  obtain ⟨gr, hg, hn⟩ := node_some hnd
  have := hasRecv_of_node hn (recvsOn_of_edge hed)
  rw [h gr (List.mem_of_getElem? hg)] at this
  cases this

/-- nothing ever leaves a channel without a receiver -/
theorem receiverless_len_step {c : Ch} (h : Receiverless p c) {s s' : State} {e : Ev}
    (hst : Step p s e (.run s')) : s.len c ≤ s'.len c := by
  cases hst with
  | env k hk hd => exact Nat.le_refl _
  | act g pc nd l n hat hnd hed hgd hdf =>
    simp only [State.setG_len]
    rw [effect_len]
    split
    · rename_i hl
      rw [hl.1] at hed
      exact absurd hed (receiverless_no_edge h hnd)
    · split <;> omega
  | sync g pc nd n g' pc' nd' n' c' hne hat hnd hed hat' hnd' hed' hcap hcl => exact Nat.le_refl _
  | exit g pc hat hnd => exact Nat.le_refl _

/-- **a W6 violation is a permanent block.**  Nobody has a receive on `c`: a goroutine that stands at
the bare send `c <- v` when the buffer of `c` is full never moves again — in any run, fair or not,
with or without the deadline (the deadline does not help a bare send). -/
theorem receiverless_blocks {c : Ch} (h : Receiverless p c) (r : Run p) {g : Gi} {T : Nat} {pc n : Pc}
    (hat : (r.st T).gs[g]? = some (.at pc)) (hnd : p.node g pc = some (.sel [.send c n]))
    (hfull : p.cap c ≤ (r.st T).len c) :
    ∀ i, T ≤ i → (r.st i).gs[g]? = some (.at pc) ∧ ¬ Enabled p (r.st i) g := by
  have hlen : ∀ d, p.cap c ≤ (r.st (T + d)).len c := by
    intro d
    induction d with
    | zero => exact hfull
    | succ d ih =>
      rcases r.step_cases (T + d) with ⟨e, _, hst⟩ | ⟨_, heq⟩
      · have := receiverless_len_step h hst
        have e : T + (d + 1) = T + d + 1 := by omega
        rw [e]; omega
      · have e : T + (d + 1) = T + d + 1 := by omega
        rw [e, heq]; exact ih
  have hdis : ∀ d, (r.st (T + d)).gs[g]? = some (.at pc) → ¬ Enabled p (r.st (T + d)) g := by
    intro d hatd ⟨e, s', hst, hmv⟩
    obtain ⟨nd', hnd', hcs⟩ := move_cases hst hatd hmv
    rw [hnd] at hnd'; cases hnd'
    rcases hcs with ⟨l', n', hmem, _, hgd, _⟩ | ⟨c', n', g', hmem, hev, _⟩ | ⟨_, _, _, hmem, _⟩ | ⟨hex, _⟩
    · simp only [Node.edges, Alt.edges, List.flatMap_cons, List.flatMap_nil, List.append_nil,
        List.mem_singleton, Prod.mk.injEq] at hmem
      rw [hmem.1] at hgd
      have := hlen d
      simp only [guard, Bool.and_eq_true, decide_eq_true_eq] at hgd
      omega
    · simp only [Node.edges, Alt.edges, List.flatMap_cons, List.flatMap_nil, List.append_nil,
        List.mem_singleton, Prod.mk.injEq, Lab.send.injEq] at hmem
      obtain ⟨hc', _⟩ := hmem
      subst hc'
      subst hev
      cases hst with
      | sync _ _ _ _ _ pc2 nd2 n2 _ _ _ _ _ _ hnd2 hed2 _ _ =>
        exact receiverless_no_edge h hnd2 hed2
    · simp [Node.edges, Alt.edges] at hmem
    · cases hex
  have hstay : ∀ d, (r.st (T + d)).gs[g]? = some (.at pc) := by
    intro d
    induction d with
    | zero => exact hat
    | succ d ih =>
      apply r.stay ih
      rintro ⟨e, he, hmv⟩
      exact hdis d ih ⟨e, _, r.step_of_ev he, hmv⟩
  intro i hi
  obtain ⟨d, rfl⟩ := Nat.exists_eq_add_of_le hi
  exact ⟨hstay d, hdis d (hstay d)⟩

theorem W6_not_receiverless (h : W6 p = true) {c : Ch} (hc : c < p.chans.length)
    {gr : Goroutine} (hgr : gr ∈ p.gs) (hs : gr.hasSend c = true) : ¬ Receiverless p c := by
  intro hr
  unfold W6 at h
  rw [List.all_eq_true] at h
  have := h c (List.mem_range.mpr hc)
  simp only [Bool.or_eq_true, Bool.not_eq_true', List.any_eq_false, List.any_eq_true] at this
  rcases this with h1 | ⟨gr', hm, hrv⟩
  · have := h1 gr hgr; rw [hs] at this; exact absurd this (by simp)
  · rw [hr gr' hm] at hrv; cases hrv

end Dos.Pipe

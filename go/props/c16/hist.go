package c16

// hist <script>   SUCCESSIVE connections between two real nodes A and B (CreateP2PNetwork, NoDiscover,
// VerifSetLookup) through a frame-level proxy that RECORDS every post-handshake frame of every
// connection, in both directions, and can put any recorded frame into the current connection:
//
//	s<t>:<size>:<seed>  A sends message i (Request to B); B's application answers it (Reply), once
//	c                   the proxy cuts the current connection (both sides read EOF); the next s dials a new one
//	j<k>  b<k>          recorded A→B frame k is injected towards B / recorded B→A frame k towards A
//	r<k>  v<k>          recorded A→B frame k is reflected to A / recorded B→A frame k to B
//	x  y                A / B restarts (new process state and keys, same id)
//
// (k counts the frames of ALL connections so far: a frame recorded on an earlier connection injected
// into a later one is the cross-connection replay.) At the end the connection is cut and one more
// message must come out at B over a new connection.
//
// Observed: what arrives on B's (and A's) SubscribeMsg channels, byte for byte. Direct oracle: every
// delivery is a message A sent, to the right subscriber, with the right sender; a message is delivered
// ONCE — a second delivery is allowed only for a verbatim replay inside the connection it was sent on
// (the recorded observation), never for a frame of another connection; every message A sent is
// delivered; nothing reaches A's subscribers; A's calls return their own reply or an error.

import (
	"bytes"
	"context"
	"encoding/binary"
	"fmt"
	"io"
	"net"
	"strings"
	"sync"
	"time"

	"github.com/DOSNetwork/core/p2p"
	"github.com/golang/protobuf/proto"

	"verifharness/internal/h"
)

type recFrame struct {
	conn int
	body []byte
}

type hconn struct {
	idx    int
	a, b   net.Conn
	wa, wb sync.Mutex
	once   sync.Once
	dead   chan struct{}
}

func (c *hconn) cut() { c.once.Do(func() { c.a.Close(); c.b.Close(); close(c.dead) }) }

type hproxy struct {
	ln     net.Listener
	mu     sync.Mutex
	target string
	conns  []*hconn
	fwd    []recFrame // post-handshake frames A → B
	back   []recFrame // post-handshake frames B → A
	tick   chan struct{}
}

func (p *hproxy) note() {
	select {
	case p.tick <- struct{}{}:
	default:
	}
}

func (p *hproxy) pump(c *hconn, toB bool) {
	src, dst, wl := c.a, c.b, &c.wb
	if !toB {
		src, dst, wl = c.b, c.a, &c.wa
	}
	defer c.cut()
	first := true
	for {
		var hd [4]byte
		if _, err := io.ReadFull(src, hd[:]); err != nil {
			return
		}
		n := binary.BigEndian.Uint32(hd[:])
		if n > 1<<21 {
			return
		}
		body := make([]byte, n)
		if _, err := io.ReadFull(src, body); err != nil {
			return
		}
		if !first {
			p.mu.Lock()
			if toB {
				p.fwd = append(p.fwd, recFrame{c.idx, body})
			} else {
				p.back = append(p.back, recFrame{c.idx, body})
			}
			p.mu.Unlock()
		}
		first = false
		wl.Lock()
		_, err := dst.Write(frame(body))
		wl.Unlock()
		p.note()
		if err != nil {
			return
		}
	}
}

func newHProxy() *hproxy {
	ln, err := net.Listen("tcp", "127.0.0.1:0")
	if err != nil {
		panic(err)
	}
	p := &hproxy{ln: ln, tick: make(chan struct{}, 1)}
	go func() {
		for {
			a, err := ln.Accept()
			if err != nil {
				return
			}
			p.mu.Lock()
			t := p.target
			p.mu.Unlock()
			b, err := net.DialTimeout("tcp", t, 2*time.Second)
			if err != nil {
				a.Close()
				continue
			}
			p.mu.Lock()
			c := &hconn{idx: len(p.conns), a: a, b: b, dead: make(chan struct{})}
			p.conns = append(p.conns, c)
			p.mu.Unlock()
			go p.pump(c, true)
			go p.pump(c, false)
		}
	}()
	return p
}

// cur is the latest connection, if it is still up.
func (p *hproxy) cur() *hconn {
	p.mu.Lock()
	defer p.mu.Unlock()
	if len(p.conns) == 0 {
		return nil
	}
	c := p.conns[len(p.conns)-1]
	select {
	case <-c.dead:
		return nil
	default:
		return c
	}
}

// inject writes a recorded frame into the current connection; it reports the connection the frame was
// recorded on and the one it went into (-1: nothing done).
func (p *hproxy) inject(fromFwd bool, k int, toB bool) (from, into int) {
	c := p.cur()
	p.mu.Lock()
	list := p.back
	if fromFwd {
		list = p.fwd
	}
	if c == nil || k >= len(list) {
		p.mu.Unlock()
		return -1, -1
	}
	f := list[k]
	p.mu.Unlock()
	if toB {
		c.wb.Lock()
		c.b.Write(frame(f.body))
		c.wb.Unlock()
	} else {
		c.wa.Lock()
		c.a.Write(frame(f.body))
		c.wa.Unlock()
	}
	return f.conn, c.idx
}

type hnodes struct {
	px         *hproxy
	a, b       *receiver
	oldA, oldB []*receiver
}

func (w *hnodes) startA() {
	w.a = startReceiverAs("A", func(id []byte) string {
		if string(id) == "B" {
			return w.px.ln.Addr().String()
		}
		return ""
	}, nil)
}

func (w *hnodes) startB() {
	w.b = startReceiverAs("B", func([]byte) string { return "" }, nil)
	w.b.replyAll = true
	w.px.mu.Lock()
	w.px.target = w.b.addr
	w.px.mu.Unlock()
}

func (w *hnodes) tables() string {
	ai, ac := p2p.VerifNumOfClient(w.a.node)
	bi, bc := p2p.VerifNumOfClient(w.b.node)
	return fmt.Sprintf("%d/%d %d/%d", ai, ac, bi, bc)
}

// settle waits until the connection tables of both nodes have been unchanged for a while.
func (w *hnodes) settle(quiet time.Duration) {
	last, since := w.tables(), time.Now()
	deadline := time.Now().Add(2 * time.Second)
	for time.Now().Before(deadline) {
		time.Sleep(10 * time.Millisecond)
		if cur := w.tables(); cur != last {
			last, since = cur, time.Now()
		} else if time.Since(since) > quiet {
			return
		}
	}
}

func (w *hnodes) allGot(cur *receiver, old []*receiver) []delivery {
	var out []delivery
	for _, r := range append(append([]*receiver(nil), old...), cur) {
		r.mu.Lock()
		out = append(out, r.got...)
		r.mu.Unlock()
	}
	return out
}

func execHist(script string) (res h.Result) {
	w := &hnodes{px: newHProxy()}
	w.startB()
	w.startA()
	var sent []proto.Message
	var results []string
	sentOn := map[int]int{}        // message → connection its frame travelled on (-1: none)
	extra := map[int]int{}         // message → verbatim replays inside its own connection (allowed second deliveries)
	poisoned := map[int]bool{}     // connection → a frame was injected towards A on it (A forgets it, B does not)
	exempt := map[int]bool{}       // message sent while the current connection was poisoned
	crossInjected := map[int]int{} // message → some later connection its frame was injected into

	send := func(t, size, seed int) {
		i := len(sent)
		m := mkMsg(i, t, size, seed)
		sent = append(sent, m)
		if c := w.px.cur(); c != nil && poisoned[c.idx] {
			exempt[i] = true
		}
		w.px.mu.Lock()
		nf := len(w.px.fwd)
		w.px.mu.Unlock()
		ctx, cancel := context.WithCancel(context.Background())
		done := make(chan string, 1)
		go func() {
			r, err := w.a.node.Request(ctx, []byte("B"), m)
			switch {
			case err != nil:
				done <- "err"
			default:
				if pg, ok := r.Msg.Message.(*p2p.Pong); ok && int(pg.Count) == i {
					done <- "ok"
				} else if ok {
					done <- fmt.Sprintf("wrong:%d", pg.Count)
				} else {
					done <- "wrong:?"
				}
			}
		}()
		// the message is out when B's subscriber has it; the call is over when the reply is back
		out := ""
		deadline := time.After(7 * time.Second)
	wait:
		for {
			if w.b.has(t, i) {
				select {
				case out = <-done:
				case <-time.After(1500 * time.Millisecond):
				}
				break wait
			}
			select {
			case out = <-done:
				break wait
			case <-w.b.tick:
			case <-time.After(20 * time.Millisecond):
			case <-deadline:
				break wait
			}
		}
		cancel()
		if out == "" {
			select {
			case out = <-done:
			case <-time.After(3 * time.Second):
				out = "hang"
			}
		}
		results = append(results, out)
		w.px.mu.Lock()
		if len(w.px.fwd) > nf {
			sentOn[i] = w.px.fwd[nf].conn
		} else {
			sentOn[i] = -1
		}
		w.px.mu.Unlock()
	}
	// which message does recorded A→B frame k carry? (one request frame per message that went out, in order)
	msgOfFwd := func(k int) int {
		n := -1
		for i := 0; i < len(sent); i++ {
			if sentOn[i] >= 0 {
				n++
				if n == k {
					return i
				}
			}
		}
		return -1
	}
	for _, op := range split(script) {
		var a []int
		if len(op) > 1 {
			for _, x := range strings.Split(op[1:], ":") {
				a = append(a, h.Atoi(x))
			}
		}
		arg := func(k int) int {
			if k < len(a) {
				return a[k]
			}
			return 0
		}
		switch op[0] {
		case 's':
			send(arg(0), arg(1), arg(2))
		case 'c':
			if c := w.px.cur(); c != nil {
				c.cut()
				w.settle(150 * time.Millisecond)
			}
		case 'j', 'b', 'r', 'v':
			fromFwd := op[0] == 'j' || op[0] == 'r'
			toB := op[0] == 'j' || op[0] == 'v'
			before := w.tables()
			nb := len(w.allGot(w.b, w.oldB))
			from, into := w.px.inject(fromFwd, arg(0), toB)
			if into < 0 {
				break
			}
			if !toB {
				poisoned[into] = true
			}
			if op[0] == 'j' {
				if i := msgOfFwd(arg(0)); i >= 0 {
					if from == into {
						extra[i]++
					} else {
						crossInjected[i] = into
					}
				}
			}
			// the frame has been dealt with when a table changed (first rejected frame of that end) or something was delivered
			for t0 := time.Now(); time.Since(t0) < 400*time.Millisecond; time.Sleep(5 * time.Millisecond) {
				if w.tables() != before || len(w.allGot(w.b, w.oldB)) != nb {
					break
				}
			}
			w.settle(60 * time.Millisecond)
		case 'x':
			w.a.node.Leave()
			if c := w.px.cur(); c != nil {
				c.cut()
			}
			w.oldA = append(w.oldA, w.a)
			w.startA()
			w.settle(150 * time.Millisecond)
		case 'y':
			w.b.node.Leave()
			if c := w.px.cur(); c != nil {
				c.cut()
			}
			w.oldB = append(w.oldB, w.b)
			w.startB()
			w.settle(150 * time.Millisecond)
		default:
			panic("bad hist op " + op)
		}
	}
	// the sentinel, over a new connection
	if c := w.px.cur(); c != nil {
		c.cut()
		w.settle(150 * time.Millisecond)
	}
	nScript := len(sent)
	send(0, 0, sentinelSeed)
	sentinel := nScript
	alive := w.b.alive()
	aAlive := w.a.alive()

	gotB := w.allGot(w.b, w.oldB)
	gotA := w.allGot(w.a, w.oldA)
	per := make([][]string, 4)
	count := map[int]int{}
	for _, d := range gotB {
		per[d.t] = append(per[d.t], fmt.Sprint(d.idx))
		if d.idx < 0 || d.idx >= len(sent) {
			if res.Oracle == "" {
				res.Oracle = fmt.Sprintf("not-sent-delivered: subscriber %s received a message that was never sent (index %d)", typeNames[d.t], d.idx)
			}
			continue
		}
		count[d.idx]++
		want, _ := proto.Marshal(sent[d.idx])
		st, _ := idxOf(sent[d.idx])
		if (!bytes.Equal(want, d.raw) || st != d.t) && res.Oracle == "" {
			res.Oracle = fmt.Sprintf("altered-delivered: subscriber %s received message %d with different bytes / type", typeNames[d.t], d.idx)
		}
		if d.sender != "A" && res.Oracle == "" {
			res.Oracle = fmt.Sprintf("sender-wrong: message %d delivered with sender %q", d.idx, d.sender)
		}
	}
	var parts []string
	for t := 0; t < 4; t++ {
		s := "-"
		if len(per[t]) > 0 {
			s = strings.Join(per[t], ",")
		}
		parts = append(parts, fmt.Sprintf("t%d=%s", t, s))
	}
	al := "yes"
	if !alive || !aAlive {
		al = "no"
	}
	rs := "-"
	if nScript > 0 {
		rs = strings.Join(results[:nScript], ",")
	}
	w.px.mu.Lock()
	nconn := len(w.px.conns)
	w.px.mu.Unlock()
	res.Impl = fmt.Sprintf("%s a=%d res=%s conns=%d alive=%s", strings.Join(parts, " "), len(gotA), rs, nconn, al)

	if res.Oracle == "" {
		for i := range sent {
			if count[i] > 1+extra[i] {
				into, crossed := crossInjected[i]
				if crossed {
					res.Oracle = fmt.Sprintf("cross-connection-replay-delivered: message %d was sent on connection %d; its recorded frame, injected into connection %d, was accepted there and the message delivered again (%d deliveries)", i, sentOn[i], into, count[i])
				} else {
					res.Oracle = fmt.Sprintf("delivered-twice: message %d was delivered %d times (allowed %d)", i, count[i], 1+extra[i])
				}
				break
			}
		}
	}
	if res.Oracle == "" {
		for i := range sent {
			if count[i] == 0 && !exempt[i] {
				res.Oracle = fmt.Sprintf("honest-not-delivered: message %d was never delivered although both nodes were up and nothing was altered (its call returned %s)", i, results[i])
				break
			}
		}
	}
	if res.Oracle == "" && len(gotA) > 0 {
		res.Oracle = fmt.Sprintf("reflected-delivered: %d message(s) reached the subscribers of A, to which nothing was ever sent", len(gotA))
	}
	if res.Oracle == "" {
		for i, r := range results {
			if strings.HasPrefix(r, "wrong") {
				res.Oracle = fmt.Sprintf("cross-talk: the call that sent message %d returned %s", i, r)
				break
			}
			if r == "hang" {
				res.Oracle = fmt.Sprintf("request-never-returned: the call that sent message %d", i)
				break
			}
		}
	}
	if res.Oracle == "" && (!alive || !aAlive) {
		res.Oracle = "receiver-dead: a fresh honest connection got no message through"
	}
	_ = sentinel
	w.a.node.Leave()
	w.b.node.Leave()
	w.px.ln.Close()
	return
}

func histClass16(script string) (string, bool) {
	kinds := map[byte]bool{}
	ns := 0
	for _, op := range split(script) {
		kinds[op[0]] = true
		if op[0] == 's' {
			ns++
		}
	}
	var ks []string
	for _, k := range "cjbrvxy" {
		if kinds[byte(k)] {
			ks = append(ks, string(k))
		}
	}
	if len(ks) == 0 {
		return "hist-plain", false
	}
	return "hist-" + strings.Join(ks, ""), true
}

func genHist(tier string, rng *h.Rng, emit func(string)) {
	for _, l := range []string{
		"hist s0:1:1,s2:40:2",
		"hist s0:1:1,c,s1:1:2,j0",                    // the frame of connection 0 injected into connection 1
		"hist s0:1:1,s2:300:2,c,s3:50:3,j1,j0,b0,b1", // … both directions
		"hist s0:1:1,c,s0:1:2,c,s0:1:3,j0,j1,r0,v1",
		"hist s2:100:1,j0,c,s2:100:2,j0,j1", // replay inside the connection (observation), then across
		"hist s0:1:1,c,s1:1:2",              // a connection ends, later traffic
		"hist s0:1:1,x,s1:1:2,j0,b0",        // A restarts, frames of its previous life injected
		"hist s0:1:1,y,s1:1:2,j0,v0",        // B restarts
		"hist s3:5000:1,c,s3:5000:2,c,j0,s0:1:3,j0,j1",
	} {
		emit(l)
	}
	n := 14
	if tier == "thorough" {
		n = 160
	}
	sizes := []int{1, 3, 17, 100, 1000, 5000}
	for i := 0; i < n; i++ {
		var ops []string
		msgs, conns := 0, 0
		poisoned := false
		for j := 0; j < 3+rng.Intn(8); j++ {
			switch c := rng.Intn(10); {
			case c < 4 && !poisoned:
				ops = append(ops, fmt.Sprintf("s%d:%d:%d", rng.Intn(4), sizes[rng.Intn(len(sizes))], rng.Intn(1000)))
				if msgs == 0 || ops[len(ops)-1] != "" {
					msgs++
				}
			case c < 6:
				ops = append(ops, "c")
				conns++
				poisoned = false
			case c < 9:
				if msgs > 0 {
					k := rng.Intn(msgs)
					kind := "jjjbrv"[rng.Intn(6)]
					ops = append(ops, fmt.Sprintf("%c%d", kind, k))
					if kind == 'b' || kind == 'r' {
						poisoned = true
					}
				}
			default:
				ops = append(ops, []string{"x", "y"}[rng.Intn(2)])
				conns++
				poisoned = false
			}
		}
		if len(ops) == 0 {
			ops = []string{"s0:1:1"}
		}
		emit("hist " + strings.Join(ops, ","))
	}
}

/-
C07 (round 4) — regenerated facts about HOW the content stages reach the selector engines, the
member list and the chain: the statement skeletons that Model/Content.lean, Model/Eval.lean and
Model/Query.lean transcribe, extracted from the current source on every run
(go/extract/dosnodeflow → Gen/DosnodeFlow.lean, go/extract/pkgvars → Gen/PkgVars.lean) and pinned
here.  A change to any of these statements – a cached compiled selector, a pooled buffer, a helper
between dataParse and the engines, a sort of the member list, a different argument – makes one of
these theorems fail within seconds and must be re-modelled before the theorems of Props/C07.lean
say anything about the code again.
-/
import DosModel.Gen.DosnodeFlow
import DosModel.Gen.PkgVars
import DosModel.Gen.ChainHandlerFacts

namespace Dos.Props.C07
open Dos

/-- **no process-wide state in package dosnode**: the package declares no package-level variable
at all (every non-test file, hook files included).  The stages are functions of their arguments and
of the objects handed to them; in particular two evaluations in flight share nothing inside the
package.  ANY new cache / pool / memo table at package level breaks this theorem. -/
theorem c07_no_package_state : Gen.PkgVars.dosnode = [] := by
  decide

example : Gen.PkgVars.dosnode.length = 0 := by decide

/-- `dataParse`: the deferred recover wrapper first; empty selector → the document; `$` → `ajson.JSONPath(rawMsg, pathStr)`, `Unpack` of every node, `json.Marshal`; `/` → `xmlquery.Parse`, `xmlquery.Find(rawMsgXml, pathStr)` (compiled afresh on every call), `OutputXML(false)` + line feed per node; anything else → `(nil, nil)`.  Since /repo 14409e8 both engine branches are guarded by a nesting bound (`jsonDepthExceeds(rawMsg, maxDocumentDepth)` before `ajson.JSONPath`, `xmlDepthExceeds(rawMsgXml, maxDocumentDepth)` after `xmlquery.Parse`): a document nested deeper than 1000 levels is an error at every member alike.  The only package-level identifiers it refers to are these two helpers and the constant (no cache; `c07_depth_guard_shape` pins the helpers: pure loops over their argument), and dos_stages.go imports exactly these packages. -/
theorem c07_parse_shape :
    Gen.DosnodeFlow.dataParse = [
      "func dataParse(rawMsg []byte, pathStr string) (msg []byte, err error)",
      "  defer func() ()",
      "    if r := recover(); r != nil",
      "      msg, err = nil, fmt.Errorf(\"dataParse: selector %q: %v\", pathStr, r)",
      "  if pathStr == \"\"",
      "    msg = rawMsg",
      "  else",
      "    if strings.HasPrefix(pathStr, \"$\")",
      "      if jsonDepthExceeds(rawMsg, maxDocumentDepth)",
      "        err = errors.New(\"dataParse: document nested deeper than 1000 levels\")",
      "        return",
      "      var nodes []*ajson.Node",
      "      nodes, err = ajson.JSONPath(rawMsg, pathStr)",
      "      if err != nil",
      "        return",
      "      results := make([]interface{}, 0)",
      "      for _, node := range nodes",
      "        var value interface{}",
      "        value, err = node.Unpack()",
      "        if err != nil",
      "          return",
      "        results = append(results, value)",
      "      msg, err = json.Marshal(results)",
      "    else",
      "      if strings.HasPrefix(pathStr, \"/\")",
      "        var rawMsgXml *xmlquery.Node",
      "        if rawMsgXml, err = xmlquery.Parse(bytes.NewReader(rawMsg)); err != nil",
      "          return",
      "        if xmlDepthExceeds(rawMsgXml, maxDocumentDepth)",
      "          err = errors.New(\"dataParse: document nested deeper than 1000 levels\")",
      "          return",
      "        xmlNodes := xmlquery.Find(rawMsgXml, pathStr)",
      "        for _, xmlNode := range xmlNodes",
      "          msg = append(msg, []byte(xmlNode.OutputXML(false))...)",
      "          msg = append(msg, \"\\n\"...)",
      "  return"]
    ∧ Gen.DosnodeFlow.dataParseCalls = [
      "recover()",
      "fmt.Errorf(\"dataParse: selector %q: %v\", pathStr, r)",
      "strings.HasPrefix(pathStr, \"$\")",
      "jsonDepthExceeds(rawMsg, maxDocumentDepth)",
      "errors.New(\"dataParse: document nested deeper than 1000 levels\")",
      "ajson.JSONPath(rawMsg, pathStr)",
      "make([]interface{}, 0)",
      "node.Unpack()",
      "append(results, value)",
      "json.Marshal(results)",
      "strings.HasPrefix(pathStr, \"/\")",
      "xmlquery.Parse(bytes.NewReader(rawMsg))",
      "bytes.NewReader(rawMsg)",
      "xmlDepthExceeds(rawMsgXml, maxDocumentDepth)",
      "errors.New(\"dataParse: document nested deeper than 1000 levels\")",
      "xmlquery.Find(rawMsgXml, pathStr)",
      "append(msg, []byte(xmlNode.OutputXML(false))...)",
      "[]byte(xmlNode.OutputXML(false))",
      "xmlNode.OutputXML(false)",
      "append(msg, \"\\n\"...)"]
    ∧ Gen.DosnodeFlow.dataParseRefs = [
      "jsonDepthExceeds",
      "maxDocumentDepth",
      "xmlDepthExceeds"]
    ∧ Gen.DosnodeFlow.dataParseRecovers = true
    ∧ Gen.DosnodeFlow.stagesImports = [
      "\"bytes\"",
      "\"context\"",
      "\"encoding/json\"",
      "\"errors\"",
      "\"fmt\"",
      "\"io\"",
      "\"io/ioutil\"",
      "\"math/big\"",
      "\"net/http\"",
      "\"strings\"",
      "\"sync\"",
      "\"time\"",
      "\"github.com/DOSNetwork/core/log\"",
      "\"github.com/DOSNetwork/core/onchain\"",
      "\"github.com/DOSNetwork/core/p2p\"",
      "\"github.com/DOSNetwork/core/share\"",
      "\"github.com/DOSNetwork/core/share/vss/pedersen\"",
      "\"github.com/DOSNetwork/core/sign/bls\"",
      "\"github.com/DOSNetwork/core/sign/tbls\"",
      "\"github.com/DOSNetwork/core/suites\"",
      "\"github.com/antchfx/xmlquery\"",
      "\"github.com/spyzhov/ajson\""] := by
  refine ⟨?_, ?_, ?_, ?_, ?_⟩ <;> rfl

example : "        xmlNodes := xmlquery.Find(rawMsgXml, pathStr)" ∈ Gen.DosnodeFlow.dataParse := by simp [Gen.DosnodeFlow.dataParse]

/-- **the nesting guard of `dataParse`** (/repo 14409e8): `jsonDepthExceeds` is one pass over the bytes of the document (brackets inside strings do not count, `depth > max` ⇒ true) – transcribed as `Eval.jsonDepthExceeds`; `xmlDepthExceeds` walks the parsed tree along FirstChild / NextSibling / Parent without recursion; neither refers to any package-level identifier; the bound is 1000. -/
theorem c07_depth_guard_shape :
    Gen.DosnodeFlow.jsonDepthExceeds = [
      "func jsonDepthExceeds(b []byte, max int) bool",
      "  depth, inString, escaped := 0, false, false",
      "  for _, c := range b",
      "    if inString",
      "      if escaped",
      "        escaped = false",
      "      else",
      "        if c == '\\\\'",
      "          escaped = true",
      "        else",
      "          if c == '\"'",
      "            inString = false",
      "      continue",
      "    switch c",
      "      case '\"'",
      "        inString = true",
      "      case '[', '{'",
      "        depth++",
      "        if depth > max",
      "          return true",
      "      case ']', '}'",
      "        if depth > 0",
      "          depth--",
      "  return false"]
    ∧ Gen.DosnodeFlow.jsonDepthExceedsRefs = []
    ∧ Gen.DosnodeFlow.xmlDepthExceeds = [
      "func xmlDepthExceeds(root *xmlquery.Node, max int) bool",
      "  depth := 0",
      "  for n := root; n != nil; ",
      "    if n.FirstChild != nil",
      "      n = n.FirstChild",
      "      depth++",
      "      if depth > max",
      "        return true",
      "      continue",
      "    for n != root && n.NextSibling == nil",
      "      n = n.Parent",
      "      depth--",
      "    if n == root",
      "      return false",
      "    n = n.NextSibling",
      "  return false"]
    ∧ Gen.DosnodeFlow.xmlDepthExceedsRefs = []
    ∧ Gen.DosnodeFlow.maxDocumentDepth = 1000 := by
  refine ⟨?_, ?_, ?_, ?_, ?_⟩ <;> rfl

example : "        if depth > max" ∈ Gen.DosnodeFlow.jsonDepthExceeds := by simp [Gen.DosnodeFlow.jsonDepthExceeds]

/-- `dataFetch`: one GET, at most `maxDocumentSize+1` bytes read through `io.LimitReader`, a longer document is an error; the only package-level identifier it uses is that constant. -/
theorem c07_fetch_shape :
    Gen.DosnodeFlow.dataFetch = [
      "func dataFetch(url string) (body []byte, err error)",
      "  client := &http.Client{Timeout: 60 * time.Second}",
      "  r, err := client.Get(url)",
      "  if err != nil",
      "    return",
      "  body, err = ioutil.ReadAll(io.LimitReader(r.Body, maxDocumentSize+1))",
      "  if err == nil && len(body) > maxDocumentSize",
      "    err = errors.New(\"document larger than the 16 MiB a node reads\")",
      "  if err != nil",
      "    body = nil",
      "    r.Body.Close()",
      "    return",
      "  err = r.Body.Close()",
      "  return"]
    ∧ Gen.DosnodeFlow.dataFetchCalls = [
      "client.Get(url)",
      "ioutil.ReadAll(io.LimitReader(r.Body, maxDocumentSize+1))",
      "io.LimitReader(r.Body, maxDocumentSize+1)",
      "len(body)",
      "errors.New(\"document larger than the 16 MiB a node reads\")",
      "r.Body.Close()",
      "r.Body.Close()"]
    ∧ Gen.DosnodeFlow.dataFetchRefs = [
      "maxDocumentSize"] := by
  refine ⟨?_, ?_, ?_⟩ <;> rfl

/-- the document bound is 16 MiB and the reader is cut one byte above it (so that "larger" is detectable) -/
theorem c07_fetch_bound : Gen.DosnodeFlow.maxDocumentSize = 16 * 2 ^ 20 ∧ Gen.DosnodeFlow.fetchReadLimit = 16 * 2 ^ 20 + 1 := by
  decide

example : Gen.DosnodeFlow.fetchReadLimit - Gen.DosnodeFlow.maxDocumentSize = 1 := by decide

/-- the three content stages and `padOrTrim`, statement by statement: `genQueryResult` = `dataFetch(url)`, `dataParse(rawMsg, pathStr)`, `append(msgReturn, submitter...)`; `genSysRandom` = `append(padOrTrim(lastSysRand, randNumberSize), submitter...)`; `genUserRandom` = requestId ‖ lastSysRand ‖ userSeed ‖ submitter; and the package-level identifiers each refers to. -/
theorem c07_content_stage_shape :
    Gen.DosnodeFlow.genQueryResult = [
      "func genQueryResult(ctx context.Context, submitterc chan []byte, url string, pathStr string, logger log.Logger) (chan []byte, chan error)",
      "  out := make(chan []byte)",
      "  errc := make(chan error)",
      "  go func() ()",
      "    startTime := time.Now()",
      "    defer close(out)",
      "    defer close(errc)",
      "    rawMsg, err := dataFetch(url)",
      "    if err != nil",
      "      reportErr(ctx, errc, err)",
      "      return",
      "    msgReturn, err := dataParse(rawMsg, pathStr)",
      "    if err != nil",
      "      reportErr(ctx, errc, err)",
      "      return",
      "    select",
      "      case submitter, ok := <-submitterc",
      "        if !ok",
      "          return",
      "        msgReturn = append(msgReturn, submitter...)",
      "        select",
      "          case out <- msgReturn",
      "          case <-ctx.Done()",
      "        return",
      "      case <-ctx.Done()",
      "        return",
      "  return out, errc"]
    ∧ Gen.DosnodeFlow.genQueryResultRefs = [
      "ctxKey",
      "dataFetch",
      "dataParse",
      "reportErr"]
    ∧ Gen.DosnodeFlow.genSysRandom = [
      "func genSysRandom(ctx context.Context, submitterc chan []byte, lastSysRand []byte, logger log.Logger) chan []byte",
      "  out := make(chan []byte)",
      "  go func() ()",
      "    defer close(out)",
      "    select",
      "      case submitter, ok := <-submitterc",
      "        if !ok",
      "          return",
      "        paddedLastSysRand := padOrTrim(lastSysRand, randNumberSize)",
      "        random := append(paddedLastSysRand, submitter...)",
      "        select",
      "          case out <- random",
      "          case <-ctx.Done()",
      "        return",
      "      case <-ctx.Done()",
      "        return",
      "  return out"]
    ∧ Gen.DosnodeFlow.genSysRandomRefs = [
      "ctxKey",
      "padOrTrim",
      "randNumberSize"]
    ∧ Gen.DosnodeFlow.genUserRandom = [
      "func genUserRandom(ctx context.Context, submitterc chan []byte, requestId []byte, lastSysRand []byte, userSeed []byte, logger log.Logger) chan []byte",
      "  out := make(chan []byte)",
      "  go func() ()",
      "    defer close(out)",
      "    select",
      "      case submitter, ok := <-submitterc",
      "        if !ok",
      "          return",
      "        random := append(requestId, lastSysRand...)",
      "        random = append(random, userSeed...)",
      "        random = append(random, submitter...)",
      "        select",
      "          case out <- random",
      "          case <-ctx.Done()",
      "        return",
      "      case <-ctx.Done()",
      "        return",
      "  return out"]
    ∧ Gen.DosnodeFlow.genUserRandomRefs = [
      "ctxKey"]
    ∧ Gen.DosnodeFlow.padOrTrim = [
      "func padOrTrim(bb []byte, size int) []byte",
      "  l := len(bb)",
      "  if l == size",
      "    return bb",
      "  if l > size",
      "    return bb[l-size:]",
      "  tmp := make([]byte, size)",
      "  copy(tmp[size-l:], bb)",
      "  return tmp"]
    ∧ Gen.DosnodeFlow.padOrTrimRefs = [] := by
  refine ⟨?_, ?_, ?_, ?_, ?_, ?_, ?_, ?_⟩ <;> rfl

example : "        msgReturn = append(msgReturn, submitter...)" ∈ Gen.DosnodeFlow.genQueryResult := by simp [Gen.DosnodeFlow.genQueryResult]

/-- **the content functions read nothing but their arguments** (round 5): inside `dataParse`, `jsonDepthExceeds`, `xmlDepthExceeds`, `dataFetch`, `genQueryResult`, `genSysRandom`, `genUserRandom`, `choseSubmitter`, `padOrTrim` there is NO call into time / rand / os / runtime / syscall / sync / atomic / unsafe / reflect whose value could reach the result (`contentForbidden = []`): the only such reads are two `time.Now()` whose every later use is inside a logging statement, and every `range` runs over a slice declared in the pinned skeleton (`nodes []*ajson.Node`, the result of `xmlquery.Find`, `outs []chan []byte`) – no map iteration.  Together with `c07_no_package_state` (no package-level variable) and the `…Refs` lists (no helper with state) this is the code-side of "the content is a function of the request fields and the fetched document only". -/
theorem c07_content_reads_nothing_else :
    Gen.DosnodeFlow.contentForbidden = []
    ∧ Gen.DosnodeFlow.contentClockVars = [
      "genQueryResult: startTime := time.Now()",
      "choseSubmitter: start := time.Now()"]
    ∧ Gen.DosnodeFlow.contentRanges = [
      "dataParse: nodes",
      "dataParse: xmlNodes",
      "jsonDepthExceeds: b",
      "choseSubmitter: outs",
      "choseSubmitter: outs"] := by
  refine ⟨?_, ?_, ?_⟩ <;> rfl

example : Gen.DosnodeFlow.contentForbidden.length = 0 ∧ Gen.DosnodeFlow.contentClockVars.length = 2 := by decide

/-- `choseSubmitter`: `submitter := lastSysRand.Uint64() % uint64(len(ids))`, then `ids[submitter]` on every output channel – the list is indexed as it was handed in (no copy, sort or de-duplication). -/
theorem c07_submitter_shape :
    Gen.DosnodeFlow.choseSubmitter = [
      "func choseSubmitter(ctx context.Context, p p2p.P2PInterface, e onchain.ProxyAdapter, lastSysRand *big.Int, ids [][]byte, outCount int, logger log.Logger) ([]chan []byte, chan error)",
      "  errc := make(chan error)",
      "  var outs []chan []byte",
      "  for i := 0; i < outCount; i++",
      "    outs = append(outs, make(chan []byte, 1))",
      "  go func() ()",
      "    defer close(errc)",
      "    start := time.Now()",
      "    submitter := lastSysRand.Uint64() % uint64(len(ids))",
      "    for _, out := range outs",
      "      select",
      "        case out <- ids[submitter]",
      "        case <-ctx.Done()",
      "    for _, out := range outs",
      "      close(out)",
      "    return",
      "  return outs, errc"]
    ∧ Gen.DosnodeFlow.choseSubmitterRefs = [
      "ctxKey"] := by
  refine ⟨?_, ?_⟩ <;> rfl

example : "        case out <- ids[submitter]" ∈ Gen.DosnodeFlow.choseSubmitter := by simp [Gen.DosnodeFlow.choseSubmitter]

/-- the way of the signed content to the chain: `genSign` stores the content in `sign.Content` and signs exactly it; `dispatchSign` forwards the message unchanged – and, since /repo 7f58072, closes `out` and returns WITHOUT registering for the peers' shares when `genSign` delivered no share (`!ok || sign == nil`: the content stage of this node failed); `recoverSign` (since /repo 3a1c0bc it defers `drainSigns`, which only receives and drops) recovers and verifies over `sign.Content`, then reports `Content: queryResult` = the first `len(Content) - addrLen` bytes (`make` + `copy`); `reportQueryResult` hands that message to `UpdateRandomness` / `DataReturn` unchanged. -/
theorem c07_sign_report_shape :
    Gen.DosnodeFlow.genSign = [
      "func genSign(ctx context.Context, contentc chan []byte, sec *share.PriShare, suite suites.Suite, sign *vss.Signature, logger log.Logger) (chan *vss.Signature, chan error)",
      "  out := make(chan *vss.Signature)",
      "  errc := make(chan error)",
      "  go func() ()",
      "    defer close(out)",
      "    defer close(errc)",
      "    select",
      "      case content, ok := <-contentc",
      "        if !ok",
      "          return",
      "        sign.Content = content",
      "        sig, err := tbls.Sign(suite, sec, content)",
      "        if err != nil",
      "          select",
      "            case errc <- err",
      "            case <-ctx.Done()",
      "          return",
      "        sign.Signature = sig",
      "        select",
      "          case <-ctx.Done()",
      "          case out <- sign",
      "        return",
      "      case <-ctx.Done()",
      "        return",
      "  return out, errc"]
    ∧ Gen.DosnodeFlow.genSignRefs = [
      "ctxKey"]
    ∧ Gen.DosnodeFlow.dispatchSign = [
      "func dispatchSign(ctx context.Context, submitterc chan []byte, signc chan *vss.Signature, reqSignc chan request, p p2p.P2PInterface, requestID []byte, threshold int, logger log.Logger) chan *vss.Signature",
      "  out := make(chan *vss.Signature)",
      "  go func() ()",
      "    select",
      "      case submitter, ok := <-submitterc",
      "        if !ok",
      "          close(out)",
      "          return",
      "        if r := bytes.Compare(p.GetID(), submitter); r != 0",
      "          select",
      "            case <-ctx.Done()",
      "            case sign := <-signc",
      "              if _, err := p.Request(ctx, submitter, sign); err != nil",
      "          close(out)",
      "          return",
      "      case <-ctx.Done()",
      "        close(out)",
      "        return",
      "    select",
      "      case <-ctx.Done()",
      "        close(out)",
      "        return",
      "      case sign, ok := <-signc",
      "        if !ok || sign == nil",
      "          close(out)",
      "          return",
      "        select",
      "          case <-ctx.Done()",
      "            close(out)",
      "            return",
      "          case out <- sign",
      "    req := request{ctx: ctx, requestID: string(requestID), threshold: threshold, reply: out}",
      "    select",
      "      case <-ctx.Done()",
      "        close(out)",
      "      case reqSignc <- req",
      "  return out"]
    ∧ Gen.DosnodeFlow.dispatchSignRefs = [
      "ctxKey",
      "request"]
    ∧ Gen.DosnodeFlow.recoverSign = [
      "func recoverSign(ctx context.Context, signc chan *vss.Signature, suite suites.Suite, pubPoly *share.PubPoly, nbThreshold int, nbParticipants int, logger log.Logger) (chan *vss.Signature, chan error)",
      "  out := make(chan *vss.Signature)",
      "  errc := make(chan error)",
      "  go func() ()",
      "    var signShares [][]byte",
      "    var own *vss.Signature",
      "    defer drainSigns(ctx, signc)",
      "    defer close(out)",
      "    defer close(errc)",
      "    for",
      "      select",
      "        case sign, ok := <-signc",
      "          if !ok",
      "            return",
      "          if len(signShares) == 0",
      "          if sign == nil || sign.Signature == nil || sign.Content == nil",
      "            err := errors.New(\"Detected nil pointer and skipped\")",
      "            reportErr(ctx, errc, err)",
      "            continue",
      "          if own == nil",
      "            own = sign",
      "          else",
      "            if sign.Index != own.Index || !bytes.Equal(sign.Content, own.Content)",
      "              err := errors.New(\"share for another content or request type skipped\")",
      "              reportErr(ctx, errc, err)",
      "              continue",
      "          signShares = append(signShares, sign.Signature)",
      "          if len(signShares) >= nbThreshold",
      "            sig, err := tbls.Recover(suite, pubPoly, sign.Content, signShares, nbThreshold, nbParticipants)",
      "            if err != nil",
      "              reportErr(ctx, errc, err)",
      "              continue",
      "            if err = bls.Verify(suite, pubPoly.Commit(), sign.Content, sig); err != nil",
      "              reportErr(ctx, errc, err)",
      "              continue",
      "            x, y := sign.ToBigInt()",
      "            t := len(sign.Content) - addrLen",
      "            if t < 0",
      "              reportErr(ctx, errc, errors.New(\"length of content less than 0\"))",
      "              continue",
      "            queryResult := make([]byte, t)",
      "            copy(queryResult, sign.Content)",
      "            select",
      "              case out <- &vss.Signature{Index: sign.Index, RequestId: sign.RequestId, Content: queryResult, Signature: sig}",
      "              case <-ctx.Done()",
      "            return",
      "        case <-ctx.Done()",
      "          return",
      "  return out, errc"]
    ∧ Gen.DosnodeFlow.recoverSignRefs = [
      "addrLen",
      "ctxKey",
      "drainSigns",
      "reportErr"]
    ∧ Gen.DosnodeFlow.drainSigns = [
      "func drainSigns(ctx context.Context, signc chan *vss.Signature)",
      "  for",
      "    select",
      "      case _, ok := <-signc",
      "        if !ok",
      "          return",
      "      case <-ctx.Done()",
      "        return"]
    ∧ Gen.DosnodeFlow.drainSignsRefs = []
    ∧ Gen.DosnodeFlow.reportQueryResult = [
      "func reportQueryResult(ctx context.Context, chain onchain.ProxyAdapter, queryType uint32, signC chan *vss.Signature) (errc chan error)",
      "  errc = make(chan error)",
      "  go func() ()",
      "    defer close(errc)",
      "    var err error",
      "    select",
      "      case signature, ok := <-signC",
      "        if ok",
      "          if queryType == onchain.TrafficSystemRandom",
      "            err = chain.UpdateRandomness(signature)",
      "          else",
      "            err = chain.DataReturn(signature)",
      "        else",
      "          err = errors.New(\"no signature\")",
      "      case <-ctx.Done()",
      "        return",
      "    if err != nil",
      "      select",
      "        case errc <- err",
      "        case <-ctx.Done()",
      "  return"]
    ∧ Gen.DosnodeFlow.reportQueryResultRefs = [] := by
  refine ⟨?_, ?_, ?_, ?_, ?_, ?_, ?_, ?_, ?_, ?_⟩ <;> rfl

example : "            copy(queryResult, sign.Content)" ∈ Gen.DosnodeFlow.recoverSign := by simp [Gen.DosnodeFlow.recoverSign]

/-- **the whole body of `handleQuery`** (round 5; before, nine statements selected by substring were pinned): the context, the nonce (which does not enter the content), `sign` with `Index: pType, RequestId: requestID.Bytes()`, then `choseSubmitter(…, lastRand, ids, 2, …)`, the content stage of the kind on `submitterc[0]` with `lastRand.Bytes()` / `requestID.Bytes(), lastRand.Bytes(), useSeed.Bytes()` / `url, selector`, `genSign`, `dispatchSign(…, submitterc[1], signc, d.reqSignc, d.p, requestID.Bytes(), (len(ids)/2 + 1), …)`, `recoverSign(…, pubPoly, (len(ids)/2 + 1), len(ids), …)`, `reportQueryResult(…, pType, …)` – and NOTHING between them: `lastRand`, `requestID`, `useSeed`, `ids` are never assigned. -/
theorem c07_handle_query_shape :
    Gen.DosnodeFlow.handleQuery = [
      "func handleQuery(ids [][]byte, pubPoly *share.PubPoly, sec *share.PriShare, groupID string, requestID, lastRand, useSeed *big.Int, url, selector string, pType uint32)",
      "  queryCtx, cancel := context.WithTimeout(context.Background(), time.Duration(60*d.chain.GetBlockTime())*time.Second)",
      "  defer cancel()",
      "  queryCtxWithValue := context.WithValue(context.WithValue(queryCtx, ctxKey(\"RequestID\"), fmt.Sprintf(\"%x\", requestID)), ctxKey(\"GroupID\"), groupID)",
      "  defer cancel()",
      "  var nonce []byte",
      "  switch pType",
      "    case onchain.TrafficSystemRandom",
      "      var bytes []byte",
      "      bytes = append(bytes, []byte(groupID)...)",
      "      bytes = append(bytes, requestID.Bytes()...)",
      "      bytes = append(bytes, lastRand.Bytes()...)",
      "      nHash := sha256.Sum256(bytes)",
      "      nonce = nHash[:]",
      "    case onchain.TrafficUserRandom",
      "      var bytes []byte",
      "      bytes = append(bytes, []byte(groupID)...)",
      "      bytes = append(bytes, requestID.Bytes()...)",
      "      bytes = append(bytes, lastRand.Bytes()...)",
      "      bytes = append(bytes, useSeed.Bytes()...)",
      "      nHash := sha256.Sum256(bytes)",
      "      nonce = nHash[:]",
      "    case onchain.TrafficUserQuery",
      "      var bytes []byte",
      "      bytes = append(bytes, []byte(groupID)...)",
      "      bytes = append(bytes, requestID.Bytes()...)",
      "      bytes = append(bytes, lastRand.Bytes()...)",
      "      bytes = append(bytes, []byte(url)...)",
      "      bytes = append(bytes, []byte(selector)...)",
      "      nHash := sha256.Sum256(bytes)",
      "      nonce = nHash[:]",
      "  sign := &vss.Signature{ Index: pType, RequestId: requestID.Bytes(), Nonce: nonce, }",
      "  var errcList []chan error",
      "  submitterc, errc := choseSubmitter(queryCtxWithValue, d.p, d.chain, lastRand, ids, 2, d.logger)",
      "  errcList = append(errcList, errc)",
      "  var contentc chan []byte",
      "  switch pType",
      "    case onchain.TrafficSystemRandom",
      "      contentc = genSysRandom(queryCtxWithValue, submitterc[0], lastRand.Bytes(), d.logger)",
      "    case onchain.TrafficUserRandom",
      "      contentc = genUserRandom(queryCtxWithValue, submitterc[0], requestID.Bytes(), lastRand.Bytes(), useSeed.Bytes(), d.logger)",
      "    case onchain.TrafficUserQuery",
      "      contentc, errc = genQueryResult(queryCtxWithValue, submitterc[0], url, selector, d.logger)",
      "      errcList = append(errcList, errc)",
      "  signc, errc := genSign(queryCtxWithValue, contentc, sec, d.suite, sign, d.logger)",
      "  errcList = append(errcList, errc)",
      "  signAllc := dispatchSign(queryCtxWithValue, submitterc[1], signc, d.reqSignc, d.p, requestID.Bytes(), (len(ids)/2 + 1), d.logger)",
      "  errcList = append(errcList, errc)",
      "  recoveredSignc, errc := recoverSign(queryCtxWithValue, signAllc, d.suite, pubPoly, (len(ids)/2 + 1), len(ids), d.logger)",
      "  errcList = append(errcList, errc)",
      "  errcList = append(errcList, reportQueryResult(queryCtxWithValue, d.chain, pType, recoveredSignc))",
      "  allErrc := mergeErrors(queryCtxWithValue, errcList...)",
      "  for",
      "    select",
      "      case err, ok := <-allErrc",
      "        if !ok",
      "          return",
      "      case <-queryCtxWithValue.Done()",
      "        return"]
    ∧ Gen.DosnodeFlow.handleQueryRefs = [
      "choseSubmitter",
      "ctxKey",
      "dispatchSign",
      "genQueryResult",
      "genSign",
      "genSysRandom",
      "genUserRandom",
      "mergeErrors",
      "recoverSign",
      "reportQueryResult"] := by
  refine ⟨?_, ?_⟩ <;> rfl

example : "  submitterc, errc := choseSubmitter(queryCtxWithValue, d.p, d.chain, lastRand, ids, 2, d.logger)" ∈ Gen.DosnodeFlow.handleQuery := by simp [Gen.DosnodeFlow.handleQuery]

/-- **`handleCR`** is started by `onchainLoop` with `randSeed` = the `*big.Int` of the latest request event – the SAME object the concurrently started `handleQuery` reads as `lastRand` / `requestID`.  As pinned it only reads it (`Cmp`, bound of `rand.Int`) or rebinds the local name; an in-place operation on it (seeded change C07f: `randSeed.Add(randSeed, …)`) changes this text.  The `evs` cases of the correspondence run check the event objects after the handlers ran. -/
theorem c07_handle_cr_shape :
    Gen.DosnodeFlow.handleCR = [
      "func handleCR(cr *onchain.LogStartCommitReveal, randSeed *big.Int)",
      "  if randSeed.Cmp(big.NewInt(1)) == -1",
      "    randSeed, _ = new(big.Int).SetString(\"21888242871839275222246405745257275088548364400416034343698204186575808495617\", 10)",
      "  sec, err := rand.Int(rand.Reader, randSeed)",
      "  if err != nil",
      "    return",
      "  h := sha3.NewLegacyKeccak256()",
      "  h.Write(math.U256Bytes(sec))",
      "  b := h.Sum(nil)",
      "  hash := byte32(b)",
      "  currentBlockNumber, err := d.chain.CurrentBlock()",
      "  if err != nil",
      "    return",
      "  cid := cr.Cid",
      "  waitCommit := cr.StartBlock.Uint64() - currentBlockNumber + 1",
      "  waitReveal := cr.CommitDuration.Uint64() + 1",
      "  waitRandom := cr.RevealDuration.Uint64() + 1",
      "  if waitCommit < 0",
      "    waitReveal = waitReveal - waitCommit",
      "    waitRandom = waitRandom - waitCommit",
      "    waitCommit = 0",
      "  time.Sleep(time.Duration(waitCommit*d.chain.GetBlockTime()) * time.Second)",
      "  if err := d.chain.Commit(cid, *hash); err != nil",
      "  <-time.After(time.Duration(waitReveal*d.chain.GetBlockTime()) * time.Second)",
      "  if err := d.chain.Reveal(cid, sec); err != nil"] := by
  rfl

example : "  sec, err := rand.Int(rand.Reader, randSeed)" ∈ Gen.DosnodeFlow.handleCR := by simp [Gen.DosnodeFlow.handleCR]

/-- **every occurrence of the stored member list** (round 5, review H #1): in pdkg.go, pdkg_pipes.go and the dosnode files the field `participants` occurs – in ANY position: left-hand side sub-expression, argument of copy / append / sort, range operand, read – only in the store (`participantsWrites`, the literal of `Grouping`) and in the read of `GetGroupIDs`; and `Grouping` hands its parameter `groupIds` (the stored slice IS that slice) to exactly these calls.  What those callees do with it is NOT pinned by text: the `grpk` cases run a COMPLETE key generation on three members and compare every member's list with the announcement afterwards. -/
theorem c07_member_list_uses :
    Gen.DosnodeFlow.participantsUses = [
      "pdkg.go: participants = g.(*group).participants"]
    ∧ Gen.DosnodeFlow.groupIdsUses = [
      "Grouping: group := &group{participants: groupIds}",
      "Grouping: selfPubc, secrc, errc := genPub(ctx, d.logger, d.suite, d.p.GetID(), groupIds, sessionID)",
      "Grouping: errcList = append(errcList, sendToMembers(ctx, d.logger, selfPubcs[0], d.p, groupIds, sessionID))",
      "Grouping: peerPubc := askMembers(ctx, d.logger, d.bufToNode, len(groupIds)-1, 0, sessionID)",
      "Grouping: partPubsc, errc := exchangePub(ctx, d.logger, selfPubcs[1], peerPubc, d.p, groupIds, sessionID)",
      "Grouping: dkgcStep1, errc := genDistKeyGenerator(ctx, d.logger, secrc, partPubsc, len(groupIds), d.suite, sessionID)",
      "Grouping: dkgcStep2, errc := genDealsAndSend(ctx, d.logger, dkgcStep1, d.p, groupIds, sessionID)",
      "Grouping: dkgcStep3, respsc, errc := getAndProcessDeals(ctx, d.logger, dkgcStep2, askMembers(ctx, d.logger, d.bufToNode, len(groupIds)-1, 1, sessionID), sessionID)",
      "Grouping: errcList = append(errcList, sendToMembers(ctx, d.logger, respsc, d.p, groupIds, sessionID))",
      "Grouping: cetifiedDkgc, errc := getAndProcessResponses(ctx, d.logger, dkgcStep3, askMembers(ctx, d.logger, d.bufToNode, (len(groupIds)-1)*(len(groupIds)-1), 2, sessionID), sessionID)"] := by
  refine ⟨?_, ?_⟩ <;> rfl

example : Gen.DosnodeFlow.participantsUses.length = 1 := by decide

/-- the member list from the chain event to `choseSubmitter`: `onchainLoop` starts `handleGrouping(content.NodeId, groupID)`; `handleGrouping` tests membership and calls `d.dkg.Grouping(ctx, groupID, participants)`; `pdkg.Grouping` stores `&group{participants: groupIds}` with `LoadOrStore` (first announcement wins); `GetGroupIDs` returns that field, `GroupDissolve` deletes the entry; `groupInfo` takes `GetGroupIDs(groupID)`; nothing else writes `participants` and package sort is not used anywhere on the way. -/
theorem c07_group_table_shape :
    Gen.DosnodeFlow.handleGrouping = [
      "isMember := false",
      "for _, id := range participants",
      "  if r := bytes.Compare(d.id, id); r == 0",
      "    isMember = true",
      "    break",
      "if !isMember",
      "  return",
      "ctx, cancel := context.WithTimeout(context.Background(), time.Duration(20*d.chain.GetBlockTime())*time.Second)",
      "defer cancel()",
      "var errcList []chan error",
      "outFromDkg, errc, err := d.dkg.Grouping(ctx, groupID, participants)"]
    ∧ Gen.DosnodeFlow.groupingStore = [
      "func Grouping(ctx context.Context, sessionID string, groupIds [][]byte) (chan [5]*big.Int, chan error, error)",
      "  group := &group{participants: groupIds}",
      "  var errcList []chan error",
      "  if _, loaded := d.groups.LoadOrStore(sessionID, group); loaded",
      "    return nil, nil, errors.New(\"dkg: duplicate share public key\")"]
    ∧ Gen.DosnodeFlow.pdkgGetGroupIDs = [
      "func GetGroupIDs(groupId string) (participants [][]byte)",
      "  if g, loaded := d.groups.Load(groupId); loaded",
      "    participants = g.(*group).participants",
      "  return"]
    ∧ Gen.DosnodeFlow.pdkgGroupDissolve = [
      "func GroupDissolve(groupId string)",
      "  d.groups.Delete(groupId)"]
    ∧ Gen.DosnodeFlow.participantsWrites = [
      "pdkg.go: participants: groupIds"]
    ∧ Gen.DosnodeFlow.sortUses = []
    ∧ Gen.ChainHandlerFacts.groupInfo = [
      "ids = d.dkg.GetGroupIDs(groupID)",
      "pubPoly = d.dkg.GetGroupPublicPoly(groupID)",
      "sec = d.dkg.GetShareSecurity(groupID)",
      "if len(ids) == 0 || pubPoly == nil || sec == nil",
      "  err = errors.New(\"No Group info\")",
      "return"]
    ∧ "    go d.handleGrouping(content.NodeId, groupID)" ∈ Gen.ChainHandlerFacts.dispatch := by
  refine ⟨rfl, rfl, rfl, rfl, rfl, rfl, rfl, by simp [Gen.ChainHandlerFacts.dispatch]⟩

example : Gen.DosnodeFlow.participantsWrites.length = 1 := by decide

end Dos.Props.C07

/-
Line-protocol interpreter of the C05 `libadv` family (go/internal/dkgnet/libadv.go): n generators of
`Model/Dkg.lean` on the discrete-log instance `Zr`, driven DIRECTLY by `processDeal` /
`processResponse` / `processJustification` – the library level, no session layer and no pipeline
stage – with the adversarial message language of `Model/DkgSim.lean`.  Observed: `certified`, `qual`,
`distKeyShare` of every member.
-/
import DosModel.Model.DkgSim

namespace Dos.DkgLibSim
open Dos Dos.Vss Dos.Dkg Dos.DkgSim

structure World where
  n : Nat
  gens : List (Option (Gen S P))
  dealsOf : List (List (Nat × DkgDeal S P))      -- per dealer: (recipient, message)
  resp : List (Nat × Nat × DkgResp S P)          -- (responder k, dealer j, message)
  just : List (Nat × Nat × DkgJust S P)          -- (dealer j, complainer k, message)

def mkWorld (n : Nat) : World :=
  let t := n / 2 + 1
  let L := pubs [] n
  let init := (List.range n).map (fun k =>
    match newGen g (longOf [] k) L (polyOf 11 t k) with
    | .error _ => (none, [])
    | .ok d =>
      match deals g d (ephsOf 9000 n k) with
      | .ok (d1, ds) => (some d1, ds)
      | _ => (none, []))
  { n := n, gens := init.map (·.1), dealsOf := init.map (·.2), resp := [], just := [] }

def getGen (w : World) (i : Nat) : Option (Gen S P) := (w.gens[i]?).join

/-- the plaintext inside the adversarial deal variant (what an adversarial justification carries) -/
def advPlain (n sealer rcpt : Nat) (variant : String) : Option (Deal S P) :=
  match (advDeal [] n 0 sealer rcpt variant).deal with
  | some e => match e.cipher with
    | .seal _ _ _ (.deal d) => some d
    | _ => none
  | none => none

def sidOfSpec (w : World) (sidspec : String) : Sid P :=
  let n := w.n
  if sidspec.startsWith "cur" then
    match getGen w (parseNat (sidspec.drop 3).toString) with
    | some d => d.dealer.sid
    | none => .raw 0
  else if sidspec.startsWith "p" then
    let parts := ((sidspec.drop 1).toString).splitOn "_"
    let sealer := parseNat (parts.getD 0 ""); let p := parseNat (parts.getD 1 "")
    .h (longOf [] sealer • g) (pubs [] n) (commit g (advPoly sealer p (n / 2 + 1))) (n / 2 + 1)
  else .raw 7

def advResp (w : World) (dealer responder : Nat) (sidspec : String) (approve : Bool) (signer : String) : DkgResp S P :=
  let sid := sidOfSpec w sidspec
  let sig : RespSig S P :=
    if signer = "junk" then .junk 1
    else if signer = "none" then .junk 0
    else .sign (longOf [] (parseNat signer)) sid responder approve 0
  ⟨dealer, some { sid := sid, index := responder, status := approve, sig := sig }⟩

def doDeal (w : World) (out : List String) (i : Nat) (m : DkgDeal S P) : World × List String :=
  match getGen w i with
  | none => (w, out ++ ["bad"])
  | some d =>
    let (d1, r) := processDeal g d m
    let w1 := { w with gens := w.gens.set i (some d1) }
    match r with
    | .error e => (w1, out ++ [e.name])
    | .ok rm =>
      let st := match rm.resp with | some r => r.status | none => false
      let have_ := w1.resp.any (fun x => x.1 = i ∧ x.2.1 = m.index)
      ({ w1 with resp := if have_ then w1.resp else w1.resp ++ [(i, m.index, rm)] }, out ++ [if st then "a" else "c"])

def doResp (w : World) (out : List String) (i : Nat) (m : DkgResp S P) : World × List String :=
  match getGen w i with
  | none => (w, out ++ ["bad"])
  | some d =>
    let (d1, r) := processResponse g d m
    let w1 := { w with gens := w.gens.set i (some d1) }
    match r with
    | .error (.vss .respSig) => (w1, out ++ ["sig"])     -- the harness maps every schnorr error to "sig"
    | .error e => (w1, out ++ [e.name])
    | .ok none => (w1, out ++ ["ok"])
    | .ok (some ju) =>
      let have_ := w1.just.any (fun x => x.1 = ju.index ∧ x.2.1 = ju.jidx)
      ({ w1 with just := if have_ then w1.just else w1.just ++ [(ju.index, ju.jidx, ju)] }, out ++ ["j"])

def doJust (w : World) (out : List String) (i : Nat) (ju : DkgJust S P) : World × List String :=
  match getGen w i with
  | none => (w, out ++ ["bad"])
  | some d =>
    let (d1, r) := processJustification g d ju
    let w1 := { w with gens := w.gens.set i (some d1) }
    match r with
    | none => (w1, out ++ ["ok"])
    | some (.vss .noDealBeforeResp) => (w1, out ++ ["nilagg"])   -- Go: nil aggregator dereference
    | some e => (w1, out ++ [e.name])

def stepEv (acc : World × List String) (ev : String) : World × List String :=
  let (w, out) := acc
  match ev.splitOn "@" with
  | [spec, to] =>
    let to := parseNat to
    let f := spec.splitOn "."
    let a (k : Nat) : Nat := parseNat (f.getD k "")
    match f.head? with
    | some "D" => doDeal w out to (advDeal [] w.n (a 1) (a 2) (a 3) (String.intercalate "." (f.drop 4)))
    | some "R" => doResp w out to (advResp w (a 1) (a 2) (f.getD 3 "") (f.getD 4 "" = "a") (f.getD 5 ""))
    | some "GR" =>
      match w.resp.find? (fun x => x.1 = a 1 ∧ x.2.1 = a 2) with
      | some (_, _, m) => doResp w out to { m with index := a 3 }
      | none => (w, out ++ ["na"])
    | some "RN" => doResp w out to ⟨a 1, none⟩
    | some "J" =>
      match advPlain w.n (a 3) (a 2) (String.intercalate "." (f.drop 4)) with
      | some pd => doJust w out to { index := a 1, jidx := a 2, deal := pd }
      | none => (w, out ++ ["bad"])
    | _ => (w, out ++ ["bad"])
  | _ =>
    let kind := (ev.take 1).toString
    let p := ((ev.drop 1).toString).splitOn "."
    let a (k : Nat) : Nat := parseNat (p.getD k "")
    if kind = "d" then
      match ((w.dealsOf[a 0]?).getD []).find? (fun x => x.1 = a 1) with
      | some (_, m) => doDeal w out (a 1) m
      | none => (w, out ++ ["na"])
    else if kind = "r" then
      match w.resp.find? (fun x => x.1 = a 0 ∧ x.2.1 = a 1) with
      | some (_, _, m) => doResp w out (a 2) m
      | none => (w, out ++ ["na"])
    else if kind = "j" then
      match w.just.find? (fun x => x.1 = a 0 ∧ x.2.1 = a 1) with
      | some (_, _, ju) => doJust w out (a 2) ju
      | none => (w, out ++ ["na"])
    else (w, out ++ ["bad"])

def finishLine (w : World) (evres : List String) : String :=
  let per := (List.range w.n).map (fun k =>
    match getGen w k with
    | none => ("0", "-", (none : Option (KeyShare S P)), "bad")
    | some d =>
      let q := qual d
      let qs := if q.isEmpty then "-" else String.intercalate "." (q.map toString)
      let c := if certified d then "1" else "0"
      match distKeyShare d with
      | .ok ks => (c, qs, some ks, "ok")
      | .err e => (c, qs, none, e.name)
      | .panic _ => (c, qs, none, "panic"))
  s!"ev={String.intercalate "," evres} cert={String.join (per.map (·.1))} qual={String.intercalate "/" (per.map (·.2.1))} out={String.intercalate "," (per.map (·.2.2.2))} keys={keyClasses (per.map (·.2.2.1))}"

/-- "libadv <seed> <n> <b> <events>" -/
def runLine (w : List String) : String :=
  match w with
  | [_, _seed, n, _b, evs] =>
    let n := parseNat n
    let world := mkWorld n
    let (w1, out) := if evs = "-" then (world, []) else (evs.splitOn ",").foldl stepEv (world, [])
    finishLine w1 out
  | _ => "bad-op"

end Dos.DkgLibSim

/-
C10 — concrete, kernel-evaluated instances of the pairing claims that are NOT proved in general
(bilinearity / non-degeneracy of the implemented optimal-ate map are differential only, see
meta/C10.json "partial"): the transcribed Miller loop and final exponentiation are run by the Lean
kernel on the generators regenerated from /repo.
-/
import DosModel.Proofs.Bn256Consts

namespace Dos.Props.C10Pairing
open Dos Dos.Bn256

set_option maxRecDepth 1000000 in
/-- concrete instances of bilinearity and of the check on the generators, evaluated in the kernel through
the transcribed pairing: e(G1, −G2)·e(G1,G2) = 1 and check([G1,−G1],[G2,G2]) -/
theorem pairing_instances :
    Fp12.mul (optimalAte (twistNeg twistGen) curveGen) gfP12Gen = Fp12.one ∧
    pairingCheck [(curveGen, twistGen), (curveNeg curveGen, twistGen)] = true := by decide +kernel

/-- non-degeneracy on the generators: e(G1,G2) ≠ 1 -/
theorem pairing_generator_nontrivial : gfP12Gen ≠ Fp12.one := by decide

end Dos.Props.C10Pairing

#!/bin/sh
# seedtest.sh <Cxx> <srcdir (contains patch.diff, demo/)> <demo command, run from the repo root> [check ids...]
# Confirms a seeded change in a scratch worktree of /repo: builds, baseline suite passes,
# demo passes without and fails with the change; then runs ./check against the changed tree.
export GOFLAGS=-mod=mod GOPROXY=off GOSUMDB=off GOTOOLCHAIN=local
P=$1; SRC=$2; DEMO=$3; shift 3; IDS=${@:-$P}
WT=/tmp/mt-$P-$$
git -C /repo worktree add -q --detach $WT HEAD || exit 2
mkdir -p $WT/vault
cp -r $SRC/demo/. $WT/ 2>/dev/null
# a demo that brings its own export shim under the tag `verif` would clash with the framework's hooks
# (same tag, same identifiers): DEMOTAG=seeddemo re-tags the demo's files so it runs with -tags seeddemo
if [ -n "$DEMOTAG" ]; then ( cd $SRC/demo && find . -name '*.go' ) | while read f; do sed -i "s/go:build verif/go:build $DEMOTAG/; s/+build verif/+build $DEMOTAG/" $WT/$f; done; fi
echo "== demo on clean tree"; ( cd $WT && sh -c "$DEMO" >/tmp/mt-$$-clean.log 2>&1; echo "exit=$?"; tail -3 /tmp/mt-$$-clean.log )
( cd $WT && git apply $SRC/patch.diff ) || { echo "PATCH DOES NOT APPLY"; git -C /repo worktree remove --force $WT; exit 2; }
echo "== build + suite with change"; ( cd $WT && go build ./... && go test -vet=off -count=1 ./group/... ./share ./share/vss/... ./sign/... 2>&1 | grep -v "^ok\|no test files" | head; echo "suite-exit=$?" )
echo "== demo with change"; ( cd $WT && sh -c "$DEMO" >/tmp/mt-$$-mut.log 2>&1; echo "exit=$?"; tail -3 /tmp/mt-$$-mut.log )
for id in $IDS; do echo "== check $id"; ( cd /verif && VERIF_REPO=$WT ./check $id quick 2>&1 | tail -4 ); done
TAG=$(python3 -c "import hashlib,sys;print(hashlib.sha1(b'$WT').hexdigest()[:8])")
rm -rf /verif/work/vrepo-$TAG /verif/work/alt-$TAG /verif/go/alt-$TAG.* /tmp/mt-$$-*.log
git -C /repo worktree remove --force $WT

package c10

// Independent big-integer reference for alt_bn128: the constants are written
// here from the curve's specification (EIP-196/197), not taken from group/bn256.

import (
	"math/big"
)

func dec(s string) *big.Int {
	v, ok := new(big.Int).SetString(s, 10)
	if !ok {
		panic("bad constant")
	}
	return v
}

var (
	refP     = dec("21888242871839275222246405745257275088696311157297823662689037894645226208583")
	refOrder = dec("21888242871839275222246405745257275088548364400416034343698204186575808495617")
	two256   = new(big.Int).Lsh(big.NewInt(1), 256)
	refR     = new(big.Int).Mod(two256, refP)        // R mod p
	refRinv  = new(big.Int).ModInverse(two256, refP) // R^-1 mod p
	refR2    = new(big.Int).Mod(new(big.Int).Mul(two256, two256), refP)
	max256   = new(big.Int).Sub(two256, big.NewInt(1))
)

func mod(v *big.Int) *big.Int { return new(big.Int).Mod(v, refP) }

// toMont / fromMont: the Montgomery encoding x ↦ x·R mod p by big arithmetic
func toMont(x *big.Int) *big.Int   { return mod(new(big.Int).Mul(x, two256)) }
func fromMont(x *big.Int) *big.Int { return mod(new(big.Int).Mul(x, refRinv)) }

// ---- Fp2 = Fp[i]/(i²+1); element {x, y} = x·i + y (same field order as the code) ----
type r2 struct{ x, y *big.Int }

func r2add(a, b r2) r2 { return r2{mod(new(big.Int).Add(a.x, b.x)), mod(new(big.Int).Add(a.y, b.y))} }
func r2sub(a, b r2) r2 { return r2{mod(new(big.Int).Sub(a.x, b.x)), mod(new(big.Int).Sub(a.y, b.y))} }
func r2neg(a r2) r2    { return r2{mod(new(big.Int).Neg(a.x)), mod(new(big.Int).Neg(a.y))} }
func r2mul(a, b r2) r2 {
	// (ax i + ay)(bx i + by) = (ax by + ay bx) i + (ay by − ax bx)
	x := new(big.Int).Add(new(big.Int).Mul(a.x, b.y), new(big.Int).Mul(a.y, b.x))
	y := new(big.Int).Sub(new(big.Int).Mul(a.y, b.y), new(big.Int).Mul(a.x, b.x))
	return r2{mod(x), mod(y)}
}
func r2eq(a, b r2) bool  { return a.x.Cmp(b.x) == 0 && a.y.Cmp(b.y) == 0 }
func r2zero() r2         { return r2{new(big.Int), new(big.Int)} }
func r2one() r2          { return r2{new(big.Int), big.NewInt(1)} }
func r2isZero(a r2) bool { return a.x.Sign() == 0 && a.y.Sign() == 0 }
func r2inv(a r2) r2 {
	// 1/(xi+y) = (−xi + y)/(x²+y²)
	n := mod(new(big.Int).Add(new(big.Int).Mul(a.x, a.x), new(big.Int).Mul(a.y, a.y)))
	ni := new(big.Int).ModInverse(n, refP)
	if ni == nil {
		return r2zero()
	}
	return r2{mod(new(big.Int).Mul(new(big.Int).Neg(a.x), ni)), mod(new(big.Int).Mul(a.y, ni))}
}

var refXi = r2{big.NewInt(1), big.NewInt(9)} // ξ = i + 9

// ---- Fp6 = Fp2[τ]/(τ³−ξ); element {x,y,z} = xτ² + yτ + z ----
type r6 struct{ x, y, z r2 }

func r6add(a, b r6) r6 { return r6{r2add(a.x, b.x), r2add(a.y, b.y), r2add(a.z, b.z)} }
func r6sub(a, b r6) r6 { return r6{r2sub(a.x, b.x), r2sub(a.y, b.y), r2sub(a.z, b.z)} }
func r6neg(a r6) r6    { return r6{r2neg(a.x), r2neg(a.y), r2neg(a.z)} }
func r6mul(a, b r6) r6 {
	// schoolbook: coefficients c0..c4 of the product polynomial in τ, then τ³ = ξ, τ⁴ = ξτ
	ca := [3]r2{a.z, a.y, a.x}
	cb := [3]r2{b.z, b.y, b.x}
	var c [5]r2
	for i := range c {
		c[i] = r2zero()
	}
	for i := 0; i < 3; i++ {
		for j := 0; j < 3; j++ {
			c[i+j] = r2add(c[i+j], r2mul(ca[i], cb[j]))
		}
	}
	z := r2add(c[0], r2mul(refXi, c[3]))
	y := r2add(c[1], r2mul(refXi, c[4]))
	return r6{c[2], y, z}
}
func r6eq(a, b r6) bool  { return r2eq(a.x, b.x) && r2eq(a.y, b.y) && r2eq(a.z, b.z) }
func r6zero() r6         { return r6{r2zero(), r2zero(), r2zero()} }
func r6one() r6          { return r6{r2zero(), r2zero(), r2one()} }
func r6isZero(a r6) bool { return r2isZero(a.x) && r2isZero(a.y) && r2isZero(a.z) }

var refTau = r6{r2zero(), r2one(), r2zero()} // τ

// ---- Fp12 = Fp6[ω]/(ω²−τ); element {x,y} = xω + y ----
type r12 struct{ x, y r6 }

func r12mul(a, b r12) r12 {
	// (ax ω + ay)(bx ω + by) = (ax by + ay bx) ω + (ay by + ax bx τ)
	x := r6add(r6mul(a.x, b.y), r6mul(a.y, b.x))
	y := r6add(r6mul(a.y, b.y), r6mul(r6mul(a.x, b.x), refTau))
	return r12{x, y}
}
func r12add(a, b r12) r12  { return r12{r6add(a.x, b.x), r6add(a.y, b.y)} }
func r12sub(a, b r12) r12  { return r12{r6sub(a.x, b.x), r6sub(a.y, b.y)} }
func r12neg(a r12) r12     { return r12{r6neg(a.x), r6neg(a.y)} }
func r12eq(a, b r12) bool  { return r6eq(a.x, b.x) && r6eq(a.y, b.y) }
func r12one() r12          { return r12{r6zero(), r6one()} }
func r12isZero(a r12) bool { return r6isZero(a.x) && r6isZero(a.y) }
func r12exp(a r12, k *big.Int) r12 {
	acc := r12one()
	for i := k.BitLen() - 1; i >= 0; i-- {
		acc = r12mul(acc, acc)
		if k.Bit(i) == 1 {
			acc = r12mul(acc, a)
		}
	}
	return acc
}
func r6exp(a r6, k *big.Int) r6 {
	acc := r6one()
	for i := k.BitLen() - 1; i >= 0; i-- {
		acc = r6mul(acc, acc)
		if k.Bit(i) == 1 {
			acc = r6mul(acc, a)
		}
	}
	return acc
}

// ---- affine curve arithmetic over a generic field given by closures (used for G1 over Fp and G2 over Fp2) ----
type refPt struct {
	inf  bool
	x, y r2 // for G1 only .y parts of x and y are used (x = {0, X})
}

func refAdd(a, b refPt) refPt {
	if a.inf {
		return b
	}
	if b.inf {
		return a
	}
	var lam r2
	if r2eq(a.x, b.x) {
		if !r2eq(a.y, b.y) || r2isZero(a.y) {
			return refPt{inf: true}
		}
		three := r2{new(big.Int), big.NewInt(3)}
		two := r2{new(big.Int), big.NewInt(2)}
		lam = r2mul(r2mul(three, r2mul(a.x, a.x)), r2inv(r2mul(two, a.y)))
	} else {
		lam = r2mul(r2sub(b.y, a.y), r2inv(r2sub(b.x, a.x)))
	}
	x3 := r2sub(r2sub(r2mul(lam, lam), a.x), b.x)
	y3 := r2sub(r2mul(lam, r2sub(a.x, x3)), a.y)
	return refPt{x: x3, y: y3}
}
func refNeg(a refPt) refPt {
	if a.inf {
		return a
	}
	return refPt{x: a.x, y: r2neg(a.y)}
}
func refMul(a refPt, k *big.Int) refPt {
	acc := refPt{inf: true}
	for i := k.BitLen() - 1; i >= 0; i-- {
		acc = refAdd(acc, acc)
		if k.Bit(i) == 1 {
			acc = refAdd(acc, a)
		}
	}
	return acc
}
func refEq(a, b refPt) bool {
	if a.inf || b.inf {
		return a.inf == b.inf
	}
	return r2eq(a.x, b.x) && r2eq(a.y, b.y)
}

// twist coefficient b' = 3/ξ
var refTwistB = r2mul(r2{new(big.Int), big.NewInt(3)}, r2inv(refXi))

func refOnCurveG1(a refPt) bool {
	if a.inf {
		return true
	}
	l := mod(new(big.Int).Mul(a.y.y, a.y.y))
	r := mod(new(big.Int).Add(new(big.Int).Mul(new(big.Int).Mul(a.x.y, a.x.y), a.x.y), big.NewInt(3)))
	return l.Cmp(r) == 0
}
func refOnCurveG2(a refPt) bool {
	if a.inf {
		return true
	}
	return r2eq(r2mul(a.y, a.y), r2add(r2mul(r2mul(a.x, a.x), a.x), refTwistB))
}

/-
C20 (round 4) — the field operations of fe.go as EXECUTABLE functions on limb vectors, obtained by running the
regenerated translation (Gen/Ed25519Fe.lean) with Go's semantics (`evalW wrap`: wrapping int64 arithmetic, int32
narrowing as `n32`).  Core Lean only: the driver executes exactly these on every differential case, and the
theorems of Props/C20Field.lean are about exactly these.
-/
import DosModel.Gen.Ed25519Fe

namespace Dos.FeOps
open Dos Dos.Ed25519 Dos.IntervalProg Dos.FeProg Dos.Gen.Ed25519Fe

def feMul (f g : L10) : L10 := toL10 (feMul_prog.runW wrap (f.toList ++ g.toList))
def feSquare (f : L10) : L10 := toL10 (feSquare_prog.runW wrap f.toList)
def feSquare2 (f : L10) : L10 := toL10 (feSquare2_prog.runW wrap f.toList)

def mapW (m : FeMap) (a b : L10) : L10 := toL10 (m.runW wrap a.toList b.toList)
def zero10 : L10 := ⟨0, 0, 0, 0, 0, 0, 0, 0, 0, 0⟩
def feZero : L10 := mapW feZero_map zero10 zero10
def feOne : L10 := toL10 (feZero.toList.set feOne_set.1 feOne_set.2)
def feAdd (a b : L10) : L10 := mapW feAdd_map a b
def feSub (a b : L10) : L10 := mapW feSub_map a b
def feCopy (a : L10) : L10 := mapW feCopy_map a a
def feNeg (a : L10) : L10 := mapW feNeg_map a a

/-- `feCMove(f, g, b)`: the new value of f -/
def feCMove (f g : L10) (b : Int) : L10 :=
  ⟨feCMove_elem f.h0 g.h0 b, feCMove_elem f.h1 g.h1 b, feCMove_elem f.h2 g.h2 b, feCMove_elem f.h3 g.h3 b,
   feCMove_elem f.h4 g.h4 b, feCMove_elem f.h5 g.h5 b, feCMove_elem f.h6 g.h6 b, feCMove_elem f.h7 g.h7 b,
   feCMove_elem f.h8 g.h8 b, feCMove_elem f.h9 g.h9 b⟩

/-- the raw `load3/load4` values feFromBytes starts from -/
def fromBytesRaw (s : Bytes) : List Int := feFromBytes_prog.raw.map (rawVal [s])

def feFromBytes (s : Bytes) : L10 := toL10 (feFromBytes_prog.runW wrap (fromBytesRaw s))

/-- `feToBytes(&s, &h)`: the 32 bytes AND the new contents of h (the Go code normalises its argument in place) -/
def feToBytes (h : L10) : Bytes × L10 :=
  ((feToBytes_prog.runW wrap h.toList).map byte, toL10 (feToBytes_prog.limbsW wrap h.toList))

/-- `feIsNegative(&f)`: `s[0] & 1`, and the new contents of f -/
def feIsNegative (f : L10) : UInt8 × L10 :=
  let r := feToBytes f
  ((r.1.getD 0 0) &&& 1, r.2)

/-- `feIsNonZero(&f)`: OR of all bytes folded to one bit, and the new contents of f -/
def feIsNonZero (f : L10) : Int × L10 :=
  let r := feToBytes f
  let x : UInt8 := r.1.foldl (fun x b => x ||| b) 0
  let x := x ||| (x >>> 4)
  let x := x ||| (x >>> 2)
  let x := x ||| (x >>> 1)
  (Int.ofNat (x &&& 1).toNat, r.2)

/-- registers of a chain: 0 = out, 1 = z, 2… = t0… -/
def runChain (nregs : Nat) (ops : List ChainOp) (z : L10) : L10 :=
  (chainRun feMul feSquare zero10 ops ((List.replicate nregs zero10).set 1 z)).getD 0 zero10

def feInvert (z : L10) : L10 := runChain feInvert_nregs feInvert_chain z
def fePow22523 (z : L10) : L10 := runChain fePow22523_nregs fePow22523_chain z

end Dos.FeOps

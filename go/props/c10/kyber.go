package c10

// Kyber-level cases on RAW operands: the exported kyber.Point methods of point.go (the functions the rest
// of the repository calls) are run on points whose Jacobian / tower content is given limb by limb, under
// every receiver / argument aliasing, and the raw content of the receiver AND of the arguments after the
// call is the observation. The Lean driver runs the TRANSLATED functions (Gen/Bn256Code.lean:
// pointG1_add, pointG1_sub, …) on the same line.
//
//	k1|k2|kt add|sub <alias> <recv> <a> <b>        alias ∈ n ca cb ab cab (recv=a, recv=b, a=b, all)
//	k1|k2|kt neg|set <alias> <recv> <a>            alias ∈ n ca
//	k1|k2|kt mul <alias> <recv> <a> <k>            k decimal, possibly negative (a mod.Int scalar: V = k mod r)
//	k1|k2|kt mulnil <recv> <k>                     Mul(s, nil): the generator
//	k1|k2|kt null|base <recv>
//
// Output: <recv>|<a>|<b> (raw limbs after the call; only the objects the case has).
// Oracle (math/big affine reference, bn256/google, precompiles — no code shared with group/bn256): the affine
// image of the receiver is A+B, A−B, −A, O, G, A, (k mod r)·A = k·A; arguments that are not the receiver keep
// their content.

import (
	"bytes"
	"fmt"
	"math/big"
	"strings"

	"github.com/DOSNetwork/core/group/bn256"
	"github.com/dedis/kyber"
	kmod "github.com/dedis/kyber/group/mod"
	google "github.com/ethereum/go-ethereum/crypto/bn256/google"

	"verifharness/internal/h"
)

var kySuite = bn256.NewSuite()

func kyScalar(g kyber.Group, k *big.Int) kyber.Scalar {
	sc := g.Scalar().SetBytes(new(big.Int).Abs(k).Bytes())
	if k.Sign() < 0 {
		sc = g.Scalar().Neg(sc)
	}
	return sc
}

// a kyber scalar whose mod.Int has a WIDER modulus than the group order: V = k is handed to the curve code
// unreduced (point.go reads s.(*mod.Int).V and never looks at the modulus). The property demands k·P = (k mod r)·P.
var wideModulus = new(big.Int).Lsh(big.NewInt(1), 640)

func kyScalarWide(k *big.Int) kyber.Scalar { return kmod.NewInt(k, wideModulus) }

func kyAlias3(alias string, c, a, b kyber.Point) (kyber.Point, kyber.Point, kyber.Point) {
	switch alias {
	case "n":
		return c, a, b
	case "ca":
		return a, a, b
	case "cb":
		return b, a, b
	case "ab":
		return c, a, a
	case "cab":
		return a, a, a
	}
	panic("unknown alias " + alias)
}

func retag(sig, from, to string) string {
	if sig == "" {
		return ""
	}
	return strings.Replace(sig, from, to, 1)
}

func execKyber(w []string) h.Result {
	kind, op := w[0], w[1]
	res := h.Result{Class: kind + "-" + op, Nontrivial: true}
	switch kind {
	case "k1":
		execK1(w, &res)
	case "k2":
		execK2(w, &res)
	case "kt":
		execKT(w, &res)
	}
	return res
}

func kmodr(k *big.Int) *big.Int { return new(big.Int).Mod(k, refOrder) }

// refMulSigned: k·A for a possibly negative k
func refMulSigned(a refPt, k *big.Int) refPt {
	if k.Sign() < 0 {
		return refMul(refNeg(a), new(big.Int).Neg(k))
	}
	return refMul(a, k)
}

func execK1(w []string, res *h.Result) {
	op := w[1]
	g := kySuite.G1()
	mk := func(s string) (kyber.Point, g1raw) {
		r := g1Of(s)
		p := g.Point()
		*bn256.VerifG1Of(p) = *asG1(&r)
		return p, r
	}
	raw := func(p kyber.Point) g1raw { return fromG1(bn256.VerifG1Of(p)) }
	var outs []string
	switch op {
	case "add", "sub":
		alias := w[2]
		c, _ := mk(w[3])
		a, _ := mk(w[4])
		b, _ := mk(w[5])
		pc, pa, pb := kyAlias3(alias, c, a, b)
		av, bv := raw(pa), raw(pb)
		if op == "add" {
			pc.Add(pa, pb)
		} else {
			pc.Sub(pa, pb)
		}
		r := raw(pc)
		for _, p := range []kyber.Point{pc, pa, pb} {
			x := raw(p)
			outs = append(outs, hexFes(x[:]))
		}
		if onCurveJacG1(av) && onCurveJacG1(bv) {
			A, B := affG1(av), affG1(bv)
			rel := "P+Q"
			switch {
			case A.inf || B.inf:
				rel = "O"
			case refEq(A, B):
				rel = "P=Q"
			case refEq(A, refNeg(B)):
				rel = "P=-Q"
			}
			res.Class += "-" + rel + "-" + alias
			if op == "sub" {
				B = refNeg(B)
			}
			res.Oracle = retag(checkG1Add(affG1(r), A, B), "c10-g1-add", "c10-k1-"+op)
			if res.Oracle == "" && ((pa != pc && raw(pa) != av) || (pb != pc && raw(pb) != bv)) {
				res.Oracle = "c10-k1-argument-modified: " + op + " changed an argument that is not the receiver"
			}
		} else {
			res.Class += "-offcurve"
		}
	case "neg", "set":
		alias := w[2]
		c, _ := mk(w[3])
		a, _ := mk(w[4])
		pc, pa, _ := kyAlias3(alias, c, a, a)
		av := raw(pa)
		if op == "neg" {
			pc.Neg(pa)
		} else {
			pc.Set(pa)
		}
		r := raw(pc)
		ar := raw(pa)
		outs = append(outs, hexFes(r[:]), hexFes(ar[:]))
		res.Class += "-" + alias
		if onCurveJacG1(av) {
			want := affG1(av)
			if op == "neg" {
				want = refNeg(want)
			}
			if !refEq(affG1(r), want) {
				res.Oracle = fmt.Sprintf("c10-k1-%s: got %s want %s", op, ptStr(affG1(r)), ptStr(want))
			} else if pa != pc && raw(pa) != av {
				res.Oracle = "c10-k1-argument-modified: " + op + " changed its argument"
			}
		}
	case "mul", "mulu":
		alias := w[2]
		c, _ := mk(w[3])
		a, _ := mk(w[4])
		k := h.BigDec(w[5])
		pc, pa, _ := kyAlias3(alias, c, a, a)
		av := raw(pa)
		if op == "mulu" {
			pc.Mul(kyScalarWide(k), pa)
		} else {
			pc.Mul(kyScalar(g, k), pa)
		}
		r := raw(pc)
		ar := raw(pa)
		outs = append(outs, hexFes(r[:]), hexFes(ar[:]))
		res.Class += "-" + kyScalarClass(k) + "-" + alias
		if onCurveJacG1(av) {
			A := affG1(av)
			res.Oracle = retag(checkG1Mul(affG1(r), A, kmodr(k)), "c10-g1-mul", "c10-k1-"+op)
			if res.Oracle == "" && !refEq(affG1(r), refMulSigned(A, k)) {
				res.Oracle = fmt.Sprintf("c10-k1-mul: (k mod r)·A differs from k·A for k = %s", k)
			}
			if res.Oracle == "" && pa != pc && raw(pa) != av {
				res.Oracle = "c10-k1-argument-modified: mul changed its argument"
			}
		}
	case "mulnil":
		c, _ := mk(w[2])
		k := h.BigDec(w[3])
		c.Mul(kyScalar(g, k), nil)
		r := raw(c)
		outs = append(outs, hexFes(r[:]))
		res.Class += "-" + kyScalarClass(k)
		res.Oracle = retag(checkG1Mul(affG1(r), refG1(), kmodr(k)), "c10-g1-mul", "c10-k1-mulnil")
	case "null", "base":
		c, _ := mk(w[2])
		want := refPt{inf: true}
		if op == "null" {
			c.Null()
		} else {
			c.Base()
			want = refG1()
		}
		r := raw(c)
		outs = append(outs, hexFes(r[:]))
		if !allReduced(r[:3]) || !refEq(affG1(r), want) {
			res.Oracle = fmt.Sprintf("c10-k1-%s: got %s", op, hexFes(r[:]))
		}
	default:
		panic("unknown k1 op " + op)
	}
	res.Impl = strings.Join(outs, "|")
}

func kyScalarClass(k *big.Int) string {
	if k.Sign() < 0 {
		return "k<0"
	}
	return scalarClass(k)
}

func execK2(w []string, res *h.Result) {
	op := w[1]
	g := kySuite.G2()
	mk := func(s string) kyber.Point {
		r := g2Of(s)
		p := g.Point()
		*bn256.VerifG2Of(p) = *asG2(&r)
		return p
	}
	raw := func(p kyber.Point) g2raw { return fromG2(bn256.VerifG2Of(p)) }
	var outs []string
	switch op {
	case "add", "sub":
		alias := w[2]
		pc, pa, pb := kyAlias3(alias, mk(w[3]), mk(w[4]), mk(w[5]))
		av, bv := raw(pa), raw(pb)
		if op == "add" {
			pc.Add(pa, pb)
		} else {
			pc.Sub(pa, pb)
		}
		r := raw(pc)
		for _, p := range []kyber.Point{pc, pa, pb} {
			x := raw(p)
			outs = append(outs, hexFes(x[:]))
		}
		if onCurveJacG2(av) && onCurveJacG2(bv) {
			A, B := affG2(av), affG2(bv)
			rel := "P+Q"
			switch {
			case A.inf || B.inf:
				rel = "O"
			case refEq(A, B):
				rel = "P=Q"
			case refEq(A, refNeg(B)):
				rel = "P=-Q"
			}
			res.Class += "-" + rel + "-" + alias
			if op == "sub" {
				B = refNeg(B)
			}
			res.Oracle = retag(checkG2Add(affG2(r), A, B), "c10-g2-add", "c10-k2-"+op)
			if res.Oracle == "" && ((pa != pc && raw(pa) != av) || (pb != pc && raw(pb) != bv)) {
				res.Oracle = "c10-k2-argument-modified: " + op + " changed an argument that is not the receiver"
			}
		} else {
			res.Class += "-offcurve"
		}
	case "neg", "set":
		alias := w[2]
		pc, pa, _ := kyAlias3(alias, mk(w[3]), mk(w[4]), nil)
		if alias != "n" && alias != "ca" {
			panic("alias of a unary op")
		}
		av := raw(pa)
		if op == "neg" {
			pc.Neg(pa)
		} else {
			pc.Set(pa)
		}
		r := raw(pc)
		ar := raw(pa)
		outs = append(outs, hexFes(r[:]), hexFes(ar[:]))
		res.Class += "-" + alias
		if onCurveJacG2(av) {
			want := affG2(av)
			if op == "neg" {
				want = refNeg(want)
			}
			if !refEq(affG2(r), want) {
				res.Oracle = fmt.Sprintf("c10-k2-%s: got %s want %s", op, ptStr(affG2(r)), ptStr(want))
			} else if pa != pc && raw(pa) != av {
				res.Oracle = "c10-k2-argument-modified: " + op + " changed its argument"
			}
		}
	case "mul", "mulu":
		alias := w[2]
		pc, pa, _ := kyAlias3(alias, mk(w[3]), mk(w[4]), nil)
		k := h.BigDec(w[5])
		av := raw(pa)
		if op == "mulu" {
			pc.Mul(kyScalarWide(k), pa)
		} else {
			pc.Mul(kyScalar(g, k), pa)
		}
		r := raw(pc)
		ar := raw(pa)
		outs = append(outs, hexFes(r[:]), hexFes(ar[:]))
		res.Class += "-" + kyScalarClass(k) + "-" + alias
		if onCurveJacG2(av) {
			A := affG2(av)
			res.Oracle = retag(checkG2Mul(affG2(r), A, kmodr(k)), "c10-g2-mul", "c10-k2-"+op)
			if _, err := googleG2(A); err == nil && res.Oracle == "" && !refEq(affG2(r), refMulSigned(A, k)) {
				res.Oracle = fmt.Sprintf("c10-k2-mul: (k mod r)·A differs from k·A for k = %s", k)
			}
			if res.Oracle == "" && pa != pc && raw(pa) != av {
				res.Oracle = "c10-k2-argument-modified: mul changed its argument"
			}
		}
	case "mulnil":
		c := mk(w[2])
		k := h.BigDec(w[3])
		c.Mul(kyScalar(g, k), nil)
		r := raw(c)
		outs = append(outs, hexFes(r[:]))
		res.Class += "-" + kyScalarClass(k)
		res.Oracle = retag(checkG2Mul(affG2(r), refG2, kmodr(k)), "c10-g2-mul", "c10-k2-mulnil")
	case "null", "base":
		c := mk(w[2])
		want := refPt{inf: true}
		if op == "null" {
			c.Null()
		} else {
			c.Base()
			want = refG2
		}
		r := raw(c)
		outs = append(outs, hexFes(r[:]))
		if !allReduced(r[:6]) || !refEq(affG2(r), want) {
			res.Oracle = fmt.Sprintf("c10-k2-%s: got %s", op, hexFes(r[:]))
		}
	default:
		panic("unknown k2 op " + op)
	}
	res.Impl = strings.Join(outs, "|")
}

func gtOf(s string) fe12 {
	var e fe12
	copy(e[:], parseFes(s, 12))
	return e
}

func execKT(w []string, res *h.Result) {
	op := w[1]
	g := kySuite.GT()
	mk := func(s string) kyber.Point {
		r := gtOf(s)
		p := g.Point()
		*bn256.VerifGTOf(p) = *asFp12(&r)
		return p
	}
	raw := func(p kyber.Point) fe12 { return fromFp12(bn256.VerifGTOf(p)) }
	conj := func(a r12) r12 { return r12{r6neg(a.x), a.y} }
	var outs []string
	emit := func(ps ...kyber.Point) {
		for _, p := range ps {
			x := raw(p)
			outs = append(outs, hexFes(x[:]))
		}
	}
	// optional trailing words: the discrete logarithms (w.r.t. e(G1,G2)) of the GT operands, "-" if the operand is
	// not a known power of the generator. With them the oracle is crypto/bn256/google's GT (e(G1,G2)^k computed by
	// ITS pairing and ITS exponentiation), which does not restate "Neg = conjugate" (review F #4).
	dlog := func(i int) *big.Int {
		if i < len(w) && w[i] != "-" {
			return h.BigDec(w[i])
		}
		return nil
	}
	googlePow := func(k *big.Int) []byte {
		k = new(big.Int).Mod(k, refOrder)
		if k.Sign() == 0 {
			return bytesGT(r12one())
		}
		return new(google.GT).ScalarMult(googleGTGen, k).Marshal()
	}
	isNull := func(p kyber.Point) bool {
		x := raw(p)
		return allReduced(x[:]) && r12eq(decR12(x[:]), r12one()) && p.Equal(g.Point().Null())
	}
	switch op {
	case "add", "sub":
		alias := w[2]
		pc, pa, pb := kyAlias3(alias, mk(w[3]), mk(w[4]), mk(w[5]))
		av, bv := raw(pa), raw(pb)
		if op == "add" {
			pc.Add(pa, pb)
		} else {
			pc.Sub(pa, pb)
		}
		r := raw(pc)
		emit(pc, pa, pb)
		res.Class += "-" + alias
		if ka, kb := dlog(6), dlog(7); ka != nil && kb != nil && alias != "ab" && alias != "cab" {
			res.Class += "-dlog"
			k := new(big.Int).Add(ka, kb)
			if op == "sub" {
				k.Sub(ka, kb)
			}
			if !allReduced(r[:]) || !bytes.Equal(bytesGT(decR12(r[:])), googlePow(k)) {
				res.Oracle = "c10-kt-" + op + "-group: e(G1,G2)^a " + op + " e(G1,G2)^b is not e(G1,G2)^(a" + map[string]string{"add": "+", "sub": "-"}[op] + "b) of bn256/google"
				break
			}
		} else if ka != nil && (alias == "ab" || alias == "cab") {
			// both operands are the first one: a + a = a^2, a - a = Null
			res.Class += "-dlog"
			k := new(big.Int).Lsh(ka, 1)
			if op == "sub" {
				k.SetInt64(0)
			}
			if !allReduced(r[:]) || !bytes.Equal(bytesGT(decR12(r[:])), googlePow(k)) {
				res.Oracle = "c10-kt-" + op + "-group: a " + op + " a wrong for a = e(G1,G2)^k (bn256/google)"
				break
			}
			if op == "sub" && !isNull(pc) {
				res.Oracle = "c10-kt-sub-group: a - a is not Null() for a member of GT"
				break
			}
		}
		if allReduced(av[:]) && allReduced(bv[:]) {
			B := decR12(bv[:])
			if op == "sub" {
				B = conj(B)
			}
			if !allReduced(r[:]) || !r12eq(decR12(r[:]), r12mul(decR12(av[:]), B)) {
				res.Oracle = "c10-kt-" + op + ": not the product in F_p^12"
			} else if (pa != pc && raw(pa) != av) || (pb != pc && raw(pb) != bv) {
				res.Oracle = "c10-kt-argument-modified: " + op + " changed an argument that is not the receiver"
			}
		}
	case "neg", "set":
		alias := w[2]
		pc, pa, _ := kyAlias3(alias, mk(w[3]), mk(w[4]), nil)
		av := raw(pa)
		if op == "neg" {
			pc.Neg(pa)
		} else {
			pc.Set(pa)
		}
		r := raw(pc)
		emit(pc, pa)
		res.Class += "-" + alias
		if ka := dlog(5); ka != nil {
			res.Class += "-dlog"
			k := new(big.Int).Set(ka)
			if op == "neg" {
				k.Neg(k)
			}
			if !allReduced(r[:]) || !bytes.Equal(bytesGT(decR12(r[:])), googlePow(k)) {
				res.Oracle = "c10-kt-" + op + "-group: result is not e(G1,G2)^(" + k.String() + ") of bn256/google"
				break
			}
			if op == "neg" {
				// the inverse law through the API: a + (-a) = Null, a - a = Null (a rebuilt from the case line)
				a := mk(w[4])
				if s := g.Point().Add(a, pc); !isNull(s) {
					res.Oracle = "c10-kt-neg-group: a + (-a) is not Null() for a member of GT"
					break
				}
				if d := g.Point().Sub(a, a); !isNull(d) {
					res.Oracle = "c10-kt-neg-group: a - a is not Null() for a member of GT"
					break
				}
			}
		}
		if allReduced(av[:]) {
			want := decR12(av[:])
			if op == "neg" {
				want = conj(want)
			}
			if !allReduced(r[:]) || !r12eq(decR12(r[:]), want) {
				res.Oracle = "c10-kt-" + op + ": wrong value"
			}
		}
	case "mul", "mulu":
		alias := w[2]
		pc, pa, _ := kyAlias3(alias, mk(w[3]), mk(w[4]), nil)
		k := h.BigDec(w[5])
		av := raw(pa)
		if op == "mulu" {
			pc.Mul(kyScalarWide(k), pa)
		} else {
			pc.Mul(kyScalar(g, k), pa)
		}
		r := raw(pc)
		emit(pc, pa)
		res.Class += "-" + kyScalarClass(k) + "-" + alias
		if ka := dlog(6); ka != nil {
			res.Class += "-dlog"
			if !allReduced(r[:]) || !bytes.Equal(bytesGT(decR12(r[:])), googlePow(new(big.Int).Mul(ka, k))) {
				res.Oracle = "c10-kt-mul-group: (e(G1,G2)^a)^k is not e(G1,G2)^(ak) of bn256/google"
				break
			}
		}
		if allReduced(av[:]) {
			if !allReduced(r[:]) || !r12eq(decR12(r[:]), r12exp(decR12(av[:]), kmodr(k))) {
				res.Oracle = "c10-kt-mul: not a^(k mod r) in F_p^12"
			}
		}
	case "mulnil":
		c := mk(w[2])
		k := h.BigDec(w[3])
		c.Mul(kyScalar(g, k), nil)
		r := raw(c)
		emit(c)
		gen := bn256.VerifGTGen()
		gr := fromFp12(&gen)
		if !allReduced(r[:]) || !r12eq(decR12(r[:]), r12exp(decR12(gr[:]), kmodr(k))) {
			res.Oracle = "c10-kt-mulnil: not e(G1,G2)^(k mod r)"
		}
	case "null", "base":
		c := mk(w[2])
		if op == "null" {
			c.Null()
		} else {
			c.Base()
		}
		r := raw(c)
		emit(c)
		want := r12one()
		if op == "base" {
			gen := bn256.VerifGTGen()
			gr := fromFp12(&gen)
			want = decR12(gr[:])
		}
		if !allReduced(r[:]) || !r12eq(decR12(r[:]), want) {
			res.Oracle = "c10-kt-" + op + ": wrong value"
		}
	default:
		panic("unknown kt op " + op)
	}
	res.Impl = strings.Join(outs, "|")
}

// ---------------------------------------------------------------- generator

var kyScalars = func() []*big.Int {
	r := refOrder
	neg := func(x *big.Int) *big.Int { return new(big.Int).Neg(x) }
	return []*big.Int{big.NewInt(0), big.NewInt(1), big.NewInt(2), new(big.Int).Sub(r, big.NewInt(1)), r,
		new(big.Int).Add(r, big.NewInt(1)), max256, new(big.Int).Lsh(r, 1),
		big.NewInt(-1), big.NewInt(-2), neg(new(big.Int).Sub(r, big.NewInt(1))), neg(r), neg(new(big.Int).Add(r, big.NewInt(1))),
		neg(max256)}
}()

func kyRandScalar(rng *h.Rng) *big.Int {
	switch rng.Intn(4) {
	case 0:
		return kyScalars[rng.Intn(len(kyScalars))]
	case 1:
		return big.NewInt(int64(rng.Intn(40)) - 8)
	case 2:
		return rng.Big(two256)
	}
	return new(big.Int).Neg(rng.Big(refOrder))
}

func genKyber(tier string, rng *h.Rng, emit func(string)) {
	scale := 1
	if tier == "thorough" {
		scale = 6
	}
	G := refG1()
	pts1 := func() refPt { return refMul(G, new(big.Int).Add(rng.Big(refOrder), big.NewInt(1))) }
	// receivers: fresh (zero value), an earlier point, the identity as Null() leaves it, an identity with junk in x, y, t
	recv1 := func() g1raw {
		switch rng.Intn(4) {
		case 0:
			return g1raw{}
		case 1:
			return repG1(rng, pts1(), rng.Bool())
		case 2:
			return jacG1(refPt{inf: true}, big.NewInt(1))
		}
		x := infG1(rng)
		x[3] = feFromBig(rng.Big(refP))
		return x
	}
	pair1 := func(i int) (g1raw, g1raw) {
		P, Q := pts1(), pts1()
		var A, B refPt
		switch i % 8 {
		case 0:
			A, B = P, P
		case 1:
			A, B = P, refNeg(P)
		case 2:
			A, B = refPt{inf: true}, P
		case 3:
			A, B = P, refPt{inf: true}
		case 4:
			A, B = refPt{inf: true}, refPt{inf: true}
		default:
			A, B = P, Q
		}
		a, b := repG1(rng, A, rng.Intn(3) != 0), repG1(rng, B, rng.Intn(3) != 0)
		if A.inf && rng.Bool() {
			a = infG1(rng)
		}
		if B.inf && rng.Bool() {
			b = infG1(rng)
		}
		return a, b
	}
	for i := 0; i < 80*scale; i++ {
		a, b := pair1(i)
		al := aliases[(i/8)%5]
		emit(fmt.Sprintf("k1 add %s %s %s %s", al, hexG1(recv1()), hexG1(a), hexG1(b)))
		a, b = pair1(i)
		emit(fmt.Sprintf("k1 sub %s %s %s %s", al, hexG1(recv1()), hexG1(a), hexG1(b)))
	}
	una := []string{"n", "ca"}
	for i := 0; i < 16*scale; i++ {
		a, _ := pair1(i)
		emit(fmt.Sprintf("k1 neg %s %s %s", una[i%2], hexG1(recv1()), hexG1(a)))
		emit(fmt.Sprintf("k1 set %s %s %s", una[(i/2)%2], hexG1(recv1()), hexG1(a)))
		emit("k1 null " + hexG1(recv1()))
		emit("k1 base " + hexG1(recv1()))
	}
	for i, k := range kyScalars {
		for j, P := range []refPt{G, pts1(), {inf: true}} {
			emit(fmt.Sprintf("k1 mul %s %s %s %s", una[(i+j)%2], hexG1(recv1()), hexG1(repG1(rng, P, rng.Bool())), k))
		}
		emit(fmt.Sprintf("k1 mulnil %s %s", hexG1(recv1()), k))
	}
	for i := 0; i < 30*scale; i++ {
		emit(fmt.Sprintf("k1 mul %s %s %s %s", una[i%2], hexG1(recv1()), hexG1(repG1(rng, pts1(), rng.Bool())), kyRandScalar(rng)))
	}
	// UNREDUCED scalars through the kyber interface (a mod.Int over a wider modulus): m·r + j and ladder-collision prefixes
	for i, k := range ladderScalars {
		if i%3 == 0 || tier == "thorough" {
			P := G
			if i%2 == 1 {
				P = pts1()
			}
			emit(fmt.Sprintf("k1 mulu %s %s %s %s", una[i%2], hexG1(recv1()), hexG1(repG1(rng, P, rng.Bool())), k))
		}
	}
	for i := 0; i < 6*scale; i++ {
		emit(fmt.Sprintf("k1 mulu %s %s %s %s", una[i%2], hexG1(recv1()), hexG1(repG1(rng, pts1(), rng.Bool())), randLadderScalar(rng)))
	}
	emit(fmt.Sprintf("k1 mulu n %s %s %s", hexG1(recv1()), hexG1(repG1(rng, pts1(), false)), max256))

	// G2
	pts2 := func() refPt { return refMul(refG2, new(big.Int).Add(rng.Big(refOrder), big.NewInt(1))) }
	recv2 := func() g2raw {
		switch rng.Intn(3) {
		case 0:
			return g2raw{}
		case 1:
			return repG2(rng, pts2(), rng.Bool())
		}
		x := jacG2(refPt{inf: true}, r2one())
		if rng.Bool() { // identity with junk in t
			x[6], x[7] = feFromBig(rng.Big(refP)), feFromBig(rng.Big(refP))
		}
		return x
	}
	pair2 := func(i int) (g2raw, g2raw) {
		P := pts2()
		var A, B refPt
		switch i % 6 {
		case 0:
			A, B = P, P
		case 1:
			A, B = P, refNeg(P)
		case 2:
			A, B = refPt{inf: true}, P
		case 3:
			A, B = P, refPt{inf: true}
		default:
			A, B = P, pts2()
		}
		return repG2(rng, A, rng.Intn(3) != 0), repG2(rng, B, rng.Intn(3) != 0)
	}
	for i := 0; i < 30*scale; i++ {
		a, b := pair2(i)
		al := aliases[(i/6)%5]
		emit(fmt.Sprintf("k2 add %s %s %s %s", al, hexG2(recv2()), hexG2(a), hexG2(b)))
		a, b = pair2(i)
		emit(fmt.Sprintf("k2 sub %s %s %s %s", al, hexG2(recv2()), hexG2(a), hexG2(b)))
	}
	for i := 0; i < 8*scale; i++ {
		a, _ := pair2(i)
		emit(fmt.Sprintf("k2 neg %s %s %s", una[i%2], hexG2(recv2()), hexG2(a)))
		emit(fmt.Sprintf("k2 set %s %s %s", una[(i/2)%2], hexG2(recv2()), hexG2(a)))
		emit("k2 null " + hexG2(recv2()))
		emit("k2 base " + hexG2(recv2()))
	}
	for i, k := range kyScalars {
		emit(fmt.Sprintf("k2 mul %s %s %s %s", una[i%2], hexG2(recv2()), hexG2(repG2(rng, pts2(), i%3 == 0)), k))
		if i%3 == 0 {
			emit(fmt.Sprintf("k2 mulnil %s %s", hexG2(recv2()), k))
		}
	}
	for i := 0; i < 6*scale; i++ {
		emit(fmt.Sprintf("k2 mul %s %s %s %s", una[i%2], hexG2(recv2()), hexG2(repG2(rng, pts2(), rng.Bool())), kyRandScalar(rng)))
	}
	for i, k := range ladderScalars {
		if i%12 == 4 || tier == "thorough" {
			emit(fmt.Sprintf("k2 mulu %s %s %s %s", una[i%2], hexG2(recv2()), hexG2(repG2(rng, pts2(), rng.Bool())), k))
		}
	}

	// GT: elements of the order-r subgroup (powers of the generator) and arbitrary reduced elements
	gen := bn256.VerifGTGen()
	gtGen := decR12(func() []fe { x := fromFp12(&gen); return x[:] }())
	// a member of GT with its discrete logarithm: e(a·G1, b·G2) = e(G1,G2)^(ab) (the value of a pairing)
	gtPow := func() (string, string) {
		k := rng.Big(refOrder)
		return hexFes(encR12(r12exp(gtGen, k))), k.String()
	}
	gtRand := func() string {
		var fs []fe
		for i := 0; i < 12; i++ {
			fs = append(fs, encFe(rng.Big(refP)))
		}
		return hexFes(fs)
	}
	// any reduced gfP12 value (a pointGT can hold one: Miller values, decoded byte strings) or a member; "-" = no dlog
	gtAny := func() (string, string) {
		if rng.Intn(3) == 0 {
			return gtRand(), "-"
		}
		return gtPow()
	}
	gtRecv := func() string { v, _ := gtAny(); return v }
	for i := 0; i < 10*scale; i++ {
		al := aliases[i%5]
		a, ka := gtAny()
		b, kb := gtAny()
		emit(fmt.Sprintf("kt add %s %s %s %s %s %s", al, gtRecv(), a, b, ka, kb))
		a, ka = gtAny()
		b, kb = gtAny()
		emit(fmt.Sprintf("kt sub %s %s %s %s %s %s", al, gtRecv(), a, b, ka, kb))
		// members only: the group laws against bn256/google, incl. a - a (alias ab / cab) and a - b with b = a as values
		a, ka = gtPow()
		b, kb = gtPow()
		if i%3 == 0 {
			b, kb = a, ka
		}
		emit(fmt.Sprintf("kt sub %s %s %s %s %s %s", al, gtRecv(), a, b, ka, kb))
	}
	for i := 0; i < 4*scale; i++ {
		a, ka := gtAny()
		emit(fmt.Sprintf("kt neg %s %s %s %s", una[i%2], gtRecv(), a, ka))
		a, ka = gtPow()
		emit(fmt.Sprintf("kt neg %s %s %s %s", una[(i+1)%2], gtRecv(), a, ka))
		a, ka = gtAny()
		emit(fmt.Sprintf("kt set %s %s %s %s", una[i%2], gtRecv(), a, ka))
		emit("kt null " + gtRecv())
		emit("kt base " + gtRecv())
	}
	for i, k := range kyScalars {
		if i%2 == 0 || tier == "thorough" {
			a, ka := gtPow()
			emit(fmt.Sprintf("kt mul %s %s %s %s %s", una[i%2], gtRecv(), a, k, ka))
		}
	}
	for i, k := range ladderScalars {
		if i%12 == 5 || tier == "thorough" {
			a, ka := gtPow()
			emit(fmt.Sprintf("kt mulu %s %s %s %s %s", una[i%2], gtRecv(), a, k, ka))
		}
	}
	emit(fmt.Sprintf("kt mulnil %s %s", gtRecv(), kyScalars[3]))
	emit(fmt.Sprintf("kt mulnil %s %s", gtRecv(), big.NewInt(-1)))
}

/-
Model of the p2p request/reply path (p2p/request.go, p2p/client.go `send`,
`dispatch`, `packPipe`; p2p/server.go `callHandler`, `handleCallReq`).

(a) `dispatch` body: per connection a counter `next` and a table
    `pending : nonce ↦ request`; one model event = one alternative of its
    `select` being taken.
(b) the request object.  `p2pRequest` is passed BY VALUE through channels, so
    every holder (callHandler/handleCallReq, the `client.send` goroutine, the
    `dispatch` table, `packPipe`) has its own copy and its own `sync.Once`;
    the reply channel and the context are shared.  `closes` counts executions
    of `close(r.reply)`: 2 would be Go's "close of closed channel" panic.
(c) `callHandler` loop with the blocking dial + handshake sub-procedure
    (outcomes ok | refused | hsFail | silent) is at the end of the file.

Every `select` whose outcome Go leaves open is resolved by a Boolean carried
by the event (`win`, `race`), so "for every event sequence" covers every
schedule.  Events whose guard does not hold are no-ops (the goroutine in
question cannot take that step in that state).
-/
import DosModel.Model.Util

namespace Dos.Dispatch
open Dos

inductive RType | send | reply
  deriving DecidableEq, Repr

/-- what a request's reply channel can carry -/
inductive Res
  | msg (m : Nat)   -- a reply P2PMessage whose payload id is `m`
  | nilOk           -- (nil, nil): packPipe's acknowledgement of a Reply
  | errClosed       -- "client dispatch: context canceled"
  | errHandler      -- dial / handshake failure, or "can't find client"
  | errSend         -- "client send: …" (request context done before peerSend took it)
  deriving DecidableEq, Repr

/-- the caller blocked in `waitForResult` -/
inductive Waiter
  | waiting
  | got (r : Res)   -- returned what came on the reply channel
  | ctxErr          -- returned its context's error
  deriving DecidableEq, Repr

/-- where the copy that can still act is -/
inductive Stage
  | absent    -- no such request
  | created   -- NewP2pRequest done, nothing sent yet
  | calling   -- a copy is with callHandler / receiveHandler
  | failed    -- the handler replied an error; dropped
  | sendG     -- a copy is held by the `client.send` goroutine
  | dropped   -- `client.send` saw c.ctx done: silently dropped
  | sendErr   -- `client.send`: sendReq failed, error replied; dropped
  | queued    -- a copy sits in c.peerSend
  | table     -- dispatch took it (registered if send-type) but did not forward it
  | out       -- dispatch took it and forwarded a copy to packPipe
  | packed    -- packPipe processed its copy
  deriving DecidableEq, Repr

/-- the four holders that contain a `replyResult` call -/
inductive Holder | handler | sendG | table | pack
  deriving DecidableEq, Repr

structure Req where
  rtype   : RType := .send
  arg     : Nat := 0              -- nonce field given by the caller (Reply)
  nonce   : Option Nat := none    -- nonce assigned by dispatch (send-type only)
  stage   : Stage := .absent
  ctxDone : Bool := false         -- request context (shared by all copies)
  waiter  : Waiter := .waiting
  vals    : List Res := []        -- values received from the reply channel (shared)
  closes  : Nat := 0              -- executions of close(reply)
  onceH   : Bool := false         -- sync.Once of handleCallReq's copy
  onceS   : Bool := false         -- … of client.send's copy
  onceT   : Bool := false         -- … of the copy in dispatch's table
  onceP   : Bool := false         -- … of packPipe's copy
  deriving Repr

def Req.once (r : Req) : Holder → Bool
  | .handler => r.onceH | .sendG => r.onceS | .table => r.onceT | .pack => r.onceP

def Req.setOnce (r : Req) : Holder → Req
  | .handler => { r with onceH := true }
  | .sendG => { r with onceS := true }
  | .table => { r with onceT := true }
  | .pack => { r with onceP := true }

/-- `replyResult(v)` executed on holder `h`'s copy.
`once.Do`: nothing if this copy's Once already fired.  Inside: `select { <-ctx.Done() ; reply <- v }`
then `close(reply)`.  The value is taken iff the caller is still in `waitForResult` and
(the context is live — then the send is the only way out — or the select's coin `win` says so).
Receiving makes `waitForResult` return and cancel the context. -/
def Req.complete (r : Req) (h : Holder) (v : Res) (win : Bool) : Req :=
  if r.once h then r else
  let r1 := r.setOnce h
  if r.waiter = .waiting ∧ (r.ctxDone = false ∨ win = true) then
    { r1 with waiter := .got v, vals := r.vals ++ [v], closes := r.closes + 1, ctxDone := true }
  else
    { r1 with closes := r.closes + 1 }

structure Conn where
  next    : Nat := 0
  pending : List (Nat × Nat) := []    -- nonce ↦ request id
  ctxDone : Bool := false             -- c.ctx cancelled
  stopped : Bool := false             -- dispatch goroutine returned
  deriving Repr

structure Sys where
  n    : Nat := 0                     -- requests created so far
  reqs : Nat → Req := fun _ => {}
  conn : Conn := {}
  feed : List Nat := []               -- payload ids handed to the server's peersFeed
  wire : List (Nat × Nat × RType) := []  -- (request, nonce, type) of packages that left packPipe

inductive Ev
  | create (t : RType) (arg : Nat)       -- caller: NewP2pRequest
  | toHandler (i : Nat)                  -- sendReq on n.calling / n.replying succeeded
  | handlerFail (i : Nat) (win : Bool)   -- dial/handshake failed or no client: replyResult(err) on the handler's copy
  | toSendG (i : Nat)                    -- handler: `go c.send(req)`
  | sendGDrop (i : Nat)                  -- client.send: c.ctx done, nothing happens
  | sendGErr (i : Nat) (win : Bool)      -- client.send: request ctx done ⇒ replyResult(err) on its copy
  | enqueue (i : Nat)                    -- client.send: peerSend accepted a copy
  | dsend (i : Nat) (fwd : Bool)         -- dispatch: `case req := <-c.peerSend`
  | pack (i : Nat) (win : Bool)          -- packPipe: `case req := <-reqC`
  | reply (k m : Nat) (race win : Bool)  -- dispatch: `case msg := <-replyMsg`
  | recv (m : Nat)                       -- dispatch: `case msg := <-receivedMsg`
  | cancel (i : Nat)                     -- request context cancelled / deadline
  | waiterCtx (i : Nat)                  -- waitForResult takes its ctx.Done alternative
  | close                                -- c.close(): c.ctx cancelled
  | idle                                 -- dispatch: idle timer fired ⇒ c.close()
  | ctxDone (win : List Nat)             -- dispatch: `case <-c.ctx.Done()`
  deriving Repr

def Sys.upd (s : Sys) (i : Nat) (f : Req → Req) : Sys :=
  { s with reqs := fun j => if j = i then f (s.reqs j) else s.reqs j }

def lookup (p : List (Nat × Nat)) (k : Nat) : Option Nat :=
  match p.find? (fun e => e.1 == k) with
  | some e => some e.2
  | none => none

def erase (p : List (Nat × Nat)) (k : Nat) : List (Nat × Nat) :=
  p.filter (fun e => !(e.1 == k))

/-- the `for _, req := range requests { req.replyResult(nil, err) }` of the ctx.Done alternative -/
def failAll (win : List Nat) : List (Nat × Nat) → Sys → Sys
  | [], s => s
  | (_, i) :: rest, s => failAll win rest (s.upd i (fun r => r.complete .table .errClosed (win.contains i)))

def step (s : Sys) : Ev → Sys
  | .create t a =>
    { s with n := s.n + 1,
             reqs := fun j => if j = s.n then { rtype := t, arg := a, stage := .created } else s.reqs j }
  | .toHandler i =>
    if (s.reqs i).stage = .created then s.upd i (fun r => { r with stage := .calling }) else s
  | .handlerFail i win =>
    if (s.reqs i).stage = .calling then
      s.upd i (fun r => ({ r with stage := .failed }).complete .handler .errHandler win)
    else s
  | .toSendG i =>
    if (s.reqs i).stage = .calling then s.upd i (fun r => { r with stage := .sendG }) else s
  | .sendGDrop i =>
    if (s.reqs i).stage = .sendG ∧ s.conn.ctxDone = true then
      s.upd i (fun r => { r with stage := .dropped })
    else s
  | .sendGErr i win =>
    if (s.reqs i).stage = .sendG ∧ (s.reqs i).ctxDone = true then
      s.upd i (fun r => ({ r with stage := .sendErr }).complete .sendG .errSend win)
    else s
  | .enqueue i =>
    if (s.reqs i).stage = .sendG then s.upd i (fun r => { r with stage := .queued }) else s
  | .dsend i fwd =>
    if (s.reqs i).stage = .queued ∧ s.conn.stopped = false ∧ (fwd = true ∨ s.conn.ctxDone = true) then
      let st : Stage := if fwd then .out else .table
      match (s.reqs i).rtype with
      | .send =>
        { s.upd i (fun r => { r with stage := st, nonce := some s.conn.next }) with
          conn := { s.conn with next := s.conn.next + 1, pending := (s.conn.next, i) :: s.conn.pending } }
      | .reply => s.upd i (fun r => { r with stage := st })
    else s
  | .pack i win =>
    if (s.reqs i).stage = .out then
      let r := s.reqs i
      let s1 := match r.rtype with
        | .reply => s.upd i (fun r => ({ r with stage := .packed }).complete .pack .nilOk win)
        | .send => s.upd i (fun r => { r with stage := .packed })
      let nn := match r.rtype with
        | .reply => r.arg
        | .send => r.nonce.getD 0
      { s1 with wire := s1.wire ++ [(i, nn, r.rtype)] }
    else s
  | .reply k m race win =>
    if s.conn.stopped then s else
    match lookup s.conn.pending k with
    | none => s
    | some i =>
      let s1 := { s with conn := { s.conn with pending := erase s.conn.pending k } }
      if (s.reqs i).ctxDone then s1
      else s1.upd i (fun r =>
        (if race then { r with ctxDone := true } else r).complete .table (.msg m) win)
  | .recv m => if s.conn.stopped then s else { s with feed := s.feed ++ [m] }
  | .cancel i =>
    if (s.reqs i).stage = .absent then s else s.upd i (fun r => { r with ctxDone := true })
  | .waiterCtx i =>
    if (s.reqs i).waiter = .waiting ∧ (s.reqs i).ctxDone = true then
      s.upd i (fun r => { r with waiter := .ctxErr })
    else s
  | .close => { s with conn := { s.conn with ctxDone := true } }
  | .idle => if s.conn.stopped then s else { s with conn := { s.conn with ctxDone := true } }
  | .ctxDone win =>
    if s.conn.ctxDone = true ∧ s.conn.stopped = false then
      let s1 := failAll win s.conn.pending s
      { s1 with conn := { s1.conn with pending := [], stopped := true } }
    else s

def run (s : Sys) (evs : List Ev) : Sys := evs.foldl step s

def init : Sys := {}

/-! ### (c) callHandler -/

/-- what dial + handshake does: `silent` = the peer accepts the TCP connection and never sends its ID
(the handshake read does not return by itself); `blackhole` = the host never answers the SYN (down,
firewall DROP: the dial itself does not return by itself — the kernel gives up after minutes). -/
inductive Dial | ok | refused | hsFail | silent | blackhole
  deriving DecidableEq, Repr

structure Handler where
  clients : List Nat := []     -- peers with a registered outgoing client
  wedged  : Bool := false      -- goroutine is inside handleCallReq and will never return
  deriving Repr

inductive HEv
  | call (i peer : Nat) (d : Dial)   -- `case req := <-n.calling`; `d` = what dial+handshake would do
  | remove (peer : Nat)              -- `case id := <-n.removeCallingC`
  | tick                             -- watchdog
  deriving Repr

inductive HOut
  | handed (i peer : Nat)      -- `go c.send(req)`
  | failed (i : Nat)           -- replyResult(err) on the handler's copy
  deriving DecidableEq, Repr

/-- `deadline = false`: the code as it was (no bound on the handshake read);
`deadline = true`: the handshake read is bounded, a silent peer is a failed handshake.
`dialB = false`: the code as it was (bare `net.Dial`: a black-holed peer keeps the loop inside the dial);
`dialB = true`: the dial is bounded, a black-holed peer is a failed dial. -/
def hstep (deadline dialB : Bool) (h : Handler) : HEv → Handler × List HOut
  | .call i peer d =>
    if h.wedged then (h, []) else
    if h.clients.contains peer then (h, [.handed i peer]) else
    match d with
    | .ok => ({ h with clients := peer :: h.clients }, [.handed i peer])
    | .refused => (h, [.failed i])
    | .hsFail => (h, [.failed i])
    | .silent => if deadline then (h, [.failed i]) else ({ h with wedged := true }, [])
    | .blackhole => if dialB then (h, [.failed i]) else ({ h with wedged := true }, [])
  | .remove peer =>
    if h.wedged then (h, []) else ({ h with clients := h.clients.filter (fun p => !(p == peer)) }, [])
  | .tick => (h, [])

def hrun (deadline dialB : Bool) : Handler → List HEv → Handler × List HOut
  | h, [] => (h, [])
  | h, e :: es =>
    let (h1, o1) := hstep deadline dialB h e
    let (h2, o2) := hrun deadline dialB h1 es
    (h2, o1 ++ o2)


/-! ### (b') the request object with arbitrarily many by-value copies

Used to check, against real Go, the semantics the model above assumes: a copy of the struct
carries its own `sync.Once` (in the state it had when copied); the channel and context are shared. -/

structure Obj where
  onces   : List Bool := [false]    -- copy 0 is the original
  ctxDone : Bool := false
  waiter  : Waiter := .waiting
  closes  : Nat := 0
  deriving Repr

inductive OEv
  | copy (a : Nat)
  | fire (a : Nat) (v : Res) (win : Bool)   -- replyResult(v) on copy a
  | cancel                                  -- cancel the context and let waitForResult return
  deriving Repr

def ostep (o : Obj) : OEv → Obj
  | .copy a =>
    match o.onces[a]? with
    | some b => { o with onces := o.onces ++ [b] }
    | none => o
  | .fire a v win =>
    if o.closes ≥ 2 then o else        -- the process has panicked already
    match o.onces[a]? with
    | some false =>
      let o1 := { o with onces := o.onces.set a true, closes := o.closes + 1 }
      if o.waiter = .waiting ∧ (o.ctxDone = false ∨ win = true) then
        { o1 with waiter := .got v, ctxDone := true }
      else o1
    | _ => o
  | .cancel =>
    { o with ctxDone := true, waiter := if o.waiter = .waiting then .ctxErr else o.waiter }

/-! ### driver (line protocol of the correspondence run) -/

def showWaiter : Waiter → String
  | .waiting => "hang"
  | .ctxErr => "ctx"
  | .got (.msg m) => s!"msg:{m}"
  | .got .nilOk => "nil"
  | .got .errClosed => "closed"
  | .got .errHandler => "handler"
  | .got .errSend => "send"

def joinOr (l : List String) : String := if l.isEmpty then "-" else String.intercalate "," l

/-- the events one serialised harness operation stands for -/
def dispEvents (n : Nat) (op : String) : Option (List Ev × Nat × Bool) :=
  let rest := (op.drop 1).toString
  match op.take 1 |>.toString with
  | "s" => some ([.create .send 0, .toHandler n, .toSendG n, .enqueue n, .dsend n true, .pack n false], n + 1, false)
  | "r" => rest.toNat?.map fun a =>
      ([.create .reply a, .toHandler n, .toSendG n, .enqueue n, .dsend n true, .pack n false], n + 1, false)
  | "p" =>
    match rest.splitOn ":" with
    | [k, m] => match k.toNat?, m.toNat? with
      | some k, some m => some ([.reply k m false false], n, false)
      | _, _ => none
    | _ => none
  | "v" => rest.toNat?.map fun m => ([.recv m], n, false)
  | "c" => rest.toNat?.map fun i => ([.cancel i, .waiterCtx i], n, false)
  | "x" => some ([.close, .ctxDone []], n, true)
  | _ => none

def dispRun : List String → Sys → Option Sys
  | [], s => some s
  | op :: ops, s =>
    match dispEvents s.n op with
    | none => none
    | some (evs, _, stop) =>
      let s1 := run s evs
      if stop then some s1 else dispRun ops s1

def showType : RType → String
  | .send => "s" | .reply => "r"

def stepDisp (evs : String) : String :=
  match dispRun (if evs == "-" then [] else evs.splitOn ",") init with
  | none => "bad-op"
  | some s =>
    let s := if s.conn.stopped then s else run s [.close, .ctxDone []]
    let ids := List.range s.n
    let nonces := ids.filterMap fun i => (s.reqs i).nonce.map fun k => s!"{i}:{k}"
    let wire := s.wire.map fun (_, k, t) => s!"{k}:{showType t}"
    let res := ids.map fun i => showWaiter (s.reqs i).waiter
    s!"nonces={joinOr nonces} wire={joinOr wire} feed={joinOr (s.feed.map toString)} res={joinOr res}"

def objRun : List String → Obj → Option Obj
  | [], o => some o
  | op :: ops, o =>
    let rest := (op.drop 1).toString
    match op.take 1 |>.toString with
    | "y" => match rest.toNat? with
      | some a => objRun ops (ostep o (.copy a))
      | none => none
    | "f" => match rest.splitOn ":" with
      | [a, v] => match a.toNat?, v.toNat? with
        | some a, some v => objRun ops (ostep o (.fire a (.msg v) false))
        | _, _ => none
      | _ => none
    | "c" => objRun ops (ostep o .cancel)
    | _ => none

def stepObj (ops : String) : String :=
  match objRun (if ops == "-" then [] else ops.splitOn ",") {} with
  | none => "bad-op"
  | some o =>
    let o := ostep o .cancel      -- the harness ends every case by cancelling the context
    let cl := if o.closes ≥ 2 then "panic" else toString o.closes
    s!"res={showWaiter o.waiter} closed={cl}"

/-! network scenarios: `net <peers> <reqs>` -/

inductive Act
  | reply | drop | unknownFirst | dup | late | race
  | badGood   -- the peer answers with a reply whose signature does not verify, then with the good one
  | badOnly   -- … with a reply whose signature does not verify and nothing else; the caller then cancels
  deriving DecidableEq, Repr

def parseAct (a : String) : Option Act :=
  match a.take 1 |>.toString with
  | "R" => some .reply
  | "D" => some .drop
  | "T" => some .drop
  | "L" => some .drop
  | "U" => some .unknownFirst
  | "P" => some .dup
  | "X" => some .late
  | "C" => some .race
  | "K" => some .race
  | "S" => some .badGood
  | "B" => some .badOnly
  | _ => none

/-- peer kind → (what dial + handshake does, whether the peer is probed afterwards) -/
def parseDial (p : String) : Option (Dial × Bool) :=
  match p with
  | "ok" => some (.ok, true)
  | "close" => some (.ok, false)
  | "refuse" => some (.refused, false)
  | "silent" => some (.silent, false)
  | "blackhole" => some (.blackhole, false)
  | _ => none

def parseReq (r : String) : Option (Nat × Act) :=
  match r.splitOn "." with
  | p :: a :: _ => match p.toNat?, parseAct a with
    | some p, some a => some (p, a)
    | _, _ => none
  | _ => none

def ownPayload (i : Nat) : Nat := 7 * i + 3

/-- events on the connection for one handed request `j` (its index on that connection) with global id `g` -/
def actEvents (verify : Bool) (j g : Nat) (nonce : Nat) : Act → List Ev
  | .reply => [.reply nonce (ownPayload g) false false]
  | .drop => [.cancel j, .waiterCtx j]
  | .unknownFirst => [.reply (nonce + 100000) (ownPayload g + 1) false false, .reply nonce (ownPayload g) false false]
  | .dup => [.reply nonce (ownPayload g) false false, .reply nonce (ownPayload g + 1) false false]
  | .late => [.cancel j, .waiterCtx j, .reply nonce (ownPayload g) false false]
  | .race => []
  -- a frame whose signature does not verify is dropped by decodePipe (`verify`): it is no reply event
  | .badGood => (if verify then [] else [.reply nonce (ownPayload g + 2) false false]) ++
      [.reply nonce (ownPayload g) false false]
  | .badOnly => (if verify then [] else [.reply nonce (ownPayload g + 2) false false]) ++
      [.cancel j, .waiterCtx j]

/-- outcome of the requests (global ids `gs`, in order) that were handed to ONE connection -/
def connOutcomes (verify : Bool) (gs : List (Nat × Act)) : List (Nat × String) :=
  let sends : List Ev := (List.range gs.length).flatMap fun j =>
    [.create .send 0, .toHandler j, .toSendG j, .enqueue j, .dsend j true, .pack j false]
  let s0 := run init sends
  let acts : List Ev := (List.zip (List.range gs.length) gs).flatMap fun (j, g, a) =>
    actEvents verify j g ((s0.reqs j).nonce.getD 0) a
  let s1 := run s0 acts
  (List.zip (List.range gs.length) gs).map fun (j, g, a) =>
    if a = .race then (g, "any") else
    match (s1.reqs j).waiter with
    | .got (.msg m) => (g, if m = ownPayload g then "ok" else s!"ok-wrong:{m}")
    | .waiting => (g, "hang")
    | _ => (g, "err")

/-- a peer kind whose dial or handshake does not return by itself -/
def Dial.stalls : Dial → Bool
  | .silent => true
  | .blackhole => true
  | _ => false

def stepNet (deadline dialB verify : Bool) (peers reqs : String) : String :=
  match (peers.splitOn ",").mapM parseDial, (reqs.splitOn ",").mapM parseReq with
  | some ps, some rs =>
    let np := ps.length
    if rs.any (fun r => r.1 ≥ np) then "bad-op" else
    let idx := List.zip (List.range rs.length) rs
    let dialOf := fun (p : Nat) => (ps.getD p (.refused, false)).1
    let hasBh := ps.any fun (d, _) => d = .blackhole
    -- a scenario with a black-holed peer starts with one warm-up request per answering peer (the node is
    -- CONNECTED to them when the black hole is asked); then: requests to silent / black-holed peers are
    -- issued first, then the others, then one probe per answering peer
    let warm : List (Nat × Nat × Act) := if hasBh then
      (List.zip (List.range np) ps).filterMap fun (p, _, probe) => if probe then some (rs.length + np + p, p, Act.reply) else none
      else []
    let first := idx.filter fun (_, p, _) => (dialOf p).stalls
    let rest := idx.filter fun (_, p, _) => !(dialOf p).stalls
    let probes : List (Nat × Nat × Act) :=
      (List.zip (List.range np) ps).filterMap fun (p, _, probe) => if probe then some (rs.length + p, p, Act.reply) else none
    let order := warm ++ first ++ rest ++ probes
    let hevs := order.map fun (g, p, _) => HEv.call g p (dialOf p)
    let outs := (hrun deadline dialB {} hevs).2
    let handed := order.filter fun (g, p, _) => outs.contains (.handed g p)
    let perPeer := (List.range np).flatMap fun p =>
      connOutcomes verify ((handed.filter fun (_, q, _) => q = p).map fun (g, _, a) => (g, a))
    let outcome := fun (g : Nat) => match perPeer.find? (fun e => e.1 = g) with
      | some e => e.2
      | none => "err"
    let res := (List.range rs.length).map outcome
    let pr := probes.map fun (g, _, _) => outcome g
    let wm := warm.map fun (g, _, _) => outcome g
    s!"res={joinOr res} probes={joinOr pr}" ++ (if hasBh then s!" warm={joinOr wm}" else "")
  | _, _ => "bad-op"

/-- `deadline`, `dialB`: the handshake / the dial in handleCallReq is bounded; `verify`: decodePipe drops a
frame whose signature does not verify (the three are regenerated facts in the driver) -/
def driverStep (deadline dialB verify : Bool) (line : String) : String :=
  match words line with
  | ["disp", evs] => stepDisp evs
  | ["obj", ops] => stepObj ops
  | ["net", peers, reqs] => stepNet deadline dialB verify peers reqs
  | _ => "bad-op"

end Dos.Dispatch

// Package c08: a dealt share opens only for its addressee and only unmodified.
// Real vss.Dealer.EncryptedDeal / vss.Verifier.ProcessEncryptedDeal on bn256,
// byte-level mutations of the four fields, cross-wired recipients / dealers /
// member lists, and plaintext-level deviations through the sealing hook.
//
// Case lines (all key material derives from <seed>, a decimal uint64):
//
//	enc <seed> <n> <t> <i> <j> <dl> <ls> <mut>
//	    honest dealer deals to recipient i of list L (n members, threshold t);
//	    the opener has member j's key, believes the dealer is <dl> = same|other|mem<k>
//	    and the member list is <ls> = same|swap:<a>:<b>|repl:<m>|drop|add|neg:<m>|dup:<a>:<b>;
//	    <mut> = "-" or ';'-separated byte-level changes of the EncryptedDeal:
//	      xor:<f>:<pos>:<mask>  trunc:<f>:<k>  ext:<f>:<k>  swap:<f+f..>:<src>  addp:<dh|sig>:<coord>
//	      (f in dh|sig|nonce|cipher; src = r<i2> deal of the same dealer to i2,
//	       d = deal of another dealer to i, c = second deal of the same dealer to i)
//	pl  <seed> <n> <t> <i> <dev>
//	    a (possibly inconsistent) plaintext deal sealed for recipient i with the package's own
//	    key derivation; <dev> = none|badshare|T:<v>|Tx:<v>|idx:<k>|nilshare|nilv|noplain|
//	    Tc:<v> (self-consistent deal of threshold v: v commitments, matching share and session id)|
//	    clen:<len>|clenc:<len>|sid:<raw|zero|empty|othert|otherc|otherd>|twice
//
//	ses <seed> <n> <t> <i> <ls>
//	    a HISTORY of three sessions over ONE member slice (same backing array): session 1 over the list L (the dealer's
//	    deal for i is approved), then L is edited IN PLACE (<ls> = swap|repl|neg|dup, length kept, member i untouched) and
//	    a verifier built over the same slice is shown the deal of session 1 (must be rejected), then the edit is undone in
//	    place and a third verifier over the slice opens it again. Output "s1=[..] s2=[..] s3=[..]".
//
// Output: "<res> cert=<0|1>" with <res> = ok approve | ok complaint | err <kind> | panic <site>;
// cert = Verifier.Deal() != nil after every other member's signed approval was fed in.
package c08

import (
	"bytes"
	"fmt"
	"math/big"
	"strings"

	"github.com/DOSNetwork/core/share"
	vss "github.com/DOSNetwork/core/share/vss/pedersen"
	"github.com/dedis/kyber"
	"github.com/dedis/kyber/sign/schnorr"

	"verifharness/internal/dkgnet"
	"verifharness/internal/h"
)

func init() {
	h.Register(&h.Prop{
		ID:         "C08",
		Rule:       "enc: real EncryptedDeal, presented to every (recipient, opener, believed dealer, believed member list) combination for n<=5 and mutated at byte level (xor masks 01/80/FF at byte positions of all four fields - sampled in quick, every position in thorough -, truncation/extension by 1 and 16, field swaps with a second deal of the same dealer to another recipient / of another dealer / a second deal to the same recipient); pl: plaintext deviations sealed through the hook (bad share, T in {0,1,n+1,2^32-1} with and without matching session id, self-consistent deals (T commitments, fitting share and session id) for every T in 0..n+1 and 2n, wrong index (small, out of range, and equal to the own index modulo 2^32), nil share, nil value, empty plaintext, other-length commitments, foreign session ids, same deal twice); every emitted deal: exact field lengths (129/161/12/plaintext+16), context(dealer, list) compared for every generated pair of (dealer, member list) incl. lists with RELATED keys (a member's key negated - equal x coordinate and equal first 65 bytes -, one key twice), an outside OBSERVER with its own HKDF/AES-GCM trying keys from every public value, their sums and differences, every other member's private key and (1 case in 8) every 32-byte window of the message; non-trivial = anything but the unmodified deal opened by its addressee; distinct = distinct case line",
		Gen:        gen,
		Exec:       exec,
		Exhaustive: func(tier string) bool { return tier == "thorough" },
	})
}

var suite = dkgnet.Suite

// bn256 base field prime (a non-reduced coordinate x+p used to decode to the same point)
var fieldPrime, _ = new(big.Int).SetString("21888242871839275222246405745257275088696311157297823662689037894645226208583", 10)

type universe struct {
	secs   []kyber.Scalar // member long-term keys
	pubs   []kyber.Point
	dlong  kyber.Scalar // the dealer
	olong  kyber.Scalar // another dealer
	fresh  kyber.Scalar // a key that is in nobody's list
	secret *big.Int
	coeffs []*big.Int // harness-known polynomial (pl cases)
}

func mkUniverse(seed uint64, n, t int) *universe {
	r := h.NewRng(seed)
	u := &universe{}
	for k := 0; k < n; k++ {
		s := dkgnet.Scalar(dkgnet.NonZero(r))
		u.secs = append(u.secs, s)
		u.pubs = append(u.pubs, dkgnet.Pub(s))
	}
	u.dlong = dkgnet.Scalar(dkgnet.NonZero(r))
	u.olong = dkgnet.Scalar(dkgnet.NonZero(r))
	u.fresh = dkgnet.Scalar(dkgnet.NonZero(r))
	u.secret = dkgnet.NonZero(r)
	u.coeffs = []*big.Int{u.secret}
	for k := 1; k < t; k++ {
		u.coeffs = append(u.coeffs, dkgnet.NonZero(r))
	}
	return u
}

func errKind(err error) string {
	s := err.Error()
	switch {
	case strings.HasPrefix(s, "schnorr:"), strings.Contains(s, "bn256."), strings.Contains(s, "UnmarshalBinary"):
		return "sig"
	case strings.Contains(s, "message authentication failed"):
		return "open"
	case strings.Contains(s, "nonce"):
		return "nonce"
	case strings.Contains(s, "wrong index from deal"):
		return "index"
	case strings.Contains(s, "already received a deal"):
		return "already"
	case strings.Contains(s, "without a share"):
		return "noshare"
	case strings.Contains(s, "session id"), strings.Contains(s, "sessionID"):
		return "sid"
	case strings.Contains(s, "not found in the list of verifiers"):
		return "notmember"
	case strings.Contains(s, "protobuf"), strings.Contains(s, "wiretype"), strings.Contains(s, "bad "), strings.Contains(s, "field"):
		return "decode"
	}
	return "other:" + h.OneLine(s)
}

func field(e *vss.EncryptedDeal, f string) *[]byte {
	switch f {
	case "dh":
		return &e.DHKey
	case "sig":
		return &e.Signature
	case "nonce":
		return &e.Nonce
	case "cipher":
		return &e.Cipher
	}
	panic("bad field " + f)
}

func cloneED(e *vss.EncryptedDeal) *vss.EncryptedDeal {
	return &vss.EncryptedDeal{DHKey: append([]byte{}, e.DHKey...), Signature: append([]byte{}, e.Signature...),
		Nonce: append([]byte{}, e.Nonce...), Cipher: append([]byte{}, e.Cipher...)}
}

func sameED(a, b *vss.EncryptedDeal) bool {
	return bytes.Equal(a.DHKey, b.DHKey) && bytes.Equal(a.Signature, b.Signature) && bytes.Equal(a.Nonce, b.Nonce) && bytes.Equal(a.Cipher, b.Cipher)
}

// run ProcessEncryptedDeal under recover; then feed every other member's signed approval
func process(v *vss.Verifier, e *vss.EncryptedDeal, listSecs []kyber.Scalar) (res string, resp *vss.Response, cert bool) {
	func() {
		defer func() {
			if r := recover(); r != nil {
				msg := fmt.Sprint(r)
				switch {
				case strings.Contains(msg, "incorrect nonce length"):
					res = "panic nonce"
				case strings.Contains(msg, "kyber.Scalar is nil"):
					res = "panic nilv"
				case strings.Contains(msg, "nil pointer dereference"):
					res = "panic nilshare"
				default:
					res = "panic other:" + h.OneLine(msg)
				}
			}
		}()
		r, err := v.ProcessEncryptedDeal(e)
		switch {
		case err != nil:
			res = "err " + errKind(err)
		case r.Status == vss.StatusApproval:
			res, resp = "ok approve", r
		default:
			res, resp = "ok complaint", r
		}
	}()
	if strings.HasPrefix(res, "panic") {
		return
	}
	sid := v.VerifAggSessionID()
	for k, sk := range listSecs {
		if k == v.Index() {
			continue
		}
		r := &vss.Response{SessionID: sid, Index: uint32(k), Status: vss.StatusApproval}
		r.Signature, _ = schnorr.Sign(suite, sk, r.Hash(suite))
		_ = v.ProcessResponse(r)
	}
	// Verifier.Deal() dereferences a nil aggregator when no deal was ever opened: that is "no deal"
	func() {
		defer func() {
			if recover() != nil {
				cert = false
			}
		}()
		cert = v.Deal() != nil
	}()
	return
}

func b2i(b bool) int {
	if b {
		return 1
	}
	return 0
}

// independent check of an opened deal: threshold valid, index own, share on the committed polynomial
func consistent(d *vss.Deal, n, own int) bool {
	if d == nil || d.SecShare == nil || d.SecShare.V == nil {
		return false
	}
	t := int64(d.T)
	if t < 2 || t > int64(n) {
		return false
	}
	if d.SecShare.I != own || own >= n {
		return false
	}
	lhs := dkgnet.Pub(d.SecShare.V)
	rhs := dkgnet.PubEval(d.Commitments, int64(own)+1)
	return bytes.Equal(dkgnet.PointBytes(lhs), dkgnet.PointBytes(rhs))
}

func exec(line string) (res h.Result) {
	dkgnet.InitLog()
	w := strings.Fields(line)
	switch w[0] {
	case "enc":
		return execEnc(w)
	case "pl":
		return execPl(w)
	case "ses":
		return execSes(w)
	}
	panic("bad case line")
}

func applyList(u *universe, ls string) ([]kyber.Point, []kyber.Scalar) {
	pubs := append([]kyber.Point{}, u.pubs...)
	secs := append([]kyber.Scalar{}, u.secs...)
	return applyListTo(u, ls, pubs, secs)
}

// applyListTo edits pubs / secs IN PLACE where the variant keeps the length (swap, repl, neg, dup): the returned
// slices then share their backing arrays with the arguments.
func applyListTo(u *universe, ls string, pubs []kyber.Point, secs []kyber.Scalar) ([]kyber.Point, []kyber.Scalar) {
	p := strings.Split(ls, ":")
	switch p[0] {
	case "same":
	case "swap":
		a, b := h.Atoi(p[1])%len(pubs), h.Atoi(p[2])%len(pubs)
		pubs[a], pubs[b] = pubs[b], pubs[a]
		secs[a], secs[b] = secs[b], secs[a]
	case "repl":
		m := h.Atoi(p[1]) % len(pubs)
		pubs[m], secs[m] = dkgnet.Pub(u.fresh), u.fresh
	case "drop":
		pubs, secs = pubs[:len(pubs)-1], secs[:len(secs)-1]
	case "add":
		pubs, secs = append(pubs, dkgnet.Pub(u.fresh)), append(secs, u.fresh)
	case "neg": // a RELATED key: member m's key negated (same x coordinate, same first 65 bytes of the encoding)
		m := h.Atoi(p[1]) % len(pubs)
		pubs[m], secs[m] = suite.Point().Neg(pubs[m]), suite.Scalar().Neg(secs[m])
	case "dup": // member a's seat holds member b's key (a list with one key twice; permutations of it via swap)
		a, b := h.Atoi(p[1])%len(pubs), h.Atoi(p[2])%len(pubs)
		pubs[a], secs[a] = pubs[b], secs[b]
	default:
		panic("bad list variant " + ls)
	}
	return pubs, secs
}

func execEnc(w []string) (res h.Result) {
	seed, n, t, i, j := uint64(h.BigDec(w[1]).Uint64()), h.Atoi(w[2]), h.Atoi(w[3]), h.Atoi(w[4]), h.Atoi(w[5])
	dl, ls, mut := w[6], w[7], w[8]
	u := mkUniverse(seed, n, t)
	dealer, err := vss.NewDealer(suite, u.dlong, dkgnet.Scalar(u.secret), u.pubs, t)
	if err != nil {
		res.Impl, res.Class = "err newdealer", "enc-newdealer-err"
		if t >= 2 && t <= n {
			res.Oracle = "dealer-rejects-valid-t: " + h.OneLine(err.Error())
		}
		return
	}
	e0, err := dealer.EncryptedDeal(i)
	if err != nil {
		panic(err)
	}
	eSecond, _ := dealer.EncryptedDeal(i)
	fresh := !bytes.Equal(e0.DHKey, eSecond.DHKey) && !bytes.Equal(e0.DHKey, dkgnet.PointBytes(dkgnet.Pub(u.dlong))) && !bytes.Equal(e0.Cipher, eSecond.Cipher)
	e := cloneED(e0)
	genuine := []*vss.EncryptedDeal{e0, eSecond}
	mutClass := "none"
	if mut != "-" {
		for _, m := range strings.Split(mut, ";") {
			p := strings.Split(m, ":")
			mutClass = p[0] + "-" + p[1]
			switch p[0] {
			case "xor":
				f := field(e, p[1])
				if len(*f) > 0 {
					(*f)[h.Atoi(p[2])%len(*f)] ^= byte(h.Atoi(p[3]))
				}
			case "addp": // add the field prime to one 32-byte coordinate of the point at the start of the field
				f := field(e, p[1])
				c := h.Atoi(p[2]) % 4
				if len(*f) >= 129 {
					x := new(big.Int).SetBytes((*f)[1+32*c : 33+32*c])
					x.Add(x, fieldPrime)
					if b := x.Bytes(); len(b) <= 32 {
						for k := 1 + 32*c; k < 33+32*c; k++ {
							(*f)[k] = 0
						}
						copy((*f)[33+32*c-len(b):33+32*c], b)
					}
				}
			case "trunc":
				f := field(e, p[1])
				k := h.Atoi(p[2])
				if k > len(*f) {
					k = len(*f)
				}
				*f = (*f)[:len(*f)-k]
			case "ext":
				f := field(e, p[1])
				*f = append(*f, make([]byte, h.Atoi(p[2]))...)
			case "swap":
				var e2 *vss.EncryptedDeal
				switch {
				case p[2] == "c":
					e2 = eSecond
				case p[2] == "d":
					od, err := vss.NewDealer(suite, u.olong, dkgnet.Scalar(u.secret), u.pubs, t)
					if err != nil {
						panic(err)
					}
					e2, _ = od.EncryptedDeal(i)
				case strings.HasPrefix(p[2], "r"):
					e2, err = dealer.EncryptedDeal(h.Atoi(p[2][1:]) % n)
					if err != nil {
						panic(err)
					}
					if h.Atoi(p[2][1:])%n == i {
						genuine = append(genuine, e2)
					}
				default:
					panic("bad swap source")
				}
				for _, fn := range strings.Split(p[1], "+") {
					*field(e, fn) = append([]byte{}, *field(e2, fn)...)
				}
			default:
				panic("bad mutation " + m)
			}
		}
	}
	// the opener
	var dpub kyber.Point
	dealerSame := false
	switch {
	case dl == "same":
		dpub, dealerSame = dkgnet.Pub(u.dlong), true
	case dl == "other":
		dpub = dkgnet.Pub(u.olong)
	case strings.HasPrefix(dl, "mem"):
		dpub = u.pubs[h.Atoi(dl[3:])%n]
	default:
		panic("bad dealer variant")
	}
	lpubs, lsecs := applyList(u, ls)
	listSame := dkgnet.PointsEqual(lpubs, u.pubs)
	// round 5: judged from the wire, before anybody opens anything
	{
		pd, _ := dealer.PlaintextDeal(i)
		ptb, _ := pd.MarshalBinary()
		for _, ge := range []*vss.EncryptedDeal{e0, eSecond} {
			if res.Oracle == "" {
				res.Oracle = fieldLengths(ge, len(ptb))
			}
		}
		if o := contextOracle(dkgnet.Pub(u.dlong), u.pubs, dpub, lpubs); o != "" {
			res.Oracle = o
		}
		if mut == "-" {
			if o := observe(e0, dkgnet.Pub(u.dlong), u.pubs, u.secs, i, seed%8 == 0); o != "" {
				res.Oracle = o
			}
		}
	}
	wireOracle := res.Oracle
	v, err := vss.NewVerifier(suite, u.secs[j], dpub, lpubs)
	if err != nil {
		res.Impl, res.Class = "err notmember cert=0", "enc-notmember"
		res.Nontrivial = true
		return
	}
	out, resp, cert := process(v, e, lsecs)
	res.Impl = fmt.Sprintf("%s cert=%d fresh=%d", out, b2i(cert), b2i(fresh))
	isGenuine := false
	for _, ge := range genuine {
		isGenuine = isGenuine || sameED(e, ge)
	}
	pristine := isGenuine && dealerSame && listSame && j == i
	res.Nontrivial = !pristine
	res.Class = "enc-" + mutClass + "-" + strings.Fields(out)[0] + "-" + strings.Fields(out)[1]
	if !dealerSame || !listSame || j != i {
		res.Class = "enc-crosswired-" + strings.Fields(out)[0] + "-" + strings.Fields(out)[1]
	}
	// ---- the property itself, judged from bytes and keys the harness knows ----
	opened := strings.HasPrefix(out, "ok")
	switch {
	case wireOracle != "":
	case strings.HasPrefix(out, "panic"):
		res.Oracle = "panic-" + strings.Fields(out)[1] + ": ProcessEncryptedDeal panicked instead of rejecting (" + mutClass + ")"
	case !pristine && opened:
		what := "mut-" + mutClass
		switch {
		case j != i:
			what = "wrong-recipient"
		case !dealerSame:
			what = "wrong-dealer"
		case !listSame:
			what = "wrong-member-list"
		}
		res.Oracle = "opened-" + what + ": a deal that is not the dealer's unmodified deal for this recipient, dealer and member list was opened (" + out + ")"
	case !pristine && cert:
		res.Oracle = "deal-set-after-reject: Verifier.Deal() is set although ProcessEncryptedDeal failed"
	case pristine && out != "ok approve":
		res.Oracle = "honest-deal-not-approved: " + out
	case pristine && !cert:
		res.Oracle = "honest-deal-not-certified: all members approved, Verifier.Deal() is nil"
	case !fresh:
		res.Oracle = "static-dh-key: two deals carry the same ephemeral key / ciphertext, or the dealer's long-term key"
	}
	if res.Oracle == "" && pristine {
		// the approved share is the dealer polynomial at i+1, the response is well formed
		var cf []*big.Int
		for _, c := range dealer.PrivatePoly().Coefficients() {
			cf = append(cf, dkgnet.Big(c))
		}
		d := v.Deal()
		want := dkgnet.Eval(cf, int64(i)+1)
		sid, _ := vss.VerifSessionID(suite, dkgnet.Pub(u.dlong), u.pubs, d.Commitments, t)
		switch {
		case d.SecShare == nil || dkgnet.Big(d.SecShare.V).Cmp(want) != 0 || d.SecShare.I != i:
			res.Oracle = "approved-share-not-on-polynomial: share differs from f(i+1)"
		case !consistent(d, n, i):
			res.Oracle = "approved-share-fails-commitments"
		case !dkgnet.PointsEqual(d.Commitments, dkgnet.Commit(cf)):
			res.Oracle = "approved-commitments-differ"
		case int(resp.Index) != i || !bytes.Equal(resp.SessionID, sid):
			res.Oracle = "response-malformed: index or session id"
		case schnorr.Verify(suite, u.pubs[i], resp.Hash(suite), resp.Signature) != nil:
			res.Oracle = "response-signature-invalid"
		}
	}
	return
}

func execPl(w []string) (res h.Result) {
	seed, n, t, i := uint64(h.BigDec(w[1]).Uint64()), h.Atoi(w[2]), h.Atoi(w[3]), h.Atoi(w[4])
	dev := w[5]
	u := mkUniverse(seed, n, t)
	r := h.NewRng(seed ^ 0xABCDEF)
	dpub := dkgnet.Pub(u.dlong)
	coeffs := u.coeffs
	commits := dkgnet.Commit(coeffs)
	T := uint32(t)
	idx := i
	var shareV kyber.Scalar = dkgnet.Scalar(dkgnet.Eval(coeffs, int64(i)+1))
	var sh *share.PriShare
	sidT := t
	sidCommits := commits
	sidDealer := dpub
	var sidOverride []byte
	useSidOverride := false
	twice, noplain, nilshare := false, false, false
	p := strings.Split(dev, ":")
	switch p[0] {
	case "none":
	case "badshare":
		shareV = dkgnet.Scalar(new(big.Int).Add(dkgnet.Eval(coeffs, int64(i)+1), big.NewInt(1)))
	case "T": // threshold changed, session id computed for the changed threshold
		v := h.BigDec(p[1]).Uint64()
		T, sidT = uint32(v), int(uint32(v))
	case "Tx": // threshold changed, session id still the one of the original threshold
		T = uint32(h.BigDec(p[1]).Uint64())
	case "Tc": // a SELF-CONSISTENT deal for threshold v: fresh polynomial of degree v-1, exactly v
		// commitments, share = f(i+1), session id computed for exactly these commitments and v
		v := h.Atoi(p[1])
		for len(coeffs) < v {
			coeffs = append(coeffs, dkgnet.NonZero(r))
		}
		coeffs = coeffs[:v]
		commits = dkgnet.Commit(coeffs)
		sidCommits = commits
		shareV = dkgnet.Scalar(dkgnet.Eval(coeffs, int64(i)+1))
		T, sidT = uint32(v), v
	case "idx":
		idx = h.Atoi(p[1])
		shareV = dkgnet.Scalar(dkgnet.Eval(coeffs, int64(idx)+1))
	case "nilshare":
		nilshare = true
	case "nilv":
		shareV = nil
	case "noplain":
		noplain = true
	case "clen": // commitments cut / padded, share untouched
		l := h.Atoi(p[1])
		for len(commits) < l {
			commits = append(commits, dkgnet.Pub(dkgnet.Scalar(dkgnet.NonZero(r))))
		}
		commits = commits[:l]
		sidCommits = commits
	case "clenc": // a consistent polynomial of another length (T unchanged)
		l := h.Atoi(p[1])
		for len(coeffs) < l {
			coeffs = append(coeffs, dkgnet.NonZero(r))
		}
		coeffs = coeffs[:l]
		commits = dkgnet.Commit(coeffs)
		sidCommits = commits
		shareV = dkgnet.Scalar(dkgnet.Eval(coeffs, int64(i)+1))
	case "sid":
		useSidOverride = true
		switch p[1] {
		case "raw":
			sidOverride = r.Bytes(32)
		case "zero":
			sidOverride = make([]byte, 32)
		case "empty":
			sidOverride = nil
		case "othert":
			useSidOverride, sidT = false, t+1
		case "otherc":
			useSidOverride = false
			sidCommits = dkgnet.Commit(append([]*big.Int{dkgnet.NonZero(r)}, coeffs[1:]...))
		case "otherd":
			useSidOverride, sidDealer = false, dkgnet.Pub(u.olong)
		default:
			panic("bad sid deviation")
		}
	case "twice":
		twice = true
	default:
		panic("bad deviation " + dev)
	}
	sid, _ := vss.VerifSessionID(suite, sidDealer, u.pubs, sidCommits, sidT)
	if useSidOverride {
		sid = sidOverride
	}
	if !nilshare {
		sh = &share.PriShare{I: idx, V: shareV}
	}
	deal := &vss.Deal{SessionID: sid, SecShare: sh, T: T, Commitments: commits}
	var e *vss.EncryptedDeal
	var err error
	switch {
	case noplain:
		e, err = vss.VerifSealBytes(suite, u.dlong, u.pubs, i, nil)
	case shareV == nil && !nilshare:
		// a nil scalar cannot be encoded by Deal.MarshalBinary: encode the deal with a value and cut
		// the value field out of the plaintext (SecShare = {I} only)
		full := &vss.Deal{SessionID: sid, SecShare: &share.PriShare{I: idx, V: dkgnet.Scalar(big.NewInt(1))}, T: T, Commitments: commits}
		raw, merr := full.MarshalBinary()
		if merr != nil {
			panic(merr)
		}
		e, err = vss.VerifSealBytes(suite, u.dlong, u.pubs, i, dropShareValue(raw))
	default:
		e, err = vss.VerifSeal(suite, u.dlong, u.pubs, i, deal)
	}
	if err != nil {
		panic("sealing hook: " + err.Error())
	}
	v, err := vss.NewVerifier(suite, u.secs[i], dpub, u.pubs)
	if err != nil {
		panic(err)
	}
	if twice {
		if _, err := v.ProcessEncryptedDeal(e); err != nil {
			panic("twice: first processing failed: " + err.Error())
		}
	}
	out, resp, cert := process(v, e, u.secs)
	res.Impl = fmt.Sprintf("%s cert=%d", out, b2i(cert))
	res.Class = "pl-" + p[0] + "-" + strings.Fields(out)[0] + "-" + strings.Fields(out)[1]
	res.Nontrivial = dev != "none"
	ok := !nilshare && !noplain && shareV != nil && consistent(deal, n, i)
	switch {
	case strings.HasPrefix(out, "panic"):
		res.Oracle = "panic-" + strings.Fields(out)[1] + ": ProcessEncryptedDeal panicked on a sealed plaintext (" + p[0] + ")"
	case out == "ok approve" && (int(T) < 2 || int(T) > n):
		res.Oracle = fmt.Sprintf("approved-invalid-threshold-%s: a deal with T=%d for n=%d members was approved", p[0], T, n)
	case out == "ok approve" && !ok:
		res.Oracle = "approved-inconsistent-" + p[0] + ": a deal whose threshold, index or share does not fit its commitments was approved"
	case out == "ok approve" && twice:
		res.Oracle = "approved-twice: the same deal was processed twice"
	case dev == "none" && out != "ok approve":
		res.Oracle = "honest-deal-not-approved: " + out
	case cert && !strings.HasPrefix(out, "ok") && !twice:
		res.Oracle = "deal-set-after-reject: Verifier.Deal() is set although ProcessEncryptedDeal failed"
	}
	if res.Oracle == "" && resp != nil {
		csid, _ := vss.VerifSessionID(suite, dpub, u.pubs, commits, int(T))
		if int(resp.Index) != i || !bytes.Equal(resp.SessionID, csid) || schnorr.Verify(suite, u.pubs[i], resp.Hash(suite), resp.Signature) != nil {
			res.Oracle = "response-malformed: index, session id or signature"
		}
	}
	return
}

// dropShareValue removes field 2 (V) from the embedded SecShare message (field 2 of Deal).
// Deal wire layout: 1:SessionID(bytes) 2:SecShare(message{1:I sint, 2:V bytes}) 3:T 4..:Commitments.
func dropShareValue(raw []byte) []byte {
	var out []byte
	buf := raw
	for len(buf) > 0 {
		key, n := uvarint(buf)
		start := buf
		buf = buf[n:]
		switch key & 7 {
		case 0:
			_, m := uvarint(buf)
			buf = buf[m:]
			out = append(out, start[:n+m]...)
		case 2:
			l, m := uvarint(buf)
			body := buf[m : m+int(l)]
			buf = buf[m+int(l):]
			if key>>3 == 2 {
				// keep only the first field of the inner message
				ik, a := uvarint(body)
				var inner []byte
				if ik&7 == 0 {
					_, b := uvarint(body[a:])
					inner = body[:a+b]
				}
				out = append(out, start[:n]...)
				out = append(out, byte(len(inner)))
				out = append(out, inner...)
			} else {
				out = append(out, start[:n+m+int(l)]...)
			}
		default:
			panic("dropShareValue: unexpected wire type")
		}
	}
	return out
}

func uvarint(b []byte) (uint64, int) {
	var x uint64
	var s uint
	for i, c := range b {
		if c < 0x80 {
			return x | uint64(c)<<s, i + 1
		}
		x |= uint64(c&0x7f) << s
		s += 7
	}
	panic("bad varint")
}

func gen(tier string, rng *h.Rng, emit func(string)) {
	thorough := tier == "thorough"
	seed := func() uint64 { return rng.U64() >> 1 }
	fields := []string{"dh", "sig", "nonce", "cipher"}
	// 1. every (recipient, opener, believed dealer, believed list) combination, n <= 5
	for n := 2; n <= 5; n++ {
		ts := []int{2}
		if n > 2 {
			ts = append(ts, n/2+1)
		}
		if n > 3 {
			ts = append(ts, n)
		}
		for _, t := range dedupe(ts) {
			for i := 0; i < n; i++ {
				for j := 0; j < n; j++ {
					dls := []string{"same", "other", fmt.Sprintf("mem%d", j), fmt.Sprintf("mem%d", i)}
					lss := []string{"same", fmt.Sprintf("swap:%d:%d", i, (i+1)%n), fmt.Sprintf("swap:%d:%d", (j+1)%n, (j+2)%n),
						fmt.Sprintf("repl:%d", (j+1)%n), "drop", "add",
						// related keys: another member's key negated, the recipient's, the opener's own; one key twice
						fmt.Sprintf("neg:%d", (j+1)%n), fmt.Sprintf("neg:%d", i), fmt.Sprintf("neg:%d", j),
						fmt.Sprintf("dup:%d:%d", (j+1)%n, (j+2)%n), fmt.Sprintf("dup:%d:%d", (j+1)%n, j)}
					for _, dl := range dedupe2(dls) {
						for _, ls := range dedupe2(lss) {
							if !thorough && n >= 4 && rng.Intn(6) != 0 && !(dl == "same" && ls == "same") {
								continue
							}
							emit(fmt.Sprintf("enc %d %d %d %d %d %s %s -", seed(), n, t, i, j, dl, ls))
						}
					}
				}
			}
		}
	}
	// 1b. histories over one member slice edited in place between sessions (state keyed by object identity)
	for _, nt := range [][2]int{{3, 2}, {5, 3}, {4, 4}} {
		n, t := nt[0], nt[1]
		for i := 0; i < n; i++ {
			a, b := (i+1)%n, (i+2)%n
			for _, ls := range []string{fmt.Sprintf("repl:%d", a), fmt.Sprintf("neg:%d", a), fmt.Sprintf("swap:%d:%d", a, b),
				fmt.Sprintf("dup:%d:%d", a, b), fmt.Sprintf("repl:%d", b), "same"} {
				if !thorough && n > 3 && rng.Intn(3) != 0 {
					continue
				}
				emit(fmt.Sprintf("ses %d %d %d %d %s", seed(), n, t, i, ls))
			}
		}
	}
	// 2. byte-level mutations of the deal opened by its addressee
	type cfg struct{ n, t int }
	cfgs := []cfg{{3, 2}}
	if thorough {
		cfgs = append(cfgs, cfg{5, 3})
	}
	for _, c := range cfgs {
		lens := map[string]int{"dh": 129, "sig": 161, "nonce": 12, "cipher": cipherLen(c.t)}
		for _, f := range fields {
			for pos := 0; pos < lens[f]; pos++ {
				for _, mask := range []int{0x01, 0x80, 0xFF} {
					if !thorough && f != "nonce" && rng.Intn(12) != 0 && pos != 0 && pos != lens[f]-1 {
						continue
					}
					i := rng.Intn(c.n)
					emit(fmt.Sprintf("enc %d %d %d %d %d same same xor:%s:%d:%d", seed(), c.n, c.t, i, i, f, pos, mask))
				}
			}
			for _, k := range []int{1, 16} {
				i := rng.Intn(c.n)
				emit(fmt.Sprintf("enc %d %d %d %d %d same same trunc:%s:%d", seed(), c.n, c.t, i, i, f, k))
				emit(fmt.Sprintf("enc %d %d %d %d %d same same ext:%s:%d", seed(), c.n, c.t, i, i, f, k))
			}
			emit(fmt.Sprintf("enc %d %d %d 0 0 same same trunc:%s:%d", seed(), c.n, c.t, f, lens[f]))
		}
		for co := 0; co < 4; co++ { // non-reduced point coordinates (same point, other bytes)
			emit(fmt.Sprintf("enc %d %d %d 1 1 same same addp:sig:%d", seed(), c.n, c.t, co))
			emit(fmt.Sprintf("enc %d %d %d 1 1 same same addp:dh:%d", seed(), c.n, c.t, co))
		}
		// field swaps between two deals (every non-empty subset of fields, three kinds of second deal)
		for mask := 1; mask < 16; mask++ {
			var fs []string
			for b, f := range fields {
				if mask>>uint(b)&1 == 1 {
					fs = append(fs, f)
				}
			}
			for _, src := range []string{"r1", "r2", "d", "c"} {
				i := 0
				emit(fmt.Sprintf("enc %d %d %d %d %d same same swap:%s:%s", seed(), c.n, c.t, i, i, strings.Join(fs, "+"), src))
			}
		}
		// two mutations at once
		nd := 30
		if thorough {
			nd = 400
		}
		for k := 0; k < nd; k++ {
			f1, f2 := fields[rng.Intn(4)], fields[rng.Intn(4)]
			i := rng.Intn(c.n)
			emit(fmt.Sprintf("enc %d %d %d %d %d same same xor:%s:%d:%d;xor:%s:%d:%d", seed(), c.n, c.t, i, i,
				f1, rng.Intn(lens[f1]), 1+rng.Intn(255), f2, rng.Intn(lens[f2]), 1+rng.Intn(255)))
		}
		// a mutation combined with a cross-wired opener
		for k := 0; k < nd/2; k++ {
			f := fields[rng.Intn(4)]
			i, j := rng.Intn(c.n), rng.Intn(c.n)
			dl := []string{"same", "other"}[rng.Intn(2)]
			ls := []string{"same", "drop", "add", "repl:0"}[rng.Intn(4)]
			emit(fmt.Sprintf("enc %d %d %d %d %d %s %s xor:%s:%d:%d", seed(), c.n, c.t, i, j, dl, ls, f, rng.Intn(lens[f]), 1+rng.Intn(255)))
		}
	}
	// 3. plaintext-level deviations through the sealing hook
	for n := 2; n <= 5; n++ {
		for _, t := range dedupe([]int{2, n/2 + 1, n}) {
			if t > n {
				continue
			}
			for i := 0; i < n; i++ {
				if !thorough && n >= 4 && i != 0 && i != n-1 {
					continue
				}
				devs := []string{"none", "badshare", "T:0", "T:1", fmt.Sprintf("T:%d", n+1), "T:4294967295", fmt.Sprintf("T:%d", n),
					"Tx:0", "Tx:1", fmt.Sprintf("Tx:%d", n+1), "Tx:4294967295", "T:2",
					"nilshare", "nilv", "noplain", "twice",
					"clen:0", "clen:1", fmt.Sprintf("clen:%d", t-1), fmt.Sprintf("clen:%d", t+1),
					fmt.Sprintf("clenc:%d", t+1), fmt.Sprintf("clenc:%d", t-1), "clenc:1",
					"sid:raw", "sid:zero", "sid:empty", "sid:othert", "sid:otherc", "sid:otherd"}
				for k := 0; k < n+1; k++ {
					devs = append(devs, fmt.Sprintf("idx:%d", k))
				}
				for v := 0; v <= n+1; v++ { // every threshold, valid or not, each with a deal that fits it exactly
					devs = append(devs, fmt.Sprintf("Tc:%d", v))
				}
				devs = append(devs, fmt.Sprintf("Tc:%d", 2*n))
				devs = append(devs, "idx:-1", "idx:1000000")
				// indices that agree with the recipient's only in their low 32 bits (share = f(I+1) for that I)
				for _, off := range []int64{1 << 32, -(1 << 32), 1 << 33, 3 << 32, (1 << 62), -(1 << 62) + (1 << 32)} {
					devs = append(devs, fmt.Sprintf("idx:%d", int64(i)+off))
				}
				for _, d := range dedupe2(devs) {
					emit(fmt.Sprintf("pl %d %d %d %d %s", seed(), n, t, i, d))
				}
			}
		}
	}
}

func cipherLen(t int) int {
	// measured: protobuf(Deal) = 2+32 (sid) + 2+(2)+(2+32) (share) + 2 (T) + t*(3+129); +16 tag
	return 354 + (t-2)*132
}

func dedupe(v []int) []int {
	seen := map[int]bool{}
	var out []int
	for _, x := range v {
		if !seen[x] {
			seen[x] = true
			out = append(out, x)
		}
	}
	return out
}
func dedupe2(v []string) []string {
	seen := map[string]bool{}
	var out []string
	for _, x := range v {
		if !seen[x] {
			seen[x] = true
			out = append(out, x)
		}
	}
	return out
}

// execSes: state carried across sessions keyed by the IDENTITY of the member slice (round 5, seed C08f-2: the encoding
// of the member list memoised by {&points[0], len}) shows only when one slice object lives through several sessions
// and is edited in place between them.
func execSes(w []string) (res h.Result) {
	seed, n, t, i := uint64(h.BigDec(w[1]).Uint64()), h.Atoi(w[2]), h.Atoi(w[3]), h.Atoi(w[4])
	ls := w[5]
	u := mkUniverse(seed, n, t)
	L := append([]kyber.Point{}, u.pubs...) // THE slice of the whole history
	S := append([]kyber.Scalar{}, u.secs...)
	dpub := dkgnet.Pub(u.dlong)
	dealer, err := vss.NewDealer(suite, u.dlong, dkgnet.Scalar(u.secret), L, t)
	if err != nil {
		res.Impl, res.Class = "err newdealer", "ses-newdealer-err"
		return
	}
	e0, err := dealer.EncryptedDeal(i)
	if err != nil {
		panic(err)
	}
	pd, _ := dealer.PlaintextDeal(i)
	commits := pd.Commitments
	session := func() string {
		v, err := vss.NewVerifier(suite, u.secs[i], dpub, L)
		if err != nil {
			return "err notmember cert=0"
		}
		out, _, cert := process(v, cloneED(e0), S)
		return fmt.Sprintf("%s cert=%d", out, b2i(cert))
	}
	ctx1 := vss.VerifContext(suite, dpub, L)
	sid1, _ := vss.VerifSessionID(suite, dpub, L, commits, t)
	s1 := session()
	origP, origS := append([]kyber.Point{}, L...), append([]kyber.Scalar{}, S...)
	applyListTo(u, ls, L, S) // in place
	changed := !dkgnet.PointsEqual(L, origP)
	ctx2 := vss.VerifContext(suite, dpub, L)
	sid2, _ := vss.VerifSessionID(suite, dpub, L, commits, t)
	fresh := append([]kyber.Point{}, L...)
	ctx2f := vss.VerifContext(suite, dpub, fresh)
	sid2f, _ := vss.VerifSessionID(suite, dpub, fresh, commits, t)
	s2 := session()
	copy(L, origP)
	copy(S, origS)
	s3 := session()
	res.Impl = fmt.Sprintf("s1=[%s] s2=[%s] s3=[%s]", s1, s2, s3)
	res.Nontrivial = changed
	res.Class = "ses-" + strings.Split(ls, ":")[0] + "-" + strings.Fields(s2)[0] + "-" + strings.Fields(s2)[1]
	switch {
	case s1 != "ok approve cert=1" || s3 != "ok approve cert=1":
		res.Oracle = "honest-deal-not-approved: session over the list the deal was made for: " + s1 + " / " + s3
	case changed && strings.HasPrefix(s2, "ok"):
		res.Oracle = "opened-stale-member-list: a deal made for the member list of an earlier session was opened by a verifier built over the UPDATED list (the same slice, edited in place: " + ls + "): " + s2
	case changed && strings.Contains(s2, "cert=1"):
		res.Oracle = "deal-set-after-reject: Verifier.Deal() is set although ProcessEncryptedDeal failed"
	case !bytes.Equal(ctx2, ctx2f) || !bytes.Equal(sid2, sid2f):
		res.Oracle = "context-depends-on-slice-identity: context / session id over the edited slice differ from those over a fresh copy with the same content"
	case changed && (bytes.Equal(ctx1, ctx2) || bytes.Equal(sid1, sid2)):
		res.Oracle = "context-collision: context / session id did not change when the member slice was edited in place (" + ls + ")"
	}
	return
}

/-
C20 (round 4) — specifications of the EXECUTABLE field operations (Model/Ed25519FeOps.lean: the regenerated
translation of fe.go run with Go's wrapping semantics), for ALL inputs within the stated limb bounds:
no overflow, output bounds, value modulo p.  Assembled from the interval analysis (Ed25519FeRanges), the tie
(Ed25519FeTie) and the value congruences (Ed25519FeAlg).
-/
import DosModel.Model.Ed25519FeOps
import DosModel.Proofs.Ed25519FeAlg
import DosModel.Proofs.Ed25519FeRanges

set_option exponentiation.threshold 600

namespace Dos.FeProg
open Dos Dos.Ed25519 Dos.IntervalProg Dos.Gen.Ed25519Fe Dos.FeOps List

theorem toL10_toList (s : L10) : toL10 s.toList = s := rfl

theorem toList_toL10 (l : List Int) (h : l.length = 10) : (toL10 l).toList = l := by
  rcases l with _ | ⟨a0, _ | ⟨a1, _ | ⟨a2, _ | ⟨a3, _ | ⟨a4, _ | ⟨a5, _ | ⟨a6, _ | ⟨a7, _ | ⟨a8, _ | ⟨a9, _ | ⟨_, _⟩⟩⟩⟩⟩⟩⟩⟩⟩⟩⟩ <;>
    simp at h
  rfl

/-- the generic assembly: analysis + tie for a routine whose stores are `h[i] = int32(h_i)` -/
theorem prog_spec {p : FeProg} {finit : List Int → L10} {fblocks : List (L10 → L10)} {fout : L10 → List Int}
    (tie : ∀ x, toL10 (p.limbsW id x) = runBlocks fblocks (finit x) ∧ p.runW id x = fout (runBlocks fblocks (finit x)))
    (hout : ∀ s, fout s = s.toList) {I : List Itv} (hc : p.check I (boundItv 1) (boundItv 1) = true)
    (x : List Int) (hin : In x I) :
    p.SafeFrom x ∧ toL10 (p.runW wrap x) = runBlocks fblocks (finit x) ∧ Bounded 1 (runBlocks fblocks (finit x)) := by
  obtain ⟨hs, _, i2⟩ := FeProg.check_sound hc hin
  obtain ⟨_, e2⟩ := FeProg.runW_wrap_eq hs
  have t2 := (tie x).2
  rw [hout] at t2
  refine ⟨hs, ?_, ?_⟩
  · rw [e2, t2, toL10_toList]
  · rw [t2] at i2
    exact (bounded_iff 1 _).2 i2

theorem feMul_out_eq (s : L10) : feMul_out s = s.toList := by
  unfold feMul_out; simp only [n32v_eq, L10.toList]
theorem feSquare_out_eq (s : L10) : feSquare_out s = s.toList := by
  unfold feSquare_out; simp only [n32v_eq, L10.toList]
theorem feSquare2_out_eq (s : L10) : feSquare2_out s = s.toList := by
  unfold feSquare2_out; simp only [n32v_eq, L10.toList]
theorem feFromBytes_out_eq (s : L10) : feFromBytes_out s = s.toList := by
  unfold feFromBytes_out; simp only [n32v_eq, L10.toList]

/-- **feMul**: inputs within 3 × the ref10 bound ⇒ no int32/int64 overflow anywhere, output within 1 ×, value f·g mod p -/
theorem feMul_spec (f g : L10) (hf : Bounded 3 f) (hg : Bounded 3 g) :
    feMul_prog.SafeFrom (f.toList ++ g.toList) ∧ Bounded 1 (feMul f g) ∧ ModP (feVal (feMul f g)) (feVal f * feVal g) := by
  obtain ⟨h1, h2, h3⟩ := prog_spec feMul_tie feMul_out_eq feMul_check (f.toList ++ g.toList)
    (In.append ((bounded_iff 3 f).1 hf) ((bounded_iff 3 g).1 hg))
  unfold feMul
  rw [h2]
  exact ⟨h1, h3, feMul_limbs_value f g⟩

theorem feSquare_spec (f : L10) (hf : Bounded 3 f) :
    feSquare_prog.SafeFrom f.toList ∧ Bounded 1 (feSquare f) ∧ ModP (feVal (feSquare f)) (feVal f * feVal f) := by
  obtain ⟨h1, h2, h3⟩ := prog_spec feSquare_tie feSquare_out_eq feSquare_check f.toList ((bounded_iff 3 f).1 hf)
  unfold feSquare
  rw [h2]
  exact ⟨h1, h3, feSquare_limbs_value f⟩

theorem feSquare2_spec (f : L10) (hf : Bounded 3 f) :
    feSquare2_prog.SafeFrom f.toList ∧ Bounded 1 (feSquare2 f) ∧ ModP (feVal (feSquare2 f)) (2 * (feVal f * feVal f)) := by
  obtain ⟨h1, h2, h3⟩ := prog_spec feSquare2_tie feSquare2_out_eq feSquare2_check f.toList ((bounded_iff 3 f).1 hf)
  unfold feSquare2
  rw [h2]
  exact ⟨h1, h3, feSquare2_limbs_value f⟩

/-! ### element-wise loops -/

theorem I64_of_I32 {x : Int} (h : I32 x) : I64 x := by
  unfold I32 at h; unfold I64 minI64 maxI64; omega

theorem mapW_eq (m : FeMap) (a b : L10) : mapW m a b =
    ⟨m.body.evalW wrap [a.h0, b.h0], m.body.evalW wrap [a.h1, b.h1], m.body.evalW wrap [a.h2, b.h2],
     m.body.evalW wrap [a.h3, b.h3], m.body.evalW wrap [a.h4, b.h4], m.body.evalW wrap [a.h5, b.h5],
     m.body.evalW wrap [a.h6, b.h6], m.body.evalW wrap [a.h7, b.h7], m.body.evalW wrap [a.h8, b.h8],
     m.body.evalW wrap [a.h9, b.h9]⟩ := rfl

/-- value of a safe element expression under Go's semantics -/
theorem elem_eval (e : Expr) (x y : Int) (h : e.Safe [x, y]) : e.evalW wrap [x, y] = e.eval [x, y] :=
  Expr.eval64_eq _ e h

theorem feAdd_elem_eq (x y : Int) (hx : I32 x) (hy : I32 y) (hs : I32 (x + y)) :
    feAdd_map.body.evalW wrap [x, y] = x + y := by
  have hsafe : feAdd_map.body.Safe [x, y] := by
    unfold feAdd_map
    exact (n32_safe _ _).2 ⟨⟨I64_of_I32 hx, I64_of_I32 hy, I64_of_I32 hs⟩, hs⟩
  rw [elem_eval _ _ _ hsafe]
  unfold feAdd_map
  exact n32v_eq _

theorem feSub_elem_eq (x y : Int) (hx : I32 x) (hy : I32 y) (hs : I32 (x - y)) :
    feSub_map.body.evalW wrap [x, y] = x - y := by
  have hsafe : feSub_map.body.Safe [x, y] := by
    unfold feSub_map
    exact (n32_safe _ _).2 ⟨⟨I64_of_I32 hx, I64_of_I32 hy, I64_of_I32 hs⟩, hs⟩
  rw [elem_eval _ _ _ hsafe]
  unfold feSub_map
  exact n32v_eq _

theorem feNeg_elem_eq (x y : Int) (hx : I32 x) (hs : I32 (-x)) :
    feNeg_map.body.evalW wrap [x, y] = -x := by
  have hsafe : feNeg_map.body.Safe [x, y] := by
    unfold feNeg_map
    refine (n32_safe _ _).2 ⟨⟨(by show I64 0; unfold I64 minI64 maxI64; omega), I64_of_I32 hx, ?_⟩, ?_⟩
    · show I64 (0 - x); rw [Int.zero_sub]; exact I64_of_I32 hs
    · show I32 (id (0 - x)); rw [id, Int.zero_sub]; exact hs
  rw [elem_eval _ _ _ hsafe]
  unfold feNeg_map
  show n32v (id (0 - x)) = -x
  rw [n32v_eq, id, Int.zero_sub]

theorem feCopy_elem_eq (x y : Int) : feCopy_map.body.evalW wrap [x, y] = x := by
  unfold feCopy_map; rfl

theorem feZero_elem_eq (x y : Int) : feZero_map.body.evalW wrap [x, y] = 0 := by
  unfold feZero_map; rfl

/-- |limb| ≤ k · bound with 0 ≤ k ≤ 58 is an int32 -/
theorem Bounded.i32 {k : Int} {s : L10} (h : Bounded k s) (hk : k ≤ 58) :
    I32 s.h0 ∧ I32 s.h1 ∧ I32 s.h2 ∧ I32 s.h3 ∧ I32 s.h4 ∧ I32 s.h5 ∧ I32 s.h6 ∧ I32 s.h7 ∧ I32 s.h8 ∧ I32 s.h9 := by
  unfold Bounded evenB oddB at h
  unfold I32
  omega

/-- **feAdd**: exact sum limb by limb, no int32 overflow, bounds add -/
theorem feAdd_spec (a b : Int) (f g : L10) (hf : Bounded a f) (hg : Bounded b g) (hab : a + b ≤ 58)
    (ha : 0 ≤ a) (hb : 0 ≤ b) :
    feAdd f g = ⟨f.h0 + g.h0, f.h1 + g.h1, f.h2 + g.h2, f.h3 + g.h3, f.h4 + g.h4, f.h5 + g.h5, f.h6 + g.h6,
      f.h7 + g.h7, f.h8 + g.h8, f.h9 + g.h9⟩
    ∧ Bounded (a + b) (feAdd f g) ∧ feVal (feAdd f g) = feVal f + feVal g := by
  have hs : Bounded (a + b) ⟨f.h0 + g.h0, f.h1 + g.h1, f.h2 + g.h2, f.h3 + g.h3, f.h4 + g.h4, f.h5 + g.h5,
      f.h6 + g.h6, f.h7 + g.h7, f.h8 + g.h8, f.h9 + g.h9⟩ := by
    unfold Bounded evenB oddB at *
    simp only
    omega
  obtain ⟨f0, f1, f2, f3, f4, f5, f6, f7, f8, f9⟩ := hf.i32 (by omega)
  obtain ⟨g0, g1, g2, g3, g4, g5, g6, g7, g8, g9⟩ := hg.i32 (by omega)
  obtain ⟨s0, s1, s2, s3, s4, s5, s6, s7, s8, s9⟩ := hs.i32 hab
  have e : feAdd f g = ⟨f.h0 + g.h0, f.h1 + g.h1, f.h2 + g.h2, f.h3 + g.h3, f.h4 + g.h4, f.h5 + g.h5,
      f.h6 + g.h6, f.h7 + g.h7, f.h8 + g.h8, f.h9 + g.h9⟩ := by
    unfold feAdd
    rw [mapW_eq, feAdd_elem_eq _ _ f0 g0 s0, feAdd_elem_eq _ _ f1 g1 s1, feAdd_elem_eq _ _ f2 g2 s2,
      feAdd_elem_eq _ _ f3 g3 s3, feAdd_elem_eq _ _ f4 g4 s4, feAdd_elem_eq _ _ f5 g5 s5,
      feAdd_elem_eq _ _ f6 g6 s6, feAdd_elem_eq _ _ f7 g7 s7, feAdd_elem_eq _ _ f8 g8 s8,
      feAdd_elem_eq _ _ f9 g9 s9]
  refine ⟨e, by rw [e]; exact hs, ?_⟩
  rw [e]
  unfold feVal
  simp only
  omega

theorem feSub_spec (a b : Int) (f g : L10) (hf : Bounded a f) (hg : Bounded b g) (hab : a + b ≤ 58)
    (ha : 0 ≤ a) (hb : 0 ≤ b) :
    feSub f g = ⟨f.h0 - g.h0, f.h1 - g.h1, f.h2 - g.h2, f.h3 - g.h3, f.h4 - g.h4, f.h5 - g.h5, f.h6 - g.h6,
      f.h7 - g.h7, f.h8 - g.h8, f.h9 - g.h9⟩
    ∧ Bounded (a + b) (feSub f g) ∧ feVal (feSub f g) = feVal f - feVal g := by
  have hs : Bounded (a + b) ⟨f.h0 - g.h0, f.h1 - g.h1, f.h2 - g.h2, f.h3 - g.h3, f.h4 - g.h4, f.h5 - g.h5,
      f.h6 - g.h6, f.h7 - g.h7, f.h8 - g.h8, f.h9 - g.h9⟩ := by
    unfold Bounded evenB oddB at *
    simp only
    omega
  obtain ⟨f0, f1, f2, f3, f4, f5, f6, f7, f8, f9⟩ := hf.i32 (by omega)
  obtain ⟨g0, g1, g2, g3, g4, g5, g6, g7, g8, g9⟩ := hg.i32 (by omega)
  obtain ⟨s0, s1, s2, s3, s4, s5, s6, s7, s8, s9⟩ := hs.i32 hab
  have e : feSub f g = ⟨f.h0 - g.h0, f.h1 - g.h1, f.h2 - g.h2, f.h3 - g.h3, f.h4 - g.h4, f.h5 - g.h5,
      f.h6 - g.h6, f.h7 - g.h7, f.h8 - g.h8, f.h9 - g.h9⟩ := by
    unfold feSub
    rw [mapW_eq, feSub_elem_eq _ _ f0 g0 s0, feSub_elem_eq _ _ f1 g1 s1, feSub_elem_eq _ _ f2 g2 s2,
      feSub_elem_eq _ _ f3 g3 s3, feSub_elem_eq _ _ f4 g4 s4, feSub_elem_eq _ _ f5 g5 s5,
      feSub_elem_eq _ _ f6 g6 s6, feSub_elem_eq _ _ f7 g7 s7, feSub_elem_eq _ _ f8 g8 s8,
      feSub_elem_eq _ _ f9 g9 s9]
  refine ⟨e, by rw [e]; exact hs, ?_⟩
  rw [e]
  unfold feVal
  simp only
  omega

theorem feNeg_spec (a : Int) (f : L10) (hf : Bounded a f) (ha : a ≤ 58) :
    feNeg f = ⟨-f.h0, -f.h1, -f.h2, -f.h3, -f.h4, -f.h5, -f.h6, -f.h7, -f.h8, -f.h9⟩
    ∧ Bounded a (feNeg f) ∧ feVal (feNeg f) = -feVal f := by
  have hs : Bounded a ⟨-f.h0, -f.h1, -f.h2, -f.h3, -f.h4, -f.h5, -f.h6, -f.h7, -f.h8, -f.h9⟩ := by
    unfold Bounded evenB oddB at *
    simp only
    omega
  obtain ⟨f0, f1, f2, f3, f4, f5, f6, f7, f8, f9⟩ := hf.i32 ha
  obtain ⟨s0, s1, s2, s3, s4, s5, s6, s7, s8, s9⟩ := hs.i32 ha
  have e : feNeg f = ⟨-f.h0, -f.h1, -f.h2, -f.h3, -f.h4, -f.h5, -f.h6, -f.h7, -f.h8, -f.h9⟩ := by
    unfold feNeg
    rw [mapW_eq, feNeg_elem_eq _ _ f0 s0, feNeg_elem_eq _ _ f1 s1, feNeg_elem_eq _ _ f2 s2,
      feNeg_elem_eq _ _ f3 s3, feNeg_elem_eq _ _ f4 s4, feNeg_elem_eq _ _ f5 s5,
      feNeg_elem_eq _ _ f6 s6, feNeg_elem_eq _ _ f7 s7, feNeg_elem_eq _ _ f8 s8, feNeg_elem_eq _ _ f9 s9]
  refine ⟨e, by rw [e]; exact hs, ?_⟩
  rw [e]
  unfold feVal
  simp only
  omega

theorem feCopy_spec (f : L10) : feCopy f = f := by
  unfold feCopy
  rw [mapW_eq]
  simp only [feCopy_elem_eq]

theorem feZero_spec : feZero = zero10 := by
  unfold feZero
  rw [mapW_eq]
  simp only [feZero_elem_eq]
  rfl

theorem feOne_spec : feOne = ⟨1, 0, 0, 0, 0, 0, 0, 0, 0, 0⟩ := by
  unfold feOne
  rw [feZero_spec]
  unfold_fe
  rfl

theorem feVal_zero : feVal zero10 = 0 := by decide
theorem feVal_one : feVal ⟨1, 0, 0, 0, 0, 0, 0, 0, 0, 0⟩ = 1 := by decide

end Dos.FeProg

/-
C20 — Schnorr/EdDSA algebra over ANY commutative group written additively, and the bridge from
the executable group record `Schnorr.Grp` to such a group (`Lawful`).
-/
import Mathlib.Algebra.Group.Basic
import DosModel.Model.Schnorr
import DosModel.Proofs.Ed25519Enc

namespace Dos.Schnorr
open Dos Dos.Ed25519

section algebra
variable {G : Type} [AddCommGroup G]

/-- if ℓ•B = 0 a multiple of B depends on the scalar modulo ℓ only -/
theorem mod_nsmul (B : G) (hB : ell • B = 0) (n : ℕ) : (n % ell) • B = n • B := by
  conv => rhs; rw [← Nat.mod_add_div n ell]
  rw [add_nsmul, mul_nsmul, hB, nsmul_zero, add_zero]

theorem nsmul_congr_mod (B : G) (hB : ell • B = 0) (m n : ℕ) (h : m % ell = n % ell) : m • B = n • B := by
  rw [← mod_nsmul B hB m, ← mod_nsmul B hB n, h]

/-- the response s = k + x·h (reduced as `scMul`, `scAdd`, `MarshalBinary` do) satisfies s•B = R + h•A -/
theorem response_eq (B : G) (hB : ell • B = 0) (k x h : ℕ) :
    ((k + x * h % ell) % ell) • B = k • B + h • (x • B) := by
  rw [mod_nsmul B hB, add_nsmul, mod_nsmul B hB, mul_nsmul]

/-- if B has order exactly ℓ, two scalars below ℓ with the same multiple of B are equal -/
theorem scalar_unique (B : G) (hord : ∀ n : ℕ, n • B = 0 → ell ∣ n) (s t : ℕ) (hs : s < ell) (ht : t < ell)
    (h : s • B = t • B) : s = t := by
  rcases Nat.le_total s t with hle | hle
  · have : (t - s) • B = 0 := by
      have e : t • B = (t - s) • B + s • B := by rw [← add_nsmul, Nat.sub_add_cancel hle]
      rw [e] at h
      have := congrArg (fun z => z - s • B) h
      simpa using this.symm
    have hd := hord _ this
    have : t - s < ell := by omega
    have : t - s = 0 := Nat.eq_zero_of_dvd_of_lt hd this
    omega
  · have : (s - t) • B = 0 := by
      have e : s • B = (s - t) • B + t • B := by rw [← add_nsmul, Nat.sub_add_cancel hle]
      rw [e] at h
      have := congrArg (fun z => z - t • B) h
      simpa using this
    have hd := hord _ this
    have : s - t < ell := by omega
    have : s - t = 0 := Nat.eq_zero_of_dvd_of_lt hd this
    omega

/-- if B has order exactly ℓ, equal multiples of B have congruent scalars -/
theorem nsmul_eq_imp_mod_eq (B : G) (hB : ell • B = 0) (hord : ∀ n : ℕ, n • B = 0 → ell ∣ n) (m n : ℕ)
    (h : m • B = n • B) : m % ell = n % ell :=
  scalar_unique B hord _ _ (Nat.mod_lt _ (by decide)) (Nat.mod_lt _ (by decide))
    (by rw [mod_nsmul B hB, mod_nsmul B hB, h])

end algebra

/-- the executable record `g` computes in the commutative group structure on `G`:
`add`/`smul` are the group operations, the base point is killed by ℓ, encodings are 32 bytes
and decode back (so `enc` is injective and `Point.Equal` — comparison of encodings — is equality). -/
structure Lawful {G : Type} [AddCommGroup G] (g : Grp G) : Prop where
  add_eq : ∀ P Q, g.add P Q = P + Q
  smul_eq : ∀ (n : ℕ) P, g.smul n P = n • P
  order : ell • g.base = 0
  enc_len : ∀ P, (g.enc P).length = 32
  dec_enc : ∀ P, g.dec (g.enc P) = some P

section lawful
variable {G : Type} [AddCommGroup G] {g : Grp G}

theorem Lawful.enc_inj (L : Lawful g) {P Q : G} (h : g.enc P = g.enc Q) : P = Q := by
  have := L.dec_enc P
  rw [h, L.dec_enc Q] at this
  exact (Option.some.inj this).symm

theorem Lawful.eq_iff (L : Lawful g) (P Q : G) : g.eq P Q = true ↔ P = Q := by
  unfold Grp.eq
  rw [beq_iff_eq]
  exact ⟨L.enc_inj, fun h => by rw [h]⟩

theorem take_enc_append (L : Lawful g) (P : G) (t : Bytes) : (g.enc P ++ t).take 32 = g.enc P := by
  rw [List.take_append_of_le_length (by rw [L.enc_len]; exact Nat.le_refl 32)]
  exact List.take_of_length_le (by rw [L.enc_len]; exact Nat.le_refl 32)

theorem drop_enc_append (L : Lawful g) (P : G) (t : Bytes) : (g.enc P ++ t).drop 32 = t := by
  rw [List.drop_append_of_le_length (by rw [L.enc_len]; exact Nat.le_refl 32)]
  rw [List.drop_of_length_le (by rw [L.enc_len]; exact Nat.le_refl 32)]
  rfl

end lawful

end Dos.Schnorr

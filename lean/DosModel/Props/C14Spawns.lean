/-
C14, round 5 — THE GOROUTINE INVENTORY IS COMPLETE.

The pipeline theorems (`Props/C14*.lean`) talk about the goroutines the translator found by
interpreting the constructors (`handleQuery`, `handleGrouping` → `pdkg.Grouping`, `client.run`, the
fan-in helpers).  A goroutine started somewhere the translator does not look would be outside every
theorem without anybody noticing.  `Gen/PipeSpawns.lean` (regenerated on every run by
go/extract/pipeir/spawns.go) lists every `go` statement of the product code of the WHOLE repository
(all packages; test files and the hook files behind a build constraint excluded) and marks the ones
that became goroutines of an emitted pipeline; `Model/PipeSpawnKnown.lean` is the hand-maintained list
of the statements that are deliberately not part of a pipeline IR, grouped by reason.
-/
import DosModel.Model.PipeSpawnKnown
import DosModel.Model.PipeWf
import DosModel.Gen.PipeSpawns
import DosModel.Gen.PipeIR

namespace Dos.Props.C14
open Dos Dos.Pipe Dos.Gen.Pipes

/-- **spawn_inventory_complete.**  Every `go` statement of the repository is translated into a
goroutine of an emitted pipeline IR, or is one of the classified statements of
`Model/PipeSpawnKnown.lean`.  A new `go` statement (anywhere: a new stage, a helper goroutine inside a
stage, a new background loop), or a statement the translator no longer reaches, is in neither list and
breaks this theorem. -/
theorem spawn_inventory_complete :
    Gen.PipeSpawns.all.all (fun k => Gen.PipeSpawns.translated.contains k || unmodelledSpawns.contains k) = true := by
  decide +kernel

/-- non-vacuity: more than a hundred statements, more than forty of them translated; `recoverSign`'s
goroutine is a translated one; a made-up statement is covered by neither list -/
example : 100 ≤ Gen.PipeSpawns.all.length ∧ 40 ≤ Gen.PipeSpawns.translated.length ∧
    Gen.PipeSpawns.translated.contains ("dosnode", "recoverSign", 0, "func") = true ∧
    (Gen.PipeSpawns.translated.contains ("dosnode", "recoverSign", 1, "func") ||
      unmodelledSpawns.contains ("dosnode", "recoverSign", 1, "func")) = false := by decide +kernel

/-- **anchored_packages_are_fully_translated.**  In the packages the property is anchored in, nothing is
classified away: every `go` statement of `share/dkg/pedersen` and `utils`, and every one of `dosnode`
outside the node's start-up / event loop (`Start`, `startRESTServer`, `onchainLoop`), is a goroutine of
an emitted pipeline IR. -/
theorem anchored_packages_are_fully_translated :
    Gen.PipeSpawns.all.all (fun k =>
      !(k.1 == "share/dkg/pedersen" || k.1 == "utils" ||
        (k.1 == "dosnode" && !["DosNode.Start", "DosNode.startRESTServer", "DosNode.onchainLoop"].contains k.2.1)) ||
      Gen.PipeSpawns.translated.contains k) = true := by
  decide +kernel

example : 10 ≤ (Gen.PipeSpawns.all.filter (fun k => k.1 == "share/dkg/pedersen")).length ∧
    10 ≤ (Gen.PipeSpawns.all.filter (fun k => k.1 == "dosnode" && k.2.1 != "DosNode.Start")).length := by
  decide +kernel

/-! ## loops without channel operations

The translator emits nothing for a loop whose body has no channel operation (an internal choice followed
by internal choices is one internal choice): a retry loop `for { if err := p.Request(ctx, …); err != nil
{ sleep; continue }; break }` added to a stage leaves the IR unchanged while the goroutine may never
return once the context is done (review G, finding 2).  That such loops end is the `data` clause of
`Fair` — an assumption about the code, pinned here loop by loop. -/

/-- **opaque_loops_are_pinned.**  Every `for` statement of the packages the pipelines live in (dosnode,
share/dkg/pedersen, utils, p2p, onchain) that is not a `range` and whose body contains no channel
operation (no `select`, send or receive: class `opaque`) is one of the loops of
`Model/PipeSpawnKnown.lean: opaqueLoops`, each listed with the reason it ends; and NONE of them is in a
pipeline stage except the counting loop of `choseSubmitter`.  A new retry / polling loop, or a loop whose
`select` on the context is removed (its class changes from `ctx-select` to `opaque`), breaks this theorem. -/
theorem opaque_loops_are_pinned :
    Gen.PipeSpawns.loops.all (fun l =>
      l.2.2.2.1 == "range" || l.2.2.2.2.2 != "opaque" || opaqueLoops.contains l) = true := by
  decide +kernel

/-- non-vacuity: the inventory sees the loops of the stages (the retry loops of `sendToMembers` and
`genDealsAndSend` are `forever` loops with a `select` on the session context), more than a hundred loops in
all; a retry loop without a select in `dispatchSign` would not be covered -/
example : 100 ≤ Gen.PipeSpawns.loops.length ∧
    (Gen.PipeSpawns.loops.filter (fun l => l.2.1 == "sendToMembers" && l.2.2.2.1 == "forever" &&
      l.2.2.2.2.2 == "ctx-select")).length = 1 ∧
    (Gen.PipeSpawns.loops.filter (fun l => l.2.1 == "genDealsAndSend" && l.2.2.2.1 == "forever" &&
      l.2.2.2.2.2 == "ctx-select")).length = 1 ∧
    opaqueLoops.contains ("dosnode", "dispatchSign", 1, "forever", "for", "opaque") = false := by decide +kernel

/-- **forever_loops_can_leave_on_a_context.**  Every `for {` loop of a function of dos_stages /
dos_query_handler / pdkg / pdkg_pipes / utils — i.e. of the packages dosnode, share/dkg/pedersen, utils
outside the three pinned node-level loops and the daemon `pdkg.Loop` — contains a `select` with a `<-ctx.Done()` case: W4 as DESIGN §6
words it ("every loop contains a guarded operation whose context alternative leaves the loop"), checked
on the source syntax; the IR-level W4 (`LiveOk`) then certifies that the alternative does lead to the exit. -/
theorem forever_loops_can_leave_on_a_context :
    Gen.PipeSpawns.loops.all (fun l =>
      !(l.1 == "dosnode" || l.1 == "share/dkg/pedersen" || l.1 == "utils") || l.2.2.2.1 != "forever" ||
      l.2.2.2.2.2 == "ctx-select" || opaqueLoops.contains l ||
      -- the collector loop of the key-generation package is a daemon without a context of its own
      (l.2.1 == "pdkg.Loop" && l.2.2.2.2.2 == "chan-op")) = true := by
  decide +kernel

example : 8 ≤ (Gen.PipeSpawns.loops.filter (fun l => (l.1 == "dosnode" || l.1 == "share/dkg/pedersen") &&
    l.2.2.2.1 == "forever" && l.2.2.2.2.2 == "ctx-select")).length := by decide +kernel

/-! ## external calls

The translator treats `p.Request` / `p.Reply`, the chain calls of the stages and the HTTP fetch as opaque
calls that return (`Fair.data`).  What makes them return is in the callee; the extractor reads it. -/

/-- **external_calls_are_bounded.**  Each external call of the stages has, in its callee, the mechanism that
bounds it: `dataFetch` builds its `http.Client` with a `Timeout`; `p2p` `Request` / `Reply` derive a
context with a timeout from the caller's; the chain calls `DataReturn`, `UpdateRandomness`,
`RegisterGroupPubKey` run under `context.WithTimeout(e.ctx, e.setTimeout)`.  Removing one of them (review
G, finding 3: `&http.Client{}`) makes the fact `none` and breaks this theorem.  The durations are not
compared with anything: a bounded call returns, which is all the `data` clause assumes. -/
theorem external_calls_are_bounded :
    Gen.PipeSpawns.externalCalls.length = 6 ∧
    Gen.PipeSpawns.externalCalls.all (fun e => e.2.2 != "none" && e.2.2 != "function not found") = true ∧
    Gen.PipeSpawns.externalCalls.any (fun e => e.2.1 == "dosnode.dataFetch" && e.2.2.startsWith "http.Client{Timeout: ") = true ∧
    (Gen.PipeSpawns.externalCalls.filter (fun e => e.2.2.startsWith "context.WithTimeout(")).length = 5 := by
  decide +kernel

example : Gen.PipeSpawns.externalCalls.any (fun e => e.2.1 == "p2p.Request") = true := by decide +kernel

/-! ## timers

`Fair.timer` (Model/PipeRun.lean) — "a timer alternative of a `select` that is executed infinitely often
is eventually taken" — is justified for a ticker and for a timer armed once before the loop, NOT for a
`time.After(d)` re-armed by every iteration (or a timer that is `Reset`) while a competing alternative is
ready faster than `d`.  The extractor records, for every timer alternative of the IR, the goroutine and
how its timer channel came about: constructor (`After`, `Tick`, `NewTicker`, `NewTimer`, `NewTimer+Reset`)
`@` position (`outside-loop` / `inside-loop` of the creating function), or `foreign-context` (the Done
channel of a context of another layer). -/

/-- **pipeline_goroutines_wait_on_no_timer.**  In the query and key-generation pipelines no pipeline
(non-daemon) goroutine has a timer alternative at all: their termination (`*_every_fair_run_terminates`)
does not use the `timer` clause of the fairness hypothesis.  The only timer alternatives are those of
the collector loops `queryLoop` / `pdkg.Loop` (used by `*_collector_closes_*`), and each of those comes
from a `time.NewTicker` created once, outside any loop — the case in which the clause is justified. -/
theorem pipeline_goroutines_wait_on_no_timer :
    [query_sys, query_user, query_url, grouping].all (fun p => p.gs.all fun gr =>
      gr.daemon || gr.nodes.all fun nd => match nd with
        | .sel alts => !alts.any Alt.isTick
        | _ => true) = true ∧
    [query_sys_timers, query_user_timers, query_url_timers, grouping_timers].all (fun l =>
      !l.isEmpty && l.all fun x => x.2 == "NewTicker@outside-loop" &&
        (x.1 == "dosnode.queryLoop" || x.1 == "dkg.Loop")) = true := by
  decide +kernel

/-- non-vacuity: the collector loops do have timer alternatives (the watchdog arms), and the facts tell a
ticker from a re-armed timer: the p2p client's idle timer is a `NewTimer` that is `Reset` -/
example : query_sys.gs.any (fun gr => gr.daemon && gr.nodes.any fun nd => match nd with
      | .sel alts => alts.any Alt.isTick
      | _ => false) = true ∧
    p2p_client_timers.any (fun x => x.2 == "NewTimer+Reset@outside-loop") = true := by decide +kernel

end Dos.Props.C14

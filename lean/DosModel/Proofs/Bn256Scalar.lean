/-
C10 — the left-to-right binary method used by gfP12.Exp (square, multiply) and by
curvePoint.Mul / twistPoint.Mul (double, add): folding over the bit positions n−1 … 0
computes acc^(2^n) · a^(k mod 2^n) in any commutative monoid (additively:
2^n • acc + (k mod 2^n) • a), for every k and every n — in particular for n = BitLen(k)
(Exp) and for n = BitLen(k) + 1 (the point multiplications start one position above the
top bit), where k mod 2^n = k.
-/
import Mathlib.Algebra.Group.Basic
import Mathlib.Algebra.Group.Defs
import Mathlib.Tactic.Ring
import DosModel.Model.Bn256Tower

namespace Dos.Bn256.Scalar

theorem lt_two_pow_bitLen (k : Nat) : k < 2 ^ Fp12.bitLen k := by
  unfold Fp12.bitLen
  split
  · subst_vars; decide
  · exact Nat.lt_log2_self

theorem lt_two_pow_bitLen_succ (k : Nat) : k < 2 ^ (Fp12.bitLen k + 1) :=
  Nat.lt_trans (lt_two_pow_bitLen k) (Nat.pow_lt_pow_right (by decide) (Nat.lt_succ_self _))

@[to_additive dblAdd_fold]
theorem sqmul_fold {M : Type} [CommMonoid M] (a : M) (k n : Nat) (acc : M) :
    (List.range n).reverse.foldl (fun acc i => if k.testBit i then acc * acc * a else acc * acc) acc
      = acc ^ (2 ^ n) * a ^ (k % 2 ^ n) := by
  induction n generalizing acc with
  | zero => simp [Nat.mod_one]
  | succ n ih =>
    rw [List.range_succ, List.reverse_append, List.reverse_singleton, List.singleton_append,
      List.foldl_cons, ih, Nat.mod_pow_succ, ← Nat.toNat_testBit]
    have e2 : ∀ x : M, (x * x) ^ (2 ^ n) = x ^ (2 ^ (n + 1)) := by
      intro x; rw [← pow_two, ← pow_mul, pow_succ']
    by_cases hb : k.testBit n
    · simp only [hb, if_true, Bool.toNat_true, Nat.mul_one]
      rw [mul_pow, e2, mul_assoc, ← pow_add, Nat.add_comm (2 ^ n)]
    · simp only [hb, Bool.false_eq_true, if_false, Bool.toNat_false, Nat.mul_zero, Nat.add_zero]
      rw [e2]

end Dos.Bn256.Scalar

/-
C06 — BLS verification equals the predicate the EVM bn256 precompiles compute.

Property theorems only (helpers: `Proofs/Bls.lean`, `Proofs/Bn256ConcMont.lean`, `Proofs/CodecChar.lean`).

What is proved here, for EVERY instance of the operations that is a bilinear map on valid
representations (abstract `IsPairing`: representation types with validity predicates and denotations
in any groups, any target group; `miller` only constrained off the identity) — and the instance the
correspondence driver evaluates is PROVED to be one (`evalOps_isPairing`, `evalOps_verify_iff`):
  * `verify` accepts ⇔ the signature parses to S and e(−S, g₂)·e(h•g₁, X) = 1   (`verify_is_equation`)
  * `PairingCheck` = "product of pairings is one", its identity-skipping is sound (`pairingCheck_skip_identity`)
  * with non-degeneracy: accept ⇔ S = x•(h•g₁) for X = x•g₂                    (`verify_accepts_iff_valid`)
  * the library's own signatures verify                                          (`sign_verifies`)
and, over the concrete byte-level model: every coordinate `MarshalBinary` emits is a 32-byte
big-endian number below p (for ALL limb values), G2 writes the imaginary part first, and
`decodePubKey` / `Signature.ToBigInt` invert the encodings (errors, never panics, on short input) (`emitted_coordinates_canonical`, …);
the constants the predicate is built from are the EVM's (`gen_evm_constants`, by `decide` over
facts regenerated from the source at every run).

NOT a theorem (differential only, see meta "partial"): that `miller` + `finalExponentiation` of
optate.go/gfp12.go compute a bilinear non-degenerate map (the optimal ate pairing) — the
correspondence run compares `bls.Verify` with the EVM precompiles 0x07/0x08 and with bn256/google on
every generated case instead; Keccak-256 is not specified in Lean beyond the executable
`Model/Keccak.lean`, which the run compares with the library's hash on every message.
-/
import DosModel.Proofs.Bls
import DosModel.Proofs.BlsEval
import DosModel.Proofs.Bn256ConcMont
import DosModel.Proofs.Bn256ConcRedc
import DosModel.Proofs.Bn256ConcCurve
import DosModel.Proofs.CodecChar
import DosModel.Gen.BlsFacts
import DosModel.Gen.CodecFacts

namespace Dos.Props.C06
open Dos Dos.Bn256 Dos.Codec Dos.CodecBytes Dos.Bls

variable {P1 P2 PT A1 A2 T : Type} [AddCommGroup A1] [AddCommGroup A2] [CommGroup T]

/-! ## 1. `PairingCheck` -/

/-- **`PairingCheck(a, b)` returns true iff ∏ e(aᵢ, bᵢ) = 1**, for any number of pairs of valid
points; skipping the pairs that contain an identity does not change the product.  It panics (index
out of range) iff `b` is shorter than `a`. -/
theorem pairingCheck_skip_identity (o : PairingOps P1 P2 PT) (V1 : P1 → Prop) (V2 : P2 → Prop)
    (VT : PT → Prop) (ι1 : P1 → A1) (ι2 : P2 → A2) (e : A1 → A2 → T) (fe : PT → T)
    (h : IsPairing o V1 V2 VT ι1 ι2 e fe) (as : List P1) (bs : List P2) :
    (as.length ≤ bs.length → (∀ a ∈ as, V1 a) → (∀ b ∈ bs, V2 b) →
      ∃ b, pairingCheck o as bs = .ok b ∧ (b = true ↔ pairProd e ι1 ι2 as bs = 1)) ∧
    (bs.length < as.length → pairingCheck o as bs = .panic "index out of range") := by
  refine ⟨pairingCheck_spec h as bs, ?_⟩
  intro hl
  simp [pairingCheck, pairingAcc_short o as bs o.one hl]

/-- identity pairs contribute 1 -/
theorem pairing_identity_is_one (o : PairingOps P1 P2 PT) (V1 : P1 → Prop) (V2 : P2 → Prop)
    (VT : PT → Prop) (ι1 : P1 → A1) (ι2 : P2 → A2) (e : A1 → A2 → T) (fe : PT → T)
    (h : IsPairing o V1 V2 VT ι1 ι2 e fe) (a : A1) (b : A2) : e 0 b = 1 ∧ e a 0 = 1 :=
  ⟨h.zero_left b, h.zero_right a⟩

example : pairingCheck intOps.toPairingOps [3, 0, -6] [2, 5, 1] = .ok true := by decide
example : pairingCheck intOps.toPairingOps [3, 1] [2] = .panic "index out of range" := by decide
example : ∃ b, pairingCheck intOps.toPairingOps [3, 0, -6] [2, 5, 1] = .ok b ∧
    (b = true ↔ pairProd (fun a b : Int => Multiplicative.ofAdd (a * b)) id id [3, 0, -6] [2, 5, 1] = 1) :=
  (pairingCheck_skip_identity _ _ _ _ _ _ _ _ intOps_isPairing _ _).1 (by simp)
    (fun _ _ => trivial) (fun _ _ => trivial)

/-! ## 2. `bls.Verify` -/

/-- the side conditions under which the operations `bls.go` calls fit an `IsPairing` instance:
parsing returns valid points, the hash point and both keys are valid, negation is the group negation -/
structure VerifyCtx (o : BlsOps P1 P2 PT) (V1 : P1 → Prop) (V2 : P2 → Prop) (ι1 : P1 → A1) : Prop where
  parse_valid : ∀ sig s, o.unmarshal1 sig = .ok s → V1 s
  hash_valid : ∀ msg, V1 (hashToPoint o msg)
  neg : ∀ s, V1 s → V1 (o.neg1 s) ∧ ι1 (o.neg1 s) = -ι1 s
  base2_valid : V2 o.base2

/-- **`Verify` accepts ⇔ the signature parses and e(−S, g₂) · e(h•g₁, X) = 1**, where
`h•g₁ = hashToPoint msg`; identity signature / identity key included (no side condition);
an unparsable signature is rejected with the parse error; `Verify` never panics if parsing does not. -/
theorem verify_is_equation (o : BlsOps P1 P2 PT) (V1 : P1 → Prop) (V2 : P2 → Prop) (VT : PT → Prop)
    (ι1 : P1 → A1) (ι2 : P2 → A2) (e : A1 → A2 → T) (fe : PT → T)
    (h : IsPairing o.toPairingOps V1 V2 VT ι1 ι2 e fe) (c : VerifyCtx o V1 V2 ι1)
    (X : P2) (hX : V2 X) (msg sig : Bytes) :
    (verify o X msg sig = .accept ↔
      ∃ s, o.unmarshal1 sig = .ok s ∧
        e (-ι1 s) (ι2 o.base2) * e (ι1 (hashToPoint o msg)) (ι2 X) = 1) ∧
    (∀ er, o.unmarshal1 sig = .err er → verify o X msg sig = .rejectParse er) ∧
    (∀ s, o.unmarshal1 sig = .ok s →
      verify o X msg sig = .accept ∨ verify o X msg sig = .rejectPairing) := by
  have key : ∀ s, o.unmarshal1 sig = .ok s →
      ∃ b, verify o X msg sig = (if b then .accept else .rejectPairing) ∧
        (b = true ↔ e (-ι1 s) (ι2 o.base2) * e (ι1 (hashToPoint o msg)) (ι2 X) = 1) := by
    intro s hs
    have hsv := c.parse_valid sig s hs
    obtain ⟨b, hb, hiff⟩ := pairingCheck_spec h [o.neg1 s, hashToPoint o msg] [o.base2, X] (by simp)
      (by intro a ha; simp at ha; rcases ha with rfl | rfl
          · exact (c.neg s hsv).1
          · exact c.hash_valid msg)
      (by intro b hb; simp at hb; rcases hb with rfl | rfl
          · exact c.base2_valid
          · exact hX)
    refine ⟨b, ?_, ?_⟩
    · simp only [verify, hs, hb]; cases b <;> rfl
    · rw [hiff]; simp [pairProd, (c.neg s hsv).2]
  refine ⟨⟨?_, ?_⟩, ?_, ?_⟩
  · intro hacc
    cases hs : o.unmarshal1 sig with
    | ok s =>
      obtain ⟨b, hv, hiff⟩ := key s hs
      refine ⟨s, rfl, hiff.mp ?_⟩
      rw [hv] at hacc
      cases b <;> simp_all
    | err er => simp [verify, hs] at hacc
    | panic st => simp [verify, hs] at hacc
  · rintro ⟨s, hs, heq⟩
    obtain ⟨b, hv, hiff⟩ := key s hs
    rw [hv, hiff.mpr heq]; rfl
  · intro er hs; simp [verify, hs]
  · intro s hs
    obtain ⟨b, hv, _⟩ := key s hs
    cases b
    · right; rw [hv]; rfl
    · left; rw [hv]; rfl

/-- **Meaning of acceptance** (non-degenerate pairing): for a key denoting x•g₂,
`Verify` accepts exactly the byte strings that parse to a point denoting x•(h•g₁) — the signature
the holder of x produces.  (Non-degeneracy is used as: e(P, g₂) = 1 → P = O.) -/
theorem verify_accepts_iff_valid (o : BlsOps P1 P2 PT) (V1 : P1 → Prop) (V2 : P2 → Prop)
    (VT : PT → Prop) (ι1 : P1 → A1) (ι2 : P2 → A2) (e : A1 → A2 → T) (fe : PT → T)
    (h : IsPairing o.toPairingOps V1 V2 VT ι1 ι2 e fe) (c : VerifyCtx o V1 V2 ι1)
    (hnd : ∀ a, e a (ι2 o.base2) = 1 → a = 0)
    (x : Nat) (X : P2) (hX : V2 X) (hXx : ι2 X = x • ι2 o.base2) (msg sig : Bytes) :
    verify o X msg sig = .accept ↔
      ∃ s, o.unmarshal1 sig = .ok s ∧ ι1 s = x • ι1 (hashToPoint o msg) := by
  rw [(verify_is_equation o V1 V2 VT ι1 ι2 e fe h c X hX msg sig).1]
  constructor
  · rintro ⟨s, hs, heq⟩
    refine ⟨s, hs, ?_⟩
    rw [hXx, h.nsmul_right, ← h.nsmul_left, ← h.add_left] at heq
    have := hnd _ heq
    rw [neg_add_eq_zero] at this
    exact this
  · rintro ⟨s, hs, hs'⟩
    refine ⟨_, hs, ?_⟩
    rw [hXx, hs', h.nsmul_right, ← h.nsmul_left, ← h.add_left, neg_add_cancel, h.zero_left]

/-- the library's own signature verifies under the matching key, provided encode-then-decode is the
identity ON VALID POINTS (what C11 `g1_roundtrip` proves — it is false for junk representations
such as the affine pair (0,0)) and `Mul` is the scalar multiple on valid points -/
theorem sign_verifies (o : BlsOps P1 P2 PT) (V1 : P1 → Prop) (V2 : P2 → Prop)
    (VT : PT → Prop) (ι1 : P1 → A1) (ι2 : P2 → A2) (e : A1 → A2 → T) (fe : PT → T)
    (h : IsPairing o.toPairingOps V1 V2 VT ι1 ι2 e fe) (c : VerifyCtx o V1 V2 ι1)
    (hmul : ∀ k a, V1 a → V1 (o.mul1 k a) ∧ ι1 (o.mul1 k a) = k • ι1 a)
    (hrt : ∀ a, V1 a → o.unmarshal1 (o.marshal1 a) = .ok a)
    (x : Nat) (X : P2) (hX : V2 X) (hXx : ι2 X = x • ι2 o.base2) (msg : Bytes) :
    verify o X msg (sign o x msg) = .accept := by
  rw [(verify_is_equation o V1 V2 VT ι1 ι2 e fe h c X hX msg _).1]
  unfold sign
  have hm := hmul x _ (c.hash_valid msg)
  refine ⟨_, hrt _ hm.1, ?_⟩
  rw [hm.2, hXx, h.nsmul_right, ← h.nsmul_left, ← h.add_left, neg_add_cancel, h.zero_left]

/-! ### the instance the correspondence run evaluates satisfies ALL the hypotheses

`Bls.evalOps` (G1 = concrete affine model with `unmarshalG1`/`marshalG1` of C11, a key = its
discrete log, e(P, x) = x•P) with V1 = VT = `G1.valid`, ι1 = `Compose.pt1` into Mathlib's group
E(F_p): `evalOps_isPairing` (`Proofs/BlsEval.lean`), and below the remaining side conditions.  So the
three generic theorems above hold, unconditionally, of the function `drv_c06` runs. -/

theorem evalOps_ctx : VerifyCtx evalOps (fun P : G1 => G1.valid P = true) (fun _ : Nat => True)
    Compose.pt1 where
  parse_valid := evalOps_parse_valid
  hash_valid := evalOps_hash_valid
  neg := evalOps_neg
  base2_valid := trivial

/-- **what the driver computes**: for every key x, message and byte string, `verify evalOps` accepts
⇔ the bytes parse (C11 decoder) to exactly the point x•(h•g₁), h = keccak256(msg) mod r.
No hypothesis left: the instance of `verify_accepts_iff_valid` at `evalOps`. -/
theorem evalOps_verify_iff (x : Nat) (msg sig : Bytes) :
    verify evalOps x msg sig = .accept ↔
      ∃ S, unmarshalG1 sig = .ok S ∧ S = G1.smul x (G1.smul (keccakScalar msg) g1gen) := by
  have := verify_accepts_iff_valid evalOps _ _ _ _ _ _ _ evalOps_isPairing evalOps_ctx
    evalOps_nondegenerate x x trivial (by show ((x : Nat) : ℤ) = x • ((1 : Nat) : ℤ); simp) msg sig
  rw [this]
  constructor
  · rintro ⟨S, hS, hpt⟩
    refine ⟨S, hS, ?_⟩
    have hv := evalOps_parse_valid sig S hS
    have hh := evalOps_hash_valid msg
    apply Compose.pt1_inj hv (valid_smul x _ hh)
    rw [Compose.pt1_smul x _ hh]; exact hpt
  · rintro ⟨S, hS, rfl⟩
    exact ⟨_, hS, Compose.pt1_smul x _ (evalOps_hash_valid msg)⟩

/-- the model's own signatures verify, for every key and message (instance of `sign_verifies`; its
round-trip hypothesis is C11's `g1_roundtrip` on valid points) -/
theorem evalOps_sign_verifies (x : Nat) (msg : Bytes) :
    verify evalOps x msg (sign evalOps x msg) = .accept :=
  sign_verifies evalOps _ _ _ _ _ _ _ evalOps_isPairing evalOps_ctx evalOps_mul evalOps_roundtrip
    x x trivial (by show ((x : Nat) : ℤ) = x • ((1 : Nat) : ℤ); simp) msg

/-! executable examples on the toy ℤ-instance (e(a,b) = a·b; `intOps_isPairing`) -/
example : verify intOps 7 [1, 2] [21] = .accept := by decide
example : verify intOps 7 [1, 2] [20] = .rejectPairing := by decide
example : verify intOps 7 [1, 2] [] = .rejectParse .short := by decide
example : verify intOps 0 [] [0] = .accept := by decide   -- identity key, identity signature
example : verify evalOps 0 [] (List.replicate 64 0) = .accept :=
  (evalOps_verify_iff 0 [] _).mpr ⟨.inf, by decide, rfl⟩

/-! ## 3. what the library emits is a canonical EVM encoding -/

/-- **Every coordinate `MarshalBinary` writes is a 32-byte big-endian number below p**, whatever
the limbs hold (`redc` output is < p for all inputs below R·p — `Proofs/Bn256ConcMont.redc_lt`,
proved here on numbers; the limb-level `gfpMul` = `redc` is C10's theorem / correspondence). -/
theorem emitted_coordinates_canonical (a : Nat) (ha : a < 2 ^ 256) :
    (emitCoord a).length = 32 ∧ beNat (emitCoord a) < p ∧ beNat (emitCoord a) = montDecode a ∧
    montDecode a = a * rInv % p := by
  have hlt := montDecode_lt a ha
  refine ⟨be32_length _, ?_, beNat_be32 _ hlt, montDecode_spec a ha⟩
  rw [emitCoord, beNat_be32 _ hlt]; exact hlt

/-- a G1 signature is 64 bytes x‖y, a non-identity G2 key is 129 bytes 0x01‖x.im‖x.re‖y.im‖y.re
(**imaginary part first**: `gfP2{x, y}` is x·i + y and `.x` is written first — pinned to the source
by `gen_code_shape`), all words canonical -/
theorem emitted_layout (xm ym a b c d : Nat)
    (hx : xm < 2 ^ 256) (hy : ym < 2 ^ 256) :
    marshalG1M (some (xm, ym)) = be32 (montDecode xm) ++ be32 (montDecode ym) ∧
    (marshalG1M (some (xm, ym))).length = 64 ∧ montDecode xm < p ∧ montDecode ym < p ∧
    marshalG2M (some (a, b, c, d)) =
      [1] ++ be32 (montDecode a) ++ be32 (montDecode b) ++ be32 (montDecode c) ++ be32 (montDecode d) ∧
    (marshalG2M (some (a, b, c, d))).length = 129 := by
  refine ⟨rfl, by simp [marshalG1M, emitCoord, be32_length], montDecode_lt _ hx, montDecode_lt _ hy,
    rfl, by simp [marshalG2M, emitCoord, be32_length]⟩

/-- `Signature.ToBigInt` returns exactly the two emitted coordinates, and `decodePubKey` the four
coordinates (imaginary, real, imaginary, real) of an emitted non-identity key.  On the 1-byte encoding the
library emits for the IDENTITY key `decodePubKey` answers with an error (/repo ae5b22f; before it the slice
expression panicked), and so for every encoding shorter than 129 bytes; `ToBigInt` of fewer than 32 bytes is
(0, 0) (/repo 6bcc55e); neither function panics on any byte string -/
theorem coordinate_splitters_invert (xm ym a b c d : Nat)
    (hx : xm < 2 ^ 256) (hy : ym < 2 ^ 256)
    (ha : a < 2 ^ 256) (hb : b < 2 ^ 256) (hc : c < 2 ^ 256) (hd : d < 2 ^ 256) :
    sigToBigInt (marshalG1M (some (xm, ym))) = .ok (montDecode xm, montDecode ym) ∧
    decodePubKey (marshalG2M (some (a, b, c, d)))
      = .ok [montDecode a, montDecode b, montDecode c, montDecode d] ∧
    decodePubKey (marshalG2M none) = .err .short ∧
    (∀ enc : Bytes, enc.length < 129 → decodePubKey enc = .err .short) ∧
    (∀ sig : Bytes, sig.length < 32 → sigToBigInt sig = .ok (0, 0)) ∧
    (∀ enc : Bytes, (decodePubKey enc).isPanic = false) ∧
    (∀ sig : Bytes, (sigToBigInt sig).isPanic = false) := by
  have l := be32_length
  have e1 := beNat_be32 _ (montDecode_lt xm hx)
  have e2 := beNat_be32 _ (montDecode_lt ym hy)
  have w := wordsOf_encode [montDecode a, montDecode b, montDecode c, montDecode d] [] (by
    intro v hv; simp at hv
    rcases hv with rfl | rfl | rfl | rfl
    · exact montDecode_lt _ ha
    · exact montDecode_lt _ hb
    · exact montDecode_lt _ hc
    · exact montDecode_lt _ hd)
  change wordsOf 4 _ = _ at w
  rw [wordsOf4] at w
  simp only [List.cons.injEq, and_true, List.append_nil] at w
  obtain ⟨w1, w2, w3, w4⟩ := w
  refine ⟨?_, ?_, by decide, ?_, ?_, ?_, ?_⟩
  · have hlen : ¬ (marshalG1M (some (xm, ym))).length < 32 := by
      simp [marshalG1M, emitCoord, l]
    simp only [sigToBigInt, hlen, if_false]
    simp only [marshalG1M, emitCoord]
    rw [List.take_append_of_le_length (by simp [l]), List.take_of_length_le (by simp [l]),
      List.drop_append_of_le_length (by simp [l]), List.drop_of_length_le (by simp [l]), e1]
    simp [e2]
  · have hl : (marshalG2M (some (a, b, c, d))).length = 129 := by
      simp [marshalG2M, emitCoord, be32_length]
    have hbody : marshalG2M (some (a, b, c, d)) =
        1 :: ([montDecode a, montDecode b, montDecode c, montDecode d].map be32).flatten := by
      simp [marshalG2M, emitCoord]
    simp only [decodePubKey, sliceRange, hl]
    rw [hbody]
    simp only [List.drop_succ_cons, List.drop_zero]
    simp only [List.map_cons, List.map_nil, List.flatten_cons, List.flatten_nil, List.append_nil] at w1 w2 w3 w4 ⊢
    simp [w1, w2, w3, w4]
  · intro enc h
    have h' : enc.length < 32 * 4 + 1 := by omega
    simp [decodePubKey, h']
  · intro sig h
    simp [sigToBigInt, h]
  · intro enc
    by_cases h : enc.length < 32 * 4 + 1
    · simp [decodePubKey, h, Out.isPanic]
    · have h1 : (1 ≤ 33 ∧ 33 ≤ enc.length) := by omega
      have h2 : (33 ≤ 65 ∧ 65 ≤ enc.length) := by omega
      have h3 : (65 ≤ 97 ∧ 97 ≤ enc.length) := by omega
      have h4 : (97 ≤ 129 ∧ 129 ≤ enc.length) := by omega
      simp [decodePubKey, h, sliceRange, h1, h2, h3, h4, Out.isPanic]
  · intro sig
    by_cases h : sig.length < 32 <;> simp [sigToBigInt, h, Out.isPanic]

/-- a short signature and the identity key, evaluated (what the pre-repair model called a panic) -/
example : sigToBigInt [1, 2, 3] = .ok (0, 0) ∧ decodePubKey [0] = .err .short ∧
    sigToBigInt (List.replicate 31 7 ++ [1, 2]) = .ok (beNat (List.replicate 31 7 ++ [1]), 2) := by decide

/-- on the concrete affine model (`Bls.evalOps`): **every signature `Sign` emits, for every secret
key and every message, is the 64-byte canonical encoding of a point on y² = x³ + 3 with coordinates
below p** (or 64 zero bytes for the identity), and the library parses it back to that point
(uses the closure of the curve under the model's operations, `Proofs/Bn256ConcCurve.lean`, p prime) -/
theorem emitted_signature_is_canonical_point (x : Nat) (msg : Bytes) :
    ∃ S : G1, G1.valid S = true ∧ sign evalOps x msg = marshalG1 S ∧
      (sign evalOps x msg).length = 64 ∧ unmarshalG1 (sign evalOps x msg) = .ok S := by
  have hr : G1.Reachable (G1.smul x (G1.smul (keccakScalar msg) g1gen)) := .smul _ (.smul _ .base)
  refine ⟨_, reachable_valid hr, rfl, marshalG1_length _, ?_⟩
  have := unmarshalG1_marshalG1 _ (reachable_valid hr) []
  simpa [sign, evalOps, hashToPoint] using this

example : (emitCoord (2 ^ 256 - 1)).length = 32 ∧ beNat (emitCoord (2 ^ 256 - 1)) < p :=
  ⟨(emitted_coordinates_canonical _ (by decide)).1, (emitted_coordinates_canonical _ (by decide)).2.1⟩

/-! ## 4. regenerated facts: the predicate is built from the EVM's constants and hash -/

/-- EIP-196/197 constants, as the precompiles and the on-chain verifier use them -/
def evmG1Gen : Nat × Nat := (1, 2)
def evmG2Gen : (Nat × Nat) × (Nat × Nat) :=
  ((11559732032986387107991004021392285783925812861821192530917403151452391805634,
    10857046999023057135944570762232829481370756359578518086990519993285655852781),
   (4082367875863433681332203403145435568316851327593401208105741076214120093531,
    8495653923123431417604973247489272438418190587263600148770280649306958101930))
def evmGroupOrder : Nat := 21888242871839275222246405745257275088548364400416034343698204186575808495617
def evmFieldPrime : Nat := 21888242871839275222246405745257275088696311157297823662689037894645226208583

/-- G1 generator (1,2); the G2 generator of twist.go (stored in Montgomery form) is the EVM's,
imaginary part first; `Order` is the contract's group order; `P` the field prime -/
theorem gen_evm_constants :
    (Gen.Codec.curveGenX, Gen.Codec.curveGenY) = evmG1Gen ∧
    ((montDecode Gen.Codec.twistGen_x_x_mont, montDecode Gen.Codec.twistGen_x_y_mont),
     (montDecode Gen.Codec.twistGen_y_x_mont, montDecode Gen.Codec.twistGen_y_y_mont)) = evmG2Gen ∧
    Gen.Codec.constOrder = evmGroupOrder ∧ Gen.Codec.constP = evmFieldPrime ∧
    g1gen = .aff evmG1Gen.1 evmG1Gen.2 ∧
    g2gen = .aff ⟨evmG2Gen.1.1, evmG2Gen.1.2⟩ ⟨evmG2Gen.2.1, evmG2Gen.2.2⟩ ∧
    r = evmGroupOrder ∧ p = evmFieldPrime := by decide

/-- the generators are valid elements of the model (on the curve / twist, G2 generator of order r) -/
theorem gen_generators_valid : G1.valid g1gen = true ∧ G2.onCurve g2gen = true := by decide

/-- the shape of bls.go the model mirrors: legacy Keccak-256 (not SHA3-256), hash → scalar →
base multiplication; `Verify` parses, NEGATES the signature and checks the pairs
(s, HM) against (G2 base, X); `PairingCheck` skips identity pairs and tests
`finalExponentiation(acc).IsOne()`; `Sign` marshals x·H(m); which FIELD of the point is written at which byte
OFFSET of the encoding (extracted structurally: `montDecode(tmp, &<copy of p.g>.x.y)` then `tmp.Marshal(ret[1+1*n:])`
is "x.y@33" whatever the locals are called; `gfP2.x` is the imaginary part) -/
theorem gen_bls_shape :
    Gen.Bls.hashToPoint_calls = ["sha3.NewLegacyKeccak256", "hash.Write", "hash.Sum",
      "suite.G1().Scalar().SetBytes", "suite.G1().Scalar", "suite.G1", "suite.G1().Point().Mul",
      "suite.G1().Point", "suite.G1"] ∧
    Gen.Bls.Verify_calls = ["hashToPoint", "suite.G1().Point", "suite.G1", "s.UnmarshalBinary", "s.Neg",
      "suite.PairingCheck", "suite.G2().Point().Base", "suite.G2().Point", "suite.G2", "errors.New"] ∧
    Gen.Bls.Verify_pairing_g1 = ["s", "HM"] ∧
    Gen.Bls.Verify_pairing_g2 = ["suite.G2().Point().Base()", "X"] ∧
    Gen.Bls.Sign_calls = ["hashToPoint", "HM.Mul", "xHM.MarshalBinary"] ∧
    Gen.Bls.PairingCheck_calls = ["new", "acc.SetOne", "len", "ap.IsInfinity", "bp.IsInfinity", "acc.Mul",
      "miller", "finalExponentiation().IsOne", "finalExponentiation"] ∧
    Gen.Bls.PairingCheck_skipsIdentityPairs = true ∧
    Gen.Codec.pointG2_marshalLayout = ["x.x@1", "x.y@33", "y.x@65", "y.y@97"] ∧
    Gen.Codec.pointG1_marshalLayout = ["x@0", "y@32"] := by decide

end Dos.Props.C06

/-
The transaction each state-changing call of the adaptor's request queue (onchain/eth_set.go) is MEANT to
carry: contract, ABI method, argument types as the deployed contracts declare them (DOSProxy.sol /
CommitReveal.sol — the property's "intended method and arguments"), and how the node-level arguments are
marshalled into ABI values (`Signature.ToBigInt`, `big.Int.SetBytes(RequestId)`, `uint8(Index)`,
`idPubkey[0]`, `idPubkey[1:]`, `big.NewInt(int64)`).  `Call.data` is the byte string handed to
`types.NewTx` as `Data`; `Envelope` is the rest of the transaction the repository decides
(`bind.TransactOpts` as `Connect` fills it: no `Nonce`, no `Value`, `GasLimit`, optional `GasPrice`,
signer for `chainID`).  Core Lean only.
-/
import DosModel.Model.Abi
import DosModel.Model.ReqLoop

namespace Dos.CallData
open Dos Dos.Abi Dos.ReqLoop

inductive Contract where
  | proxy | commitReveal
  deriving DecidableEq, Repr

structure Method where
  contract : Contract
  goName : String                       -- method of the adaptor (eth_set.go)
  binding : String                      -- method of the abigen session it calls
  name : String                         -- ABI method name
  inputs : List (String × AbiType)      -- ABI inputs, contract order
  deriving DecidableEq, Repr

def Method.types (m : Method) : List AbiType := m.inputs.map (·.2)

def u256 : AbiType := .elem (.uint 256)

def setGroupSize : Method :=
  ⟨.proxy, "SetGroupSize", "SetGroupSize", "setGroupSize", [("newSize", u256)]⟩
def updateRandomness : Method :=
  ⟨.proxy, "UpdateRandomness", "UpdateRandomness", "updateRandomness", [("sig", .sarray (.uint 256) 2)]⟩
def triggerCallback : Method :=
  ⟨.proxy, "DataReturn", "TriggerCallback", "triggerCallback",
    [("requestId", u256), ("trafficType", .elem (.uint 8)), ("result", .bytes), ("sig", .sarray (.uint 256) 2)]⟩
def registerGroupPubKey : Method :=
  ⟨.proxy, "RegisterGroupPubKey", "RegisterGroupPubKey", "registerGroupPubKey",
    [("groupId", u256), ("suggestedPubKey", .sarray (.uint 256) 4)]⟩
def registerNewNode : Method := ⟨.proxy, "RegisterNewNode", "RegisterNewNode", "registerNewNode", []⟩
def unregisterNode : Method := ⟨.proxy, "UnRegisterNode", "UnregisterNode", "unregisterNode", []⟩
def signalUnregister : Method :=
  ⟨.proxy, "SignalUnregister", "SignalUnregister", "signalUnregister", [("member", .elem .address)]⟩
def startCommitReveal : Method :=
  ⟨.commitReveal, "StartCommitReveal", "StartCommitReveal", "startCommitReveal",
    [("_startBlock", u256), ("_commitDuration", u256), ("_revealDuration", u256), ("_revealThreshold", u256)]⟩
def commit : Method :=
  ⟨.commitReveal, "Commit", "Commit", "commit", [("_cid", u256), ("_secretHash", .elem (.fixedBytes 32))]⟩
def reveal : Method :=
  ⟨.commitReveal, "Reveal", "Reveal", "reveal", [("_cid", u256), ("_secret", u256)]⟩

/-- the ten calls that go through the request queue (`waitForReply`) -/
def queueMethods : List Method :=
  [setGroupSize, updateRandomness, triggerCallback, registerGroupPubKey, registerNewNode, unregisterNode,
   signalUnregister, startCommitReveal, commit, reveal]

/-- the six of the property -/
def propertyMethods : List Method :=
  [updateRandomness, triggerCallback, registerGroupPubKey, registerNewNode, commit, reveal]

/-- a call with its node-level arguments -/
inductive Call where
  | setGroupSize (g : Nat)                                        -- uint64
  | updateRandomness (sig : Bytes)                                -- vss.Signature.Signature
  | dataReturn (sig rid : Bytes) (index : Nat) (content : Bytes)  -- Signature, RequestId, Index (uint32), Content
  | registerGroupPubKey (id : Nat) (k0 k1 k2 k3 : Nat)            -- idPubkey[0..4]
  | registerNewNode
  | unRegisterNode
  | signalUnregister (addr : Bytes)                               -- common.Address (20 bytes)
  | startCommitReveal (a b c d : Int)                             -- int64 each
  | commit (cid : Nat) (commitment : Bytes)                       -- [32]byte
  | reveal (cid secret : Nat)
  deriving Repr

def Call.method : Call → Method
  | .setGroupSize _ => CallData.setGroupSize
  | .updateRandomness _ => CallData.updateRandomness
  | .dataReturn .. => triggerCallback
  | .registerGroupPubKey .. => CallData.registerGroupPubKey
  | .registerNewNode => CallData.registerNewNode
  | .unRegisterNode => unregisterNode
  | .signalUnregister _ => CallData.signalUnregister
  | .startCommitReveal .. => CallData.startCommitReveal
  | .commit .. => CallData.commit
  | .reveal .. => CallData.reveal

/-- `math.U256Bytes` of a Go integer: two's complement for negative values -/
def intWord (v : Int) : Nat := (v % (2 ^ 256 : Int)).toNat

def n (v : Nat) : AbiVal := .elem (.num v)

/-- the ABI values the request closure hands to the binding, in the order of the binding call -/
def Call.args : Call → List AbiVal
  | .setGroupSize g => [n g]
  | .updateRandomness sig => let p := toBigInt sig; [.arr [.num p.1, .num p.2]]
  | .dataReturn sig rid index content =>
    let p := toBigInt sig
    [n (requestId rid), n (trafficType index), .blob content, .arr [.num p.1, .num p.2]]
  | .registerGroupPubKey id k0 k1 k2 k3 => [n id, .arr [.num k0, .num k1, .num k2, .num k3]]
  | .registerNewNode => []
  | .unRegisterNode => []
  | .signalUnregister addr => [n (beNat addr)]
  | .startCommitReveal a b c d => [n (intWord a), n (intWord b), n (intWord c), n (intWord d)]
  | .commit cid h => [n cid, .elem (.fixed h)]
  | .reveal cid s => [n cid, n s]

/-- `Data` of the transaction: selector of the intended method, then the packed arguments
(`encodeRaw`: `*big.Int` arguments are packed modulo 2^256 by go-ethereum whatever their size) -/
def Call.data (hash : Bytes → Bytes) (c : Call) : Bytes :=
  selector hash c.method.name c.method.types ++ encodeRaw c.method.types c.args

/-! ### the rest of the transaction -/

/-- what a sent transaction carries besides `Data` -/
structure Envelope where
  toProxy : Bool         -- `To` = the proxy address the bridge returned (else the commit-reveal address)
  value : Nat
  nonce : Nat
  gas : Nat
  price : Nat
  chainId : Nat
  deriving DecidableEq, Repr

/-- one RPC endpoint as the adaptor sees it during a send: `eth_getTransactionCount(pending)` and `eth_gasPrice` -/
structure EndpointView where
  pendingNonce : Nat
  suggestedPrice : Nat
  deriving DecidableEq, Repr

/-- `BoundContract.transact` with the session's `TransactOpts` as `Connect` builds them
(`Nonce == nil` ⇒ the endpoint's pending nonce; `Value == nil` ⇒ 0; `GasLimit` = the configured one, never 0
⇒ no estimation; `GasPrice == nil` ⇒ the endpoint's suggestion; legacy transaction) -/
def envelope (m : Method) (cfg : Config) (ep : EndpointView) : Envelope :=
  { toProxy := m.contract == .proxy, value := 0, nonce := ep.pendingNonce, gas := cfg.gasLimit,
    price := if cfg.gasPrice = 0 then ep.suggestedPrice else cfg.gasPrice, chainId := cfg.chainId }

/-- The chain side of nonces, as far as the adaptor relies on it: an endpoint that accepts a transaction
counts it as pending (its next `eth_getTransactionCount(pending)` is one higher); a refused send changes
nothing.  `views[i]` is endpoint `i`; `os[i]` what it does with this request. -/
def acceptedBy (r : CallResult) (os : List Outcome) : Option Nat :=
  r.contacted.find? (fun i => os[i]? == some Outcome.accept)

def bumpNonce : List EndpointView → Nat → List EndpointView
  | [], _ => []
  | v :: vs, 0 => { v with pendingNonce := v.pendingNonce + 1 } :: vs
  | v :: vs, i + 1 => v :: bumpNonce vs i

/-- a sequence of calls on one adaptor (fixed configuration): per call the envelopes of the transactions
signed, one per contacted endpoint, and the endpoints' views afterwards -/
def sendSeq (cfg : Config) : List Nat → List EndpointView → List (Method × List Outcome) →
    List (CallResult × List (Nat × Envelope))
  | _, _, [] => []
  | dead, views, (m, os) :: rest =>
    let (r, dead') := call true dead os
    let txs := r.contacted.filterMap (fun i => (views[i]?).map (fun v => (i, envelope m cfg v)))
    let views' := match acceptedBy r os with
      | some i => bumpNonce views i
      | none => views
    (r, txs) :: sendSeq cfg dead' views' rest

/-- the nonces of the transactions endpoint `i` ACCEPTED during a history, in order (each is the nonce of the
transaction `sendSeq` lists for `i` in that call) -/
def acceptedNonces (cfg : Config) : List Nat → List EndpointView → List (Method × List Outcome) → Nat → List Nat
  | _, _, [], _ => []
  | dead, views, (m, os) :: rest, i =>
    let r := call true dead os
    let acc := acceptedBy r.1 os
    let views' := match acc with
      | some j => bumpNonce views j
      | none => views
    let tail := acceptedNonces cfg r.2 views' rest i
    if acc = some i then
      match views[i]? with
      | some v => (envelope m cfg v).nonce :: tail
      | none => tail
    else tail

/-! ### driver helpers -/

def parseInt (s : String) : Option Int :=
  if s.startsWith "-" then (s.drop 1).toString.toNat?.map (fun v => -(Int.ofNat v)) else s.toNat?.map Int.ofNat

end Dos.CallData

/-
C16 — only authentic, unmodified messages are delivered to p2p subscribers.

Property theorems only (helpers: `Proofs/P2PSym.lean`).  Symbolic (Dolev–Yao) model
`Model/P2PSym.lean`: frames and signatures are terms; the man in the middle is ANY
sequence of frames each of which he can derive from what was sent — in EITHER direction of
the connection — without the session key and without a signing key (`Derivable`): verbatim
copies of the remote endpoint's frames in any order and number, the receiver's OWN frames
reflected back to it (both directions use the same key and nonce), byte strings that are not
the output of Seal (altered, truncated, duplicated-and-altered, random injected frames),
damage to the framing, and frames sealed under other keys (every other connection has its
own key pair, `c16_code_shape`).
Ideal AES-GCM (also under the fixed per-connection nonce the code uses) and BLS are
assumptions, not theorems.
-/
import DosModel.Proofs.P2PSym
import DosModel.Proofs.ConnSym
import DosModel.Model.ConnTableCfg
import DosModel.Gen.P2PFlow

namespace Dos.Props.C16
open Dos Dos.P2PSym

/-- regenerated facts (go/ast over p2p/client.go): a failing Open drops the frame; decodeBytes is
called with the BLS check under the handshake key and a failure drops the frame; decodePipe checks
again; a Package without Anything is an error, not a nil dereference. -/
theorem c16_code_shape :
    Gen.decryptDropsOnOpenError = true ∧ Gen.decodeVerifiesFirst = true ∧
    Gen.decodePipeVerifiesAgain = true ∧ Gen.decodeChecksAnything = true ∧
    Gen.signingKeyPerConnection = true := by decide

/-- regenerated: the statement skeleton of the per-frame receive and send path (decryptPipe, decodePipe,
decodeBytes, verifyFn, signFn, encodeProto, encryptPipe, reportMsg, handShake, sendID, receiveID —
p2p/client.go, text-exact, each
statement with the path of enclosing case / if / for headers) is the one `recvFrame` / `pack` were
transcribed from: every frame taken from the channel reaches Open, decodeBytes with c.verifyFn
(unconditionally: `if veifyfn != nil` only), UnmarshalAny and the second bls.Verify before it is handed
to replyMsg / receivedMsg — replies included.  ANY edit of these functions shows here first (the
pattern facts of `c16_code_shape` say a check exists somewhere, not that every frame reaches it). -/
theorem c16_recv_path_skeleton : Gen.recvPathSkeleton =
  [
  "decryptPipe(ciphertext chan []byte) | out = make(chan []byte)",
  "decryptPipe(ciphertext chan []byte) | go func | defer close(out)",
  "decryptPipe(ciphertext chan []byte) | go func | for | case <-c.ctx.Done() | return",
  "decryptPipe(ciphertext chan []byte) | go func | for | case text, ok := <-ciphertext | if ok | block, err = aes.NewCipher(c.dhKey)",
  "decryptPipe(ciphertext chan []byte) | go func | for | case text, ok := <-ciphertext | if ok | if block, err = aes.NewCipher(c.dhKey); err != nil | c.reportError(errors.Errorf(\"client decryptPipe: %w\", err))",
  "decryptPipe(ciphertext chan []byte) | go func | for | case text, ok := <-ciphertext | if ok | if block, err = aes.NewCipher(c.dhKey); err != nil | continue",
  "decryptPipe(ciphertext chan []byte) | go func | for | case text, ok := <-ciphertext | if ok | aesgcm, err = cipher.NewGCM(block)",
  "decryptPipe(ciphertext chan []byte) | go func | for | case text, ok := <-ciphertext | if ok | if aesgcm, err = cipher.NewGCM(block); err != nil | c.reportError(errors.Errorf(\"client decryptPipe: %w\", err))",
  "decryptPipe(ciphertext chan []byte) | go func | for | case text, ok := <-ciphertext | if ok | if aesgcm, err = cipher.NewGCM(block); err != nil | continue",
  "decryptPipe(ciphertext chan []byte) | go func | for | case text, ok := <-ciphertext | if ok | result, err = aesgcm.Open(nil, c.dhNonce, text, nil)",
  "decryptPipe(ciphertext chan []byte) | go func | for | case text, ok := <-ciphertext | if ok | if result, err = aesgcm.Open(nil, c.dhNonce, text, nil); err != nil | c.reportError(errors.Errorf(\"client decryptPipe: %w\", err))",
  "decryptPipe(ciphertext chan []byte) | go func | for | case text, ok := <-ciphertext | if ok | if result, err = aesgcm.Open(nil, c.dhNonce, text, nil); err != nil | continue",
  "decryptPipe(ciphertext chan []byte) | go func | for | case text, ok := <-ciphertext | if ok | case out <- result | (empty)",
  "decryptPipe(ciphertext chan []byte) | go func | for | case text, ok := <-ciphertext | if ok | case <-c.ctx.Done() | (empty)",
  "decryptPipe(ciphertext chan []byte) | go func | for | case text, ok := <-ciphertext | else(ok) | ciphertext = nil",
  "decryptPipe(ciphertext chan []byte) | return out",
  "decodePipe(bytesC chan []byte) | replyMsg = make(chan P2PMessage)",
  "decodePipe(bytesC chan []byte) | receivedMsg = make(chan P2PMessage)",
  "decodePipe(bytesC chan []byte) | go func | defer close(replyMsg)",
  "decodePipe(bytesC chan []byte) | go func | defer close(receivedMsg)",
  "decodePipe(bytesC chan []byte) | go func | for | case <-c.ctx.Done() | return",
  "decodePipe(bytesC chan []byte) | go func | for | case bytes, ok := <-bytesC | if ok | if len(bytes) == 0 | continue",
  "decodePipe(bytesC chan []byte) | go func | for | case bytes, ok := <-bytesC | if ok | pa, ptr, err := decodeBytes(bytes, c.verifyFn)",
  "decodePipe(bytesC chan []byte) | go func | for | case bytes, ok := <-bytesC | if ok | if err != nil | c.reportError(errors.Errorf(\"client decodePipe: %w\", err))",
  "decodePipe(bytesC chan []byte) | go func | for | case bytes, ok := <-bytesC | if ok | if err != nil | continue",
  "decodePipe(bytesC chan []byte) | go func | for | case bytes, ok := <-bytesC | if ok | err := bls.Verify(c.suite, c.remotePubKey, pa.GetAnything().Value, pa.GetSignature())",
  "decodePipe(bytesC chan []byte) | go func | for | case bytes, ok := <-bytesC | if ok | if err := bls.Verify(c.suite, c.remotePubKey, pa.GetAnything().Value, pa.GetSignature()); err != nil | c.reportError(errors.Errorf(\"client decodePipe: %w\", err))",
  "decodePipe(bytesC chan []byte) | go func | for | case bytes, ok := <-bytesC | if ok | if err := bls.Verify(c.suite, c.remotePubKey, pa.GetAnything().Value, pa.GetSignature()); err != nil | continue",
  "decodePipe(bytesC chan []byte) | go func | for | case bytes, ok := <-bytesC | if ok | msg = P2PMessage{Msg: ptr, Sender: pa.GetSender(), RequestNonce: pa.GetRequestNonce()}",
  "decodePipe(bytesC chan []byte) | go func | for | case bytes, ok := <-bytesC | if ok | if pa.GetReplyFlag() | case <-c.ctx.Done() | (empty)",
  "decodePipe(bytesC chan []byte) | go func | for | case bytes, ok := <-bytesC | if ok | if pa.GetReplyFlag() | case replyMsg <- msg | (empty)",
  "decodePipe(bytesC chan []byte) | go func | for | case bytes, ok := <-bytesC | if ok | else(pa.GetReplyFlag()) | case <-c.ctx.Done() | (empty)",
  "decodePipe(bytesC chan []byte) | go func | for | case bytes, ok := <-bytesC | if ok | else(pa.GetReplyFlag()) | case receivedMsg <- msg | (empty)",
  "decodePipe(bytesC chan []byte) | return",
  "decodeBytes(bytes []byte, veifyfn verifyFunc) | pa = &Package{}",
  "decodeBytes(bytes []byte, veifyfn verifyFunc) | err = proto.Unmarshal(bytes, pa)",
  "decodeBytes(bytes []byte, veifyfn verifyFunc) | if err = proto.Unmarshal(bytes, pa); err != nil | err = errors.Errorf(\"Unmarshal: %w\", err)",
  "decodeBytes(bytes []byte, veifyfn verifyFunc) | if err = proto.Unmarshal(bytes, pa); err != nil | return",
  "decodeBytes(bytes []byte, veifyfn verifyFunc) | if pa.GetAnything() == nil | err = errors.New(\"Unmarshal: package without a message\")",
  "decodeBytes(bytes []byte, veifyfn verifyFunc) | if pa.GetAnything() == nil | return",
  "decodeBytes(bytes []byte, veifyfn verifyFunc) | if veifyfn != nil | err = veifyfn(pa.GetAnything().Value, pa.GetSignature())",
  "decodeBytes(bytes []byte, veifyfn verifyFunc) | if veifyfn != nil | if err = veifyfn(pa.GetAnything().Value, pa.GetSignature()); err != nil | err = errors.Errorf(\"veifyfn: %w\", err)",
  "decodeBytes(bytes []byte, veifyfn verifyFunc) | if veifyfn != nil | if err = veifyfn(pa.GetAnything().Value, pa.GetSignature()); err != nil | return",
  "decodeBytes(bytes []byte, veifyfn verifyFunc) | err = ptypes.UnmarshalAny(pa.GetAnything(), &ptr)",
  "decodeBytes(bytes []byte, veifyfn verifyFunc) | if err = ptypes.UnmarshalAny(pa.GetAnything(), &ptr); err != nil | err = errors.Errorf(\"UnmarshalAny: %w\", err)",
  "decodeBytes(bytes []byte, veifyfn verifyFunc) | return",
  "verifyFn(msg, sig []byte) | err = bls.Verify(c.suite, c.remotePubKey, msg, sig)",
  "verifyFn(msg, sig []byte) | if err = bls.Verify(c.suite, c.remotePubKey, msg, sig); err != nil | err = errors.Errorf(\"Verify: %w\", err)",
  "verifyFn(msg, sig []byte) | return",
  "signFn(msg []byte) | sig, err = bls.Sign(c.suite, c.localSecKey, msg)",
  "signFn(msg []byte) | if sig, err = bls.Sign(c.suite, c.localSecKey, msg); err != nil | err = errors.Errorf(\"Sign: %w\", err)",
  "signFn(msg []byte) | return",
  "encodeProto(msg proto.Message, sender []byte, signFn signFunc, nonce uint64, replyFlag bool) | anything, err = ptypes.MarshalAny(msg)",
  "encodeProto(msg proto.Message, sender []byte, signFn signFunc, nonce uint64, replyFlag bool) | if anything, err = ptypes.MarshalAny(msg); err != nil | err = errors.Errorf(\"MarshalAny: %w\", err)",
  "encodeProto(msg proto.Message, sender []byte, signFn signFunc, nonce uint64, replyFlag bool) | if anything, err = ptypes.MarshalAny(msg); err != nil | return",
  "encodeProto(msg proto.Message, sender []byte, signFn signFunc, nonce uint64, replyFlag bool) | if signFn != nil | sign, err = signFn(anything.Value)",
  "encodeProto(msg proto.Message, sender []byte, signFn signFunc, nonce uint64, replyFlag bool) | if signFn != nil | if sign, err = signFn(anything.Value); err != nil | err = errors.Errorf(\"signFn: %w\", err)",
  "encodeProto(msg proto.Message, sender []byte, signFn signFunc, nonce uint64, replyFlag bool) | if signFn != nil | if sign, err = signFn(anything.Value); err != nil | return",
  "encodeProto(msg proto.Message, sender []byte, signFn signFunc, nonce uint64, replyFlag bool) | p := &Package{Anything: anything, Sender: sender, Signature: sign, RequestNonce: nonce, ReplyFlag: replyFlag}",
  "encodeProto(msg proto.Message, sender []byte, signFn signFunc, nonce uint64, replyFlag bool) | bytes, err = proto.Marshal(p)",
  "encodeProto(msg proto.Message, sender []byte, signFn signFunc, nonce uint64, replyFlag bool) | if bytes, err = proto.Marshal(p); err != nil | err = errors.Errorf(\"Marshal: %w\", err)",
  "encodeProto(msg proto.Message, sender []byte, signFn signFunc, nonce uint64, replyFlag bool) | return",
  "encryptPipe(plaintext chan []byte) | out = make(chan []byte)",
  "encryptPipe(plaintext chan []byte) | go func | defer close(out)",
  "encryptPipe(plaintext chan []byte) | go func | for | case <-c.ctx.Done() | return",
  "encryptPipe(plaintext chan []byte) | go func | for | case text, ok := <-plaintext | if ok | block, err = aes.NewCipher(c.dhKey)",
  "encryptPipe(plaintext chan []byte) | go func | for | case text, ok := <-plaintext | if ok | if block, err = aes.NewCipher(c.dhKey); err != nil | c.reportError(errors.Errorf(\"client encryptPipe: %w\", err))",
  "encryptPipe(plaintext chan []byte) | go func | for | case text, ok := <-plaintext | if ok | if block, err = aes.NewCipher(c.dhKey); err != nil | continue",
  "encryptPipe(plaintext chan []byte) | go func | for | case text, ok := <-plaintext | if ok | aesgcm, err = cipher.NewGCM(block)",
  "encryptPipe(plaintext chan []byte) | go func | for | case text, ok := <-plaintext | if ok | if aesgcm, err = cipher.NewGCM(block); err != nil | c.reportError(errors.Errorf(\"client encryptPipe: %w\", err))",
  "encryptPipe(plaintext chan []byte) | go func | for | case text, ok := <-plaintext | if ok | if aesgcm, err = cipher.NewGCM(block); err != nil | continue",
  "encryptPipe(plaintext chan []byte) | go func | for | case text, ok := <-plaintext | if ok | result = aesgcm.Seal(nil, c.dhNonce, text, nil)",
  "encryptPipe(plaintext chan []byte) | go func | for | case <-c.ctx.Done() | (empty)",
  "encryptPipe(plaintext chan []byte) | go func | for | case out <- result | (empty)",
  "encryptPipe(plaintext chan []byte) | return out",
  "reportMsg(msg P2PMessage) | case <-c.ctx.Done() | (empty)",
  "reportMsg(msg P2PMessage) | case c.peerFeed <- msg | (empty)",
  "handShake(ctx context.Context) | return utils.MergeErrors(ctx, c.sendID(ctx), c.receiveID(ctx))",
  "sendID(ctx context.Context) | errc = make(chan error)",
  "sendID(ctx context.Context) | go func | defer close(errc)",
  "sendID(ctx context.Context) | go func | pubKeyBytes, err = c.localPubKey.MarshalBinary()",
  "sendID(ctx context.Context) | go func | if pubKeyBytes, err = c.localPubKey.MarshalBinary(); err != nil | utils.ReportError(ctx, errc, errors.Errorf(\"MarshalBinary: %w\", err))",
  "sendID(ctx context.Context) | go func | if pubKeyBytes, err = c.localPubKey.MarshalBinary(); err != nil | return",
  "sendID(ctx context.Context) | go func | pID := &ID{PublicKey: pubKeyBytes, Id: c.localID}",
  "sendID(ctx context.Context) | go func | bytes, err = encodeProto(pID, c.localID, nil, 0, false)",
  "sendID(ctx context.Context) | go func | if bytes, err = encodeProto(pID, c.localID, nil, 0, false); err != nil | utils.ReportError(ctx, errc, errors.Errorf(\"encodeProto: %w\", err))",
  "sendID(ctx context.Context) | go func | err = writeTo(bytes, c.conn)",
  "sendID(ctx context.Context) | go func | if err = writeTo(bytes, c.conn); err != nil | utils.ReportError(ctx, errc, errors.Errorf(\"writeTo: %w\", err))",
  "sendID(ctx context.Context) | go func | return",
  "sendID(ctx context.Context) | return",
  "receiveID(ctx context.Context) | errc = make(chan error)",
  "receiveID(ctx context.Context) | go func | defer close(errc)",
  "receiveID(ctx context.Context) | go func | buffer, err := readFrom(c.conn)",
  "receiveID(ctx context.Context) | go func | if err != nil | utils.ReportError(ctx, errc, errors.Errorf(\"readFrom %s : %w\", c.conn.RemoteAddr().String(), err))",
  "receiveID(ctx context.Context) | go func | if err != nil | return",
  "receiveID(ctx context.Context) | go func | _, ptr, err := decodeBytes(buffer, nil)",
  "receiveID(ctx context.Context) | go func | if err != nil | utils.ReportError(ctx, errc, errors.Errorf(\"decodeBytes: %w\", err))",
  "receiveID(ctx context.Context) | go func | if err != nil | return",
  "receiveID(ctx context.Context) | go func | id, ok := ptr.Message.(*ID)",
  "receiveID(ctx context.Context) | go func | if !ok | err = errors.Errorf(\"ID casting: %w\", ErrCasting)",
  "receiveID(ctx context.Context) | go func | if !ok | utils.ReportError(ctx, errc, err)",
  "receiveID(ctx context.Context) | go func | if !ok | return",
  "receiveID(ctx context.Context) | go func | c.remoteID = id.GetId()",
  "receiveID(ctx context.Context) | go func | if string(c.remoteID) == string(c.localID) | err = errors.Errorf(\"remoteID %b != localID %b: %w\", c.remoteID, c.localID, ErrDuplicateID)",
  "receiveID(ctx context.Context) | go func | if string(c.remoteID) == string(c.localID) | utils.ReportError(ctx, errc, errors.Errorf(\"client : %w\", err))",
  "receiveID(ctx context.Context) | go func | if c.remoteID == nil | err = errors.Errorf(\"remoteID is nil: %w\", ErrNoRemoteID)",
  "receiveID(ctx context.Context) | go func | pub := c.suite.G2().Point()",
  "receiveID(ctx context.Context) | go func | err = pub.UnmarshalBinary(id.GetPublicKey())",
  "receiveID(ctx context.Context) | go func | if err = pub.UnmarshalBinary(id.GetPublicKey()); err != nil | utils.ReportError(ctx, errc, errors.Errorf(\"UnmarshalBinary: %w\", err))",
  "receiveID(ctx context.Context) | go func | if err = pub.UnmarshalBinary(id.GetPublicKey()); err != nil | return",
  "receiveID(ctx context.Context) | go func | c.remotePubKey = pub",
  "receiveID(ctx context.Context) | go func | dhKey := c.suite.Point().Mul(c.localSecKey, c.remotePubKey)",
  "receiveID(ctx context.Context) | go func | dhBytes, err = dhKey.MarshalBinary()",
  "receiveID(ctx context.Context) | go func | if dhBytes, err = dhKey.MarshalBinary(); err != nil | utils.ReportError(ctx, errc, errors.Errorf(\"MarshalBinary: %w\", err))",
  "receiveID(ctx context.Context) | go func | if dhBytes, err = dhKey.MarshalBinary(); err != nil | return",
  "receiveID(ctx context.Context) | go func | if len(dhBytes) < 44 | utils.ReportError(ctx, errc, errors.New(\"remote public key is the point at infinity\"))",
  "receiveID(ctx context.Context) | go func | if len(dhBytes) < 44 | return",
  "receiveID(ctx context.Context) | go func | c.dhKey = dhBytes[0:32]",
  "receiveID(ctx context.Context) | go func | c.dhNonce = dhBytes[32:44]",
  "receiveID(ctx context.Context) | go func | return",
  "receiveID(ctx context.Context) | return"] := by rfl

/-- regenerated fact: `client.run` keeps `errc` drained (the repair of the stall after a second
rejected frame); theorem 4 is stated for the code's own value of the switch -/
theorem c16_errors_drained : Gen.runKeepsDrainingErrors = true := by decide

/-- **1. delivered ⇒ sent BY THE REMOTE ENDPOINT, byte for byte — PARTIAL: for the man in the middle
who cannot make a valid GCM tag (`Derivable`, ideal AEAD).  The code's AEAD is NOT ideal (one nonce for
every frame): for the adversary the code really faces (`DerivableGCM`) the statement is `C16_full`
below, which is REFUTED (`gcm_nonce_reuse_forgery`, known finding, replayed on the real nodes by the
`gcm` cases); what survives is `delivered_payload_was_signed_partial`.**  `sent` is what the remote endpoint
sent on this connection, `own` what the receiver itself sent on it (packed with its own key, which
differs from the remote one).  Whatever sequence `wire` the man in the middle puts on the connection —
including the receiver's own frames bounced back — every message the receiver delivers is the
delivery of a frame of `sent` (same type, same value bytes, same sender, nonce and flag). -/
theorem delivered_was_sent_partial (c : Conn) (hne : c.self ≠ c.pk) (sent own wire : List Frame)
    (hown : OwnPacked c own) (hmitm : ∀ f ∈ wire, Derivable c.k sent own f) :
    ∀ d ∈ (recvAll c wire).out, ∃ f ∈ sent, recvFrame c f = .deliver d := by
  intro d hd
  rcases foldl_out c wire {} d hd with h | ⟨f, hf, hdel⟩
  · simp at h
  · by_cases hs : f ∈ sent
    · exact ⟨f, hs, hdel⟩
    · exact absurd hdel (forged_not_delivered c hne sent own hown f (hmitm f hf) hs d)

/-- … so when the remote endpoint is honest (it packed the messages `ms` with the key it presented in
the handshake) every delivery IS one of the messages the REMOTE endpoint packed — never one the
receiver packed itself: same type and the very same bytes. -/
theorem delivered_was_packed_partial (c : Conn) (hne : c.self ≠ c.pk) (sender : Bytes)
    (ms : List (Msg × Nat × Bool)) (own wire : List Frame) (hown : OwnPacked c own)
    (hmitm : ∀ f ∈ wire, Derivable c.k (ms.map fun m => pack c.pk c.k sender m.1 m.2.1 m.2.2) own f) :
    ∀ d ∈ (recvAll c wire).out, ∃ m ∈ ms, d = delivered sender m.1 m.2.1 m.2.2 := by
  intro d hd
  obtain ⟨f, hf, hdel⟩ := delivered_was_sent_partial c hne _ own wire hown hmitm d hd
  obtain ⟨m, hm, rfl⟩ := List.mem_map.mp hf
  refine ⟨m, hm, ?_⟩
  rw [recvFrame_deliver] at hdel
  obtain ⟨p, a, hp, ha, _, _, _, rfl⟩ := hdel
  simp only [pack, Frame.sealed.injEq, Plain.pkg.injEq, true_and] at hp
  subst hp
  simp only [Option.some.injEq] at ha
  subst ha
  rfl

/-- **The full statement of clause 1 for the man in the middle THE CODE faces** (`DerivableGCM`: after two
frames of the connection he can put a valid seal on any plaintext that contains no BLS signature he has
not seen — AES-GCM under the connection's single nonce): every delivery is one of the messages the
honest remote endpoint packed, same type, bytes, sender, nonce and flag. -/
def C16_full : Prop :=
  ∀ (c : Conn), c.self ≠ c.pk → ∀ (sender : Bytes) (ms : List (Msg × Nat × Bool)) (own wire : List Frame),
    OwnPacked c own →
    (∀ f ∈ wire, DerivableGCM c.k (ms.map fun m => pack c.pk c.k sender m.1 m.2.1 m.2.2) own f) →
    ∀ d ∈ (recvAll c wire).out, ∃ m ∈ ms, d = delivered sender m.1 m.2.1 m.2.2

/-- **KNOWN FINDING gcm-nonce-reuse-forgery — negation witness.**  The remote endpoint packs Ping{7} twice
(nonces 0 and 1); the man in the middle, holding no key, seals the same payload and signature as a
message of type 1 (Pong) with request nonce 99: the receiver delivers it — a message nobody sent.
(The BLS signature covers the value bytes only; type URL, nonce, reply flag and sender are protected by
the AEAD alone.)  Replayed on two real nodes at every run: `gcm P`, `gcm N,C`, `gcm P,B,N`. -/
theorem gcm_nonce_reuse_forgery : ¬ C16_full := by
  intro h
  have hd := h (theConn true) (by decide) [65] [(⟨0, [7]⟩, 0, false), (⟨0, [7]⟩, 1, false)] []
    [.sealed 1 (.pkg { any := some { typ := 1, value := [7] }, sig := .good 7 [7], sender := [65], nonce := 99 })]
    (by intro f hf; simp at hf)
    (by
      intro f hf
      simp only [List.mem_singleton] at hf
      subst hf
      refine DerivableGCM.forged ⟨pack 7 1 [65] ⟨0, [7]⟩ 0 false, pack 7 1 [65] ⟨0, [7]⟩ 1 false, by simp [theConn], by simp [theConn], by decide, by decide, by decide⟩ ?_
      exact ⟨1, { any := some { typ := 0, value := [7], wf := true }, sig := .good 7 [7], sender := [65], nonce := 0, reply := false }, by simp [theConn, pack], rfl⟩)
    { typ := 1, value := [7], sender := [65], nonce := 99, reply := false } (by decide)
  obtain ⟨m, hm, he⟩ := hd
  simp only [List.mem_cons, List.not_mem_nil, or_false] at hm
  rcases hm with rfl | rfl <;> simp [delivered] at he

example : recvFrame (theConn true)
    (.sealed 1 (.pkg { any := some { typ := 1, value := [7] }, sig := .good 7 [7], sender := [65], nonce := 99 })) =
    .deliver { typ := 1, value := [7], sender := [65], nonce := 99, reply := false } := by decide

/-- **1′. what survives under the code's AEAD — PARTIAL: the PAYLOAD is authentic.**  For the man in the
middle the code faces (`DerivableGCM`), with an honest remote endpoint: the value bytes of every
delivered message are, byte for byte, the value bytes of a message the remote endpoint packed and
signed on this connection (the BLS check under the handshake key is what gives this; a reflected own
frame's signature is the receiver's own).  NOT guaranteed, and violated by the witness above: that
the type, the request nonce, the reply flag and the sender are those of that message, and that it
is delivered once. -/
theorem delivered_payload_was_signed_partial (c : Conn) (hne : c.self ≠ c.pk) (sender : Bytes)
    (ms : List (Msg × Nat × Bool)) (own wire : List Frame) (hown : OwnPacked c own)
    (hmitm : ∀ f ∈ wire, DerivableGCM c.k (ms.map fun m => pack c.pk c.k sender m.1 m.2.1 m.2.2) own f) :
    ∀ d ∈ (recvAll c wire).out, ∃ m ∈ ms, d.value = m.1.value := by
  intro d hd
  rcases foldl_out c wire {} d hd with h | ⟨f, hf, hdel⟩
  · simp at h
  · cases hmitm f hf with
    | ideal hi =>
      by_cases hs : f ∈ ms.map fun m => pack c.pk c.k sender m.1 m.2.1 m.2.2
      · obtain ⟨m, hm, rfl⟩ := List.mem_map.mp hs
        refine ⟨m, hm, ?_⟩
        rw [recvFrame_deliver] at hdel
        obtain ⟨p, a, hp, ha, _, _, _, rfl⟩ := hdel
        simp only [pack, Frame.sealed.injEq, Plain.pkg.injEq, true_and] at hp
        subst hp
        simp only [Option.some.injEq] at ha
        subst ha
        rfl
      · exact absurd hdel (forged_not_delivered c hne _ own hown f hi hs d)
    | forged _ hk =>
      rw [recvFrame_deliver] at hdel
      obtain ⟨p, a, hp, ha, hsig, _, _, rfl⟩ := hdel
      simp only [Frame.sealed.injEq, true_and] at hp
      subst hp
      simp only [KnownPlain, hsig] at hk
      obtain ⟨k', q, hq, hqs⟩ := hk
      rcases List.mem_append.mp hq with h1 | h1
      · obtain ⟨m, hm, he⟩ := List.mem_map.mp h1
        refine ⟨m, hm, ?_⟩
        simp only [pack, Frame.sealed.injEq, Plain.pkg.injEq] at he
        obtain ⟨_, rfl⟩ := he
        simp only [Sig.good.injEq] at hqs
        exact hqs.2.symm
      · obtain ⟨sd, m, n, r, he⟩ := hown _ h1
        simp only [pack, Frame.sealed.injEq, Plain.pkg.injEq] at he
        obtain ⟨_, rfl⟩ := he
        simp only [Sig.good.injEq] at hqs
        exact absurd hqs.1 hne

example : DerivableGCM 1 [pack 7 1 [65] ⟨0, [7]⟩ 0 false, pack 7 1 [65] ⟨0, [7]⟩ 1 false] []
    (.sealed 1 (.pkg { any := some { typ := 1, value := [7] }, sig := .good 7 [7], sender := [65], nonce := 99 })) :=
  .forged ⟨pack 7 1 [65] ⟨0, [7]⟩ 0 false, pack 7 1 [65] ⟨0, [7]⟩ 1 false, by simp, by simp, by decide, by decide, by decide⟩
    ⟨1, { any := some { typ := 0, value := [7], wf := true }, sig := .good 7 [7], sender := [65], nonce := 0, reply := false }, by simp [pack], rfl⟩

/-- **1b. reflection**: a frame the receiver sent itself, bounced back by the man in the middle, opens
under the session key (both directions share key and nonce) and is rejected ONLY by the signature
check: it carries the receiver's own signature and is verified under the remote handshake key. -/
theorem reflected_not_delivered (c : Conn) (hne : c.self ≠ c.pk) (sender : Bytes) (m : Msg)
    (nonce : Nat) (reply : Bool) :
    recvFrame c (pack c.self c.k sender m nonce reply) = .err .sig :=
  recvFrame_reflected c hne sender m nonce reply

/-- … and that check is what does it: the same frame WOULD be delivered by a receiver that verified
under its own key (the signature check is load-bearing for theorem 1) -/
theorem reflection_needs_the_remote_key (c : Conn) (sender : Bytes) (m : Msg) (nonce : Nat)
    (hk : c.known m.typ = true) :
    recvFrame { c with pk := c.self } (pack c.self c.k sender m nonce false) =
      .deliver (delivered sender m nonce false) :=
  recvFrame_pack { c with pk := c.self } sender m nonce false hk

/-- **2a. tampered frames are errors, not deliveries — PARTIAL (ideal AEAD, see 1)**: a byte string that is not a Seal output under
the session key (flipped, truncated, duplicated-and-altered, injected), a frame sealed under any
other key, damaged framing, a reflected frame — each is an `err` outcome: no delivery, no panic. -/
theorem tampered_not_delivered_partial (c : Conn) (hne : c.self ≠ c.pk) (sent own : List Frame)
    (hown : OwnPacked c own) (f : Frame)
    (hd : Derivable c.k sent own f) (hnew : f ∉ sent) : ∃ e, recvFrame c f = .err e := by
  cases hd with
  | copy hm => exact absurd hm hnew
  | reflect hm =>
    obtain ⟨sender, m, nonce, reply, rfl⟩ := hown f hm
    exact ⟨.sig, recvFrame_reflected c hne sender m nonce reply⟩
  | raw n => exact ⟨.openFail, rfl⟩
  | broken => exact ⟨.framing, rfl⟩
  | otherKey hk => exact ⟨.openFail, by simp [recvFrame, hk]⟩

/-- … and it leaves the list of delivered messages exactly as it was -/
theorem tampered_changes_nothing_delivered (c : Conn) (hne : c.self ≠ c.pk) (sent own : List Frame)
    (hown : OwnPacked c own) (f : Frame) (st : RState)
    (hd : Derivable c.k sent own f) (hnew : f ∉ sent) : (rstep c st f).out = st.out := by
  rcases rstep_out c st f with h | ⟨d, hdel, _⟩
  · exact h
  · exact absurd hdel (forged_not_delivered c hne sent own hown f hd hnew d)

/-- **2b. a well-encrypted package whose payload signature does not verify under the key presented in
the handshake is not delivered** (wrong key, signature over other bytes, empty or junk signature —
also when the sender holds the session key). -/
theorem bad_signature_not_delivered (c : Conn) (p : Pkg) (a : Any)
    (ha : p.any = some a) (hs : p.sig ≠ .good c.pk a.value) :
    recvFrame c (.sealed c.k (.pkg p)) = .err .sig := by
  simp [recvFrame, ha, hs]

/-- **2c. nothing a peer or a man in the middle sends makes the receiving pipeline panic** (with the
nil check on Anything that the code has, see `c16_code_shape`). -/
theorem recv_never_panics (c : Conn) (hc : c.checkAny = Gen.decodeChecksAnything) (f : Frame) (site : String) :
    recvFrame c f ≠ .panic site := by
  have hc' : c.checkAny = true := by rw [hc]; decide
  cases f with
  | broken => simp [recvFrame]
  | raw n => simp [recvFrame]
  | sealed k' pt =>
    unfold recvFrame
    by_cases hk : k' = c.k
    · subst hk
      simp only [ne_eq, not_true_eq_false, if_false]
      cases pt with
      | empty => simp
      | junk n => simp
      | pkg p =>
        simp only
        cases ha : p.any with
        | none => simp [hc']
        | some a => simp only; split <;> (try split) <;> (try split) <;> simp
    · simp [hk]

/-- and the connection state never becomes `crashed`, whatever arrives -/
theorem receiver_survives (c : Conn) (hc : c.checkAny = Gen.decodeChecksAnything) (wire : List Frame) :
    (recvAll c wire).crashed = false := by
  have key : ∀ (fs : List Frame) (st : RState), st.crashed = false → (fs.foldl (rstep c) st).crashed = false := by
    intro fs
    induction fs with
    | nil => intro st h; exact h
    | cons f fs ih =>
      intro st h
      apply ih
      unfold rstep
      by_cases hs : st.stalled = true ∨ st.crashed = true
      · rw [if_pos hs]; exact h
      · rw [if_neg hs]
        cases hr : recvFrame c f with
        | deliver d => exact h
        | skip => exact h
        | panic s => exact absurd hr (recv_never_panics c hc f s)
        | err e => simp only; split <;> (try split) <;> exact h
  exact key wire {} rfl

/-- **3. honest transport: each message exactly once, in order, to the subscriber of its type.**
With the identity transformer the delivered list IS the sent list (so: no loss, no duplicate, same
order), no error is raised, and the subscriber of type `t` gets exactly the non-reply messages of type
`t`, in the order they were sent. -/
theorem honest_once (c : Conn) (sender : Bytes) (ms : List (Msg × Nat × Bool))
    (hk : ∀ m ∈ ms, c.known m.1.typ = true) :
    (recvAll c (ms.map fun m => pack c.pk c.k sender m.1 m.2.1 m.2.2)).out =
        ms.map (fun m => delivered sender m.1 m.2.1 m.2.2) ∧
    (recvAll c (ms.map fun m => pack c.pk c.k sender m.1 m.2.1 m.2.2)).errs = 0 ∧
    ∀ t, toSubscriber t (recvAll c (ms.map fun m => pack c.pk c.k sender m.1 m.2.1 m.2.2)).out =
        ((ms.filter fun m => m.1.typ = t ∧ m.2.2 = false).map fun m => delivered sender m.1 m.2.1 m.2.2) := by
  have h := recvAll_honest c sender ms {} rfl rfl hk
  unfold recvAll
  rw [h]
  refine ⟨by simp, rfl, ?_⟩
  intro t
  simp only [List.nil_append, toSubscriber, List.filter_map]
  congr 1

/-- **4. junk does not cost honest frames their delivery.**  With `errc` drained (the code's own value,
`c16_errors_drained`) and as long as the man in the middle does not damage the framing itself, he may
interleave the remote endpoint's frames with any number of injected, altered, duplicated, reflected
or foreign-key frames: the connection never stalls and the delivered list is exactly the deliveries
of the remote endpoint's frames that are on the wire, in wire order — every honest frame he lets
through is delivered. -/
theorem junk_does_not_block_honest (c : Conn) (hdr : c.drains = Gen.runKeepsDrainingErrors)
    (hca : c.checkAny = Gen.decodeChecksAnything) (hne : c.self ≠ c.pk) (sent own wire : List Frame)
    (hown : OwnPacked c own) (hmitm : ∀ f ∈ wire, Derivable c.k sent own f)
    (hnb : Frame.broken ∉ wire) :
    (recvAll c wire).stalled = false ∧
    (recvAll c wire).out = (wire.filter (· ∈ sent)).filterMap (fun f =>
      match recvFrame c f with
      | .deliver d => some d
      | _ => none) := by
  have hd : c.drains = true := by rw [hdr]; decide
  have hnf : ∀ f ∈ wire, recvFrame c f ≠ .err .framing ∧ ∀ s, recvFrame c f ≠ .panic s := by
    intro f hf
    refine ⟨?_, fun s => recv_never_panics c hca f s⟩
    intro h
    cases f with
    | broken => exact hnb hf
    | raw n => simp [recvFrame] at h
    | sealed k' pt =>
      unfold recvFrame at h
      by_cases hk : k' = c.k
      · subst hk
        simp only [ne_eq, not_true_eq_false, if_false] at h
        cases pt with
        | empty => simp at h
        | junk n => simp at h
        | pkg p =>
          simp only at h
          cases ha : p.any with
          | none => rw [ha] at h; simp only at h; split at h <;> simp at h
          | some a => rw [ha] at h; simp only at h; split at h <;> (try split at h) <;> (try split at h) <;> simp at h
      · simp [hk] at h
  -- frames not in `sent` contribute nothing
  have key : ∀ (w : List Frame), (∀ f ∈ w, Derivable c.k sent own f) →
      w.filterMap (fun f => match recvFrame c f with | .deliver d => some d | _ => none) =
      (w.filter (· ∈ sent)).filterMap (fun f => match recvFrame c f with | .deliver d => some d | _ => none) := by
    intro w
    induction w with
    | nil => intro _; rfl
    | cons f fs ih =>
      intro hm
      have ih' := ih (fun g hg => hm g (by simp [hg]))
      by_cases hs : f ∈ sent
      · simp only [List.filterMap_cons, List.filter_cons, hs, decide_true, if_true]
        cases recvFrame c f <;> simp [ih']
      · have hno := forged_not_delivered c hne sent own hown f (hm f (by simp)) hs
        simp only [List.filterMap_cons, List.filter_cons, hs, decide_false]
        cases hr : recvFrame c f with
        | deliver d => exact absurd hr (hno d)
        | skip => simpa using ih'
        | err e => simpa using ih'
        | panic s => simpa using ih'
  obtain ⟨h1, _, h3⟩ := recvAll_no_stall c hd wire {} rfl rfl hnf
  refine ⟨h1, ?_⟩
  unfold recvAll
  rw [h3]
  simp only [List.nil_append]
  exact key wire hmitm

/-- observation, not a violation of the property as stated (its catalogue has no verbatim replay):
the GCM nonce is fixed per connection and nothing in a package is fresh, so a frame replayed
verbatim is delivered again — and by theorem 1 it is still a message the remote endpoint sent. -/
theorem replay_delivered_again (c : Conn) (sender : Bytes) (m : Msg) (n : Nat) (hk : c.known m.typ = true) :
    (recvAll c [pack c.pk c.k sender m n false, pack c.pk c.k sender m n false]).out =
      [delivered sender m n false, delivered sender m n false] := by
  have := recvAll_honest c sender [(m, n, false), (m, n, false)] {} rfl rfl (by simp [hk])
  unfold recvAll
  simpa using congrArg RState.out this

/-! non-vacuity -/
def demoConn : Conn := theConn true
def m0 : Msg := ⟨0, [1, 2, 3]⟩
def m2 : Msg := ⟨2, [9]⟩

example : (recvAll demoConn [pack 7 1 [65] m0 0 false, .raw 5, pack 7 1 [65] m2 1 false]).out =
    [delivered [65] m0 0 false, delivered [65] m2 1 false] := by decide
example : Derivable 1 [pack 7 1 [65] m0 0 false] [] (.raw 5) ∧ (.raw 5 : Frame) ∉ [pack 7 1 [65] m0 0 false] :=
  ⟨.raw 5, by decide⟩
example : demoConn.self ≠ demoConn.pk ∧ OwnPacked demoConn [pack 8 1 [66] m2 4 false] :=
  ⟨by decide, fun f hf => ⟨[66], m2, 4, false, by
    have : f = pack 8 1 [66] m2 4 false := by simpa using hf
    rw [this]; rfl⟩⟩
example : recvFrame demoConn (pack 8 1 [66] m2 4 false) = .err .sig := by decide
example : (recvAll demoConn [.raw 1, .raw 2, pack 8 1 [66] m2 4 false, pack 7 1 [] m0 0 false]).out =
    [delivered [] m0 0 false] := by decide
example : recvFrame demoConn (.sealed 1 (.pkg { any := some ⟨0, [1], true⟩, sig := .good 8 [1] })) = .err .sig := by
  decide
example : recvFrame demoConn (.sealed 1 (.pkg { any := none, sig := .bad 0 })) = .err .noAny := by decide
example : recvFrame (theConn false) (.sealed 1 (.pkg { any := none, sig := .bad 0 })) =
    .panic "decodeBytes: pa.GetAnything().Value" := by decide
/-- the defect that was there: with `errc` not drained two rejected frames stalled the connection -/
example : (recvAll (theConn true false) [.raw 1, pack 7 1 [] m0 0 false, .raw 2, pack 7 1 [] m2 1 false]).out =
    [delivered [] m0 0 false] ∧
    (recvAll (theConn true false) [.raw 1, pack 7 1 [] m0 0 false, .raw 2, pack 7 1 [] m2 1 false]).stalled = true := by
  decide
example : (recvAll demoConn [.raw 1, pack 7 1 [] m0 0 false, .raw 2, pack 7 1 [] m2 1 false]).out =
    [delivered [] m0 0 false, delivered [] m2 1 false] := by decide

/-! ### 5. across connections

`Model/ConnSym.lean`: the server-level connection state machine (`Model/ConnTable.lean`: dial, accept, the two
tables, connection end, DisConnectTo, restart — every connection with the session key and the two signing keys it
got when it was made) together with the receiving pipeline of BOTH ends of EVERY connection.  The man in the
middle may put on any connection, at any time, any frame that either end of ANY connection — past or present,
between the same two nodes or not — ever packed (`AdvCan.seen`: record on one connection, inject into another, in
either direction), plus everything the single-connection theorems allow.  Quantified over every history of
connection-table events, packed messages and such arrivals. -/

open Dos.ConnSym in
/-- regenerated facts: `newClient` draws the key pair of a connection itself (no key material is handed to it
by `Listen` / `handleCallReq`), `sendID` presents it, `receiveID` derives the AES key and GCM nonce from it and
the presented key — the model allocates fresh keys per connection exactly when this holds. -/
theorem c16_keys_per_connection : ConnTable.Cfg.code.keyPerConn = true := by decide

open Dos.ConnSym in
/-- **5a. every connection has its own keys**: in every history, two different connections have different
session keys, and the two ends of a connection sign with different keys. -/
theorem keys_differ_across_connections (ideal : Nat → Bool) (evs : List ConnTable.Ev) (c c' : Nat) :
    let s := ConnTable.run ConnTable.Cfg.code (ConnTable.init ideal) evs
    c < s.nconn → c' < s.nconn → c ≠ c' →
      (s.conns c).key ≠ (s.conns c').key ∧ (s.conns c).skD ≠ (s.conns c).skA := by
  intro s hc hc' hne
  have hK : ConnTable.KeyInv s := by
    have : ∀ (evs : List ConnTable.Ev) (s0 : ConnTable.Net), ConnTable.KeyInv s0 →
        ConnTable.KeyInv (ConnTable.run ConnTable.Cfg.code s0 evs) := by
      intro evs
      induction evs with
      | nil => intro s0 h; exact h
      | cons e es ih => intro s0 h; exact ih _ (ConnTable.step_keyInv _ c16_keys_per_connection h e)
    exact this evs _ (ConnTable.KeyInv.init ideal)
  have k1 := hK.keys c hc
  have k2 := hK.keys c' hc'
  rw [k1.1, k2.1, k1.2.1, k1.2.2]
  exact ⟨by omega, by omega⟩

open Dos.ConnSym in
/-- **5b. delivered ⇒ sent by the remote endpoint ON THAT CONNECTION**, whatever is replayed from wherever — PARTIAL
in the sense of theorem 1: `ConnSym.AdvCan` is the man in the middle who cannot make a valid GCM tag (ideal AEAD); the
forging adversary of `DerivableGCM` (known finding gcm-nonce-reuse-forgery) has not been carried over to the
across-connections model, where it would weaken this statement to payload authenticity in the same way: in
every valid history, every message delivered at an end of connection `c` is the delivery of a frame that the OTHER
end of the SAME connection packed. -/
theorem delivered_on_its_connection (ideal : Nat → Bool) (ca dr : Bool) (evs : List SEv)
    (hv : Valid ConnTable.Cfg.code ca dr { net := ConnTable.init ideal } evs) (c : Nat) (d : Bool) (dl : Delivery)
    (h : dl ∈ ((srun ConnTable.Cfg.code ca dr { net := ConnTable.init ideal } evs).rs c d).out) :
    ∃ f, f ∈ (srun ConnTable.Cfg.code ca dr { net := ConnTable.init ideal } evs).sent c (!d) ∧
      recvFrame (view ca dr ((srun ConnTable.Cfg.code ca dr { net := ConnTable.init ideal } evs).net.conns c) d) f = .deliver dl :=
  (srun_inv _ c16_keys_per_connection ca dr (SInv.init ca dr ideal) evs hv).out c d dl h

open Dos.ConnSym in
/-- **5c. cross-connection replay / injection is rejected**: in every valid history, a frame that an end of
connection `c` packed is an ERROR outcome (the AEAD does not open) at either end of any other connection `c'` —
no delivery, no panic. -/
theorem cross_connection_replay_rejected (ideal : Nat → Bool) (ca dr : Bool) (evs : List SEv)
    (hv : Valid ConnTable.Cfg.code ca dr { net := ConnTable.init ideal } evs) (c c' : Nat) (d d' : Bool) (f : Frame) :
    let s := srun ConnTable.Cfg.code ca dr { net := ConnTable.init ideal } evs
    f ∈ s.sent c d → c' < s.net.nconn → c' ≠ c →
      recvFrame (view ca dr (s.net.conns c') d') f = .err .openFail := by
  intro s hf hc' hne
  have hS := srun_inv _ c16_keys_per_connection ca dr (SInv.init ca dr ideal) evs hv
  obtain ⟨hc, m, nonce, reply, hfe⟩ := hS.sent c d f hf
  have k1 := (hS.keys.keys c hc).1
  have k2 := (hS.keys.keys c' hc').1
  have hk : (s.net.conns c).key ≠ (s.net.conns c').key := by rw [k1, k2]; omega
  rw [hfe]
  simp only [recvFrame, pack, view]
  exact if_pos hk

open Dos.ConnSym in
/-- what 5 rests on: were a connection's keys NOT its own (the node's long-term key pair wired into every
connection: same session key and nonce for every connection between two nodes, same signing key), a frame recorded
on connection 0 and injected into connection 1 between the same nodes would be delivered there. -/
theorem static_keys_admit_cross_connection_replay :
    let cfg := { ConnTable.Cfg.good with keyPerConn := false }
    let s0 := srun cfg true true {} [.tbl (.request 0 1 (some 1)), .pack 0 true ⟨0, [7]⟩ 0 false, .tbl (.cut 0),
                                      .tbl (.procRm 0 0), .tbl (.procRm 1 0), .tbl (.request 0 1 (some 1))]
    (s0.sent 0 true).length = 1 ∧
    ∀ f ∈ s0.sent 0 true, ((sstep cfg true true s0 (.wire 1 false f)).rs 1 false).out = [delivered [] ⟨0, [7]⟩ 0 false] := by
  decide

/-! non-vacuity of section 5: node 0 sends on connection 0, the connection is cut, it sends on connection 1, and
the man in the middle injects the frame of connection 0 into connection 1 (towards node 1) and reflects it to node 0 -/
def crossDemo : List Dos.ConnSym.SEv :=
  [.tbl (.request 0 1 (some 1)), .pack 0 true ⟨0, [7]⟩ 0 false,
   .wire 0 false (pack 2 1 [] ⟨0, [7]⟩ 0 false),
   .tbl (.cut 0), .tbl (.procRm 0 0), .tbl (.procRm 1 0),
   .tbl (.request 0 1 (some 1)), .pack 1 true ⟨2, [9]⟩ 1 false,
   .wire 1 false (pack 2 1 [] ⟨0, [7]⟩ 0 false),      -- the recorded frame of connection 0, into connection 1
   .wire 1 true (pack 2 1 [] ⟨0, [7]⟩ 0 false),       -- … and to the other end
   .wire 1 false (pack 5 4 [] ⟨2, [9]⟩ 1 false)]

example : Dos.ConnSym.Valid ConnTable.Cfg.code true true {} crossDemo := by
  refine ⟨trivial, trivial, ?_, trivial, trivial, trivial, trivial, trivial, ?_, ?_, ?_, trivial⟩
  · exact .seen 0 true (by decide) (by decide)
  · exact .seen 0 true (by decide) (by decide)
  · exact .seen 0 true (by decide) (by decide)
  · exact .seen 1 true (by decide) (by decide)
example : ((Dos.ConnSym.srun ConnTable.Cfg.code true true {} crossDemo).rs 0 false).out = [delivered [] ⟨0, [7]⟩ 0 false] := by decide
example : ((Dos.ConnSym.srun ConnTable.Cfg.code true true {} crossDemo).rs 1 false).out = [delivered [] ⟨2, [9]⟩ 1 false] ∧
    ((Dos.ConnSym.srun ConnTable.Cfg.code true true {} crossDemo).rs 1 false).errs = 1 ∧
    ((Dos.ConnSym.srun ConnTable.Cfg.code true true {} crossDemo).rs 1 true).out = [] := by decide
example : ((Dos.ConnSym.srun ConnTable.Cfg.code true true {} crossDemo).net.conns 0).key = 1 ∧
    ((Dos.ConnSym.srun ConnTable.Cfg.code true true {} crossDemo).net.conns 1).key = 4 := by decide

end Dos.Props.C16

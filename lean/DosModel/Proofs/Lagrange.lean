/-
Lagrange interpolation at zero, in the shapes the models of `share/poly.go` need:
over any field `F`, for scalars and for points of any `F`-module.
-/
import Mathlib.LinearAlgebra.Lagrange

namespace Dos.Lagrange
open Polynomial

variable {F : Type*} [Field F]

/-- `Σ_{a∈s} p(a) · Π_{b∈s, b≠a} b/(b-a) = p(0)` when `deg p < |s|`. -/
theorem finset_at_zero [DecidableEq F] (s : Finset F) (p : F[X]) (hdeg : p.degree < s.card) :
    ∑ a ∈ s, p.eval a * ∏ b ∈ s.erase a, (b / (b - a)) = p.eval 0 := by
  have h := Lagrange.eq_interpolate_of_eval_eq (s := s) (v := id) (r := fun a => p.eval a)
    (Set.injOn_id _) hdeg (fun _ _ => rfl)
  conv_rhs => rw [h]
  rw [Lagrange.interpolate_apply, eval_finsetSum]
  refine Finset.sum_congr rfl fun a _ => ?_
  rw [eval_mul, eval_C, Lagrange.basis, eval_prod]
  congr 1
  refine Finset.prod_congr rfl fun b hb => ?_
  have hne : b ≠ a := (Finset.mem_erase.1 hb).1
  have h1 : a - b ≠ 0 := sub_ne_zero.2 (Ne.symm hne)
  have h2 : b - a ≠ 0 := sub_ne_zero.2 hne
  simp only [Lagrange.basisDivisor, id, eval_mul, eval_C, eval_sub, eval_X]
  field_simp
  ring

/-- list form: the nodes are a duplicate-free list -/
theorem list_at_zero [DecidableEq F] (L : List F) (hL : L.Nodup) (p : F[X])
    (hdeg : p.degree < L.length) :
    (L.map fun a => p.eval a * ((L.filter (· ≠ a)).map (fun b => b / (b - a))).prod).sum
      = p.eval 0 := by
  have hcard : L.toFinset.card = L.length := List.toFinset_card_of_nodup hL
  rw [← finset_at_zero L.toFinset p (by rw [hcard]; exact hdeg)]
  rw [List.sum_toFinset _ hL]
  congr 1
  refine List.map_congr_left fun a _ => ?_
  congr 1
  have hf : (L.filter (· ≠ a)).Nodup := hL.filter _
  rw [← List.prod_toFinset _ hf, List.toFinset_filter]
  congr 1
  ext b
  simp [Finset.mem_erase, and_comm]

/-- product of quotients = quotient of products (the code keeps `num` and `den` apart) -/
theorem prod_div_eq {α : Type*} (l : List α) (g h : α → F) :
    (l.map g).prod * ((l.map h).prod)⁻¹ = (l.map fun a => g a / h a).prod := by
  induction l with
  | nil => simp
  | cons a l ih =>
    simp only [List.map_cons, List.prod_cons, mul_inv]
    rw [← ih]; ring

theorem prod_ne_zero_of {α : Type*} (l : List α) (h : α → F) (hne : ∀ a ∈ l, h a ≠ 0) :
    (l.map h).prod ≠ 0 := by
  induction l with
  | nil => simp
  | cons a l ih =>
    simp only [List.map_cons, List.prod_cons]
    exact mul_ne_zero (hne a (by simp)) (ih fun b hb => hne b (by simp [hb]))

/-- the shape `RecoverSecret` computes: `Σ (p(a) · Π b) / Π (b - a)` -/
theorem list_numden_at_zero [DecidableEq F] (L : List F) (hL : L.Nodup) (p : F[X])
    (hdeg : p.degree < L.length) :
    (L.map fun a => (p.eval a * ((L.filter (· ≠ a)).map id).prod)
        * (((L.filter (· ≠ a)).map (fun b => b - a)).prod)⁻¹).sum = p.eval 0 := by
  rw [← list_at_zero L hL p hdeg]
  congr 1
  refine List.map_congr_left fun a _ => ?_
  rw [mul_assoc, prod_div_eq]
  simp

/-- the interpolation polynomial itself, list form (what `RecoverPriPoly` assembles):
`Σ_a C(p(a) · Π_{b≠a} (a-b)⁻¹) · Π_{b≠a} (X - b) = p` -/
theorem list_interpolate [DecidableEq F] (L : List F) (hL : L.Nodup) (p : F[X])
    (hdeg : p.degree < L.length) :
    (L.map fun a => C (p.eval a * ((L.filter (· ≠ a)).map (fun b => (a - b)⁻¹)).prod)
        * ((L.filter (· ≠ a)).map (fun b => X - C b)).prod).sum = p := by
  have hcard : L.toFinset.card = L.length := List.toFinset_card_of_nodup hL
  have h := Lagrange.eq_interpolate_of_eval_eq (s := L.toFinset) (v := id)
    (r := fun a => p.eval a) (Set.injOn_id _) (by rw [hcard]; exact hdeg) (fun _ _ => rfl)
  conv_rhs => rw [h]
  rw [Lagrange.interpolate_apply, List.sum_toFinset _ hL]
  congr 1
  refine List.map_congr_left fun a _ => ?_
  have hf : (L.filter (· ≠ a)).Nodup := hL.filter _
  have hs : L.toFinset.erase a = (L.filter (· ≠ a)).toFinset := by
    rw [List.toFinset_filter]; ext b; simp [Finset.mem_erase, and_comm]
  rw [Lagrange.basis, hs, List.prod_toFinset _ hf]
  simp only [Lagrange.basisDivisor, id]
  rw [C_mul, mul_assoc]
  congr 1
  rw [map_list_prod, List.map_map, ← List.prod_map_mul]
  rfl

variable {G : Type*} [AddCommGroup G] [Module F G]

theorem sum_smul_const {α : Type*} (l : List α) (c : α → F) (b : G) :
    (l.map fun a => c a • b).sum = (l.map c).sum • b := by
  induction l with
  | nil => simp
  | cons a l ih => simp [ih, add_smul]

/-- the shape `RecoverCommit` computes: `Σ ((Π b) / Π (b - a)) • (p(a) • B) = p(0) • B` -/
theorem list_numden_smul_at_zero [DecidableEq F] (L : List F) (hL : L.Nodup) (p : F[X])
    (hdeg : p.degree < L.length) (B : G) :
    (L.map fun a => ((1 * ((L.filter (· ≠ a)).map id).prod)
        * (((L.filter (· ≠ a)).map (fun b => b - a)).prod)⁻¹) • (p.eval a • B)).sum
      = p.eval 0 • B := by
  rw [← list_numden_at_zero L hL p hdeg, ← sum_smul_const]
  congr 1
  refine List.map_congr_left fun a _ => ?_
  rw [smul_smul]
  congr 1
  ring

end Dos.Lagrange

/-
C20 (round 2) — from the interval analysis to the ranges of the RESULT of the ref10 scalar routines.

The abstract interpreter (kernel-evaluated, `rangeCheck f_prog lens = true`) gives, for every input:
no int64 overflow in loads, limb definitions and all carry/fold blocks, and BEFORE THE LAST TWO BLOCKS (fold of
s12, last carry pass) the state `t` has 21-bit digits s0 … s11, s12 ∈ {-1, 0} and s13 … s23 = 0 (`PreTail`).
Intervals alone cannot show that the final top limb s11 is non-negative (they give s11 ∈ [-1, 2^21]); that follows
from the VALUE:  the last two blocks map the value V = D + s12·2^252 (0 ≤ D < 2^252) to exactly V - s12·ℓ
(`htail`, by `ring` on the generated blocks), which is D (s12 = 0) or D + (ℓ - 2^252) (s12 = -1), hence in [0, ℓ);
the final limbs 0 … 10 are 21-bit digits, so s11 = ⌊V'/2^231⌋ ∈ [0, 2^21] (`final_range`).
So the result is FULLY REDUCED (< ℓ), 0 ≤ s11 ≤ 2^21 < 2^25, and the byte packing does not overflow either.
-/
import DosModel.Proofs.IntervalProg
import DosModel.Proofs.Ed25519RangesTie
import DosModel.Proofs.Ed25519Bytes

set_option exponentiation.threshold 600

namespace Dos.Ed25519
open Dos Dos.IntervalProg Dos.IntervalProg.ScProg Dos.Gen.Ed25519Sc Dos.Gen.Ed25519ScProg List

/-! ### generic facts about the analysis report -/

theorem forall₂_drop {α β : Type} {R : α → β → Prop} {l₁ : List α} {l₂ : List β} (h : Forall₂ R l₁ l₂) :
    ∀ n, Forall₂ R (l₁.drop n) (l₂.drop n) := by
  induction h with
  | nil => intro n; simp
  | cons hab hl ih =>
    intro n
    cases n with
    | zero => exact Forall₂.cons hab hl
    | succ n => simpa using ih n

theorem In.set_right {ρ : Env} {A : List Itv} (h : In ρ A) :
    ∀ (i : Nat) (j : Itv), Itv.mem (ρ.getD i 0) j → In ρ (A.set i j) := by
  induction h with
  | nil => intro i j _; simp
  | cons hab hl ih =>
    intro i j hm
    cases i with
    | zero => exact Forall₂.cons (by simpa using hm) hl
    | succ i => exact Forall₂.cons hab (ih i j (by simpa using hm))

theorem within_sound {ρ : Env} {A B : List Itv} {n : Nat} (h : In ρ A) (hw : within n A B = true) :
    ∀ i, i < n → Itv.mem (ρ.getD i 0) (B.getD i (0, 0)) := by
  intro i hi
  unfold within at hw
  rw [List.all_eq_true] at hw
  have hs := hw i (List.mem_range.mpr hi)
  unfold Itv.sub at hs
  rw [Bool.and_eq_true, decide_eq_true_eq, decide_eq_true_eq] at hs
  have hm := h.getD i
  exact ⟨Int.le_trans hs.1 hm.1, Int.le_trans hm.2 hs.2⟩

/-- what `analyse` establishes, for every content of the input arrays -/
theorem analyse_sound {p : ScProg} (arrs : List Bytes) {r : Report}
    (h : analyse p (arrs.map List.length) = some r) :
    SafeProg (enter p.raw.length p.nLoad (p.rawVals arrs)) p.loads
    ∧ In (loadW id p (p.rawVals arrs)) r.L
    ∧ SafeProg (enter p.nLoad p.nInit (loadW id p (p.rawVals arrs))) p.init
    ∧ SafeBlocks p.nCarry p.blocks (initW id p (loadW id p (p.rawVals arrs)))
    ∧ In (blocksW id p.nCarry (p.blocks.take (p.blocks.length - 2)) (initW id p (loadW id p (p.rawVals arrs)))) r.M
    ∧ limbsW id p (loadW id p (p.rawVals arrs))
        = blocksW id p.nCarry (p.blocks.drop (p.blocks.length - 2))
            (blocksW id p.nCarry (p.blocks.take (p.blocks.length - 2)) (initW id p (loadW id p (p.rawVals arrs))))
    ∧ In (limbsW id p (loadW id p (p.rawVals arrs))) r.F := by
  unfold analyse at h
  split at h
  · cases h
  · rename_i L hL
    split at h
    · cases h
    · rename_i I hI
      split at h
      · cases h
      · rename_i M hM
        split at h
        · cases h
        · rename_i F hF
          cases Option.some.inj h
          obtain ⟨s1, i1⟩ := absLoadsOf_sound arrs hL
          obtain ⟨s2, i2⟩ := absInit_sound i1 hI
          obtain ⟨s3, i3⟩ := absBlocks_sound _ i2 hM
          obtain ⟨s4, i4⟩ := absBlocks_sound _ i3 hF
          have e : limbsW id p (loadW id p (p.rawVals arrs))
              = blocksW id p.nCarry (p.blocks.drop (p.blocks.length - 2))
                  (blocksW id p.nCarry (p.blocks.take (p.blocks.length - 2)) (initW id p (loadW id p (p.rawVals arrs)))) := by
            rw [← blocksW_append, List.take_append_drop]; rfl
          refine ⟨s1, i1, s2, ?_, i3, e, ?_⟩
          · have := (safeBlocks_append (p.blocks.take (p.blocks.length - 2)) (p.blocks.drop (p.blocks.length - 2)) _).mpr ⟨s3, s4⟩
            rwa [List.take_append_drop] at this
          · rw [e]; exact i4

/-! ### the state before the last two blocks, and the value argument -/

/-- s0 … s11 are 21-bit digits, s12 ∈ {-1, 0}, s13 … s23 vanish -/
def PreTail (t : L24) : Prop :=
  (0 ≤ t.s0 ∧ t.s0 ≤ 2097151) ∧ (0 ≤ t.s1 ∧ t.s1 ≤ 2097151) ∧ (0 ≤ t.s2 ∧ t.s2 ≤ 2097151) ∧ (0 ≤ t.s3 ∧ t.s3 ≤ 2097151) ∧ (0 ≤ t.s4 ∧ t.s4 ≤ 2097151) ∧ (0 ≤ t.s5 ∧ t.s5 ≤ 2097151) ∧ (0 ≤ t.s6 ∧ t.s6 ≤ 2097151) ∧ (0 ≤ t.s7 ∧ t.s7 ≤ 2097151) ∧ (0 ≤ t.s8 ∧ t.s8 ≤ 2097151) ∧ (0 ≤ t.s9 ∧ t.s9 ≤ 2097151) ∧ (0 ≤ t.s10 ∧ t.s10 ≤ 2097151) ∧ (0 ≤ t.s11 ∧ t.s11 ≤ 2097151) ∧ (-1 ≤ t.s12 ∧ t.s12 ≤ 0) ∧ t.s13 = 0 ∧ t.s14 = 0 ∧ t.s15 = 0 ∧ t.s16 = 0 ∧ t.s17 = 0 ∧ t.s18 = 0 ∧ t.s19 = 0 ∧ t.s20 = 0 ∧ t.s21 = 0 ∧ t.s22 = 0 ∧ t.s23 = 0

theorem preTail_of {m : Env} {M : List Itv} (hin : In m M) (hw : within 24 M tailPre = true) : PreTail (toL24 m) := by
  have h := within_sound hin hw
  exact ⟨h 0 (by decide), h 1 (by decide), h 2 (by decide), h 3 (by decide), h 4 (by decide), h 5 (by decide), h 6 (by decide), h 7 (by decide), h 8 (by decide), h 9 (by decide), h 10 (by decide), h 11 (by decide), h 12 (by decide), Int.le_antisymm (h 13 (by decide)).2 (h 13 (by decide)).1, Int.le_antisymm (h 14 (by decide)).2 (h 14 (by decide)).1, Int.le_antisymm (h 15 (by decide)).2 (h 15 (by decide)).1, Int.le_antisymm (h 16 (by decide)).2 (h 16 (by decide)).1, Int.le_antisymm (h 17 (by decide)).2 (h 17 (by decide)).1, Int.le_antisymm (h 18 (by decide)).2 (h 18 (by decide)).1, Int.le_antisymm (h 19 (by decide)).2 (h 19 (by decide)).1, Int.le_antisymm (h 20 (by decide)).2 (h 20 (by decide)).1, Int.le_antisymm (h 21 (by decide)).2 (h 21 (by decide)).1, Int.le_antisymm (h 22 (by decide)).2 (h 22 (by decide)).1, Int.le_antisymm (h 23 (by decide)).2 (h 23 (by decide)).1⟩

theorem ell_int : (ell : Int) = 7237005577332262213973186563042994240857116359379907606001950938285454250989 := by
  decide

theorem digits12_bound (x0 x1 x2 x3 x4 x5 x6 x7 x8 x9 x10 x11 : Int) (h0 : 0 ≤ x0 ∧ x0 ≤ 2097151) (h1 : 0 ≤ x1 ∧ x1 ≤ 2097151) (h2 : 0 ≤ x2 ∧ x2 ≤ 2097151) (h3 : 0 ≤ x3 ∧ x3 ≤ 2097151) (h4 : 0 ≤ x4 ∧ x4 ≤ 2097151) (h5 : 0 ≤ x5 ∧ x5 ≤ 2097151) (h6 : 0 ≤ x6 ∧ x6 ≤ 2097151) (h7 : 0 ≤ x7 ∧ x7 ≤ 2097151) (h8 : 0 ≤ x8 ∧ x8 ≤ 2097151) (h9 : 0 ≤ x9 ∧ x9 ≤ 2097151) (h10 : 0 ≤ x10 ∧ x10 ≤ 2097151) (h11 : 0 ≤ x11 ∧ x11 ≤ 2097151) :
    0 ≤ value12 x0 x1 x2 x3 x4 x5 x6 x7 x8 x9 x10 x11
    ∧ value12 x0 x1 x2 x3 x4 x5 x6 x7 x8 x9 x10 x11 ≤ 7237005577332262213973186563042994240829374041602535252466099000494570602495 := by
  simp only [value12]
  omega

/-- value of the limbs 0 … 10 -/
def low11 (x0 x1 x2 x3 x4 x5 x6 x7 x8 x9 x10 : Int) : Int :=
  x0 + x1 * 2 ^ 21 + x2 * 2 ^ 42 + x3 * 2 ^ 63 + x4 * 2 ^ 84 + x5 * 2 ^ 105
  + x6 * 2 ^ 126 + x7 * 2 ^ 147 + x8 * 2 ^ 168 + x9 * 2 ^ 189 + x10 * 2 ^ 210

theorem digits11_bound (x0 x1 x2 x3 x4 x5 x6 x7 x8 x9 x10 : Int) (h0 : 0 ≤ x0 ∧ x0 < 2097152) (h1 : 0 ≤ x1 ∧ x1 < 2097152) (h2 : 0 ≤ x2 ∧ x2 < 2097152) (h3 : 0 ≤ x3 ∧ x3 < 2097152) (h4 : 0 ≤ x4 ∧ x4 < 2097152) (h5 : 0 ≤ x5 ∧ x5 < 2097152) (h6 : 0 ≤ x6 ∧ x6 < 2097152) (h7 : 0 ≤ x7 ∧ x7 < 2097152) (h8 : 0 ≤ x8 ∧ x8 < 2097152) (h9 : 0 ≤ x9 ∧ x9 < 2097152) (h10 : 0 ≤ x10 ∧ x10 < 2097152) :
    0 ≤ low11 x0 x1 x2 x3 x4 x5 x6 x7 x8 x9 x10
    ∧ low11 x0 x1 x2 x3 x4 x5 x6 x7 x8 x9 x10 ≤ 3450873173395281893717377931138512726225554486085193277581262111899647 := by
  simp only [low11]
  omega

/-- **the value argument**: from `PreTail` before the last two blocks, the exact value they produce, and the digit
shape of the result: the result is in [0, ℓ) and its top limb in [0, 2^21] -/
theorem final_range (t r : L24) (ht : PreTail t) (hv : value r = value t - t.s12 * (ell : Int))
    (hd : Digits11 r) (hz : HiZero r) :
    0 ≤ r.s11 ∧ r.s11 ≤ 2097152 ∧ 0 ≤ value r ∧ value r < (ell : Int) := by
  obtain ⟨h0, h1, h2, h3, h4, h5, h6, h7, h8, h9, h10, h11, h12, z13, z14, z15, z16, z17, z18, z19, z20, z21, z22, z23⟩ := ht
  have hD := digits12_bound t.s0 t.s1 t.s2 t.s3 t.s4 t.s5 t.s6 t.s7 t.s8 t.s9 t.s10 t.s11 h0 h1 h2 h3 h4 h5 h6 h7 h8 h9 h10 h11
  have hvt : value t = value12 t.s0 t.s1 t.s2 t.s3 t.s4 t.s5 t.s6 t.s7 t.s8 t.s9 t.s10 t.s11 + t.s12 * 2 ^ 252 := by
    simp only [value, value12, z13, z14, z15, z16, z17, z18, z19, z20, z21, z22, z23]
    ring
  have hvr := value_of_hiZero r hz
  obtain ⟨d0, d1, d2, d3, d4, d5, d6, d7, d8, d9, d10⟩ := hd
  have hlow := digits11_bound r.s0 r.s1 r.s2 r.s3 r.s4 r.s5 r.s6 r.s7 r.s8 r.s9 r.s10 d0 d1 d2 d3 d4 d5 d6 d7 d8 d9 d10
  have hsplit : value12 r.s0 r.s1 r.s2 r.s3 r.s4 r.s5 r.s6 r.s7 r.s8 r.s9 r.s10 r.s11
      = low11 r.s0 r.s1 r.s2 r.s3 r.s4 r.s5 r.s6 r.s7 r.s8 r.s9 r.s10 + r.s11 * 2 ^ 231 := by
    simp only [value12, low11]
  rw [hvt] at hv
  rw [hvr, hsplit] at hv
  rw [hvr, hsplit, ell_int]
  rw [ell_int] at hv
  generalize value12 t.s0 t.s1 t.s2 t.s3 t.s4 t.s5 t.s6 t.s7 t.s8 t.s9 t.s10 t.s11 = D at *
  generalize low11 r.s0 r.s1 r.s2 r.s3 r.s4 r.s5 r.s6 r.s7 r.s8 r.s9 r.s10 = lo at *
  omega

/-! ### one routine: everything the check gives -/

/-- For a routine whose data `p` is tied block by block to the generated block functions `fs`, whose last two
blocks change the value by exactly `-s12·ℓ`, and whose result has digit shape: if the kernel-evaluated
`rangeCheck` succeeds for the lengths of the input arrays, then nothing overflows anywhere (`SafeFrom`), the result
is in [0, ℓ) and its top limb in [0, 2^21]. -/
theorem routine_ranges {p : ScProg} {fs : List (Shr → L24 → L24)}
    (htie : Forall₂ (BlockTie p.nCarry) fs p.blocks)
    (htail : ∀ st : L24, value (runBlocks shrI (fs.drop (fs.length - 2)) st) = value st - st.s12 * (ell : Int))
    (arrs : List Bytes) (hchk : rangeCheck p (arrs.map List.length) = true)
    (hd : Digits11 (toL24 (limbsW id p (loadW id p (p.rawVals arrs)))))
    (hz : HiZero (toL24 (limbsW id p (loadW id p (p.rawVals arrs))))) :
    p.SafeFrom (p.rawVals arrs)
    ∧ 0 ≤ (toL24 (limbsW id p (loadW id p (p.rawVals arrs)))).s11
    ∧ (toL24 (limbsW id p (loadW id p (p.rawVals arrs)))).s11 ≤ 2097152
    ∧ 0 ≤ value (toL24 (limbsW id p (loadW id p (p.rawVals arrs))))
    ∧ value (toL24 (limbsW id p (loadW id p (p.rawVals arrs)))) < (ell : Int) := by
  unfold rangeCheck at hchk
  split at hchk
  · cases hchk
  · rename_i r hr
    rw [Bool.and_eq_true] at hchk
    obtain ⟨hw, hst⟩ := hchk
    obtain ⟨s1, _, s2, s3, iM, e, iF⟩ := analyse_sound arrs hr
    have hpre := preTail_of iM hw
    have hlen : fs.length = p.blocks.length := forall₂_length htie
    have hval : toL24 (limbsW id p (loadW id p (p.rawVals arrs)))
        = runBlocks shrI (fs.drop (fs.length - 2))
            (toL24 (blocksW id p.nCarry (p.blocks.take (p.blocks.length - 2)) (initW id p (loadW id p (p.rawVals arrs))))) := by
      rw [e, hlen]
      exact blocks_tie (forall₂_drop htie _) _
    have hv := htail (toL24 (blocksW id p.nCarry (p.blocks.take (p.blocks.length - 2)) (initW id p (loadW id p (p.rawVals arrs)))))
    rw [← hval] at hv
    obtain ⟨r0, r1, r2, r3⟩ := final_range _ _ hpre hv hd hz
    refine ⟨⟨s1, s2, s3, ?_⟩, r0, r1, r2, r3⟩
    have iF' : In (limbsW id p (loadW id p (p.rawVals arrs))) (finalItv r.F) := by
      unfold finalItv
      apply In.set_right iF
      exact ⟨r0, (iF.getD 11).2⟩
    exact absStore_sound iF' hst

end Dos.Ed25519

/-
C10 / E2 — executable semantics of the amd64 subset used by gfp.s.

Machine words are `Nat`s below 2^64 (explicit `% 2^64`, so that `omega` can
reason about carries). A register holds either a word or an *abstract pointer*
to one of the three argument blocks c, a, b (4 words each): the code may load a
pointer from its argument slot and use it as the base of `off(reg)` with
off ∈ {0,8,16,24}; any arithmetic on a pointer is an error, so behaviour cannot
depend on where the blocks live. The Go callers pass aliased pointers
(`gfpMul(c, c, b)`, `gfpAdd(t, t, t)`); `alias` maps each argument slot to the
storage block it denotes, and every access goes through it.
The state also has the carry flag (0/1), the zero flag (defined only right
after CMPB) and the local frame (8-byte words). Package variables p2 / np /
hasBMI2 are a read-only environment. Everything else — unaligned or
out-of-block access, a write to a global or an argument slot, a jump on an
undefined flag, running off the end — is an explicit error.
-/
import DosModel.Model.AsmSyntax

namespace Dos.Asm

abbrev W64 : Nat := 18446744073709551616   -- 2^64

/-- argument slots = storage blocks -/
inductive Blk
  | c | a | b
  deriving DecidableEq, Repr

inductive Val
  | word (n : Nat)
  | ptr (k : Blk)

structure Regs where
  ax : Val
  bx : Val
  dx : Val
  di : Val
  si : Val
  r8 : Val
  r9 : Val
  r10 : Val
  r11 : Val
  r12 : Val
  r13 : Val
  r14 : Val
  r15 : Val

def Regs.get (s : Regs) : Reg → Val
  | .AX => s.ax | .BX => s.bx | .DX => s.dx | .DI => s.di | .SI => s.si
  | .R8 => s.r8 | .R9 => s.r9 | .R10 => s.r10 | .R11 => s.r11
  | .R12 => s.r12 | .R13 => s.r13 | .R14 => s.r14 | .R15 => s.r15

def Regs.set (s : Regs) (r : Reg) (v : Val) : Regs :=
  match r with
  | .AX => { s with ax := v } | .BX => { s with bx := v } | .DX => { s with dx := v }
  | .DI => { s with di := v } | .SI => { s with si := v }
  | .R8 => { s with r8 := v } | .R9 => { s with r9 := v } | .R10 => { s with r10 := v }
  | .R11 => { s with r11 := v } | .R12 => { s with r12 := v } | .R13 => { s with r13 := v }
  | .R14 => { s with r14 := v } | .R15 => { s with r15 := v }

/-- read-only package variables -/
structure Env where
  p2 : Nat → Nat        -- limb i of p2
  np : Nat → Nat        -- limb i of np
  hasBMI2 : Bool

structure State where
  regs : Regs
  cf : Nat                  -- carry flag, 0 or 1
  zf : Option Bool          -- zero flag; `none` = not defined by an instruction we model
  frame : List Val          -- local frame, one entry per 8 bytes
  alias : Blk → Blk         -- which storage block each argument pointer denotes
  mem : Blk → Nat → Nat     -- storage block ↦ word index (0..3) ↦ 64-bit word

inductive Outcome
  | ok (s : State)
  | err (msg : String)

def globRead (e : Env) (g : Glob) (off : Nat) : Option Val :=
  match g with
  | .p2 => if off % 8 = 0 ∧ off < 32 then some (.word (e.p2 (off / 8))) else none
  | .np => if off % 8 = 0 ∧ off < 32 then some (.word (e.np (off / 8))) else none
  | .hasBMI2 => if off = 0 then some (.word (if e.hasBMI2 then 1 else 0)) else none

def readOpd (e : Env) (s : State) : Opd → Option Val
  | .imm n => if n < W64 then some (.word n) else none
  | .reg r => some (s.regs.get r)
  | .mem b off =>
      match s.regs.get b with
      | .ptr blk => if off % 8 = 0 ∧ off < 32 then some (.word (s.mem (s.alias blk) (off / 8))) else none
      | .word _ => none
  | .frame off => if off % 8 = 0 then s.frame[off / 8]? else none
  | .arg off =>
      if off = 0 then some (.ptr .c) else if off = 8 then some (.ptr .a) else if off = 16 then some (.ptr .b) else none
  | .glob g off => globRead e g off

def writeOpd (s : State) (d : Opd) (v : Val) : Option State :=
  match d with
  | .reg r => some { s with regs := s.regs.set r v }
  | .mem b off =>
      match s.regs.get b, v with
      | .ptr blk, .word w =>
          if off % 8 = 0 ∧ off < 32 then
            some { s with mem := fun k i => if k = s.alias blk ∧ i = off / 8 then w else s.mem k i }
          else none
      | _, _ => none     -- only words are stored into the argument blocks
  | .frame off =>
      if off % 8 = 0 ∧ off / 8 < s.frame.length then some { s with frame := s.frame.set (off / 8) v } else none
  | _ => none    -- immediates, argument slots and package variables are never written

def stepFail (i : Instr) : Outcome := .err ("cannot execute " ++ reprStr i)

/-- one non-control instruction -/
def step (e : Env) (i : Instr) (s : State) : Outcome :=
  match i with
  | .movq src dst =>
      match readOpd e s src with
      | some v => match writeOpd s dst v with
        | some s' => .ok s'
        | none => stepFail i
      | none => stepFail i
  | .addq src dst =>
      match readOpd e s src, readOpd e s dst with
      | some (.word x), some (.word y) => match writeOpd s dst (.word ((y + x) % W64)) with
        | some s' => .ok { s' with cf := (y + x) / W64, zf := none }
        | none => stepFail i
      | _, _ => stepFail i
  | .adcq src dst =>
      match readOpd e s src, readOpd e s dst with
      | some (.word x), some (.word y) => match writeOpd s dst (.word ((y + x + s.cf) % W64)) with
        | some s' => .ok { s' with cf := (y + x + s.cf) / W64, zf := none }
        | none => stepFail i
      | _, _ => stepFail i
  | .subq src dst =>
      match readOpd e s src, readOpd e s dst with
      | some (.word x), some (.word y) => match writeOpd s dst (.word ((y + W64 - x) % W64)) with
        | some s' => .ok { s' with cf := 1 - (y + W64 - x) / W64, zf := none }
        | none => stepFail i
      | _, _ => stepFail i
  | .sbbq src dst =>
      match readOpd e s src, readOpd e s dst with
      | some (.word x), some (.word y) => match writeOpd s dst (.word ((y + W64 - x - s.cf) % W64)) with
        | some s' => .ok { s' with cf := 1 - (y + W64 - x - s.cf) / W64, zf := none }
        | none => stepFail i
      | _, _ => stepFail i
  | .mulq src =>
      match readOpd e s src, s.regs.ax with
      | some (.word x), .word a =>
          .ok { s with regs := (s.regs.set .AX (.word (a * x % W64))).set .DX (.word (a * x / W64)),
                       cf := if a * x / W64 = 0 then 0 else 1, zf := none }
      | _, _ => stepFail i
  | .mulxq src lo hi =>
      match readOpd e s src, s.regs.dx with
      | some (.word x), .word d =>
          -- if lo = hi the high half wins (Intel SDM); flags are not touched
          .ok { s with regs := (s.regs.set lo (.word (d * x % W64))).set hi (.word (d * x / W64)) }
      | _, _ => stepFail i
  | .cmovqcc src d =>
      match readOpd e s src, s.regs.get d with
      | some (.word x), .word y => .ok { s with regs := s.regs.set d (.word (if s.cf = 0 then x else y)) }
      | _, _ => stepFail i
  | .cmpb a b =>
      match readOpd e s a, readOpd e s b with
      | some (.word x), some (.word y) =>
          .ok { s with cf := if x % 256 < y % 256 then 1 else 0, zf := some (x % 256 == y % 256) }
      | _, _ => stepFail i
  | _ => stepFail i

/-- run from the instruction suffix `rest` of `code`; jumps re-enter `code` at an index -/
def run (e : Env) (code : List Instr) : Nat → List Instr → State → Outcome
  | 0, _, _ => .err "out of fuel"
  | _ + 1, [], _ => .err "fell off the end of the function"
  | fuel + 1, i :: rest, s =>
      match i with
      | .ret => .ok s
      | .jmp t => if t ≤ code.length then run e code fuel (code.drop t) s else .err "jump target out of range"
      | .jeq t =>
          match s.zf with
          | some true => if t ≤ code.length then run e code fuel (code.drop t) s else .err "jump target out of range"
          | some false => run e code fuel rest s
          | none => .err "JEQ on an undefined zero flag"
      | _ =>
          match step e i s with
          | .ok s' => run e code fuel rest s'
          | .err m => .err m

/-- call a function: fresh frame of `f.frame / 8` words holding `junk`, run to RET -/
def call (e : Env) (f : Func) (s : State) (junk : Nat) : Outcome :=
  run e f.code (f.code.length + 1) f.code { s with frame := List.replicate (f.frame / 8) (.word junk) }

end Dos.Asm

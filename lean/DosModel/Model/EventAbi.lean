/-
The events behind the subscription table of onchain/eth_subscribe.go as the deployed contracts declare
them (DOSProxy.sol / CommitReveal.sol): subscription index, contract, event name, inputs in contract order.
None of them has an indexed input.  `emit` is the log the contract puts on the chain for given argument
values, `receive` what `bind.BoundContract.UnpackLog` makes of a raw log (`Abi.decodeLog`).  Core Lean only.
-/
import DosModel.Model.Abi

namespace Dos.EventAbi
open Dos Dos.Abi

structure Ev where
  index : Nat              -- Subscribe… constant
  cr : Bool                -- emitted by the commit-reveal contract (else the proxy)
  spec : EventSpec
  deriving DecidableEq, Repr

def u256 : AbiType := .elem (.uint 256)
def inp (n : String) (t : AbiType) : Input := { name := n, ty := t, indexed := false }

def events : List Ev := [
  ⟨0, false, ⟨"LogUpdateRandom", [inp "lastRandomness" u256, inp "dispatchedGroupId" u256]⟩⟩,
  ⟨1, false, ⟨"LogRequestUserRandom", [inp "requestId" u256, inp "lastSystemRandomness" u256, inp "userSeed" u256, inp "dispatchedGroupId" u256]⟩⟩,
  ⟨2, false, ⟨"LogUrl", [inp "queryId" u256, inp "timeout" u256, inp "dataSource" .string, inp "selector" .string, inp "randomness" u256, inp "dispatchedGroupId" u256]⟩⟩,
  ⟨3, false, ⟨"LogValidationResult", [inp "trafficType" (.elem (.uint 8)), inp "trafficId" u256, inp "message" .bytes,
      inp "signature" (.sarray (.uint 256) 2), inp "pubKey" (.sarray (.uint 256) 4), inp "pass" (.elem .bool)]⟩⟩,
  ⟨4, false, ⟨"LogGrouping", [inp "groupId" u256, inp "nodeId" (.darray .address)]⟩⟩,
  ⟨5, false, ⟨"LogPublicKeyAccepted", [inp "groupId" u256, inp "pubKey" (.sarray (.uint 256) 4), inp "numWorkingGroups" u256]⟩⟩,
  ⟨6, false, ⟨"LogPublicKeySuggested", [inp "groupId" u256, inp "pubKeyCount" u256]⟩⟩,
  ⟨7, false, ⟨"LogGroupDissolve", [inp "groupId" u256]⟩⟩,
  ⟨8, false, ⟨"LogInsufficientPendingNode", [inp "numPendingNodes" u256]⟩⟩,
  ⟨9, false, ⟨"LogInsufficientWorkingGroup", [inp "numWorkingGroups" u256, inp "numPendingGroups" u256]⟩⟩,
  ⟨11, false, ⟨"LogGroupingInitiated", [inp "pendingNodePool" u256, inp "groupsize" u256]⟩⟩,
  ⟨13, true, ⟨"LogStartCommitReveal", [inp "cid" u256, inp "startBlock" u256, inp "commitDuration" u256, inp "revealDuration" u256, inp "revealThreshold" u256]⟩⟩,
  ⟨14, true, ⟨"LogCommit", [inp "cid" u256, inp "from" (.elem .address), inp "commitment" (.elem (.fixedBytes 32))]⟩⟩,
  ⟨15, true, ⟨"LogReveal", [inp "cid" u256, inp "from" (.elem .address), inp "secret" u256]⟩⟩,
  ⟨16, true, ⟨"LogRandom", [inp "cid" u256, inp "random" u256]⟩⟩
]

/-- the seven the node subscribes to (dosnode/dos_chain_handler.go) -/
def nodeSubscribes : List Nat := [4, 7, 2, 0, 1, 5, 13]

def eventOf (idx : Nat) : Option Ev := events.find? (fun e => e.index == idx)

/-- what the contract emits -/
def emit (hash : Bytes → Bytes) (e : Ev) (vs : List AbiVal) : RawLog := encodeLog (topic0 hash e.spec) e.spec vs

/-- what the binding makes of a raw log of the subscription for `e` -/
def receive (hash : Bytes → Bytes) (e : Ev) (l : RawLog) : Dec (List (Option AbiVal)) :=
  decodeLog (topic0 hash e.spec) e.spec l

end Dos.EventAbi

/-
C10 — tower fields (layer 4). The functions `Fp2.*`, `Fp6.*`, `Fp12.*` are the Go methods of
gfp2.go / gfp6.go / gfp12.go transcribed statement by statement (Model/Bn256Tower.lean; the
driver runs them over the Montgomery gfP and is compared with the real code on every run).
Here: over EVERY commutative ring α in place of gfP they are the arithmetic of
α[i]/(i²+1), its cubic extension by τ³ = ξ = i+9 and the quadratic extension by ω² = τ.
Only theorems; lemmas in Proofs/Bn256Tower{2,6,12}.lean, Proofs/Bn256Scalar.lean.
-/
import DosModel.Proofs.Bn256Tower12

namespace Dos.Props.C10Tower
open Dos.Bn256

variable {α : Type}

/-! ## gfP2 -/

/-- Mul is the product of x·i + y and x'·i + y' reduced by i² = −1; Square, MulXi, MulScalar,
Conjugate are what their names say -/
theorem gfP2_mul_is_quadratic_extension [CommRing α] (a b : Fp2 α) (c : α) :
    Fp2.mul a b = ⟨a.x * b.y + a.y * b.x, a.y * b.y - a.x * b.x⟩ ∧
    Fp2.square a = Fp2.mul a a ∧
    Fp2.mulXi a = Fp2.mul ⟨1, 9⟩ a ∧
    Fp2.mulScalar a c = Fp2.mul a ⟨0, c⟩ ∧
    Fp2.mul (⟨1, 0⟩ : Fp2 α) ⟨1, 0⟩ = Fp2.neg Fp2.one ∧
    Fp2.conjugate (Fp2.mul a b) = Fp2.mul (Fp2.conjugate a) (Fp2.conjugate b) := by
  refine ⟨?_, ?_, ?_, ?_, ?_, ?_⟩
  · have := Fp2.mul_coords a b; exact Fp2.ext' this.1 this.2
  · exact Fp2.square_eq a
  · exact Fp2.mulXi_eq a
  · exact Fp2.mulScalar_eq a c
  · exact Fp2.i_sq
  · exact Fp2.conjugate_mul a b

/-- the transcribed Add/Sub/Neg/Mul/zero/one satisfy ALL commutative-ring axioms -/
theorem gfP2_ring_laws [CommRing α] :
    ∃ inst : CommRing (Fp2 α),
      (∀ a b : Fp2 α, inst.add a b = Fp2.add a b) ∧ (∀ a b : Fp2 α, inst.mul a b = Fp2.mul a b) ∧
      (∀ a : Fp2 α, inst.neg a = Fp2.neg a) ∧ (∀ a b : Fp2 α, inst.sub a b = Fp2.sub a b) ∧
      inst.zero = Fp2.zero ∧ inst.one = Fp2.one :=
  ⟨Fp2.instCommRing, fun _ _ => rfl, fun _ _ => rfl, fun _ => rfl, fun _ _ => rfl, rfl, rfl⟩

/-- Invert is the inverse whenever the norm x² + y² is non-zero -/
theorem gfP2_invert [Field α] (a : Fp2 α) (hn : a.x * a.x + a.y * a.y ≠ 0) :
    Fp2.mul a (Fp2.invert a) = Fp2.one := Fp2.mul_invert a hn

/-! ## gfP6 -/

/-- the Karatsuba Mul is the schoolbook product reduced by τ³ = ξ; Square, MulTau, MulScalar, MulGFP
are multiplications in the same ring; τ³ = ξ -/
theorem gfP6_mul_is_cubic_extension [CommRing α] (a b : Fp6 α) (c : Fp2 α) (d : α) :
    Fp6.mul a b = ⟨a.x * b.z + a.y * b.y + a.z * b.x,
                   a.y * b.z + a.z * b.y + Fp2.xi * (a.x * b.x),
                   a.z * b.z + Fp2.xi * (a.x * b.y + a.y * b.x)⟩ ∧
    Fp6.square a = Fp6.mul a a ∧
    Fp6.mulTau a = Fp6.mul ⟨0, 1, 0⟩ a ∧
    Fp6.mulScalar a c = Fp6.mul a ⟨0, 0, c⟩ ∧
    Fp6.mulGFP a d = Fp6.mul a ⟨0, 0, ⟨0, d⟩⟩ ∧
    Fp6.mul (⟨0, 1, 0⟩ : Fp6 α) (Fp6.mul ⟨0, 1, 0⟩ ⟨0, 1, 0⟩) = ⟨0, 0, Fp2.xi⟩ :=
  ⟨Fp6.mul_eq_spec a b, Fp6.square_eq_mul a, Fp6.mulTau_eq a, Fp6.mulScalar_eq a c, Fp6.mulGFP_eq a d,
   Fp6.tau_cubed⟩

theorem gfP6_ring_laws [CommRing α] :
    ∃ inst : CommRing (Fp6 α),
      (∀ a b : Fp6 α, inst.add a b = Fp6.add a b) ∧ (∀ a b : Fp6 α, inst.mul a b = Fp6.mul a b) ∧
      (∀ a : Fp6 α, inst.neg a = Fp6.neg a) ∧ (∀ a b : Fp6 α, inst.sub a b = Fp6.sub a b) ∧
      inst.zero = Fp6.zero ∧ inst.one = Fp6.one :=
  ⟨Fp6.instCommRing, fun _ _ => rfl, fun _ _ => rfl, fun _ => rfl, fun _ _ => rfl, rfl, rfl⟩

/-- Invert: the value inverted in gfP2 is the norm x³ξ² + y³ξ + z³ − 3ξxyz, and if that inversion
succeeds the result is the inverse -/
theorem gfP6_invert [Field α] (a : Fp6 α) (hF : Fp6.normF a * Fp2.invert (Fp6.normF a) = 1) :
    Fp6.mul a (Fp6.invert a) = Fp6.one ∧
    Fp6.normF a = Fp2.xi * Fp2.xi * (a.x * a.x * a.x) + Fp2.xi * (a.y * a.y * a.y) + a.z * a.z * a.z
      - 3 * Fp2.xi * (a.x * a.y * a.z) :=
  ⟨Fp6.mul_invert a hF, Fp6.normF_eq a⟩

/-! ## gfP12 -/

theorem gfP12_mul_is_quadratic_extension [CommRing α] (a b : Fp12 α) :
    Fp12.mul a b = ⟨a.x * b.y + a.y * b.x, a.y * b.y + Fp6.tau * (a.x * b.x)⟩ ∧
    Fp12.square a = Fp12.mul a a ∧
    Fp12.mul (⟨1, 0⟩ : Fp12 α) ⟨1, 0⟩ = ⟨0, Fp6.tau⟩ ∧
    Fp12.conjugate (Fp12.mul a b) = Fp12.mul (Fp12.conjugate a) (Fp12.conjugate b) ∧
    Fp12.mul a (Fp12.conjugate a) = ⟨0, a.y * a.y - Fp6.tau * (a.x * a.x)⟩ :=
  ⟨Fp12.mul_eq_spec a b, Fp12.square_eq_mul a, Fp12.omega_sq, Fp12.conjugate_mul a b, Fp12.mul_conjugate a⟩

theorem gfP12_ring_laws [CommRing α] :
    ∃ inst : CommRing (Fp12 α),
      (∀ a b : Fp12 α, inst.add a b = Fp12.add a b) ∧ (∀ a b : Fp12 α, inst.mul a b = Fp12.mul a b) ∧
      (∀ a : Fp12 α, inst.neg a = Fp12.neg a) ∧ (∀ a b : Fp12 α, inst.sub a b = Fp12.sub a b) ∧
      inst.zero = Fp12.zero ∧ inst.one = Fp12.one :=
  ⟨Fp12.instCommRing, fun _ _ => rfl, fun _ _ => rfl, fun _ => rfl, fun _ _ => rfl, rfl, rfl⟩

theorem gfP12_invert [Field α] (a : Fp12 α) (hT : Fp12.normT a * Fp6.invert (Fp12.normT a) = 1) :
    Fp12.mul a (Fp12.invert a) = Fp12.one := Fp12.mul_invert a hT

/-- GT scalar multiplication: gfP12.Exp is the k-th power for EVERY k (0, 1, order, 2^256−1, …) -/
theorem gfP12_exp_is_power [CommRing α] (a : Fp12 α) (k : Nat) : Fp12.exp a k = a ^ k :=
  Fp12.exp_eq_pow a k

/-- consequently Exp obeys the exponent laws: a^(j+k) = a^j·a^k, (a^j)^k = a^(jk), and it agrees with
the exponent reduced modulo any n with aⁿ = 1 (the group order for elements of GT) -/
theorem gfP12_exp_laws [CommRing α] (a : Fp12 α) (j k n : Nat) (hn : a ^ n = 1) :
    Fp12.exp a (j + k) = Fp12.mul (Fp12.exp a j) (Fp12.exp a k) ∧
    Fp12.exp (Fp12.exp a j) k = Fp12.exp a (j * k) ∧
    Fp12.exp a k = Fp12.exp a (k % n) := by
  simp only [gfP12_exp_is_power, Fp12.mul_eq]
  refine ⟨pow_add a j k, (pow_mul a j k).symm, ?_⟩
  conv_lhs => rw [← Nat.div_add_mod k n, pow_add, pow_mul, hn, one_pow, one_mul]

/-! non-vacuity: concrete instances over ℤ -/
example : Fp2.mul (⟨1, 2⟩ : Fp2 Int) ⟨3, 4⟩ = ⟨10, 5⟩ := by decide
example : Fp2.mulXi (⟨1, 2⟩ : Fp2 Int) = ⟨11, 17⟩ := by decide
example : Fp6.mul (⟨⟨1, 0⟩, ⟨0, 1⟩, ⟨2, 3⟩⟩ : Fp6 Int) ⟨⟨1, 0⟩, ⟨0, 1⟩, ⟨2, 3⟩⟩ =
    Fp6.square ⟨⟨1, 0⟩, ⟨0, 1⟩, ⟨2, 3⟩⟩ := by decide
example : Fp12.exp (⟨⟨⟨0, 0⟩, ⟨0, 0⟩, ⟨0, 0⟩⟩, ⟨⟨0, 0⟩, ⟨0, 0⟩, ⟨0, 2⟩⟩⟩ : Fp12 Int) 10 =
    ⟨⟨⟨0, 0⟩, ⟨0, 0⟩, ⟨0, 0⟩⟩, ⟨⟨0, 0⟩, ⟨0, 0⟩, ⟨0, 1024⟩⟩⟩ := by decide +kernel
example : Fp2.mul (⟨3, 4⟩ : Fp2 Rat) (Fp2.invert ⟨3, 4⟩) = Fp2.one := by
  apply gfP2_invert; norm_num

end Dos.Props.C10Tower

/-
C01 composed down to the concrete bn256 G1 arithmetic — the node model `handleQuery` (C01/C07/C13) run
with `cryptoG1 f H t n`: `tbls.Recover` / `bls.Verify` as modelled byte for byte in `Model/Tbls.lean`
(C02/C03) over the DRIVER's own scalars `Zq r` and points `G1.Pt` (`Model/TblsG1.lean`: affine
chord/tangent addition, Jacobian double-and-add, the 64-byte codec) — the very functions `drv_c02` /
`drv_c03` execute and the correspondence runs compare with the real code.

Route: `Proofs/ComposeTblsG1*.lean` (the driver's `add`, `neg`, `mul` are the operations of Mathlib's
group `E(F_p)`, `p` prime by `Proofs/Primes.lean`), `Proofs/ComposeNatural.lean` (naturality of the
`Recover` model), `Proofs/ComposeTblsG1Crypto.lean` (`cryptoG1` IS the abstract instance over `E(F_p)`),
then `Props/C01Compose.lean`.

Hypotheses left, all explicit: `#E(F_p) = r` (`hr`, the curve group has exponent `r`), `H` maps into the
curve (`hH`; `h•g₁` does: C02ComposeG1 `g1_driver_mul_is_scalar_multiple`), `deg f < t`, `n ≤ 65536`, the
member's id is an address and it computed its content; for the on-chain reading of a report a pairing on
`E(F_p)` (bilinear, non-degenerate).  No primality assumption, no "G1 is a module" assumption, no codec
assumption, no contract of `tbls.Recover` / `bls.Verify`.
-/
import DosModel.Proofs.ComposeTblsG1Crypto
import DosModel.Props.C01Compose

set_option linter.unusedSectionVars false
set_option linter.style.haveILetI false

namespace Dos.Props.C01ComposeG1
open Dos Dos.Content Dos.Query Dos.Share Dos.Tbls Dos.G1 Dos.Compose Dos.Compose.TG1

/-- **validity, concrete**: whatever an honest member reports, for every sequence of peer messages,
decodes (driver's `UnmarshalBinary`) to exactly the group signature `f(0) • H(result ‖ msg.sender)`
computed by the driver's own scalar multiplication -/
theorem c01_report_is_group_signature_g1 (hr : ∀ P : E, G1.r • P = 0) (f : List (Zq G1.r))
    (H : Bytes → Pt) (hH : ∀ c, Valid (H c)) (t n : Nat) (p a : Nat) (mb : Member) (r : Request)
    (fc : List (Option Msg)) (c0 : Bytes) (hc0 : contentFor p r mb.me = some c0)
    (hlen : mb.me.length = a) :
    ∀ rep ∈ (handleQuery (cryptoG1 f H t n) p a mb r fc).reports,
      rep.result ++ mb.me = c0 ∧ G1.decode rep.sig = some (G1.mul (f.headD 0).val (H c0))
        ∧ rep.index = r.kind.ptype := by
  letI := moduleE hr
  rw [cryptoG1_eq hr f H hH t n]
  intro rep hrep
  have h1 := Props.C01Compose.c01_report_is_group_signature codecE f (fun c => φ (H c)) t n p a mb r fc
    c0 hc0 hlen rep hrep
  have h2 := Props.C01.report_valid_of_content (fun _ _ => True) _ (fun _ _ _ => trivial) p a mb r fc c0 hc0 hlen
    rep hrep
  refine ⟨h2.1, ?_, h2.2.2⟩
  have h1' : (G1.decode rep.sig).map φ = some ((f.headD 0).val • φ (H c0)) := h1
  cases hd : G1.decode rep.sig with
  | none => rw [hd] at h1'; cases h1'
  | some s =>
    rw [hd, Option.map_some] at h1'
    have hs := decode_valid _ _ hd
    have hm := mulBridge (f.headD 0).val (H c0) (hH c0)
    have : φ s = φ (G1.mul (f.headD 0).val (H c0)) := by rw [hm.2]; exact Option.some.inj h1'
    rw [φ_inj hs hm.1 this]

/-- **validity on chain, concrete**: with a pairing on `E(F_p)` the reported bytes satisfy the
contract's equation for `result ‖ msg.sender` under the group key `f(0)•g₂` -/
theorem c01_report_valid_g1 {G2 GT : Type} [hr : Fact (∀ P : E, G1.r • P = 0)] [AddCommGroup G2]
    [Module (Zq G1.r) G2] [CommGroup GT] (pr : Pairing (Zq G1.r) E G2 GT) (f : List (Zq G1.r))
    (H : Bytes → Pt) (hH : ∀ c, Valid (H c)) (t n : Nat) (p a : Nat) (mb : Member) (r : Request)
    (fc : List (Option Msg)) (c0 : Bytes) (hc0 : contentFor p r mb.me = some c0)
    (hlen : mb.me.length = a) :
    ∀ rep ∈ (handleQuery (cryptoG1 f H t n) p a mb r fc).reports,
      rep.result ++ mb.me = c0 ∧
      (∃ S : Pt, G1.decode rep.sig = some S ∧ pr.verifyEq (f.headD 0 • pr.g2) (φ (H c0)) (φ S))
        ∧ rep.index = r.kind.ptype := by
  rw [cryptoG1_eq hr.out f H hH t n]
  intro rep hrep
  obtain ⟨h1, ⟨S, hS, hv⟩, h3⟩ := Props.C01Compose.c01_report_valid_composed pr codecE f
    (fun c => φ (H c)) t n p a mb r fc c0 hc0 hlen rep hrep
  refine ⟨h1, ?_, h3⟩
  have hS' : (G1.decode rep.sig).map φ = some S := hS
  cases hd : G1.decode rep.sig with
  | none => rw [hd] at hS'; cases hS'
  | some s =>
    rw [hd, Option.map_some] at hS'
    refine ⟨s, rfl, ?_⟩
    rw [Option.some.inj hS', ← h1] at *
    exact hv

/-- **liveness, concrete**: the member is the submitter; `honest` are distinct member numbers `< n`, at
least `t = n/2+1` of them, whose shares — as emitted by the driver's `tbls.Sign` (`tblsSign g1Codec`) —
are carried by well-formed messages among the stage's inputs (own share first).  Then exactly one report
is made and the node does not crash, whatever else arrives. -/
theorem c01_honest_signers_report_g1 (hr : ∀ P : E, G1.r • P = 0) (f : List (Zq G1.r))
    (H : Bytes → Pt) (hH : ∀ c, Valid (H c)) (p a : Nat) (mb : Member) (r : Request)
    (fc : List (Option Msg)) (c0 : Bytes) (hsub : submitter mb.ids r.last = some mb.me)
    (hc0 : contentFor p r mb.me = some c0) (hlen : mb.me.length = a)
    (hf : f.length ≤ threshold mb.ids.length) (h16 : mb.ids.length ≤ 65536)
    (honest : List Nat) (hnd : honest.Nodup) (hin : ∀ i ∈ honest, i < mb.ids.length)
    (ht : threshold mb.ids.length ≤ honest.length)
    (hmsg : ∀ i ∈ honest, ∃ rid, some (⟨r.kind.ptype, rid, some c0, some (tblsSign g1Codec f (H c0) i)⟩ : Msg) ∈
        some ⟨r.kind.ptype, r.ridBytes, some c0, some (mb.signOwn c0)⟩ :: fc) :
    (handleQuery (cryptoG1 f H (threshold mb.ids.length) mb.ids.length) p a mb r fc).reports.length = 1
      ∧ (handleQuery (cryptoG1 f H (threshold mb.ids.length) mb.ids.length) p a mb r fc).stop = .none := by
  letI := moduleE hr
  rw [cryptoG1_eq hr f H hH _ _]
  refine Props.C01Compose.c01_honest_signers_report codecE codecE_roundtrip f (fun c => φ (H c)) p a mb r fc
    c0 hsub hc0 hlen hf
    (Props.C09.zq_charGt G1.r mb.ids.length (Nat.lt_of_le_of_lt h16 (by decide))) h16 honest hnd hin ht ?_
  intro i hi
  rw [tblsSign_eq hr f (H c0) (hH c0) i]
  exact hmsg i hi

/-- **exactly one valid report, concrete**: liveness and validity together -/
theorem c01_exactly_one_valid_report_g1 (hr : ∀ P : E, G1.r • P = 0) (f : List (Zq G1.r))
    (H : Bytes → Pt) (hH : ∀ c, Valid (H c)) (p a : Nat) (mb : Member) (r : Request)
    (fc : List (Option Msg)) (c0 : Bytes) (hsub : submitter mb.ids r.last = some mb.me)
    (hc0 : contentFor p r mb.me = some c0) (hlen : mb.me.length = a)
    (hf : f.length ≤ threshold mb.ids.length) (h16 : mb.ids.length ≤ 65536)
    (honest : List Nat) (hnd : honest.Nodup) (hin : ∀ i ∈ honest, i < mb.ids.length)
    (ht : threshold mb.ids.length ≤ honest.length)
    (hmsg : ∀ i ∈ honest, ∃ rid, some (⟨r.kind.ptype, rid, some c0, some (tblsSign g1Codec f (H c0) i)⟩ : Msg) ∈
        some ⟨r.kind.ptype, r.ridBytes, some c0, some (mb.signOwn c0)⟩ :: fc) :
    ∃ rep, (handleQuery (cryptoG1 f H (threshold mb.ids.length) mb.ids.length) p a mb r fc).reports = [rep]
      ∧ rep.result ++ mb.me = c0
      ∧ G1.decode rep.sig = some (G1.mul (f.headD 0).val (H c0)) ∧ rep.index = r.kind.ptype := by
  have h1 := (c01_honest_signers_report_g1 hr f H hH p a mb r fc c0 hsub hc0 hlen hf h16 honest hnd hin
    ht hmsg).1
  obtain ⟨rep, hrep⟩ := List.length_eq_one_iff.1 h1
  have hv := c01_report_is_group_signature_g1 hr f H hH (threshold mb.ids.length) mb.ids.length p a mb r
    fc c0 hc0 hlen rep (by rw [hrep]; simp)
  exact ⟨rep, hrep, hv⟩

/-! non-vacuity: the concrete instance evaluated by the kernel on the REAL curve — group of three,
`f = 4 + 3x`, `H ≡ 2•g₁`; the submitter's own share and member 2's share (driver's `tbls.Sign`), with junk
in between, give exactly one report carrying the encoding of `4•(2•g₁)` -/

private def ids3 : List Bytes := [List.replicate 20 0xA1, List.replicate 20 0xB2, List.replicate 20 0xC3]
private def req3 : Request := { kind := .sys, rid := 7, last := 7, seed := 0, parsed := none }
private def c3 : Bytes := sysContent 32 7 (List.replicate 20 0xB2)
private def fG : List (Zq G1.r) := [4, 3]
private def HG : Bytes → Pt := fun _ => G1.mul 2 G1.base
private def mb1 : Member :=
  { ids := ids3, me := List.replicate 20 0xB2, signOwn := fun c => tblsSign g1Codec fG (HG c) 1 }
private def fcG : List (Option Msg) :=
  [some { index := 0, rid := [7], content := some c3, sig := some [1] }, none,
   some { index := 0, rid := [7], content := some c3, sig := some (tblsSign g1Codec fG (HG c3) 2) }]

set_option maxRecDepth 100000 in
example : ((handleQuery (cryptoG1 fG HG (threshold 3) 3) 32 20 mb1 req3 fcG).reports.map (·.sig))
    = [G1.encode (G1.mul 8 G1.base)] := by decide +kernel

example : ∀ c, Valid (HG c) := fun _ =>
  (mulBridge 2 G1.base (by show 1 < G1.p ∧ 2 < G1.p ∧ G1.onCurve 1 2 = true; decide)).1

end Dos.Props.C01ComposeG1

#!/usr/bin/env python3
"""Helper for the hand-maintained table in lean/DosModel/Model/HandlersInv.lean (C12).

  python3 go/extract/panicsites/resync.py            # print what differs
  python3 go/extract/panicsites/resync.py --write    # rewrite the entry list

Keeps the clause of every site that still exists, drops vanished sites, and inserts new sites as
`.guarded` when the extractor found a guard of a sufficient class for them, else as
`.safe "UNCLASSIFIED: …"` and re-guarded ones with their old clause and the NEW guard text.  Both
must then be reviewed by hand: an unclassified or re-guarded site is exactly what the obligation
`inventory_matches` exists to surface (flags whose guard text changed turn off until the expected
text in the table is the one in the source)."""
import re, sys, os
root = os.path.dirname(os.path.dirname(os.path.dirname(os.path.dirname(os.path.abspath(__file__)))))
gen = open(os.path.join(root, "lean/DosModel/Gen/PanicSites.lean")).read()
inv_path = os.path.join(root, "lean/DosModel/Model/HandlersInv.lean")
inv = open(inv_path).read()
S = r'"((?:[^"\\]|\\.)*)"'
sites = [t[:3] for t in re.findall(r'^\s*⟨%s, %s, %s, %s⟩' % (S, S, S, S), gen[gen.index("def sites"):gen.index("def unlisted")], re.M)]
cls = {t[0]: t[3] for t in re.findall(r'^\s*⟨%s, %s, %s, %s⟩' % (S, S, S, S), gen[gen.index("def sites"):gen.index("def unlisted")], re.M)}
a = inv.index("def table : List Entry := [\n") + len("def table : List Entry := [\n")
b = inv.index("]\n\n/-- guards that protect a receiver")
old = {}
for m in re.finditer(r'^\s*⟨%s, %s, (.*)⟩,?\s*$' % (S, S), inv[a:b], re.M):
    old[m.group(1)] = (m.group(2), m.group(3))
rows, notes = [], []
for key, kind, guard in sites:
    if key not in old:
        if cls.get(key) in ("nil", "len", "ok", "read", "defer-made", "made"):
            rows.append((key, guard, '.guarded')); notes.append("+ %s   (guard class %s: entered as .guarded)" % (key, cls[key]))
        else:
            rows.append((key, guard, '.safe "UNCLASSIFIED: review this %s site"' % kind)); notes.append("+ " + key)
    else:
        g, clause = old[key]
        if g != guard:
            notes.append("~ %s\n    was: %s\n    now: %s" % (key, g, guard))
        rows.append((key, guard, clause))
for key in old:
    if key not in [s[0] for s in sites]:
        notes.append("- " + key)
print("\n".join(notes) if notes else "table and inventory agree")
cnt = [0, 0, 0]
for _, _, c in rows:
    cnt[1 if c.startswith(".guarded") else 2 if c.startswith(".safe") else 0] += 1
print("classification_counts (modelled, safe by extracted guard, safe by prose): (%d, %d, %d)" % tuple(cnt))
if "--write" in sys.argv and notes:
    body = ",\n".join('  ⟨"%s", "%s", %s⟩' % r for r in rows) + "\n"
    open(inv_path, "w").write(inv[:a] + body + inv[b:])
    print("rewritten:", inv_path)

package pipeir

// PipeSpawns: the inventory of `go` statements.  Every `go` statement of the repository's product code
// (all packages; test files and files behind a build constraint — the verification hooks — excluded)
// is listed with a position-independent key
//
//	(package directory, enclosing function or method, ordinal of the statement in that declaration
//	 in source order — nested function literals included —, callee text)
//
// together with the sub-list of the statements the translator actually turned into a goroutine of one
// of the emitted pipelines.  The theorem `spawn_inventory_complete` (Props/C14Spawns.lean) demands
// that every statement is translated or is an entry of the hand-maintained list of goroutines that
// are deliberately not modelled by C14 (Model/PipeSpawnKnown.lean): a NEW goroutine anywhere in the
// repository breaks the theorem until somebody decides where it belongs.

import (
	"fmt"
	"go/ast"
	"os"
	"path/filepath"
	"sort"
	"strings"

	"verifharness/extract/ex"
)

func init() {
	ex.Register(&ex.Extractor{Name: "PipeSpawns", Run: runSpawns})
}

// go statements that became goroutines of an emitted pipeline (set by tr.goStmt)
var visitedGo = map[*ast.GoStmt]bool{}

type built struct {
	ld    *loader
	pipes []*pipeline
	err   error
}

var builds = map[string]*built{}

// buildAll translates every pipeline of specs() once per repository path
func buildAll(repo string) *built {
	if b, ok := builds[repo]; ok {
		return b
	}
	b := &built{ld: &loader{repo: repo, pkgs: map[string]*pkgInfo{}}}
	builds[repo] = b
	for _, s := range specs() {
		p, err := s.mk(b.ld)
		if err != nil {
			b.err = err
			return b
		}
		b.pipes = append(b.pipes, p)
	}
	return b
}

type spawnKey struct {
	dir, fn string
	k       int
	callee  string
	pos     string
	stmt    *ast.GoStmt
}

func funcKey(fd *ast.FuncDecl) string {
	if fd.Recv != nil && len(fd.Recv.List) > 0 {
		t := fd.Recv.List[0].Type
		if s, ok := t.(*ast.StarExpr); ok {
			t = s.X
		}
		if id, ok := t.(*ast.Ident); ok {
			return id.Name + "." + fd.Name.Name
		}
	}
	return fd.Name.Name
}

// goDirs: every directory of the repository with Go files (not .git, vendor, testdata)
func goDirs(repo string) ([]string, error) {
	var dirs []string
	err := filepath.Walk(repo, func(path string, info os.FileInfo, err error) error {
		if err != nil {
			return err
		}
		if info.IsDir() {
			switch info.Name() {
			case ".git", "vendor", "testdata", "node_modules", "vault":
				return filepath.SkipDir
			}
			ms, _ := filepath.Glob(filepath.Join(path, "*.go"))
			for _, m := range ms {
				if !strings.HasSuffix(m, "_test.go") {
					rel, _ := filepath.Rel(repo, path)
					dirs = append(dirs, filepath.ToSlash(rel))
					break
				}
			}
		}
		return nil
	})
	sort.Strings(dirs)
	return dirs, err
}

func scanSpawns(ld *loader) ([]spawnKey, error) {
	dirs, err := goDirs(ld.repo)
	if err != nil {
		return nil, err
	}
	var out []spawnKey
	for _, dir := range dirs {
		p, err := ld.load(dir)
		if err != nil {
			// a directory whose only Go files are tests or hook files
			if strings.Contains(err.Error(), "no Go files") {
				continue
			}
			return nil, err
		}
		for _, f := range p.files {
			for _, d := range f.Decls {
				// a function or method, or the function literals of a package-level variable (handler tables)
				var root ast.Node
				name := ""
				switch x := d.(type) {
				case *ast.FuncDecl:
					if x.Body == nil {
						continue
					}
					root, name = x.Body, funcKey(x)
				case *ast.GenDecl:
					root = x
					for _, sp := range x.Specs {
						if vs, ok := sp.(*ast.ValueSpec); ok && len(vs.Names) > 0 && name == "" {
							name = "var " + vs.Names[0].Name
						}
					}
				default:
					continue
				}
				k := 0
				ast.Inspect(root, func(n ast.Node) bool {
					g, ok := n.(*ast.GoStmt)
					if !ok {
						return true
					}
					callee := "func"
					if _, lit := g.Call.Fun.(*ast.FuncLit); !lit {
						callee = shortN(p.fset, g.Call.Fun, 80)
					}
					out = append(out, spawnKey{dir: dir, fn: name, k: k, callee: callee, pos: p.pos(g), stmt: g})
					k++
					return true
				})
			}
		}
	}
	return out, nil
}

func (s spawnKey) lean() string {
	return fmt.Sprintf("(%s, %s, %d, %s)", leanStr(s.dir), leanStr(s.fn), s.k, leanStr(s.callee))
}

func runSpawns(repo string) (string, error) {
	b := buildAll(repo)
	if b.err != nil {
		return "", b.err
	}
	all, err := scanSpawns(b.ld)
	if err != nil {
		return "", err
	}
	var s strings.Builder
	s.WriteString(ex.Header("PipeSpawns", "every `go` statement of the repository (all packages; no test files, no files behind a build constraint)"))
	s.WriteString("namespace Dos.Gen.PipeSpawns\n\n")
	s.WriteString("/-- (package directory, enclosing function, ordinal of the `go` statement in it, callee) -/\nabbrev Key := String × String × Nat × String\n\n")
	s.WriteString("/-- every `go` statement of the product code -/\ndef all : List Key := [")
	for i, k := range all {
		if i > 0 {
			s.WriteString(",")
		}
		fmt.Fprintf(&s, "\n  %s /- %s -/", k.lean(), k.pos)
	}
	s.WriteString("]\n\n/-- the statements translated into a goroutine of an emitted pipeline (Gen/PipeIR.lean) -/\ndef translated : List Key := [")
	n := 0
	for _, k := range all {
		if !visitedGo[k.stmt] {
			continue
		}
		if n > 0 {
			s.WriteString(",")
		}
		fmt.Fprintf(&s, "\n  %s", k.lean())
		n++
	}
	s.WriteString("]\n\n/-- goroutines of the emitted pipelines that come from a translated `go` statement or a template root -/\n")
	g := 0
	for _, p := range b.pipes {
		g += len(p.gs)
	}
	fmt.Fprintf(&s, "def goroutinesEmitted : Nat := %d\n\nend Dos.Gen.PipeSpawns\n", g)
	return s.String(), nil
}

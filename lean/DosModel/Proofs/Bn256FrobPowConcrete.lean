/-
C10 round 5 — Frobenius = p-power for the code's constants: the three constants ξ^((p−1)/6), ξ^((p−1)/3),
ξ^((2p−2)/3) of constants.go, decoded from Montgomery form, ARE those powers of ξ = i + 9 in F_p² (the kernel
evaluates the square-and-multiply power in Montgomery arithmetic on the regenerated literals — the same evaluation
as `C10Consts.consts_frobenius` —; here it is carried to F_p² along "forget reducedness" and "decode"), hence
`Fp12.frobeniusG frobConstsFp` is x ↦ x^p on gfP12 over F_p (Proofs/Bn256FrobPow.lean).
-/
import DosModel.Proofs.Bn256FrobPow
import DosModel.Proofs.Bn256FinalExpConcrete
import DosModel.Proofs.Bn256Consts
import DosModel.Proofs.Bn256FieldIso

namespace Dos.Bn256
open Dos.Mont

/-- the square-and-multiply power of Proofs/Bn256Consts.lean (`Fp2.powNat`), over any base type -/
def Fp2.powNatG {α : Type} [Add α] [Sub α] [Mul α] [Zero α] [One α] (a : Fp2 α) (k : Nat) : Fp2 α :=
  (List.range (Fp12.bitLen k)).reverse.foldl
    (fun acc i => let t := acc.mul acc; if k.testBit i then t.mul a else t) Fp2.one

theorem Fp2.powNat_eq (a : F2) (k : Nat) : Fp2.powNat a k = Fp2.powNatG a k := rfl

section
variable {K L : Type} [Add K] [Sub K] [Neg K] [Mul K] [Zero K] [One K] [Inv K] [Sq K] [DecidableEq K]
  [Add L] [Sub L] [Neg L] [Mul L] [Zero L] [One L] [Inv L] [Sq L] [DecidableEq L] {f : K → L}

theorem Fp2.map_powNatG (h : OpsHom f) (a : Fp2 K) (k : Nat) :
    Fp2.map f (Fp2.powNatG a k) = Fp2.powNatG (Fp2.map f a) k := by
  unfold Fp2.powNatG
  generalize (List.range (Fp12.bitLen k)).reverse = l
  have : ∀ acc : Fp2 K, Fp2.map f (l.foldl (fun acc i => let t := acc.mul acc; if k.testBit i then t.mul a else t) acc) =
      l.foldl (fun acc i => let t := acc.mul acc; if k.testBit i then t.mul (Fp2.map f a) else t) (Fp2.map f acc) := by
    induction l with
    | nil => intro acc; rfl
    | cons i l ih =>
      intro acc
      simp only [List.foldl_cons]
      rw [ih]
      congr 1
      by_cases hb : k.testBit i
      · simp only [hb, if_true, Fp2.map_mul' h]
      · simp only [hb, Bool.false_eq_true, if_false, Fp2.map_mul' h]
  rw [this, Fp2.map_one' h]
end

theorem Fp2.powNatG_eq_pow {R : Type} [CommRing R] (a : Fp2 R) (k : Nat) : Fp2.powNatG a k = a ^ k := by
  unfold Fp2.powNatG
  have h := Scalar.sqmul_fold (M := Fp2 R) a k (Fp12.bitLen k) 1
  simp only [one_pow, one_mul] at h
  rw [Nat.mod_eq_of_lt (Scalar.lt_two_pow_bitLen k)] at h
  rw [← h]
  congr 1

set_option maxRecDepth 1000000 in
/-- the three constants used by the p-power Frobenius as powers of ξ, in Montgomery arithmetic (kernel) -/
theorem frobConsts_powers_mont :
    Fp2.powNat xiM ((Bn256.p - 1) / 6) = frobConsts.xiToPMinus1Over6 ∧
    Fp2.powNat xiM ((Bn256.p - 1) / 3) = frobConsts.xiToPMinus1Over3 ∧
    Fp2.powNat xiM ((2 * Bn256.p - 2) / 3) = frobConsts.xiTo2PMinus2Over3 := by decide +kernel

/-- transport of one such equation to F_p² -/
theorem const_power_dec (c : F2) (hc : Red2 c) (n : Nat) (h : Fp2.powNat xiM n = c) :
    Fp2.map decR (lift2R c hc) = (Fp2.xi : Fp2 (ZMod p)) ^ n := by
  have hv : Fp2.map valF (Fp2.powNatG xiR n) = Fp2.map valF (lift2R c hc) := by
    rw [Fp2.map_powNatG valHom]
    exact h
  have hR : Fp2.powNatG xiR n = lift2R c hc := Fp2.map_inj valHom hv
  rw [← hR, Fp2.map_powNatG decHom, dec_xiR, Fp2.powNatG_eq_pow]

/-- **the code's Frobenius constants are the powers of ξ they are named after** (in F_p²) -/
theorem frobConstsFp_powers :
    frobConstsFp.xiToPMinus1Over6 = (Fp2.xi : Fp2 (ZMod p)) ^ ((p - 1) / 6) ∧
    frobConstsFp.xiToPMinus1Over3 = (Fp2.xi : Fp2 (ZMod p)) ^ ((p - 1) / 3) ∧
    frobConstsFp.xiTo2PMinus2Over3 = (Fp2.xi : Fp2 (ZMod p)) ^ ((2 * p - 2) / 3) := by
  obtain ⟨h6, h3, h23⟩ := frobConsts_powers_mont
  exact ⟨const_power_dec _ frobConsts_reduced.1 _ h6, const_power_dec _ frobConsts_reduced.2.1 _ h3,
    const_power_dec _ frobConsts_reduced.2.2.2.1 _ h23⟩

/-- **gfP12.Frobenius with the code's constants is x ↦ x^p** on gfP12 over F_p -/
theorem frobenius_is_p_power (a : Fp12 (ZMod p)) : Fp12.frobeniusG frobConstsFp a = a ^ p := by
  obtain ⟨h6, h3, h23⟩ := frobConstsFp_powers
  exact Fp12.frobeniusG_eq_pow p (fun c => ZMod.pow_card c) (by decide) (by decide) frobConstsFp h3 h23 h6 a

theorem frobenius6_is_p_power (a : Fp6 (ZMod p)) : Fp6.frobeniusG frobConstsFp a = a ^ p := by
  obtain ⟨_, h3, h23⟩ := frobConstsFp_powers
  exact Fp6.frobeniusG_eq_pow p (fun c => ZMod.pow_card c) (by decide) (by decide) frobConstsFp h3 h23 a

end Dos.Bn256

package c20

// Limb-level differential cases: the REAL field code (fe.go) and group code (ge.go) of
// group/edwards25519 through the hooks of zz_verif_ed25519fe.go against the regenerated Lean
// translation (Model/Ed25519FeOps.lean, Model/Ed25519Ge.lean), limb for limb and byte for byte,
// and against math/big.
//
// Tokens: a limb vector is `l0,l1,…,l9` (decimal int32, leading `-`); a group struct is its limb
// vectors joined by `/` in field order (projective X/Y/Z, extended and completed X/Y/Z/T,
// precomputed yPlusX/yMinusX/xy2d, cached yPlusX/yMinusX/Z/T2d); bytes are hex.
//
//	fe mul|add|sub <pat> F G          pat = fresh | h=f | h=g | f=g | all   (which objects are one object;
//	                                  with f=g / all the second vector is not used)      → result limbs
//	fe square|square2|neg|copy|invert|pow22523 <pat> F      pat = fresh | h=f            → result limbs
//	fe zero|one fresh F               F = previous contents of the object                → result limbs
//	fe cmove <pat> F G B              pat = fresh | f=g; B the int32 selector            → new limbs of f
//	fe frombytes fresh HEX                                                                → result limbs
//	fe tobytes fresh H                → `hex limbs` (the 32 bytes and the argument as the routine leaves it)
//	fe isneg|isnonzero fresh F        → `value limbs`
//	ge zero proj|ext|pre|cached S     S = previous contents                              → struct
//	ge double P3 | ge extdouble P4                                                        → completed
//	ge neg fresh|inplace P4 | ge tocached P4 | ge toproj P4 | ge c2proj C4 | ge c2ext C4  → struct
//	ge add|sub P4 Q4(cached) | ge madd|msub P4 Q3(precomputed)                            → completed
//	ge precmove P3 U3 B | ge preneg T3 | ge cachedcmove R4 U4 B | ge cachedneg T4         → struct
//	ge ptobytes P3 | ge tobytes P4                                                        → hex
//	ge frombytes HEX                                                                      → `false` | extended
//	ge equal B C | ge negative B                                                          → int32
//	ge selpre POS B | ge selcached B C0 … C7                                              → struct
//	ge smult fresh|inplace A P4 | ge smultbase A     A = 32 scalar bytes                  → extended
//	ge baseext                                                                            → extended
//	pt2 add|sub|equal P Q | pt2 neg P | pt2 mul S P | pt2 mulbase S | pt2 base | pt2 null | pt2 unmarshal X
//	        the kyber Point API of suite.Point() on 32-byte encodings (S = raw scalar bytes as
//	        UnmarshalBinary stores them) → `hex limbs` of the result (`ok hex limbs` | `err`; `true|false`)
//
// Every output object is pre-filled with a junk pattern, so a dependence on previous contents shows.
// Oracles (math/big, nothing from the repo): see feOracle / geOracle. An oracle is applied only when
// the operands are within the limb bounds under which ref10 states its contracts (no feMul/feSquare
// input above 3×B, B = 1.1·2^25 / 1.1·2^24 for even / odd limbs; feToBytes and friends up to 3×B;
// scalar multiplication with a[31] ≤ 127); outside them the class gets the suffix `-wild` and only
// model = implementation is required.

import (
	"bytes"
	"encoding/hex"
	"fmt"
	"math/big"
	"strconv"
	"strings"

	"github.com/DOSNetwork/core/group/edwards25519"
	"github.com/dedis/kyber"

	"verifharness/internal/h"
)

type kyberPoint = kyber.Point
type fe = [10]int32
type ge4 = edwards25519.VerifGe
type ge3 = edwards25519.VerifGe3

const bEven, bOdd = 36909875, 18454937 // floor(1.1·2^25), floor(1.1·2^24)

var feShift = [10]uint{0, 26, 51, 77, 102, 128, 153, 179, 204, 230}
var feWidth = [10]uint{26, 25, 26, 25, 26, 25, 26, 25, 26, 25}

func bnd(i int) int64 {
	if i%2 == 0 {
		return bEven
	}
	return bOdd
}

// ---------- tokens ----------

func parseFe(tok string) fe {
	var l fe
	p := strings.Split(tok, ",")
	if len(p) != 10 {
		panic("case line: a limb vector has 10 limbs: " + tok)
	}
	for i, s := range p {
		v, err := strconv.ParseInt(s, 10, 32)
		if err != nil {
			panic("case line: bad limb " + s)
		}
		l[i] = int32(v)
	}
	return l
}

func showFe(l *fe) string {
	var sb strings.Builder
	for i, v := range l {
		if i > 0 {
			sb.WriteByte(',')
		}
		sb.WriteString(strconv.FormatInt(int64(v), 10))
	}
	return sb.String()
}

func parse4(tok string) (g ge4) {
	p := strings.Split(tok, "/")
	if len(p) != 4 {
		panic("case line: struct of 4 limb vectors expected")
	}
	for i := range g {
		g[i] = parseFe(p[i])
	}
	return
}

func parse3(tok string) (g ge3) {
	p := strings.Split(tok, "/")
	if len(p) != 3 {
		panic("case line: struct of 3 limb vectors expected")
	}
	for i := range g {
		g[i] = parseFe(p[i])
	}
	return
}

func show4(g *ge4) string {
	return showFe(&g[0]) + "/" + showFe(&g[1]) + "/" + showFe(&g[2]) + "/" + showFe(&g[3])
}
func show3(g *ge3) string { return showFe(&g[0]) + "/" + showFe(&g[1]) + "/" + showFe(&g[2]) }

func parseI32(s string) int32 {
	v, err := strconv.ParseInt(s, 10, 32)
	if err != nil {
		panic("case line: bad int32 " + s)
	}
	return int32(v)
}

func junkFe(k int) (l fe) {
	for i := range l {
		l[i] = int32(0x5a5a5a5a) ^ int32(0x01010101*(i+3*k))
	}
	return
}
func junk4() (g ge4) {
	for i := range g {
		g[i] = junkFe(i + 1)
	}
	return
}
func junk3() (g ge3) {
	for i := range g {
		g[i] = junkFe(i + 5)
	}
	return
}

// ---------- math/big views ----------

// the integer a limb vector stands for (signed), and its residue
func feInt(l *fe) *big.Int {
	v := new(big.Int)
	for i := 9; i >= 0; i-- {
		t := new(big.Int).Lsh(big.NewInt(int64(l[i])), feShift[i])
		v.Add(v, t)
	}
	return v
}
func feRes(l *fe) *big.Int { v := feInt(l); return v.Mod(v, prime) }

// canonical digits of v (0 ≤ v < 2^255): limb i in [0, 2^width)
func canonLimbs(v *big.Int) (l fe) {
	for i := range l {
		t := new(big.Int).Rsh(v, feShift[i])
		t.And(t, new(big.Int).Sub(pow2(feWidth[i]), big.NewInt(1)))
		l[i] = int32(t.Int64())
	}
	return
}

// balanced digits of v mod p: limb i in [-2^(w-1), 2^(w-1)) (+19 at most on limb 0), the shape feMul leaves
func balLimbs(v *big.Int) (l fe) {
	c := canonLimbs(new(big.Int).Mod(v, prime))
	var carry int32
	for i := range c {
		d := c[i] + carry
		carry = 0
		half := int32(1) << (feWidth[i] - 1)
		if d >= half {
			d -= half << 1
			carry = 1
		}
		l[i] = d
	}
	l[0] += 19 * carry
	return
}

func within(l *fe, k int64) bool {
	for i, v := range l {
		a := int64(v)
		if a < 0 {
			a = -a
		}
		if a > k*bnd(i) {
			return false
		}
	}
	return true
}

// |a_i| + |b_i| ≤ k×B_i
func sumWithin(a, b *fe, k int64) bool {
	for i := range a {
		x, y := int64(a[i]), int64(b[i])
		if x < 0 {
			x = -x
		}
		if y < 0 {
			y = -y
		}
		if x+y > k*bnd(i) {
			return false
		}
	}
	return true
}

func noWrap32(a, b *fe, sub bool) bool {
	for i := range a {
		s := int64(a[i]) + int64(b[i])
		if sub {
			s = int64(a[i]) - int64(b[i])
		}
		if s != int64(int32(s)) {
			return false
		}
	}
	return true
}

func mulP(a, b *big.Int) *big.Int { return fmod(new(big.Int).Mul(a, b)) }
func invP(a *big.Int) *big.Int {
	r := new(big.Int).ModInverse(a, prime)
	if r == nil {
		return big.NewInt(0)
	}
	return r
}

var ptIdent = apt{big.NewInt(0), big.NewInt(1)}

func sameApt(a, b apt) bool  { return a.x.Cmp(b.x) == 0 && a.y.Cmp(b.y) == 0 }
func (a apt) String() string { return hex.EncodeToString(bigEncode(a.x, a.y)) }

func onCurve(a apt) bool {
	xx, yy := mulP(a.x, a.x), mulP(a.y, a.y)
	l := fmod(new(big.Int).Sub(yy, xx))
	r := fmod(new(big.Int).Add(big.NewInt(1), mulP(curveD, mulP(xx, yy))))
	return l.Cmp(r) == 0
}

// affine point of (X:Y:Z); ok = Z invertible and the point is on the curve
func affProj(X, Y, Z *fe) (apt, bool) {
	z := feRes(Z)
	if z.Sign() == 0 {
		return apt{}, false
	}
	zi := invP(z)
	a := apt{mulP(feRes(X), zi), mulP(feRes(Y), zi)}
	return a, onCurve(a)
}

// completed ((X:Z),(Y:T))
func affCompl(c *ge4) (apt, bool) {
	z, t := feRes(&c[2]), feRes(&c[3])
	if z.Sign() == 0 || t.Sign() == 0 {
		return apt{}, false
	}
	a := apt{mulP(feRes(&c[0]), invP(z)), mulP(feRes(&c[1]), invP(t))}
	return a, onCurve(a)
}

// extended: affine point and the invariant X·Y = Z·T
func affExt(e *ge4) (a apt, ok, inv bool) {
	a, ok = affProj(&e[0], &e[1], &e[2])
	inv = mulP(feRes(&e[0]), feRes(&e[1])).Cmp(mulP(feRes(&e[2]), feRes(&e[3]))) == 0
	return
}

var two = big.NewInt(2)

// cached (Y+X, Y-X, Z, 2dT): affine point; ok includes T2d·Z = 2d·X·Y
func affCached(c *ge4) (apt, bool) {
	i2 := invP(two)
	X := mulP(fmod(new(big.Int).Sub(feRes(&c[0]), feRes(&c[1]))), i2)
	Y := mulP(fmod(new(big.Int).Add(feRes(&c[0]), feRes(&c[1]))), i2)
	z := feRes(&c[2])
	if z.Sign() == 0 {
		return apt{}, false
	}
	zi := invP(z)
	a := apt{mulP(X, zi), mulP(Y, zi)}
	t := mulP(mulP(two, curveD), mulP(X, Y))
	return a, onCurve(a) && t.Cmp(mulP(feRes(&c[3]), z)) == 0
}

// precomputed (y+x, y-x, 2dxy)
func affPre(c *ge3) (apt, bool) {
	i2 := invP(two)
	a := apt{mulP(fmod(new(big.Int).Sub(feRes(&c[0]), feRes(&c[1]))), i2), mulP(fmod(new(big.Int).Add(feRes(&c[0]), feRes(&c[1]))), i2)}
	t := mulP(mulP(two, curveD), mulP(a.x, a.y))
	return a, onCurve(a) && t.Cmp(feRes(&c[2])) == 0
}

func wildIf(cond bool) string {
	if cond {
		return "-wild"
	}
	return ""
}

// ---------- exec: fe ----------

func execFe(w []string, res *h.Result) {
	op, pat := w[1], w[2]
	res.Class = "fe-" + op
	res.Nontrivial = true
	fail := func(sig, f string, a ...interface{}) {
		if res.Oracle == "" {
			res.Oracle = "fe-" + op + "-" + sig + ": " + fmt.Sprintf(f, a...)
		}
	}
	if op == "frombytes" {
		src := h.UnHex(w[3])
		if len(src) != 32 {
			panic("fe frombytes wants 32 bytes")
		}
		H := junkFe(0)
		edwards25519.VerifFeFromBytes(&H, src)
		res.Impl = showFe(&H)
		want := le(src)
		want.SetBit(want, 255, 0)
		if feRes(&H).Cmp(fmod(want)) != 0 {
			fail("value", "got %s want %s", feRes(&H), want)
		}
		if !within(&H, 1) {
			fail("bound", "output limbs %s exceed 1.1*2^25/2^24", showFe(&H))
		}
		return
	}
	F := parseFe(w[3])
	f0 := F // value before the call
	switch op {
	case "tobytes", "isneg", "isnonzero":
		wild := !within(&f0, 3)
		res.Class += wildIf(wild)
		v := feRes(&f0)
		switch op {
		case "tobytes":
			var s [32]byte
			edwards25519.VerifFeToBytes(&s, &F)
			res.Impl = h.Hex(s[:]) + " " + showFe(&F)
			if !wild && !bytes.Equal(s[:], le32(v)) {
				res.Oracle = fmt.Sprintf("fe-tobytes-noncanonical: got %s want %s", h.Hex(s[:]), h.Hex(le32(v)))
			}
		case "isneg":
			r := edwards25519.VerifFeIsNegative(&F)
			res.Impl = fmt.Sprintf("%d %s", r, showFe(&F))
			if !wild && uint(r) != v.Bit(0) {
				fail("value", "got %d for %s", r, v)
			}
		case "isnonzero":
			r := edwards25519.VerifFeIsNonZero(&F)
			res.Impl = fmt.Sprintf("%d %s", r, showFe(&F))
			if !wild && (r == 1) != (v.Sign() != 0) || (r != 0 && r != 1) {
				fail("value", "got %d for %s", r, v)
			}
		}
		// the routine leaves the canonical digits of the value in its argument
		if c := canonLimbs(v); !wild && F != c {
			fail("limbs", "argument left as %s, canonical digits are %s", showFe(&F), showFe(&c))
		}
	case "mul", "add", "sub":
		G := parseFe(w[4])
		H := junkFe(0)
		pf, pg, ph := &F, &G, &H
		switch pat {
		case "fresh":
		case "h=f":
			ph = pf
		case "h=g":
			ph = pg
		case "f=g":
			pg, G = pf, F
		case "all":
			pg, ph, G = pf, pf, F
		default:
			panic("bad fe alias pattern")
		}
		g0 := G
		var want *big.Int
		wild := false
		switch op {
		case "mul":
			edwards25519.VerifFeMul(ph, pf, pg)
			want = mulP(feRes(&f0), feRes(&g0))
			wild = !within(&f0, 3) || !within(&g0, 3)
		case "add":
			edwards25519.VerifFeAdd(ph, pf, pg)
			want = fmod(new(big.Int).Add(feRes(&f0), feRes(&g0)))
			wild = !noWrap32(&f0, &g0, false)
		case "sub":
			edwards25519.VerifFeSub(ph, pf, pg)
			want = fmod(new(big.Int).Sub(feRes(&f0), feRes(&g0)))
			wild = !noWrap32(&f0, &g0, true)
		}
		res.Impl = showFe(ph)
		res.Class += "-" + pat + wildIf(wild)
		if ph != pf && F != f0 {
			fail("operand-clobbered", "first operand changed")
		}
		if ph != pg && pg != pf && G != g0 {
			fail("operand-clobbered", "second operand changed")
		}
		if wild {
			return
		}
		if feRes(ph).Cmp(want) != 0 {
			fail("value", "got %s want %s", feRes(ph), want)
		}
		if op == "mul" && !within(ph, 1) {
			fail("bound", "output limbs %s exceed 1.1*2^25/2^24", showFe(ph))
		}
	case "square", "square2", "neg", "copy", "invert", "pow22523":
		H := junkFe(0)
		pf, ph := &F, &H
		switch pat {
		case "fresh":
		case "h=f":
			ph = pf
		default:
			panic("bad fe alias pattern")
		}
		v := feRes(&f0)
		var want *big.Int
		wild := false
		bound := true
		switch op {
		case "square":
			edwards25519.VerifFeSquare(ph, pf)
			want, wild = mulP(v, v), !within(&f0, 3)
		case "square2":
			edwards25519.VerifFeSquare2(ph, pf)
			want, wild = mulP(two, mulP(v, v)), !within(&f0, 3)
		case "neg":
			edwards25519.VerifFeNeg(ph, pf)
			want, bound = fmod(new(big.Int).Neg(v)), false
			for _, x := range f0 {
				wild = wild || x == -1<<31
			}
		case "copy":
			edwards25519.VerifFeCopy(ph, pf)
			want, bound = v, false
			if *ph != f0 {
				fail("value", "copy differs from the source")
			}
		case "invert":
			edwards25519.VerifFeInvert(ph, pf)
			want, wild = new(big.Int).Exp(v, new(big.Int).Sub(prime, two), prime), !within(&f0, 3)
		case "pow22523":
			edwards25519.VerifFePow22523(ph, pf)
			e := new(big.Int).Rsh(new(big.Int).Sub(prime, big.NewInt(5)), 3)
			want, wild = new(big.Int).Exp(v, e, prime), !within(&f0, 3)
		}
		res.Impl = showFe(ph)
		res.Class += "-" + pat + wildIf(wild)
		if ph != pf && F != f0 {
			fail("operand-clobbered", "operand changed")
		}
		if wild {
			return
		}
		if feRes(ph).Cmp(want) != 0 {
			fail("value", "got %s want %s", feRes(ph), want)
		}
		if bound && !within(ph, 1) {
			fail("bound", "output limbs %s exceed 1.1*2^25/2^24", showFe(ph))
		}
	case "zero", "one":
		want := fe{}
		if op == "zero" {
			edwards25519.VerifFeZero(&F)
		} else {
			edwards25519.VerifFeOne(&F)
			want[0] = 1
		}
		res.Impl = showFe(&F)
		if F != want {
			fail("value", "got %s", showFe(&F))
		}
	case "cmove":
		G := parseFe(w[4])
		b := parseI32(w[5])
		pf, pg := &F, &G
		switch pat {
		case "fresh":
		case "f=g":
			pg, G = pf, F
		default:
			panic("bad fe alias pattern")
		}
		g0 := G
		edwards25519.VerifFeCMove(pf, pg, b)
		res.Impl = showFe(pf)
		res.Class += "-" + pat + wildIf(b != 0 && b != 1)
		if pg != pf && G != g0 {
			fail("operand-clobbered", "g changed")
		}
		if b == 0 && F != f0 {
			fail("value", "b = 0 but f changed")
		}
		if b == 1 && F != g0 {
			fail("value", "b = 1 but f is not g")
		}
	default:
		panic("bad fe op")
	}
}

// ---------- exec: ge ----------

func all3(g *ge3, k int64) bool { return within(&g[0], k) && within(&g[1], k) && within(&g[2], k) }
func all4(g *ge4, k int64) bool {
	return within(&g[0], k) && within(&g[1], k) && within(&g[2], k) && within(&g[3], k)
}

func execGe(w []string, res *h.Result) {
	op := w[1]
	res.Class = "ge-" + op
	res.Nontrivial = true
	fail := func(sig, f string, a ...interface{}) {
		if res.Oracle == "" {
			res.Oracle = "ge-" + op + "-" + sig + ": " + fmt.Sprintf(f, a...)
		}
	}
	wrong := func(got, want apt) {
		if !sameApt(got, want) {
			fail("wrong", "got %s want %s", got, want)
		}
	}
	// result (completed) of an operation on curve points
	checkCompl := func(c *ge4, want apt) {
		got, ok := affCompl(c)
		if !ok {
			fail("wrong", "result is not a curve point")
			return
		}
		wrong(got, want)
	}
	checkExt := func(e *ge4, want apt) {
		got, ok, inv := affExt(e)
		if !ok {
			fail("wrong", "result is not a curve point")
			return
		}
		wrong(got, want)
		if !inv {
			fail("invariant", "X*Y != Z*T")
		}
	}
	switch op {
	case "zero":
		res.Class += "-" + w[2]
		switch w[2] {
		case "proj":
			p := parse3(w[3])
			edwards25519.VerifGeProjZero(&p)
			res.Impl = show3(&p)
			if a, ok := affProj(&p[0], &p[1], &p[2]); !ok || !sameApt(a, ptIdent) {
				fail("wrong", "not the identity")
			}
		case "ext":
			p := parse4(w[3])
			edwards25519.VerifGeExtZero(&p)
			res.Impl = show4(&p)
			checkExt(&p, ptIdent)
		case "pre":
			p := parse3(w[3])
			edwards25519.VerifGePreZero(&p)
			res.Impl = show3(&p)
			if a, ok := affPre(&p); !ok || !sameApt(a, ptIdent) {
				fail("wrong", "not the identity")
			}
		case "cached":
			p := parse4(w[3])
			edwards25519.VerifGeCachedZero(&p)
			res.Impl = show4(&p)
			if a, ok := affCached(&p); !ok || !sameApt(a, ptIdent) {
				fail("wrong", "not the identity")
			}
		default:
			panic("bad ge zero kind")
		}
	case "double", "extdouble":
		r := junk4()
		var X, Y, Z *fe
		if op == "double" {
			p := parse3(w[2])
			p0 := p
			edwards25519.VerifGeDouble(&r, &p)
			X, Y, Z = &p0[0], &p0[1], &p0[2]
			if p != p0 {
				fail("operand-clobbered", "p changed")
			}
		} else {
			p := parse4(w[2])
			p0 := p
			edwards25519.VerifGeExtDouble(&r, &p)
			X, Y, Z = &p0[0], &p0[1], &p0[2]
			if p != p0 {
				fail("operand-clobbered", "p changed")
			}
		}
		res.Impl = show4(&r)
		a, ok := affProj(X, Y, Z)
		wild := !ok || !sumWithin(X, Y, 3) || !within(Z, 3)
		res.Class += wildIf(wild)
		if !wild {
			checkCompl(&r, bigAdd(a, a))
		}
	case "neg":
		p := parse4(w[3])
		p0 := p
		r := junk4()
		switch w[2] {
		case "fresh":
			edwards25519.VerifGeNeg(&r, &p)
			if p != p0 {
				fail("operand-clobbered", "s changed")
			}
		case "inplace":
			edwards25519.VerifGeNegInPlace(&p)
			r = p
		default:
			panic("bad ge neg pattern")
		}
		res.Impl = show4(&r)
		a, ok, inv := affExt(&p0)
		wild := !ok || !inv
		res.Class += "-" + w[2] + wildIf(wild)
		if !wild {
			checkExt(&r, bigNeg(a))
		}
	case "tocached":
		p := parse4(w[2])
		p0 := p
		r := junk4()
		edwards25519.VerifGeToCached(&r, &p)
		res.Impl = show4(&r)
		a, ok, inv := affExt(&p0)
		wild := !ok || !inv || !within(&p0[3], 3) || !noWrap32(&p0[1], &p0[0], false) || !noWrap32(&p0[1], &p0[0], true)
		res.Class += wildIf(wild)
		if p != p0 {
			fail("operand-clobbered", "p changed")
		}
		if !wild {
			if got, ok := affCached(&r); !ok {
				fail("wrong", "result is not a cached curve point")
			} else {
				wrong(got, a)
			}
		}
	case "toproj", "c2proj":
		r := junk3()
		var want apt
		var wild bool
		if op == "toproj" {
			p := parse4(w[2])
			edwards25519.VerifGeExtToProjective(&r, &p)
			a, ok := affProj(&p[0], &p[1], &p[2])
			want, wild = a, !ok
		} else {
			c := parse4(w[2])
			c0 := c
			edwards25519.VerifGeToProjective(&r, &c)
			a, ok := affCompl(&c0)
			want, wild = a, !ok || !all4(&c0, 3)
			if c != c0 {
				fail("operand-clobbered", "c changed")
			}
		}
		res.Impl = show3(&r)
		res.Class += wildIf(wild)
		if !wild {
			if got, ok := affProj(&r[0], &r[1], &r[2]); !ok {
				fail("wrong", "result is not a curve point")
			} else {
				wrong(got, want)
			}
			if op == "c2proj" && !all3(&r, 1) {
				fail("bound", "output limbs exceed 1.1*2^25/2^24")
			}
		}
	case "c2ext":
		c := parse4(w[2])
		c0 := c
		r := junk4()
		edwards25519.VerifGeToExtended(&r, &c)
		res.Impl = show4(&r)
		a, ok := affCompl(&c0)
		wild := !ok || !all4(&c0, 3)
		res.Class += wildIf(wild)
		if c != c0 {
			fail("operand-clobbered", "c changed")
		}
		if !wild {
			checkExt(&r, a)
			if !all4(&r, 1) {
				fail("bound", "output limbs exceed 1.1*2^25/2^24")
			}
		}
	case "add", "sub", "madd", "msub":
		p := parse4(w[2])
		p0 := p
		c := junk4()
		pa, ok1, inv := affExt(&p0)
		var qa apt
		var ok2, qb bool
		if op == "add" || op == "sub" {
			q := parse4(w[3])
			q0 := q
			if op == "add" {
				edwards25519.VerifGeAdd(&c, &p, &q)
			} else {
				edwards25519.VerifGeSub(&c, &p, &q)
			}
			qa, ok2 = affCached(&q0)
			qb = all4(&q0, 3)
			if q != q0 {
				fail("operand-clobbered", "q changed")
			}
		} else {
			q := parse3(w[3])
			q0 := q
			if op == "madd" {
				edwards25519.VerifGeMixedAdd(&c, &p, &q)
			} else {
				edwards25519.VerifGeMixedSub(&c, &p, &q)
			}
			qa, ok2 = affPre(&q0)
			qb = all3(&q0, 3)
			if q != q0 {
				fail("operand-clobbered", "q changed")
			}
		}
		res.Impl = show4(&c)
		if p != p0 {
			fail("operand-clobbered", "p changed")
		}
		wild := !ok1 || !inv || !ok2 || !qb || !sumWithin(&p0[0], &p0[1], 3) || !within(&p0[2], 3) || !within(&p0[3], 3)
		res.Class += wildIf(wild)
		if !wild {
			if op == "sub" || op == "msub" {
				qa = bigNeg(qa)
			}
			checkCompl(&c, bigAdd(pa, qa))
			if !all4(&c, 3) {
				fail("bound", "output limbs exceed 3 x 1.1*2^25/2^24")
			}
		}
	case "precmove", "cachedcmove":
		b := parseI32(w[4])
		res.Class += wildIf(b != 0 && b != 1)
		if op == "precmove" {
			p, u := parse3(w[2]), parse3(w[3])
			p0, u0 := p, u
			edwards25519.VerifGePreCMove(&p, &u, b)
			res.Impl = show3(&p)
			if u != u0 || (b == 0 && p != p0) || (b == 1 && p != u0) {
				fail("wrong", "b = %d", b)
			}
		} else {
			p, u := parse4(w[2]), parse4(w[3])
			p0, u0 := p, u
			edwards25519.VerifGeCachedCMove(&p, &u, b)
			res.Impl = show4(&p)
			if u != u0 || (b == 0 && p != p0) || (b == 1 && p != u0) {
				fail("wrong", "b = %d", b)
			}
		}
	case "preneg":
		t := parse3(w[2])
		t0 := t
		r := junk3()
		edwards25519.VerifGePreNeg(&r, &t)
		res.Impl = show3(&r)
		a, ok := affPre(&t0)
		res.Class += wildIf(!ok)
		if t != t0 {
			fail("operand-clobbered", "t changed")
		}
		if ok {
			if got, ok := affPre(&r); !ok {
				fail("wrong", "result is not a precomputed curve point")
			} else {
				wrong(got, bigNeg(a))
			}
		}
	case "cachedneg":
		t := parse4(w[2])
		t0 := t
		r := junk4()
		edwards25519.VerifGeCachedNeg(&r, &t)
		res.Impl = show4(&r)
		a, ok := affCached(&t0)
		res.Class += wildIf(!ok)
		if t != t0 {
			fail("operand-clobbered", "t changed")
		}
		if ok {
			if got, ok := affCached(&r); !ok {
				fail("wrong", "result is not a cached curve point")
			} else {
				wrong(got, bigNeg(a))
			}
		}
	case "ptobytes", "tobytes":
		var s [32]byte
		var a apt
		var wild bool
		if op == "ptobytes" {
			p := parse3(w[2])
			p0 := p
			edwards25519.VerifGeProjToBytes(&s, &p)
			var ok bool
			a, ok = affProj(&p0[0], &p0[1], &p0[2])
			wild = !ok || !all3(&p0, 3)
			if p != p0 {
				fail("operand-clobbered", "p changed")
			}
		} else {
			p := parse4(w[2])
			p0 := p
			edwards25519.VerifGeToBytes(&s, &p)
			var ok bool
			a, ok = affProj(&p0[0], &p0[1], &p0[2])
			wild = !ok || !all4(&p0, 3)
			if p != p0 {
				fail("operand-clobbered", "p changed")
			}
		}
		res.Impl = h.Hex(s[:])
		res.Class += wildIf(wild)
		if !wild && !bytes.Equal(s[:], bigEncode(a.x, a.y)) {
			fail("wrong", "got %s want %s", h.Hex(s[:]), a)
		}
	case "frombytes":
		src := h.UnHex(w[2])
		p := junk4()
		ok := edwards25519.VerifGeFromBytes(&p, src)
		bx, by, canon, bok := bigDecode(src)
		if !ok {
			res.Impl = "false"
			res.Class += "-rejected"
			if bok {
				res.Oracle = "pt-decode-accept: valid encoding refused: " + h.Hex(src)
			}
			return
		}
		res.Impl = show4(&p)
		if !canon {
			res.Class += "-noncanonical"
		}
		if !bok {
			res.Oracle = "pt-decode-accept: not a curve point but accepted: " + h.Hex(src)
			return
		}
		checkExt(&p, apt{bx, by})
		// FromBytes then ToBytes: the same affine point (the canonical encoding of it)
		var s [32]byte
		q := p
		edwards25519.VerifGeToBytes(&s, &q)
		if !bytes.Equal(s[:], bigEncode(bx, by)) || (canon && !bytes.Equal(s[:], src)) {
			if res.Oracle == "" {
				res.Oracle = "pt-roundtrip: " + h.Hex(src) + " came back as " + h.Hex(s[:])
			}
		}
	case "equal":
		b, c := parseI32(w[2]), parseI32(w[3])
		r := edwards25519.VerifEqual(b, c)
		res.Impl = fmt.Sprint(r)
		// the callers pass |digit| and a table index; with operands of different sign the top bit of b^c is set
		// and the routine answers 1: outside its use, model = implementation only
		if b < 0 || c < 0 {
			res.Class += "-wild"
		} else if (r == 1) != (b == c) || (r != 0 && r != 1) {
			fail("wrong", "equal(%d,%d) = %d", b, c, r)
		}
	case "negative":
		b := parseI32(w[2])
		r := edwards25519.VerifNegative(b)
		res.Impl = fmt.Sprint(r)
		if (r == 1) != (b < 0) || (r != 0 && r != 1) {
			fail("wrong", "negative(%d) = %d", b, r)
		}
	case "selpre":
		pos, b := parseI32(w[2]), parseI32(w[3])
		t := junk3()
		edwards25519.VerifSelectPreComputed(&t, pos, b)
		res.Impl = show3(&t)
		wild := b < -8 || b > 8
		res.Class += wildIf(wild)
		if !wild {
			// base[pos][i] = (i+1)·256^pos·B
			k := new(big.Int).Lsh(big.NewInt(1), uint(8*pos))
			want := bigMul(k.Mul(k, big.NewInt(int64(iabs(b)))), bigBase)
			if b < 0 {
				want = bigNeg(want)
			}
			if got, ok := affPre(&t); !ok {
				fail("wrong", "result is not a precomputed curve point")
			} else {
				wrong(got, want)
			}
		}
	case "selcached":
		b := parseI32(w[2])
		var ai [8]ge4
		for i := range ai {
			ai[i] = parse4(w[3+i])
		}
		c := junk4()
		edwards25519.VerifSelectCached(&c, &ai, b)
		res.Impl = show4(&c)
		wild := b < -8 || b > 8
		want := ptIdent
		if !wild && b != 0 {
			a, ok := affCached(&ai[iabs(b)-1])
			wild = !ok
			want = a
			if b < 0 && ok {
				want = bigNeg(a)
			}
		}
		res.Class += wildIf(wild)
		if !wild {
			if got, ok := affCached(&c); !ok {
				fail("wrong", "result is not a cached curve point")
			} else {
				wrong(got, want)
			}
		}
	case "smult":
		a := arr32(h.UnHex(w[3]))
		A := parse4(w[4])
		A0 := A
		r := junk4()
		switch w[2] {
		case "fresh":
			edwards25519.VerifGeScalarMult(&r, a, &A)
			if A != A0 {
				fail("operand-clobbered", "A changed")
			}
		case "inplace":
			edwards25519.VerifGeScalarMultInPlace(&A, a)
			r = A
		default:
			panic("bad ge smult pattern")
		}
		res.Impl = show4(&r)
		pa, ok, inv := affExt(&A0)
		// documented precondition a[31] <= 127: beyond it only model = implementation is required
		wild := !ok || !inv || a[31] > 127 || !(within(&A0[0], 2) && within(&A0[1], 1) && within(&A0[2], 1) && within(&A0[3], 1))
		res.Class += "-" + w[2] + wildIf(wild)
		if a[31] > 127 {
			res.Class = "ge-smult-" + w[2] + "-a31>127"
		}
		if !wild {
			got, gok, ginv := affExt(&r)
			want := bigMul(le(a[:]), pa)
			switch {
			case res.Oracle != "":
			case !gok || !sameApt(got, want):
				res.Oracle = fmt.Sprintf("ge-scalarmult-wrong: got %s want %s", got, want)
			case !ginv:
				fail("invariant", "X*Y != Z*T")
			}
		}
	case "smultbase":
		a := arr32(h.UnHex(w[2]))
		r := junk4()
		edwards25519.VerifGeScalarMultBase(&r, a)
		res.Impl = show4(&r)
		if a[31] > 127 {
			res.Class += "-a31>127"
			return
		}
		got, gok, ginv := affExt(&r)
		want := bigMul(le(a[:]), bigBase)
		switch {
		case !gok || !sameApt(got, want):
			res.Oracle = fmt.Sprintf("ge-scalarmult-wrong: base: got %s want %s", got, want)
		case !ginv:
			fail("invariant", "X*Y != Z*T")
		}
	case "baseext":
		b := edwards25519.VerifBaseExt()
		res.Impl = show4(&b)
		checkExt(&b, bigBase)
	default:
		panic("bad ge op")
	}
}

func iabs(b int32) int32 {
	if b < 0 {
		return -b
	}
	return b
}

// ---------- exec: pt2 (kyber Point API vs Dos.Ge.pt*) ----------

func execPt2(w []string, res *h.Result) {
	op := w[1]
	res.Class = "pt2-" + op
	res.Nontrivial = true
	show := func(P interface {
		MarshalBinary() ([]byte, error)
	}, limbs ge4) string {
		b, _ := P.MarshalBinary()
		return h.Hex(b) + " " + show4(&limbs)
	}
	dec := func(tok string) (kyberPoint, apt) {
		b := h.UnHex(tok)
		P := suite.Point()
		if err := P.UnmarshalBinary(b); err != nil {
			panic("pt2: operand does not decode")
		}
		x, y, _, ok := bigDecode(b)
		if !ok {
			panic("pt2: operand is not a curve point")
		}
		return P, apt{x, y}
	}
	check := func(P kyberPoint, want apt) {
		res.Impl = show(P, edwards25519.VerifPointLimbs(P))
		b, _ := P.MarshalBinary()
		if !bytes.Equal(b, bigEncode(want.x, want.y)) {
			res.Oracle = fmt.Sprintf("pt2-%s-wrong: got %s want %s", op, h.Hex(b), want)
		}
	}
	switch op {
	case "base":
		check(suite.Point().Base(), bigBase)
	case "null":
		P, _ := dec("5866666666666666666666666666666666666666666666666666666666666666")
		check(P.Null(), ptIdent)
	case "mulbase":
		sb := h.UnHex(w[2])
		if sb[31] > 127 {
			// outside the contract of the window recoding: point.Mul reduces the scalar first (fix ec5317f);
			// B has order l, so the result is still (value of the bytes)*B
			res.Class += "-a31>127"
		}
		check(suite.Point().Mul(mustScalar(sb), nil), bigMul(le(sb), bigBase))
	case "unmarshal":
		x := h.UnHex(w[2])
		P := suite.Point()
		err := P.UnmarshalBinary(x)
		bx, by, _, ok := bigDecode(x)
		if err != nil {
			res.Impl = "err"
			res.Class += "-err"
			if ok {
				res.Oracle = "pt-decode-accept: valid encoding refused: " + h.Hex(x)
			}
			return
		}
		if !ok {
			res.Impl = "ok"
			res.Oracle = "pt-decode-accept: not a curve point but accepted: " + h.Hex(x)
			return
		}
		check(P, apt{bx, by})
		res.Impl = "ok " + res.Impl
	case "neg":
		P, a := dec(w[2])
		check(suite.Point().Neg(P), bigNeg(a))
	case "mul":
		sb := h.UnHex(w[2])
		P, a := dec(w[3])
		R := suite.Point().Mul(mustScalar(sb), P)
		if sb[31] > 127 {
			// point.Mul reduces an out-of-contract scalar modulo l (fix ec5317f): (s mod l)*P, which is s*P on the
			// prime-order subgroup only
			res.Class += "-a31>127"
			check(R, bigMul(new(big.Int).Mod(le(sb), ell), a))
			return
		}
		check(R, bigMul(le(sb), a))
	case "add", "sub":
		P, a := dec(w[2])
		Q, b := dec(w[3])
		if op == "add" {
			check(suite.Point().Add(P, Q), bigAdd(a, b))
		} else {
			check(suite.Point().Sub(P, Q), bigAdd(a, bigNeg(b)))
		}
	case "equal":
		P, a := dec(w[2])
		Q, b := dec(w[3])
		eq := P.Equal(Q)
		res.Impl = fmt.Sprint(eq)
		if eq != sameApt(a, b) {
			res.Oracle = fmt.Sprintf("pt2-equal-wrong: %v for %s %s", eq, a, b)
		}
	default:
		panic("bad pt2 op")
	}
}

func execFeGe(w []string, res *h.Result) bool {
	switch w[0] {
	case "fe":
		execFe(w, res)
	case "ge":
		execGe(w, res)
	case "pt2":
		execPt2(w, res)
	default:
		return false
	}
	return true
}

// ---------- generation: field operands ----------

func limbsBy(f func(i int) int64) (l fe) {
	for i := range l {
		l[i] = int32(f(i))
	}
	return
}

func rndIn(rng *h.Rng, m int64) int64 { return int64(rng.U64()%uint64(2*m+1)) - m }

// operands at the k×B boundary: all +, all -, alternating, near-boundary, single extreme limbs, random
func feOperands(rng *h.Rng, k int64, nOne, nRand int) []fe {
	vs := []fe{
		limbsBy(func(i int) int64 { return k * bnd(i) }),
		limbsBy(func(i int) int64 { return -k * bnd(i) }),
		limbsBy(func(i int) int64 { return (1 - 2*int64(i%2)) * k * bnd(i) }),
		limbsBy(func(i int) int64 { return (2*int64(i%2) - 1) * k * bnd(i) }),
		limbsBy(func(i int) int64 { return (1 - 2*int64(rng.Intn(2))) * (k*bnd(i) - int64(rng.Intn(4))) }),
	}
	for j := 0; j < nOne; j++ {
		at, s := rng.Intn(10), 1-2*int64(rng.Intn(2))
		vs = append(vs, limbsBy(func(i int) int64 {
			if i == at {
				return s * k * bnd(i)
			}
			return 0
		}))
	}
	for j := 0; j < nRand; j++ {
		vs = append(vs, limbsBy(func(i int) int64 { return rndIn(rng, k*bnd(i)) }))
	}
	return vs
}

func addLimbs(a, b fe, s int32) (l fe) {
	for i := range l {
		l[i] = a[i] + s*b[i]
	}
	return
}

var limbsP = canonLimbs(prime)

// limb vectors for feToBytes / feIsNegative / feIsNonZero: residues 0, ±1, p-1, p, p+k, -p … in tight and loose shapes
func feEdgeValues(rng *h.Rng) []fe {
	var vs []fe
	one := big.NewInt(1)
	small := []*big.Int{big.NewInt(0), one, big.NewInt(2), big.NewInt(18), big.NewInt(19), big.NewInt(20),
		new(big.Int).Sub(prime, one), new(big.Int).Sub(prime, two), new(big.Int).Rsh(prime, 1), new(big.Int).Add(new(big.Int).Rsh(prime, 1), one),
		pow2(254), new(big.Int).Sub(pow2(254), one), pow2(230), new(big.Int).Sub(pow2(230), one)}
	for _, v := range small {
		c, b := canonLimbs(v), balLimbs(v)
		vs = append(vs, c, b, addLimbs(b, limbsP, 1), addLimbs(b, limbsP, -1), addLimbs(c, limbsP, -1))
	}
	// non-canonical digit strings p+k (k = 0..18)
	for _, k := range []int64{0, 1, 2, 17, 18} {
		vs = append(vs, canonLimbs(new(big.Int).Add(prime, big.NewInt(k))))
	}
	// -1, -19, -20, -p, -p±1 with negative limbs
	for _, k := range []int32{-1, -19, -20, 19, 38} {
		var l fe
		l[0] = k
		vs = append(vs, l)
	}
	np := addLimbs(fe{}, limbsP, -1)
	vs = append(vs, np, addLimbs(np, fe{1}, 1), addLimbs(np, fe{1}, -1))
	// 2p, -2p, 3p as limb vectors (beyond 3×B: model = implementation only)
	vs = append(vs, addLimbs(limbsP, limbsP, 1), addLimbs(np, limbsP, -1), addLimbs(addLimbs(limbsP, limbsP, 1), limbsP, 1))
	// digit 4 at and above 2^25 (h[4] << 6 leaves int32), other digits random
	for _, d4 := range []int64{1<<26 - 1, 1 << 25, 1<<25 - 1, 1<<25 + 1} {
		v := rng.Big(pow2(255))
		c := canonLimbs(v)
		c[4] = int32(d4)
		vs = append(vs, c, addLimbs(c, limbsP, -1))
	}
	return vs
}

func genFe(rng *h.Rng, thorough bool, emit func(string)) {
	mult := 1
	if thorough {
		mult = 10
	}
	sh := func(l fe) string { return showFe(&l) }
	pats5 := []string{"fresh", "h=f", "h=g", "f=g", "all"}
	pats2 := []string{"fresh", "h=f"}
	// feMul: operands up to 3×B on both sides
	for kf := int64(1); kf <= 3; kf++ {
		for kg := int64(1); kg <= 3; kg++ {
			fs, gs := feOperands(rng, kf, 3, 8*mult), feOperands(rng, kg, 3, 8*mult)
			for i := 0; i < 5; i++ {
				for j := 0; j < 5; j++ {
					emit(fmt.Sprintf("fe mul fresh %s %s", sh(fs[i]), sh(gs[j])))
				}
			}
			for n := 0; n < 60*mult; n++ {
				pat := "fresh"
				if n%3 == 0 {
					pat = pats5[rng.Intn(5)]
				}
				emit(fmt.Sprintf("fe mul %s %s %s", pat, sh(fs[rng.Intn(len(fs))]), sh(gs[rng.Intn(len(gs))])))
			}
		}
	}
	for k := int64(1); k <= 3; k++ {
		for _, f := range feOperands(rng, k, 10, 12*mult) {
			for _, pat := range pats2 {
				emit(fmt.Sprintf("fe square %s %s", pat, sh(f)))
				emit(fmt.Sprintf("fe square2 %s %s", pat, sh(f)))
			}
			emit(fmt.Sprintf("fe mul f=g %s %s", sh(f), sh(f)))
			emit(fmt.Sprintf("fe mul all %s %s", sh(f), sh(f)))
		}
	}
	// beyond the contract (up to the int32 limit 58×B): int64 wrap-around, model = implementation only
	for _, k := range []int64{4, 8, 29, 58} {
		fs := feOperands(rng, k, 2, 3*mult)
		for i, f := range fs {
			emit(fmt.Sprintf("fe mul %s %s %s", pats5[i%5], sh(f), sh(fs[rng.Intn(len(fs))])))
			emit(fmt.Sprintf("fe square %s %s", pats2[i%2], sh(f)))
			emit(fmt.Sprintf("fe square2 %s %s", pats2[i%2], sh(f)))
		}
	}
	// feAdd / feSub: multipliers summing to at most 3, then up to the int32 limit (58 + 58 wraps)
	for _, kk := range [][2]int64{{1, 1}, {1, 2}, {2, 1}, {3, 0}, {29, 29}, {58, 0}, {57, 1}, {58, 58}, {58, 1}} {
		kb := kk[1]
		as := feOperands(rng, kk[0], 2, 4*mult)
		bs := []fe{{}}
		if kb > 0 {
			bs = feOperands(rng, kb, 2, 4*mult)
		}
		for i, a := range as {
			b := bs[i%len(bs)]
			if i >= 5 {
				b = bs[rng.Intn(len(bs))]
			}
			pat := pats5[i%5]
			emit(fmt.Sprintf("fe add %s %s %s", pat, sh(a), sh(b)))
			emit(fmt.Sprintf("fe sub %s %s %s", pat, sh(a), sh(b)))
			emit(fmt.Sprintf("fe sub %s %s %s", pats5[(i+2)%5], sh(b), sh(a)))
			emit(fmt.Sprintf("fe add fresh %s %s", sh(a), sh(bs[rng.Intn(len(bs))])))
		}
	}
	min32 := limbsBy(func(i int) int64 { return -1 << 31 })
	max32 := limbsBy(func(i int) int64 { return 1<<31 - 1 })
	for _, k := range []int64{1, 3, 58} {
		for i, f := range feOperands(rng, k, 2, 3*mult) {
			emit(fmt.Sprintf("fe neg %s %s", pats2[i%2], sh(f)))
			emit(fmt.Sprintf("fe copy %s %s", pats2[i%2], sh(f)))
		}
	}
	for _, f := range []fe{min32, max32, {}} {
		emit("fe neg fresh " + sh(f))
		emit("fe neg h=f " + sh(f))
		emit("fe copy fresh " + sh(f))
		emit("fe zero fresh " + sh(f))
		emit("fe one fresh " + sh(f))
	}
	emit("fe zero fresh " + sh(feOperands(rng, 58, 0, 1)[5]))
	emit("fe one fresh " + sh(feOperands(rng, 58, 0, 1)[5]))
	// feCMove
	cm := append(feOperands(rng, 3, 2, 6*mult), min32, max32, fe{})
	for i, f := range cm {
		g := cm[rng.Intn(len(cm))]
		emit(fmt.Sprintf("fe cmove fresh %s %s %d", sh(f), sh(g), i%2))
		emit(fmt.Sprintf("fe cmove fresh %s %s %d", sh(g), sh(f), 1-i%2))
		emit(fmt.Sprintf("fe cmove f=g %s %s %d", sh(f), sh(f), i%2))
	}
	for _, b := range []int64{2, -1, 3, 1<<31 - 1, -1 << 31, 256} {
		emit(fmt.Sprintf("fe cmove fresh %s %s %d", sh(cm[rng.Intn(len(cm))]), sh(cm[rng.Intn(len(cm))]), b))
	}
	// feToBytes / feIsNegative / feIsNonZero
	tb := feEdgeValues(rng)
	for k := int64(1); k <= 3; k++ {
		tb = append(tb, feOperands(rng, k, 3, 10*mult)...)
	}
	tb = append(tb, feOperands(rng, 4, 0, 2)...)
	tb = append(tb, feOperands(rng, 58, 0, 2)...)
	for i := 0; i < 10*mult; i++ {
		v := rng.Big(prime)
		tb = append(tb, canonLimbs(v), balLimbs(v))
	}
	for _, f := range tb {
		emit("fe tobytes fresh " + sh(f))
		emit("fe isneg fresh " + sh(f))
		emit("fe isnonzero fresh " + sh(f))
	}
	// feFromBytes
	one := big.NewInt(1)
	for _, v := range []*big.Int{big.NewInt(0), one, two, new(big.Int).Sub(prime, one), new(big.Int).Set(prime), new(big.Int).Add(prime, one),
		new(big.Int).Sub(pow2(255), one), pow2(255), new(big.Int).Sub(pow2(256), one), new(big.Int).Add(pow2(255), one),
		new(big.Int).Add(pow2(255), prime), pow2(254), new(big.Int).Sub(pow2(254), one)} {
		emit("fe frombytes fresh " + hx32(v))
	}
	for i := range feShift { // every limb boundary: the bits just below / at / above it, and the limb all ones
		s := feShift[i]
		emit("fe frombytes fresh " + hx32(pow2(s)))
		emit("fe frombytes fresh " + hx32(new(big.Int).Sub(pow2(s+feWidth[i]), pow2(s))))
		emit("fe frombytes fresh " + hx32(pow2(s+feWidth[i]-1)))
		emit("fe frombytes fresh " + hx32(new(big.Int).Sub(pow2(s+feWidth[i]-1), one)))
	}
	for i := 0; i < 60*mult; i++ {
		emit("fe frombytes fresh " + h.Hex(rng.Bytes(32)))
	}
	// feInvert / fePow22523 (each ≈ 265 field multiplications in the driver)
	iv := []fe{{}, {1}, balLimbs(new(big.Int).Sub(prime, one)), balLimbs(two), limbsP}
	iv = append(iv, feOperands(rng, 3, 1, 2)...)
	iv = append(iv, feOperands(rng, 1, 0, 1)[5], feOperands(rng, 58, 0, 1)[5])
	n := 0
	for i, f := range iv {
		if !thorough && i != 0 && i != 2 && rng.Intn(len(iv)) >= 3 {
			continue
		}
		emit(fmt.Sprintf("fe invert %s %s", pats2[n%2], sh(f)))
		emit(fmt.Sprintf("fe pow22523 %s %s", pats2[(n+1)%2], sh(f)))
		n++
	}
}

// ---------- generation: group operands ----------

func decodeHex(s string) apt {
	b, _ := hex.DecodeString(s)
	x, y, _, ok := bigDecode(b)
	if !ok {
		panic("generator: not a curve point: " + s)
	}
	return apt{x, y}
}

// extended representation (xZ, yZ, Z, xyZ) with the balanced limbs feMul leaves
func extOf(a apt, z *big.Int) (e ge4) {
	e[0], e[1], e[2], e[3] = balLimbs(mulP(a.x, z)), balLimbs(mulP(a.y, z)), balLimbs(z), balLimbs(mulP(mulP(a.x, a.y), z))
	return
}

// the shape FromBytes leaves when it flips the sign: X = -(canonical digits of -x), Z = 1
func extFlipped(a apt) (e ge4) {
	e = extOf(a, big.NewInt(1))
	e[0] = addLimbs(fe{}, canonLimbs(fmod(new(big.Int).Neg(a.x))), -1)
	e[2] = fe{1}
	return
}

// what ToCached makes of an extended element: limb-wise Y+X, Y-X, Z, and a reduced 2d·T
func cachedOf(e *ge4) (c ge4) {
	c[0], c[1], c[2] = addLimbs(e[1], e[0], 1), addLimbs(e[1], e[0], -1), e[2]
	c[3] = balLimbs(mulP(mulP(two, curveD), feRes(&e[3])))
	return
}

func preOf(a apt) (q ge3) {
	q[0] = balLimbs(new(big.Int).Add(a.y, a.x))
	q[1] = balLimbs(new(big.Int).Sub(a.y, a.x))
	q[2] = balLimbs(mulP(mulP(two, curveD), mulP(a.x, a.y)))
	return
}

func projOf(e *ge4) (p ge3) { p[0], p[1], p[2] = e[0], e[1], e[2]; return }

// completed ((xZ:Z),(yT:T)); loose = Z and T shifted by ±p limb-wise (up to 2.73×B)
func complOf(rng *h.Rng, a apt, loose bool) (c ge4) {
	z, t := nonZero(rng), nonZero(rng)
	c[0], c[1], c[2], c[3] = balLimbs(mulP(a.x, z)), balLimbs(mulP(a.y, t)), balLimbs(z), balLimbs(t)
	if loose {
		c[2] = addLimbs(c[2], limbsP, int32(1-2*rng.Intn(2)))
		c[3] = addLimbs(c[3], limbsP, int32(1-2*rng.Intn(2)))
	}
	return
}

func nonZero(rng *h.Rng) *big.Int {
	z := rng.Big(new(big.Int).Sub(prime, big.NewInt(1)))
	return z.Add(z, big.NewInt(1))
}

func randGe4(rng *h.Rng, k int64) (g ge4) {
	for i := range g {
		g[i] = limbsBy(func(j int) int64 { return rndIn(rng, k*bnd(j)) })
	}
	return
}

type gePoints struct {
	special []apt // identity, base, small order
	honest  []apt // multiples of B, also shifted by small-order points
}

func genPointsBig(rng *h.Rng, nHonest int) gePoints {
	var ps gePoints
	o8a := decodeHex("26e8958fc2b227b045c3f489f2ef98f0d5dfac05d3c63339b13802886d53fc05")
	o8b := decodeHex("c7176a703d4dd84fba3c0b760d10670f2a2053fa2c39ccc64ec7fd7792ac037a")
	o4 := decodeHex("0000000000000000000000000000000000000000000000000000000000000000") // (sqrt(-1), 0) up to sign
	o2 := apt{big.NewInt(0), new(big.Int).Sub(prime, big.NewInt(1))}
	ps.special = []apt{ptIdent, bigBase, o2, o4, bigNeg(o4), o8a, bigNeg(o8a), o8b, bigNeg(o8b)}
	ps.honest = []apt{bigMul(two, bigBase), bigMul(big.NewInt(8), bigBase), bigMul(new(big.Int).Sub(ell, big.NewInt(1)), bigBase)}
	for i := 0; i < nHonest; i++ {
		p := bigMul(rng.Big(ell), bigBase)
		if i%3 == 2 { // mixed order: an honest point plus a small-order point
			p = bigAdd(p, ps.special[2+rng.Intn(7)])
		}
		ps.honest = append(ps.honest, p)
	}
	return ps
}

func (ps gePoints) all() []apt { return append(append([]apt{}, ps.special...), ps.honest...) }

// an extended representation of a in one of the shapes that occur: Z = 1 / random Z / sign-flipped X
func extShape(rng *h.Rng, a apt, shape int) ge4 {
	switch shape % 3 {
	case 0:
		return extOf(a, big.NewInt(1))
	case 1:
		return extOf(a, nonZero(rng))
	}
	return extFlipped(a)
}

func scalarsFor(rng *h.Rng) (lo, hi []*big.Int) {
	one := big.NewInt(1)
	lo = []*big.Int{big.NewInt(0), one, big.NewInt(8), new(big.Int).Sub(ell, one), new(big.Int).Set(ell), new(big.Int).Add(ell, one),
		pow2(252), new(big.Int).Sub(pow2(253), one), new(big.Int).Sub(pow2(255), one), rng.Big(ell), rng.Big(pow2(255))}
	hi = []*big.Int{pow2(255), new(big.Int).Sub(pow2(256), one), new(big.Int).Add(pow2(255), rng.Big(pow2(255)))}
	return
}

func genGe(rng *h.Rng, thorough bool, emit func(string)) (smultHere bool) {
	mult := 1
	if thorough {
		mult = 10
	}
	ps := genPointsBig(rng, 6*mult)
	pts := ps.all()
	pick := func() apt { return pts[rng.Intn(len(pts))] }
	s4 := func(g ge4) string { return show4(&g) }
	s3 := func(g ge3) string { return show3(&g) }

	emit("ge baseext")
	emit("ge zero proj " + s3(junk3()))
	emit("ge zero ext " + s4(junk4()))
	emit("ge zero pre " + s3(junk3()))
	emit("ge zero cached " + s4(randGe4(rng, 58)))
	for _, b := range []int32{0, 1, -1, 8, -8, 9, 127, -128, 1<<31 - 1, -1 << 31} {
		emit(fmt.Sprintf("ge negative %d", b))
		for _, c := range []int32{0, 1, 8, b, -b, b + 1, b ^ (-1 << 31)} {
			emit(fmt.Sprintf("ge equal %d %d", b, c))
		}
	}

	// every method on every point (special points in all three shapes), second operand: every special point + random ones
	for i, a := range pts {
		shapes := 1
		if i < len(ps.special) || thorough {
			shapes = 3
		}
		for sh := 0; sh < shapes; sh++ {
			e := extShape(rng, a, sh+i)
			emit("ge neg fresh " + s4(e))
			emit("ge neg inplace " + s4(e))
			emit("ge tocached " + s4(e))
			emit("ge toproj " + s4(e))
			emit("ge extdouble " + s4(e))
			emit("ge double " + s3(projOf(&e)))
			emit("ge preneg " + s3(preOf(a)))
			emit("ge cachedneg " + s4(cachedOf(&e)))
			var qs []apt
			if sh == 0 && (i < len(ps.special) || thorough) {
				qs = append(qs, ps.special...)
			} else if sh == 0 {
				qs = append(qs, ps.special[rng.Intn(3)], ps.special[3+rng.Intn(6)])
			}
			qs = append(qs, a, bigNeg(a), pick(), pick())
			for j, q := range qs {
				qe := extShape(rng, q, j)
				emit(fmt.Sprintf("ge add %s %s", s4(e), s4(cachedOf(&qe))))
				emit(fmt.Sprintf("ge sub %s %s", s4(e), s4(cachedOf(&qe))))
				emit(fmt.Sprintf("ge madd %s %s", s4(e), s3(preOf(q))))
				emit(fmt.Sprintf("ge msub %s %s", s4(e), s3(preOf(q))))
			}
		}
		emit("ge c2ext " + s4(complOf(rng, a, false)))
		emit("ge c2proj " + s4(complOf(rng, a, false)))
		emit("ge c2ext " + s4(complOf(rng, a, true)))
		emit("ge c2proj " + s4(complOf(rng, a, true)))
	}

	// chains through the real routines: the limb shapes that actually occur (completed 2–3×B, sums of products)
	for n := 0; n < 12*mult; n++ {
		e := extShape(rng, pick(), n)
		qe := extShape(rng, pick(), n/3)
		q := cachedOf(&qe)
		pq := preOf(pick())
		for step := 0; step < 6; step++ {
			var c ge4
			switch rng.Intn(4) {
			case 0:
				emit(fmt.Sprintf("ge add %s %s", s4(e), s4(q)))
				edwards25519.VerifGeAdd(&c, &e, &q)
			case 1:
				emit(fmt.Sprintf("ge sub %s %s", s4(e), s4(q)))
				edwards25519.VerifGeSub(&c, &e, &q)
			case 2:
				emit(fmt.Sprintf("ge madd %s %s", s4(e), s3(pq)))
				edwards25519.VerifGeMixedAdd(&c, &e, &pq)
			default:
				emit(fmt.Sprintf("ge msub %s %s", s4(e), s3(pq)))
				edwards25519.VerifGeMixedSub(&c, &e, &pq)
			}
			emit("ge c2proj " + s4(c))
			var pr ge3
			edwards25519.VerifGeToProjective(&pr, &c)
			emit("ge double " + s3(pr))
			var c2 ge4
			edwards25519.VerifGeDouble(&c2, &pr)
			emit("ge c2ext " + s4(c2))
			edwards25519.VerifGeToExtended(&e, &c2)
			emit("ge tocached " + s4(e))
			if step%2 == 1 {
				edwards25519.VerifGeToCached(&q, &e)
				emit("ge cachedneg " + s4(q))
			}
		}
	}

	// conditional moves and table selection
	for n := 0; n < 6*mult; n++ {
		a, b := extShape(rng, pick(), n), extShape(rng, pick(), n+1)
		ca, cb := cachedOf(&a), cachedOf(&b)
		for _, sel := range []int32{0, 1} {
			emit(fmt.Sprintf("ge cachedcmove %s %s %d", s4(ca), s4(cb), sel))
			emit(fmt.Sprintf("ge precmove %s %s %d", s3(preOf(pick())), s3(preOf(pick())), sel))
		}
	}
	emit(fmt.Sprintf("ge cachedcmove %s %s 2", s4(randGe4(rng, 58)), s4(randGe4(rng, 58))))
	emit(fmt.Sprintf("ge precmove %s %s -1", s3(projOf(&ge4{limbsP})), s3(junk3())))
	for pos := int32(0); pos < 32; pos++ {
		for b := int32(-9); b <= 9; b++ {
			if thorough || pos == 0 || pos == 31 || ((b == -9 || b == 9) && pos%8 == 3) || rng.Intn(12) == 0 {
				emit(fmt.Sprintf("ge selpre %d %d", pos, b))
			}
		}
	}
	emit("ge selpre 7 127")
	emit("ge selpre 7 -128")
	for n := 0; n < 2*mult; n++ {
		// the table geScalarMult builds: cached 1A … 8A
		a := pick()
		acc := a
		toks := make([]string, 8)
		for i := range toks {
			e := extShape(rng, acc, i+n)
			toks[i] = s4(cachedOf(&e))
			acc = bigAdd(acc, a)
		}
		for b := int32(-9); b <= 9; b++ {
			if thorough || rng.Intn(3) == 0 || b == -8 || b == 0 || b == 8 {
				emit(fmt.Sprintf("ge selcached %d %s", b, strings.Join(toks, " ")))
			}
		}
	}

	// operands that are no curve points / beyond the limb contracts: model = implementation only
	for _, k := range []int64{1, 3, 8, 58} {
		for n := 0; n < 2*mult; n++ {
			a, b := randGe4(rng, k), randGe4(rng, k)
			emit(fmt.Sprintf("ge add %s %s", s4(a), s4(b)))
			emit(fmt.Sprintf("ge sub %s %s", s4(a), s4(b)))
			emit(fmt.Sprintf("ge madd %s %s", s4(a), s3(projOf(&b))))
			emit(fmt.Sprintf("ge msub %s %s", s4(a), s3(projOf(&b))))
			emit("ge double " + s3(projOf(&a)))
			emit("ge extdouble " + s4(b))
			emit("ge c2ext " + s4(a))
			emit("ge c2proj " + s4(b))
			emit("ge neg inplace " + s4(a))
			emit("ge tocached " + s4(b))
			emit("ge preneg " + s3(projOf(&a)))
			emit("ge cachedneg " + s4(b))
		}
	}

	// encodings (each ToBytes / FromBytes is ≈ 265 field multiplications in the driver)
	some := func(p int) bool { return thorough || rng.Intn(100) < p }
	for i, a := range pts {
		enc := hex.EncodeToString(bigEncode(a.x, a.y))
		if i < 3 || some(15) {
			emit("ge frombytes " + enc)
		}
		if i < 2 || some(20) {
			emit("ge tobytes " + s4(extShape(rng, a, i+1)))
		}
		if i == 1 || some(12) {
			c := complOf(rng, a, true)
			emit("ge ptobytes " + s3(projOf(&c))) // (xZ : yT : Z) is no projective point of a unless T = Z
			e := extOf(a, nonZero(rng))
			emit("ge ptobytes " + s3(projOf(&e)))
		}
	}
	// non-canonical y (p ≤ y < 2^255), x = 0 with the sign bit, candidates that are no squares
	for k := int64(0); k < 19; k++ {
		y := new(big.Int).Add(prime, big.NewInt(k))
		if k < 2 || k == 18 || some(10) {
			sign := rng.Intn(2)
			if thorough || sign == 0 {
				emit("ge frombytes " + hx32(y))
			}
			if thorough || sign == 1 {
				emit("ge frombytes " + hx32(new(big.Int).SetBit(new(big.Int).Set(y), 255, 1)))
			}
		}
	}
	emit("ge frombytes " + hx32(new(big.Int).SetBit(big.NewInt(1), 255, 1)))                          // x = 0, sign bit set, y = 1
	emit("ge frombytes " + hx32(new(big.Int).SetBit(new(big.Int).Sub(prime, big.NewInt(1)), 255, 1))) // x = 0, sign bit set, y = -1
	emit("ge frombytes " + hx32(two))                                                                 // y = 2: no point
	nr := 2
	if thorough {
		nr = 200
	}
	for i := 0; i < nr; i++ {
		emit("ge frombytes " + h.Hex(rng.Bytes(32)))
	}
	for _, l := range []int{0, 31, 33} {
		emit("ge frombytes " + h.Hex(rng.Bytes(l)))
	}
	emit("ge tobytes " + s4(randGe4(rng, 3)))
	emit("ge tobytes " + s4(ge4{{5}, {7}, {}, {1}})) // Z = 0

	// scalar multiplication (≈ 3000 field multiplications each in the driver)
	lo, hi := scalarsFor(rng)
	o8 := ps.special[5]
	if thorough {
		for i, s := range append(append([]*big.Int{}, lo...), hi...) {
			emit("ge smultbase " + hx32(s))
			for j, a := range []apt{bigBase, o8, ps.honest[3+i%(len(ps.honest)-3)]} {
				pat := "fresh"
				if (i+j)%4 == 3 {
					pat = "inplace"
				}
				emit(fmt.Sprintf("ge smult %s %s %s", pat, hx32(s), s4(extShape(rng, a, i+j))))
			}
		}
		emit(fmt.Sprintf("ge smult fresh %s %s", hx32(lo[9]), s4(extShape(rng, ptIdent, 0))))
		emit(fmt.Sprintf("ge smult fresh %s %s", hx32(lo[3]), s4(extShape(rng, ps.special[2], 0))))
		smultHere = true
	} else {
		emit("ge smultbase " + hx32(lo[rng.Intn(len(lo))]))
		emit("ge smultbase " + hx32(hi[rng.Intn(len(hi))]))
		// one multiplication within the contract per quick run: here or as `pt2 mul` (genPt2 draws the other half)
		a := []apt{bigBase, o8, ps.honest[3]}[rng.Intn(3)]
		pat := []string{"fresh", "inplace"}[rng.Intn(2)]
		if smultHere = rng.Intn(2) == 0; smultHere {
			emit(fmt.Sprintf("ge smult %s %s %s", pat, hx32(lo[rng.Intn(len(lo))]), s4(extShape(rng, a, rng.Intn(3)))))
		}
		emit(fmt.Sprintf("ge smult fresh %s %s", hx32(hi[rng.Intn(len(hi))]), s4(extShape(rng, pick(), rng.Intn(3)))))
	}
	return
}

func genPt2(rng *h.Rng, thorough, smultDone bool, emit func(string)) {
	ps := genPointsBig(rng, 4)
	pts := ps.all()
	enc := func(a apt) string { return hex.EncodeToString(bigEncode(a.x, a.y)) }
	lo, hi := scalarsFor(rng)
	emit("pt2 base")
	emit("pt2 null")
	if thorough {
		for i, a := range pts {
			q := pts[(i*5+3)%len(pts)]
			emit(fmt.Sprintf("pt2 add %s %s", enc(a), enc(q)))
			emit(fmt.Sprintf("pt2 sub %s %s", enc(a), enc(q)))
			emit(fmt.Sprintf("pt2 add %s %s", enc(a), enc(a)))
			emit(fmt.Sprintf("pt2 sub %s %s", enc(a), enc(a)))
			emit("pt2 neg " + enc(a))
			emit("pt2 unmarshal " + enc(a))
			emit(fmt.Sprintf("pt2 equal %s %s", enc(a), enc(q)))
			emit(fmt.Sprintf("pt2 equal %s %s", enc(a), enc(a)))
		}
		for i, s := range append(append([]*big.Int{}, lo...), hi...) {
			emit("pt2 mulbase " + hx32(s))
			emit(fmt.Sprintf("pt2 mul %s %s", hx32(s), enc(pts[(i*3+1)%len(pts)])))
		}
		for i := 0; i < 20; i++ {
			emit("pt2 unmarshal " + h.Hex(rng.Bytes(32)))
		}
	} else {
		a, q := pts[rng.Intn(len(pts))], pts[rng.Intn(len(pts))]
		if rng.Intn(2) == 0 {
			emit(fmt.Sprintf("pt2 add %s %s", enc(a), enc(q)))
		} else {
			emit(fmt.Sprintf("pt2 sub %s %s", enc(q), enc(a)))
		}
		emit("pt2 neg " + enc(pts[rng.Intn(len(pts))]))
		emit("pt2 unmarshal " + h.Hex(rng.Bytes(32)))
		if rng.Intn(2) == 0 {
			emit(fmt.Sprintf("pt2 equal %s %s", enc(a), enc(a)))
		} else {
			emit(fmt.Sprintf("pt2 equal %s %s", enc(a), enc(q)))
		}
		emit("pt2 mulbase " + hx32(lo[rng.Intn(len(lo))]))
		if !smultDone {
			emit(fmt.Sprintf("pt2 mul %s %s", hx32(lo[rng.Intn(len(lo))]), enc(pts[1+rng.Intn(len(pts)-1)])))
		}
	}
	// Equal on pairs of points whose encodings differ in ONE place only (review 5-F finding 1: a comparison loop that
	// skips a byte): (P, -P) differ in bit 255 alone; the same y with byte 0 / the low bits of byte 31 / a middle byte changed
	neq := 2
	if thorough {
		neq = 12
	}
	for i := 0; i < neq; i++ {
		pe := ed25519Pub(rng.Bytes(32))
		flip := append([]byte{}, pe...)
		flip[31] ^= 0x80
		emit(fmt.Sprintf("pt2 equal %s %s", h.Hex(pe), h.Hex(flip)))
		emit(fmt.Sprintf("pt2 equal %s %s", h.Hex(flip), h.Hex(pe)))
		for _, pos := range []int{0, 31, 1 + rng.Intn(30)} {
			for d := 1; d < 128; d++ {
				q := append([]byte{}, pe...)
				q[pos] ^= byte(d)
				if _, _, _, ok := bigDecode(q); ok {
					emit(fmt.Sprintf("pt2 equal %s %s", h.Hex(pe), h.Hex(q)))
					break
				}
			}
		}
	}
	// non-canonical encodings of y = 1 (x = 0) and y = 0, wrong lengths
	emit("pt2 unmarshal " + hx32(new(big.Int).Add(prime, big.NewInt(1))))
	emit("pt2 unmarshal " + h.Hex(rng.Bytes(31)))
}

func genFeGe(rng *h.Rng, thorough bool, emit func(string)) {
	genFe(rng, thorough, emit)
	genPt2(rng, thorough, genGe(rng, thorough, emit), emit)
}

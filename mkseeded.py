#!/usr/bin/env python3
"""Regenerates the seeded-changes table of DESIGN.md §13.3 from seeded/*/meta.json."""
import json, glob, os, re
root = os.path.dirname(os.path.abspath(__file__))
rows = []
for m in sorted(glob.glob(os.path.join(root, "seeded", "*", "meta.json"))):
    d = json.load(open(m))
    rows.append("| `%s` | %s | %s | %s |" % (d["id"], d["breaks_property"], d["needs_to_manifest"].replace("|", "/"), d["check_result"].replace("|", "/")))
table = "| seeded change (seeded/<id>/) | property | needs, in order to manifest | result of my checks |\n|---|---|---|---|\n" + "\n".join(rows)
p = os.path.join(root, "DESIGN.md")
s = open(p).read()
s = re.sub(r"<!-- SEEDED-TABLE-BEGIN -->.*?<!-- SEEDED-TABLE-END -->", "<!-- SEEDED-TABLE-BEGIN -->\n" + table + "\n<!-- SEEDED-TABLE-END -->", s, flags=re.S)
open(p, "w").write(s)
print(len(rows), "rows")
